import FlytModel.GoIR.Worlds
import FlytModel.Expected.IR
import FlytModel.Refine.Item
import FlytModel.Refine.Seq
/-!
# Refinement: the translated `runBatch` (Expected/IR.lean) against the model's `Flyt.runBatch`

* `runBatch_refines` — in `batchWorld` (the user's batch prep / post callbacks, the node's batch settings, `ToSlice`, the two
  executors as the model's `itemsSeq` / `itemsSerialPool`), the IR of `runBatch` run by the GoIR interpreter returns exactly the
  events, the context and the outcome of the model's `runBatch` — for every configuration, script and initial context,
  without side conditions.
* `runBatch_refines_of_le` — the same for every fuel at or above `batchFuel scr` (= number of prep values + 21).

Proof shape: the body is cut into named pieces (`Batch.body_eq`, by `rfl`); one lemma per world operation (`Batch.W_*`), the
world stays folded during symbolic execution; `Batch.wrap_loop` is the induction for the `range` loops that wrap the prep
values (`items[i] = NewResult(item)`: the allocated cell ends up as `l.map newResult`); `Batch.switch_*` are the three
branches of the type switch, `Batch.tail_empty` / `tail_seq` / `tail_pool` the rest of the function, compared with the
model through `Batch.obs` (what `runBatchIR` reads off the final configuration).
-/
namespace Flyt.Refine
open Flyt Flyt.GoIR
set_option linter.unusedSimpArgs false

namespace Batch

/-! ### the pieces of the function body -/

def sPrep : Stmt := .define ["prepResult", "err"] E[(.mcall (.var "node") "Prep" E[(.var "ctx"), (.var "shared")])]
def sPrepErr : Stmt :=
  .ifS B[] (.bin "!=" (.var "err") (.var "nil")) B[
    (.ret E[(.str ""), (.call "fmt.Errorf" E[(.str "run: prep failed: %w"), (.var "err")])])] B[]
def sDecl : Stmt := .declare "items" "[]Result"
/-- `items[i] = NewResult(item)` -/
def wrapBody : Block :=
  B[(.assign E[(.index (.var "items") (.var "i"))] E[(.call "NewResult" E[(.var "item")])])]
def caseResults : Block := B[(.assign E[(.var "items")] E[(.var "v")])]
def caseAnys : Block := B[
  (.assign E[(.var "items")] E[(.call "make" E[(.var "[]Result"), (.call "len" E[(.var "v")])])]),
  (.rangeS "i" "item" (.var "v") wrapBody)]
def caseDefault : Block := B[
  (.define ["slice"] E[(.call "ToSlice" E[(.var "prepResult")])]),
  (.assign E[(.var "items")] E[(.call "make" E[(.var "[]Result"), (.call "len" E[(.var "slice")])])]),
  (.rangeS "i" "item" (.var "slice") wrapBody)]
def sSwitch : Stmt :=
  .typeSwitch "v" (.var "prepResult") (Cases.ofList [
    ((.lit "types" E[(.var "[]Result")]), caseResults),
    ((.lit "types" E[(.var "[]any")]), caseAnys),
    ((.var "default"), caseDefault)])
/-- `if err != nil { return "", fmt.Errorf("run: post failed: %w", err) }; if action == "" { action = DefaultAction }; return action, nil` -/
def postTail : Block := B[
  (.ifS B[] (.bin "!=" (.var "err") (.var "nil")) B[
    (.ret E[(.str ""), (.call "fmt.Errorf" E[(.str "run: post failed: %w"), (.var "err")])])] B[]),
  (.ifS B[] (.bin "==" (.var "action") (.str "")) B[
    (.assign E[(.var "action")] E[(.var "DefaultAction")])] B[]),
  (.ret E[(.var "action"), (.var "nil")])]
def sEmpty : Stmt :=
  .ifS B[] (.bin "==" (.call "len" E[(.var "items")]) (.int 0))
    (.cons (.define ["action", "err"] E[(.mcall (.var "node") "Post" E[(.var "ctx"), (.var "shared"), (.lit "[]Result" E[]), (.lit "[]Result" E[])])])
      postTail) B[]
def sCfg : Stmt :=
  (.ifS B[(.define ["baseNode", "ok"] E[(.assert (.var "node") "*BaseNode")])] (.var "ok") B[
    (.assign E[(.var "concurrency")] E[(.mcall (.var "baseNode") "GetBatchConcurrency" E[])]),
    (.assign E[(.var "errorHandling")] E[(.mcall (.var "baseNode") "GetBatchErrorHandling" E[])])] B[(.ifS B[(.define ["customNode", "ok"] E[(.assert (.var "node") "*CustomNode")])] (.var "ok") B[
    (.assign E[(.var "concurrency")] E[(.mcall (.var "customNode") "GetBatchConcurrency" E[])]),
    (.assign E[(.var "errorHandling")] E[(.mcall (.var "customNode") "GetBatchErrorHandling" E[])])] B[(.ifS B[(.define ["batchNode", "ok"] E[(.assert (.var "node") "*BatchNode")])] (.var "ok") B[
    (.assign E[(.var "concurrency")] E[(.mcall (.var "batchNode") "GetBatchConcurrency" E[])]),
    (.assign E[(.var "errorHandling")] E[(.mcall (.var "batchNode") "GetBatchErrorHandling" E[])])] B[(.ifS B[(.define ["batchBuilder", "ok"] E[(.assert (.var "node") "*BatchNodeBuilder")])] (.var "ok") B[
    (.assign E[(.var "concurrency")] E[(.mcall (.var "batchBuilder") "GetBatchConcurrency" E[])]),
    (.assign E[(.var "errorHandling")] E[(.mcall (.var "batchBuilder") "GetBatchErrorHandling" E[])])] B[])])])])
def sExec : Stmt :=
  .ifS B[] (.bin ">" (.var "concurrency") (.int 0)) B[
    (.expr (.call "runBatchConcurrent" E[(.var "ctx"), (.var "node"), (.var "items"), (.var "results"), (.var "concurrency"), (.var "errorHandling")]))] B[
    (.expr (.call "runBatchSequential" E[(.var "ctx"), (.var "node"), (.var "items"), (.var "results"), (.var "errorHandling")]))]
/-- everything after the empty-batch branch -/
def mainTail : Block :=
  .cons (.declare "concurrency" "int") (.cons (.define ["errorHandling"] E[(.str "continue")]) (.cons sCfg
    (.cons (.define ["results"] E[(.call "make" E[(.var "[]Result"), (.call "len" E[(.var "items")])])]) (.cons sExec
      (.cons (.define ["action", "err"] E[(.mcall (.var "node") "Post" E[(.var "ctx"), (.var "shared"), (.var "items"), (.var "results")])])
        postTail)))))

/-- the translated body is these pieces put together (checked by `rfl`: nothing is restated by hand) -/
theorem body_eq : Flyt.Expected.IR.runBatch.body =
    .cons sPrep (.cons sPrepErr (.cons sDecl (.cons sSwitch (.cons sEmpty mainTail)))) := rfl

/-! ### `fmt.Errorf` formats -/

theorem containsW_prep : containsW "run: prep failed: %w" = true := by
  have h := Item.auxF_eq 60 "run: prep failed: %w" "%w" 0 0 0 [] _
    (by decide : _ = some ["run: prep failed: ", ""])
  simp [containsW, String.splitOn, h]

theorem containsW_post : containsW "run: post failed: %w" = true := by
  have h := Item.auxF_eq 60 "run: post failed: %w" "%w" 0 0 0 [] _
    (by decide : _ = some ["run: post failed: ", ""])
  simp [containsW, String.splitOn, h]

/-! ### the batch world, operation by operation -/

section
variable (kind : CtxKind) (n : NodeId) (v : Nat) (sid : StoreId) (cfg : BatchCfg) (scr : BatchScript)

local notation "W" => batchWorld kind n v cfg scr

theorem W_global : (W).global "DefaultAction" = some (.str defaultAction) := rfl
theorem W_assert_base (m : NodeId) (w : SeqW) : (W).assert (.node m) "*BaseNode" w = some (.nil, false) := rfl
theorem W_assert_custom (m : NodeId) (w : SeqW) : (W).assert (.node m) "*CustomNode" w = some (.nil, false) := rfl
theorem W_assert_batch (m : NodeId) (w : SeqW) : (W).assert (.node m) "*BatchNode" w = some (.node m, true) := rfl
theorem W_assert_slice_res (a o k : Nat) (w : SeqW) : (W).assert (.slice a o k) "[]Result" w = some (.slice a o k, true) := rfl
theorem W_assert_anys_res (l : List Val) (w : SeqW) : (W).assert (.anys l) "[]Result" w = some (.nil, false) := rfl
theorem W_assert_anys_any (l : List Val) (w : SeqW) : (W).assert (.anys l) "[]any" w = some (.anys l, true) := rfl
theorem W_assert_ref_res (k : String) (i : Nat) (w : SeqW) : (W).assert (.ref k i) "[]Result" w = some (.nil, false) := rfl
theorem W_assert_ref_any (k : String) (i : Nat) (w : SeqW) : (W).assert (.ref k i) "[]any" w = some (.nil, false) := rfl
theorem W_assert_nil_res (w : SeqW) : (W).assert .nil "[]Result" w = some (.nil, false) := rfl
theorem W_assert_nil_any (w : SeqW) : (W).assert .nil "[]any" w = some (.nil, false) := rfl
theorem W_conc (m : NodeId) (h : Heap) (w : SeqW) :
    (W).mcall (.node m) "GetBatchConcurrency" [] h w = some ([.int cfg.conc], h, w) := rfl
theorem W_errh (m : NodeId) (h : Heap) (w : SeqW) :
    (W).mcall (.node m) "GetBatchErrorHandling" [] h w = some ([.str (ehOf cfg)], h, w) := rfl

theorem W_prep (m : NodeId) (a : GV) (h : Heap) (w : SeqW) :
    (W).mcall (.node m) "Prep" [a, storeH sid] h w =
      (match scr.prep.res with
       | .error e => some ([.nil, .err (.user e)], h, ⟨w.evs ++ [.bprep n v sid], w.ctx.after kind scr.prep.cancels⟩)
       | .ok l =>
         match cfg.shape with
         | .results => some ([.slice h.length 0 l.length, .nil], h ++ [l.map toResult], ⟨w.evs ++ [.bprep n v sid], w.ctx.after kind scr.prep.cancels⟩)
         | .anys => some ([.anys l, .nil], h, ⟨w.evs ++ [.bprep n v sid], w.ctx.after kind scr.prep.cancels⟩)
         | .typed => some ([.ref "typed" 0, .nil], h, ⟨w.evs ++ [.bprep n v sid], w.ctx.after kind scr.prep.cancels⟩)
         | .single => some ([.ref "single" 0, .nil], h, ⟨w.evs ++ [.bprep n v sid], w.ctx.after kind scr.prep.cancels⟩)
         | .nilv => some ([.nil, .nil], h, ⟨w.evs ++ [.bprep n v sid], w.ctx.after kind scr.prep.cancels⟩)) := rfl

theorem W_toSlice (a : GV) (h : Heap) (w : SeqW) :
    (W).call "ToSlice" [a] h w =
      (match scr.prep.res with
       | .ok l =>
         (match cfg.shape with
          | .typed => some ([.anys l], h, w)
          | .single => some ([.anys (l.take 1)], h, w)
          | .nilv => some ([.anys []], h, w)
          | _ => none)
       | _ => none) := rfl

theorem cfg_stop_eq : { cfg with stop := ehOf cfg == "stop" } = cfg := by
  cases cfg with
  | mk budget wait fb conc stop execS hasPost shape => cases stop <;> simp [ehOf]

theorem cfg_stop_conc_eq : { cfg with stop := ehOf cfg == "stop", conc := (cfg.conc : Int).toNat } = cfg := by
  cases cfg with
  | mk budget wait fb conc stop execS hasPost shape => cases stop <;> simp [ehOf]

theorem itemsSerialPool_length (items : List Result) : ∀ (i : Nat) (st : Bool) (ctx : Ctx),
    (itemsSerialPool kind n v cfg scr items i st ctx).2.2.length = items.length := by
  induction items with
  | nil => intro i st ctx; simp [itemsSerialPool]
  | cons it rest ih =>
    intro i st ctx
    simp only [itemsSerialPool]
    split
    · simp [ih]
    · cases ctx with
      | done kd => simp [ih]
      | live =>
        simp only
        rcases runItem kind n v cfg i it (scr.item i) .live with ⟨ev1, ctx1, (s | e)⟩
        · simp [ih]
        · simp [ih]

theorem W_seq (a b : GV) (items : List Result) (w : SeqW) :
    (W).call "runBatchSequential" [a, b, .slice 0 0 items.length, .slice 1 0 items.length, .str (ehOf cfg)]
        [items, List.replicate items.length ⟨Val.nil, none⟩] w
      = some ([], [items, (itemsSeq kind n v cfg scr items 0 w.ctx).2.2],
          ⟨w.evs ++ (itemsSeq kind n v cfg scr items 0 w.ctx).1, (itemsSeq kind n v cfg scr items 0 w.ctx).2.1⟩) := by
  have hl := itemsSeq_length kind n v cfg scr items 0 w.ctx
  simp [batchWorld, readWindow, writeWindow, cfg_stop_eq, hl]

theorem W_pool (a b : GV) (items : List Result) (w : SeqW) :
    (W).call "runBatchConcurrent" [a, b, .slice 0 0 items.length, .slice 1 0 items.length, .int cfg.conc, .str (ehOf cfg)]
        [items, List.replicate items.length ⟨Val.nil, none⟩] w
      = some ([], [items, (itemsSerialPool kind n v cfg scr items 0 false w.ctx).2.2],
          ⟨w.evs ++ (itemsSerialPool kind n v cfg scr items 0 false w.ctx).1, (itemsSerialPool kind n v cfg scr items 0 false w.ctx).2.1⟩) := by
  have hl := itemsSerialPool_length kind n v cfg scr items 0 false w.ctx
  simp [batchWorld, readWindow, writeWindow, cfg_stop_conc_eq, cfg_stop_eq, hl]

/-- what the instrumented `Post` does, given the two slices it is handed -/
def postSem (items slots : List Result) (h : Heap) (w : SeqW) : Option (List GV × Heap × SeqW) :=
  if cfg.hasPost then
    match scr.post.res with
    | .ok a => some ([.str a, .nil], h,
        ⟨w.evs ++ [.bpost n v sid (items.map Result.box) (slots.map Result.box)], w.ctx.after kind scr.post.cancels⟩)
    | .error e => some ([.str (scr.post.junk.getD ""), .err (.user e)], h,
        ⟨w.evs ++ [.bpost n v sid (items.map Result.box) (slots.map Result.box)], w.ctx.after kind scr.post.cancels⟩)
  else some ([.str defaultAction, .nil], h, w)

theorem W_post (m : NodeId) (a its res : GV) (h : Heap) (w : SeqW) (items slots : List Result)
    (hi : readWindow h its = some items) (hs : readWindow h res = some slots) :
    (W).mcall (.node m) "Post" [a, storeH sid, its, res] h w = postSem kind n v sid cfg scr items slots h w := by
  simp only [batchWorld, postSem, storeH, storeIdOf, hi, hs]
  cases cfg.hasPost <;> simp <;> cases scr.post.res <;> rfl

theorem W_post_empty (m : NodeId) (a : GV) (c0 : List Result) (w : SeqW) :
    (W).mcall (.node m) "Post" [a, storeH sid, .slice 1 0 0, .slice 2 0 0] [c0, [], []] w
      = postSem kind n v sid cfg scr [] [] [c0, [], []] w :=
  W_post kind n v sid cfg scr m a _ _ _ w [] [] rfl rfl

theorem W_post_full (m : NodeId) (a : GV) (items slots : List Result) (w : SeqW) (hl : slots.length = items.length) :
    (W).mcall (.node m) "Post" [a, storeH sid, .slice 0 0 items.length, .slice 1 0 items.length] [items, slots] w
      = postSem kind n v sid cfg scr items slots [items, slots] w :=
  W_post kind n v sid cfg scr m a _ _ _ w items slots (by simp [readWindow]) (by simp [readWindow, ← hl])

end

/-! ### the loop that wraps the prep values: `for i, item := range v { items[i] = NewResult(item) }` -/

section
variable {Ω : Type} (W : World Ω)

theorem wrap_step (env : GoIR.Env) (a N i : Nat) (x : Val) (h : Heap) (cell : List Result) (w : Ω)
    (he : env.get "items" = some (.slice a 0 N)) (hc : h[a]? = some cell) (hi : i < N) (hlen : cell.length = N) (c : Nat) :
    execBlock W (c + 6) wrapBody ⟨("item", GV.ofVal x) :: ("i", .int i) :: env, h, w⟩
      = some (.next, ⟨("item", GV.ofVal x) :: ("i", .int i) :: env, h.set a (cell.set i (newResult x)), w⟩) := by
  have h2 : i < cell.length := by omega
  simp [wrapBody, execBlock, execStmt, evalRhs, isCommaOk, evalExpr, evalArgs, GoIR.Env.get, assignAll, assignTo,
    Exprs.toList, Exprs.length, heapSet, mkNewResult, Item.toVal_ofVal, he, hc, hi, h2]

theorem popTo_cons2 (env : GoIR.Env) (p q : String × GV) : GoIR.Env.popTo (p :: q :: env) env.length = env := by
  have e : (p :: q :: env).length - env.length = 2 := by simp; omega
  simp only [GoIR.Env.popTo, e, List.drop_succ_cons, List.drop_zero]

theorem wrap_loop (env : GoIR.Env) (a N : Nat) (w : Ω) (he : env.get "items" = some (.slice a 0 N)) (c : Nat) :
    ∀ (l : List Val) (i : Nat) (h : Heap) (cell : List Result), h[a]? = some cell → i + l.length = N → cell.length = N →
    loopAnys W (l.length + c + 7) "i" "item" l i wrapBody ⟨env, h, w⟩
      = some (.next, ⟨env, h.set a (cell.take i ++ l.map newResult), w⟩) := by
  intro l
  induction l with
  | nil =>
    intro i h cell hc hik hlen
    have ht : cell.take i = cell := by apply List.take_of_length_le; simp at hik; omega
    simp [loopAnys, ht, set_same _ _ _ hc]
  | cons x rest ih =>
    intro i h cell hc hik hlen
    have hi : i < N := by simp at hik; omega
    have h2 : i < cell.length := by omega
    have ha : a < h.length := (List.getElem?_eq_some_iff.1 hc).1
    rw [show (x :: rest).length + c + 7 = (rest.length + c + 7) + 1 from by simp; omega, loopAnys]
    simp only [GoIR.Env.push, show ("item" == "_") = false from by decide, show ("i" == "_") = false from by decide,
      Bool.false_eq_true, if_false]
    rw [show rest.length + c + 7 = (rest.length + c + 1) + 6 from by omega, wrap_step W env a N i x h cell w he hc hi hlen]
    simp only [popSt, popTo_cons2]
    rw [show rest.length + c + 1 + 6 = rest.length + c + 7 from by omega,
      ih (i + 1) _ (cell.set i (newResult x)) (by simp [ha]) (by simp at hik ⊢; omega) (by simpa using hlen)]
    congr 2
    rw [List.set_set]
    congr 1
    rw [take_set_succ _ _ _ h2]
    simp

end

/-! ### environments along the function -/

def env0 (n : NodeId) (sid : StoreId) : GoIR.Env := [("shared", storeH sid), ("node", .node n), ("ctx", ctxH)]
/-- before the type switch -/
def envS (n : NodeId) (sid : StoreId) (pr : GV) : GoIR.Env :=
  ("items", .nil) :: ("err", .nil) :: ("prepResult", pr) :: env0 n sid
/-- after the type switch: `items` is the window `[0, N)` of cell 0 -/
def envT (n : NodeId) (sid : StoreId) (pr : GV) (N : Nat) : GoIR.Env :=
  ("items", .slice 0 0 N) :: ("err", .nil) :: ("prepResult", pr) :: env0 n sid

/-- symbolic execution of straight-line code -/
macro "bsimp" "[" ts:Lean.Parser.Tactic.simpLemma,* "]" : tactic =>
  `(tactic| simp [Item.execBlock_cons, Item.execBlock_nil, execStmt, evalRhs, isCommaOk, evalCommaOk, evalExpr, evalArgs, switchCases,
      Cases.ofList, GoIR.Env.get, GoIR.Env.set, GoIR.Env.push, GoIR.Env.pushAll, popSt, GoIR.Env.popTo, assignAll, assignTo,
      Exprs.toList, Exprs.length, zeroOf, intBin, GV.eqv, GV.isNil, errorf, env0, envS, envT,
      W_global, W_assert_base, W_assert_custom, W_assert_batch, W_assert_slice_res, W_assert_anys_res, W_assert_anys_any,
      W_assert_ref_res, W_assert_ref_any, W_assert_nil_res, W_assert_nil_any, W_conc, W_errh, W_toSlice,
      containsW_prep, containsW_post, $ts,*])

section
variable (kind : CtxKind) (n : NodeId) (v : Nat) (sid : StoreId) (cfg : BatchCfg) (scr : BatchScript)

local notation "W" => batchWorld kind n v cfg scr

/-- statements 1–3 when prep fails -/
theorem prefix_err (e : Nat) (hp : scr.prep.res = .error e) (f : Nat) (rest : Block) (ctx : Ctx) :
    execBlock W (f + 12) (.cons sPrep (.cons sPrepErr rest)) ⟨env0 n sid, [], ⟨[], ctx⟩⟩
      = some (.ret [.str "", .err (.user e)],
          ⟨("err", .err (.user e)) :: ("prepResult", .nil) :: env0 n sid, [], ⟨[.bprep n v sid], ctx.after kind scr.prep.cancels⟩⟩) := by
  bsimp [sPrep, sPrepErr, W_prep, hp]

/-- statements 1–3 when prep succeeds -/
theorem prefix_ok (pr : GV) (h' : Heap) (w' : SeqW) (ctx : Ctx)
    (hprep : (W).mcall (.node n) "Prep" [ctxH, storeH sid] [] ⟨[], ctx⟩ = some ([pr, .nil], h', w'))
    (f : Nat) (rest : Block) :
    execBlock W (f + 8) (.cons sPrep (.cons sPrepErr (.cons sDecl rest))) ⟨env0 n sid, [], ⟨[], ctx⟩⟩
      = execBlock W (f + 5) rest ⟨envS n sid pr, h', w'⟩ := by
  bsimp [sPrep, sPrepErr, sDecl, hprep]

/-- the type switch, `case []Result` -/
theorem switch_results (a N : Nat) (h : Heap) (w : SeqW) (f : Nat) :
    execStmt W (f + 8) sSwitch ⟨envS n sid (.slice a 0 N), h, w⟩
      = some (.next, ⟨("items", .slice a 0 N) :: ("err", .nil) :: ("prepResult", .slice a 0 N) :: env0 n sid, h, w⟩) := by
  bsimp [sSwitch, caseResults]

/-- the type switch, `case []any` -/
theorem switch_anys (l : List Val) (w : SeqW) (c : Nat) :
    execStmt W (l.length + c + 13) sSwitch ⟨envS n sid (.anys l), [], w⟩
      = some (.next, ⟨envT n sid (.anys l) l.length, [l.map newResult], w⟩) := by
  have hl := wrap_loop W (("v", .anys l) :: ("items", .slice 0 0 l.length) :: ("err", .nil) :: ("prepResult", .anys l) :: env0 n sid)
    0 l.length w (by simp [GoIR.Env.get]) c l 0 [List.replicate l.length ⟨Val.nil, none⟩] (List.replicate l.length ⟨Val.nil, none⟩)
    rfl (by omega) (by simp)
  simp only [env0] at hl
  bsimp [sSwitch, caseAnys, hl]

/-- the type switch, `default` -/
theorem switch_default (pr : GV) (l : List Val)
    (hA1 : ∀ w, (W).assert pr "[]Result" w = some (.nil, false)) (hA2 : ∀ w, (W).assert pr "[]any" w = some (.nil, false))
    (hts : ∀ h w, (W).call "ToSlice" [pr] h w = some ([.anys l], h, w)) (w : SeqW) (c : Nat) :
    execStmt W (l.length + c + 15) sSwitch ⟨envS n sid pr, [], w⟩
      = some (.next, ⟨envT n sid pr l.length, [l.map newResult], w⟩) := by
  have hl := wrap_loop W (("slice", .anys l) :: ("v", pr) :: ("items", .slice 0 0 l.length) :: ("err", .nil) :: ("prepResult", pr) :: env0 n sid)
    0 l.length w (by simp [GoIR.Env.get]) c l 0 [List.replicate l.length ⟨Val.nil, none⟩] (List.replicate l.length ⟨Val.nil, none⟩)
    rfl (by omega) (by simp)
  simp only [env0] at hl
  simp [Item.execBlock_cons, Item.execBlock_nil, execStmt, evalRhs, isCommaOk, evalCommaOk, evalExpr, evalArgs, switchCases,
      Cases.ofList, GoIR.Env.get, GoIR.Env.set, GoIR.Env.push, GoIR.Env.pushAll, popSt, GoIR.Env.popTo, assignAll, assignTo,
      Exprs.toList, Exprs.length, env0, envS, envT, sSwitch, caseDefault, hA1, hA2, hts, hl]

/-- what `runBatchIR` reads off the final configuration -/
def obs : Option (Ctl × St SeqW) → Option (List Ev × Ctx × Outcome)
  | some (.ret rs, st) => (outcomeOf rs).map fun o => (st.w.evs, st.w.ctx, o)
  | _ => none

theorem runBatchIR_eq (fuel : Nat) (ctx : Ctx) :
    runBatchIR fuel Flyt.Expected.IR.runBatch kind n v sid cfg scr ctx
      = obs (execBlock W fuel Flyt.Expected.IR.runBatch.body ⟨env0 n sid, [], ⟨[], ctx⟩⟩) := by
  have hr : Flyt.Expected.IR.runBatch.recv = "" := rfl
  have hp : Flyt.Expected.IR.runBatch.params = ["ctx", "node", "shared"] := rfl
  simp [runBatchIR, callFunc, hr, hp, GoIR.Env.pushAll, GoIR.Env.push, env0]
  rcases execBlock W fuel Flyt.Expected.IR.runBatch.body _ with _ | ⟨c, st⟩
  · rfl
  · cases c <;> simp [obs, outcomeOf]

/-- the empty batch: `Post` with two empty slices -/
theorem tail_empty (pr : GV) (ctx1 : Ctx) (rest : Block) (c : Nat) :
    obs (execBlock W (c + 16) (.cons sEmpty rest) ⟨envT n sid pr 0, [[]], ⟨[.bprep n v sid], ctx1⟩⟩)
      = some (if cfg.hasPost then
                match scr.post.res with
                | .error e => ([.bprep n v sid, .bpost n v sid [] []], ctx1.after kind scr.post.cancels, .err (.user e))
                | .ok a => ([.bprep n v sid, .bpost n v sid [] []], ctx1.after kind scr.post.cancels, .ok (norm a))
              else ([.bprep n v sid], ctx1, .ok defaultAction)) := by
  cases hhp : cfg.hasPost
  · bsimp [sEmpty, postTail, W_post_empty, postSem, hhp, obs, outcomeOf, defaultAction]
  · cases hpr : scr.post.res with
    | error e => bsimp [sEmpty, postTail, W_post_empty, postSem, hhp, hpr, obs, outcomeOf]
    | ok a =>
      by_cases ha : a = ""
      · subst ha
        bsimp [sEmpty, postTail, W_post_empty, postSem, hhp, hpr, obs, outcomeOf, norm]
      · have hb : (a == "") = false := by simp [ha]
        bsimp [sEmpty, postTail, W_post_empty, postSem, hhp, hpr, obs, outcomeOf, norm, ha, hb]

/-- the model's `runBatch` once the items are known to be non-empty, over the executor's result `r` -/
def fullModel (items : List Result) (r : List Ev × Ctx × List Result) : List Ev × Ctx × Outcome :=
  if cfg.hasPost then
    match scr.post.res with
    | .error e => ([.bprep n v sid] ++ r.1 ++ [.bpost n v sid (items.map Result.box) (r.2.2.map Result.box)],
        r.2.1.after kind scr.post.cancels, .err (.user e))
    | .ok a => ([.bprep n v sid] ++ r.1 ++ [.bpost n v sid (items.map Result.box) (r.2.2.map Result.box)],
        r.2.1.after kind scr.post.cancels, .ok (norm a))
  else ([.bprep n v sid] ++ r.1, r.2.1, .ok defaultAction)

macro "tail_exec" "[" ts:Lean.Parser.Tactic.simpLemma,* "]" : tactic =>
  `(tactic| bsimp [sEmpty, mainTail, sCfg, sExec, postTail, W_seq, W_pool, W_post_full, postSem, obs, outcomeOf, fullModel,
      itemsSeq_length, itemsSerialPool_length, $ts,*])

/-- a non-empty batch, sequential executor -/
theorem tail_seq (pr : GV) (items : List Result) (hne : items ≠ []) (hc : ¬ cfg.conc > 0) (ctx1 : Ctx) (c : Nat) :
    obs (execBlock W (c + 17) (.cons sEmpty mainTail) ⟨envT n sid pr items.length, [items], ⟨[.bprep n v sid], ctx1⟩⟩)
      = some (fullModel kind n v sid cfg scr items (itemsSeq kind n v cfg scr items 0 ctx1)) := by
  have h0 : ((items.length : Int) == 0) = false := by
    cases items with
    | nil => exact absurd rfl hne
    | cons x xs => simp; omega
  have h1 : ¬ (0 < cfg.conc) := hc
  have h2 : cfg.conc = 0 := by omega
  cases hhp : cfg.hasPost
  · tail_exec [h0, h1, h2, hhp, defaultAction]
  · cases hpr : scr.post.res with
    | error e => tail_exec [h0, h1, h2, hhp, hpr]
    | ok a =>
      by_cases ha : a = ""
      · subst ha
        tail_exec [h0, h1, h2, hhp, hpr, norm]
      · have hb : (a == "") = false := by simp [ha]
        tail_exec [h0, h1, h2, hhp, hpr, norm, ha, hb]

/-- a non-empty batch, concurrent executor (serial schedule) -/
theorem tail_pool (pr : GV) (items : List Result) (hne : items ≠ []) (hc : cfg.conc > 0) (ctx1 : Ctx) (c : Nat) :
    obs (execBlock W (c + 17) (.cons sEmpty mainTail) ⟨envT n sid pr items.length, [items], ⟨[.bprep n v sid], ctx1⟩⟩)
      = some (fullModel kind n v sid cfg scr items (itemsSerialPool kind n v cfg scr items 0 false ctx1)) := by
  have h0 : ((items.length : Int) == 0) = false := by
    cases items with
    | nil => exact absurd rfl hne
    | cons x xs => simp; omega
  have h1 : 0 < cfg.conc := hc
  cases hhp : cfg.hasPost
  · tail_exec [h0, h1, hhp, defaultAction]
  · cases hpr : scr.post.res with
    | error e => tail_exec [h0, h1, hhp, hpr]
    | ok a =>
      by_cases ha : a = ""
      · subst ha
        tail_exec [h0, h1, hhp, hpr, norm]
      · have hb : (a == "") = false := by simp [ha]
        tail_exec [h0, h1, hhp, hpr, norm, ha, hb]

/-- the model's `runBatch` from the normalised items on -/
def modelTail (items : List Result) (ctx1 : Ctx) : List Ev × Ctx × Outcome :=
  if items.isEmpty then
    if cfg.hasPost then
      let ctx2 := ctx1.after kind scr.post.cancels
      match scr.post.res with
      | .error e => ([.bprep n v sid, .bpost n v sid [] []], ctx2, .err (.user e))
      | .ok a => ([.bprep n v sid, .bpost n v sid [] []], ctx2, .ok (norm a))
    else ([.bprep n v sid], ctx1, .ok defaultAction)
  else
    let (iev, ctx2, slots) :=
      if cfg.conc > 0 then itemsSerialPool kind n v cfg scr items 0 false ctx1
      else itemsSeq kind n v cfg scr items 0 ctx1
    if cfg.hasPost then
      let ctx3 := ctx2.after kind scr.post.cancels
      let pe := Ev.bpost n v sid (items.map Result.box) (slots.map Result.box)
      match scr.post.res with
      | .error e => ([.bprep n v sid] ++ iev ++ [pe], ctx3, .err (.user e))
      | .ok a => ([.bprep n v sid] ++ iev ++ [pe], ctx3, .ok (norm a))
    else ([.bprep n v sid] ++ iev, ctx2, .ok defaultAction)

theorem runBatch_eq (ctx : Ctx) :
    Flyt.runBatch kind n v sid cfg scr ctx =
      (match scr.prep.res with
       | .error e => ([.bprep n v sid], ctx.after kind scr.prep.cancels, .err (.user e))
       | .ok l => modelTail kind n v sid cfg scr (normItems cfg.shape l) (ctx.after kind scr.prep.cancels)) := rfl

/-- everything after the type switch -/
theorem tail_spec (pr : GV) (items : List Result) (N : Nat) (hN : N = items.length) (ctx1 : Ctx) (c : Nat) :
    obs (execBlock W (c + 17) (.cons sEmpty mainTail) ⟨envT n sid pr N, [items], ⟨[.bprep n v sid], ctx1⟩⟩)
      = some (modelTail kind n v sid cfg scr items ctx1) := by
  subst hN
  by_cases hne : items = []
  · subst hne
    have h := tail_empty kind n v sid cfg scr pr ctx1 mainTail (c + 1)
    simpa [modelTail] using h
  · have hie : items.isEmpty = false := by cases items <;> simp_all
    by_cases hc : cfg.conc > 0
    · rw [tail_pool kind n v sid cfg scr pr items hne hc]
      unfold modelTail fullModel
      rcases itemsSerialPool kind n v cfg scr items 0 false ctx1 with ⟨iev, ctx2, slots⟩
      simp [modelTail, fullModel, hie, hc]
    · rw [tail_seq kind n v sid cfg scr pr items hne hc]
      unfold modelTail fullModel
      rcases itemsSeq kind n v cfg scr items 0 ctx1 with ⟨iev, ctx2, slots⟩
      simp [modelTail, fullModel, hie, hc]

/-- statements 1–4 when prep succeeds, given what the type switch does -/
theorem through_switch (pr : GV) (h' : Heap) (w' : SeqW) (ctx : Ctx) (st1 : St SeqW) (f : Nat)
    (hprep : (W).mcall (.node n) "Prep" [ctxH, storeH sid] [] ⟨[], ctx⟩ = some ([pr, .nil], h', w'))
    (hsw : execStmt W (f + 4) sSwitch ⟨envS n sid pr, h', w'⟩ = some (.next, st1)) :
    execBlock W (f + 8) Flyt.Expected.IR.runBatch.body ⟨env0 n sid, [], ⟨[], ctx⟩⟩
      = execBlock W (f + 4) (.cons sEmpty mainTail) st1 := by
  rw [body_eq, prefix_ok kind n v sid cfg scr pr h' w' ctx hprep, show f + 5 = (f + 4) + 1 from rfl, Item.execBlock_cons, hsw]

end

/-- number of values the batch prep returns -/
def prepLen (scr : BatchScript) : Nat :=
  match scr.prep.res with
  | .ok l => l.length
  | .error _ => 0

theorem runBatch_refines_fuel (kind : CtxKind) (n : NodeId) (v : Nat) (sid : StoreId) (cfg : BatchCfg) (scr : BatchScript)
    (ctx : Ctx) (c : Nat) :
    GoIR.runBatchIR (prepLen scr + c + 21) Flyt.Expected.IR.runBatch kind n v sid cfg scr ctx
      = some (Flyt.runBatch kind n v sid cfg scr ctx) := by
  rw [runBatchIR_eq, runBatch_eq]
  cases hp : scr.prep.res with
  | error e =>
    rw [body_eq, show prepLen scr + c + 21 = (prepLen scr + c + 9) + 12 from by omega, prefix_err kind n v sid cfg scr e hp]
    simp [obs, outcomeOf]
  | ok l =>
    have hL : prepLen scr = l.length := by simp [prepLen, hp]
    rw [hL, show l.length + c + 21 = (l.length + c + 13) + 8 from by omega]
    simp only []
    have hf : l.length + c + 13 + 4 = (l.length + c) + 17 := by omega
    cases hS : cfg.shape with
    | results =>
      have hprep : (batchWorld kind n v cfg scr).mcall (.node n) "Prep" [ctxH, storeH sid] [] ⟨[], ctx⟩
          = some ([.slice 0 0 l.length, .nil], [l.map toResult], ⟨[.bprep n v sid], ctx.after kind scr.prep.cancels⟩) := by
        simp [W_prep, hp, hS]
      rw [through_switch kind n v sid cfg scr _ _ _ ctx _ _ hprep
        (by rw [show l.length + c + 13 + 4 = (l.length + c + 9) + 8 from by omega]; exact switch_results kind n v sid cfg scr 0 l.length _ _ _), hf]
      exact tail_spec kind n v sid cfg scr _ (l.map toResult) l.length (by simp) _ _
    | anys =>
      have hprep : (batchWorld kind n v cfg scr).mcall (.node n) "Prep" [ctxH, storeH sid] [] ⟨[], ctx⟩
          = some ([.anys l, .nil], [], ⟨[.bprep n v sid], ctx.after kind scr.prep.cancels⟩) := by
        simp [W_prep, hp, hS]
      rw [through_switch kind n v sid cfg scr _ _ _ ctx _ _ hprep
        (by rw [show l.length + c + 13 + 4 = l.length + (c + 4) + 13 from by omega]; exact switch_anys kind n v sid cfg scr l _ _), hf]
      exact tail_spec kind n v sid cfg scr _ (l.map newResult) l.length (by simp) _ _
    | typed =>
      have hprep : (batchWorld kind n v cfg scr).mcall (.node n) "Prep" [ctxH, storeH sid] [] ⟨[], ctx⟩
          = some ([.ref "typed" 0, .nil], [], ⟨[.bprep n v sid], ctx.after kind scr.prep.cancels⟩) := by
        simp [W_prep, hp, hS]
      rw [through_switch kind n v sid cfg scr _ _ _ ctx _ _ hprep
        (by rw [show l.length + c + 13 + 4 = l.length + (c + 2) + 15 from by omega]
            exact switch_default kind n v sid cfg scr _ l (fun _ => rfl) (fun _ => rfl) (by simp [W_toSlice, hp, hS]) _ _), hf]
      exact tail_spec kind n v sid cfg scr _ (l.map newResult) l.length (by simp) _ _
    | single =>
      have hprep : (batchWorld kind n v cfg scr).mcall (.node n) "Prep" [ctxH, storeH sid] [] ⟨[], ctx⟩
          = some ([.ref "single" 0, .nil], [], ⟨[.bprep n v sid], ctx.after kind scr.prep.cancels⟩) := by
        simp [W_prep, hp, hS]
      have hle : (l.take 1).length ≤ l.length := by simp; omega
      rw [through_switch kind n v sid cfg scr _ _ _ ctx _ _ hprep
        (by rw [show l.length + c + 13 + 4 = (l.take 1).length + (l.length - (l.take 1).length + c + 2) + 15 from by omega]
            exact switch_default kind n v sid cfg scr _ (l.take 1) (fun _ => rfl) (fun _ => rfl) (by simp [W_toSlice, hp, hS]) _ _), hf]
      exact tail_spec kind n v sid cfg scr _ ((l.take 1).map newResult) (l.take 1).length (by simp) _ _
    | nilv =>
      have hprep : (batchWorld kind n v cfg scr).mcall (.node n) "Prep" [ctxH, storeH sid] [] ⟨[], ctx⟩
          = some ([.nil, .nil], [], ⟨[.bprep n v sid], ctx.after kind scr.prep.cancels⟩) := by
        simp [W_prep, hp, hS]
      rw [through_switch kind n v sid cfg scr _ _ _ ctx _ _ hprep
        (by rw [show l.length + c + 13 + 4 = ([] : List Val).length + (l.length + c + 2) + 15 from by simp]
            exact switch_default kind n v sid cfg scr _ [] (fun _ => rfl) (fun _ => rfl) (by simp [W_toSlice, hp, hS]) _ _), hf]
      exact tail_spec kind n v sid cfg scr _ [] 0 rfl _ _

end Batch

/-- interpreter fuel for `runBatch`: one level per prep value (the `range` loop that wraps them) plus a constant -/
def batchFuel (scr : BatchScript) : Nat := Batch.prepLen scr + 21

/-- **the translated `runBatch` refines the model's `runBatch`**, for every interpreter fuel `≥ batchFuel scr` -/
theorem runBatch_refines_of_le (kind : CtxKind) (n : NodeId) (v : Nat) (sid : StoreId) (cfg : BatchCfg) (scr : BatchScript)
    (ctx : Ctx) (fuel : Nat) (hf : batchFuel scr ≤ fuel) :
    GoIR.runBatchIR fuel Flyt.Expected.IR.runBatch kind n v sid cfg scr ctx
      = some (Flyt.runBatch kind n v sid cfg scr ctx) := by
  obtain ⟨c, rfl⟩ := Nat.exists_eq_add_of_le hf
  rw [show batchFuel scr + c = Batch.prepLen scr + c + 21 from by unfold batchFuel; omega]
  exact Batch.runBatch_refines_fuel kind n v sid cfg scr ctx c

theorem runBatch_refines (kind : CtxKind) (n : NodeId) (v : Nat) (sid : StoreId) (cfg : BatchCfg) (scr : BatchScript)
    (ctx : Ctx) :
    GoIR.runBatchIR (batchFuel scr) Flyt.Expected.IR.runBatch kind n v sid cfg scr ctx
      = some (Flyt.runBatch kind n v sid cfg scr ctx) :=
  runBatch_refines_of_le kind n v sid cfg scr ctx (batchFuel scr) (Nat.le_refl _)

end Flyt.Refine
