import FlytModel.GoIR.SubmitWorld
import FlytModel.GoIR.TaskWorld
import FlytModel.Expected.IR
import FlytModel.Refine.Run
import FlytModel.Refine.Pool
import FlytModel.Refine.ConcSerial
/-!
# Refinement: the SUBMITTER of `runBatchConcurrent` (batch.go:257-302) — the goroutine that executes the function itself

`Refine/ConcSerial.lean` runs `runBatchConcurrent` on the serial schedule, `Refine/Task.lean` follows one task goroutine for ALL
schedules. Here the interpreter follows the goroutine that executes `runBatchConcurrent` in `submitWorld` (`GoIR/SubmitWorld.lean`),
a world in which `pool.Submit(closure)` does NOT run the closure.

| theorem | statement |
|---|---|
| `submitStmt_exec` | ANY world that does not run the closure: the statement `pool.Submit(func() {…})` is ONE method call of the world, `mcall pool "Submit" [closure]`; environment untouched |
| `concBody_env` | ANY world, ANY environment: iteration `k` of the loop is the `Submit` statement executed in the environment extended by `idx ↦ k`, `itm ↦ items[k]` (the per-iteration copies) |
| `captured_at_submit` | in that environment the variables the task closure captures (`TaskW.captured`) have exactly the values `TaskW.taskArgs results eh k items[k] node` — what `Refine/Task.lean` runs task `k` with — and `shouldStop` is `false` |
| `submit_loop` | the loop, by induction on the remaining items: `submit i items[i], …, submit (n-1) items[n-1]`, heap and environment unchanged |
| `submitter_refines_of_le` | for every item list (anywhere in the heap), every value of `ctx` / `node` / `results` / `errorHandling`, every `concurrency`, at EVERY depth `≥ items.length + 11`: the call returns nothing, leaves the heap as it was (`results` is not written), and its actions are `newPool c, deferClose, submit 0 items[0], …, submit (n-1) items[n-1], wait` and then the deferred `close` |
| `submitter_trace`, `submitted_eq`, `submit_nth` | corollaries: the trace of a fresh world is `submitterTrace`; one task per item, in index order, each with ITS OWN index and item |

Fuel: `items.length + 11` is the least depth at which a non-empty list is not stuck (`SubmitTest.lean`); one level per iteration.

Interpreter: `Interp.lean`, in which a closure handed to a method that does not run it (`invokes` = false) is passed as the opaque
closure value `.ref "closure" 0` (`stmt_expr_closure` below is that case of `execStmt`, by `rfl`). The other unfolding lemmas are those of
`Refine/Run.lean` / `Refine/Pool.lean`.
-/
namespace Flyt.Refine.Submit
open Flyt Flyt.GoIR Flyt.GoIR.SubmitW Flyt.Refine
set_option autoImplicit false
set_option linter.unusedSimpArgs false
set_option linter.unusedVariables false

/-! ## unfolding lemmas for the constructors `Refine/Run.lean` / `Refine/Pool.lean` do not cover -/

section steps
variable {Ω : Type} (W : World Ω)

theorem stmt_range (f : Nat) (k v : String) (x : Expr) (body : Block) (st : St Ω) :
    execStmt W (f + 1) (.rangeS k v x body) st =
      match evalExpr W f x st with
      | some ([.slice ad off n], st1) => loopRange W f k v ad off n 0 body st1
      | some ([.anys l], st1) => loopAnys W f k v l 0 body st1
      | some ([.nil], st1) => some (.next, st1)
      | some ([m], st1) =>
        (match W.rangeOf m st1.w with
         | some kvs => loopPairs W f k v kvs body st1
         | none => none)
      | _ => none := rfl
/-- a closure handed to a method: run in place if the world says the method runs it at once, otherwise passed as an opaque value -/
theorem stmt_expr_closure (f : Nat) (recv : Expr) (m : String) (ps : List String) (body : Block) (st : St Ω) :
    execStmt W (f + 1) (.expr (.mcall recv m (.cons (.funcLit ps body) .nil))) st =
      (match evalExpr W f recv st with
       | some ([r], st1) =>
         if W.invokes r m then
           match execBlock W f body st1 with
           | some (.next, st2) => some (.next, popSt st2 st1.env.length)
           | some (.ret _, st2) => some (.next, popSt st2 st1.env.length)
           | _ => none
         else
           (match W.mcall r m [.ref "closure" 0] st1.heap st1.w with
            | some (_, h, w) => some (.next, { st1 with heap := h, w := w })
            | none => none)
       | _ => none) := rfl
theorem loopRange_succ (f : Nat) (k v : String) (ad off n i : Nat) (body : Block) (st : St Ω) :
    loopRange W (f + 1) k v ad off n i body st =
      if i < n then
        match heapGet st.heap ad (off + i) with
        | none => none
        | some r =>
          (match execBlock W f body { st with env := (st.env.push k (.int i)).push v (.result r) } with
           | some (.brk, st2) => some (.next, popSt st2 st.env.length)
           | some (.ret vs, st2) => some (.ret vs, popSt st2 st.env.length)
           | some (_, st2) => loopRange W f k v ad off n (i + 1) body (popSt st2 st.env.length)
           | none => none)
      else some (.next, st) := rfl
end steps

/-! ## the `Submit` statement and the loop body, in ANY world -/

/-- `pool.Submit(func() {…task…})` -/
def submitStmt : Stmt := .expr (.mcall (.var "pool") "Submit" E[(.funcLit [] closBody)])

theorem concBody_eq : concBody = B[(.define ["idx"] E[(.var "i")]), (.define ["itm"] E[(.var "item")]), submitStmt] := rfl

section anyWorld
variable {Ω : Type} (W : World Ω)

/-- In a world whose `Submit` does not run the closure it is handed, the statement `pool.Submit(func() {…})` is exactly ONE method
    call of the world — receiver the value of `pool`, argument the opaque closure value — and leaves the environment as it is. -/
theorem submitStmt_exec (f : Nat) (env : GoIR.Env) (h : Heap) (w : Ω) (p : GV) (hp : env.get "pool" = some p)
    (hinv : W.invokes p "Submit" = false) :
    execStmt W (f + 2) submitStmt ⟨env, h, w⟩ =
      (match W.mcall p "Submit" [.ref "closure" 0] h w with
       | some (_, h', w') => some (.next, ⟨env, h', w'⟩)
       | none => none) := by
  simp [submitStmt, stmt_expr_closure, expr_var, hp, hinv]

/-- **The per-iteration copies.** Iteration `k` of `for i, item := range items { idx := i; itm := item; pool.Submit(…) }`, in ANY
    world and ANY enclosing environment: the body is the `Submit` statement executed in the environment extended by `idx ↦ k` and
    `itm ↦ item` — fresh bindings of THIS iteration, which is what the closure captures. -/
theorem concBody_env (f k : Nat) (item : Result) (env : GoIR.Env) (h : Heap) (w : Ω) :
    execBlock W (f + 5) concBody ⟨("item", .result item) :: ("i", .int k) :: env, h, w⟩ =
      (match execStmt W (f + 2) submitStmt
          ⟨("itm", .result item) :: ("idx", .int k) :: ("item", .result item) :: ("i", .int k) :: env, h, w⟩ with
       | some (.next, st1) => some (.next, st1)
       | r => r) := by
  simp only [concBody_eq, block_cons, stmt_define, evalRhs, isCommaOk, List.length_cons, List.length_nil]
  simp [expr_var, Env.get, Env.pushAll, Env.push]
  cases execStmt W (f + 2) submitStmt
      ⟨("itm", .result item) :: ("idx", .int k) :: ("item", .result item) :: ("i", .int k) :: env, h, w⟩ with
  | none => rfl
  | some x =>
    obtain ⟨c, st1⟩ := x
    cases c <;> simp [block_nil]
end anyWorld

/-! ## what the closure captures at the `k`-th `Submit` -/

/-- environment of the loop of `runBatchConcurrent`: the three locals on top of the six parameters; `shouldStop` is `false` -/
def sEnv (ctx node : GV) (ia off n : Nat) (results : GV) (conc : Int) (eh : GV) (p : GV) : GoIR.Env :=
  [("shouldStop", .bool false), ("mu", .ref "mutex" 0), ("pool", p),
   ("errorHandling", eh), ("concurrency", .int conc), ("results", results), ("items", .slice ia off n),
   ("node", node), ("ctx", ctx)]

/-- environment of the `Submit` statement of iteration `k`, the item being `item` -/
def submitEnv (ctx node : GV) (ia off n : Nat) (results : GV) (conc : Int) (eh : GV) (p : GV) (k : Nat) (item : Result) : GoIR.Env :=
  ("itm", .result item) :: ("idx", .int k) :: ("item", .result item) :: ("i", .int k) :: sEnv ctx node ia off n results conc eh p

/-- **What task `k` captures.** In the environment of the `k`-th `Submit` statement the variables the task closure captures
    (`TaskW.captured` = `mu, errorHandling, results, idx, itm, ctx, node`) have exactly the values `TaskW.taskArgs results eh k item node`
    with which `Refine/Task.lean` runs the task of item `k` (`runTask` / `runTaskHeap`: `task_closure_refines_of_le`, `task_labels`, …) —
    ITS OWN index and item; and the shared flag `shouldStop`, which the closure reaches by reference, is `false`: the submitter never
    writes it (only tasks do, under `mu`: `Task.task_discipline`). -/
theorem captured_at_submit (node results p : GV) (ia off n : Nat) (conc : Int) (eh : String) (k : Nat) (item : Result) :
    TaskW.captured.map (submitEnv TaskW.ctxRef node ia off n results conc (.str eh) p k item).get =
      (TaskW.taskArgs results eh k item node).map some ∧
    (submitEnv TaskW.ctxRef node ia off n results conc (.str eh) p k item).get "shouldStop" = some (.bool false) := by
  constructor <;> rfl

/-! ## projections of `submitWorld` -/

theorem W_newPool (c : Int) (h : Heap) (w : SW) :
    submitWorld.call "NewWorkerPool" [.int c] h w = some ([poolH], h, emit w (.newPool c)) := rfl
theorem W_deferClose (i : Nat) (h : Heap) (w : SW) :
    submitWorld.mcall (.ref "pool" i) "defer:Close" [] h w =
      some ([], h, { emit w .deferClose with defers := .close :: w.defers }) := rfl
theorem W_submit (i j : Nat) (h : Heap) (w : SW) :
    submitWorld.mcall (.ref "pool" i) "Submit" [.ref "closure" j] h w = onSubmit h w := rfl
theorem W_wait (i : Nat) (h : Heap) (w : SW) : submitWorld.mcall (.ref "pool" i) "Wait" [] h w = some ([], h, emit w .wait) := rfl
/-- no method of this world runs a closure -/
theorem W_invokes (r : GV) (m : String) : submitWorld.invokes r m = false := rfl
theorem W_global (x : String) : submitWorld.global x = none := rfl
theorem W_callVar (fn : String) (fv : GV) : submitWorld.callVar fn fv = submitWorld.call fn := rfl

/-! ## the loop -/

/-- one iteration in `submitWorld`: one `submit`, of the item at the loop position; heap untouched -/
theorem sbody (ctx node results eh : GV) (ia off n : Nat) (conc : Int) (k : Nat) (item : Result) (h : Heap)
    (tr ds : List SAct) (hget : heapGet h ia (off + k) = some item) (f : Nat) :
    execBlock submitWorld (f + 5) concBody
        ⟨("item", .result item) :: ("i", .int k) :: sEnv ctx node ia off n results conc eh poolH, h, ⟨tr, ds, ia, off, k⟩⟩ =
      some (.next, ⟨submitEnv ctx node ia off n results conc eh poolH k item, h, ⟨tr ++ [.submit k item], ds, ia, off, k + 1⟩⟩) := by
  rw [concBody_env, submitStmt_exec submitWorld f _ h _ poolH rfl (W_invokes _ _)]
  simp [poolH, W_submit, onSubmit, hget, emit, submitEnv]

theorem submitsFrom_append (i : Nat) (a b : List Result) :
    submitsFrom i (a ++ b) = submitsFrom i a ++ submitsFrom (i + a.length) b := by
  induction a generalizing i with
  | nil => simp [submitsFrom]
  | cons x t ih => simp [submitsFrom, ih, Nat.add_assoc, Nat.add_comm 1]

/-- the loop from index `i` on, `k` iterations to go: `submit i items[i], …`; environment and heap as before -/
theorem submit_loop (ctx node results eh : GV) (ia off : Nat) (conc : Int) (items : List Result) (h : Heap)
    (hget : ∀ j (hj : j < items.length), heapGet h ia (off + j) = some items[j]) (ds : List SAct) (c k : Nat) :
    ∀ (i : Nat) (tr : List SAct), i + k = items.length →
    loopRange submitWorld (k + c + 5) "i" "item" ia off items.length i concBody
        ⟨sEnv ctx node ia off items.length results conc eh poolH, h, ⟨tr, ds, ia, off, i⟩⟩ =
      some (.next, ⟨sEnv ctx node ia off items.length results conc eh poolH, h,
        ⟨tr ++ submitsFrom i (items.drop i), ds, ia, off, items.length⟩⟩) := by
  induction k with
  | zero =>
    intro i tr hik
    have hi : i = items.length := by omega
    subst hi
    rw [show 0 + c + 5 = (c + 4) + 1 from by omega]
    simp [loopRange_succ, submitsFrom]
  | succ k ih =>
    intro i tr hik
    have hi : i < items.length := by omega
    have hd : items.drop i = items[i] :: items.drop (i + 1) := List.drop_eq_getElem_cons hi
    rw [show k + 1 + c + 5 = (k + c + 5) + 1 from by omega, loopRange_succ]
    simp only [hi, if_true, hget i hi]
    have hp : Env.push (Env.push (sEnv ctx node ia off items.length results conc eh poolH) "i" (.int i)) "item" (.result items[i])
        = ("item", .result items[i]) :: ("i", .int i) :: sEnv ctx node ia off items.length results conc eh poolH := by
      simp [Env.push]
    rw [hp, show k + c + 5 = (k + c) + 5 from by omega, sbody ctx node results eh ia off items.length conc i items[i] h tr ds (hget i hi)]
    have hpop : popSt (Ω := SW) ⟨submitEnv ctx node ia off items.length results conc eh poolH i items[i], h,
          ⟨tr ++ [.submit i items[i]], ds, ia, off, i + 1⟩⟩ (sEnv ctx node ia off items.length results conc eh poolH).length =
        ⟨sEnv ctx node ia off items.length results conc eh poolH, h, ⟨tr ++ [.submit i items[i]], ds, ia, off, i + 1⟩⟩ := rfl
    simp only [hpop]
    rw [ih (i + 1) _ (by omega), hd]
    simp [submitsFrom, -List.getElem_cons_drop]

/-! ## the function -/

theorem rbc_recv : Flyt.Expected.IR.runBatchConcurrent.recv = "" := rfl
theorem rbc_params :
    Flyt.Expected.IR.runBatchConcurrent.params = ["ctx", "node", "items", "results", "concurrency", "errorHandling"] := rfl

/-- the body at depth `items.length + 11 + c`: `close` is pending when `Wait` has returned -/
theorem submitter_core (ctx node results eh : GV) (ia off : Nat) (conc : Int) (items : List Result) (h : Heap)
    (hget : ∀ j (hj : j < items.length), heapGet h ia (off + j) = some items[j]) (tr ds : List SAct) (c : Nat) :
    runBody (items.length + 11 + c) Flyt.Expected.IR.runBatchConcurrent
        (submitterArgs ctx node ia off items.length results conc eh) h ⟨tr, ds, ia, off, 0⟩ =
      some ([], h, ⟨tr ++ bodyTrace conc items, .close :: ds, ia, off, items.length⟩) := by
  have hl := submit_loop ctx node results eh ia off conc items h hget (.close :: ds) c items.length 0
    (tr ++ [.newPool conc, .deferClose]) (by omega)
  simp only [sEnv, poolH, List.drop_zero] at hl
  simp [runBody, callFunc, submitterArgs, rbc_recv, rbc_params, runBatchConcurrent_body, Env.pushAll, Env.push,
    show items.length + 11 + c = items.length + c + 5 + 1 + 1 + 1 + 1 + 1 + 1 from by omega,
    block_cons, block_nil, stmt_define, stmt_declare, Pool.stmt_defer, stmt_range, Pool.stmt_expr_mcall_nil,
    evalRhs, isCommaOk, expr_var, expr_call, expr_mcall, args_one, args_nil, Env.get, zeroOf,
    W_newPool, W_deferClose, W_wait, W_global, poolH, emit, hl, bodyTrace]

/-- **The submitter of `runBatchConcurrent`.** For every item list `items` — found in the heap as the window `[off, off + n)` of backing
    array `ia` —, every value of `ctx`, `node`, `results` and `errorHandling` (the submitter does not look at them), every
    `concurrency`, every earlier history of the world, at EVERY depth `≥ items.length + 11`: the call is not stuck, RETURNS NOTHING,
    leaves the HEAP exactly as it was (`items` and, if it lives there, `results`: the submitter writes no slot), and what it does to the
    pool is, in this order: `newPool concurrency`, `deferClose`, `submit k items[k]` for `k = 0, …, n-1`, `wait` — and then, at function
    exit, the deferred `close` (followed by whatever was pending before). Nothing else: any other request to the world is stuck. -/
theorem submitter_refines_of_le (ctx node results eh : GV) (ia off : Nat) (conc : Int) (items : List Result) (h : Heap)
    (hget : ∀ j (hj : j < items.length), heapGet h ia (off + j) = some items[j])
    (w : SW) (hia : w.ia = ia) (hoff : w.off = off) (hsub : w.submitted = 0) (fuel : Nat) (hf : items.length + 11 ≤ fuel) :
    runSubmitter fuel Flyt.Expected.IR.runBatchConcurrent (submitterArgs ctx node ia off items.length results conc eh) h w =
      some ([], h, { w with trace := w.trace ++ bodyTrace conc items ++ .close :: w.defers, defers := [],
                            submitted := items.length }) := by
  obtain ⟨c, rfl⟩ := Nat.exists_eq_add_of_le hf
  obtain ⟨tr, ds, ia', off', sub⟩ := w
  simp only at hia hoff hsub
  subst hia hoff hsub
  simp [runSubmitter, submitter_core ctx node results eh ia' off' conc items h hget tr ds c, exitDefers]

/-- the same before the function exit: `close` is still pending when `Wait` has returned -/
theorem submitter_body_of_le (ctx node results eh : GV) (ia off : Nat) (conc : Int) (items : List Result) (h : Heap)
    (hget : ∀ j (hj : j < items.length), heapGet h ia (off + j) = some items[j])
    (w : SW) (hia : w.ia = ia) (hoff : w.off = off) (hsub : w.submitted = 0) (fuel : Nat) (hf : items.length + 11 ≤ fuel) :
    runBody fuel Flyt.Expected.IR.runBatchConcurrent (submitterArgs ctx node ia off items.length results conc eh) h w =
      some ([], h, { w with trace := w.trace ++ bodyTrace conc items, defers := .close :: w.defers, submitted := items.length }) := by
  obtain ⟨c, rfl⟩ := Nat.exists_eq_add_of_le hf
  obtain ⟨tr, ds, ia', off', sub⟩ := w
  simp only at hia hoff hsub
  subst hia hoff hsub
  exact submitter_core ctx node results eh ia' off' conc items h hget tr ds c

/-- the items as a window of a longer backing array -/
theorem hget_window (h : Heap) (ia : Nat) (pre items post : List Result) (hc : h[ia]? = some (pre ++ items ++ post)) :
    ∀ j (hj : j < items.length), heapGet h ia (pre.length + j) = some items[j] := by
  intro j hj
  simp [heapGet, hc, List.getElem?_append_right, List.getElem?_append_left, hj]

/-- **A fresh world: the trace is `submitterTrace`.** `items` = backing array `ia` from offset `pre.length` on. -/
theorem submitter_trace (ctx node results eh : GV) (ia : Nat) (conc : Int) (pre items post : List Result) (h : Heap)
    (hc : h[ia]? = some (pre ++ items ++ post)) (fuel : Nat) (hf : items.length + 11 ≤ fuel) :
    view (runSubmitter fuel Flyt.Expected.IR.runBatchConcurrent
        (submitterArgs ctx node ia pre.length items.length results conc eh) h { ia := ia, off := pre.length }) =
      some ([], h, submitterTrace conc items, [], items.length) := by
  rw [submitter_refines_of_le ctx node results eh ia pre.length conc items h (hget_window h ia pre items post hc) _ rfl rfl rfl fuel hf]
  simp [view, submitterTrace]

/-- as `runBatch` calls it: `items` = array 0, `results` = array 1 of the heap -/
theorem submitter_trace_std (ctx node eh : GV) (conc : Int) (items res : List Result) (fuel : Nat) (hf : items.length + 11 ≤ fuel) :
    view (runSubmitter fuel Flyt.Expected.IR.runBatchConcurrent
        (submitterArgs ctx node 0 0 items.length (.slice 1 0 res.length) conc eh) [items, res] {}) =
      some ([], [items, res], submitterTrace conc items, [], items.length) := by
  have := submitter_trace ctx node (.slice 1 0 res.length) eh 0 conc [] items [] [items, res] (by simp) fuel hf
  simpa using this

/-! ## one task per item, in index order, each with its own index and item -/

theorem submitsFrom_eq (i : Nat) (items : List Result) :
    submitsFrom i items = (items.zipIdx i).map fun p => SAct.submit p.2 p.1 := by
  induction items generalizing i with
  | nil => rfl
  | cons x t ih => simp [submitsFrom, ih, List.zipIdx_cons]

theorem submitted_append (a b : List SAct) : submitted (a ++ b) = submitted a ++ submitted b := by
  induction a with
  | nil => rfl
  | cons x t ih => cases x <;> simp [submitted, ih]

theorem submitted_submitsFrom (i : Nat) (items : List Result) :
    submitted (submitsFrom i items) = (items.zipIdx i).map fun p => (p.2, p.1) := by
  induction items generalizing i with
  | nil => rfl
  | cons x t ih => simp [submitsFrom, submitted, ih, List.zipIdx_cons]

/-- the trace, with the loop spelled as a `map` over the items with their indices -/
theorem submitterTrace_eq (conc : Int) (items : List Result) :
    submitterTrace conc items =
      [.newPool conc, .deferClose] ++ (items.zipIdx.map fun p => SAct.submit p.2 p.1) ++ [.wait] ++ [.close] := by
  simp [submitterTrace, bodyTrace, submitsFrom_eq]

/-- the tasks submitted: item `k` with index `k`, for `k = 0, …, n-1`, in this order — no other, none twice -/
theorem submitted_eq (conc : Int) (items : List Result) :
    submitted (submitterTrace conc items) = items.zipIdx.map fun p => (p.2, p.1) := by
  simp [submitterTrace, bodyTrace, submitted_append, submitted_submitsFrom, submitted]

theorem submitted_length (conc : Int) (items : List Result) : (submitted (submitterTrace conc items)).length = items.length := by
  simp [submitted_eq]

/-- the `k`-th task is that of index `k` and item `items[k]` -/
theorem submit_nth (conc : Int) (items : List Result) (k : Nat) :
    (submitted (submitterTrace conc items))[k]? = items[k]?.map fun r => (k, r) := by
  simp [submitted_eq, List.getElem?_zipIdx]
  cases items[k]? <;> simp

theorem dropWhile_submitsFrom (i : Nat) (items : List Result) (rest : List SAct) :
    (submitsFrom i items ++ rest).dropWhile SAct.isSubmit = rest.dropWhile SAct.isSubmit := by
  induction items generalizing i with
  | nil => rfl
  | cons x t ih => simp [submitsFrom, List.dropWhile_cons, ih, SAct.isSubmit]

/-- shape: the pool is made first, `Close` is deferred at once, then only `submit`s, then `wait`, and `close` is the LAST action -/
theorem wellFormed_submitterTrace (conc : Int) (items : List Result) : wellFormed (submitterTrace conc items) = true := by
  simp [submitterTrace, bodyTrace, wellFormed, List.append_assoc, dropWhile_submitsFrom, List.dropWhile_cons, SAct.isSubmit]

end Flyt.Refine.Submit
