import FlytModel.Refine.SourceBase
import FlytModel.Props.C06
/-!
# C06 (batch results correspond positionally to items; post sees all, once) stated about the INTERPRETED SOURCE

Subjects with a refinement theorem:
* the whole node, `runBatch` — `runBatchIR fuel Expected.IR.runBatch …` (`runBatch_refines_of_le`): `post_once_positional`,
  `post_exactly_once_and_last`. In this world the two executors `runBatchSequential` / `runBatchConcurrent` that `runBatch` calls are
  the model's `itemsSeq` / `itemsSerialPool` (with the mode and the concurrency `runBatch` PASSES them); what the interpreter derives is
  `runBatch`'s own part: prep, normalisation of what prep returned into `[]Result`, one `results` array of the same length, dispatch,
  and post called once, last, with those items and that array.
* the sequential executor, `itemsSeq` — `itemsSeqIR fuel Expected.IR.runBatchSequential …` (`runBatchSequential_refines_of_le`), and the
  concurrent executor on the pool's SERIAL schedule, `itemsSerialPool` — `itemsConcSerialIR fuel Expected.IR.runBatchConcurrent …`
  (`runBatchConcurrent_serial_refines_of_le`): `slots_positional`. In these worlds `runExecWithRetries` is the model's `runItem`
  (before the conversion of its value into a slot), tied to its source by `Refine/Item.lean`.

**A real restriction of the executor corollaries (`hidx`).** The executor worlds find the script of the item being processed from the
item VALUE (`idxOf`), so the refinement theorem — and every corollary here about `itemsSeqIR` / `itemsConcSerialIR` — needs
`idxOf items[i] = i` for all positions. Such an `idxOf` exists iff no two positions hold the same `Result` (`hidx_of_nodup`). The model
theorems have no such hypothesis: for item lists with repeated items these corollaries are silent, the model theorems are not. The
whole-node corollaries (`runBatchIR`) have no such restriction.
-/
set_option autoImplicit false
namespace Flyt.Refine.Source
open Flyt Flyt.GoIR Flyt.Refine Flyt.BatchSeq

/-! ## the whole node: the interpreted `runBatch` -/

/-- **Post once, after every item, with all items and one slot per item, each slot owned by its item.** For a batch node whose prep
    succeeded and which has a post function, for every concurrency setting: the trace of the interpreted `runBatch` is `bprep`, then only
    per-item events, then exactly one `bpost` carrying the items in prep order and a slot list of the same length; for every position
    `j` the item at `j` satisfies `Own`. Mirrors `Props.C06.post_once_positional`. -/
theorem C06_post_once_positional_for_interpreted_source (kind : CtxKind) (n : NodeId) (v : Nat) (sid : StoreId) (cfg : BatchCfg)
    (scr : BatchScript) (ctx : Ctx) (l : List Val) (hp : scr.prep.res = .ok l) (hpost : cfg.hasPost = true)
    (fuel : Nat) (hf : batchFuel scr ≤ fuel) :
    ∃ evs ctx' out, runBatchIR fuel Flyt.Expected.IR.runBatch kind n v sid cfg scr ctx = some (evs, ctx', out) ∧
      ∃ iev slots,
        evs = .bprep n v sid :: iev ++ [.bpost n v sid ((normItems cfg.shape l).map Result.box) (slots.map Result.box)] ∧
        slots.length = (normItems cfg.shape l).length ∧
        (∀ e ∈ iev, ∃ j, evItem e = some j ∧ j < (normItems cfg.shape l).length) ∧
        ∀ j (hj : j < (normItems cfg.shape l).length), Own kind n v cfg scr iev slots j j (normItems cfg.shape l)[j] :=
  batch_transfer kind n v sid cfg scr ctx fuel hf
    (fun evs _ _ => ∃ iev slots,
        evs = .bprep n v sid :: iev ++ [.bpost n v sid ((normItems cfg.shape l).map Result.box) (slots.map Result.box)] ∧
        slots.length = (normItems cfg.shape l).length ∧
        (∀ e ∈ iev, ∃ j, evItem e = some j ∧ j < (normItems cfg.shape l).length) ∧
        ∀ j (hj : j < (normItems cfg.shape l).length), Own kind n v cfg scr iev slots j j (normItems cfg.shape l)[j])
    (Props.C06.post_once_positional kind n v sid cfg scr ctx l hp hpost)

/-- `Own` speaks of the model's `runItem`; **read with the interpreted `runExecWithRetries`** (any sufficient depth `ifuel`): the events
    of item `idx` in the trace are exactly the events the interpreted `runExecWithRetries` records on that item with its own script
    from a live context, and the slot is what the caller makes of its return values — or the item has no event and an error marker. -/
theorem own_interpreted {kind : CtxKind} {n : NodeId} {v : Nat} {cfg : BatchCfg} {scr : BatchScript} {iev : List Ev}
    {slots : List Result} {pos idx : Nat} {it : Result} (h : Own kind n v cfg scr iev slots pos idx it)
    (ifuel : Nat) (hif : itemFuel cfg ≤ ifuel) :
    (∃ ievs ictx ires,
        runItemIR ifuel Flyt.Expected.IR.runExecWithRetries kind n v cfg idx it (scr.item idx) .live = some (ievs, ictx, ires) ∧
        itemEvents idx iev = ievs ∧ slots[pos]? = some (slotOfRes ires)) ∨
    (itemEvents idx iev = [] ∧ ∃ r, slots[pos]? = some r ∧ isMarker cfg.stop r) := by
  rcases h with ⟨h1, h2⟩ | h
  · exact .inl ⟨_, _, _, runExecWithRetries_refines_runItem_of_le kind n v cfg idx it (scr.item idx) .live ifuel hif, h1, h2⟩
  · exact .inr h

/-- … in particular the trace of the interpreted `runBatch` contains exactly one post event and it is the last event.
    Mirrors `Props.C06.post_exactly_once_and_last`. -/
theorem C06_post_exactly_once_and_last_for_interpreted_source (kind : CtxKind) (n : NodeId) (v : Nat) (sid : StoreId) (cfg : BatchCfg)
    (scr : BatchScript) (ctx : Ctx) (l : List Val) (hp : scr.prep.res = .ok l) (hpost : cfg.hasPost = true)
    (fuel : Nat) (hf : batchFuel scr ≤ fuel) :
    ∃ evs ctx' out, runBatchIR fuel Flyt.Expected.IR.runBatch kind n v sid cfg scr ctx = some (evs, ctx', out) ∧
      (evs.filter isBpost).length = 1 ∧
      ∃ sl, evs.getLast? = some (.bpost n v sid ((normItems cfg.shape l).map Result.box) sl) ∧
        sl.length = (normItems cfg.shape l).length :=
  batch_transfer kind n v sid cfg scr ctx fuel hf
    (fun evs _ _ => (evs.filter isBpost).length = 1 ∧
      ∃ sl, evs.getLast? = some (.bpost n v sid ((normItems cfg.shape l).map Result.box) sl) ∧
        sl.length = (normItems cfg.shape l).length)
    (Props.C06.post_exactly_once_and_last kind n v sid cfg scr ctx l hp hpost)

/-- the same two statements for the interpreted `Run` on the batch node (bare `*BatchNode` or the builder of `NewBatchNode`): `Run` only
    hands over to `runBatch` (`Run_dispatches_to_runBatch_of_le`; in that world `runBatch` is the model's). -/
theorem C06_post_exactly_once_and_last_for_interpreted_Run (kind : CtxKind) (n : NodeId) (v : Nat) (sid : StoreId) (cfg : BatchCfg)
    (scr : BatchScript) (viaBuilder : Bool) (ctx : Ctx) (l : List Val) (hp : scr.prep.res = .ok l) (hpost : cfg.hasPost = true)
    (fuel : Nat) (hf : batchNodeFuel ≤ fuel) :
    ∃ evs ctx' out, runBatchNodeIR fuel Flyt.Expected.IR.Run kind n v sid cfg scr viaBuilder ctx = some (evs, ctx', out) ∧
      (evs.filter isBpost).length = 1 ∧
      ∃ sl, evs.getLast? = some (.bpost n v sid ((normItems cfg.shape l).map Result.box) sl) ∧
        sl.length = (normItems cfg.shape l).length :=
  batchNode_transfer kind n v sid cfg scr viaBuilder ctx fuel hf
    (fun evs _ _ => (evs.filter isBpost).length = 1 ∧
      ∃ sl, evs.getLast? = some (.bpost n v sid ((normItems cfg.shape l).map Result.box) sl) ∧
        sl.length = (normItems cfg.shape l).length)
    (Props.C06.post_exactly_once_and_last kind n v sid cfg scr ctx l hp hpost)

/-! ## the executors: the interpreted `runBatchSequential`, and `runBatchConcurrent` on the serial schedule -/

/-- **Slot `j` is the outcome of item `j` and of no other item** (continue mode, no cancellation): the item phase of the interpreted
    `runBatchSequential` is the concatenation of each item's own processing, in item order, the context stays live, and the slot list
    is the list of their outcomes — position by position. Mirrors `Props.C06.slots_positional` (extra hypothesis `hidx`, see header). -/
theorem C06_slots_positional_for_interpreted_source (kind : CtxKind) (n : NodeId) (v : Nat) (cfg : BatchCfg) (scr : BatchScript)
    (hs : cfg.stop = false) (hq : ∀ j, Quiet (scr.item j)) (items : List Result)
    (idxOf : Result → Nat) (hidx : ∀ i (h : i < items.length), idxOf items[i] = i) (fuel : Nat) (hf : items.length + 23 ≤ fuel) :
    ∃ evs ctx' slots,
      itemsSeqIR fuel Flyt.Expected.IR.runBatchSequential kind n v cfg scr idxOf items .live = some (evs, ctx', slots) ∧
      evs = (itemRuns kind n v cfg scr items 0).flatMap (·.1) ∧ ctx' = .live ∧
      slots = (itemRuns kind n v cfg scr items 0).map (fun r => slotOfRes r.2.2) ∧
      ∀ j, (itemRuns kind n v cfg scr items 0)[j]? = items[j]?.map fun it => runItem kind n v cfg j it (scr.item j) .live := by
  refine seq_transfer kind n v cfg scr idxOf items .live hidx fuel hf
    (fun evs ctx' slots => evs = (itemRuns kind n v cfg scr items 0).flatMap (·.1) ∧ ctx' = .live ∧
      slots = (itemRuns kind n v cfg scr items 0).map (fun r => slotOfRes r.2.2) ∧
      ∀ j, (itemRuns kind n v cfg scr items 0)[j]? = items[j]?.map fun it => runItem kind n v cfg j it (scr.item j) .live) ?_
  obtain ⟨h1, h2⟩ := Props.C06.slots_positional kind n v cfg scr hs hq items
  rw [h1]
  exact ⟨rfl, rfl, rfl, h2⟩

/-- … and the interpreted `runBatchConcurrent`, on the schedule in which every submitted task runs to completion before `Submit`
    returns (one worker that is faster than the submitter), yields the same: `Props.C06.slots_positional` through
    `BatchSeq.itemsSerialPool_eq_seq`. Every OTHER schedule is the subject of the LTS theorems of `Props/C06.lean`, not of this file. -/
theorem C06_slots_positional_for_interpreted_serial_pool (kind : CtxKind) (n : NodeId) (v : Nat) (cfg : BatchCfg) (scr : BatchScript)
    (hs : cfg.stop = false) (hq : ∀ j, Quiet (scr.item j)) (items : List Result)
    (idxOf : Result → Nat) (hidx : ∀ i (h : i < items.length), idxOf items[i] = i) (fuel : Nat) (hf : items.length + 37 ≤ fuel) :
    ∃ evs ctx' slots,
      itemsConcSerialIR fuel Flyt.Expected.IR.runBatchConcurrent kind n v cfg scr idxOf items .live = some (evs, ctx', slots) ∧
      evs = (itemRuns kind n v cfg scr items 0).flatMap (·.1) ∧ ctx' = .live ∧
      slots = (itemRuns kind n v cfg scr items 0).map (fun r => slotOfRes r.2.2) ∧
      ∀ j, (itemRuns kind n v cfg scr items 0)[j]? = items[j]?.map fun it => runItem kind n v cfg j it (scr.item j) .live := by
  refine concSerial_transfer kind n v cfg scr idxOf items .live hidx fuel hf
    (fun evs ctx' slots => evs = (itemRuns kind n v cfg scr items 0).flatMap (·.1) ∧ ctx' = .live ∧
      slots = (itemRuns kind n v cfg scr items 0).map (fun r => slotOfRes r.2.2) ∧
      ∀ j, (itemRuns kind n v cfg scr items 0)[j]? = items[j]?.map fun it => runItem kind n v cfg j it (scr.item j) .live) ?_
  obtain ⟨h1, h2⟩ := Props.C06.slots_positional kind n v cfg scr hs hq items
  rw [itemsSerialPool_eq_seq, h1]
  exact ⟨rfl, rfl, rfl, h2⟩

/-- `itemRuns` lists the model's `runItem` per item; read with the interpreted `runExecWithRetries`: entry `j` is what the interpreter
    returns for item `j` with its own script from a live context (any sufficient depth) -/
theorem itemRuns_interpreted (kind : CtxKind) (n : NodeId) (v : Nat) (cfg : BatchCfg) (scr : BatchScript) (items : List Result)
    (ifuel : Nat) (hif : itemFuel cfg ≤ ifuel) (j : Nat) :
    ((itemRuns kind n v cfg scr items 0)[j]?).map some =
      items[j]?.map fun it => runItemIR ifuel Flyt.Expected.IR.runExecWithRetries kind n v cfg j it (scr.item j) .live := by
  have h := itemRuns_getElem? kind n v cfg scr items 0 j
  rw [h, Nat.zero_add]
  cases items[j]? with
  | none => rfl
  | some it =>
    simp only [Option.map_some]
    rw [runExecWithRetries_refines_runItem_of_le kind n v cfg j it (scr.item j) .live ifuel hif]

/-! ### non-vacuity: the three-item batch of `Props/C06.lean` (item 1 fails twice, then its fallback succeeds), run by the interpreter -/

example : runBatchIR 24 Flyt.Expected.IR.runBatch .canceled 0 0 0 Props.C06.exCfg Props.C06.exScr .live =
    some ([.bprep 0 0 0, .bexec 0 0 0 0 (.tok 1), .bexec 0 0 1 0 (.tok 2), .bexec 0 0 1 1 (.tok 2),
       .bfb 0 0 1 (.res (.tok 2) none) (.user 11), .bexec 0 0 2 0 (.tok 3),
       .bpost 0 0 0 [.res (.tok 1) none, .res (.tok 2) none, .res (.tok 3) none]
         [.res (.tok 100) none, .res (.tok 55) none, .res (.tok 102) none]], .live, .ok "next") := by
  rw [runBatch_refines_of_le _ _ _ _ _ _ _ 24 (by decide)]; decide

-- the three items are pairwise different, so `hidx` can be met (`hidx_of_nodup`)
example : ([newResult (.tok 1), newResult (.tok 2), newResult (.tok 3)] : List Result).Nodup := by decide

/-!
## Carried over / not carried over

Carried over: `post_once_positional`, `post_exactly_once_and_last` (subject `runBatch`; `runBatch_refines_of_le`, and
`Run_dispatches_to_runBatch_of_le` for `Run` on the node), `slots_positional` (subject `itemsSeq`; `runBatchSequential_refines_of_le`
— and, through `itemsSerialPool_eq_seq`, `runBatchConcurrent_serial_refines_of_le`; both only for item lists on which `hidx` can be
met, i.e. without repeated items). `own_interpreted` / `itemRuns_interpreted` replace the model's `runItem` inside `Own` / `itemRuns`
by the interpreted `runExecWithRetries`.

Not carried over:
* `prep_normalisation` — about the pure function `normItems`; that the interpreted `runBatch` applies it is part of
  `runBatch_refines` and visible in `C06_post_once_positional_for_interpreted_source` (the items post receives);
* `slot_is_own_outcome`, `slot_written_by_own_task_once`, `one_task_per_index`, `post_after_all_settled`, `post_at_most_once`,
  `simulate_states_reachable` — subject is the LTS `Flyt.Conc` (every worker count, every schedule): no refinement theorem equates the
  interpreted `runBatchConcurrent` with it for general schedules (only the serial schedule, `Refine/ConcSerial.lean`; per task,
  `Refine/Task.lean`; the pool, `Refine/Pool.lean` and its bridge `Refine/BridgePool.lean`);
* `spec_c06_holds_seq`, `spec_c06_holds` — bridges to the driver's executable predicate `Spec.c06`.
-/

end Flyt.Refine.Source
