import FlytModel.GoIR.PoolWorld
import FlytModel.Model.Pool
import FlytModel.Expected.IR
import FlytModel.Refine.RunNode
/-!
# Refinement: the translated Go source of the `WorkerPool` methods (`Flyt.Expected.IR`), run by the definitional interpreter of
`GoIR/Interp.lean` in `poolWorld` (`GoIR/PoolWorld.lean`), performs exactly the sequence of synchronisation actions that the labelled
transition system of `Model/Pool.lean` assumes of it (properties C12 / C08)

The interpreter follows ONE goroutine; `poolWorld` records what that goroutine does to the shared objects (`tasks`, `done`, the
WaitGroup) as a trace of `Act`. One theorem per `#eval` line of the executable test `GoIR/PoolTest.lean`, there checked on samples,
here for EVERY initial world state `w` (its trace is a prefix of the result's, its script rest and pending deferred actions are
untouched), every argument value, every task list, at EVERY sufficient recursion depth (`…_refines_of_le`; `…_core` is the statement
at depth `f + K`, `K` the least depth at which the run is not stuck; `…_refines` the one at the test's `F = 40`).

| function (source)                 | theorem                                      | trace appended                                             | depth ≥ |
|-----------------------------------|----------------------------------------------|------------------------------------------------------------|---------|
| `Submit(task)`                    | `WorkerPool_Submit_refines_of_le`            | `[wgAdd 1, send tasks closure]` — Add BEFORE the send       | 5       |
| the closure in `Submit`           | `WorkerPool_Submit_wrapper_refines_of_le`    | `[deferDone, run task]`, `wgDone` pending                   | 5       |
|   … with defer semantics          | `WorkerPool_Submit_wrapper_runWithDefers`    | `[deferDone, run task, wgDone]`, nothing pending            | 5       |
| `Wait()`                          | `WorkerPool_Wait_refines_of_le`              | `[wgWait]`                                                  | 5       |
| `Close()`                         | `WorkerPool_Close_refines_of_le`             | `[closeCh done, closeCh tasks]` — `done` first              | 7       |
| `worker()`, script `ts ++ [stop]` | `WorkerPool_worker_refines_of_le`            | `recv t, run (wrapper t)` per task, then `recv none`/`doneSignal`; returns | `11 + 1 * ts.length` |
| `worker()`, script `ts` only      | `WorkerPool_worker_blocks`                   | no result at ANY depth (blocked in `select` for ever)       | —       |

The closure is tied to the source by `closuresOf_Submit_0 : (closuresOf WorkerPool_Submit)[0]? = some submitClosure` (`rfl`); it is run
as `wrapTask`, i.e. with the two variables it captures (`p`, `task`) as leading parameters.

Then the bridge to the LTS (`Role`, `labelOf`, `labelsOf`; `Submit_labels`, `Wait_labels`, `Close_labels`, `worker_labels`,
`wrapper_labels`, `wrapper_inline`, and three sanity lemmas about `Pool.apply`), and the syntactic facts about `NewWorkerPool`, which
contains a `go` statement and is therefore not run (`NewWorkerPool_body`, `NewWorkerPool_clamp_first`, `NewWorkerPool_tasks_cap`,
`NewWorkerPool_one_go`, `NewWorkerPool_spawnLoop`, `pool_methods_no_go`, `clamp_exec`).

The proofs walk the program with the per-constructor unfolding lemmas of `Refine/Run.lean` (`gosimp`), keep the world folded behind
its projections (`W_*`); the worker's loop is an induction on the list of delivered tasks (`worker_loop`), its blocking an induction on
the depth with fuel monotonicity (`loop_blocks`, `Refine/Mono.lean`).
-/
namespace Flyt.Refine.Pool
open Flyt Flyt.GoIR Flyt.GoIR.PoolW Flyt.Expected.IR Flyt.Refine

/-! ## unfolding lemmas for the constructors `Refine/Run.lean` does not cover -/

section steps
variable {Ω : Type} (W : World Ω)
theorem stmt_expr_mcall_nil (f : Nat) (r : Expr) (m : String) (st : St Ω) :
    execStmt W (f + 1) (.expr (.mcall r m .nil)) st = (evalExpr W f (.mcall r m .nil) st).map fun (_, st1) => (.next, st1) := rfl
theorem stmt_expr_mcall_int (f : Nat) (r : Expr) (m : String) (n : Nat) (st : St Ω) :
    execStmt W (f + 1) (.expr (.mcall r m (.cons (.int n) .nil))) st =
      (evalExpr W f (.mcall r m (.cons (.int n) .nil)) st).map fun (_, st1) => (.next, st1) := rfl
theorem stmt_expr_call (f : Nat) (fn : String) (args : Exprs) (st : St Ω) :
    execStmt W (f + 1) (.expr (.call fn args)) st = (evalExpr W f (.call fn args) st).map fun (_, st1) => (.next, st1) := rfl
theorem stmt_defer (f : Nat) (r : Expr) (m : String) (st : St Ω) :
    execStmt W (f + 1) (.deferS (.mcall r m .nil)) st =
      (match evalExpr W f r st with
       | some ([x], st1) =>
         (match W.mcall x ("defer:" ++ m) [] st1.heap st1.w with
          | some (_, h, w) => some (.next, { st1 with heap := h, w := w })
          | none => none)
       | _ => none) := rfl
theorem stmt_send (f : Nat) (ch v : Expr) (st : St Ω) :
    execStmt W (f + 1) (.send ch v) st =
      (match evalExpr W f ch st with
       | some ([c], st1) =>
         (match evalExpr W f v st1 with
          | some ([x], st2) =>
            (match W.call "chan:send" [c, x] st2.heap st2.w with
             | some (_, h, w) => some (.next, { st2 with heap := h, w := w })
             | none => none)
          | _ => none)
       | _ => none) := rfl
theorem expr_funcLit (f : Nat) (ps : List String) (b : Block) (st : St Ω) :
    evalExpr W (f + 1) (.funcLit ps b) st = some ([.ref "closure" 0], st) := rfl
theorem expr_not (f : Nat) (a : Expr) (st : St Ω) :
    evalExpr W (f + 1) (.un "!" a) st =
      match evalExpr W f a st with
      | some ([.bool p], st1) => some ([.bool !p], st1)
      | _ => none := rfl
end steps

/-! ## projections of `poolWorld` -/

theorem W_tasks (i : Nat) (w : PW) : poolWorld.field (.ref "pool" i) "tasks" w = some (.ref "chan" 0) := rfl
theorem W_done (i : Nat) (w : PW) : poolWorld.field (.ref "pool" i) "done" w = some (.ref "chan" 1) := rfl
theorem W_wg (i : Nat) (w : PW) : poolWorld.field (.ref "pool" i) "wg" w = some (.ref "wg" 0) := rfl

theorem W_Add (i : Nat) (n : Int) (h : Heap) (w : PW) :
    poolWorld.mcall (.ref "wg" i) "Add" [.int n] h w = some ([], h, emit w (.wgAdd n)) := rfl
theorem W_Wait (i : Nat) (h : Heap) (w : PW) : poolWorld.mcall (.ref "wg" i) "Wait" [] h w = some ([], h, emit w .wgWait) := rfl
theorem W_deferDone (i : Nat) (h : Heap) (w : PW) :
    poolWorld.mcall (.ref "wg" i) "defer:Done" [] h w = some ([], h, { emit w .deferDone with defers := .wgDone :: w.defers }) := rfl

theorem W_send_tasks (v : GV) (h : Heap) (w : PW) :
    poolWorld.call "chan:send" [.ref "chan" 0, v] h w = some ([], h, emit w (.send .tasks v)) := rfl
theorem W_close_tasks (h : Heap) (w : PW) : poolWorld.call "close" [.ref "chan" 0] h w = some ([], h, emit w (.closeCh .tasks)) := rfl
theorem W_close_done (h : Heap) (w : PW) : poolWorld.call "close" [.ref "chan" 1] h w = some ([], h, emit w (.closeCh .done)) := rfl
/-- `poolWorld` does not set `callVar`: a call through a local function variable (`task()`) is answered by name -/
theorem W_callVar (fn : String) (fv : GV) : poolWorld.callVar fn fv = poolWorld.call fn := rfl
theorem W_task (h : Heap) (w : PW) :
    poolWorld.call "task" [] h w = (match w.cur with | some f => some ([], h, emit w (.run f)) | none => none) := rfl
theorem W_recvd (h : Heap) (w : PW) :
    poolWorld.call "chan:recvd" [.ref "chan" 0] h w =
      (match w.got with
       | some (some t) => some ([.ref "wrapper" t, .bool true], h, { w with got := none, cur := some (.wrapper t) })
       | some none => some ([.nil, .bool false], h, { w with got := none, cur := none })
       | none => none) := rfl
theorem W_select (w : PW) :
    poolWorld.select [.ref "chan" 0, .ref "chan" 1] w =
      (match w.script with
       | .task t :: rest => some (0, { emit w (.recv (some t)) with script := rest, got := some (some t) })
       | .tasksClosed :: rest => some (0, { emit w (.recv none) with script := rest, got := some none })
       | .doneClosed :: rest => some (1, { emit w .doneSignal with script := rest })
       | [] => none) := rfl

macro "poolsimp" " [" ts:Lean.Parser.Tactic.simpLemma,* "]" : tactic =>
  `(tactic| gosimp [PoolW.run, PoolW.runWithDefers, PoolW.view, PoolW.exitDefers, callFunc, expr_sel, expr_funcLit, expr_not,
      stmt_expr_mcall_nil, stmt_expr_mcall_int, stmt_expr_call, stmt_defer, stmt_send,
      W_tasks, W_done, W_wg, W_Add, W_Wait, W_deferDone, W_send_tasks, W_close_tasks, W_close_done, W_callVar, W_task, W_recvd, W_select,
      emit, poolH, $ts,*])

/-- every depth `≥ K` is `f + K` for some `f` -/
theorem exists_add {K fuel : Nat} (h : K ≤ fuel) : ∃ f, fuel = f + K := ⟨fuel - K, by omega⟩

/-! ## `Submit`, its wrapper closure, `Wait`, `Close` -/

theorem WorkerPool_Submit_core (f : Nat) (task : GV) (w : PW) :
    view (run (f + 5) WorkerPool_Submit [poolH, task] w) =
      some ([], w.trace ++ [.wgAdd 1, .send .tasks (.ref "closure" 0)], w.script, w.defers) := by
  poolsimp [WorkerPool_Submit]

theorem WorkerPool_Submit_refines_of_le {fuel : Nat} (hf : 5 ≤ fuel) (task : GV) (w : PW) :
    view (run fuel WorkerPool_Submit [poolH, task] w) =
      some ([], w.trace ++ [.wgAdd 1, .send .tasks (.ref "closure" 0)], w.script, w.defers) := by
  obtain ⟨f, rfl⟩ := exists_add hf; exact WorkerPool_Submit_core f task w

/-- the function literal in `Submit`, as a function of its own -/
def submitClosure : Func := { name := "WorkerPool.Submit.func", recv := "", params := [], body :=
  B[(.deferS (.mcall (.sel (.var "p") "wg") "Done" E[])),
    (.expr (.call "task" E[]))] }

theorem closuresOf_Submit : closuresOf WorkerPool_Submit = [submitClosure] := rfl
theorem closuresOf_Submit_0 : (closuresOf WorkerPool_Submit)[0]? = some submitClosure := rfl

/-- … with the two variables it captures (`p`, `task`) as leading parameters -/
def wrapTask : Func := withCaptured submitClosure ["p", "task"]

theorem WorkerPool_Submit_wrapper_core (f : Nat) (task : GV) (tr : List Act) (sc : List Obs) (g : Option (Option Nat)) (c : Fn)
    (ds : List Act) :
    view (run (f + 5) wrapTask [poolH, task] ⟨tr, sc, g, some c, ds⟩) = some ([], tr ++ [.deferDone, .run c], sc, .wgDone :: ds) := by
  poolsimp [wrapTask, withCaptured, submitClosure]

theorem WorkerPool_Wait_core (f : Nat) (w : PW) :
    view (run (f + 5) WorkerPool_Wait [poolH] w) = some ([], w.trace ++ [.wgWait], w.script, w.defers) := by
  poolsimp [WorkerPool_Wait]

theorem WorkerPool_Close_core (f : Nat) (w : PW) :
    view (run (f + 7) WorkerPool_Close [poolH] w) = some ([], w.trace ++ [.closeCh .done, .closeCh .tasks], w.script, w.defers) := by
  poolsimp [WorkerPool_Close]

/-! ## the worker -/

def workerBody : Block := B[
    (.selectS (Cases.ofList [
      ((.un "<-" (.sel (.var "p") "tasks")), B[
        (.define ["task", "ok"] E[(.call "chan:recvd" E[(.sel (.var "p") "tasks")])]),
        (.ifS B[] (.un "!" (.var "ok")) B[
          (.ret E[])] B[]),
        (.expr (.call "task" E[]))]),
      ((.un "<-" (.sel (.var "p") "done")), B[
        (.ret E[])])]))]

theorem worker_body : WorkerPool_worker.body = B[(.forS B[] (.var "true") B[] workerBody)] := rfl
theorem worker_recv : WorkerPool_worker.recv = "p" := rfl
theorem worker_params : WorkerPool_worker.params = [] := rfl

theorem body_unfold (f : Nat) (st : St PW) : execBlock poolWorld f workerBody st = execBlock poolWorld f B[
    (.selectS (Cases.ofList [
      ((.un "<-" (.sel (.var "p") "tasks")), B[
        (.define ["task", "ok"] E[(.call "chan:recvd" E[(.sel (.var "p") "tasks")])]),
        (.ifS B[] (.un "!" (.var "ok")) B[
          (.ret E[])] B[]),
        (.expr (.call "task" E[]))]),
      ((.un "<-" (.sel (.var "p") "done")), B[
        (.ret E[])])]))] st := rfl

theorem worker_loop (stop : Obs) (hstop : stop.isStop = true) (rest : List Obs) (ds : List Act) (ts : List Nat) :
    ∀ (f : Nat) (tr : List Act) (g : Option (Option Nat)) (c : Option Fn),
      ∃ g' c', loopFor poolWorld (f + ts.length + 9) (.var "true") .nil workerBody
          ⟨[("p", poolH)], [], ⟨tr, ts.map .task ++ stop :: rest, g, c, ds⟩⟩ =
        some (.ret [], ⟨[("p", poolH)], [], ⟨tr ++ workerActs ts ++ [finalAct stop], rest, g', c', ds⟩⟩) := by
  induction ts with
  | nil =>
    intro f tr g c
    cases stop with
    | task t => simp [Obs.isStop] at hstop
    | tasksClosed => rw [loopFor_succ]; poolsimp [body_unfold, workerActs, finalAct]
    | doneClosed => rw [loopFor_succ]; poolsimp [body_unfold, workerActs, finalAct]
  | cons t ts ih =>
    intro f tr g c
    rw [show f + (t :: ts).length + 9 = (f + ts.length + 9) + 1 by simp; omega, loopFor_succ]
    poolsimp [body_unfold]
    obtain ⟨g', c', h⟩ := ih f (tr ++ [.recv (some t), .run (.wrapper t)]) none (some (.wrapper t))
    exact ⟨g', c', by simpa [workerActs, List.append_assoc, poolH] using h⟩

theorem WorkerPool_worker_core (f : Nat) (ts : List Nat) (stop : Obs) (hstop : stop.isStop = true) (rest : List Obs) (w : PW) :
    view (run (f + ts.length + 11) WorkerPool_worker [poolH] { w with script := ts.map .task ++ stop :: rest }) =
      some ([], w.trace ++ workerActs ts ++ [finalAct stop], rest, w.defers) := by
  obtain ⟨tr, sc, g, c, ds⟩ := w
  obtain ⟨g', c', h⟩ := worker_loop stop hstop rest ds ts f tr g c
  simp only [poolH] at h
  poolsimp [worker_body, worker_recv, worker_params, h]

theorem WorkerPool_worker_refines_of_le {fuel : Nat} (ts : List Nat) (hf : 11 + 1 * ts.length ≤ fuel) (stop : Obs)
    (hstop : stop.isStop = true) (rest : List Obs) (w : PW) :
    view (run fuel WorkerPool_worker [poolH] { w with script := ts.map .task ++ stop :: rest }) =
      some ([], w.trace ++ workerActs ts ++ [finalAct stop], rest, w.defers) := by
  obtain ⟨f, rfl⟩ : ∃ f, fuel = f + ts.length + 11 := ⟨fuel - (11 + ts.length), by omega⟩
  exact WorkerPool_worker_core f ts stop hstop rest w

/-! ### a script without a terminating observation: the worker never returns -/

theorem body_task (f : Nat) (tr : List Act) (t : Nat) (sc : List Obs) (g : Option (Option Nat)) (c : Option Fn) (ds : List Act) :
    execBlock poolWorld (f + 10) workerBody ⟨[("p", poolH)], [], ⟨tr, .task t :: sc, g, c, ds⟩⟩ =
      some (.next, ⟨[("p", poolH)], [], ⟨tr ++ [.recv (some t), .run (.wrapper t)], sc, none, some (.wrapper t), ds⟩⟩) := by
  poolsimp [body_unfold]

theorem body_blocked (f : Nat) (tr : List Act) (g : Option (Option Nat)) (c : Option Fn) (ds : List Act) :
    execBlock poolWorld (f + 10) workerBody ⟨[("p", poolH)], [], ⟨tr, [], g, c, ds⟩⟩ = none := by
  poolsimp [body_unfold]

theorem cond_true (k : Nat) (w : PW) :
    evalExpr poolWorld (k + 1) (.var "true") ⟨[("p", poolH)], [], w⟩ = some ([.bool true], ⟨[("p", poolH)], [], w⟩) := by
  simp [expr_var, Env.get]

theorem loop_blocks (ds : List Act) : ∀ (fuel : Nat) (ts : List Nat) (tr : List Act) (g : Option (Option Nat)) (c : Option Fn),
    loopFor poolWorld fuel (.var "true") .nil workerBody ⟨[("p", poolH)], [], ⟨tr, ts.map .task, g, c, ds⟩⟩ = none := by
  intro fuel
  induction fuel with
  | zero => intros; rfl
  | succ fuel ih =>
    intro ts tr g c
    rw [loopFor_succ]
    cases fuel with
    | zero => rfl
    | succ k =>
      rw [cond_true]
      dsimp only
      cases hb : execBlock poolWorld (k + 1) workerBody ⟨[("p", poolH)], [], ⟨tr, ts.map .task, g, c, ds⟩⟩ with
      | none => rfl
      | some x =>
        have hm := mono_execBlock poolWorld (show k + 1 ≤ k + 10 by omega) hb
        cases ts with
        | nil => rw [List.map_nil, body_blocked] at hm; cases hm
        | cons t ts =>
          rw [List.map_cons, body_task] at hm
          cases hm
          simp only [block_nil, popSt, Env.popTo, List.length_cons, List.length_nil, Nat.sub_self, List.drop_zero]
          exact ih ts _ _ _

/-- A worker whose `select` is only ever offered tasks (the script has no terminating observation) never returns: the interpreter
    yields no result at ANY recursion depth — after the last task the goroutine stays blocked in its `select`. -/
theorem WorkerPool_worker_blocks (fuel : Nat) (ts : List Nat) (w : PW) :
    run fuel WorkerPool_worker [poolH] { w with script := ts.map .task } = none := by
  obtain ⟨tr, sc, g, c, ds⟩ := w
  have hl := fun k => loop_blocks ds k ts tr g c
  rcases fuel with _ | _ | _ | k
  · simp [run, callFunc, worker_recv, worker_params, Env.pushAll, Env.push, execBlock]
  · simp [run, callFunc, worker_recv, worker_params, worker_body, Env.pushAll, Env.push, block_cons, execStmt]
  · simp [run, callFunc, worker_recv, worker_params, worker_body, Env.pushAll, Env.push, stmt_for, execBlock]
  · simp only [poolH] at hl
    simp [run, callFunc, worker_recv, worker_params, worker_body, Env.pushAll, Env.push, block_cons, stmt_for, block_nil, poolH, hl]

/-! ## the remaining statements at every sufficient depth -/

theorem WorkerPool_Submit_wrapper_refines_of_le {fuel : Nat} (hf : 5 ≤ fuel) (task : GV) (c : Fn) (w : PW) :
    view (run fuel wrapTask [poolH, task] { w with cur := some c }) =
      some ([], w.trace ++ [.deferDone, .run c], w.script, .wgDone :: w.defers) := by
  obtain ⟨f, rfl⟩ := exists_add hf
  obtain ⟨tr, sc, g, c', ds⟩ := w
  exact WorkerPool_Submit_wrapper_core f task tr sc g c ds

/-- With Go's defer semantics (`runWithDefers`: the pending deferred calls happen when the function exits) the goroutine that runs the
    wrapper closure of task `t` does exactly: run the user's task, then `wg.Done()` — once. (`deferDone` marks the registration and is
    no action on the WaitGroup.) -/
theorem WorkerPool_Submit_wrapper_runWithDefers {fuel : Nat} (hf : 5 ≤ fuel) (task : GV) (c : Fn) (w : PW) (hd : w.defers = []) :
    view (runWithDefers fuel wrapTask [poolH, task] { w with cur := some c }) =
      some ([], w.trace ++ [.deferDone, .run c, .wgDone], w.script, []) := by
  have h := WorkerPool_Submit_wrapper_refines_of_le hf task c w
  simp only [view, Option.map_eq_some_iff, runWithDefers, exitDefers] at h ⊢
  obtain ⟨⟨vs, w'⟩, hr, he⟩ := h
  simp only [Prod.mk.injEq] at he
  obtain ⟨h1, h2, h3, h4⟩ := he
  exact ⟨(vs, exitDefers w'), ⟨(vs, w'), hr, rfl⟩, by simp [exitDefers, h1, h2, h3, h4, hd]⟩

/-- the closure cannot be run around a `nil` task: Go panics, the interpreter is stuck -/
theorem WorkerPool_Submit_wrapper_nil (fuel : Nat) (task : GV) (w : PW) :
    run fuel wrapTask [poolH, task] { w with cur := none } = none := by
  obtain ⟨tr, sc, g, c', ds⟩ := w
  cases h : run fuel wrapTask [poolH, task] ⟨tr, sc, g, none, ds⟩ with
  | none => rfl
  | some r =>
    have hm : run (fuel + 5) wrapTask [poolH, task] ⟨tr, sc, g, none, ds⟩ = some r := by
      simp only [run, Option.map_eq_some_iff] at h ⊢
      obtain ⟨x, hx, rfl⟩ := h
      exact ⟨x, mono_callFunc poolWorld (by omega) hx, rfl⟩
    revert hm
    poolsimp [wrapTask, withCaptured, submitClosure]

theorem WorkerPool_Wait_refines_of_le {fuel : Nat} (hf : 5 ≤ fuel) (w : PW) :
    view (run fuel WorkerPool_Wait [poolH] w) = some ([], w.trace ++ [.wgWait], w.script, w.defers) := by
  obtain ⟨f, rfl⟩ := exists_add hf; exact WorkerPool_Wait_core f w

theorem WorkerPool_Close_refines_of_le {fuel : Nat} (hf : 7 ≤ fuel) (w : PW) :
    view (run fuel WorkerPool_Close [poolH] w) = some ([], w.trace ++ [.closeCh .done, .closeCh .tasks], w.script, w.defers) := by
  obtain ⟨f, rfl⟩ := exists_add hf; exact WorkerPool_Close_core f w

/-- the recursion depth of the executable test (`GoIR/PoolTest.lean`) -/
def F : Nat := 40

theorem WorkerPool_Submit_refines (task : GV) (w : PW) :
    view (run F WorkerPool_Submit [poolH, task] w) =
      some ([], w.trace ++ [.wgAdd 1, .send .tasks (.ref "closure" 0)], w.script, w.defers) :=
  WorkerPool_Submit_refines_of_le (by decide) task w
theorem WorkerPool_Wait_refines (w : PW) :
    view (run F WorkerPool_Wait [poolH] w) = some ([], w.trace ++ [.wgWait], w.script, w.defers) :=
  WorkerPool_Wait_refines_of_le (by decide) w
theorem WorkerPool_Close_refines (w : PW) :
    view (run F WorkerPool_Close [poolH] w) = some ([], w.trace ++ [.closeCh .done, .closeCh .tasks], w.script, w.defers) :=
  WorkerPool_Close_refines_of_le (by decide) w
theorem WorkerPool_worker_refines (ts : List Nat) (stop : Obs) (hstop : stop.isStop = true) (rest : List Obs) (w : PW) :
    view (run (F + ts.length) WorkerPool_worker [poolH] { w with script := ts.map .task ++ stop :: rest }) =
      some ([], w.trace ++ workerActs ts ++ [finalAct stop], rest, w.defers) :=
  WorkerPool_worker_refines_of_le ts (by simp [F]) stop hstop rest w

/-! ## bridge to the labelled transition system of `Model/Pool.lean`

`labelOf r a` is the list of `Pool.Label`s that action `a` contributes when the goroutine that performs it acts in role `r`; `labelsOf`
maps one goroutine's trace. It says nothing about how the label sequences of different goroutines interleave — every interleaving
is what `Pool.Step` / `Pool.Reachable` quantify over. What it does pin down is the ORDER of the labels one goroutine contributes,
which is what the LTS builds in: `add t` before `send t` (state component `pend`), `take` before `finish t` (`running`), a worker's
`exit` last, `callWait` before `waitRet` (`waiters`).

* a blocking operation that completed is the label of its completion: `send` (the channel had room), `take` (the queue was non-empty),
  `waitRet` (the counter was zero); the interpreter records the action when the world lets the operation return;
* `Wait` contributes two labels for its single action: the call (`callWait`) and the return (`waitRet`) of `wg.Wait()`;
* `Close` contributes ONE label for its two actions: `close(p.done)` is the LTS's `close` (from then on a worker may `exit`), the
  following `close(p.tasks)` enables nothing the LTS distinguishes (`exit` is already enabled) and contributes no label;
* the worker's call of the function it received, `run (.wrapper t)`, is `finish t`: by `WorkerPool_Submit_wrapper_runWithDefers` the
  callee's own actions are the user's task and then `wg.Done()`, which is what `finish t` does to the counter (`wrapper_inline`).
-/

/-- in which capacity a goroutine executes pool code; `t` is the LTS's name of the task concerned -/
inductive Role
  | submitter (t : Nat)      -- a goroutine inside `Submit(task)`
  | worker                   -- a goroutine started by `NewWorkerPool`, inside `worker()`
  | wrapper (t : Nat)        -- the body of the closure `Submit` built around task `t` (run by a worker, inside its `run (.wrapper t)`)
  | waiter                   -- a goroutine inside `Wait()`
  | closer                   -- a goroutine inside `Close()`
  deriving DecidableEq, Repr

open Flyt.Pool (Label) in
def labelOf : Role → Act → List Label
  | .submitter t, .wgAdd n => if n = 1 then [.add t] else []
  | .submitter t, .send .tasks _ => [.send t]
  | .worker, .recv (some _) => [.take]
  | .worker, .run (.wrapper t) => [.finish t]
  | .worker, .recv none => [.exit]
  | .worker, .doneSignal => [.exit]
  | .wrapper t, .wgDone => [.finish t]
  | .waiter, .wgWait => [.callWait, .waitRet]
  | .closer, .closeCh .done => [.close]
  | _, _ => []

open Flyt.Pool (Label) in
def labelsOf (r : Role) (tr : List Act) : List Label := tr.flatMap (labelOf r)

/-- the labels of the trace a run produced -/
def labelsOfRun (r : Role) (res : Option (List GV × PW)) : Option (List Flyt.Pool.Label) := res.map fun x => labelsOf r x.2.trace

theorem labels_workerActs (ts : List Nat) (stop : Obs) (hstop : stop.isStop = true) :
    labelsOf .worker (workerActs ts ++ [finalAct stop]) = (ts.flatMap fun t => [.take, .finish t]) ++ [.exit] := by
  induction ts with
  | nil => cases stop <;> first | rfl | simp [Obs.isStop] at hstop
  | cons t ts ih =>
    simp only [labelsOf, workerActs, List.flatMap_cons, List.flatMap_append, List.append_assoc] at ih ⊢
    rw [ih]; rfl

/-- a run whose view is known has the trace of that view -/
theorem labelsOfRun_of_view {r : Role} {res : Option (List GV × PW)} {vs : List GV} {tr : List Act} {sc : List Obs} {ds : List Act}
    (h : view res = some (vs, tr, sc, ds)) : labelsOfRun r res = some (labelsOf r tr) := by
  cases res with
  | none => simp [view] at h
  | some x => simp only [view, Option.map_some, Option.some.injEq, Prod.mk.injEq] at h; simp [labelsOfRun, h.2.1]

/-- `Submit`, started with an empty trace, contributes `add t` and then `send t` -/
theorem Submit_labels {fuel : Nat} (hf : 5 ≤ fuel) (t : Nat) (task : GV) (w : PW) (hw : w.trace = []) :
    labelsOfRun (.submitter t) (run fuel WorkerPool_Submit [poolH, task] w) = some [.add t, .send t] := by
  rw [labelsOfRun_of_view (WorkerPool_Submit_refines_of_le hf task w), hw]; rfl

/-- `Wait` contributes `callWait`, `waitRet` -/
theorem Wait_labels {fuel : Nat} (hf : 5 ≤ fuel) (w : PW) (hw : w.trace = []) :
    labelsOfRun .waiter (run fuel WorkerPool_Wait [poolH] w) = some [.callWait, .waitRet] := by
  rw [labelsOfRun_of_view (WorkerPool_Wait_refines_of_le hf w), hw]; rfl

/-- `Close` contributes `close` -/
theorem Close_labels {fuel : Nat} (hf : 7 ≤ fuel) (w : PW) (hw : w.trace = []) :
    labelsOfRun .closer (run fuel WorkerPool_Close [poolH] w) = some [.close] := by
  rw [labelsOfRun_of_view (WorkerPool_Close_refines_of_le hf w), hw]; rfl

/-- a worker that is delivered the tasks `ts` and then sees a closed channel contributes `take, finish t` per task, in the order of
    delivery, and then `exit` -/
theorem worker_labels {fuel : Nat} (ts : List Nat) (hf : 11 + 1 * ts.length ≤ fuel) (stop : Obs) (hstop : stop.isStop = true)
    (rest : List Obs) (w : PW) (hw : w.trace = []) :
    labelsOfRun .worker (run fuel WorkerPool_worker [poolH] { w with script := ts.map .task ++ stop :: rest }) =
      some ((ts.flatMap fun t => [.take, .finish t]) ++ [.exit]) := by
  rw [labelsOfRun_of_view (WorkerPool_worker_refines_of_le ts hf stop hstop rest w), hw, List.nil_append,
    labels_workerActs ts stop hstop]

/-- one iteration of the worker: `take`, then `finish t` -/
theorem worker_iteration_labels (t : Nat) : labelsOf .worker (workerActs [t]) = [.take, .finish t] := rfl

/-- the wrapper closure of task `t`, run to its exit, contributes `finish t` — exactly what the worker's call of it is mapped to: inlining
    the callee's actions into the worker's trace does not change the labels -/
theorem wrapper_labels {fuel : Nat} (hf : 5 ≤ fuel) (t : Nat) (task : GV) (w : PW) (hw : w.trace = []) (hd : w.defers = []) :
    labelsOfRun (.wrapper t) (runWithDefers fuel wrapTask [poolH, task] { w with cur := some (.user t) }) = some [.finish t] := by
  rw [labelsOfRun_of_view (WorkerPool_Submit_wrapper_runWithDefers hf task (.user t) w hd), hw]; rfl

theorem wrapper_inline (t : Nat) :
    labelsOf .worker [.run (.wrapper t)] = labelsOf (.wrapper t) [.deferDone, .run (.user t), .wgDone] := rfl

/-- The label sequences are ones the LTS can take: after `add t` the task is pending and `send t` is enabled as soon as the queue has
    room; after `take` of a queue headed by `t`, `finish t` is enabled. -/
theorem lts_submit_order {p q : Flyt.Pool.Pool} {t : Nat} (h : Flyt.Pool.apply p (.add t) = some q) (hroom : p.queue.length < p.cap) :
    (Flyt.Pool.apply q (.send t)).isSome = true := by
  simp only [Flyt.Pool.apply] at h
  split at h <;> simp at h
  subst h
  simp [Flyt.Pool.apply, hroom]

theorem lts_worker_order {p q : Flyt.Pool.Pool} {t : Nat} {rest : List Nat} (hq : p.queue = t :: rest)
    (h : Flyt.Pool.apply p .take = some q) : (Flyt.Pool.apply q (.finish t)).isSome = true := by
  simp only [Flyt.Pool.apply, hq] at h
  split at h <;> simp at h
  subst h
  simp [Flyt.Pool.apply]

/-- `send t` is NOT enabled before `add t`: in the LTS as in the source the counter is raised first -/
theorem lts_no_send_before_add {p : Flyt.Pool.Pool} {t : Nat} (h : Flyt.Pool.fresh p t = true) : Flyt.Pool.apply p (.send t) = none := by
  simp only [Flyt.Pool.fresh, Bool.not_eq_true', Bool.or_eq_false_iff] at h
  have hp : t ∉ p.pend := by simpa using h.1.1.1
  simp [Flyt.Pool.apply, hp]

end Flyt.Refine.Pool

/-! ## `NewWorkerPool`: syntactic facts

`NewWorkerPool` starts goroutines (`go p.worker()`), which the sequential interpreter does not execute (`.goS _ => none`). What C12 / C08
need of it is its SHAPE, read off the translated source by small syntactic functions and `rfl`: the clamp comes first, the capacity of
`tasks` is `workers * 2` (and `done` is unbuffered), there is exactly one `go` statement — directly inside `for i := 0; i < workers; i++`,
spawning `p.worker()` — and none in the pool's methods. The clamp is also run (`clamp_exec`, in any world). -/
namespace Flyt.GoIR

mutual
/-- number of `go` statements, function literals included -/
def Expr.goCount : Expr → Nat
  | .bin _ a b => a.goCount + b.goCount
  | .un _ a => a.goCount
  | .call _ args => args.goCount
  | .mcall r _ args => r.goCount + args.goCount
  | .sel a _ => a.goCount
  | .index a i => a.goCount + i.goCount
  | .sliceFrom a lo => a.goCount + lo.goCount
  | .assert a _ => a.goCount
  | .lit _ elts => elts.goCount
  | .conv _ a => a.goCount
  | .funcLit _ body => body.goCount
  | _ => 0
def Exprs.goCount : Exprs → Nat
  | .nil => 0
  | .cons e es => e.goCount + es.goCount
def Stmt.goCount : Stmt → Nat
  | .define _ rhs => rhs.goCount
  | .assign lhs rhs => lhs.goCount + rhs.goCount
  | .ifS i c t e => i.goCount + c.goCount + t.goCount + e.goCount
  | .forS i c p b => i.goCount + c.goCount + p.goCount + b.goCount
  | .rangeS _ _ x b => x.goCount + b.goCount
  | .selectS cs => cs.goCount
  | .typeSwitch _ x cs => x.goCount + cs.goCount
  | .ret es => es.goCount
  | .expr e => e.goCount
  | .deferS e => e.goCount
  | .goS e => 1 + e.goCount
  | .send c v => c.goCount + v.goCount
  | _ => 0
def Block.goCount : Block → Nat
  | .nil => 0
  | .cons s b => s.goCount + b.goCount
def Cases.goCount : Cases → Nat
  | .nil => 0
  | .cons g b rest => g.goCount + b.goCount + rest.goCount
end

/-- the initialiser of field `k` in the element list of a keyed composite literal -/
def litField? : Exprs → String → Option Expr
  | .nil, _ => none
  | .cons (.bin ":" (.var k') e) rest, k => if k' == k then some e else litField? rest k
  | .cons _ rest, k => litField? rest k

end Flyt.GoIR

namespace Flyt.Refine.Pool
open Flyt Flyt.GoIR Flyt.Expected.IR Flyt.Refine

/-- `if workers <= 0 { workers = 1 }` -/
def clampStmt : Stmt :=
  .ifS B[] (.bin "<=" (.var "workers") (.int 0)) B[(.assign E[(.var "workers")] E[(.int 1)])] B[]

/-- the fields of `&WorkerPool{…}` -/
def poolFields : Exprs :=
  E[(.bin ":" (.var "workers") (.var "workers")),
    (.bin ":" (.var "tasks") (.call "make" E[(.var "chan func()"), (.bin "*" (.var "workers") (.int 2))])),
    (.bin ":" (.var "done") (.call "make" E[(.var "chan struct{}")]))]

/-- `for i := 0; i < workers; i++ { go p.worker() }` -/
def spawnLoop : Stmt :=
  .forS B[(.define ["i"] E[(.int 0)])] (.bin "<" (.var "i") (.var "workers")) B[(.incr "i")] B[(.goS (.mcall (.var "p") "worker" E[]))]

/-- the whole body: clamp; `p := &WorkerPool{…}`; spawn loop; `return p` -/
theorem NewWorkerPool_body :
    NewWorkerPool.body = B[clampStmt, (.define ["p"] E[(.un "&" (.lit "WorkerPool" poolFields))]), spawnLoop, (.ret E[(.var "p")])] := rfl
theorem NewWorkerPool_params : NewWorkerPool.recv = "" ∧ NewWorkerPool.params = ["workers"] := ⟨rfl, rfl⟩

/-- (a) the clamp is the first statement -/
theorem NewWorkerPool_clamp_first : NewWorkerPool.body.toList.head? = some clampStmt := rfl

/-- (b) the capacity expression of `tasks` is `workers * 2`; `done` is unbuffered -/
theorem NewWorkerPool_tasks_cap :
    litField? poolFields "tasks" = some (.call "make" E[(.var "chan func()"), (.bin "*" (.var "workers") (.int 2))]) := rfl
theorem NewWorkerPool_done_unbuffered : litField? poolFields "done" = some (.call "make" E[(.var "chan struct{}")]) := rfl
theorem NewWorkerPool_lit : NewWorkerPool.body.toList[1]? = some (.define ["p"] E[(.un "&" (.lit "WorkerPool" poolFields))]) := rfl

/-- (c) exactly one `go` statement in `NewWorkerPool` — the one in the body of the spawn loop, which is the third statement; none in
    `Submit`, `Wait`, `Close`, `worker` (closures included) -/
theorem NewWorkerPool_one_go : NewWorkerPool.body.goCount = 1 := by decide
theorem NewWorkerPool_spawnLoop : NewWorkerPool.body.toList[2]? = some spawnLoop := rfl
theorem spawnLoop_go : spawnLoop.goCount = 1 := by decide
theorem pool_methods_no_go :
    [WorkerPool_Submit, WorkerPool_Wait, WorkerPool_Close, WorkerPool_worker].map (·.body.goCount) = [0, 0, 0, 0] := by decide
/-- … the clamp and the literal are evaluated before the loop and contain no `go` -/
theorem NewWorkerPool_prefix_no_go : clampStmt.goCount = 0 ∧ poolFields.goCount = 0 := by decide

/-- the clamp, executed (in ANY world): afterwards `workers` is `1` if it was `≤ 0` and unchanged otherwise — the `w` of `Pool.init` -/
theorem clamp_exec {Ω : Type} (W : World Ω) (f : Nat) (n : Int) (env : GoIR.Env) (h : Heap) (w : Ω) :
    execStmt W (f + 5) clampStmt ⟨("workers", .int n) :: env, h, w⟩ =
      some (.next, ⟨("workers", .int (if n ≤ 0 then 1 else n)) :: env, h, w⟩) := by
  by_cases hn : n ≤ 0 <;> gosimp [clampStmt, hn]

theorem clamp_matches_init (cap : Nat) (n : Int) : ((Flyt.Pool.init cap n).w : Int) = if n ≤ 0 then 1 else n := by
  by_cases hn : n ≤ 0 <;> simp [Flyt.Pool.init, hn]; omega

end Flyt.Refine.Pool
