import FlytModel.Refine.Pool
import FlytModel.Props.C12
import FlytModel.Props.C08
/-!
# Bridge: C12 / C08 (worker pool) for the INTERPRETED source of `WorkerPool`

`Props/C12.lean` / `Props/C08.lean` are about `Pool.Reachable`: every state the labelled transition system of `Model/Pool.lean` reaches by
`Pool.apply`, whatever the labels. `Refine/Pool.lean` proves, per function of the translated source, which synchronisation actions ONE
goroutine performs, in which order, and maps them to labels (`labelsOf`, `…_labels`). This file states what the two give together.

* `SourceLabels r ls` — `ls` is the label sequence of a run of the interpreter on the translated source of the function a goroutine in
  role `r` executes (`Submit`, `Wait`, `Close`, `worker`; `wrapper`: the closure `Submit` builds, run inside a worker's call).
  `sourceLabels_iff` — that set, explicitly (`RoleLabels`): `[add t, send t]`; `[callWait, waitRet]`; `[close]`;
  `take, finish t₁, take, finish t₂, …, exit` for ANY list of delivered tasks — and nothing else (a worker that is never told to stop
  never returns: `WorkerPool_worker_blocks`); `[finish t]` for the wrapper.
* `Interleave gs ls` — `ls` is an interleaving of (prefixes of) the sequences `gs`, each in its own order.
* `SourceRun cap workers ls q` — a run of the pool PROGRAM: some goroutines, each contributing a label sequence the interpreted source
  yields for its role (`hsrc`), interleaved in some way (`hint`), every label accepted by `Pool.apply` when its turn comes (`hacc`),
  from `Pool.init cap workers` to `q`.
* `source_run_reachable`, `SourceRun.prefix` — such a run is a `Pool.Reachable` run, and so is every prefix of it.
* `C12_for_interpreted_source`, `C08_bound_for_interpreted_source` — hence the invariants of `Props/C12.lean` / `Props/C08.lean` in EVERY
  state of such a run.

**What is derived from the source and what is not.** From the source: the ORDER of the labels of one goroutine (`add t` before `send t`,
`take` before `finish t`, `exit` last, `callWait` before `waitRet`), which is what `hsrc` + `hint` say. NOT from the source: which
interleavings happen, and when a blocking operation may complete — the Go scheduler, the semantics of a buffered channel, of `close`, of
`select`, of `sync.WaitGroup`. That is `Pool.apply`: `hacc` assumes that the runtime lets an action complete only when `apply` accepts
its label (a send only while the buffer has room, a receive only from a non-empty buffer by an idle worker, `waitRet` only at counter
zero, `exit` only after `close`). The safety invariants need nothing else: `accepted_run_reachable` holds for ANY accepted label
sequence, so `hsrc` and `hint` do not strengthen the conclusion — they say that the runs of the Go program are among the runs the
theorems quantify over. The LTS accepts more than the runtime produces (it does not check that the `t` of a worker's `finish t` is the
task that worker's own `take` dequeued; nor that no more than `w` goroutines act as workers — `idle` does that); for invariants of
all reachable states that is the safe direction. `NewWorkerPool` itself contains a `go` statement and is not run by the sequential
interpreter; that it starts `w` workers with `w` clamped to `≥ 1` is read off its syntax (`Refine/Pool.lean`, `NewWorkerPool_*`,
`clamp_matches_init`) and is the `Pool.init` here.
-/
namespace Flyt.Refine.Bridges
open Flyt Flyt.GoIR Flyt.GoIR.PoolW Flyt.Expected.IR Flyt.Refine Flyt.Refine.Pool
open Flyt.Pool (Label)

/-! ## the label sequences one goroutine contributes -/

/-- `ls` is what a run of the interpreter on the translated source yields for a goroutine in role `r` (started with an empty trace, at
    a sufficient recursion depth; the worker: with ANY script of observations and at ANY depth at which the run returns) -/
def SourceLabels : Role → List Label → Prop
  | .submitter t, ls => ∃ (fuel : Nat) (task : GV) (w : PW), 5 ≤ fuel ∧ w.trace = [] ∧
      labelsOfRun (.submitter t) (run fuel WorkerPool_Submit [poolH, task] w) = some ls
  | .waiter, ls => ∃ (fuel : Nat) (w : PW), 5 ≤ fuel ∧ w.trace = [] ∧ labelsOfRun .waiter (run fuel WorkerPool_Wait [poolH] w) = some ls
  | .closer, ls => ∃ (fuel : Nat) (w : PW), 7 ≤ fuel ∧ w.trace = [] ∧ labelsOfRun .closer (run fuel WorkerPool_Close [poolH] w) = some ls
  | .worker, ls => ∃ (fuel : Nat) (w : PW), w.trace = [] ∧ labelsOfRun .worker (run fuel WorkerPool_worker [poolH] w) = some ls
  | .wrapper t, ls => ∃ (fuel : Nat) (task : GV) (w : PW), 5 ≤ fuel ∧ w.trace = [] ∧ w.defers = [] ∧
      labelsOfRun (.wrapper t) (runWithDefers fuel wrapTask [poolH, task] { w with cur := some (.user t) }) = some ls

/-- the same set, explicitly -/
inductive RoleLabels : Role → List Label → Prop
  | submit (t : Nat) : RoleLabels (.submitter t) [.add t, .send t]
  | wait : RoleLabels .waiter [.callWait, .waitRet]
  | close : RoleLabels .closer [.close]
  | worker (ts : List Nat) : RoleLabels .worker ((ts.flatMap fun t => [.take, .finish t]) ++ [.exit])
  | wrapper (t : Nat) : RoleLabels (.wrapper t) [.finish t]

/-- a script is a run of tasks, or a run of tasks followed by a terminating observation -/
theorem script_split (sc : List Obs) :
    (∃ ts : List Nat, sc = ts.map .task) ∨ (∃ (ts : List Nat) (stop : Obs) (rest : List Obs), stop.isStop = true ∧ sc = ts.map .task ++ stop :: rest) := by
  induction sc with
  | nil => exact .inl ⟨[], rfl⟩
  | cons o t ih =>
    cases o with
    | task n =>
      rcases ih with ⟨ts, h⟩ | ⟨ts, stop, rest, hs, h⟩
      · exact .inl ⟨n :: ts, by rw [h]; rfl⟩
      · exact .inr ⟨n :: ts, stop, rest, hs, by rw [h]; rfl⟩
    | tasksClosed => exact .inr ⟨[], .tasksClosed, t, rfl, rfl⟩
    | doneClosed => exact .inr ⟨[], .doneClosed, t, rfl, rfl⟩

theorem run_mono {f g : Nat} (hfg : f ≤ g) {fn args w r} (h : run f fn args w = some r) : run g fn args w = some r := by
  simp only [run, Option.map_eq_some_iff] at h ⊢
  obtain ⟨x, hx, rfl⟩ := h
  exact ⟨x, mono_callFunc poolWorld hfg hx, rfl⟩

theorem with_script_eq (w : PW) (sc : List Obs) (h : w.script = sc) : { w with script := sc } = w := by subst h; cases w; rfl

/-- **The label sequences of the interpreted source, role by role, are exactly `RoleLabels`.** -/
theorem sourceLabels_iff (r : Role) (ls : List Label) : SourceLabels r ls ↔ RoleLabels r ls := by
  constructor
  · intro h
    cases r with
    | submitter t =>
      obtain ⟨fuel, task, w, hf, hw, h⟩ := h
      rw [Submit_labels hf t task w hw] at h; cases h; exact .submit t
    | waiter =>
      obtain ⟨fuel, w, hf, hw, h⟩ := h
      rw [Wait_labels hf w hw] at h; cases h; exact .wait
    | closer =>
      obtain ⟨fuel, w, hf, hw, h⟩ := h
      rw [Close_labels hf w hw] at h; cases h; exact .close
    | wrapper t =>
      obtain ⟨fuel, task, w, hf, hw, hd, h⟩ := h
      rw [wrapper_labels hf t task w hw hd] at h; cases h; exact .wrapper t
    | worker =>
      obtain ⟨fuel, w, hw, h⟩ := h
      rcases script_split w.script with ⟨ts, hsc⟩ | ⟨ts, stop, rest, hstop, hsc⟩
      · have hb := WorkerPool_worker_blocks fuel ts w
        rw [with_script_eq w _ hsc] at hb
        rw [hb] at h; cases h
      · cases hr : run fuel WorkerPool_worker [poolH] w with
        | none => rw [hr] at h; cases h
        | some x =>
          have hbig := run_mono (Nat.le_max_left fuel (11 + 1 * ts.length)) hr
          have hl := worker_labels ts (Nat.le_max_right fuel (11 + 1 * ts.length)) stop hstop rest w hw
          rw [with_script_eq w _ hsc, hbig] at hl
          rw [hr] at h
          simp only [labelsOfRun, Option.map_some, Option.some.injEq] at h hl
          rw [← h, hl]; exact .worker ts
  · intro h
    cases h with
    | submit t => exact ⟨5, .nil, {}, Nat.le_refl _, rfl, Submit_labels (Nat.le_refl _) t .nil {} rfl⟩
    | wait => exact ⟨5, {}, Nat.le_refl _, rfl, Wait_labels (Nat.le_refl _) {} rfl⟩
    | close => exact ⟨7, {}, Nat.le_refl _, rfl, Close_labels (Nat.le_refl _) {} rfl⟩
    | wrapper t => exact ⟨5, .nil, {}, Nat.le_refl _, rfl, rfl, wrapper_labels (Nat.le_refl _) t .nil {} rfl rfl⟩
    | worker ts =>
      exact ⟨11 + 1 * ts.length, { ({} : PW) with script := ts.map .task ++ [.doneClosed] }, rfl,
        worker_labels ts (Nat.le_refl _) .doneClosed rfl [] {} rfl⟩

/-! ## interleavings, runs of the program -/

/-- `out` is an interleaving of the sequences `gs`, each consumed front to back; sequences need not be exhausted (a goroutine may be
    blocked, or not have got further yet), so every prefix of an interleaving is one -/
inductive Interleave {α : Type} : List (List α) → List α → Prop
  | stop (gs : List (List α)) : Interleave gs []
  | step (gs : List (List α)) (i : Nat) (a : α) (rest : List α) (out : List α) :
      gs[i]? = some (a :: rest) → Interleave (gs.set i rest) out → Interleave gs (a :: out)

theorem Interleave.prefix {α : Type} {gs : List (List α)} {a b : List α} (h : Interleave gs (a ++ b)) : Interleave gs a := by
  induction a generalizing gs with
  | nil => exact .stop gs
  | cons x t ih =>
    cases h with
    | step _ i _ rest _ hi hrest => exact .step gs i x rest t hi (ih hrest)

/-- apply the labels one after the other; `none` as soon as one is not accepted -/
def runLabels (p : Flyt.Pool.Pool) : List Label → Option Flyt.Pool.Pool
  | [] => some p
  | l :: ls => (Flyt.Pool.apply p l).bind fun q => runLabels q ls

theorem runLabels_append (p : Flyt.Pool.Pool) (a b : List Label) :
    runLabels p (a ++ b) = (runLabels p a).bind fun q => runLabels q b := by
  induction a generalizing p with
  | nil => rfl
  | cons l t ih =>
    simp only [List.cons_append, runLabels]
    cases Flyt.Pool.apply p l with
    | none => rfl
    | some q => simp only [Option.bind_some]; exact ih q

theorem path_of_runLabels {p q : Flyt.Pool.Pool} {ls : List Label} (h : runLabels p ls = some q) : Props.C12.Path p q := by
  induction ls generalizing p with
  | nil => simp only [runLabels, Option.some.injEq] at h; subst h; exact .refl p
  | cons l t ih =>
    simp only [runLabels] at h
    cases hl : Flyt.Pool.apply p l with
    | none => rw [hl] at h; cases h
    | some p1 =>
      rw [hl, Option.bind_some] at h
      have h1 : Props.C12.Path p p1 := .step (.refl p) ⟨l, hl⟩
      have h2 := ih h
      clear h ih
      induction h2 with
      | refl => exact h1
      | step _ hs ih2 => exact .step ih2 hs

/-- **ANY label sequence that `Pool.apply` accepts step by step is a `Pool.Reachable` run** (no assumption on where the labels come
    from) -/
theorem accepted_run_reachable {cap : Nat} {workers : Int} {p q : Flyt.Pool.Pool} {ls : List Label}
    (hp : Flyt.Pool.Reachable cap workers p) (h : runLabels p ls = some q) : Flyt.Pool.Reachable cap workers q :=
  Props.C12.reachable_path hp (path_of_runLabels h)

/-- a goroutine of the pool program: its role and the labels it contributes -/
structure Goroutine where
  role : Role
  labels : List Label

/-- its label sequence is one the interpreted source yields for its role; the wrapper closure is not a goroutine of its own (it runs
    inside the worker's call, whose label `finish t` it is: `wrapper_inline`) -/
def Goroutine.FromSource (g : Goroutine) : Prop := (∀ t, g.role ≠ .wrapper t) ∧ SourceLabels g.role g.labels

/-- **a run of the pool program** from `NewWorkerPool(workers)` (channel capacity `cap`) to the state `q`, with label sequence `ls`:
    `hsrc` each goroutine contributes what the interpreted source of its role yields, `hint` interleaved in some way, `hacc` each label
    accepted by `Pool.apply` when its turn comes (the runtime: scheduler, channels, WaitGroup) -/
def SourceRun (cap : Nat) (workers : Int) (ls : List Label) (q : Flyt.Pool.Pool) : Prop :=
  ∃ gs : List Goroutine, (∀ g ∈ gs, g.FromSource) ∧ Interleave (gs.map (·.labels)) ls ∧
    runLabels (Flyt.Pool.init cap workers) ls = some q

/-- every prefix of a run of the program is a run of the program -/
theorem SourceRun.prefix {cap : Nat} {workers : Int} {a b : List Label} {q : Flyt.Pool.Pool} (h : SourceRun cap workers (a ++ b) q) :
    ∃ p, SourceRun cap workers a p ∧ runLabels p b = some q := by
  obtain ⟨gs, hsrc, hint, hacc⟩ := h
  rw [runLabels_append] at hacc
  cases hp : runLabels (Flyt.Pool.init cap workers) a with
  | none => rw [hp] at hacc; cases hacc
  | some p => rw [hp, Option.bind_some] at hacc; exact ⟨p, ⟨gs, hsrc, hint.prefix, hp⟩, hacc⟩

/-- **A run of the pool program is a `Pool.Reachable` run.** -/
theorem source_run_reachable {cap : Nat} {workers : Int} {ls : List Label} {q : Flyt.Pool.Pool} (h : SourceRun cap workers ls q) :
    Flyt.Pool.Reachable cap workers q := by
  obtain ⟨_, _, _, hacc⟩ := h
  exact accepted_run_reachable .init hacc

/-- **C12 for the interpreted source.** In EVERY state `p` of a run of the pool program (after every prefix `l₁` of its labels):
    (a) `p` is a reachable state of the LTS, and the run so far is itself a run of the program;
    (b) at most once — a task is in exactly one of: waiting to be sent, queued, running, finished;
    (c) the WaitGroup counter is the number of submitted tasks that have not finished;
    (d) `Wait` returns only when the counter is zero: if the next label is `waitRet` then `p.wg = 0` and every task submitted so far
        is finished in the next state;
    (e) never dropped: every task submitted so far is still accounted for at the end `q` of the run, and a task finished in `p` is
        finished — and nowhere else — in `q`;
    and at the end, (f) Close leaks nothing: if `q` is closed and its counter is zero then no worker can take or run anything, every
    idle worker can leave, and when they have all done so all `q.w` workers have terminated. -/
theorem C12_for_interpreted_source {cap : Nat} {workers : Int} {ls : List Label} {q : Flyt.Pool.Pool} (h : SourceRun cap workers ls q) :
    (∀ l₁ l₂, ls = l₁ ++ l₂ → ∃ p, runLabels (Flyt.Pool.init cap workers) l₁ = some p ∧
      SourceRun cap workers l₁ p ∧ Flyt.Pool.Reachable cap workers p ∧
      (p.pend ++ p.queue ++ p.running ++ p.finished).Nodup ∧
      p.wg = p.pend.length + p.queue.length + p.running.length ∧
      (∀ l₂', l₂ = .waitRet :: l₂' → p.wg = 0 ∧
        ∃ r, Flyt.Pool.apply p .waitRet = some r ∧ ∀ t, t ∈ p.tasks → t ∈ r.finished) ∧
      (∀ t, t ∈ p.tasks → t ∈ q.tasks) ∧
      (∀ t, t ∈ p.finished → t ∈ q.finished ∧ t ∉ q.running ∧ t ∉ q.queue ∧ t ∉ q.pend)) ∧
    (q.closed = true → q.wg = 0 →
      Flyt.Pool.apply q .take = none ∧ (∀ t, Flyt.Pool.apply q (.finish t) = none) ∧
      (q.idle > 0 → (Flyt.Pool.apply q .exit).isSome) ∧
      (Props.C12.exitAll q.idle q).exited = q.w ∧ (Props.C12.exitAll q.idle q).idle = 0) := by
  refine ⟨?_, fun hc hw => ?_⟩
  · rintro l₁ l₂ rfl
    obtain ⟨p, hsrc, hrest⟩ := h.prefix
    have hp := source_run_reachable hsrc
    have hpath := path_of_runLabels hrest
    have inv := Flyt.Pool.inv_reachable hp
    have hacc : runLabels (Flyt.Pool.init cap workers) l₁ = some p := by obtain ⟨_, _, _, h3⟩ := hsrc; exact h3
    refine ⟨p, hacc, hsrc, hp, inv.nodup, inv.wgEq, ?_, Props.C12.never_dropped hpath,
      Props.C12.finished_is_final hp hpath⟩
    rintro l₂' rfl
    simp only [runLabels] at hrest
    cases hr : Flyt.Pool.apply p .waitRet with
    | none => rw [hr] at hrest; cases hrest
    | some r =>
      refine ⟨?_, r, rfl, Props.C12.wait_barrier hp hr⟩
      simp only [Flyt.Pool.apply] at hr
      split at hr
      · rename_i hcnd; exact hcnd.2
      · cases hr
  · obtain ⟨a, b, c, d, e, _⟩ := Props.C12.close_leaks_nothing (source_run_reachable h) hc hw
    exact ⟨a, b, c, d, e⟩

/-- **C08 (hard bound) for the interpreted source.** In every state of a run of the pool program at most `w` tasks are being
    executed, `w` being what `NewWorkerPool` was given (`≤ 0` meaning 1); and an idle worker never refuses queued work. -/
theorem C08_bound_for_interpreted_source {cap : Nat} {workers : Int} {ls : List Label} {q : Flyt.Pool.Pool}
    (h : SourceRun cap workers ls q) :
    ∀ l₁ l₂, ls = l₁ ++ l₂ → ∃ p, runLabels (Flyt.Pool.init cap workers) l₁ = some p ∧
      p.running.length ≤ p.w ∧ p.w = (if workers ≤ 0 then 1 else workers.toNat) ∧
      (p.queue ≠ [] → p.running.length + p.exited < p.w → (Flyt.Pool.apply p .take).isSome) := by
  rintro l₁ l₂ rfl
  obtain ⟨p, hsrc, _⟩ := h.prefix
  have hp := source_run_reachable hsrc
  have hacc : runLabels (Flyt.Pool.init cap workers) l₁ = some p := by obtain ⟨_, _, _, h3⟩ := hsrc; exact h3
  exact ⟨p, hacc, Props.C08.in_flight_le_workers hp, Props.C08.w_const hp, Props.C08.idle_worker_takes hp⟩

/-! ## non-vacuity -/

/-- one worker, two submitters, a waiter, a closer; capacity 1 — the second `Submit` has to wait for the worker's `take`; `Wait`
    returns after both tasks; after `Close` the worker leaves. Every hypothesis of `SourceRun` holds of it. -/
example : ∃ q, SourceRun 1 1
    [.add 0, .send 0, .add 1, .callWait, .take, .send 1, .finish 0, .take, .finish 1, .waitRet, .close, .exit] q ∧
    q.finished = [1, 0] ∧ q.wg = 0 ∧ q.exited = 1 := by
  refine ⟨(runLabels (Flyt.Pool.init 1 1)
      [.add 0, .send 0, .add 1, .callWait, .take, .send 1, .finish 0, .take, .finish 1, .waitRet, .close, .exit]).getD (Flyt.Pool.init 1 1),
    ⟨[⟨.submitter 0, [.add 0, .send 0]⟩, ⟨.submitter 1, [.add 1, .send 1]⟩, ⟨.waiter, [.callWait, .waitRet]⟩,
      ⟨.worker, [.take, .finish 0, .take, .finish 1, .exit]⟩, ⟨.closer, [.close]⟩], ?_, ?_, by decide⟩, by decide, by decide, by decide⟩
  · intro g hg
    simp only [List.mem_cons, List.not_mem_nil, or_false] at hg
    rcases hg with rfl | rfl | rfl | rfl | rfl
    · exact ⟨fun t => by simp, (sourceLabels_iff _ _).2 (.submit 0)⟩
    · exact ⟨fun t => by simp, (sourceLabels_iff _ _).2 (.submit 1)⟩
    · exact ⟨fun t => by simp, (sourceLabels_iff _ _).2 .wait⟩
    · exact ⟨fun t => by simp, (sourceLabels_iff _ _).2 (.worker [0, 1])⟩
    · exact ⟨fun t => by simp, (sourceLabels_iff _ _).2 .close⟩
  · refine .step _ 0 _ _ _ rfl (.step _ 0 _ _ _ rfl (.step _ 1 _ _ _ rfl (.step _ 2 _ _ _ rfl (.step _ 3 _ _ _ rfl
      (.step _ 1 _ _ _ rfl (.step _ 3 _ _ _ rfl (.step _ 3 _ _ _ rfl (.step _ 3 _ _ _ rfl (.step _ 2 _ _ _ rfl
      (.step _ 4 _ _ _ rfl (.step _ 3 _ _ _ rfl (.stop _))))))))))))

/-- … and the runtime hypothesis bites: the same goroutines, but `Wait` returning while task 1 still runs, is not accepted -/
example : runLabels (Flyt.Pool.init 1 1) [.add 0, .send 0, .add 1, .callWait, .take, .send 1, .finish 0, .take, .waitRet] = none := by
  decide

end Flyt.Refine.Bridges
