import FlytModel.GoIR.BindWorld
import FlytModel.Expected.IR
import FlytModel.Refine.Run
import FlytModel.Props.C16
/-!
# Refinement: the translated Go source of `Result.Bind / MustBind`, `SharedStore.Bind / MustBind` (`Flyt.Expected.IR`; result.go:294-337,
flyt.go:380-425), run by the definitional interpreter of `GoIR/Interp.lean` in the worlds of `GoIR/BindWorld.lean`, computes exactly
`resultBind / resultMustBind / storeBind / storeMustBind` of `Model/Bind.lean` (property C16)

For EVERY type universe `T` (with decidable equality), value universe `V`, byte type `B`, error type `E`, every `Codec T V B E`
(`reflect.TypeOf`, `json.Marshal`, `json.Unmarshal` as arbitrary functions), every value, every destination (all four `Dest` shapes),
every store / key, every sufficient recursion depth:

    runResultBind c fuel Result_Bind value d                              = encBind []    (resultBind c value d)          -- 17 ≤ fuel
    runStoreBind  c (s key) kname fuelIn fuel SharedStore_Get SharedStore_Bind d = encBind critR (storeBind c s key d).1  -- 8 ≤ fuelIn, 18 ≤ fuel
    runResultMust c fuelIn fuel Result_Bind Result_MustBind value d       = encMust (calls of Bind) (resultMustBind c value d)     -- 17 ≤ fuelIn, 10 ≤ fuel
    runStoreMust  c (s key) kname fuelIn fuel SharedStore_Get SharedStore_Bind SharedStore_MustBind d
                                                                         = encMust (critR ++ calls of Bind) (storeMustBind c s key d).1  -- 18 ≤ fuelIn, 10 ≤ fuel

## what is compared (`Obs` = returned values × final destination × the codec's error × trace)
* **returned error** (`encErr`): `nil` ↔ `.nil`; `marshal e` ↔ `.err (.user 0)` and `unmarshal e` ↔ `.err (.user 1)` — the root of the
  error `json.Marshal` resp. `json.Unmarshal` returned, which survives the `%w` of `fmt.Errorf` (`containsW`: `cwA`–`cwC`; without `%w`
  the result would be `.fw .other` and the theorem false) — with the codec's error ITSELF (`e : E`) in the world state (`errPayload`);
  `keyNotFound`, `nilResult`, `badDest` ↔ `.err (.fw .other)`: the interpreter's `errorf` maps every framework-made message but three
  of the orchestration core to `FwTag.other`, so WHICH of the three it is, is not observable in the returned value (the message is not
  part of `GV`). It is observable through the rest: `keyNotFound` / `nilResult` are returned before `reflect.ValueOf(dest)`, and they
  are the model's answer only on `s key = none` / `value = none`.
* **final destination**: `BW.dest` = the model's `Outcome.dest` — the identity copy, what `json.Unmarshal` decoded, and also what a
  FAILING `json.Unmarshal` left behind.
* **trace**: for the store the critical section of `Get` — `critR = [lock R, deferUnlock R, unlock R]` — FOLLOWED by the model's
  `Outcome.calls` (`json.Marshal`, `json.Unmarshal` with their arguments); for a `Result` the calls alone. Identity path: no call.
* **`Res.panic` = stuck** (`encBind … .panic = none`); **`MustBind`**: `.returned d` ↔ returns nothing, destination `d`; BOTH
  `.mustPanic e d` (the `panic(fmt.Sprintf(…))` of `MustBind`, reached: 10 is the least depth at which it is) and `.panic` ↔ stuck.

## `SharedStore.Bind` and the lock
`SharedStore.Bind` takes no lock of its own: `val, ok := s.Get(key)`. The world runs the TRANSLATED `SharedStore.Get` for that call
(`bindWorld`, `nested`; `get_run`), so the trace shows `RLock`, `defer RUnlock`, the read `s.data[key]` (guarded: `guard_mapIndex`,
`guard_data` — stuck without the lock; `BindTest` runs a `Get` without `RLock`), and the `RUnlock` when `Get` RETURNS. Everything else —
`reflect.ValueOf/TypeOf`, the identity `Set`, `json.Marshal(val)`, `json.Unmarshal` — happens AFTER the unlock, on the interface
value `Get` returned (`SharedStore_Bind_disciplined`: the trace is balanced and every codec call lies outside the critical section).
So a stored pointer / map / slice is read by `json.Marshal` (or aliased by the identity copy) with no lock held: concurrent MUTATION OF
THE STORED OBJECT by another goroutine is not excluded by the store's mutex (replacing the value under the key is). The model's
`storeBind` returns the store unchanged; the world offers no write to the store at all (`setIndex` is stuck), so neither does the source.

## C16 "never panics" on the source
`Result_Bind_stuck_iff`, `SharedStore_Bind_stuck_iff`: the interpreted source is stuck iff the model panics; with
`Props.C16.never_panics` (the guard ORDER): `Result_Bind_never_stuck`, `SharedStore_Bind_never_stuck` — no run reaches a `reflect` call
Go would panic on. `…_MustBind_stuck_iff`: `MustBind` panics iff `Bind` returns an error (never because `Bind` panicked).

Proofs: `gosimp` of `Refine/Run.lean` plus the projections `W0_*` / `W1_*` / `W2_*` of the three worlds; case analysis exactly as far
as the model's: value nil or not, shape of the destination, `typeOf v = t`, result of `marshal`, error of `unmarshal`. The nested runs
are rewritten by their own theorems (`get_run` inside `Bind`; `BindSpec` of `Bind` inside `MustBind`).
-/

namespace Flyt.Refine.BindR
open Flyt Flyt.GoIR Flyt.Bind Flyt.GoIR.BindW Flyt.Expected.IR Flyt.Refine
open Flyt.StoreConc (Mode)
set_option linter.unusedSimpArgs false

/-! ## unfolding lemmas for the constructors `Refine/Run.lean` does not cover -/

section steps
variable {Ω : Type} (W : World Ω)
theorem expr_sel (f : Nat) (a : Expr) (fl : String) (st : GoIR.St Ω) :
    evalExpr W (f + 1) (.sel a fl) st =
      match evalExpr W f a st with
      | some ([x], st1) => (W.field x fl st1.w).map fun v => ([v], st1)
      | _ => none := rfl
theorem expr_or (f : Nat) (a b : Expr) (st : GoIR.St Ω) :
    evalExpr W (f + 1) (.bin "||" a b) st =
        match evalExpr W f a st with
        | some ([.bool true], st1) => some ([.bool true], st1)
        | some ([.bool false], st1) =>
          (match evalExpr W f b st1 with
           | some ([.bool q], st2) => some ([.bool q], st2)
           | _ => none)
        | _ => none := rfl
theorem expr_not (f : Nat) (a : Expr) (st : GoIR.St Ω) :
    evalExpr W (f + 1) (.un "!" a) st =
      match evalExpr W f a st with
      | some ([.bool p], st1) => some ([.bool !p], st1)
      | _ => none := rfl
theorem expr_index (f : Nat) (a i : Expr) (st : GoIR.St Ω) :
    evalExpr W (f + 1) (.index a i) st =
      match evalExpr W f a st with
      | some ([.slice ad off n], st1) =>
        (match evalExpr W f i st1 with
         | some ([.int k], st2) =>
           if 0 ≤ k ∧ k.toNat < n then (heapGet st2.heap ad (off + k.toNat)).map fun r => ([.result r], st2) else none
         | _ => none)
      | some ([mv], st1) =>
        (match evalExpr W f i st1 with
         | some ([kv], st2) => (W.mapIndex mv kv st2.w).map fun (v, _) => ([v], st2)
         | _ => none)
      | _ => none := rfl
theorem stmt_expr_mcall_nil (f : Nat) (r : Expr) (m : String) (st : GoIR.St Ω) :
    execStmt W (f + 1) (.expr (.mcall r m .nil)) st = (evalExpr W f (.mcall r m .nil) st).map fun (_, st1) => (.next, st1) := rfl
theorem stmt_expr_mcall_call (f : Nat) (r : Expr) (m fn : String) (as : Exprs) (st : GoIR.St Ω) :
    execStmt W (f + 1) (.expr (.mcall r m (.cons (.call fn as) .nil))) st =
      (evalExpr W f (.mcall r m (.cons (.call fn as) .nil)) st).map fun (_, st1) => (.next, st1) := rfl
theorem stmt_expr_call (f : Nat) (fn : String) (args : Exprs) (st : GoIR.St Ω) :
    execStmt W (f + 1) (.expr (.call fn args)) st = (evalExpr W f (.call fn args) st).map fun (_, st1) => (.next, st1) := rfl
theorem stmt_defer (f : Nat) (r : Expr) (m : String) (st : GoIR.St Ω) :
    execStmt W (f + 1) (.deferS (.mcall r m .nil)) st =
      (match evalExpr W f r st with
       | some ([x], st1) =>
         (match W.mcall x ("defer:" ++ m) [] st1.heap st1.w with
          | some (_, h, w) => some (.next, { st1 with heap := h, w := w })
          | none => none)
       | _ => none) := rfl
end steps

theorem cwA : containsW "failed to marshal Result: %w" = true := containsW_of 60 _ (by decide)
theorem cwB : containsW "failed to marshal value: %w" = true := containsW_of 60 _ (by decide)
theorem cwC : containsW "failed to unmarshal to destination: %w" = true := containsW_of 60 _ (by decide)

/-! ## projections of the worlds -/

section world
variable {T V B E : Type} [DecidableEq T] (c : Codec T V B E) (src : Option (Option V)) (kname : String)
local notation "W0" => baseWorld c src kname

theorem W0_valueOf (x : GV) (h : Heap) (w : BW T V B E) :
    (W0).call "reflect.ValueOf" [x] h w = (wValueOf x).map fun r => ([r], h, w) := rfl
theorem W0_typeOf (x : GV) (h : Heap) (w : BW T V B E) :
    (W0).call "reflect.TypeOf" [x] h w = (wTypeOf c src.join x w).map fun p => ([p.1], h, p.2) := rfl
theorem W0_marshal (x : GV) (h : Heap) (w : BW T V B E) :
    (W0).call "json.Marshal" [x] h w = (wMarshal c src.join x w).map fun p => (p.1, h, p.2) := rfl
theorem W0_unmarshal (bx dx : GV) (h : Heap) (w : BW T V B E) :
    (W0).call "json.Unmarshal" [bx, dx] h w = (wUnmarshal c bx dx w).map fun p => (p.1, h, p.2) := rfl
theorem W0_sprintf (l : List GV) (h : Heap) (w : BW T V B E) : (W0).call "fmt.Sprintf" l h w = some ([.str ""], h, w) := by
  simp [baseWorld]
theorem W0_panic (l : List GV) (h : Heap) (w : BW T V B E) : (W0).call "panic" l h w = none := by
  simp [baseWorld]
theorem W0_mu (i : Nat) (m : String) (h : Heap) (w : BW T V B E) :
    (W0).mcall (.ref "mutex" i) m [] h w = (muCall m w).map fun w' => ([], h, w') := rfl
theorem W0_typeElem (i : Nat) (h : Heap) (w : BW T V B E) :
    (W0).mcall (.ref "rtype" i) "Elem" [] h w = (wTypeElem w).map fun p => ([p.1], h, p.2) := rfl
theorem W0_set (i : Nat) (y : GV) (h : Heap) (w : BW T V B E) :
    (W0).mcall (.ref "elem" i) "Set" [y] h w = (wSet c src.join y w).map fun w' => ([], h, w') := rfl
theorem W0_kind_rv (i : Nat) (h : Heap) (w : BW T V B E) :
    (W0).mcall (.ref "rv" i) "Kind" [] h w = (wKind (.ref "rv" i) w).map fun r => ([r], h, w) := rfl
theorem W0_kind_rzero (i : Nat) (h : Heap) (w : BW T V B E) :
    (W0).mcall (.ref "rzero" i) "Kind" [] h w = (wKind (.ref "rzero" i) w).map fun r => ([r], h, w) := rfl
theorem W0_isNil_rv (i : Nat) (h : Heap) (w : BW T V B E) :
    (W0).mcall (.ref "rv" i) "IsNil" [] h w = (wIsNil (.ref "rv" i) w).map fun r => ([r], h, w) := rfl
theorem W0_type_rv (i : Nat) (h : Heap) (w : BW T V B E) :
    (W0).mcall (.ref "rv" i) "Type" [] h w = (wType (.ref "rv" i) w).map fun r => ([r], h, w) := rfl
theorem W0_elem_rv (i : Nat) (h : Heap) (w : BW T V B E) :
    (W0).mcall (.ref "rv" i) "Elem" [] h w = (wElem (.ref "rv" i) w).map fun r => ([r], h, w) := rfl
theorem W0_field_mu (i : Nat) (w : BW T V B E) : (W0).field (.ref "store" i) "mu" w = some muH := rfl
theorem W0_field_data (i : Nat) (w : BW T V B E) :
    (W0).field (.ref "store" i) "data" w = if w.held.isSome then some mapH else none := rfl
theorem W0_field_value (i : Nat) (w : BW T V B E) : (W0).field (.ref "result" i) "value" w = some (encV src.join) := rfl
theorem W0_field_ptr (i : Nat) (w : BW T V B E) : (W0).field (.ref "pkg:reflect" i) "Ptr" w = some (.int 22) := rfl
theorem W0_mapIndex (i : Nat) (k : String) (w : BW T V B E) :
    (W0).mapIndex (.ref "map" i) (.str k) w = mapGet src kname k w := rfl
theorem W0_global : (W0).global "reflect" = some reflectH := rfl

variable (getF bindF : Func) (fi : Nat)
local notation "W1" => bindWorld c src kname getF fi
local notation "W2" => mustWorld c src kname getF bindF fi

theorem W1_call : (W1).call = (W0).call := rfl
theorem W1_field : (W1).field = (W0).field := rfl
theorem W1_mapIndex : (W1).mapIndex = (W0).mapIndex := rfl
theorem W1_global : (W1).global = (W0).global := rfl
theorem W1_Get (i : Nat) (args : List GV) (h : Heap) (w : BW T V B E) :
    (W1).mcall (.ref "store" i) "Get" args h w = nested W0 fi getF (.ref "store" i :: args) h w := rfl
theorem W1_mcall_rv (i : Nat) (m : String) (args : List GV) (h : Heap) (w : BW T V B E) :
    (W1).mcall (.ref "rv" i) m args h w = (W0).mcall (.ref "rv" i) m args h w := rfl
theorem W1_mcall_rzero (i : Nat) (m : String) (args : List GV) (h : Heap) (w : BW T V B E) :
    (W1).mcall (.ref "rzero" i) m args h w = (W0).mcall (.ref "rzero" i) m args h w := rfl
theorem W1_mcall_rtype (i : Nat) (m : String) (args : List GV) (h : Heap) (w : BW T V B E) :
    (W1).mcall (.ref "rtype" i) m args h w = (W0).mcall (.ref "rtype" i) m args h w := rfl
theorem W1_mcall_elem (i : Nat) (m : String) (args : List GV) (h : Heap) (w : BW T V B E) :
    (W1).mcall (.ref "elem" i) m args h w = (W0).mcall (.ref "elem" i) m args h w := rfl

theorem W2_call : (W2).call = (W0).call := rfl
theorem W2_Bind_store (i : Nat) (args : List GV) (h : Heap) (w : BW T V B E) :
    (W2).mcall (.ref "store" i) "Bind" args h w = nested W1 fi bindF (.ref "store" i :: args) h w := rfl
theorem W2_Bind_result (i : Nat) (args : List GV) (h : Heap) (w : BW T V B E) :
    (W2).mcall (.ref "result" i) "Bind" args h w = nested W1 fi bindF (.ref "result" i :: args) h w := rfl
end world

macro "bindsimp" " [" ts:Lean.Parser.Tactic.simpLemma,* "]" : tactic =>
  `(tactic| gosimp [expr_sel, expr_or, expr_not, expr_index, stmt_expr_mcall_nil, stmt_expr_mcall_call, stmt_expr_call, stmt_defer,
      cwA, cwB, cwC, fwTagOf, callFunc, exitDefers, runDefers, observe,
      W1_call, W1_field, W1_mapIndex, W1_global, W1_Get, W1_mcall_rv, W1_mcall_rzero, W1_mcall_rtype, W1_mcall_elem,
      W2_call, W2_Bind_store, W2_Bind_result,
      W0_valueOf, W0_typeOf, W0_marshal, W0_unmarshal, W0_sprintf, W0_panic, W0_mu, W0_typeElem, W0_set, W0_kind_rv, W0_kind_rzero,
      W0_isNil_rv, W0_type_rv, W0_elem_rv, W0_field_mu, W0_field_data, W0_field_value, W0_field_ptr, W0_mapIndex, W0_global,
      rH, sH, muH, mapH, valH, destRefH, rzeroH, rvH, rvalH, rtypeH, elemH, bytesH, reflectH,
      encV, destH, kindCode, encJErr, decV, intern, idxT, wValueOf, wTypeOf, wKind, wIsNil, wType, wTypeElem, wElem, wSet, wMarshal, wUnmarshal,
      acquire, release, muCall, mapGet, $ts,*])

/-! ## `SharedStore.Get`, as `SharedStore.Bind` calls it -/

section get
variable {T V B E : Type} [DecidableEq T] (c : Codec T V B E) (src : Option (Option V)) (kname : String)

theorem get_run (k : Nat) (h : Heap) (d : Dest T V) (tys : List T) (bs : Option B) (je : Option E) (ds : List Mode)
    (tr : List (BEv T V B)) :
    nested (baseWorld c src kname) (k + 8) SharedStore_Get [.ref "store" 0, .str kname] h ⟨d, tys, bs, je, none, ds, tr⟩ =
      some ([encV src.join, .bool src.isSome], h, ⟨d, tys, bs, je, none, ds, tr ++ critR⟩) := by
  unfold nested
  bindsimp [SharedStore_Get, critR]
end get

/-! ## `Bind` -/

section bind
variable {T V B E : Type} [DecidableEq T] (c : Codec T V B E)

/-- what a (nested or outermost) run of `Bind` does, against the model's answer: the returned error, and of the final world state
    everything a caller can go on from -/
def BindSpec (r : Option (List GV × Heap × BW T V B E)) (locks : List (BEv T V B)) : Res (Bind.Outcome T V B E) → Prop
  | .panic => r = none
  | .ok o => ∃ w', r = some ([encErr o.err], [], w') ∧ w'.dest = o.dest ∧ w'.jerr = errPayload o.err ∧
      w'.tr = locks ++ o.calls.map .json ∧ w'.defers = [] ∧ w'.held = none

theorem resultBind_core (k : Nat) (value : Option V) (d : Dest T V) (kname : String) (getF : Func) (fi : Nat) :
    BindSpec (nested (bindWorld c (some value) kname getF fi) (k + 17) Result_Bind [rH, destH d] [] { dest := d }) []
      (resultBind c value d) := by
  unfold nested
  cases value with
  | none => bindsimp [Result_Bind, BindSpec, resultBind, encErr, errPayload]
  | some v =>
    cases d with
    | untypedNil => bindsimp [Result_Bind, BindSpec, resultBind, bindVal, Dest.kind, Dest.isNil, Res.bind, encErr, errPayload]
    | nonPointer t => bindsimp [Result_Bind, BindSpec, resultBind, bindVal, Dest.kind, Dest.isNil, Res.bind, encErr, errPayload]
    | nilPointer t => bindsimp [Result_Bind, BindSpec, resultBind, bindVal, Dest.kind, Dest.isNil, Res.bind, encErr, errPayload]
    | ptr t cur =>
      by_cases ht : c.typeOf v = t
      · bindsimp [Result_Bind, BindSpec, resultBind, bindVal_ptr, ht, Dest.kind, Dest.isNil, Dest.elemType, Dest.set, encErr, errPayload]
      · have ht' : ¬ t = c.typeOf v := fun h => ht h.symm
        cases hm : c.marshal (some v) with
        | error e =>
          bindsimp [Result_Bind, BindSpec, resultBind, bindVal_ptr, jsonRoundTrip, ht, ht', hm, Dest.kind, Dest.isNil, Dest.elemType,
            encErr, errPayload]
        | ok b =>
          cases hu : (c.unmarshal b t cur).2 with
          | none =>
            bindsimp [Result_Bind, BindSpec, resultBind, bindVal_ptr, jsonRoundTrip, ht, ht', hm, hu, Dest.kind, Dest.isNil, Dest.elemType,
              Dest.unmarshalInto, encErr, errPayload]
          | some e =>
            bindsimp [Result_Bind, BindSpec, resultBind, bindVal_ptr, jsonRoundTrip, ht, ht', hm, hu, Dest.kind, Dest.isNil, Dest.elemType,
              Dest.unmarshalInto, encErr, errPayload]

/-- `storeBind` as a function of what the store holds under the key -/
def storeBindAt (src : Option (Option V)) (d : Dest T V) : Res (Bind.Outcome T V B E) :=
  match src with
  | none => .ok ⟨some .keyNotFound, d, []⟩
  | some val => bindVal c val d

theorem storeBind_eq {K : Type} (s : Store K V) (key : K) (d : Dest T V) :
    storeBind c s key d = (storeBindAt c (s key) d, s) := by
  unfold storeBind storeBindAt
  cases s key <;> rfl

theorem storeBind_core (ki k : Nat) (src : Option (Option V)) (kname : String) (d : Dest T V) :
    BindSpec (nested (bindWorld c src kname SharedStore_Get (ki + 8)) (k + 18) SharedStore_Bind [sH, .str kname, destH d] []
      { dest := d }) critR (storeBindAt c src d) := by
  unfold nested storeBindAt
  cases src with
  | none => bindsimp [get_run, SharedStore_Bind, BindSpec, encErr, errPayload]
  | some val =>
    simp only
    cases d with
    | untypedNil =>
      cases val <;> bindsimp [get_run, SharedStore_Bind, BindSpec, bindVal, Dest.kind, Dest.isNil, Res.bind, encErr, errPayload]
    | nonPointer t =>
      cases val <;> bindsimp [get_run, SharedStore_Bind, BindSpec, bindVal, Dest.kind, Dest.isNil, Res.bind, encErr, errPayload]
    | nilPointer t =>
      cases val <;> bindsimp [get_run, SharedStore_Bind, BindSpec, bindVal, Dest.kind, Dest.isNil, Res.bind, encErr, errPayload]
    | ptr t cur =>
      cases val with
      | none =>
        cases hm : c.marshal none with
        | error e =>
          bindsimp [get_run, SharedStore_Bind, BindSpec, bindVal_ptr, jsonRoundTrip, hm, Dest.kind, Dest.isNil, Dest.elemType,
            encErr, errPayload, critR]
        | ok b =>
          cases hu : (c.unmarshal b t cur).2 <;>
          bindsimp [get_run, SharedStore_Bind, BindSpec, bindVal_ptr, jsonRoundTrip, hm, hu, Dest.kind, Dest.isNil, Dest.elemType,
            Dest.unmarshalInto, encErr, errPayload, critR]
      | some v =>
        by_cases ht : c.typeOf v = t
        · bindsimp [get_run, SharedStore_Bind, BindSpec, bindVal_ptr, ht, Dest.kind, Dest.isNil, Dest.elemType, Dest.set,
            encErr, errPayload, critR]
        · have ht' : ¬ t = c.typeOf v := fun h => ht h.symm
          cases hm : c.marshal (some v) with
          | error e =>
            bindsimp [get_run, SharedStore_Bind, BindSpec, bindVal_ptr, jsonRoundTrip, ht, ht', hm, Dest.kind, Dest.isNil, Dest.elemType,
              encErr, errPayload, critR]
          | ok b =>
            cases hu : (c.unmarshal b t cur).2 <;>
            bindsimp [get_run, SharedStore_Bind, BindSpec, bindVal_ptr, jsonRoundTrip, ht, ht', hm, hu, Dest.kind, Dest.isNil,
              Dest.elemType, Dest.unmarshalInto, encErr, errPayload, critR]
end bind

/-! ## `MustBind` -/

section must
variable {T V B E : Type} [DecidableEq T] (c : Codec T V B E)

theorem resultMust_core (ki k : Nat) (value : Option V) (d : Dest T V) :
    runResultMust c (ki + 17) (k + 10) Result_Bind Result_MustBind value d =
      encMust ((callsOf (resultBind c value d)).map .json) (resultMustBind c value d) := by
  have hcore := resultBind_core c ki value d "" noFunc (ki + 17)
  unfold runResultMust nested
  simp only [rH] at hcore
  generalize destH d = dh at hcore ⊢
  cases hm : resultBind c value d with
  | panic =>
    rw [hm] at hcore
    simp only [BindSpec] at hcore
    bindsimp [Result_MustBind, hcore, resultMustBind, hm, mustOf, encMust]
  | ok o =>
    rw [hm] at hcore
    obtain ⟨w', hB, hd, hj, ht, hdf, hh⟩ := hcore
    obtain ⟨err, od, calls⟩ := o
    cases err with
    | none => bindsimp [Result_MustBind, hB, resultMustBind, hm, mustOf, encMust, encErr, callsOf, hd, hj, ht, hdf, errPayload]
    | some e => cases e <;> bindsimp [Result_MustBind, hB, resultMustBind, hm, mustOf, encMust, encErr, callsOf]

theorem storeMust_core (ki k : Nat) (src : Option (Option V)) (kname : String) (d : Dest T V) :
    runStoreMust c src kname (ki + 18) (k + 10) SharedStore_Get SharedStore_Bind SharedStore_MustBind d =
      encMust (critR ++ (callsOf (storeBindAt c src d)).map .json) (mustOf (storeBindAt c src d)) := by
  have hcore := storeBind_core c (ki + 10) ki src kname d
  rw [show ki + 10 + 8 = ki + 18 from rfl] at hcore
  unfold runStoreMust nested
  simp only [sH] at hcore
  generalize destH d = dh at hcore ⊢
  generalize storeBindAt c src d = m at hcore ⊢
  cases m with
  | panic =>
    simp only [BindSpec] at hcore
    bindsimp [SharedStore_MustBind, hcore, mustOf, encMust]
  | ok o =>
    obtain ⟨w', hB, hd, hj, ht, hdf, hh⟩ := hcore
    obtain ⟨err, od, calls⟩ := o
    cases err with
    | none => bindsimp [SharedStore_MustBind, hB, mustOf, encMust, encErr, callsOf, hd, hj, ht, hdf, errPayload]
    | some e => cases e <;> bindsimp [SharedStore_MustBind, hB, mustOf, encMust, encErr, callsOf]
end must

/-! ## The statements at every sufficient recursion depth -/

section headline
variable {K T V B E : Type} [DecidableEq T] (c : Codec T V B E)

omit [DecidableEq T] in
theorem observe_of_spec {r : Option (List GV × Heap × BW T V B E)} {locks : List (BEv T V B)} {m : Res (Bind.Outcome T V B E)}
    (h : BindSpec r locks m) : observe r = encBind locks m := by
  cases m with
  | panic => simp only [BindSpec] at h; subst h; rfl
  | ok o =>
    obtain ⟨w', rfl, hd, hj, ht, _, _⟩ := h
    simp [observe, encBind, hd, hj, ht]

theorem exists_add {n fuel : Nat} (h : n ≤ fuel) : ∃ k, fuel = k + n := ⟨fuel - n, by omega⟩

/-- the recursion depth of the executable test -/
def F : Nat := 40

/-- **`Result.Bind` refines `resultBind`.** -/
theorem Result_Bind_refines_of_le (value : Option V) (d : Dest T V) (fuel : Nat) (h : 17 ≤ fuel) :
    runResultBind c fuel Result_Bind value d = encBind [] (resultBind c value d) := by
  obtain ⟨k, rfl⟩ := exists_add h
  exact observe_of_spec (resultBind_core c k value d "" noFunc 0)

/-- **`SharedStore.Bind` refines `storeBind`**: the critical section of the `Get` it calls, then — after the unlock — the model's
    calls into the codec. -/
theorem SharedStore_Bind_refines_of_le (s : Store K V) (key : K) (kname : String) (d : Dest T V) (fuelIn fuel : Nat)
    (hi : 8 ≤ fuelIn) (h : 18 ≤ fuel) :
    runStoreBind c (s key) kname fuelIn fuel SharedStore_Get SharedStore_Bind d = encBind critR (storeBind c s key d).1 := by
  obtain ⟨ki, rfl⟩ := exists_add hi
  obtain ⟨k, rfl⟩ := exists_add h
  rw [storeBind_eq]
  exact observe_of_spec (storeBind_core c ki k (s key) kname d)

/-- **`Result.MustBind` refines `resultMustBind`**; both of the model's panics are stuck. -/
theorem Result_MustBind_refines_of_le (value : Option V) (d : Dest T V) (fuelIn fuel : Nat) (hi : 17 ≤ fuelIn) (h : 10 ≤ fuel) :
    runResultMust c fuelIn fuel Result_Bind Result_MustBind value d =
      encMust ((callsOf (resultBind c value d)).map .json) (resultMustBind c value d) := by
  obtain ⟨ki, rfl⟩ := exists_add hi
  obtain ⟨k, rfl⟩ := exists_add h
  exact resultMust_core c ki k value d

/-- **`SharedStore.MustBind` refines `storeMustBind`.** -/
theorem SharedStore_MustBind_refines_of_le (s : Store K V) (key : K) (kname : String) (d : Dest T V) (fuelIn fuel : Nat)
    (hi : 18 ≤ fuelIn) (h : 10 ≤ fuel) :
    runStoreMust c (s key) kname fuelIn fuel SharedStore_Get SharedStore_Bind SharedStore_MustBind d =
      encMust (critR ++ (callsOf (storeBind c s key d).1).map .json) (storeMustBind c s key d).1 := by
  obtain ⟨ki, rfl⟩ := exists_add hi
  obtain ⟨k, rfl⟩ := exists_add h
  simp only [storeMustBind, storeBind_eq]
  exact storeMust_core c ki k (s key) kname d

theorem Result_Bind_refines (value : Option V) (d : Dest T V) :
    runResultBind c F Result_Bind value d = encBind [] (resultBind c value d) :=
  Result_Bind_refines_of_le c value d F (by decide)
theorem SharedStore_Bind_refines (s : Store K V) (key : K) (kname : String) (d : Dest T V) :
    runStoreBind c (s key) kname F F SharedStore_Get SharedStore_Bind d = encBind critR (storeBind c s key d).1 :=
  SharedStore_Bind_refines_of_le c s key kname d F F (by decide) (by decide)
theorem Result_MustBind_refines (value : Option V) (d : Dest T V) :
    runResultMust c F F Result_Bind Result_MustBind value d =
      encMust ((callsOf (resultBind c value d)).map .json) (resultMustBind c value d) :=
  Result_MustBind_refines_of_le c value d F F (by decide) (by decide)
theorem SharedStore_MustBind_refines (s : Store K V) (key : K) (kname : String) (d : Dest T V) :
    runStoreMust c (s key) kname F F SharedStore_Get SharedStore_Bind SharedStore_MustBind d =
      encMust (critR ++ (callsOf (storeBind c s key d).1).map .json) (storeMustBind c s key d).1 :=
  SharedStore_MustBind_refines_of_le c s key kname d F F (by decide) (by decide)

/-! ## C16 "never panics", transferred to the source

`encBind` is `none` exactly on `Res.panic`, so a run of the interpreted `Bind` is stuck — which is what every misuse of `reflect` Go
would panic on is in `bindWorld` — exactly when the model panics; and the model never does (`Props.C16.never_panics`, the theorem
about the ORDER of the guards `rv.Kind() != reflect.Ptr || rv.IsNil()` before `rv.Type().Elem()` and `rv.Elem().Set`). -/

omit [DecidableEq T] in
theorem encBind_isSome (locks : List (BEv T V B)) (m : Res (Bind.Outcome T V B E)) : (encBind locks m).isSome = !m.isPanic := by
  cases m <;> rfl

/-- the source is stuck exactly where the model panics -/
theorem Result_Bind_stuck_iff (value : Option V) (d : Dest T V) (fuel : Nat) (h : 17 ≤ fuel) :
    runResultBind c fuel Result_Bind value d = none ↔ (resultBind c value d).isPanic = true := by
  rw [Result_Bind_refines_of_le c value d fuel h]
  cases resultBind c value d <;> simp [encBind, Res.isPanic]

theorem SharedStore_Bind_stuck_iff (s : Store K V) (key : K) (kname : String) (d : Dest T V) (fuelIn fuel : Nat)
    (hi : 8 ≤ fuelIn) (h : 18 ≤ fuel) :
    runStoreBind c (s key) kname fuelIn fuel SharedStore_Get SharedStore_Bind d = none ↔ (storeBind c s key d).1.isPanic = true := by
  rw [SharedStore_Bind_refines_of_le c s key kname d fuelIn fuel hi h]
  cases (storeBind c s key d).1 <;> simp [encBind, Res.isPanic]

/-- on every input on which the model does not panic, the interpreted source is not stuck -/
theorem Result_Bind_not_stuck_of_model (value : Option V) (d : Dest T V) (fuel : Nat) (h : 17 ≤ fuel)
    (hm : (resultBind c value d).isPanic = false) : (runResultBind c fuel Result_Bind value d).isSome = true := by
  rw [Result_Bind_refines_of_le c value d fuel h, encBind_isSome, hm]; rfl

theorem SharedStore_Bind_not_stuck_of_model (s : Store K V) (key : K) (kname : String) (d : Dest T V) (fuelIn fuel : Nat)
    (hi : 8 ≤ fuelIn) (h : 18 ≤ fuel) (hm : (storeBind c s key d).1.isPanic = false) :
    (runStoreBind c (s key) kname fuelIn fuel SharedStore_Get SharedStore_Bind d).isSome = true := by
  rw [SharedStore_Bind_refines_of_le c s key kname d fuelIn fuel hi h, encBind_isSome, hm]; rfl

/-- **`Result.Bind` never panics** — for every codec, value and destination (untyped nil, non-pointer, typed nil pointer, pointer)
    the interpreted source returns: it never reaches a `reflect` call that would panic. -/
theorem Result_Bind_never_stuck (value : Option V) (d : Dest T V) (fuel : Nat) (h : 17 ≤ fuel) :
    (runResultBind c fuel Result_Bind value d).isSome = true :=
  Result_Bind_not_stuck_of_model c value d fuel h (Props.C16.never_panics c (fun _ : Unit => none) () value d).2

/-- **`SharedStore.Bind` never panics.** -/
theorem SharedStore_Bind_never_stuck (s : Store K V) (key : K) (kname : String) (d : Dest T V) (fuelIn fuel : Nat)
    (hi : 8 ≤ fuelIn) (h : 18 ≤ fuel) :
    (runStoreBind c (s key) kname fuelIn fuel SharedStore_Get SharedStore_Bind d).isSome = true :=
  SharedStore_Bind_not_stuck_of_model c s key kname d fuelIn fuel hi h (Props.C16.never_panics c s key none d).1

/-- `MustBind` is stuck (panics) exactly when `Bind` returns an error — never because of a panic inside `Bind` -/
theorem Result_MustBind_stuck_iff (value : Option V) (d : Dest T V) (fuelIn fuel : Nat) (hi : 17 ≤ fuelIn) (h : 10 ≤ fuel) :
    runResultMust c fuelIn fuel Result_Bind Result_MustBind value d = none ↔
      ∃ o e, resultBind c value d = .ok o ∧ o.err = some e := by
  rw [Result_MustBind_refines_of_le c value d fuelIn fuel hi h]
  obtain ⟨o, ho, hm⟩ := Props.C16.mustBind_panics_iff_bind_errs c value d
  rw [hm, ho]
  cases he : o.err <;> simp [encMust, he]

theorem SharedStore_MustBind_stuck_iff (s : Store K V) (key : K) (kname : String) (d : Dest T V) (fuelIn fuel : Nat)
    (hi : 18 ≤ fuelIn) (h : 10 ≤ fuel) :
    runStoreMust c (s key) kname fuelIn fuel SharedStore_Get SharedStore_Bind SharedStore_MustBind d = none ↔
      ∃ o e, (storeBind c s key d).1 = .ok o ∧ o.err = some e := by
  rw [SharedStore_MustBind_refines_of_le c s key kname d fuelIn fuel hi h]
  obtain ⟨o, ho, hm⟩ := Props.C16.store_mustBind_panics_iff_bind_errs c s key d
  rw [hm, ho]
  cases he : o.err <;> simp [encMust, he]

/-! ## the other clauses of C16, read off the source -/

/-- identity fast path: a value of the destination's element type is copied, no call into the codec -/
theorem Result_Bind_same_type (v : V) (t : T) (cur : V) (ht : c.typeOf v = t) (fuel : Nat) (h : 17 ≤ fuel) :
    runResultBind c fuel Result_Bind (some v) (.ptr t cur) = some ([.nil], .ptr t v, none, []) := by
  rw [Result_Bind_refines_of_le c _ _ fuel h, (Props.C16.same_type_identity c (fun _ : Unit => some (some v)) () v t cur rfl ht).2]
  rfl

/-- otherwise: the JSON round trip -/
theorem Result_Bind_other_type (v : V) (t : T) (cur : V) (ht : c.typeOf v ≠ t) (fuel : Nat) (h : 17 ≤ fuel) :
    runResultBind c fuel Result_Bind (some v) (.ptr t cur) = encBind [] (.ok (jsonRoundTrip c (some v) t cur)) := by
  rw [Result_Bind_refines_of_le c _ _ fuel h, (Props.C16.other_type_is_json c (fun _ : Unit => some (some v)) () v t cur rfl ht).2]

/-- the two `Bind`s agree on every stored non-nil value, up to the critical section of `Get` -/
theorem store_result_agree (s : Store K V) (key : K) (kname : String) (v : V) (d : Dest T V) (hs : s key = some (some v))
    (fuelIn fuel fuel' : Nat) (hi : 8 ≤ fuelIn) (h : 18 ≤ fuel) (h' : 17 ≤ fuel') :
    runStoreBind c (s key) kname fuelIn fuel SharedStore_Get SharedStore_Bind d =
      (runResultBind c fuel' Result_Bind (some v) d).map fun o => (o.1, o.2.1, o.2.2.1, critR ++ o.2.2.2) := by
  rw [SharedStore_Bind_refines_of_le c s key kname d fuelIn fuel hi h, Result_Bind_refines_of_le c _ _ fuel' h',
    Props.C16.store_result_agree c s key v d hs]
  cases resultBind c (some v) d <;> simp [encBind]

/-! ## the lock -/

omit [DecidableEq T] in
theorem disc_json (h : Option Mode) (l : List (Call T V B)) :
    discAux true h (l.map BEv.json) = h.isNone := by
  induction l with
  | nil => rfl
  | cons a l ih => cases h <;> simp_all [discAux]

/-- every trace of `SharedStore.Bind` is disciplined: the lock is taken once, in mode `R`, released by the deferred unlock before
    `Get` returns, nothing is held at the end — and every call into `encoding/json` (as `reflect.Value.Set`: no event, but it comes
    after `Get` too) happens AFTER the unlock, on the interface value `Get` returned -/
theorem SharedStore_Bind_disciplined (s : Store K V) (key : K) (kname : String) (d : Dest T V) (fuelIn fuel : Nat)
    (hi : 8 ≤ fuelIn) (h : 18 ≤ fuel) :
    ∃ vs d' je tr, runStoreBind c (s key) kname fuelIn fuel SharedStore_Get SharedStore_Bind d = some (vs, d', je, tr) ∧
      disciplined tr = true := by
  rw [SharedStore_Bind_refines_of_le c s key kname d fuelIn fuel hi h]
  have hnp := (Props.C16.never_panics c s key none d).1
  cases hm : (storeBind c s key d).1 with
  | panic => simp [hm, Res.isPanic] at hnp
  | ok o =>
    refine ⟨_, _, _, _, rfl, ?_⟩
    simp [disciplined, critR, discAux, disc_json]

/-- the guard of the map read: `s.data[k]` answers only while the goroutine holds the lock -/
theorem guard_mapIndex (src : Option (Option V)) (kname k : String) (i : Nat) (w : BW T V B E) {r : GV × Bool}
    (h : (baseWorld c src kname).mapIndex (.ref "map" i) (.str k) w = some r) : w.held.isSome = true := by
  rw [W0_mapIndex] at h
  unfold mapGet at h
  split at h
  · split at h
    · assumption
    · cases h
  · cases h

/-- … and so does the field `s.data` -/
theorem guard_data (src : Option (Option V)) (kname : String) (i : Nat) (w : BW T V B E) {r : GV}
    (h : (baseWorld c src kname).field (.ref "store" i) "data" w = some r) : w.held.isSome = true := by
  rw [W0_field_data] at h
  split at h
  · assumption
  · cases h
end headline

end Flyt.Refine.BindR
