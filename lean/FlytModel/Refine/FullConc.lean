import FlytModel.GoIR.FullConcWorld
import FlytModel.Refine.BatchStack
import FlytModel.Refine.FullStack
/-!
# Both batch executors as INTERPRETED SOURCE: the remaining `conc > 0` gap on the serial schedule

`Refine/BatchStack.lean` closes the seam `runBatch → runBatchSequential → runExecWithRetries`
(`runBatch_over_interpreted_sequential`), but for `cfg.conc > 0` the call `runBatchConcurrent(…)` there keeps `batchWorld`'s
MODELLED meaning. What `batchWorld` assumes for that call (`GoIR/Worlds.lean`, clause `"runBatchConcurrent"`) is

    itemsSerialPool kind n v { cfg with stop := eh == "stop", conc := c.toNat } scr items 0 false w.ctx

on the items read from the caller's window, slots written into the caller's `results` window, events appended, context replaced,
no return values: the SERIAL schedule of the pool (every submitted task runs to completion at submit time), starting with
`shouldStop = false`. That is exactly the function `runBatchConcurrent_serial_over_interpreted_items` (seam 3 of `BatchStack`)
identifies the interpreted concurrent executor with — so the composed world below agrees with the layered one at the call site
and no ghost state or extra packaging is needed (the callee runs on the caller's heap / state / arguments, as `SB_seq`).

* `stackConc_call` — the composed `runBatchConcurrent` as a CALL (values, heap, world state) on fresh arrays, any recording so far.
* `SB2_seq`, `SB2_pool` — the two executor calls of `stackBatchWorld2` at the sites where `runBatch` makes them.
* `runBatch_over_interpreted_executors` (Goal A) — `runBatch` in `stackBatchWorld2` = the model's `runBatch`, ALL configurations.
* `fullRun2` / `fullRun2_eq_runNode` (Goal B) — the whole orchestration with that batch interpretation.
-/

/-! ### 1. the interpreted concurrent executor (serial schedule) as a call -/

namespace Flyt.Refine.FullConc
open Flyt Flyt.GoIR Flyt.Refine Flyt.Refine.BatchStack
set_option linter.unusedSimpArgs false

section
variable (fi : Nat) (kind : CtxKind) (n : NodeId) (v : Nat) (cfg : BatchCfg) (scr : BatchScript) (idxOf : Result → Nat)

local notation "CW" => stackConcSerialWorld fi Flyt.Expected.IR.runExecWithRetries kind n v cfg scr idxOf

/-- the composed `runBatchConcurrent` (serial schedule, interpreted items) as a CALL on fresh arrays: what a caller sees -/
theorem stackConc_call (hfi : itemFuel cfg ≤ fi) (items : List Result) (evs : List Ev) (ctx : Ctx)
    (hidx : ∀ i (h : i < items.length), idxOf items[i] = i) (c : Nat) :
    callFunc CW (items.length + 37 + c) Flyt.Expected.IR.runBatchConcurrent
        [.ref "ctx" 0, .node n, .slice 0 0 items.length, .slice 1 0 items.length, .int cfg.conc, .str (ehOf cfg)]
        [items, List.replicate items.length ⟨Val.nil, none⟩] ⟨evs, ctx⟩
      = some ([], [items, (itemsSerialPool kind n v cfg scr items 0 false ctx).2.2],
          ⟨evs ++ (itemsSerialPool kind n v cfg scr items 0 false ctx).1,
           (itemsSerialPool kind n v cfg scr items 0 false ctx).2.1⟩) := by
  obtain ⟨b', hl⟩ := conc_loop' fi kind n v cfg scr idxOf hfi items.length cfg.conc cfg.conc items rfl hidx c items.length 0
    (List.replicate items.length ⟨Val.nil, none⟩) evs ctx false (by omega) (by simp)
  simp only [cEnv, ehB, ctxH] at hl
  have hrecv : Flyt.Expected.IR.runBatchConcurrent.recv = "" := rfl
  have hpar : Flyt.Expected.IR.runBatchConcurrent.params = ["ctx", "node", "items", "results", "concurrency", "errorHandling"] := rfl
  simp [callFunc, runBatchConcurrent_body, hrecv, hpar, Env.pushAll, Env.push, execBlock, execStmt, evalExpr, evalArgs,
    evalRhs, isCommaOk, Env.get, zeroOf, scw_pool, scw_close, scw_wait, ehOf,
    show items.length + 37 + c = items.length + c + 31 + 1 + 1 + 1 + 1 + 1 + 1 from by omega, hl]

end

/-- fuel for the interpreted concurrent executor on a batch of `items` -/
theorem stackConc_call_of_le (fi : Nat) (kind : CtxKind) (n : NodeId) (v : Nat) (cfg : BatchCfg) (scr : BatchScript)
    (idxOf : Result → Nat) (hfi : itemFuel cfg ≤ fi) (items : List Result) (evs : List Ev) (ctx : Ctx)
    (hidx : ∀ i (h : i < items.length), idxOf items[i] = i) (fc : Nat) (hfc : items.length + 37 ≤ fc) :
    callFunc (stackConcSerialWorld fi Flyt.Expected.IR.runExecWithRetries kind n v cfg scr idxOf) fc
        Flyt.Expected.IR.runBatchConcurrent
        [.ref "ctx" 0, .node n, .slice 0 0 items.length, .slice 1 0 items.length, .int cfg.conc, .str (ehOf cfg)]
        [items, List.replicate items.length ⟨Val.nil, none⟩] ⟨evs, ctx⟩
      = some ([], [items, (itemsSerialPool kind n v cfg scr items 0 false ctx).2.2],
          ⟨evs ++ (itemsSerialPool kind n v cfg scr items 0 false ctx).1,
           (itemsSerialPool kind n v cfg scr items 0 false ctx).2.1⟩) := by
  obtain ⟨c, rfl⟩ := Nat.exists_eq_add_of_le hfc
  exact stackConc_call fi kind n v cfg scr idxOf hfi items evs ctx hidx c

end Flyt.Refine.FullConc

/-! ### 2. `runBatch` over both interpreted executors over interpreted items -/

namespace Flyt.Refine.FullConc
open Flyt Flyt.GoIR Flyt.Refine Flyt.Refine.BatchStack
set_option linter.unusedSimpArgs false

section
variable (fs fc fi : Nat) (kind : CtxKind) (n : NodeId) (v : Nat) (sid : StoreId) (cfg : BatchCfg) (scr : BatchScript)
  (idxOf : Result → Nat)

local notation "W" => batchWorld kind n v cfg scr
local notation "SBW" =>
  stackBatchWorld2 fs fc fi Flyt.Expected.IR.runBatchSequential Flyt.Expected.IR.runBatchConcurrent
    Flyt.Expected.IR.runExecWithRetries kind n v cfg scr idxOf

/-! every entry of the composed world except the two executor calls IS `batchWorld`'s -/
theorem SB2_mcall : (SBW).mcall = (W).mcall := rfl
theorem SB2_assert : (SBW).assert = (W).assert := rfl
theorem SB2_global : (SBW).global = (W).global := rfl
theorem SB2_toSlice (a : GV) (h : Heap) (w : SeqW) : (SBW).call "ToSlice" [a] h w = (W).call "ToSlice" [a] h w := rfl

/-- the concurrent-executor call, at the site where `runBatch` makes it, is the interpreted stack of seam 3 (serial schedule):
    the same values, heap and world state as `batchWorld`'s modelled call (`Batch.W_pool`) -/
theorem SB2_pool (hfi : itemFuel cfg ≤ fi) (items : List Result) (hfc : items.length + 37 ≤ fc)
    (hidx : ∀ i (h : i < items.length), idxOf items[i] = i) (w : SeqW) :
    (SBW).call "runBatchConcurrent"
        [.ref "ctx" 0, .node n, .slice 0 0 items.length, .slice 1 0 items.length, .int cfg.conc, .str (ehOf cfg)]
        [items, List.replicate items.length ⟨Val.nil, none⟩] w
      = some ([], [items, (itemsSerialPool kind n v cfg scr items 0 false w.ctx).2.2],
          ⟨w.evs ++ (itemsSerialPool kind n v cfg scr items 0 false w.ctx).1,
           (itemsSerialPool kind n v cfg scr items 0 false w.ctx).2.1⟩) := by
  have h := stackConc_call_of_le fi kind n v cfg scr idxOf hfi items w.evs w.ctx hidx fc hfc
  simpa [stackBatchWorld2] using h

/-- the composed call and the layered (modelled) one agree at that site -/
theorem SB2_pool_eq_W_pool (hfi : itemFuel cfg ≤ fi) (items : List Result) (hfc : items.length + 37 ≤ fc)
    (hidx : ∀ i (h : i < items.length), idxOf items[i] = i) (w : SeqW) :
    (SBW).call "runBatchConcurrent"
        [.ref "ctx" 0, .node n, .slice 0 0 items.length, .slice 1 0 items.length, .int cfg.conc, .str (ehOf cfg)]
        [items, List.replicate items.length ⟨Val.nil, none⟩] w
      = (W).call "runBatchConcurrent"
        [.ref "ctx" 0, .node n, .slice 0 0 items.length, .slice 1 0 items.length, .int cfg.conc, .str (ehOf cfg)]
        [items, List.replicate items.length ⟨Val.nil, none⟩] w := by
  rw [SB2_pool fs fc fi kind n v cfg scr idxOf hfi items hfc hidx, Batch.W_pool]

/-- … the sequential-executor call, at the site where `runBatch` makes it, is the interpreted stack of seam 1 -/
theorem SB2_seq (hfi : itemFuel cfg ≤ fi) (items : List Result) (hfs : items.length + 23 ≤ fs)
    (hidx : ∀ i (h : i < items.length), idxOf items[i] = i) (w : SeqW) :
    (SBW).call "runBatchSequential" [.ref "ctx" 0, .node n, .slice 0 0 items.length, .slice 1 0 items.length, .str (ehOf cfg)]
        [items, List.replicate items.length ⟨Val.nil, none⟩] w
      = some ([], [items, (itemsSeq kind n v cfg scr items 0 w.ctx).2.2],
          ⟨w.evs ++ (itemsSeq kind n v cfg scr items 0 w.ctx).1, (itemsSeq kind n v cfg scr items 0 w.ctx).2.1⟩) := by
  obtain ⟨c, rfl⟩ := Nat.exists_eq_add_of_le hfs
  have h := stackSeq_call fi kind n v cfg scr idxOf hfi items w.evs w.ctx hidx c
  simpa [stackBatchWorld2] using h

local macro "sbsimp" "[" ts:Lean.Parser.Tactic.simpLemma,* "]" : tactic =>
  `(tactic| simp [Item.execBlock_cons, Item.execBlock_nil, execStmt, evalRhs, isCommaOk, evalCommaOk, evalExpr, evalArgs, switchCases,
      Cases.ofList, GoIR.Env.get, GoIR.Env.set, GoIR.Env.push, GoIR.Env.pushAll, popSt, GoIR.Env.popTo, assignAll, assignTo,
      Exprs.toList, Exprs.length, zeroOf, intBin, GV.eqv, GV.isNil, errorf, Batch.env0, Batch.envS, Batch.envT,
      SB2_mcall, SB2_assert, SB2_global, SB2_toSlice,
      Batch.W_global, Batch.W_assert_base, Batch.W_assert_custom, Batch.W_assert_batch, Batch.W_assert_slice_res,
      Batch.W_assert_anys_res, Batch.W_assert_anys_any,
      Batch.W_assert_ref_res, Batch.W_assert_ref_any, Batch.W_assert_nil_res, Batch.W_assert_nil_any, Batch.W_conc, Batch.W_errh,
      Batch.W_toSlice, Batch.containsW_prep, Batch.containsW_post, $ts,*])

theorem sb2_prefix_err (e : Nat) (hp : scr.prep.res = .error e) (f : Nat) (rest : Block) (ctx : Ctx) :
    execBlock SBW (f + 12) (.cons Batch.sPrep (.cons Batch.sPrepErr rest)) ⟨Batch.env0 n sid, [], ⟨[], ctx⟩⟩
      = some (.ret [.str "", .err (.user e)],
          ⟨("err", .err (.user e)) :: ("prepResult", .nil) :: Batch.env0 n sid, [], ⟨[.bprep n v sid], ctx.after kind scr.prep.cancels⟩⟩) := by
  sbsimp [Batch.sPrep, Batch.sPrepErr, Batch.W_prep, hp]

theorem sb2_prefix_ok (pr : GV) (h' : Heap) (w' : SeqW) (ctx : Ctx)
    (hprep : (W).mcall (.node n) "Prep" [ctxH, storeH sid] [] ⟨[], ctx⟩ = some ([pr, .nil], h', w'))
    (f : Nat) (rest : Block) :
    execBlock SBW (f + 8) (.cons Batch.sPrep (.cons Batch.sPrepErr (.cons Batch.sDecl rest))) ⟨Batch.env0 n sid, [], ⟨[], ctx⟩⟩
      = execBlock SBW (f + 5) rest ⟨Batch.envS n sid pr, h', w'⟩ := by
  sbsimp [Batch.sPrep, Batch.sPrepErr, Batch.sDecl, hprep]

theorem sb2_switch_results (a N : Nat) (h : Heap) (w : SeqW) (f : Nat) :
    execStmt SBW (f + 8) Batch.sSwitch ⟨Batch.envS n sid (.slice a 0 N), h, w⟩
      = some (.next, ⟨("items", .slice a 0 N) :: ("err", .nil) :: ("prepResult", .slice a 0 N) :: Batch.env0 n sid, h, w⟩) := by
  sbsimp [Batch.sSwitch, Batch.caseResults]

theorem sb2_switch_anys (l : List Val) (w : SeqW) (c : Nat) :
    execStmt SBW (l.length + c + 13) Batch.sSwitch ⟨Batch.envS n sid (.anys l), [], w⟩
      = some (.next, ⟨Batch.envT n sid (.anys l) l.length, [l.map newResult], w⟩) := by
  have hl := Batch.wrap_loop SBW (("v", .anys l) :: ("items", .slice 0 0 l.length) :: ("err", .nil) :: ("prepResult", .anys l) :: Batch.env0 n sid)
    0 l.length w (by simp [GoIR.Env.get]) c l 0 [List.replicate l.length ⟨Val.nil, none⟩] (List.replicate l.length ⟨Val.nil, none⟩)
    rfl (by omega) (by simp)
  simp only [Batch.env0] at hl
  sbsimp [Batch.sSwitch, Batch.caseAnys, hl]

theorem sb2_switch_default (pr : GV) (l : List Val)
    (hA1 : ∀ w, (W).assert pr "[]Result" w = some (.nil, false)) (hA2 : ∀ w, (W).assert pr "[]any" w = some (.nil, false))
    (hts : ∀ h w, (W).call "ToSlice" [pr] h w = some ([.anys l], h, w)) (w : SeqW) (c : Nat) :
    execStmt SBW (l.length + c + 15) Batch.sSwitch ⟨Batch.envS n sid pr, [], w⟩
      = some (.next, ⟨Batch.envT n sid pr l.length, [l.map newResult], w⟩) := by
  have hl := Batch.wrap_loop SBW (("slice", .anys l) :: ("v", pr) :: ("items", .slice 0 0 l.length) :: ("err", .nil) :: ("prepResult", pr) :: Batch.env0 n sid)
    0 l.length w (by simp [GoIR.Env.get]) c l 0 [List.replicate l.length ⟨Val.nil, none⟩] (List.replicate l.length ⟨Val.nil, none⟩)
    rfl (by omega) (by simp)
  simp only [Batch.env0] at hl
  simp [Item.execBlock_cons, Item.execBlock_nil, execStmt, evalRhs, isCommaOk, evalCommaOk, evalExpr, evalArgs, switchCases,
      Cases.ofList, GoIR.Env.get, GoIR.Env.set, GoIR.Env.push, GoIR.Env.pushAll, popSt, GoIR.Env.popTo, assignAll, assignTo,
      Exprs.toList, Exprs.length, Batch.env0, Batch.envS, Batch.envT, Batch.sSwitch, Batch.caseDefault,
      SB2_assert, SB2_toSlice, hA1, hA2, hts, hl]

theorem stackBatchIR2_eq (fuel : Nat) (ctx : Ctx) :
    stackBatchIR2 fuel fs fc fi Flyt.Expected.IR.runBatch Flyt.Expected.IR.runBatchSequential Flyt.Expected.IR.runBatchConcurrent
        Flyt.Expected.IR.runExecWithRetries
        kind n v sid cfg scr idxOf ctx
      = Batch.obs (execBlock SBW fuel Flyt.Expected.IR.runBatch.body ⟨Batch.env0 n sid, [], ⟨[], ctx⟩⟩) := by
  have hr : Flyt.Expected.IR.runBatch.recv = "" := rfl
  have hp : Flyt.Expected.IR.runBatch.params = ["ctx", "node", "shared"] := rfl
  simp [stackBatchIR2, callFunc, hr, hp, GoIR.Env.pushAll, GoIR.Env.push, Batch.env0]
  rcases execBlock SBW fuel Flyt.Expected.IR.runBatch.body _ with _ | ⟨c, st⟩
  · rfl
  · cases c <;> simp [Batch.obs, outcomeOf]

theorem sb2_tail_empty (pr : GV) (ctx1 : Ctx) (rest : Block) (c : Nat) :
    Batch.obs (execBlock SBW (c + 16) (.cons Batch.sEmpty rest) ⟨Batch.envT n sid pr 0, [[]], ⟨[.bprep n v sid], ctx1⟩⟩)
      = some (if cfg.hasPost then
                match scr.post.res with
                | .error e => ([.bprep n v sid, .bpost n v sid [] []], ctx1.after kind scr.post.cancels, .err (.user e))
                | .ok a => ([.bprep n v sid, .bpost n v sid [] []], ctx1.after kind scr.post.cancels, .ok (norm a))
              else ([.bprep n v sid], ctx1, .ok defaultAction)) := by
  cases hhp : cfg.hasPost
  · sbsimp [Batch.sEmpty, Batch.postTail, Batch.W_post_empty, Batch.postSem, hhp, Batch.obs, outcomeOf, defaultAction]
  · cases hpr : scr.post.res with
    | error e => sbsimp [Batch.sEmpty, Batch.postTail, Batch.W_post_empty, Batch.postSem, hhp, hpr, Batch.obs, outcomeOf]
    | ok a =>
      by_cases ha : a = ""
      · subst ha
        sbsimp [Batch.sEmpty, Batch.postTail, Batch.W_post_empty, Batch.postSem, hhp, hpr, Batch.obs, outcomeOf, norm]
      · have hb : (a == "") = false := by simp [ha]
        sbsimp [Batch.sEmpty, Batch.postTail, Batch.W_post_empty, Batch.postSem, hhp, hpr, Batch.obs, outcomeOf, norm, ha, hb]

local macro "sb2_tail" "[" ts:Lean.Parser.Tactic.simpLemma,* "]" : tactic =>
  `(tactic| sbsimp [Batch.sEmpty, Batch.mainTail, Batch.sCfg, Batch.sExec, Batch.postTail, Batch.W_post_full,
      Batch.postSem, Batch.obs, outcomeOf, Batch.fullModel, itemsSeq_length, Batch.itemsSerialPool_length, ctxH, $ts,*])

/-- a non-empty batch, sequential executor: the interpreted one -/
theorem sb2_tail_seq (hfi : itemFuel cfg ≤ fi) (pr : GV) (items : List Result) (hfs : items.length + 23 ≤ fs)
    (hidx : ∀ i (h : i < items.length), idxOf items[i] = i)
    (hne : items ≠ []) (hc : ¬ cfg.conc > 0) (ctx1 : Ctx) (c : Nat) :
    Batch.obs (execBlock SBW (c + 17) (.cons Batch.sEmpty Batch.mainTail)
        ⟨Batch.envT n sid pr items.length, [items], ⟨[.bprep n v sid], ctx1⟩⟩)
      = some (Batch.fullModel kind n v sid cfg scr items (itemsSeq kind n v cfg scr items 0 ctx1)) := by
  have h0 : ((items.length : Int) == 0) = false := by
    cases items with
    | nil => exact absurd rfl hne
    | cons x xs => simp; omega
  have h1 : ¬ (0 < cfg.conc) := hc
  have h2 : cfg.conc = 0 := by omega
  have hseq := SB2_seq fs fc fi kind n v cfg scr idxOf hfi items hfs hidx
  cases hhp : cfg.hasPost
  · sb2_tail [h0, h1, h2, hhp, defaultAction, hseq]
  · cases hpr : scr.post.res with
    | error e => sb2_tail [h0, h1, h2, hhp, hpr, hseq]
    | ok a =>
      by_cases ha : a = ""
      · subst ha
        sb2_tail [h0, h1, h2, hhp, hpr, norm, hseq]
      · have hb : (a == "") = false := by simp [ha]
        sb2_tail [h0, h1, h2, hhp, hpr, norm, ha, hb, hseq]

/-- a non-empty batch, concurrent executor: the interpreted one (serial schedule, interpreted items) -/
theorem sb2_tail_pool (hfi : itemFuel cfg ≤ fi) (pr : GV) (items : List Result) (hfc : items.length + 37 ≤ fc)
    (hidx : ∀ i (h : i < items.length), idxOf items[i] = i)
    (hne : items ≠ []) (hc : cfg.conc > 0) (ctx1 : Ctx) (c : Nat) :
    Batch.obs (execBlock SBW (c + 17) (.cons Batch.sEmpty Batch.mainTail)
        ⟨Batch.envT n sid pr items.length, [items], ⟨[.bprep n v sid], ctx1⟩⟩)
      = some (Batch.fullModel kind n v sid cfg scr items (itemsSerialPool kind n v cfg scr items 0 false ctx1)) := by
  have h0 : ((items.length : Int) == 0) = false := by
    cases items with
    | nil => exact absurd rfl hne
    | cons x xs => simp; omega
  have h1 : 0 < cfg.conc := hc
  have hpool := SB2_pool fs fc fi kind n v cfg scr idxOf hfi items hfc hidx
  cases hhp : cfg.hasPost
  · sb2_tail [h0, h1, hhp, defaultAction, hpool]
  · cases hpr : scr.post.res with
    | error e => sb2_tail [h0, h1, hhp, hpr, hpool]
    | ok a =>
      by_cases ha : a = ""
      · subst ha
        sb2_tail [h0, h1, hhp, hpr, norm, hpool]
      · have hb : (a == "") = false := by simp [ha]
        sb2_tail [h0, h1, hhp, hpr, norm, ha, hb, hpool]

theorem sb2_tail_spec (hfi : itemFuel cfg ≤ fi) (pr : GV) (items : List Result) (N : Nat) (hN : N = items.length)
    (hfs : ¬ cfg.conc > 0 → items.length + 23 ≤ fs) (hfc : cfg.conc > 0 → items.length + 37 ≤ fc)
    (hidx : ∀ i (h : i < items.length), idxOf items[i] = i) (ctx1 : Ctx) (c : Nat) :
    Batch.obs (execBlock SBW (c + 17) (.cons Batch.sEmpty Batch.mainTail) ⟨Batch.envT n sid pr N, [items], ⟨[.bprep n v sid], ctx1⟩⟩)
      = some (Batch.modelTail kind n v sid cfg scr items ctx1) := by
  subst hN
  by_cases hne : items = []
  · subst hne
    have h := sb2_tail_empty fs fc fi kind n v sid cfg scr idxOf pr ctx1 Batch.mainTail (c + 1)
    rw [show c + 1 + 16 = c + 17 from by omega] at h
    refine h.trans ?_
    simp only [Batch.modelTail, List.isEmpty_nil, if_true]
    cases cfg.hasPost <;> cases scr.post.res <;> rfl
  · have hie : items.isEmpty = false := by cases items <;> simp_all
    by_cases hc : cfg.conc > 0
    · rw [sb2_tail_pool fs fc fi kind n v sid cfg scr idxOf hfi pr items (hfc hc) hidx hne hc]
      unfold Batch.modelTail Batch.fullModel
      rcases itemsSerialPool kind n v cfg scr items 0 false ctx1 with ⟨iev, ctx2, slots⟩
      simp [Batch.modelTail, Batch.fullModel, hie, hc]
    · rw [sb2_tail_seq fs fc fi kind n v sid cfg scr idxOf hfi pr items (hfs hc) hidx hne hc]
      unfold Batch.modelTail Batch.fullModel
      rcases itemsSeq kind n v cfg scr items 0 ctx1 with ⟨iev, ctx2, slots⟩
      simp [Batch.modelTail, Batch.fullModel, hie, hc]

theorem sb2_through_switch (pr : GV) (h' : Heap) (w' : SeqW) (ctx : Ctx) (st1 : St SeqW) (f : Nat)
    (hprep : (W).mcall (.node n) "Prep" [ctxH, storeH sid] [] ⟨[], ctx⟩ = some ([pr, .nil], h', w'))
    (hsw : execStmt SBW (f + 4) Batch.sSwitch ⟨Batch.envS n sid pr, h', w'⟩ = some (.next, st1)) :
    execBlock SBW (f + 8) Flyt.Expected.IR.runBatch.body ⟨Batch.env0 n sid, [], ⟨[], ctx⟩⟩
      = execBlock SBW (f + 4) (.cons Batch.sEmpty Batch.mainTail) st1 := by
  rw [Batch.body_eq, sb2_prefix_ok fs fc fi kind n v sid cfg scr idxOf pr h' w' ctx hprep, show f + 5 = (f + 4) + 1 from rfl,
    Item.execBlock_cons, hsw]

theorem stackBatch2_fuel (hfi : itemFuel cfg ≤ fi) (hfs : ¬ cfg.conc > 0 → Batch.prepLen scr + 23 ≤ fs)
    (hfc : cfg.conc > 0 → Batch.prepLen scr + 37 ≤ fc)
    (hidx : ∀ l, scr.prep.res = .ok l →
      ∀ i (h : i < (normItems cfg.shape l).length), idxOf (normItems cfg.shape l)[i] = i)
    (ctx : Ctx) (c : Nat) :
    stackBatchIR2 (Batch.prepLen scr + c + 21) fs fc fi Flyt.Expected.IR.runBatch Flyt.Expected.IR.runBatchSequential
        Flyt.Expected.IR.runBatchConcurrent
        Flyt.Expected.IR.runExecWithRetries kind n v sid cfg scr idxOf ctx
      = some (Flyt.runBatch kind n v sid cfg scr ctx) := by
  rw [stackBatchIR2_eq, Batch.runBatch_eq]
  cases hp : scr.prep.res with
  | error e =>
    rw [Batch.body_eq, show Batch.prepLen scr + c + 21 = (Batch.prepLen scr + c + 9) + 12 from by omega,
      sb2_prefix_err fs fc fi kind n v sid cfg scr idxOf e hp]
    simp [Batch.obs, outcomeOf]
  | ok l =>
    have hL : Batch.prepLen scr = l.length := by simp [Batch.prepLen, hp]
    have hidx' : ∀ i (h : i < (normItems cfg.shape l).length), idxOf (normItems cfg.shape l)[i] = i := hidx l hp
    have hfs' : ¬ cfg.conc > 0 → (normItems cfg.shape l).length + 23 ≤ fs := by
      intro hc
      have := normItems_length_le cfg.shape l
      have := hfs hc
      omega
    have hfc' : cfg.conc > 0 → (normItems cfg.shape l).length + 37 ≤ fc := by
      intro hc
      have := normItems_length_le cfg.shape l
      have := hfc hc
      omega
    rw [hL, show l.length + c + 21 = (l.length + c + 13) + 8 from by omega]
    simp only []
    have hf : l.length + c + 13 + 4 = (l.length + c) + 17 := by omega
    cases hS : cfg.shape with
    | results =>
      have hprep : (batchWorld kind n v cfg scr).mcall (.node n) "Prep" [ctxH, storeH sid] [] ⟨[], ctx⟩
          = some ([.slice 0 0 l.length, .nil], [l.map toResult], ⟨[.bprep n v sid], ctx.after kind scr.prep.cancels⟩) := by
        simp [Batch.W_prep, hp, hS]
      rw [sb2_through_switch fs fc fi kind n v sid cfg scr idxOf _ _ _ ctx _ _ hprep
        (by rw [show l.length + c + 13 + 4 = (l.length + c + 9) + 8 from by omega]
            exact sb2_switch_results fs fc fi kind n v sid cfg scr idxOf 0 l.length _ _ _), hf]
      simp only [hS, normItems] at hidx' hfs' hfc'
      exact sb2_tail_spec fs fc fi kind n v sid cfg scr idxOf hfi _ (l.map toResult) l.length (by simp) hfs' hfc' hidx' _ _
    | anys =>
      have hprep : (batchWorld kind n v cfg scr).mcall (.node n) "Prep" [ctxH, storeH sid] [] ⟨[], ctx⟩
          = some ([.anys l, .nil], [], ⟨[.bprep n v sid], ctx.after kind scr.prep.cancels⟩) := by
        simp [Batch.W_prep, hp, hS]
      rw [sb2_through_switch fs fc fi kind n v sid cfg scr idxOf _ _ _ ctx _ _ hprep
        (by rw [show l.length + c + 13 + 4 = l.length + (c + 4) + 13 from by omega]
            exact sb2_switch_anys fs fc fi kind n v sid cfg scr idxOf l _ _), hf]
      simp only [hS, normItems] at hidx' hfs' hfc'
      exact sb2_tail_spec fs fc fi kind n v sid cfg scr idxOf hfi _ (l.map newResult) l.length (by simp) hfs' hfc' hidx' _ _
    | typed =>
      have hprep : (batchWorld kind n v cfg scr).mcall (.node n) "Prep" [ctxH, storeH sid] [] ⟨[], ctx⟩
          = some ([.ref "typed" 0, .nil], [], ⟨[.bprep n v sid], ctx.after kind scr.prep.cancels⟩) := by
        simp [Batch.W_prep, hp, hS]
      rw [sb2_through_switch fs fc fi kind n v sid cfg scr idxOf _ _ _ ctx _ _ hprep
        (by rw [show l.length + c + 13 + 4 = l.length + (c + 2) + 15 from by omega]
            exact sb2_switch_default fs fc fi kind n v sid cfg scr idxOf _ l (fun _ => rfl) (fun _ => rfl)
              (by simp [Batch.W_toSlice, hp, hS]) _ _), hf]
      simp only [hS, normItems] at hidx' hfs' hfc'
      exact sb2_tail_spec fs fc fi kind n v sid cfg scr idxOf hfi _ (l.map newResult) l.length (by simp) hfs' hfc' hidx' _ _
    | single =>
      have hprep : (batchWorld kind n v cfg scr).mcall (.node n) "Prep" [ctxH, storeH sid] [] ⟨[], ctx⟩
          = some ([.ref "single" 0, .nil], [], ⟨[.bprep n v sid], ctx.after kind scr.prep.cancels⟩) := by
        simp [Batch.W_prep, hp, hS]
      have hle : (l.take 1).length ≤ l.length := by simp; omega
      rw [sb2_through_switch fs fc fi kind n v sid cfg scr idxOf _ _ _ ctx _ _ hprep
        (by rw [show l.length + c + 13 + 4 = (l.take 1).length + (l.length - (l.take 1).length + c + 2) + 15 from by omega]
            exact sb2_switch_default fs fc fi kind n v sid cfg scr idxOf _ (l.take 1) (fun _ => rfl) (fun _ => rfl)
              (by simp [Batch.W_toSlice, hp, hS]) _ _), hf]
      simp only [hS, normItems] at hidx' hfs' hfc'
      exact sb2_tail_spec fs fc fi kind n v sid cfg scr idxOf hfi _ ((l.take 1).map newResult) (l.take 1).length (by simp) hfs' hfc' hidx' _ _
    | nilv =>
      have hprep : (batchWorld kind n v cfg scr).mcall (.node n) "Prep" [ctxH, storeH sid] [] ⟨[], ctx⟩
          = some ([.nil, .nil], [], ⟨[.bprep n v sid], ctx.after kind scr.prep.cancels⟩) := by
        simp [Batch.W_prep, hp, hS]
      rw [sb2_through_switch fs fc fi kind n v sid cfg scr idxOf _ _ _ ctx _ _ hprep
        (by rw [show l.length + c + 13 + 4 = ([] : List Val).length + (l.length + c + 2) + 15 from by simp]
            exact sb2_switch_default fs fc fi kind n v sid cfg scr idxOf _ [] (fun _ => rfl) (fun _ => rfl)
              (by simp [Batch.W_toSlice, hp, hS]) _ _), hf]
      simp only [hS, normItems] at hidx' hfs' hfc'
      exact sb2_tail_spec fs fc fi kind n v sid cfg scr idxOf hfi _ [] 0 rfl hfs' hfc' hidx' _ _

end

/-- fuel for the interpreted concurrent executor inside `runBatch`: one level per item plus a constant -/
def stackConcFuel (scr : BatchScript) : Nat := Batch.prepLen scr + 37

/-- Goal A, fuel hypotheses only for the executor the configuration selects. -/
theorem runBatch_over_interpreted_executors' (kind : CtxKind) (n : NodeId) (v : Nat) (sid : StoreId) (cfg : BatchCfg)
    (scr : BatchScript) (idxOf : Result → Nat) (ctx : Ctx)
    (hidx : ∀ l, scr.prep.res = .ok l →
      ∀ i (h : i < (normItems cfg.shape l).length), idxOf (normItems cfg.shape l)[i] = i)
    (fi : Nat) (hfi : itemFuel cfg ≤ fi) (fs : Nat) (hfs : ¬ cfg.conc > 0 → stackSeqFuel scr ≤ fs)
    (fc : Nat) (hfc : cfg.conc > 0 → stackConcFuel scr ≤ fc) (fuel : Nat) (hf : batchFuel scr ≤ fuel) :
    GoIR.stackBatchIR2 fuel fs fc fi Flyt.Expected.IR.runBatch Flyt.Expected.IR.runBatchSequential
        Flyt.Expected.IR.runBatchConcurrent Flyt.Expected.IR.runExecWithRetries kind n v sid cfg scr idxOf ctx
      = some (Flyt.runBatch kind n v sid cfg scr ctx) := by
  obtain ⟨c, rfl⟩ := Nat.exists_eq_add_of_le hf
  rw [show batchFuel scr + c = Batch.prepLen scr + c + 21 from by unfold batchFuel; omega]
  exact stackBatch2_fuel fs fc fi kind n v sid cfg scr idxOf hfi hfs hfc hidx ctx c

/-- **Goal A.** The translated `runBatch` in `stackBatchWorld2` — `batchWorld` except that BOTH executor calls are interpreted
    source: `runBatchSequential(ctx, node, items, results, errorHandling)` is `callFunc (stackSeqWorld …) fs
    Expected.IR.runBatchSequential` and `runBatchConcurrent(ctx, node, items, results, concurrency, errorHandling)` is
    `callFunc (stackConcSerialWorld …) fc Expected.IR.runBatchConcurrent` (the serial schedule of the worker pool), each on the
    caller's own heap, world state and argument values, and in both the per-item call `runExecWithRetries(…)` is the translated
    source in the item's own world — returns exactly the model's `runBatch`, for ALL configurations (`cfg.conc = 0`: sequential
    path; `cfg.conc > 0`: concurrent path). No model function of an executor or of the item runner occurs in the world; what
    remains given are the user's batch prep / post scripts, the node's settings, `ToSlice`, the pool's serial `Submit` / `Wait` /
    `Close` / mutex, and the scripted `Exec` / `ExecFallback` / timers of the item world. `idxOf` (the item world's way to tell
    which item it is handed) must recover the position of every prepared item — now on both paths.
    Fuel bounds: `fi ≥ itemFuel cfg = cfg.budget + 30`, `fs ≥ stackSeqFuel scr = prepLen + 23`,
    `fc ≥ stackConcFuel scr = prepLen + 37`, `fuel ≥ batchFuel scr = prepLen + 21`. -/
theorem runBatch_over_interpreted_executors (kind : CtxKind) (n : NodeId) (v : Nat) (sid : StoreId) (cfg : BatchCfg)
    (scr : BatchScript) (idxOf : Result → Nat) (ctx : Ctx)
    (hidx : ∀ l, scr.prep.res = .ok l →
      ∀ i (h : i < (normItems cfg.shape l).length), idxOf (normItems cfg.shape l)[i] = i)
    (fi : Nat) (hfi : itemFuel cfg ≤ fi) (fs : Nat) (hfs : stackSeqFuel scr ≤ fs)
    (fc : Nat) (hfc : stackConcFuel scr ≤ fc) (fuel : Nat) (hf : batchFuel scr ≤ fuel) :
    GoIR.stackBatchIR2 fuel fs fc fi Flyt.Expected.IR.runBatch Flyt.Expected.IR.runBatchSequential
        Flyt.Expected.IR.runBatchConcurrent Flyt.Expected.IR.runExecWithRetries kind n v sid cfg scr idxOf ctx
      = some (Flyt.runBatch kind n v sid cfg scr ctx) :=
  runBatch_over_interpreted_executors' kind n v sid cfg scr idxOf ctx hidx fi hfi fs (fun _ => hfs) fc (fun _ => hfc) fuel hf

/-- the fully composed interpretation and the half-composed one of `BatchStack` (concurrent executor modelled) are the same
    function of the inputs -/
theorem stackBatchIR2_eq_stackBatchIR (kind : CtxKind) (n : NodeId) (v : Nat) (sid : StoreId) (cfg : BatchCfg)
    (scr : BatchScript) (idxOf : Result → Nat) (ctx : Ctx)
    (hidx : ∀ l, scr.prep.res = .ok l →
      ∀ i (h : i < (normItems cfg.shape l).length), idxOf (normItems cfg.shape l)[i] = i)
    (fi : Nat) (hfi : itemFuel cfg ≤ fi) (fs : Nat) (hfs : stackSeqFuel scr ≤ fs)
    (fc : Nat) (hfc : stackConcFuel scr ≤ fc) (fuel : Nat) (hf : batchFuel scr ≤ fuel) :
    GoIR.stackBatchIR2 fuel fs fc fi Flyt.Expected.IR.runBatch Flyt.Expected.IR.runBatchSequential
        Flyt.Expected.IR.runBatchConcurrent Flyt.Expected.IR.runExecWithRetries kind n v sid cfg scr idxOf ctx
      = GoIR.stackBatchIR fuel fs fi Flyt.Expected.IR.runBatch Flyt.Expected.IR.runBatchSequential
        Flyt.Expected.IR.runExecWithRetries kind n v sid cfg scr idxOf ctx := by
  rw [runBatch_over_interpreted_executors kind n v sid cfg scr idxOf ctx hidx fi hfi fs hfs fc hfc fuel hf,
    runBatch_over_interpreted_sequential kind n v sid cfg scr idxOf ctx (fun _ => hidx) fi hfi fs hfs fuel hf]

end Flyt.Refine.FullConc

/-! ### 3. a concrete instance of Goal A with `conc = 2` (the executable check is `GoIR/FullConcTest.lean`) -/

namespace Flyt.Refine.FullConc
open Flyt Flyt.GoIR Flyt.Refine Flyt.Refine.BatchStack

/-- `BatchStack.exCfg` on the CONCURRENT path: pool of 2, `stop` mode, 2 attempts, 5 ms wait, custom fallback, `[]any` items, a post -/
def exCfg2 : BatchCfg := { exCfg with conc := 2, shape := .anys }
/-- three items (tokens 100, 101, 102); item 0: first attempt fails, the retry (after a wait) succeeds; item 1: both attempts fail,
    the fallback fails too and cancels the context; item 2 is then not run (`shouldStop`) -/
def exScr2 : BatchScript := { exScr with prep := { res := .ok [.tok 100, .tok 101, .tok 102] } }

theorem exIdx2_ok : ∀ l, exScr2.prep.res = .ok l →
    ∀ i (h : i < (normItems exCfg2.shape l).length), exIdx (normItems exCfg2.shape l)[i] = i := by
  intro l hl i h
  have hl' : [Val.tok 100, .tok 101, .tok 102] = l := by simpa [exScr2] using hl
  subst hl'
  rcases i with _ | _ | _ | i
  · rfl
  · rfl
  · rfl
  · exact absurd h (by simp [normItems, exCfg2])

/-- Goal A at `conc = 2`: fuels `batchFuel = 3 + 21`, `stackSeqFuel = 3 + 23`, `stackConcFuel = 3 + 37`, `itemFuel = 2 + 30` -/
example :
    GoIR.stackBatchIR2 24 26 40 32 Flyt.Expected.IR.runBatch Flyt.Expected.IR.runBatchSequential
        Flyt.Expected.IR.runBatchConcurrent Flyt.Expected.IR.runExecWithRetries .canceled 3 1 8 exCfg2 exScr2 exIdx .live
      = some (Flyt.runBatch .canceled 3 1 8 exCfg2 exScr2 .live) :=
  runBatch_over_interpreted_executors .canceled 3 1 8 exCfg2 exScr2 exIdx .live exIdx2_ok
    32 (by decide) 26 (by decide) 40 (by decide) 24 (by decide)

/-- … and what that common value is: prep, item 0 retried after a wait, item 1 failing through its fallback (which cancels), item 2
    marked "batch stopped" without being run, post handed the three slots -/
example :
    Flyt.runBatch .canceled 3 1 8 exCfg2 exScr2 .live =
      ([.bprep 3 1 8,
        .bexec 3 1 0 0 (.res (.tok 100) none), .bwait 3 1 0 1 5 true, .bexec 3 1 0 1 (.res (.tok 100) none),
        .bexec 3 1 1 0 (.res (.tok 101) none), .bwait 3 1 1 1 5 true, .bexec 3 1 1 1 (.res (.tok 101) none),
        .bfb 3 1 1 (.res (.tok 101) none) (.user 11),
        .bpost 3 1 8 [.res (.tok 100) none, .res (.tok 101) none, .res (.tok 102) none]
          [.res (.tok 7) none, .res (.tok 0) (some (.user 99)), .res (.tok 0) (some (.fw .batchStopped))]],
       .done .canceled, .ok "a") := by
  decide

end Flyt.Refine.FullConc

/-! ### 4. Goal B: the whole orchestration (`Run → Flow.Exec → Run → runBatch → executor → runExecWithRetries`), both executors -/

namespace Flyt.Refine.FullConc
open Flyt Flyt.GoIR Flyt.Refine Flyt.Refine.FullStack

theorem fullConcFuel_eq (scr : BatchScript) : fullConcFuel scr = stackConcFuel scr := rfl

/-- the `hidx` of `runBatch_over_interpreted_executors` for one node, visit: the prepared items are told apart by `idxOf`, on
    BOTH paths (`IdxOKAt` without the guard `¬ cfg.conc > 0`) -/
def IdxOKAt2 (cfg : BatchCfg) (scr : BatchScript) (idxOf : Result → Nat) : Prop :=
  ∀ l, scr.prep.res = .ok l → ∀ i (h : i < (normItems cfg.shape l).length), idxOf (normItems cfg.shape l)[i] = i

theorem IdxOKAt2.toIdxOKAt {cfg : BatchCfg} {scr : BatchScript} {idxOf : Result → Nat} (h : IdxOKAt2 cfg scr idxOf) :
    IdxOKAt cfg scr idxOf := fun _ => h

/-- the interpreted `runBatch` stack with both executors interpreted is the model's `runBatch` -/
theorem fullBatch2_ok (kind : CtxKind) (n : NodeId) (v : Nat) (cfg : BatchCfg) (scr : BatchScript) (idxOf : Result → Nat)
    (hidx : IdxOKAt2 cfg scr idxOf) : BatchOK kind n v cfg scr (fullBatch2 kind n v cfg scr idxOf) := by
  intro sid ctx
  exact runBatch_over_interpreted_executors kind n v sid cfg scr idxOf ctx hidx
    (fullItemFuel cfg) (Nat.le_refl _) (fullSeqFuel scr) (Nat.le_refl _) (fullConcFuel scr) (Nat.le_refl _)
    (fullBatchFuel scr) (Nat.le_refl _)

/-- **`Run` on a batch node, interpreted down to the item callbacks, whatever its concurrency**: `Run`'s dispatch → `runBatch` →
    `runBatchSequential` or `runBatchConcurrent` (serial schedule) → `runExecWithRetries`, every one the interpretation of its
    translated source, is the model's `runBatch`. -/
theorem fullBatchNode2_eq (kind : CtxKind) (n : NodeId) (v : Nat) (sid : StoreId) (cfg : BatchCfg) (scr : BatchScript)
    (idxOf : Result → Nat) (vb : Bool) (ctx : Ctx) (hidx : IdxOKAt2 cfg scr idxOf) :
    fullBatchNode2 kind n v sid cfg scr idxOf vb ctx = some (Flyt.runBatch kind n v sid cfg scr ctx) :=
  Run_over_runBatch kind n v sid cfg scr vb ctx _ (fullBatch2_ok kind n v cfg scr idxOf hidx) batchIRFuel (Nat.le_refl _)

/-- the hypothesis on the arena: EVERY batch node (sequential or concurrent) has, on every visit, prepared items that
    `idxOf id v` tells apart (`idxOf id v items[i] = i`) -/
def IdxOK2 (env : Flyt.Env) (idxOf : NodeId → Nat → Result → Nat) : Prop :=
  ∀ id cfg, env.arena id = .batch cfg → ∀ v, IdxOKAt2 cfg (env.batchBeh id v) (idxOf id v)

theorem IdxOK2.toIdxOK {env : Flyt.Env} {idxOf : NodeId → Nat → Result → Nat} (h : IdxOK2 env idxOf) : IdxOK env idxOf :=
  fun id cfg ha v => (h id cfg ha v).toIdxOKAt

/-- one level of the stack is right if the levels below are (`fullLevel_eq`; only the batch case differs) -/
theorem fullLevel2_eq (env : Flyt.Env) (idxOf : NodeId → Nat → Result → Nat) (hidx : IdxOK2 env idxOf) (k : Nat) (R : Nat → RunFn)
    (hR : Stack.RunOK env k R) (id : NodeId) (sid : StoreId) (st : RunSt)
    (hne : (runNode env (k + 1) id sid st).2.2 ≠ .fuel) :
    fullLevel2 env idxOf k R id sid st = some (runNode env (k + 1) id sid st) := by
  unfold fullLevel2
  cases harena : env.arena id with
  | leaf cfg =>
    simp only
    rw [Run_refines_runLeaf_of_le env.kind id (st.visits id) sid cfg (env.leafBeh id (st.visits id)) st.ctx (leafIRFuel cfg)
      (Nat.le_refl _)]
    simp [runNode, harena, visited]
  | batch cfg =>
    simp only
    rw [fullBatchNode2_eq env.kind id (st.visits id) sid cfg (env.batchBeh id (st.visits id)) (idxOf id (st.visits id)) false st.ctx
      (hidx id cfg harena (st.visits id))]
    simp [runNode, harena, visited]
  | flow start ops =>
    simp only
    exact Stack.Run_over_interpreted_FlowExec env id start ops k sid st _ (Stack.deepExec_ok env id start ops k R hR) harena hne

/-- **Goal B. The full stack, both batch executors included.** `fullRun_eq_runNode` for `fullRun2`: on a batch node `Run`'s
    dispatch, `runBatch`, the executor the node's concurrency selects — `runBatchSequential`, or `runBatchConcurrent` on the serial
    schedule of the pool — and every item's `runExecWithRetries` are interpreted source, down to the scripted user callbacks.
    Hypothesis `IdxOK2`: `IdxOK` for ALL batch nodes, not only the sequential ones. -/
theorem fullRun2_eq_runNode (env : Flyt.Env) (idxOf : NodeId → Nat → Result → Nat) (hidx : IdxOK2 env idxOf) :
    ∀ (k : Nat) (id : NodeId) (sid : StoreId) (st : RunSt),
      (runNode env k id sid st).2.2 ≠ .fuel → fullRun2 env idxOf k id sid st = some (runNode env k id sid st) := by
  intro k
  induction k using Nat.strongRecOn with
  | ind k ih =>
    cases k with
    | zero => intro id sid st h; simp [runNode] at h
    | succ k =>
      intro id sid st hne
      rw [fullRun2]
      apply fullLevel2_eq env idxOf hidx k _ _ id sid st hne
      intro mf hmf id' sid' st' h
      have hlt : mf < k + 1 := by omega
      simp only [hlt, dite_true]
      exact ih mf hlt id' sid' st' h

/-- … and it is the same function as `fullRun` (concurrent executor modelled) wherever the model does not run out of fuel -/
theorem fullRun2_eq_fullRun (env : Flyt.Env) (idxOf : NodeId → Nat → Result → Nat) (hidx : IdxOK2 env idxOf)
    (k : Nat) (id : NodeId) (sid : StoreId) (st : RunSt) (hne : (runNode env k id sid st).2.2 ≠ .fuel) :
    fullRun2 env idxOf k id sid st = fullRun env idxOf k id sid st := by
  rw [fullRun2_eq_runNode env idxOf hidx k id sid st hne, fullRun_eq_runNode env idxOf hidx.toIdxOK k id sid st hne]

theorem fullLevel2'_eq_fullLevel2 (env : Flyt.Env) (idxOf : NodeId → Nat → Result → Nat) (k : Nat) (R : Nat → RunFn) :
    fullLevel2' env idxOf k R = fullLevel2 env idxOf k R := by
  funext id sid st
  unfold fullLevel2' fullLevel2
  cases env.arena id with
  | leaf cfg => rfl
  | batch cfg => rfl
  | flow start ops => simp only [flowNodeWorldFull_eq]

/-- the same for `fullRun2'` (additionally the flow node's `Prep` / `Post` and the embedded `BaseNode`'s getters / fallback interpreted,
    as in `fullRun'_eq_runNode`) -/
theorem fullRun2'_eq_runNode (env : Flyt.Env) (idxOf : NodeId → Nat → Result → Nat) (hidx : IdxOK2 env idxOf) :
    ∀ (k : Nat) (id : NodeId) (sid : StoreId) (st : RunSt),
      (runNode env k id sid st).2.2 ≠ .fuel → fullRun2' env idxOf k id sid st = some (runNode env k id sid st) := by
  intro k
  induction k using Nat.strongRecOn with
  | ind k ih =>
    cases k with
    | zero => intro id sid st h; simp [runNode] at h
    | succ k =>
      intro id sid st hne
      rw [fullRun2', fullLevel2'_eq_fullLevel2]
      apply fullLevel2_eq env idxOf hidx k _ _ id sid st hne
      intro mf hmf id' sid' st' h
      have hlt : mf < k + 1 := by omega
      simp only [hlt, dite_true]
      exact ih mf hlt id' sid' st' h

/-! the canonical `idxOf`: the hypothesis is "the prepared items of EVERY batch node are pairwise distinct" -/

/-- `NodupOK` without the restriction to sequential nodes -/
def NodupOK2 (env : Flyt.Env) : Prop :=
  ∀ id cfg, env.arena id = .batch cfg → ∀ v l, (env.batchBeh id v).prep.res = .ok l → (normItems cfg.shape l).Nodup

theorem canonIdx_ok2 (env : Flyt.Env) (h : NodupOK2 env) : IdxOK2 env (canonIdx env) := by
  intro id cfg harena v l hl i hi
  simp only [canonIdx, harena, hl]
  exact idxOf_getElem_of_nodup _ (h id cfg harena v l hl) i hi

/-- conversely `IdxOK2` for ANY `idxOf` forces distinct items: `NodupOK2` is the weakest form of the hypothesis -/
theorem nodup_of_idxOK2 (env : Flyt.Env) (idxOf : NodeId → Nat → Result → Nat) (h : IdxOK2 env idxOf) : NodupOK2 env := by
  intro id cfg harena v l hl
  have hi := h id cfg harena v l hl
  exact nodup_of_index _ (idxOf id v) 0 (by simpa using hi)

theorem fullRunCanon2_eq_runNode (env : Flyt.Env) (hnd : NodupOK2 env) (k : Nat) (id : NodeId) (sid : StoreId) (st : RunSt)
    (hne : (runNode env k id sid st).2.2 ≠ .fuel) : fullRunCanon2 env k id sid st = some (runNode env k id sid st) :=
  fullRun2_eq_runNode env (canonIdx env) (canonIdx_ok2 env hnd) k id sid st hne

/-- Boolean check of `NodupOK2` for an arena whose batch nodes are among `ids` and whose scripts do not change after visit `V` -/
def nodupAt2 (env : Flyt.Env) (id : NodeId) (v : Nat) : Bool :=
  match env.arena id with
  | .batch cfg =>
    (match (env.batchBeh id v).prep.res with
     | .ok l => decide (normItems cfg.shape l).Nodup
     | .error _ => true)
  | _ => true

def nodupCheck2 (env : Flyt.Env) (ids : List NodeId) (V : Nat) : Bool :=
  ids.all fun id => (List.range (V + 1)).all fun v => nodupAt2 env id v

theorem nodupOK2_of_check (env : Flyt.Env) (ids : List NodeId) (V : Nat)
    (hids : ∀ id cfg, env.arena id = .batch cfg → id ∈ ids)
    (hV : ∀ id v, id ∈ ids → env.batchBeh id v = env.batchBeh id (min v V))
    (hchk : nodupCheck2 env ids V = true) : NodupOK2 env := by
  intro id cfg harena v l hl
  have hmem := hids id cfg harena
  have h1 := (List.all_eq_true.mp hchk) id hmem
  have h2 := (List.all_eq_true.mp h1) (min v V) (by simp [List.mem_range]; omega)
  rw [hV id v hmem] at hl
  simp only [nodupAt2, harena, hl] at h2
  simpa using h2

/-! a concrete instance: `FullEx.envB` — the root flow passes through the CONCURRENT batch node 11 (`cfgConc`, pool of 2) -/
open FullEx in
theorem envB_nodup2 : NodupOK2 envB := by
  apply nodupOK2_of_check envB [8, 9, 10, 11] 1
  · intro id cfg h
    simp only [envB] at h
    unfold arenaB at h
    split at h <;> cases h <;> simp
  · intro id v _
    cases v with
    | zero => rfl
    | succ v =>
      have : min (v + 1) 1 = 1 := by omega
      rw [this]
      simp only [envB]
      unfold behB
      split <;> first | rfl | simp_all
  · decide

/-- the root flow (sequential nodes 8, 9 twice, the nested flow with 10, the concurrent node 11), depth 12 -/
theorem envB_root2 :
    fullRunCanon2 FullEx.envB 12 0 7 Proofs.Ex.st0 = some (runNode FullEx.envB 12 0 7 Proofs.Ex.st0) :=
  fullRunCanon2_eq_runNode FullEx.envB envB_nodup2 12 0 7 Proofs.Ex.st0 (by decide +kernel)

/-- the concurrent node 11 alone -/
example : fullRunCanon2 FullEx.envB 1 11 7 Proofs.Ex.st0 = some (runNode FullEx.envB 1 11 7 Proofs.Ex.st0) :=
  fullRunCanon2_eq_runNode FullEx.envB envB_nodup2 1 11 7 Proofs.Ex.st0 (by decide)

end Flyt.Refine.FullConc

#print axioms Flyt.Refine.FullConc.stackConc_call
#print axioms Flyt.Refine.FullConc.runBatch_over_interpreted_executors'
#print axioms Flyt.Refine.FullConc.runBatch_over_interpreted_executors
#print axioms Flyt.Refine.FullConc.stackBatchIR2_eq_stackBatchIR
#print axioms Flyt.Refine.FullConc.fullBatchNode2_eq
#print axioms Flyt.Refine.FullConc.fullRun2_eq_runNode
#print axioms Flyt.Refine.FullConc.fullRun2'_eq_runNode
#print axioms Flyt.Refine.FullConc.fullRunCanon2_eq_runNode
#print axioms Flyt.Refine.FullConc.nodupOK2_of_check
#print axioms Flyt.Refine.FullConc.envB_root2
