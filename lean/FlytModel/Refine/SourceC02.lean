import FlytModel.Refine.SourceBase
import FlytModel.Props.C02
/-!
# C02 (retry budget and fallback are exact) stated about the INTERPRETED SOURCE

Three subjects, three refinement theorems:
* the retry loop + fallback of `flyt.Run` — `runLeafIR fuel Expected.IR.Run …` (`Run_refines_runLeaf_of_le`, depth `≥ effBudget + 43`);
* its duplicate for batch items, `runExecWithRetries` — `runItemIR fuel Expected.IR.runExecWithRetries …`
  (`runExecWithRetries_refines_runItem_of_le`, depth `≥ budget + 30`);
* every item inside a whole batch run, `runBatch` — `runBatchIR fuel Expected.IR.runBatch …` (`runBatch_refines_of_le`,
  depth `≥ (number of prepared items) + 21`).

Every hypothesis of the model theorem is kept verbatim (`NoCancel`, `PrepDone`, `execS ≠ .absent`, `1 ≤ budget`, …: they are about the
configuration and the SCRIPT, which the world shares with the model); only the depth bound is added. None of the three refinement theorems
has a side condition, so no corollary is weaker than its model theorem.

Reading of the `runBatch` corollaries: the batch world (`batchWorld`) takes the calls `runBatchSequential(…)` / `runBatchConcurrent(…)`
that `runBatch` makes to be the model's `itemsSeq` / `itemsSerialPool` — their own source is tied to those by `Refine/Seq.lean` /
`Refine/ConcSerial.lean` (the pool: its SERIAL schedule only). So "per item of a whole batch run" is about the interpreted `runBatch`
glue (prep normalisation, dispatch, mode and concurrency passed on, post) around executors that are separately refined.
-/
set_option autoImplicit false
namespace Flyt.Refine.Source
open Flyt Flyt.Spec Flyt.GoIR Flyt.Refine Flyt.Proofs.Attempts Flyt.Proofs.Leaf Flyt.Proofs.Item Flyt.Proofs.Retry Flyt.Proofs.LeafSpec

/-! ### `Run` on a single node -/

/-- **Never more than `N` attempts, and never an attempt after the first success** — every scenario, every pattern of cancellation.
    Mirrors `Props.C02.attempts_never_exceed`. -/
theorem C02_attempts_never_exceed_for_interpreted_source (kind : CtxKind) (n v sid : Nat) (cfg : LeafCfg) (scr : LeafScript)
    (fuel : Nat) (hf : runFuel cfg ≤ fuel) :
    ∃ evs ctx' out, runLeafIR fuel Flyt.Expected.IR.Run kind n v sid cfg scr .live = some (evs, ctx', out) ∧
      execCount evs ≤ cfg.effBudget ∧ ∀ k, FirstOk scr.exec k → execCount evs ≤ min (k + 1) cfg.effBudget :=
  leaf_transfer kind n v sid cfg scr .live fuel hf
    (fun evs _ _ => execCount evs ≤ cfg.effBudget ∧ ∀ k, FirstOk scr.exec k → execCount evs ≤ min (k + 1) cfg.effBudget)
    (Props.C02.attempts_never_exceed kind n v sid cfg scr)

/-- **Exactly `min (k+1) N` attempts** (`k` = 0-based index of the first succeeding attempt), **exactly `N` when none of the first `N`
    succeeds.** Mirrors `Props.C02.attempts_exact`. -/
theorem C02_attempts_exact_for_interpreted_source (kind : CtxKind) (n v sid : Nat) (cfg : LeafCfg) (scr : LeafScript)
    (hnc : NoCancel cfg scr) {pv : Val} (hd : PrepDone cfg scr pv) (hS : cfg.execS ≠ .absent) (fuel : Nat) (hf : runFuel cfg ≤ fuel) :
    ∃ evs ctx' out, runLeafIR fuel Flyt.Expected.IR.Run kind n v sid cfg scr .live = some (evs, ctx', out) ∧
      (∀ k, FirstOk scr.exec k → execCount evs = min (k + 1) cfg.effBudget) ∧
      (AllFail scr.exec cfg.effBudget → execCount evs = cfg.effBudget) :=
  leaf_transfer kind n v sid cfg scr .live fuel hf
    (fun evs _ _ => (∀ k, FirstOk scr.exec k → execCount evs = min (k + 1) cfg.effBudget) ∧
      (AllFail scr.exec cfg.effBudget → execCount evs = cfg.effBudget))
    (Props.C02.attempts_exact kind n v sid cfg scr hnc hd hS)

/-- **The attempts are numbered 0, 1, 2, …** and each gets the prep value. Mirrors `Props.C02.attempts_numbered`. -/
theorem C02_attempts_numbered_for_interpreted_source (kind : CtxKind) (n v sid : Nat) (cfg : LeafCfg) (scr : LeafScript)
    {pv : Val} (hd : PrepDone cfg scr pv) (fuel : Nat) (hf : runFuel cfg ≤ fuel) :
    ∃ evs ctx' out, runLeafIR fuel Flyt.Expected.IR.Run kind n v sid cfg scr .live = some (evs, ctx', out) ∧
      evs.filter isExecEv = (List.range (execCount evs)).map (fun k => Ev.exec n v k (execArg cfg.execS pv)) :=
  leaf_transfer kind n v sid cfg scr .live fuel hf
    (fun evs _ _ => evs.filter isExecEv = (List.range (execCount evs)).map (fun k => Ev.exec n v k (execArg cfg.execS pv)))
    (Props.C02.attempts_numbered kind n v sid cfg scr hd)

/-- **The fallback is invoked at most once, only by a node that has one, only after all `N` attempts were made and failed — never after
    a success — and with the prep value and the error of the LAST attempt** (every scenario).
    Mirrors `Props.C02.fallback_only_after_exhaustion`. -/
theorem C02_fallback_only_after_exhaustion_for_interpreted_source (kind : CtxKind) (n v sid : Nat) (cfg : LeafCfg) (scr : LeafScript)
    (fuel : Nat) (hf : runFuel cfg ≤ fuel) :
    ∃ evs ctx' out, runLeafIR fuel Flyt.Expected.IR.Run kind n v sid cfg scr .live = some (evs, ctx', out) ∧
      (fbCalls evs = [] ∨
       (cfg.fb = .custom ∧ execCount evs = cfg.effBudget ∧ AllFail scr.exec cfg.effBudget ∧
         ∃ j e pv, cfg.effBudget = j + 1 ∧ (scr.exec j).res = .error e ∧ PrepDone cfg scr pv ∧
           fbCalls evs = [.fb n v pv (.user e)])) :=
  leaf_transfer kind n v sid cfg scr .live fuel hf
    (fun evs _ _ => fbCalls evs = [] ∨
       (cfg.fb = .custom ∧ execCount evs = cfg.effBudget ∧ AllFail scr.exec cfg.effBudget ∧
         ∃ j e pv, cfg.effBudget = j + 1 ∧ (scr.exec j).res = .error e ∧ PrepDone cfg scr pv ∧
           fbCalls evs = [.fb n v pv (.user e)]))
    (Props.C02.fallback_only_after_exhaustion kind n v sid cfg scr)

/-- **… and it is invoked if and only if all `N` attempts failed** (and the node has a fallback of its own).
    Mirrors `Props.C02.fallback_iff_all_failed`. -/
theorem C02_fallback_iff_all_failed_for_interpreted_source (kind : CtxKind) (n v sid : Nat) (cfg : LeafCfg) (scr : LeafScript)
    (hnc : NoCancel cfg scr) {pv : Val} (hd : PrepDone cfg scr pv) (hS : cfg.execS ≠ .absent) (hb : 1 ≤ cfg.effBudget)
    (fuel : Nat) (hf : runFuel cfg ≤ fuel) :
    ∃ evs ctx' out, runLeafIR fuel Flyt.Expected.IR.Run kind n v sid cfg scr .live = some (evs, ctx', out) ∧
      (fbCalls evs ≠ [] ↔ (cfg.fb = .custom ∧ AllFail scr.exec cfg.effBudget)) :=
  leaf_transfer kind n v sid cfg scr .live fuel hf
    (fun evs _ _ => fbCalls evs ≠ [] ↔ (cfg.fb = .custom ∧ AllFail scr.exec cfg.effBudget))
    (Props.C02.fallback_iff_all_failed kind n v sid cfg scr hnc hd hS hb)

/-- **The fallback's outcome replaces the exec outcome.** The post phase (`PostEnd`) is entered with the first success's value and no
    fallback call · the last attempt's error, no fallback call, and that error is the run's (no fallback of its own) · the fallback's
    value / error after exactly one call with the last error. Mirrors `Props.C02.outcome_after_retries`. -/
theorem C02_outcome_after_retries_for_interpreted_source (kind : CtxKind) (n v sid : Nat) (cfg : LeafCfg) (scr : LeafScript)
    (hnc : NoCancel cfg scr) {pv : Val} (hd : PrepDone cfg scr pv) (hS : cfg.execS ≠ .absent) (hb : 1 ≤ cfg.effBudget)
    (fuel : Nat) (hf : runFuel cfg ≤ fuel) :
    ∃ evs ctx' out, runLeafIR fuel Flyt.Expected.IR.Run kind n v sid cfg scr .live = some (evs, ctx', out) ∧
      ∃ res, PostEnd n v sid cfg scr pv res (postCalls evs) out ∧
        (∀ k y, FirstOk scr.exec k → k < cfg.effBudget → (scr.exec k).res = .ok y →
            res = .ok (execRet cfg.execS y) ∧ fbCalls evs = []) ∧
        (AllFail scr.exec cfg.effBudget → cfg.fb ≠ .custom →
            ∃ e, (scr.exec (cfg.effBudget - 1)).res = .error e ∧ res = .error (.user e) ∧ fbCalls evs = [] ∧
              out = .err (.user e)) ∧
        (AllFail scr.exec cfg.effBudget → cfg.fb = .custom →
            ∃ e, (scr.exec (cfg.effBudget - 1)).res = .error e ∧ fbCalls evs = [.fb n v pv (.user e)] ∧
              res = (match scr.fb.res with | .ok x => .ok x | .error e' => .error (.user e'))) :=
  leaf_transfer kind n v sid cfg scr .live fuel hf
    (fun evs _ out => ∃ res, PostEnd n v sid cfg scr pv res (postCalls evs) out ∧
        (∀ k y, FirstOk scr.exec k → k < cfg.effBudget → (scr.exec k).res = .ok y →
            res = .ok (execRet cfg.execS y) ∧ fbCalls evs = []) ∧
        (AllFail scr.exec cfg.effBudget → cfg.fb ≠ .custom →
            ∃ e, (scr.exec (cfg.effBudget - 1)).res = .error e ∧ res = .error (.user e) ∧ fbCalls evs = [] ∧
              out = .err (.user e)) ∧
        (AllFail scr.exec cfg.effBudget → cfg.fb = .custom →
            ∃ e, (scr.exec (cfg.effBudget - 1)).res = .error e ∧ fbCalls evs = [.fb n v pv (.user e)] ∧
              res = (match scr.fb.res with | .ok x => .ok x | .error e' => .error (.user e'))))
    (Props.C02.outcome_after_retries kind n v sid cfg scr hnc hd hS hb)

/-- **A node that does not expose retry settings gets exactly one attempt** — whatever its script, whatever is cancelled when.
    Mirrors `Props.C02.nonretryable_single_attempt`. -/
theorem C02_nonretryable_single_attempt_for_interpreted_source (kind : CtxKind) (n v sid : Nat) (cfg : LeafCfg) (scr : LeafScript)
    (hr : cfg.retryable = false) {pv : Val} (hd : PrepDone cfg scr pv) (hS : cfg.execS ≠ .absent)
    (fuel : Nat) (hf : runFuel cfg ≤ fuel) :
    ∃ evs ctx' out, runLeafIR fuel Flyt.Expected.IR.Run kind n v sid cfg scr .live = some (evs, ctx', out) ∧ execCount evs = 1 :=
  leaf_transfer kind n v sid cfg scr .live fuel hf (fun evs _ _ => execCount evs = 1)
    (Props.C02.nonretryable_single_attempt kind n v sid cfg scr hr hd hS)

/-! ### every item of a batch: the interpreted `runExecWithRetries` (the duplicated loop) -/

/-- never more than `N` attempts on an item, never one after its first success (every scenario, every context).
    Mirrors `Props.C02.item_attempts_never_exceed`. -/
theorem C02_item_attempts_never_exceed_for_interpreted_source (kind : CtxKind) (n v : Nat) (cfg : BatchCfg) (i : Nat) (item : Result)
    (scr : ItemScript) (c : Ctx) (fuel : Nat) (hf : itemFuel cfg ≤ fuel) :
    ∃ evs ctx' res, runItemIR fuel Flyt.Expected.IR.runExecWithRetries kind n v cfg i item scr c = some (evs, ctx', res) ∧
      bexecCount i evs ≤ cfg.budget ∧ ∀ k, FirstOk scr.exec k → bexecCount i evs ≤ min (k + 1) cfg.budget :=
  item_transfer kind n v cfg i item scr c fuel hf
    (fun evs _ _ => bexecCount i evs ≤ cfg.budget ∧ ∀ k, FirstOk scr.exec k → bexecCount i evs ≤ min (k + 1) cfg.budget)
    (Props.C02.item_attempts_never_exceed kind n v cfg i item scr c)

/-- exactly `min (k+1) N` attempts on an item / exactly `N` when all fail. Mirrors `Props.C02.item_attempts_exact`. -/
theorem C02_item_attempts_exact_for_interpreted_source (kind : CtxKind) (n v : Nat) (cfg : BatchCfg) (i : Nat) (item : Result)
    (scr : ItemScript) (hnc : Flyt.Proofs.Item.NoCancel cfg scr) (hS : cfg.execS ≠ .absent) (fuel : Nat) (hf : itemFuel cfg ≤ fuel) :
    ∃ evs ctx' res, runItemIR fuel Flyt.Expected.IR.runExecWithRetries kind n v cfg i item scr .live = some (evs, ctx', res) ∧
      (∀ k, FirstOk scr.exec k → bexecCount i evs = min (k + 1) cfg.budget) ∧
      (AllFail scr.exec cfg.budget → bexecCount i evs = cfg.budget) :=
  item_transfer kind n v cfg i item scr .live fuel hf
    (fun evs _ _ => (∀ k, FirstOk scr.exec k → bexecCount i evs = min (k + 1) cfg.budget) ∧
      (AllFail scr.exec cfg.budget → bexecCount i evs = cfg.budget))
    (Props.C02.item_attempts_exact kind n v cfg i item scr hnc hS)

/-- the item's attempts are numbered 0, 1, 2, … and each receives the item. Mirrors `Props.C02.item_attempts_numbered`. -/
theorem C02_item_attempts_numbered_for_interpreted_source (kind : CtxKind) (n v : Nat) (cfg : BatchCfg) (i : Nat) (item : Result)
    (scr : ItemScript) (fuel : Nat) (hf : itemFuel cfg ≤ fuel) :
    ∃ evs ctx' res, runItemIR fuel Flyt.Expected.IR.runExecWithRetries kind n v cfg i item scr .live = some (evs, ctx', res) ∧
      evs.filter (isBexecOf i) = (List.range (bexecCount i evs)).map (fun k => Ev.bexec n v i k (execArg cfg.execS item.box)) :=
  item_transfer kind n v cfg i item scr .live fuel hf
    (fun evs _ _ => evs.filter (isBexecOf i) =
      (List.range (bexecCount i evs)).map (fun k => Ev.bexec n v i k (execArg cfg.execS item.box)))
    (Props.C02.item_attempts_numbered kind n v cfg i item scr)

/-- the item's fallback: at most once, only after all `N` attempts failed, with the item and the LAST error (every scenario, every
    context). Mirrors `Props.C02.item_fallback_only_after_exhaustion`. -/
theorem C02_item_fallback_only_after_exhaustion_for_interpreted_source (kind : CtxKind) (n v : Nat) (cfg : BatchCfg) (i : Nat)
    (item : Result) (scr : ItemScript) (c : Ctx) (fuel : Nat) (hf : itemFuel cfg ≤ fuel) :
    ∃ evs ctx' res, runItemIR fuel Flyt.Expected.IR.runExecWithRetries kind n v cfg i item scr c = some (evs, ctx', res) ∧
      (bfbCalls i evs = [] ∨
       (cfg.fb = .custom ∧ bexecCount i evs = cfg.budget ∧ AllFail scr.exec cfg.budget ∧
         ∃ j e, cfg.budget = j + 1 ∧ (scr.exec j).res = .error e ∧ bfbCalls i evs = [.bfb n v i item.box (.user e)])) :=
  item_transfer kind n v cfg i item scr c fuel hf
    (fun evs _ _ => bfbCalls i evs = [] ∨
       (cfg.fb = .custom ∧ bexecCount i evs = cfg.budget ∧ AllFail scr.exec cfg.budget ∧
         ∃ j e, cfg.budget = j + 1 ∧ (scr.exec j).res = .error e ∧ bfbCalls i evs = [.bfb n v i item.box (.user e)]))
    (Props.C02.item_fallback_only_after_exhaustion kind n v cfg i item scr c)

/-- … invoked iff all `N` attempts failed and the node has a fallback. Mirrors `Props.C02.item_fallback_iff_all_failed`. -/
theorem C02_item_fallback_iff_all_failed_for_interpreted_source (kind : CtxKind) (n v : Nat) (cfg : BatchCfg) (i : Nat) (item : Result)
    (scr : ItemScript) (hnc : Flyt.Proofs.Item.NoCancel cfg scr) (hS : cfg.execS ≠ .absent) (hb : 1 ≤ cfg.budget)
    (fuel : Nat) (hf : itemFuel cfg ≤ fuel) :
    ∃ evs ctx' res, runItemIR fuel Flyt.Expected.IR.runExecWithRetries kind n v cfg i item scr .live = some (evs, ctx', res) ∧
      (bfbCalls i evs ≠ [] ↔ (cfg.fb = .custom ∧ AllFail scr.exec cfg.budget)) :=
  item_transfer kind n v cfg i item scr .live fuel hf
    (fun evs _ _ => bfbCalls i evs ≠ [] ↔ (cfg.fb = .custom ∧ AllFail scr.exec cfg.budget))
    (Props.C02.item_fallback_iff_all_failed kind n v cfg i item scr hnc hS hb)

/-- what `runExecWithRetries` hands back for the item (`itemResOf` of its two return values: a value, turned into the item's slot by the
    caller, or an error): the first success's value, the last error, or the fallback's outcome.
    Mirrors `Props.C02.item_outcome_after_retries`. -/
theorem C02_item_outcome_after_retries_for_interpreted_source (kind : CtxKind) (n v : Nat) (cfg : BatchCfg) (i : Nat) (item : Result)
    (scr : ItemScript) (hnc : Flyt.Proofs.Item.NoCancel cfg scr) (hS : cfg.execS ≠ .absent) (hb : 1 ≤ cfg.budget)
    (fuel : Nat) (hf : itemFuel cfg ≤ fuel) :
    ∃ evs ctx' res, runItemIR fuel Flyt.Expected.IR.runExecWithRetries kind n v cfg i item scr .live = some (evs, ctx', res) ∧
      (∀ k y, FirstOk scr.exec k → k < cfg.budget → (scr.exec k).res = .ok y →
          res = .slot (slotOfVal (execRet cfg.execS y)) ∧ bfbCalls i evs = []) ∧
      (AllFail scr.exec cfg.budget → cfg.fb ≠ .custom →
          ∃ e, (scr.exec (cfg.budget - 1)).res = .error e ∧ res = .error (.user e) ∧ bfbCalls i evs = []) ∧
      (AllFail scr.exec cfg.budget → cfg.fb = .custom →
          ∃ e, (scr.exec (cfg.budget - 1)).res = .error e ∧ bfbCalls i evs = [.bfb n v i item.box (.user e)] ∧
            res = (match scr.fb.res with | .ok x => .slot (slotOfVal x) | .error e' => .error (.user e'))) :=
  item_transfer kind n v cfg i item scr .live fuel hf
    (fun evs _ res => (∀ k y, FirstOk scr.exec k → k < cfg.budget → (scr.exec k).res = .ok y →
          res = .slot (slotOfVal (execRet cfg.execS y)) ∧ bfbCalls i evs = []) ∧
      (AllFail scr.exec cfg.budget → cfg.fb ≠ .custom →
          ∃ e, (scr.exec (cfg.budget - 1)).res = .error e ∧ res = .error (.user e) ∧ bfbCalls i evs = []) ∧
      (AllFail scr.exec cfg.budget → cfg.fb = .custom →
          ∃ e, (scr.exec (cfg.budget - 1)).res = .error e ∧ bfbCalls i evs = [.bfb n v i item.box (.user e)] ∧
            res = (match scr.fb.res with | .ok x => .slot (slotOfVal x) | .error e' => .error (.user e'))))
    (Props.C02.item_outcome_after_retries kind n v cfg i item scr hnc hS hb)

/-! ### … inside a whole batch run (the interpreted `runBatch`): no counter is shared between items -/

/-- **In the trace of the interpreted `runBatch`, the events of item `i` are either none or exactly the events of the interpreted
    `runExecWithRetries` on the `i`-th item that prep produced, with item `i`'s own script** (run at any sufficient depth `ifuel`).
    Mirrors `Props.C02.batch_item_own_loop`, with BOTH sides interpreted. -/
theorem C02_batch_item_own_loop_for_interpreted_source (kind : CtxKind) (n v sid : Nat) (cfg : BatchCfg) (scr : BatchScript) (ctx : Ctx)
    (i : Nat) (fuel : Nat) (hf : batchFuel scr ≤ fuel) (ifuel : Nat) (hif : itemFuel cfg ≤ ifuel) :
    ∃ evs ctx' out, runBatchIR fuel Flyt.Expected.IR.runBatch kind n v sid cfg scr ctx = some (evs, ctx', out) ∧
      (evs.filter (isItemEv i) = [] ∨
       ∃ l it c ievs ictx ires, scr.prep.res = .ok l ∧ (normItems cfg.shape l)[i]? = some it ∧
         runItemIR ifuel Flyt.Expected.IR.runExecWithRetries kind n v cfg i it (scr.item i) c = some (ievs, ictx, ires) ∧
         evs.filter (isItemEv i) = ievs) := by
  refine batch_transfer kind n v sid cfg scr ctx fuel hf
    (fun evs _ _ => evs.filter (isItemEv i) = [] ∨
       ∃ l it c ievs ictx ires, scr.prep.res = .ok l ∧ (normItems cfg.shape l)[i]? = some it ∧
         runItemIR ifuel Flyt.Expected.IR.runExecWithRetries kind n v cfg i it (scr.item i) c = some (ievs, ictx, ires) ∧
         evs.filter (isItemEv i) = ievs) ?_
  rcases Props.C02.batch_item_own_loop kind n v sid cfg scr ctx i with h | ⟨l, it, c, h1, h2, h3⟩
  · exact .inl h
  · exact .inr ⟨l, it, c, _, _, _, h1, h2,
      runExecWithRetries_refines_runItem_of_le kind n v cfg i it (scr.item i) c ifuel hif, h3⟩

/-- per item of a whole interpreted batch run: never more than `N` attempts, never one after the item's first success, fallback at most
    once and only after the item's `N` failures (every scenario). Mirrors `Props.C02.batch_item_bounds`. -/
theorem C02_batch_item_bounds_for_interpreted_source (kind : CtxKind) (n v sid : Nat) (cfg : BatchCfg) (scr : BatchScript) (ctx : Ctx)
    (i : Nat) (fuel : Nat) (hf : batchFuel scr ≤ fuel) :
    ∃ evs ctx' out, runBatchIR fuel Flyt.Expected.IR.runBatch kind n v sid cfg scr ctx = some (evs, ctx', out) ∧
      bexecCount i evs ≤ cfg.budget ∧
      (∀ k, FirstOk (scr.item i).exec k → bexecCount i evs ≤ min (k + 1) cfg.budget) ∧
      (bfbCalls i evs = [] ∨
        (cfg.fb = .custom ∧ bexecCount i evs = cfg.budget ∧ AllFail (scr.item i).exec cfg.budget ∧ (bfbCalls i evs).length = 1)) :=
  batch_transfer kind n v sid cfg scr ctx fuel hf
    (fun evs _ _ => bexecCount i evs ≤ cfg.budget ∧
      (∀ k, FirstOk (scr.item i).exec k → bexecCount i evs ≤ min (k + 1) cfg.budget) ∧
      (bfbCalls i evs = [] ∨
        (cfg.fb = .custom ∧ bexecCount i evs = cfg.budget ∧ AllFail (scr.item i).exec cfg.budget ∧ (bfbCalls i evs).length = 1)))
    (Props.C02.batch_item_bounds kind n v sid cfg scr ctx i)

/-- per item of a whole interpreted batch run that was executed and not disturbed by cancellation: exactly `min (k+1) N` attempts,
    fallback iff all `N` failed. Mirrors `Props.C02.batch_item_exact`; its hypothesis `hrun` ("item `i` has events in the trace") is
    about the run's own trace and therefore sits inside the conclusion, as an implication on the interpreted trace. -/
theorem C02_batch_item_exact_for_interpreted_source (kind : CtxKind) (n v sid : Nat) (cfg : BatchCfg) (scr : BatchScript) (ctx : Ctx)
    (i : Nat) (hnc : Flyt.Proofs.Item.NoCancel cfg (scr.item i)) (hS : cfg.execS ≠ .absent) (hb : 1 ≤ cfg.budget)
    (fuel : Nat) (hf : batchFuel scr ≤ fuel) :
    ∃ evs ctx' out, runBatchIR fuel Flyt.Expected.IR.runBatch kind n v sid cfg scr ctx = some (evs, ctx', out) ∧
      (evs.filter (isItemEv i) ≠ [] →
        (∀ k, FirstOk (scr.item i).exec k → bexecCount i evs = min (k + 1) cfg.budget) ∧
        (AllFail (scr.item i).exec cfg.budget → bexecCount i evs = cfg.budget) ∧
        (bfbCalls i evs ≠ [] ↔ (cfg.fb = .custom ∧ AllFail (scr.item i).exec cfg.budget))) :=
  batch_transfer kind n v sid cfg scr ctx fuel hf
    (fun evs _ _ => evs.filter (isItemEv i) ≠ [] →
        (∀ k, FirstOk (scr.item i).exec k → bexecCount i evs = min (k + 1) cfg.budget) ∧
        (AllFail (scr.item i).exec cfg.budget → bexecCount i evs = cfg.budget) ∧
        (bfbCalls i evs ≠ [] ↔ (cfg.fb = .custom ∧ AllFail (scr.item i).exec cfg.budget)))
    (fun hrun => Props.C02.batch_item_exact kind n v sid cfg scr ctx i hrun hnc hS hb)

/-! ### non-vacuity: the scenarios of `Props/C02.lean`, run by the interpreter -/

-- first success at attempt 1 of 3: two attempts; none of the first 3 succeeds: three attempts, then the fallback with the last error
example : ∃ evs ctx' out, runLeafIR 46 Flyt.Expected.IR.Run .canceled 4 0 1 Props.C02.exCfg (Props.C02.exScr 1) .live
      = some (evs, ctx', out) ∧ execCount evs = 2 :=
  ⟨_, _, _, Run_refines_runLeaf_of_le _ _ _ _ _ _ _ 46 (by decide), by decide⟩
example : ∃ evs ctx' out, runLeafIR 46 Flyt.Expected.IR.Run .canceled 4 0 1 Props.C02.exCfg (Props.C02.exScr 7) .live
      = some (evs, ctx', out) ∧ execCount evs = 3 ∧ fbCalls evs = [.fb 4 0 (.tok 7) (.user 102)] :=
  ⟨_, _, _, Run_refines_runLeaf_of_le _ _ _ _ _ _ _ 46 (by decide), by decide⟩
example : runItemIR 33 Flyt.Expected.IR.runExecWithRetries .canceled 2 0 Props.C02.exBatch 1 (newResult (.tok 3))
      (Props.C02.exItem 7) .live =
    some ([.bexec 2 0 1 0 (.tok 3), .bexec 2 0 1 1 (.tok 3), .bexec 2 0 1 2 (.tok 3), .bfb 2 0 1 (.res (.tok 3) none) (.user 102)],
      .live, .slot (newResult (.tok 5))) := by
  rw [runExecWithRetries_refines_runItem_of_le _ _ _ _ _ _ _ _ 33 (by decide)]; decide

/-!
## Carried over / not carried over

Carried over, subject `runLeaf` (`Run_refines_runLeaf_of_le`): `attempts_never_exceed`, `attempts_exact`, `attempts_numbered`,
`fallback_only_after_exhaustion`, `fallback_iff_all_failed`, `outcome_after_retries`, `nonretryable_single_attempt`.
Subject `runItem` (`runExecWithRetries_refines_runItem_of_le`): `item_attempts_never_exceed`, `item_attempts_exact`,
`item_attempts_numbered`, `item_fallback_only_after_exhaustion`, `item_fallback_iff_all_failed`, `item_outcome_after_retries`.
Subject `runBatch` (`runBatch_refines_of_le`): `batch_item_own_loop` (both sides interpreted), `batch_item_bounds`, `batch_item_exact`.

Not carried over:
* `concurrent_item_bounds`, `concurrent_item_exact` — subject is the hand-written LTS `Flyt.Conc` of the worker pool (every schedule).
  The only refinement theorem for `runBatchConcurrent` is for its SERIAL schedule (`Refine/ConcSerial.lean`); for general schedules the
  tie to the source is the per-task theorem of `Refine/Task.lean` plus the LTS, not an equation with a model function. Not restated.
* `c02Visit_bridge`, `c02Visit_flow_bridge`, `c02Bounds_bridge`, `c02Bounds_flow_bridge`, `runSchedule_reachable`, `ex_*` — bridges to the
  driver's executable predicates and example facts, not the property.
* `Props/C02Flow.lean` (a FLOW whose embedded `BaseNode` was given a retry budget) — subject is `runFlowRetried` / `retryLoop` of
  `Model/FlowRetry.lean`. The flow-node world (`flowNodeWorld`) answers `GetMaxRetries()` with 1 (a flow built by `NewFlow`), and no
  refinement theorem has `retryLoop` as its right-hand side. Not restated.
-/

end Flyt.Refine.Source
