import FlytModel.GoIR.Syntax
/-! EXPECTED IR: the committed copy the refinement theorems are about (tools/accept_ir.sh copies Generated/IR.lean here).
    One GoIR term per orchestration function (syntax-directed translation of its body). -/
namespace Flyt.Expected.IR
open Flyt.GoIR
set_option maxRecDepth 4096

def Run : Func := { name := "Run", recv := "", params := ["ctx", "node", "shared"], body :=
B[
  (.ifS B[(.define ["_", "ok"] E[(.assert (.var "node") "*BatchNode")])] (.var "ok") B[
    (.ret E[(.call "runBatch" E[(.var "ctx"), (.var "node"), (.var "shared")])])] B[]),
  (.ifS B[(.define ["batchBuilder", "ok"] E[(.assert (.var "node") "*BatchNodeBuilder")])] (.var "ok") B[
    (.ret E[(.call "runBatch" E[(.var "ctx"), (.sel (.var "batchBuilder") "BatchNode"), (.var "shared")])])] B[]),
  (.ifS B[(.define ["err"] E[(.mcall (.var "ctx") "Err" E[])])] (.bin "!=" (.var "err") (.var "nil")) B[
    (.ret E[(.str ""), (.call "fmt.Errorf" E[(.str "run: context cancelled: %w"), (.var "err")])])] B[]),
  (.define ["prepResult", "err"] E[(.mcall (.var "node") "Prep" E[(.var "ctx"), (.var "shared")])]),
  (.ifS B[] (.bin "!=" (.var "err") (.var "nil")) B[
    (.ret E[(.str ""), (.call "fmt.Errorf" E[(.str "run: prep failed: %w"), (.var "err")])])] B[]),
  (.ifS B[(.define ["err"] E[(.mcall (.var "ctx") "Err" E[])])] (.bin "!=" (.var "err") (.var "nil")) B[
    (.ret E[(.str ""), (.call "fmt.Errorf" E[(.str "run: context cancelled after prep: %w"), (.var "err")])])] B[]),
  (.define ["maxRetries"] E[(.int 1)]),
  (.define ["wait"] E[(.int 0)]),
  (.ifS B[(.define ["retryable", "ok"] E[(.assert (.var "node") "RetryableNode")])] (.var "ok") B[
    (.assign E[(.var "maxRetries")] E[(.mcall (.var "retryable") "GetMaxRetries" E[])]),
    (.assign E[(.var "wait")] E[(.mcall (.var "retryable") "GetWait" E[])])] B[]),
  (.declare "execResult" "any"),
  (.declare "execErr" "error"),
  (.forS B[(.define ["attempt"] E[(.int 0)])] (.bin "<" (.var "attempt") (.var "maxRetries")) B[(.incr "attempt")] B[
    (.ifS B[(.define ["err"] E[(.mcall (.var "ctx") "Err" E[])])] (.bin "!=" (.var "err") (.var "nil")) B[
      (.ret E[(.str ""), (.call "fmt.Errorf" E[(.str "run: context cancelled during retry: %w"), (.var "err")])])] B[]),
    (.ifS B[] (.bin "&&" (.bin ">" (.var "attempt") (.int 0)) (.bin ">" (.var "wait") (.int 0))) B[
      (.selectS (Cases.ofList [
        ((.un "<-" (.call "time.After" E[(.var "wait")])), B[]),
        ((.un "<-" (.mcall (.var "ctx") "Done" E[])), B[
          (.ret E[(.str ""), (.call "fmt.Errorf" E[(.str "run: context cancelled during wait: %w"), (.mcall (.var "ctx") "Err" E[])])])])]))] B[]),
    (.assign E[(.var "execResult"), (.var "execErr")] E[(.mcall (.var "node") "Exec" E[(.var "ctx"), (.var "prepResult")])]),
    (.ifS B[] (.bin "==" (.var "execErr") (.var "nil")) B[
      .brk] B[])]),
  (.ifS B[] (.bin "!=" (.var "execErr") (.var "nil")) B[
    (.ifS B[(.define ["fallback", "ok"] E[(.assert (.var "node") "FallbackNode")])] (.var "ok") B[
      (.assign E[(.var "execResult"), (.var "execErr")] E[(.mcall (.var "fallback") "ExecFallback" E[(.var "prepResult"), (.var "execErr")])])] B[]),
    (.ifS B[] (.bin "!=" (.var "execErr") (.var "nil")) B[
      (.ret E[(.str ""), (.call "fmt.Errorf" E[(.str "run: exec failed after %d retries: %w"), (.var "maxRetries"), (.var "execErr")])])] B[])] B[]),
  (.define ["action", "err"] E[(.mcall (.var "node") "Post" E[(.var "ctx"), (.var "shared"), (.var "prepResult"), (.var "execResult")])]),
  (.ifS B[] (.bin "!=" (.var "err") (.var "nil")) B[
    (.ret E[(.str ""), (.call "fmt.Errorf" E[(.str "run: post failed: %w"), (.var "err")])])] B[]),
  (.ifS B[] (.bin "==" (.var "action") (.str "")) B[
    (.assign E[(.var "action")] E[(.var "DefaultAction")])] B[]),
  (.ret E[(.var "action"), (.var "nil")])] }

def runBatch : Func := { name := "runBatch", recv := "", params := ["ctx", "node", "shared"], body :=
B[
  (.define ["prepResult", "err"] E[(.mcall (.var "node") "Prep" E[(.var "ctx"), (.var "shared")])]),
  (.ifS B[] (.bin "!=" (.var "err") (.var "nil")) B[
    (.ret E[(.str ""), (.call "fmt.Errorf" E[(.str "run: prep failed: %w"), (.var "err")])])] B[]),
  (.declare "items" "[]Result"),
  (.typeSwitch "v" (.var "prepResult") (Cases.ofList [
    ((.lit "types" E[(.var "[]Result")]), B[
      (.assign E[(.var "items")] E[(.var "v")])]),
    ((.lit "types" E[(.var "[]any")]), B[
      (.assign E[(.var "items")] E[(.call "make" E[(.var "[]Result"), (.call "len" E[(.var "v")])])]),
      (.rangeS "i" "item" (.var "v") B[
        (.assign E[(.index (.var "items") (.var "i"))] E[(.call "NewResult" E[(.var "item")])])])]),
    ((.var "default"), B[
      (.define ["slice"] E[(.call "ToSlice" E[(.var "prepResult")])]),
      (.assign E[(.var "items")] E[(.call "make" E[(.var "[]Result"), (.call "len" E[(.var "slice")])])]),
      (.rangeS "i" "item" (.var "slice") B[
        (.assign E[(.index (.var "items") (.var "i"))] E[(.call "NewResult" E[(.var "item")])])])])])),
  (.ifS B[] (.bin "==" (.call "len" E[(.var "items")]) (.int 0)) B[
    (.define ["action", "err"] E[(.mcall (.var "node") "Post" E[(.var "ctx"), (.var "shared"), (.lit "[]Result" E[]), (.lit "[]Result" E[])])]),
    (.ifS B[] (.bin "!=" (.var "err") (.var "nil")) B[
      (.ret E[(.str ""), (.call "fmt.Errorf" E[(.str "run: post failed: %w"), (.var "err")])])] B[]),
    (.ifS B[] (.bin "==" (.var "action") (.str "")) B[
      (.assign E[(.var "action")] E[(.var "DefaultAction")])] B[]),
    (.ret E[(.var "action"), (.var "nil")])] B[]),
  (.declare "concurrency" "int"),
  (.define ["errorHandling"] E[(.str "continue")]),
  (.ifS B[(.define ["baseNode", "ok"] E[(.assert (.var "node") "*BaseNode")])] (.var "ok") B[
    (.assign E[(.var "concurrency")] E[(.mcall (.var "baseNode") "GetBatchConcurrency" E[])]),
    (.assign E[(.var "errorHandling")] E[(.mcall (.var "baseNode") "GetBatchErrorHandling" E[])])] B[(.ifS B[(.define ["customNode", "ok"] E[(.assert (.var "node") "*CustomNode")])] (.var "ok") B[
    (.assign E[(.var "concurrency")] E[(.mcall (.var "customNode") "GetBatchConcurrency" E[])]),
    (.assign E[(.var "errorHandling")] E[(.mcall (.var "customNode") "GetBatchErrorHandling" E[])])] B[(.ifS B[(.define ["batchNode", "ok"] E[(.assert (.var "node") "*BatchNode")])] (.var "ok") B[
    (.assign E[(.var "concurrency")] E[(.mcall (.var "batchNode") "GetBatchConcurrency" E[])]),
    (.assign E[(.var "errorHandling")] E[(.mcall (.var "batchNode") "GetBatchErrorHandling" E[])])] B[(.ifS B[(.define ["batchBuilder", "ok"] E[(.assert (.var "node") "*BatchNodeBuilder")])] (.var "ok") B[
    (.assign E[(.var "concurrency")] E[(.mcall (.var "batchBuilder") "GetBatchConcurrency" E[])]),
    (.assign E[(.var "errorHandling")] E[(.mcall (.var "batchBuilder") "GetBatchErrorHandling" E[])])] B[])])])]),
  (.define ["results"] E[(.call "make" E[(.var "[]Result"), (.call "len" E[(.var "items")])])]),
  (.ifS B[] (.bin ">" (.var "concurrency") (.int 0)) B[
    (.expr (.call "runBatchConcurrent" E[(.var "ctx"), (.var "node"), (.var "items"), (.var "results"), (.var "concurrency"), (.var "errorHandling")]))] B[
    (.expr (.call "runBatchSequential" E[(.var "ctx"), (.var "node"), (.var "items"), (.var "results"), (.var "errorHandling")]))]),
  (.define ["action", "err"] E[(.mcall (.var "node") "Post" E[(.var "ctx"), (.var "shared"), (.var "items"), (.var "results")])]),
  (.ifS B[] (.bin "!=" (.var "err") (.var "nil")) B[
    (.ret E[(.str ""), (.call "fmt.Errorf" E[(.str "run: post failed: %w"), (.var "err")])])] B[]),
  (.ifS B[] (.bin "==" (.var "action") (.str "")) B[
    (.assign E[(.var "action")] E[(.var "DefaultAction")])] B[]),
  (.ret E[(.var "action"), (.var "nil")])] }

def runBatchSequential : Func := { name := "runBatchSequential", recv := "", params := ["ctx", "node", "items", "results", "errorHandling"], body :=
B[
  (.rangeS "i" "item" (.var "items") B[
    (.ifS B[] (.bin "!=" (.mcall (.var "ctx") "Err" E[]) (.var "nil")) B[
      (.assign E[(.index (.var "results") (.var "i"))] E[(.call "NewErrorResult" E[(.call "fmt.Errorf" E[(.str "context cancelled")])])]),
      (.ifS B[] (.bin "==" (.var "errorHandling") (.str "stop")) B[
        (.expr (.call "markUnprocessed" E[(.sliceFrom (.var "results") (.bin "+" (.var "i") (.int 1))), (.str "context cancelled")])),
        .brk] B[]),
      .cont] B[]),
    (.define ["execResult", "err"] E[(.call "runExecWithRetries" E[(.var "ctx"), (.var "node"), (.var "item")])]),
    (.ifS B[] (.bin "!=" (.var "err") (.var "nil")) B[
      (.assign E[(.index (.var "results") (.var "i"))] E[(.call "NewErrorResult" E[(.var "err")])]),
      (.ifS B[] (.bin "==" (.var "errorHandling") (.str "stop")) B[
        (.expr (.call "markUnprocessed" E[(.sliceFrom (.var "results") (.bin "+" (.var "i") (.int 1))), (.str "batch stopped due to error")])),
        .brk] B[])] B[
      (.ifS B[(.define ["r", "ok"] E[(.assert (.var "execResult") "Result")])] (.var "ok") B[
        (.assign E[(.index (.var "results") (.var "i"))] E[(.var "r")])] B[
        (.assign E[(.index (.var "results") (.var "i"))] E[(.call "NewResult" E[(.var "execResult")])])])])])] }

def runBatchConcurrent : Func := { name := "runBatchConcurrent", recv := "", params := ["ctx", "node", "items", "results", "concurrency", "errorHandling"], body :=
B[
  (.define ["pool"] E[(.call "NewWorkerPool" E[(.var "concurrency")])]),
  (.deferS (.mcall (.var "pool") "Close" E[])),
  (.declare "mu" "sync.Mutex"),
  (.define ["shouldStop"] E[(.var "false")]),
  (.rangeS "i" "item" (.var "items") B[
    (.define ["idx"] E[(.var "i")]),
    (.define ["itm"] E[(.var "item")]),
    (.expr (.mcall (.var "pool") "Submit" E[(.funcLit [] B[
        (.expr (.mcall (.var "mu") "Lock" E[])),
        (.ifS B[] (.bin "&&" (.var "shouldStop") (.bin "==" (.var "errorHandling") (.str "stop"))) B[
          (.assign E[(.index (.var "results") (.var "idx"))] E[(.call "NewErrorResult" E[(.call "fmt.Errorf" E[(.str "batch stopped due to error")])])]),
          (.expr (.mcall (.var "mu") "Unlock" E[])),
          (.ret E[])] B[]),
        (.expr (.mcall (.var "mu") "Unlock" E[])),
        (.ifS B[] (.bin "!=" (.mcall (.var "ctx") "Err" E[]) (.var "nil")) B[
          (.assign E[(.index (.var "results") (.var "idx"))] E[(.call "NewErrorResult" E[(.call "fmt.Errorf" E[(.str "context cancelled")])])]),
          (.ret E[])] B[]),
        (.define ["execResult", "err"] E[(.call "runExecWithRetries" E[(.var "ctx"), (.var "node"), (.var "itm")])]),
        (.expr (.mcall (.var "mu") "Lock" E[])),
        (.ifS B[] (.bin "!=" (.var "err") (.var "nil")) B[
          (.assign E[(.index (.var "results") (.var "idx"))] E[(.call "NewErrorResult" E[(.var "err")])]),
          (.ifS B[] (.bin "==" (.var "errorHandling") (.str "stop")) B[
            (.assign E[(.var "shouldStop")] E[(.var "true")])] B[])] B[
          (.ifS B[(.define ["r", "ok"] E[(.assert (.var "execResult") "Result")])] (.var "ok") B[
            (.assign E[(.index (.var "results") (.var "idx"))] E[(.var "r")])] B[
            (.assign E[(.index (.var "results") (.var "idx"))] E[(.call "NewResult" E[(.var "execResult")])])])]),
        (.expr (.mcall (.var "mu") "Unlock" E[]))])]))]),
  (.expr (.mcall (.var "pool") "Wait" E[]))] }

def markUnprocessed : Func := { name := "markUnprocessed", recv := "", params := ["results", "reason"], body :=
B[
  (.rangeS "i" "_" (.var "results") B[
    (.assign E[(.index (.var "results") (.var "i"))] E[(.call "NewErrorResult" E[(.call "fmt.Errorf" E[(.str "%s"), (.var "reason")])])])])] }

def runExecWithRetries : Func := { name := "runExecWithRetries", recv := "", params := ["ctx", "node", "item"], body :=
B[
  (.define ["maxRetries"] E[(.int 1)]),
  (.define ["wait"] E[(.int 0)]),
  (.ifS B[(.define ["retryable", "ok"] E[(.assert (.var "node") "RetryableNode")])] (.var "ok") B[
    (.assign E[(.var "maxRetries")] E[(.mcall (.var "retryable") "GetMaxRetries" E[])]),
    (.assign E[(.var "wait")] E[(.mcall (.var "retryable") "GetWait" E[])])] B[]),
  (.declare "execResult" "any"),
  (.declare "execErr" "error"),
  (.forS B[(.define ["attempt"] E[(.int 0)])] (.bin "<" (.var "attempt") (.var "maxRetries")) B[(.incr "attempt")] B[
    (.ifS B[] (.bin "!=" (.mcall (.var "ctx") "Err" E[]) (.var "nil")) B[
      (.ret E[(.var "nil"), (.call "fmt.Errorf" E[(.str "context cancelled during retry: %w"), (.mcall (.var "ctx") "Err" E[])])])] B[]),
    (.ifS B[] (.bin "&&" (.bin ">" (.var "attempt") (.int 0)) (.bin ">" (.var "wait") (.int 0))) B[
      (.selectS (Cases.ofList [
        ((.un "<-" (.call "time.After" E[(.var "wait")])), B[]),
        ((.un "<-" (.mcall (.var "ctx") "Done" E[])), B[
          (.ret E[(.var "nil"), (.call "fmt.Errorf" E[(.str "context cancelled during wait: %w"), (.mcall (.var "ctx") "Err" E[])])])])]))] B[]),
    (.assign E[(.var "execResult"), (.var "execErr")] E[(.mcall (.var "node") "Exec" E[(.var "ctx"), (.var "item")])]),
    (.ifS B[] (.bin "==" (.var "execErr") (.var "nil")) B[
      .brk] B[])]),
  (.ifS B[] (.bin "!=" (.var "execErr") (.var "nil")) B[
    (.ifS B[(.define ["fallback", "ok"] E[(.assert (.var "node") "FallbackNode")])] (.var "ok") B[
      (.ret E[(.mcall (.var "fallback") "ExecFallback" E[(.var "item"), (.var "execErr")])])] B[]),
    (.ret E[(.var "nil"), (.var "execErr")])] B[]),
  (.ret E[(.var "execResult"), (.var "nil")])] }

def Flow_Run : Func := { name := "Flow.Run", recv := "f", params := ["ctx", "shared"], body :=
B[
  (.define ["_", "err"] E[(.call "Run" E[(.var "ctx"), (.var "f"), (.var "shared")])]),
  (.ret E[(.var "err")])] }

def Flow_Prep : Func := { name := "Flow.Prep", recv := "f", params := ["ctx", "shared"], body :=
B[
  (.ret E[(.var "shared"), (.var "nil")])] }

def Flow_Exec : Func := { name := "Flow.Exec", recv := "f", params := ["ctx", "prepResult"], body :=
B[
  (.define ["shared", "ok"] E[(.assert (.var "prepResult") "*SharedStore")]),
  (.ifS B[] (.un "!" (.var "ok")) B[
    (.ret E[(.var "nil"), (.call "fmt.Errorf" E[(.str "flow: exec failed: invalid prepResult type %T, expected *SharedStore"), (.var "prepResult")])])] B[]),
  (.ifS B[] (.bin "==" (.sel (.var "f") "start") (.var "nil")) B[
    (.ret E[(.var "nil"), (.call "fmt.Errorf" E[(.str "flow: exec failed: no start node configured")])])] B[]),
  (.define ["current"] E[(.sel (.var "f") "start")]),
  (.declare "lastAction" "Action"),
  (.forS B[] (.bin "!=" (.var "current") (.var "nil")) B[] B[
    (.ifS B[(.define ["err"] E[(.mcall (.var "ctx") "Err" E[])])] (.bin "!=" (.var "err") (.var "nil")) B[
      (.ret E[(.var "nil"), (.call "fmt.Errorf" E[(.str "flow: exec cancelled: %w"), (.var "err")])])] B[]),
    (.define ["action", "err"] E[(.call "Run" E[(.var "ctx"), (.var "current"), (.var "shared")])]),
    (.ifS B[] (.bin "!=" (.var "err") (.var "nil")) B[
      (.ret E[(.var "nil"), (.var "err")])] B[]),
    (.assign E[(.var "lastAction")] E[(.var "action")]),
    (.ifS B[(.define ["transitions", "ok"] E[(.index (.sel (.var "f") "transitions") (.var "current"))])] (.var "ok") B[
      (.ifS B[(.define ["next", "ok"] E[(.index (.var "transitions") (.var "action"))])] (.var "ok") B[
        (.assign E[(.var "current")] E[(.var "next")])] B[
        .brk])] B[
      .brk])]),
  (.ret E[(.var "lastAction"), (.var "nil")])] }

def Flow_Post : Func := { name := "Flow.Post", recv := "f", params := ["ctx", "shared", "prepResult", "execResult"], body :=
B[
  (.ifS B[(.define ["action", "ok"] E[(.assert (.var "execResult") "Action")])] (.var "ok") B[
    (.ret E[(.var "action"), (.var "nil")])] B[]),
  (.ret E[(.var "DefaultAction"), (.var "nil")])] }

def Flow_Connect : Func := { name := "Flow.Connect", recv := "f", params := ["from", "action", "to"], body :=
B[
  (.ifS B[] (.bin "==" (.index (.sel (.var "f") "transitions") (.var "from")) (.var "nil")) B[
    (.assign E[(.index (.sel (.var "f") "transitions") (.var "from"))] E[(.call "make" E[(.var "map[Action]Node")])])] B[]),
  (.assign E[(.index (.index (.sel (.var "f") "transitions") (.var "from")) (.var "action"))] E[(.var "to")]),
  (.ret E[(.var "f")])] }

def NewFlow : Func := { name := "NewFlow", recv := "", params := ["start"], body :=
B[
  (.ret E[(.un "&" (.lit "Flow" E[(.bin ":" (.var "BaseNode") (.call "NewBaseNode" E[])), (.bin ":" (.var "start") (.var "start")), (.bin ":" (.var "transitions") (.call "make" E[(.var "map[Node]map[Action]Node")]))]))])] }

def CustomNode_Prep : Func := { name := "CustomNode.Prep", recv := "n", params := ["ctx", "shared"], body :=
B[
  (.ifS B[] (.bin "!=" (.sel (.var "n") "prepFunc") (.var "nil")) B[
    (.define ["result", "err"] E[(.mcall (.var "n") "prepFunc" E[(.var "ctx"), (.var "shared")])]),
    (.ifS B[] (.bin "!=" (.var "err") (.var "nil")) B[
      (.ret E[(.var "nil"), (.var "err")])] B[]),
    (.ret E[(.mcall (.var "result") "Value" E[]), (.var "nil")])] B[]),
  (.ret E[(.mcall (.sel (.var "n") "BaseNode") "Prep" E[(.var "ctx"), (.var "shared")])])] }

def CustomNode_Exec : Func := { name := "CustomNode.Exec", recv := "n", params := ["ctx", "prepResult"], body :=
B[
  (.ifS B[] (.bin "!=" (.sel (.var "n") "execFunc") (.var "nil")) B[
    (.declare "result" "Result"),
    (.declare "err" "error"),
    (.ifS B[(.define ["r", "ok"] E[(.assert (.var "prepResult") "Result")])] (.var "ok") B[
      (.assign E[(.var "result"), (.var "err")] E[(.mcall (.var "n") "execFunc" E[(.var "ctx"), (.var "r")])])] B[
      (.assign E[(.var "result"), (.var "err")] E[(.mcall (.var "n") "execFunc" E[(.var "ctx"), (.call "NewResult" E[(.var "prepResult")])])])]),
    (.ifS B[] (.bin "!=" (.var "err") (.var "nil")) B[
      (.ret E[(.var "nil"), (.var "err")])] B[]),
    (.ifS B[] (.mcall (.var "result") "IsError" E[]) B[
      (.ret E[(.var "result"), (.var "nil")])] B[]),
    (.ret E[(.mcall (.var "result") "Value" E[]), (.var "nil")])] B[]),
  (.ret E[(.mcall (.sel (.var "n") "BaseNode") "Exec" E[(.var "ctx"), (.var "prepResult")])])] }

def CustomNode_Post : Func := { name := "CustomNode.Post", recv := "n", params := ["ctx", "shared", "prepResult", "execResult"], body :=
B[
  (.ifS B[] (.bin "!=" (.sel (.var "n") "postFunc") (.var "nil")) B[
    (.define ["execRes"] E[(.call "NewResult" E[(.var "execResult")])]),
    (.ifS B[(.define ["r", "ok"] E[(.assert (.var "execResult") "Result")])] (.bin "&&" (.var "ok") (.mcall (.var "r") "IsError" E[])) B[
      (.assign E[(.var "execRes")] E[(.var "r")])] B[]),
    (.ret E[(.mcall (.var "n") "postFunc" E[(.var "ctx"), (.var "shared"), (.call "NewResult" E[(.var "prepResult")]), (.var "execRes")])])] B[]),
  (.ret E[(.mcall (.sel (.var "n") "BaseNode") "Post" E[(.var "ctx"), (.var "shared"), (.var "prepResult"), (.var "execResult")])])] }

def CustomNode_ExecFallback : Func := { name := "CustomNode.ExecFallback", recv := "n", params := ["prepResult", "err"], body :=
B[
  (.ifS B[] (.bin "!=" (.sel (.var "n") "execFallbackFunc") (.var "nil")) B[
    (.ret E[(.mcall (.var "n") "execFallbackFunc" E[(.var "prepResult"), (.var "err")])])] B[]),
  (.ret E[(.mcall (.sel (.var "n") "BaseNode") "ExecFallback" E[(.var "prepResult"), (.var "err")])])] }

def BaseNode_Prep : Func := { name := "BaseNode.Prep", recv := "n", params := ["ctx", "shared"], body :=
B[
  (.ret E[(.var "nil"), (.var "nil")])] }

def BaseNode_Exec : Func := { name := "BaseNode.Exec", recv := "n", params := ["ctx", "prepResult"], body :=
B[
  (.ret E[(.var "nil"), (.var "nil")])] }

def BaseNode_Post : Func := { name := "BaseNode.Post", recv := "n", params := ["ctx", "shared", "prepResult", "execResult"], body :=
B[
  (.ret E[(.var "DefaultAction"), (.var "nil")])] }

def BaseNode_ExecFallback : Func := { name := "BaseNode.ExecFallback", recv := "n", params := ["prepResult", "err"], body :=
B[
  (.ret E[(.var "nil"), (.var "err")])] }

def BaseNode_GetMaxRetries : Func := { name := "BaseNode.GetMaxRetries", recv := "n", params := [], body :=
B[
  (.expr (.mcall (.sel (.var "n") "mu") "RLock" E[])),
  (.deferS (.mcall (.sel (.var "n") "mu") "RUnlock" E[])),
  (.ret E[(.sel (.var "n") "maxRetries")])] }

def BaseNode_GetWait : Func := { name := "BaseNode.GetWait", recv := "n", params := [], body :=
B[
  (.expr (.mcall (.sel (.var "n") "mu") "RLock" E[])),
  (.deferS (.mcall (.sel (.var "n") "mu") "RUnlock" E[])),
  (.ret E[(.sel (.var "n") "wait")])] }

def BaseNode_GetBatchConcurrency : Func := { name := "BaseNode.GetBatchConcurrency", recv := "n", params := [], body :=
B[
  (.expr (.mcall (.sel (.var "n") "mu") "RLock" E[])),
  (.deferS (.mcall (.sel (.var "n") "mu") "RUnlock" E[])),
  (.ret E[(.sel (.var "n") "batchConcurrency")])] }

def BaseNode_GetBatchErrorHandling : Func := { name := "BaseNode.GetBatchErrorHandling", recv := "n", params := [], body :=
B[
  (.expr (.mcall (.sel (.var "n") "mu") "RLock" E[])),
  (.deferS (.mcall (.sel (.var "n") "mu") "RUnlock" E[])),
  (.ifS B[] (.bin "==" (.sel (.var "n") "batchErrorHandling") (.str "")) B[
    (.ret E[(.str "continue")])] B[]),
  (.ret E[(.sel (.var "n") "batchErrorHandling")])] }

def BatchNode_Prep : Func := { name := "BatchNode.Prep", recv := "n", params := ["ctx", "shared"], body :=
B[
  (.ifS B[] (.bin "!=" (.sel (.var "n") "batchPrepFunc") (.var "nil")) B[
    (.ret E[(.mcall (.var "n") "batchPrepFunc" E[(.var "ctx"), (.var "shared")])])] B[]),
  (.ret E[(.mcall (.sel (.var "n") "CustomNode") "Prep" E[(.var "ctx"), (.var "shared")])])] }

def BatchNode_Post : Func := { name := "BatchNode.Post", recv := "n", params := ["ctx", "shared", "prepResult", "execResult"], body :=
B[
  (.ifS B[] (.bin "!=" (.sel (.var "n") "batchPostFunc") (.var "nil")) B[
    (.define ["prep"] E[(.assert (.var "prepResult") "[]Result")]),
    (.define ["exec"] E[(.assert (.var "execResult") "[]Result")]),
    (.ret E[(.mcall (.var "n") "batchPostFunc" E[(.var "ctx"), (.var "shared"), (.var "prep"), (.var "exec")])])] B[]),
  (.ret E[(.var "DefaultAction"), (.var "nil")])] }

def BatchNodeBuilder_Prep : Func := { name := "BatchNodeBuilder.Prep", recv := "b", params := ["ctx", "shared"], body :=
B[
  (.ret E[(.mcall (.sel (.var "b") "BatchNode") "Prep" E[(.var "ctx"), (.var "shared")])])] }

def BatchNodeBuilder_Exec : Func := { name := "BatchNodeBuilder.Exec", recv := "b", params := ["ctx", "prepResult"], body :=
B[
  (.ret E[(.mcall (.sel (.var "b") "BatchNode") "Exec" E[(.var "ctx"), (.var "prepResult")])])] }

def BatchNodeBuilder_Post : Func := { name := "BatchNodeBuilder.Post", recv := "b", params := ["ctx", "shared", "prepResult", "execResult"], body :=
B[
  (.ret E[(.mcall (.sel (.var "b") "BatchNode") "Post" E[(.var "ctx"), (.var "shared"), (.var "prepResult"), (.var "execResult")])])] }

def NewWorkerPool : Func := { name := "NewWorkerPool", recv := "", params := ["workers"], body :=
B[
  (.ifS B[] (.bin "<=" (.var "workers") (.int 0)) B[
    (.assign E[(.var "workers")] E[(.int 1)])] B[]),
  (.define ["p"] E[(.un "&" (.lit "WorkerPool" E[(.bin ":" (.var "workers") (.var "workers")), (.bin ":" (.var "tasks") (.call "make" E[(.var "chan func()"), (.bin "*" (.var "workers") (.int 2))])), (.bin ":" (.var "done") (.call "make" E[(.var "chan struct{}")]))]))]),
  (.forS B[(.define ["i"] E[(.int 0)])] (.bin "<" (.var "i") (.var "workers")) B[(.incr "i")] B[
    (.goS (.mcall (.var "p") "worker" E[]))]),
  (.ret E[(.var "p")])] }

def WorkerPool_worker : Func := { name := "WorkerPool.worker", recv := "p", params := [], body :=
B[
  (.forS B[] (.var "true") B[] B[
    (.selectS (Cases.ofList [
      ((.bin ":=" (.lit "names" E[(.var "task"), (.var "ok")]) (.un "<-" (.sel (.var "p") "tasks"))), B[
        (.ifS B[] (.un "!" (.var "ok")) B[
          (.ret E[])] B[]),
        (.expr (.call "task" E[]))]),
      ((.un "<-" (.sel (.var "p") "done")), B[
        (.ret E[])])]))])] }

def WorkerPool_Submit : Func := { name := "WorkerPool.Submit", recv := "p", params := ["task"], body :=
B[
  (.expr (.mcall (.sel (.var "p") "wg") "Add" E[(.int 1)])),
  (.send (.sel (.var "p") "tasks") (.funcLit [] B[
        (.deferS (.mcall (.sel (.var "p") "wg") "Done" E[])),
        (.expr (.call "task" E[]))]))] }

def WorkerPool_Wait : Func := { name := "WorkerPool.Wait", recv := "p", params := [], body :=
B[
  (.expr (.mcall (.sel (.var "p") "wg") "Wait" E[]))] }

def WorkerPool_Close : Func := { name := "WorkerPool.Close", recv := "p", params := [], body :=
B[
  (.expr (.call "close" E[(.sel (.var "p") "done")])),
  (.expr (.call "close" E[(.sel (.var "p") "tasks")]))] }

def NewResult : Func := { name := "NewResult", recv := "", params := ["v"], body :=
B[
  (.ret E[(.lit "Result" E[(.bin ":" (.var "value") (.var "v"))])])] }

def NewErrorResult : Func := { name := "NewErrorResult", recv := "", params := ["err"], body :=
B[
  (.ret E[(.lit "Result" E[(.bin ":" (.var "err") (.var "err"))])])] }

def Result_IsError : Func := { name := "Result.IsError", recv := "r", params := [], body :=
B[
  (.ret E[(.bin "!=" (.sel (.var "r") "err") (.var "nil"))])] }

def Result_Value : Func := { name := "Result.Value", recv := "r", params := [], body :=
B[
  (.ifS B[] (.bin "!=" (.sel (.var "r") "err") (.var "nil")) B[
    (.ret E[(.var "nil")])] B[]),
  (.ret E[(.sel (.var "r") "value")])] }

def Result_Error : Func := { name := "Result.Error", recv := "r", params := [], body :=
B[
  (.ret E[(.sel (.var "r") "err")])] }

def all : List Func := [Run, runBatch, runBatchSequential, runBatchConcurrent, markUnprocessed, runExecWithRetries, Flow_Run, Flow_Prep, Flow_Exec, Flow_Post, Flow_Connect, NewFlow, CustomNode_Prep, CustomNode_Exec, CustomNode_Post, CustomNode_ExecFallback, BaseNode_Prep, BaseNode_Exec, BaseNode_Post, BaseNode_ExecFallback, BaseNode_GetMaxRetries, BaseNode_GetWait, BaseNode_GetBatchConcurrency, BaseNode_GetBatchErrorHandling, BatchNode_Prep, BatchNode_Post, BatchNodeBuilder_Prep, BatchNodeBuilder_Exec, BatchNodeBuilder_Post, NewWorkerPool, WorkerPool_worker, WorkerPool_Submit, WorkerPool_Wait, WorkerPool_Close, NewResult, NewErrorResult, Result_IsError, Result_Value, Result_Error]

end Flyt.Expected.IR
