import FlytModel.GoIR.Syntax
/-! EXPECTED IR: the committed copy the refinement theorems are about (tools/accept_ir.sh copies Generated/IR.lean here).
    One GoIR term per function of the package (syntax-directed translation of its body). -/
namespace Flyt.Expected.IR
open Flyt.GoIR
set_option maxRecDepth 8192

def As : Func := { name := "As", recv := "", params := ["r"], body :=
B[
  (.declare "zero" "T"),
  (.ifS B[] (.bin "==" (.sel (.var "r") "value") (.var "nil")) B[
    (.ret E[(.var "zero"), (.var "false")])] B[]),
  (.define ["typed", "ok"] E[(.assert (.sel (.var "r") "value") "T")]),
  (.ret E[(.var "typed"), (.var "ok")])] }

def BaseNode_Exec : Func := { name := "BaseNode.Exec", recv := "n", params := ["ctx", "prepResult"], body :=
B[
  (.ret E[(.var "nil"), (.var "nil")])] }

def BaseNode_ExecFallback : Func := { name := "BaseNode.ExecFallback", recv := "n", params := ["prepResult", "err"], body :=
B[
  (.ret E[(.var "nil"), (.var "err")])] }

def BaseNode_GetBatchConcurrency : Func := { name := "BaseNode.GetBatchConcurrency", recv := "n", params := [], body :=
B[
  (.expr (.mcall (.sel (.var "n") "mu") "RLock" E[])),
  (.deferS (.mcall (.sel (.var "n") "mu") "RUnlock" E[])),
  (.ret E[(.sel (.var "n") "batchConcurrency")])] }

def BaseNode_GetBatchErrorHandling : Func := { name := "BaseNode.GetBatchErrorHandling", recv := "n", params := [], body :=
B[
  (.expr (.mcall (.sel (.var "n") "mu") "RLock" E[])),
  (.deferS (.mcall (.sel (.var "n") "mu") "RUnlock" E[])),
  (.ifS B[] (.bin "==" (.sel (.var "n") "batchErrorHandling") (.str "")) B[
    (.ret E[(.str "continue")])] B[]),
  (.ret E[(.sel (.var "n") "batchErrorHandling")])] }

def BaseNode_GetMaxRetries : Func := { name := "BaseNode.GetMaxRetries", recv := "n", params := [], body :=
B[
  (.expr (.mcall (.sel (.var "n") "mu") "RLock" E[])),
  (.deferS (.mcall (.sel (.var "n") "mu") "RUnlock" E[])),
  (.ret E[(.sel (.var "n") "maxRetries")])] }

def BaseNode_GetWait : Func := { name := "BaseNode.GetWait", recv := "n", params := [], body :=
B[
  (.expr (.mcall (.sel (.var "n") "mu") "RLock" E[])),
  (.deferS (.mcall (.sel (.var "n") "mu") "RUnlock" E[])),
  (.ret E[(.sel (.var "n") "wait")])] }

def BaseNode_Post : Func := { name := "BaseNode.Post", recv := "n", params := ["ctx", "shared", "prepResult", "execResult"], body :=
B[
  (.ret E[(.var "DefaultAction"), (.var "nil")])] }

def BaseNode_Prep : Func := { name := "BaseNode.Prep", recv := "n", params := ["ctx", "shared"], body :=
B[
  (.ret E[(.var "nil"), (.var "nil")])] }

def BatchError_Error : Func := { name := "BatchError.Error", recv := "e", params := [], body :=
B[
  (.ifS B[] (.bin "==" (.call "len" E[(.sel (.var "e") "Errors")]) (.int 0)) B[
    (.ret E[(.str "batch: no errors recorded")])] B[]),
  (.ifS B[] (.bin "==" (.call "len" E[(.sel (.var "e") "Errors")]) (.int 1)) B[
    (.ret E[(.call "fmt.Sprintf" E[(.str "batch: %v"), (.index (.sel (.var "e") "Errors") (.int 0))])])] B[]),
  (.ret E[(.call "fmt.Sprintf" E[(.str "batch: %d errors occurred, first: %v"), (.call "len" E[(.sel (.var "e") "Errors")]), (.index (.sel (.var "e") "Errors") (.int 0))])])] }

def BatchNode_Post : Func := { name := "BatchNode.Post", recv := "n", params := ["ctx", "shared", "prepResult", "execResult"], body :=
B[
  (.ifS B[] (.bin "!=" (.sel (.var "n") "batchPostFunc") (.var "nil")) B[
    (.define ["prep"] E[(.assert (.var "prepResult") "[]Result")]),
    (.define ["exec"] E[(.assert (.var "execResult") "[]Result")]),
    (.ret E[(.mcall (.var "n") "batchPostFunc" E[(.var "ctx"), (.var "shared"), (.var "prep"), (.var "exec")])])] B[]),
  (.ret E[(.var "DefaultAction"), (.var "nil")])] }

def BatchNode_Prep : Func := { name := "BatchNode.Prep", recv := "n", params := ["ctx", "shared"], body :=
B[
  (.ifS B[] (.bin "!=" (.sel (.var "n") "batchPrepFunc") (.var "nil")) B[
    (.ret E[(.mcall (.var "n") "batchPrepFunc" E[(.var "ctx"), (.var "shared")])])] B[]),
  (.ret E[(.mcall (.sel (.var "n") "CustomNode") "Prep" E[(.var "ctx"), (.var "shared")])])] }

def BatchNodeBuilder_Exec : Func := { name := "BatchNodeBuilder.Exec", recv := "b", params := ["ctx", "prepResult"], body :=
B[
  (.ret E[(.mcall (.sel (.var "b") "BatchNode") "Exec" E[(.var "ctx"), (.var "prepResult")])])] }

def BatchNodeBuilder_Post : Func := { name := "BatchNodeBuilder.Post", recv := "b", params := ["ctx", "shared", "prepResult", "execResult"], body :=
B[
  (.ret E[(.mcall (.sel (.var "b") "BatchNode") "Post" E[(.var "ctx"), (.var "shared"), (.var "prepResult"), (.var "execResult")])])] }

def BatchNodeBuilder_Prep : Func := { name := "BatchNodeBuilder.Prep", recv := "b", params := ["ctx", "shared"], body :=
B[
  (.ret E[(.mcall (.sel (.var "b") "BatchNode") "Prep" E[(.var "ctx"), (.var "shared")])])] }

def BatchNodeBuilder_WithBatchConcurrency : Func := { name := "BatchNodeBuilder.WithBatchConcurrency", recv := "b", params := ["n"], body :=
B[
  (.assign E[(.sel (.var "b") "batchConcurrency")] E[(.var "n")]),
  (.ret E[(.var "b")])] }

def BatchNodeBuilder_WithBatchErrorHandling : Func := { name := "BatchNodeBuilder.WithBatchErrorHandling", recv := "b", params := ["continueOnError"], body :=
B[
  (.ifS B[] (.var "continueOnError") B[
    (.assign E[(.sel (.var "b") "batchErrorHandling")] E[(.str "continue")])] B[
    (.assign E[(.sel (.var "b") "batchErrorHandling")] E[(.str "stop")])]),
  (.ret E[(.var "b")])] }

def BatchNodeBuilder_WithExecFunc : Func := { name := "BatchNodeBuilder.WithExecFunc", recv := "b", params := ["fn"], body :=
B[
  (.assign E[(.sel (.var "b") "execFunc")] E[(.var "fn")]),
  (.ret E[(.var "b")])] }

def BatchNodeBuilder_WithExecFuncAny : Func := { name := "BatchNodeBuilder.WithExecFuncAny", recv := "b", params := ["fn"], body :=
B[
  (.assign E[(.sel (.var "b") "execFunc")] E[(.funcLit ["ctx", "prepResult"] B[
        (.define ["val", "err"] E[(.call "fn" E[(.var "ctx"), (.mcall (.var "prepResult") "Value" E[])])]),
        (.ifS B[] (.bin "!=" (.var "err") (.var "nil")) B[
          (.ret E[(.lit "Result" E[]), (.var "err")])] B[]),
        (.ret E[(.call "NewResult" E[(.var "val")]), (.var "nil")])])]),
  (.ret E[(.var "b")])] }

def BatchNodeBuilder_WithMaxRetries : Func := { name := "BatchNodeBuilder.WithMaxRetries", recv := "b", params := ["retries"], body :=
B[
  (.expr (.mcall (.call "WithMaxRetries" E[(.var "retries")]) "()" E[(.sel (.var "b") "BaseNode")])),
  (.ret E[(.var "b")])] }

def BatchNodeBuilder_WithPostFunc : Func := { name := "BatchNodeBuilder.WithPostFunc", recv := "b", params := ["fn"], body :=
B[
  (.assign E[(.sel (.var "b") "batchPostFunc")] E[(.var "fn")]),
  (.ret E[(.var "b")])] }

def BatchNodeBuilder_WithPrepFunc : Func := { name := "BatchNodeBuilder.WithPrepFunc", recv := "b", params := ["fn"], body :=
B[
  (.assign E[(.sel (.var "b") "batchPrepFunc")] E[(.var "fn")]),
  (.ret E[(.var "b")])] }

def BatchNodeBuilder_WithWait : Func := { name := "BatchNodeBuilder.WithWait", recv := "b", params := ["wait"], body :=
B[
  (.expr (.mcall (.call "WithWait" E[(.var "wait")]) "()" E[(.sel (.var "b") "BaseNode")])),
  (.ret E[(.var "b")])] }

def CustomNode_Exec : Func := { name := "CustomNode.Exec", recv := "n", params := ["ctx", "prepResult"], body :=
B[
  (.ifS B[] (.bin "!=" (.sel (.var "n") "execFunc") (.var "nil")) B[
    (.declare "result" "Result"),
    (.declare "err" "error"),
    (.ifS B[(.define ["r", "ok"] E[(.assert (.var "prepResult") "Result")])] (.var "ok") B[
      (.assign E[(.var "result"), (.var "err")] E[(.mcall (.var "n") "execFunc" E[(.var "ctx"), (.var "r")])])] B[
      (.assign E[(.var "result"), (.var "err")] E[(.mcall (.var "n") "execFunc" E[(.var "ctx"), (.call "NewResult" E[(.var "prepResult")])])])]),
    (.ifS B[] (.bin "!=" (.var "err") (.var "nil")) B[
      (.ret E[(.var "nil"), (.var "err")])] B[]),
    (.ifS B[] (.mcall (.var "result") "IsError" E[]) B[
      (.ret E[(.var "result"), (.var "nil")])] B[]),
    (.ret E[(.mcall (.var "result") "Value" E[]), (.var "nil")])] B[]),
  (.ret E[(.mcall (.sel (.var "n") "BaseNode") "Exec" E[(.var "ctx"), (.var "prepResult")])])] }

def CustomNode_ExecFallback : Func := { name := "CustomNode.ExecFallback", recv := "n", params := ["prepResult", "err"], body :=
B[
  (.ifS B[] (.bin "!=" (.sel (.var "n") "execFallbackFunc") (.var "nil")) B[
    (.ret E[(.mcall (.var "n") "execFallbackFunc" E[(.var "prepResult"), (.var "err")])])] B[]),
  (.ret E[(.mcall (.sel (.var "n") "BaseNode") "ExecFallback" E[(.var "prepResult"), (.var "err")])])] }

def CustomNode_Post : Func := { name := "CustomNode.Post", recv := "n", params := ["ctx", "shared", "prepResult", "execResult"], body :=
B[
  (.ifS B[] (.bin "!=" (.sel (.var "n") "postFunc") (.var "nil")) B[
    (.define ["execRes"] E[(.call "NewResult" E[(.var "execResult")])]),
    (.ifS B[(.define ["r", "ok"] E[(.assert (.var "execResult") "Result")])] (.bin "&&" (.var "ok") (.mcall (.var "r") "IsError" E[])) B[
      (.assign E[(.var "execRes")] E[(.var "r")])] B[]),
    (.ret E[(.mcall (.var "n") "postFunc" E[(.var "ctx"), (.var "shared"), (.call "NewResult" E[(.var "prepResult")]), (.var "execRes")])])] B[]),
  (.ret E[(.mcall (.sel (.var "n") "BaseNode") "Post" E[(.var "ctx"), (.var "shared"), (.var "prepResult"), (.var "execResult")])])] }

def CustomNode_Prep : Func := { name := "CustomNode.Prep", recv := "n", params := ["ctx", "shared"], body :=
B[
  (.ifS B[] (.bin "!=" (.sel (.var "n") "prepFunc") (.var "nil")) B[
    (.define ["result", "err"] E[(.mcall (.var "n") "prepFunc" E[(.var "ctx"), (.var "shared")])]),
    (.ifS B[] (.bin "!=" (.var "err") (.var "nil")) B[
      (.ret E[(.var "nil"), (.var "err")])] B[]),
    (.ret E[(.mcall (.var "result") "Value" E[]), (.var "nil")])] B[]),
  (.ret E[(.mcall (.sel (.var "n") "BaseNode") "Prep" E[(.var "ctx"), (.var "shared")])])] }

def Flow_Connect : Func := { name := "Flow.Connect", recv := "f", params := ["from", "action", "to"], body :=
B[
  (.ifS B[] (.bin "==" (.index (.sel (.var "f") "transitions") (.var "from")) (.var "nil")) B[
    (.assign E[(.index (.sel (.var "f") "transitions") (.var "from"))] E[(.call "make" E[(.var "map[Action]Node")])])] B[]),
  (.assign E[(.index (.index (.sel (.var "f") "transitions") (.var "from")) (.var "action"))] E[(.var "to")]),
  (.ret E[(.var "f")])] }

def Flow_Exec : Func := { name := "Flow.Exec", recv := "f", params := ["ctx", "prepResult"], body :=
B[
  (.define ["shared", "ok"] E[(.assert (.var "prepResult") "*SharedStore")]),
  (.ifS B[] (.un "!" (.var "ok")) B[
    (.ret E[(.var "nil"), (.call "fmt.Errorf" E[(.str "flow: exec failed: invalid prepResult type %T, expected *SharedStore"), (.var "prepResult")])])] B[]),
  (.ifS B[] (.bin "==" (.sel (.var "f") "start") (.var "nil")) B[
    (.ret E[(.var "nil"), (.call "fmt.Errorf" E[(.str "flow: exec failed: no start node configured")])])] B[]),
  (.define ["current"] E[(.sel (.var "f") "start")]),
  (.declare "lastAction" "Action"),
  (.forS B[] (.bin "!=" (.var "current") (.var "nil")) B[] B[
    (.ifS B[(.define ["err"] E[(.mcall (.var "ctx") "Err" E[])])] (.bin "!=" (.var "err") (.var "nil")) B[
      (.ret E[(.var "nil"), (.call "fmt.Errorf" E[(.str "flow: exec cancelled: %w"), (.var "err")])])] B[]),
    (.define ["action", "err"] E[(.call "Run" E[(.var "ctx"), (.var "current"), (.var "shared")])]),
    (.ifS B[] (.bin "!=" (.var "err") (.var "nil")) B[
      (.ret E[(.var "nil"), (.var "err")])] B[]),
    (.assign E[(.var "lastAction")] E[(.var "action")]),
    (.ifS B[(.define ["transitions", "ok"] E[(.index (.sel (.var "f") "transitions") (.var "current"))])] (.var "ok") B[
      (.ifS B[(.define ["next", "ok"] E[(.index (.var "transitions") (.var "action"))])] (.var "ok") B[
        (.assign E[(.var "current")] E[(.var "next")])] B[
        .brk])] B[
      .brk])]),
  (.ret E[(.var "lastAction"), (.var "nil")])] }

def Flow_Post : Func := { name := "Flow.Post", recv := "f", params := ["ctx", "shared", "prepResult", "execResult"], body :=
B[
  (.ifS B[(.define ["action", "ok"] E[(.assert (.var "execResult") "Action")])] (.var "ok") B[
    (.ret E[(.var "action"), (.var "nil")])] B[]),
  (.ret E[(.var "DefaultAction"), (.var "nil")])] }

def Flow_Prep : Func := { name := "Flow.Prep", recv := "f", params := ["ctx", "shared"], body :=
B[
  (.ret E[(.var "shared"), (.var "nil")])] }

def Flow_Run : Func := { name := "Flow.Run", recv := "f", params := ["ctx", "shared"], body :=
B[
  (.define ["_", "err"] E[(.call "Run" E[(.var "ctx"), (.var "f"), (.var "shared")])]),
  (.ret E[(.var "err")])] }

def MustAs : Func := { name := "MustAs", recv := "", params := ["r"], body :=
B[
  (.define ["typed", "ok"] E[(.call "As[T]" E[(.var "r")])]),
  (.ifS B[] (.un "!" (.var "ok")) B[
    (.expr (.call "panic" E[(.call "fmt.Sprintf" E[(.str "Result.MustAs: value is not of type %T"), (.un "*" (.call "new" E[(.var "T")]))])]))] B[]),
  (.ret E[(.var "typed")])] }

def NewBaseNode : Func := { name := "NewBaseNode", recv := "", params := ["opts"], body :=
B[
  (.define ["n"] E[(.un "&" (.lit "BaseNode" E[(.bin ":" (.var "maxRetries") (.int 1)), (.bin ":" (.var "wait") (.int 0))]))]),
  (.rangeS "_" "opt" (.var "opts") B[
    (.expr (.call "opt" E[(.var "n")]))]),
  (.ret E[(.var "n")])] }

def NewBatchNode : Func := { name := "NewBatchNode", recv := "", params := ["opts"], body :=
B[
  (.define ["customNode"] E[(.un "&" (.lit "CustomNode" E[(.bin ":" (.var "BaseNode") (.call "NewBaseNode" E[]))]))]),
  (.declare "baseOpts" "[]NodeOption"),
  (.rangeS "_" "opt" (.var "opts") B[
    (.typeSwitch "o" (.var "opt") (Cases.ofList [
      ((.lit "types" E[(.var "NodeOption")]), B[
        (.assign E[(.var "baseOpts")] E[(.call "append" E[(.var "baseOpts"), (.var "o")])])]),
      ((.lit "types" E[(.var "func(*BaseNode)")]), B[
        (.assign E[(.var "baseOpts")] E[(.call "append" E[(.var "baseOpts"), (.conv "NodeOption" (.var "o"))])])])]))]),
  (.rangeS "_" "opt" (.var "baseOpts") B[
    (.expr (.call "opt" E[(.sel (.var "customNode") "BaseNode")]))]),
  (.ret E[(.un "&" (.lit "BatchNodeBuilder" E[(.bin ":" (.var "BatchNode") (.un "&" (.lit "BatchNode" E[(.bin ":" (.var "CustomNode") (.var "customNode"))])))]))])] }

def NewErrorResult : Func := { name := "NewErrorResult", recv := "", params := ["err"], body :=
B[
  (.ret E[(.lit "Result" E[(.bin ":" (.var "err") (.var "err"))])])] }

def NewFlow : Func := { name := "NewFlow", recv := "", params := ["start"], body :=
B[
  (.ret E[(.un "&" (.lit "Flow" E[(.bin ":" (.var "BaseNode") (.call "NewBaseNode" E[])), (.bin ":" (.var "start") (.var "start")), (.bin ":" (.var "transitions") (.call "make" E[(.var "map[Node]map[Action]Node")]))]))])] }

def NewNode : Func := { name := "NewNode", recv := "", params := ["opts"], body :=
B[
  (.define ["node"] E[(.un "&" (.lit "CustomNode" E[(.bin ":" (.var "BaseNode") (.call "NewBaseNode" E[]))]))]),
  (.declare "customOpts" "[]CustomNodeOption"),
  (.declare "baseOpts" "[]NodeOption"),
  (.rangeS "_" "opt" (.var "opts") B[
    (.typeSwitch "o" (.var "opt") (Cases.ofList [
      ((.lit "types" E[(.var "CustomNodeOption")]), B[
        (.assign E[(.var "customOpts")] E[(.call "append" E[(.var "customOpts"), (.var "o")])])]),
      ((.lit "types" E[(.var "NodeOption")]), B[
        (.assign E[(.var "baseOpts")] E[(.call "append" E[(.var "baseOpts"), (.var "o")])])]),
      ((.lit "types" E[(.var "func(*BaseNode)")]), B[
        (.assign E[(.var "baseOpts")] E[(.call "append" E[(.var "baseOpts"), (.conv "NodeOption" (.var "o"))])])]),
      ((.var "default"), B[])]))]),
  (.rangeS "_" "opt" (.var "baseOpts") B[
    (.expr (.call "opt" E[(.sel (.var "node") "BaseNode")]))]),
  (.rangeS "_" "opt" (.var "customOpts") B[
    (.expr (.mcall (.var "opt") "apply" E[(.var "node")]))]),
  (.ret E[(.un "&" (.lit "NodeBuilder" E[(.bin ":" (.var "CustomNode") (.var "node"))]))])] }

def NewResult : Func := { name := "NewResult", recv := "", params := ["v"], body :=
B[
  (.ret E[(.lit "Result" E[(.bin ":" (.var "value") (.var "v"))])])] }

def NewSharedStore : Func := { name := "NewSharedStore", recv := "", params := [], body :=
B[
  (.ret E[(.un "&" (.lit "SharedStore" E[(.bin ":" (.var "data") (.call "make" E[(.var "map[string]any")]))]))])] }

def NewWorkerPool : Func := { name := "NewWorkerPool", recv := "", params := ["workers"], body :=
B[
  (.ifS B[] (.bin "<=" (.var "workers") (.int 0)) B[
    (.assign E[(.var "workers")] E[(.int 1)])] B[]),
  (.define ["p"] E[(.un "&" (.lit "WorkerPool" E[(.bin ":" (.var "workers") (.var "workers")), (.bin ":" (.var "tasks") (.call "make" E[(.var "chan func()"), (.bin "*" (.var "workers") (.int 2))])), (.bin ":" (.var "done") (.call "make" E[(.var "chan struct{}")]))]))]),
  (.forS B[(.define ["i"] E[(.int 0)])] (.bin "<" (.var "i") (.var "workers")) B[(.incr "i")] B[
    (.goS (.mcall (.var "p") "worker" E[]))]),
  (.ret E[(.var "p")])] }

def NodeBuilder_Exec : Func := { name := "NodeBuilder.Exec", recv := "b", params := ["ctx", "prepResult"], body :=
B[
  (.ret E[(.mcall (.sel (.var "b") "CustomNode") "Exec" E[(.var "ctx"), (.var "prepResult")])])] }

def NodeBuilder_ExecFallback : Func := { name := "NodeBuilder.ExecFallback", recv := "b", params := ["prepResult", "err"], body :=
B[
  (.ret E[(.mcall (.sel (.var "b") "CustomNode") "ExecFallback" E[(.var "prepResult"), (.var "err")])])] }

def NodeBuilder_GetMaxRetries : Func := { name := "NodeBuilder.GetMaxRetries", recv := "b", params := [], body :=
B[
  (.ret E[(.mcall (.sel (.var "b") "CustomNode") "GetMaxRetries" E[])])] }

def NodeBuilder_GetWait : Func := { name := "NodeBuilder.GetWait", recv := "b", params := [], body :=
B[
  (.ret E[(.mcall (.sel (.var "b") "CustomNode") "GetWait" E[])])] }

def NodeBuilder_Post : Func := { name := "NodeBuilder.Post", recv := "b", params := ["ctx", "shared", "prepResult", "execResult"], body :=
B[
  (.ret E[(.mcall (.sel (.var "b") "CustomNode") "Post" E[(.var "ctx"), (.var "shared"), (.var "prepResult"), (.var "execResult")])])] }

def NodeBuilder_Prep : Func := { name := "NodeBuilder.Prep", recv := "b", params := ["ctx", "shared"], body :=
B[
  (.ret E[(.mcall (.sel (.var "b") "CustomNode") "Prep" E[(.var "ctx"), (.var "shared")])])] }

def NodeBuilder_WithBatchConcurrency : Func := { name := "NodeBuilder.WithBatchConcurrency", recv := "b", params := ["n"], body :=
B[
  (.assign E[(.sel (.var "b") "batchConcurrency")] E[(.var "n")]),
  (.ret E[(.var "b")])] }

def NodeBuilder_WithBatchErrorHandling : Func := { name := "NodeBuilder.WithBatchErrorHandling", recv := "b", params := ["continueOnError"], body :=
B[
  (.ifS B[] (.var "continueOnError") B[
    (.assign E[(.sel (.var "b") "batchErrorHandling")] E[(.str "continue")])] B[
    (.assign E[(.sel (.var "b") "batchErrorHandling")] E[(.str "stop")])]),
  (.ret E[(.var "b")])] }

def NodeBuilder_WithExecFallbackFunc : Func := { name := "NodeBuilder.WithExecFallbackFunc", recv := "b", params := ["fn"], body :=
B[
  (.assign E[(.sel (.var "b") "execFallbackFunc")] E[(.var "fn")]),
  (.ret E[(.var "b")])] }

def NodeBuilder_WithExecFunc : Func := { name := "NodeBuilder.WithExecFunc", recv := "b", params := ["fn"], body :=
B[
  (.assign E[(.sel (.var "b") "execFunc")] E[(.var "fn")]),
  (.ret E[(.var "b")])] }

def NodeBuilder_WithExecFuncAny : Func := { name := "NodeBuilder.WithExecFuncAny", recv := "b", params := ["fn"], body :=
B[
  (.assign E[(.sel (.var "b") "execFunc")] E[(.funcLit ["ctx", "prepResult"] B[
        (.define ["val", "err"] E[(.call "fn" E[(.var "ctx"), (.mcall (.var "prepResult") "Value" E[])])]),
        (.ifS B[] (.bin "!=" (.var "err") (.var "nil")) B[
          (.ret E[(.lit "Result" E[]), (.var "err")])] B[]),
        (.ret E[(.call "NewResult" E[(.var "val")]), (.var "nil")])])]),
  (.ret E[(.var "b")])] }

def NodeBuilder_WithMaxRetries : Func := { name := "NodeBuilder.WithMaxRetries", recv := "b", params := ["retries"], body :=
B[
  (.expr (.mcall (.call "WithMaxRetries" E[(.var "retries")]) "()" E[(.sel (.var "b") "BaseNode")])),
  (.ret E[(.var "b")])] }

def NodeBuilder_WithPostFunc : Func := { name := "NodeBuilder.WithPostFunc", recv := "b", params := ["fn"], body :=
B[
  (.assign E[(.sel (.var "b") "postFunc")] E[(.var "fn")]),
  (.ret E[(.var "b")])] }

def NodeBuilder_WithPostFuncAny : Func := { name := "NodeBuilder.WithPostFuncAny", recv := "b", params := ["fn"], body :=
B[
  (.assign E[(.sel (.var "b") "postFunc")] E[(.funcLit ["ctx", "shared", "prepResult", "execResult"] B[
        (.ret E[(.call "fn" E[(.var "ctx"), (.var "shared"), (.mcall (.var "prepResult") "Value" E[]), (.mcall (.var "execResult") "Value" E[])])])])]),
  (.ret E[(.var "b")])] }

def NodeBuilder_WithPrepFunc : Func := { name := "NodeBuilder.WithPrepFunc", recv := "b", params := ["fn"], body :=
B[
  (.assign E[(.sel (.var "b") "prepFunc")] E[(.var "fn")]),
  (.ret E[(.var "b")])] }

def NodeBuilder_WithPrepFuncAny : Func := { name := "NodeBuilder.WithPrepFuncAny", recv := "b", params := ["fn"], body :=
B[
  (.assign E[(.sel (.var "b") "prepFunc")] E[(.funcLit ["ctx", "shared"] B[
        (.define ["val", "err"] E[(.call "fn" E[(.var "ctx"), (.var "shared")])]),
        (.ifS B[] (.bin "!=" (.var "err") (.var "nil")) B[
          (.ret E[(.lit "Result" E[]), (.var "err")])] B[]),
        (.ret E[(.call "NewResult" E[(.var "val")]), (.var "nil")])])]),
  (.ret E[(.var "b")])] }

def NodeBuilder_WithWait : Func := { name := "NodeBuilder.WithWait", recv := "b", params := ["wait"], body :=
B[
  (.expr (.mcall (.call "WithWait" E[(.var "wait")]) "()" E[(.sel (.var "b") "BaseNode")])),
  (.ret E[(.var "b")])] }

def R : Func := { name := "R", recv := "", params := ["v"], body :=
B[
  (.ret E[(.call "NewResult" E[(.var "v")])])] }

def Result_AsBool : Func := { name := "Result.AsBool", recv := "r", params := [], body :=
B[
  (.ifS B[] (.bin "==" (.sel (.var "r") "value") (.var "nil")) B[
    (.ret E[(.var "false"), (.var "false")])] B[]),
  (.define ["b", "ok"] E[(.assert (.sel (.var "r") "value") "bool")]),
  (.ret E[(.var "b"), (.var "ok")])] }

def Result_AsBoolOr : Func := { name := "Result.AsBoolOr", recv := "r", params := ["defaultVal"], body :=
B[
  (.define ["b", "ok"] E[(.mcall (.var "r") "AsBool" E[])]),
  (.ifS B[] (.un "!" (.var "ok")) B[
    (.ret E[(.var "defaultVal")])] B[]),
  (.ret E[(.var "b")])] }

def Result_AsFloat64 : Func := { name := "Result.AsFloat64", recv := "r", params := [], body :=
B[
  (.ifS B[] (.bin "==" (.sel (.var "r") "value") (.var "nil")) B[
    (.ret E[(.call "float.lit" E[(.str "0.0")]), (.var "false")])] B[]),
  (.typeSwitch "v" (.sel (.var "r") "value") (Cases.ofList [
    ((.lit "types" E[(.var "float64")]), B[
      (.ret E[(.var "v"), (.var "true")])]),
    ((.lit "types" E[(.var "float32")]), B[
      (.ret E[(.conv "float64" (.var "v")), (.var "true")])]),
    ((.lit "types" E[(.var "int")]), B[
      (.ret E[(.conv "float64" (.var "v")), (.var "true")])]),
    ((.lit "types" E[(.var "int8")]), B[
      (.ret E[(.conv "float64" (.var "v")), (.var "true")])]),
    ((.lit "types" E[(.var "int16")]), B[
      (.ret E[(.conv "float64" (.var "v")), (.var "true")])]),
    ((.lit "types" E[(.var "int32")]), B[
      (.ret E[(.conv "float64" (.var "v")), (.var "true")])]),
    ((.lit "types" E[(.var "int64")]), B[
      (.ret E[(.conv "float64" (.var "v")), (.var "true")])]),
    ((.lit "types" E[(.var "uint")]), B[
      (.ret E[(.conv "float64" (.var "v")), (.var "true")])]),
    ((.lit "types" E[(.var "uint8")]), B[
      (.ret E[(.conv "float64" (.var "v")), (.var "true")])]),
    ((.lit "types" E[(.var "uint16")]), B[
      (.ret E[(.conv "float64" (.var "v")), (.var "true")])]),
    ((.lit "types" E[(.var "uint32")]), B[
      (.ret E[(.conv "float64" (.var "v")), (.var "true")])]),
    ((.lit "types" E[(.var "uint64")]), B[
      (.ret E[(.conv "float64" (.var "v")), (.var "true")])]),
    ((.var "default"), B[
      (.ret E[(.call "float.lit" E[(.str "0.0")]), (.var "false")])])]))] }

def Result_AsFloat64Or : Func := { name := "Result.AsFloat64Or", recv := "r", params := ["defaultVal"], body :=
B[
  (.define ["f", "ok"] E[(.mcall (.var "r") "AsFloat64" E[])]),
  (.ifS B[] (.un "!" (.var "ok")) B[
    (.ret E[(.var "defaultVal")])] B[]),
  (.ret E[(.var "f")])] }

def Result_AsInt : Func := { name := "Result.AsInt", recv := "r", params := [], body :=
B[
  (.ifS B[] (.bin "==" (.sel (.var "r") "value") (.var "nil")) B[
    (.ret E[(.int 0), (.var "false")])] B[]),
  (.typeSwitch "v" (.sel (.var "r") "value") (Cases.ofList [
    ((.lit "types" E[(.var "int")]), B[
      (.ret E[(.var "v"), (.var "true")])]),
    ((.lit "types" E[(.var "int8")]), B[
      (.ret E[(.conv "int" (.var "v")), (.var "true")])]),
    ((.lit "types" E[(.var "int16")]), B[
      (.ret E[(.conv "int" (.var "v")), (.var "true")])]),
    ((.lit "types" E[(.var "int32")]), B[
      (.ret E[(.conv "int" (.var "v")), (.var "true")])]),
    ((.lit "types" E[(.var "int64")]), B[
      (.ret E[(.conv "int" (.var "v")), (.var "true")])]),
    ((.lit "types" E[(.var "uint")]), B[
      (.ret E[(.conv "int" (.var "v")), (.var "true")])]),
    ((.lit "types" E[(.var "uint8")]), B[
      (.ret E[(.conv "int" (.var "v")), (.var "true")])]),
    ((.lit "types" E[(.var "uint16")]), B[
      (.ret E[(.conv "int" (.var "v")), (.var "true")])]),
    ((.lit "types" E[(.var "uint32")]), B[
      (.ret E[(.conv "int" (.var "v")), (.var "true")])]),
    ((.lit "types" E[(.var "uint64")]), B[
      (.ret E[(.conv "int" (.var "v")), (.var "true")])]),
    ((.lit "types" E[(.var "float32")]), B[
      (.ret E[(.conv "int" (.var "v")), (.var "true")])]),
    ((.lit "types" E[(.var "float64")]), B[
      (.ret E[(.conv "int" (.var "v")), (.var "true")])]),
    ((.var "default"), B[
      (.ret E[(.int 0), (.var "false")])])]))] }

def Result_AsIntOr : Func := { name := "Result.AsIntOr", recv := "r", params := ["defaultVal"], body :=
B[
  (.define ["i", "ok"] E[(.mcall (.var "r") "AsInt" E[])]),
  (.ifS B[] (.un "!" (.var "ok")) B[
    (.ret E[(.var "defaultVal")])] B[]),
  (.ret E[(.var "i")])] }

def Result_AsMap : Func := { name := "Result.AsMap", recv := "r", params := [], body :=
B[
  (.ifS B[] (.bin "==" (.sel (.var "r") "value") (.var "nil")) B[
    (.ret E[(.var "nil"), (.var "false")])] B[]),
  (.define ["m", "ok"] E[(.assert (.sel (.var "r") "value") "map[string]any")]),
  (.ret E[(.var "m"), (.var "ok")])] }

def Result_AsMapOr : Func := { name := "Result.AsMapOr", recv := "r", params := ["defaultVal"], body :=
B[
  (.define ["m", "ok"] E[(.mcall (.var "r") "AsMap" E[])]),
  (.ifS B[] (.un "!" (.var "ok")) B[
    (.ret E[(.var "defaultVal")])] B[]),
  (.ret E[(.var "m")])] }

def Result_AsSlice : Func := { name := "Result.AsSlice", recv := "r", params := [], body :=
B[
  (.ifS B[] (.bin "==" (.sel (.var "r") "value") (.var "nil")) B[
    (.ret E[(.var "nil"), (.var "false")])] B[]),
  (.ifS B[(.define ["slice", "ok"] E[(.assert (.sel (.var "r") "value") "[]any")])] (.var "ok") B[
    (.ret E[(.var "slice"), (.var "true")])] B[]),
  (.ifS B[] (.bin "!=" (.mcall (.call "reflect.ValueOf" E[(.sel (.var "r") "value")]) "Kind" E[]) (.sel (.var "reflect") "Slice")) B[
    (.ret E[(.var "nil"), (.var "false")])] B[]),
  (.ret E[(.call "ToSlice" E[(.sel (.var "r") "value")]), (.var "true")])] }

def Result_AsSliceOr : Func := { name := "Result.AsSliceOr", recv := "r", params := ["defaultVal"], body :=
B[
  (.define ["s", "ok"] E[(.mcall (.var "r") "AsSlice" E[])]),
  (.ifS B[] (.un "!" (.var "ok")) B[
    (.ret E[(.var "defaultVal")])] B[]),
  (.ret E[(.var "s")])] }

def Result_AsString : Func := { name := "Result.AsString", recv := "r", params := [], body :=
B[
  (.ifS B[] (.bin "==" (.sel (.var "r") "value") (.var "nil")) B[
    (.ret E[(.str ""), (.var "false")])] B[]),
  (.define ["s", "ok"] E[(.assert (.sel (.var "r") "value") "string")]),
  (.ret E[(.var "s"), (.var "ok")])] }

def Result_AsStringOr : Func := { name := "Result.AsStringOr", recv := "r", params := ["defaultVal"], body :=
B[
  (.define ["s", "ok"] E[(.mcall (.var "r") "AsString" E[])]),
  (.ifS B[] (.un "!" (.var "ok")) B[
    (.ret E[(.var "defaultVal")])] B[]),
  (.ret E[(.var "s")])] }

def Result_Bind : Func := { name := "Result.Bind", recv := "r", params := ["dest"], body :=
B[
  (.ifS B[] (.bin "==" (.sel (.var "r") "value") (.var "nil")) B[
    (.ret E[(.call "fmt.Errorf" E[(.str "cannot bind nil Result value")])])] B[]),
  (.define ["rv"] E[(.call "reflect.ValueOf" E[(.var "dest")])]),
  (.ifS B[] (.bin "||" (.bin "!=" (.mcall (.var "rv") "Kind" E[]) (.sel (.var "reflect") "Ptr")) (.mcall (.var "rv") "IsNil" E[])) B[
    (.ret E[(.call "fmt.Errorf" E[(.str "destination must be a non-nil pointer")])])] B[]),
  (.define ["valType"] E[(.call "reflect.TypeOf" E[(.sel (.var "r") "value")])]),
  (.define ["destType"] E[(.mcall (.mcall (.var "rv") "Type" E[]) "Elem" E[])]),
  (.ifS B[] (.bin "==" (.var "valType") (.var "destType")) B[
    (.expr (.mcall (.mcall (.var "rv") "Elem" E[]) "Set" E[(.call "reflect.ValueOf" E[(.sel (.var "r") "value")])])),
    (.ret E[(.var "nil")])] B[]),
  (.define ["jsonBytes", "err"] E[(.call "json.Marshal" E[(.sel (.var "r") "value")])]),
  (.ifS B[] (.bin "!=" (.var "err") (.var "nil")) B[
    (.ret E[(.call "fmt.Errorf" E[(.str "failed to marshal Result: %w"), (.var "err")])])] B[]),
  (.ifS B[(.define ["err"] E[(.call "json.Unmarshal" E[(.var "jsonBytes"), (.var "dest")])])] (.bin "!=" (.var "err") (.var "nil")) B[
    (.ret E[(.call "fmt.Errorf" E[(.str "failed to unmarshal to destination: %w"), (.var "err")])])] B[]),
  (.ret E[(.var "nil")])] }

def Result_Error : Func := { name := "Result.Error", recv := "r", params := [], body :=
B[
  (.ret E[(.sel (.var "r") "err")])] }

def Result_IsError : Func := { name := "Result.IsError", recv := "r", params := [], body :=
B[
  (.ret E[(.bin "!=" (.sel (.var "r") "err") (.var "nil"))])] }

def Result_IsNil : Func := { name := "Result.IsNil", recv := "r", params := [], body :=
B[
  (.ret E[(.bin "==" (.sel (.var "r") "value") (.var "nil"))])] }

def Result_MustBind : Func := { name := "Result.MustBind", recv := "r", params := ["dest"], body :=
B[
  (.ifS B[(.define ["err"] E[(.mcall (.var "r") "Bind" E[(.var "dest")])])] (.bin "!=" (.var "err") (.var "nil")) B[
    (.expr (.call "panic" E[(.call "fmt.Sprintf" E[(.str "Result.MustBind failed: %v"), (.var "err")])]))] B[])] }

def Result_MustBool : Func := { name := "Result.MustBool", recv := "r", params := [], body :=
B[
  (.define ["b", "ok"] E[(.mcall (.var "r") "AsBool" E[])]),
  (.ifS B[] (.un "!" (.var "ok")) B[
    (.expr (.call "panic" E[(.call "fmt.Sprintf" E[(.str "Result.MustBool: value is not a bool (type %T)"), (.var "r")])]))] B[]),
  (.ret E[(.var "b")])] }

def Result_MustFloat64 : Func := { name := "Result.MustFloat64", recv := "r", params := [], body :=
B[
  (.define ["f", "ok"] E[(.mcall (.var "r") "AsFloat64" E[])]),
  (.ifS B[] (.un "!" (.var "ok")) B[
    (.expr (.call "panic" E[(.call "fmt.Sprintf" E[(.str "Result.MustFloat64: value cannot be converted to float64 (type %T)"), (.var "r")])]))] B[]),
  (.ret E[(.var "f")])] }

def Result_MustInt : Func := { name := "Result.MustInt", recv := "r", params := [], body :=
B[
  (.define ["i", "ok"] E[(.mcall (.var "r") "AsInt" E[])]),
  (.ifS B[] (.un "!" (.var "ok")) B[
    (.expr (.call "panic" E[(.call "fmt.Sprintf" E[(.str "Result.MustInt: value cannot be converted to int (type %T)"), (.var "r")])]))] B[]),
  (.ret E[(.var "i")])] }

def Result_MustMap : Func := { name := "Result.MustMap", recv := "r", params := [], body :=
B[
  (.define ["m", "ok"] E[(.mcall (.var "r") "AsMap" E[])]),
  (.ifS B[] (.un "!" (.var "ok")) B[
    (.expr (.call "panic" E[(.call "fmt.Sprintf" E[(.str "Result.MustMap: value is not a map[string]any (type %T)"), (.var "r")])]))] B[]),
  (.ret E[(.var "m")])] }

def Result_MustSlice : Func := { name := "Result.MustSlice", recv := "r", params := [], body :=
B[
  (.define ["s", "ok"] E[(.mcall (.var "r") "AsSlice" E[])]),
  (.ifS B[] (.un "!" (.var "ok")) B[
    (.expr (.call "panic" E[(.call "fmt.Sprintf" E[(.str "Result.MustSlice: value is not a slice (type %T)"), (.var "r")])]))] B[]),
  (.ret E[(.var "s")])] }

def Result_MustString : Func := { name := "Result.MustString", recv := "r", params := [], body :=
B[
  (.define ["s", "ok"] E[(.mcall (.var "r") "AsString" E[])]),
  (.ifS B[] (.un "!" (.var "ok")) B[
    (.expr (.call "panic" E[(.call "fmt.Sprintf" E[(.str "Result.MustString: value is not a string (type %T)"), (.var "r")])]))] B[]),
  (.ret E[(.var "s")])] }

def Result_Type : Func := { name := "Result.Type", recv := "r", params := [], body :=
B[
  (.ifS B[] (.bin "==" (.sel (.var "r") "value") (.var "nil")) B[
    (.ret E[(.str "nil")])] B[]),
  (.ret E[(.call "fmt.Sprintf" E[(.str "%T"), (.sel (.var "r") "value")])])] }

def Result_Value : Func := { name := "Result.Value", recv := "r", params := [], body :=
B[
  (.ifS B[] (.bin "!=" (.sel (.var "r") "err") (.var "nil")) B[
    (.ret E[(.var "nil")])] B[]),
  (.ret E[(.sel (.var "r") "value")])] }

def Run : Func := { name := "Run", recv := "", params := ["ctx", "node", "shared"], body :=
B[
  (.ifS B[(.define ["_", "ok"] E[(.assert (.var "node") "*BatchNode")])] (.var "ok") B[
    (.ret E[(.call "runBatch" E[(.var "ctx"), (.var "node"), (.var "shared")])])] B[]),
  (.ifS B[(.define ["batchBuilder", "ok"] E[(.assert (.var "node") "*BatchNodeBuilder")])] (.var "ok") B[
    (.ret E[(.call "runBatch" E[(.var "ctx"), (.sel (.var "batchBuilder") "BatchNode"), (.var "shared")])])] B[]),
  (.ifS B[(.define ["err"] E[(.mcall (.var "ctx") "Err" E[])])] (.bin "!=" (.var "err") (.var "nil")) B[
    (.ret E[(.str ""), (.call "fmt.Errorf" E[(.str "run: context cancelled: %w"), (.var "err")])])] B[]),
  (.define ["prepResult", "err"] E[(.mcall (.var "node") "Prep" E[(.var "ctx"), (.var "shared")])]),
  (.ifS B[] (.bin "!=" (.var "err") (.var "nil")) B[
    (.ret E[(.str ""), (.call "fmt.Errorf" E[(.str "run: prep failed: %w"), (.var "err")])])] B[]),
  (.ifS B[(.define ["err"] E[(.mcall (.var "ctx") "Err" E[])])] (.bin "!=" (.var "err") (.var "nil")) B[
    (.ret E[(.str ""), (.call "fmt.Errorf" E[(.str "run: context cancelled after prep: %w"), (.var "err")])])] B[]),
  (.define ["maxRetries"] E[(.int 1)]),
  (.define ["wait"] E[(.int 0)]),
  (.ifS B[(.define ["retryable", "ok"] E[(.assert (.var "node") "RetryableNode")])] (.var "ok") B[
    (.assign E[(.var "maxRetries")] E[(.mcall (.var "retryable") "GetMaxRetries" E[])]),
    (.assign E[(.var "wait")] E[(.mcall (.var "retryable") "GetWait" E[])])] B[]),
  (.declare "execResult" "any"),
  (.declare "execErr" "error"),
  (.forS B[(.define ["attempt"] E[(.int 0)])] (.bin "<" (.var "attempt") (.var "maxRetries")) B[(.incr "attempt")] B[
    (.ifS B[(.define ["err"] E[(.mcall (.var "ctx") "Err" E[])])] (.bin "!=" (.var "err") (.var "nil")) B[
      (.ret E[(.str ""), (.call "fmt.Errorf" E[(.str "run: context cancelled during retry: %w"), (.var "err")])])] B[]),
    (.ifS B[] (.bin "&&" (.bin ">" (.var "attempt") (.int 0)) (.bin ">" (.var "wait") (.int 0))) B[
      (.selectS (Cases.ofList [
        ((.un "<-" (.call "time.After" E[(.var "wait")])), B[]),
        ((.un "<-" (.mcall (.var "ctx") "Done" E[])), B[
          (.ret E[(.str ""), (.call "fmt.Errorf" E[(.str "run: context cancelled during wait: %w"), (.mcall (.var "ctx") "Err" E[])])])])]))] B[]),
    (.assign E[(.var "execResult"), (.var "execErr")] E[(.mcall (.var "node") "Exec" E[(.var "ctx"), (.var "prepResult")])]),
    (.ifS B[] (.bin "==" (.var "execErr") (.var "nil")) B[
      .brk] B[])]),
  (.ifS B[] (.bin "!=" (.var "execErr") (.var "nil")) B[
    (.ifS B[(.define ["fallback", "ok"] E[(.assert (.var "node") "FallbackNode")])] (.var "ok") B[
      (.assign E[(.var "execResult"), (.var "execErr")] E[(.mcall (.var "fallback") "ExecFallback" E[(.var "prepResult"), (.var "execErr")])])] B[]),
    (.ifS B[] (.bin "!=" (.var "execErr") (.var "nil")) B[
      (.ret E[(.str ""), (.call "fmt.Errorf" E[(.str "run: exec failed after %d retries: %w"), (.var "maxRetries"), (.var "execErr")])])] B[])] B[]),
  (.define ["action", "err"] E[(.mcall (.var "node") "Post" E[(.var "ctx"), (.var "shared"), (.var "prepResult"), (.var "execResult")])]),
  (.ifS B[] (.bin "!=" (.var "err") (.var "nil")) B[
    (.ret E[(.str ""), (.call "fmt.Errorf" E[(.str "run: post failed: %w"), (.var "err")])])] B[]),
  (.ifS B[] (.bin "==" (.var "action") (.str "")) B[
    (.assign E[(.var "action")] E[(.var "DefaultAction")])] B[]),
  (.ret E[(.var "action"), (.var "nil")])] }

def SharedStore_Bind : Func := { name := "SharedStore.Bind", recv := "s", params := ["key", "dest"], body :=
B[
  (.define ["val", "ok"] E[(.mcall (.var "s") "Get" E[(.var "key")])]),
  (.ifS B[] (.un "!" (.var "ok")) B[
    (.ret E[(.call "fmt.Errorf" E[(.str "key %q not found in shared store"), (.var "key")])])] B[]),
  (.define ["rv"] E[(.call "reflect.ValueOf" E[(.var "dest")])]),
  (.ifS B[] (.bin "||" (.bin "!=" (.mcall (.var "rv") "Kind" E[]) (.sel (.var "reflect") "Ptr")) (.mcall (.var "rv") "IsNil" E[])) B[
    (.ret E[(.call "fmt.Errorf" E[(.str "destination must be a non-nil pointer")])])] B[]),
  (.define ["valType"] E[(.call "reflect.TypeOf" E[(.var "val")])]),
  (.define ["destType"] E[(.mcall (.mcall (.var "rv") "Type" E[]) "Elem" E[])]),
  (.ifS B[] (.bin "==" (.var "valType") (.var "destType")) B[
    (.expr (.mcall (.mcall (.var "rv") "Elem" E[]) "Set" E[(.call "reflect.ValueOf" E[(.var "val")])])),
    (.ret E[(.var "nil")])] B[]),
  (.define ["jsonBytes", "err"] E[(.call "json.Marshal" E[(.var "val")])]),
  (.ifS B[] (.bin "!=" (.var "err") (.var "nil")) B[
    (.ret E[(.call "fmt.Errorf" E[(.str "failed to marshal value: %w"), (.var "err")])])] B[]),
  (.ifS B[(.define ["err"] E[(.call "json.Unmarshal" E[(.var "jsonBytes"), (.var "dest")])])] (.bin "!=" (.var "err") (.var "nil")) B[
    (.ret E[(.call "fmt.Errorf" E[(.str "failed to unmarshal to destination: %w"), (.var "err")])])] B[]),
  (.ret E[(.var "nil")])] }

def SharedStore_Clear : Func := { name := "SharedStore.Clear", recv := "s", params := [], body :=
B[
  (.expr (.mcall (.sel (.var "s") "mu") "Lock" E[])),
  (.deferS (.mcall (.sel (.var "s") "mu") "Unlock" E[])),
  (.assign E[(.sel (.var "s") "data")] E[(.call "make" E[(.var "map[string]any")])])] }

def SharedStore_Delete : Func := { name := "SharedStore.Delete", recv := "s", params := ["key"], body :=
B[
  (.expr (.mcall (.sel (.var "s") "mu") "Lock" E[])),
  (.deferS (.mcall (.sel (.var "s") "mu") "Unlock" E[])),
  (.expr (.call "delete" E[(.sel (.var "s") "data"), (.var "key")]))] }

def SharedStore_Get : Func := { name := "SharedStore.Get", recv := "s", params := ["key"], body :=
B[
  (.expr (.mcall (.sel (.var "s") "mu") "RLock" E[])),
  (.deferS (.mcall (.sel (.var "s") "mu") "RUnlock" E[])),
  (.define ["val", "ok"] E[(.index (.sel (.var "s") "data") (.var "key"))]),
  (.ret E[(.var "val"), (.var "ok")])] }

def SharedStore_GetAll : Func := { name := "SharedStore.GetAll", recv := "s", params := [], body :=
B[
  (.expr (.mcall (.sel (.var "s") "mu") "RLock" E[])),
  (.deferS (.mcall (.sel (.var "s") "mu") "RUnlock" E[])),
  (.define ["copy"] E[(.call "make" E[(.var "map[string]any"), (.call "len" E[(.sel (.var "s") "data")])])]),
  (.rangeS "k" "v" (.sel (.var "s") "data") B[
    (.assign E[(.index (.var "copy") (.var "k"))] E[(.var "v")])]),
  (.ret E[(.var "copy")])] }

def SharedStore_GetBool : Func := { name := "SharedStore.GetBool", recv := "s", params := ["key"], body :=
B[
  (.ret E[(.mcall (.var "s") "GetBoolOr" E[(.var "key"), (.var "false")])])] }

def SharedStore_GetBoolOr : Func := { name := "SharedStore.GetBoolOr", recv := "s", params := ["key", "defaultVal"], body :=
B[
  (.define ["val", "ok"] E[(.mcall (.var "s") "Get" E[(.var "key")])]),
  (.ifS B[] (.un "!" (.var "ok")) B[
    (.ret E[(.var "defaultVal")])] B[]),
  (.define ["b", "ok"] E[(.assert (.var "val") "bool")]),
  (.ifS B[] (.un "!" (.var "ok")) B[
    (.ret E[(.var "defaultVal")])] B[]),
  (.ret E[(.var "b")])] }

def SharedStore_GetFloat64 : Func := { name := "SharedStore.GetFloat64", recv := "s", params := ["key"], body :=
B[
  (.ret E[(.mcall (.var "s") "GetFloat64Or" E[(.var "key"), (.call "float.lit" E[(.str "0.0")])])])] }

def SharedStore_GetFloat64Or : Func := { name := "SharedStore.GetFloat64Or", recv := "s", params := ["key", "defaultVal"], body :=
B[
  (.define ["val", "ok"] E[(.mcall (.var "s") "Get" E[(.var "key")])]),
  (.ifS B[] (.un "!" (.var "ok")) B[
    (.ret E[(.var "defaultVal")])] B[]),
  (.typeSwitch "v" (.var "val") (Cases.ofList [
    ((.lit "types" E[(.var "float64")]), B[
      (.ret E[(.var "v")])]),
    ((.lit "types" E[(.var "float32")]), B[
      (.ret E[(.conv "float64" (.var "v"))])]),
    ((.lit "types" E[(.var "int")]), B[
      (.ret E[(.conv "float64" (.var "v"))])]),
    ((.lit "types" E[(.var "int8")]), B[
      (.ret E[(.conv "float64" (.var "v"))])]),
    ((.lit "types" E[(.var "int16")]), B[
      (.ret E[(.conv "float64" (.var "v"))])]),
    ((.lit "types" E[(.var "int32")]), B[
      (.ret E[(.conv "float64" (.var "v"))])]),
    ((.lit "types" E[(.var "int64")]), B[
      (.ret E[(.conv "float64" (.var "v"))])]),
    ((.lit "types" E[(.var "uint")]), B[
      (.ret E[(.conv "float64" (.var "v"))])]),
    ((.lit "types" E[(.var "uint8")]), B[
      (.ret E[(.conv "float64" (.var "v"))])]),
    ((.lit "types" E[(.var "uint16")]), B[
      (.ret E[(.conv "float64" (.var "v"))])]),
    ((.lit "types" E[(.var "uint32")]), B[
      (.ret E[(.conv "float64" (.var "v"))])]),
    ((.lit "types" E[(.var "uint64")]), B[
      (.ret E[(.conv "float64" (.var "v"))])]),
    ((.var "default"), B[
      (.ret E[(.var "defaultVal")])])]))] }

def SharedStore_GetInt : Func := { name := "SharedStore.GetInt", recv := "s", params := ["key"], body :=
B[
  (.ret E[(.mcall (.var "s") "GetIntOr" E[(.var "key"), (.int 0)])])] }

def SharedStore_GetIntOr : Func := { name := "SharedStore.GetIntOr", recv := "s", params := ["key", "defaultVal"], body :=
B[
  (.define ["val", "ok"] E[(.mcall (.var "s") "Get" E[(.var "key")])]),
  (.ifS B[] (.un "!" (.var "ok")) B[
    (.ret E[(.var "defaultVal")])] B[]),
  (.typeSwitch "v" (.var "val") (Cases.ofList [
    ((.lit "types" E[(.var "int")]), B[
      (.ret E[(.var "v")])]),
    ((.lit "types" E[(.var "int8")]), B[
      (.ret E[(.conv "int" (.var "v"))])]),
    ((.lit "types" E[(.var "int16")]), B[
      (.ret E[(.conv "int" (.var "v"))])]),
    ((.lit "types" E[(.var "int32")]), B[
      (.ret E[(.conv "int" (.var "v"))])]),
    ((.lit "types" E[(.var "int64")]), B[
      (.ret E[(.conv "int" (.var "v"))])]),
    ((.lit "types" E[(.var "uint")]), B[
      (.ret E[(.conv "int" (.var "v"))])]),
    ((.lit "types" E[(.var "uint8")]), B[
      (.ret E[(.conv "int" (.var "v"))])]),
    ((.lit "types" E[(.var "uint16")]), B[
      (.ret E[(.conv "int" (.var "v"))])]),
    ((.lit "types" E[(.var "uint32")]), B[
      (.ret E[(.conv "int" (.var "v"))])]),
    ((.lit "types" E[(.var "uint64")]), B[
      (.ret E[(.conv "int" (.var "v"))])]),
    ((.lit "types" E[(.var "float32")]), B[
      (.ret E[(.conv "int" (.var "v"))])]),
    ((.lit "types" E[(.var "float64")]), B[
      (.ret E[(.conv "int" (.var "v"))])]),
    ((.var "default"), B[
      (.ret E[(.var "defaultVal")])])]))] }

def SharedStore_GetMap : Func := { name := "SharedStore.GetMap", recv := "s", params := ["key"], body :=
B[
  (.ret E[(.mcall (.var "s") "GetMapOr" E[(.var "key"), (.var "nil")])])] }

def SharedStore_GetMapOr : Func := { name := "SharedStore.GetMapOr", recv := "s", params := ["key", "defaultVal"], body :=
B[
  (.define ["val", "ok"] E[(.mcall (.var "s") "Get" E[(.var "key")])]),
  (.ifS B[] (.un "!" (.var "ok")) B[
    (.ret E[(.var "defaultVal")])] B[]),
  (.define ["m", "ok"] E[(.assert (.var "val") "map[string]any")]),
  (.ifS B[] (.un "!" (.var "ok")) B[
    (.ret E[(.var "defaultVal")])] B[]),
  (.ret E[(.var "m")])] }

def SharedStore_GetSlice : Func := { name := "SharedStore.GetSlice", recv := "s", params := ["key"], body :=
B[
  (.ret E[(.mcall (.var "s") "GetSliceOr" E[(.var "key"), (.var "nil")])])] }

def SharedStore_GetSliceOr : Func := { name := "SharedStore.GetSliceOr", recv := "s", params := ["key", "defaultVal"], body :=
B[
  (.define ["val", "ok"] E[(.mcall (.var "s") "Get" E[(.var "key")])]),
  (.ifS B[] (.un "!" (.var "ok")) B[
    (.ret E[(.var "defaultVal")])] B[]),
  (.ifS B[] (.bin "==" (.var "val") (.var "nil")) B[
    (.ret E[(.var "defaultVal")])] B[]),
  (.ifS B[(.define ["slice", "ok"] E[(.assert (.var "val") "[]any")])] (.var "ok") B[
    (.ret E[(.var "slice")])] B[]),
  (.ifS B[] (.bin "!=" (.mcall (.call "reflect.ValueOf" E[(.var "val")]) "Kind" E[]) (.sel (.var "reflect") "Slice")) B[
    (.ret E[(.var "defaultVal")])] B[]),
  (.ret E[(.call "ToSlice" E[(.var "val")])])] }

def SharedStore_GetString : Func := { name := "SharedStore.GetString", recv := "s", params := ["key"], body :=
B[
  (.define ["val", "ok"] E[(.mcall (.var "s") "Get" E[(.var "key")])]),
  (.ifS B[] (.un "!" (.var "ok")) B[
    (.ret E[(.str "")])] B[]),
  (.define ["str", "_"] E[(.assert (.var "val") "string")]),
  (.ret E[(.var "str")])] }

def SharedStore_GetStringOr : Func := { name := "SharedStore.GetStringOr", recv := "s", params := ["key", "defaultVal"], body :=
B[
  (.define ["val", "ok"] E[(.mcall (.var "s") "Get" E[(.var "key")])]),
  (.ifS B[] (.un "!" (.var "ok")) B[
    (.ret E[(.var "defaultVal")])] B[]),
  (.define ["str", "ok"] E[(.assert (.var "val") "string")]),
  (.ifS B[] (.un "!" (.var "ok")) B[
    (.ret E[(.var "defaultVal")])] B[]),
  (.ret E[(.var "str")])] }

def SharedStore_Has : Func := { name := "SharedStore.Has", recv := "s", params := ["key"], body :=
B[
  (.expr (.mcall (.sel (.var "s") "mu") "RLock" E[])),
  (.deferS (.mcall (.sel (.var "s") "mu") "RUnlock" E[])),
  (.define ["_", "ok"] E[(.index (.sel (.var "s") "data") (.var "key"))]),
  (.ret E[(.var "ok")])] }

def SharedStore_Keys : Func := { name := "SharedStore.Keys", recv := "s", params := [], body :=
B[
  (.expr (.mcall (.sel (.var "s") "mu") "RLock" E[])),
  (.deferS (.mcall (.sel (.var "s") "mu") "RUnlock" E[])),
  (.define ["keys"] E[(.call "make" E[(.var "[]string"), (.int 0), (.call "len" E[(.sel (.var "s") "data")])])]),
  (.rangeS "k" "_" (.sel (.var "s") "data") B[
    (.assign E[(.var "keys")] E[(.call "append" E[(.var "keys"), (.var "k")])])]),
  (.ret E[(.var "keys")])] }

def SharedStore_Len : Func := { name := "SharedStore.Len", recv := "s", params := [], body :=
B[
  (.expr (.mcall (.sel (.var "s") "mu") "RLock" E[])),
  (.deferS (.mcall (.sel (.var "s") "mu") "RUnlock" E[])),
  (.ret E[(.call "len" E[(.sel (.var "s") "data")])])] }

def SharedStore_Merge : Func := { name := "SharedStore.Merge", recv := "s", params := ["data"], body :=
B[
  (.ifS B[] (.bin "==" (.var "data") (.var "nil")) B[
    (.ret E[])] B[]),
  (.expr (.mcall (.sel (.var "s") "mu") "Lock" E[])),
  (.deferS (.mcall (.sel (.var "s") "mu") "Unlock" E[])),
  (.rangeS "k" "v" (.var "data") B[
    (.assign E[(.index (.sel (.var "s") "data") (.var "k"))] E[(.var "v")])])] }

def SharedStore_MustBind : Func := { name := "SharedStore.MustBind", recv := "s", params := ["key", "dest"], body :=
B[
  (.ifS B[(.define ["err"] E[(.mcall (.var "s") "Bind" E[(.var "key"), (.var "dest")])])] (.bin "!=" (.var "err") (.var "nil")) B[
    (.expr (.call "panic" E[(.call "fmt.Sprintf" E[(.str "SharedStore.MustBind failed: %v"), (.var "err")])]))] B[])] }

def SharedStore_Set : Func := { name := "SharedStore.Set", recv := "s", params := ["key", "value"], body :=
B[
  (.expr (.mcall (.sel (.var "s") "mu") "Lock" E[])),
  (.deferS (.mcall (.sel (.var "s") "mu") "Unlock" E[])),
  (.assign E[(.index (.sel (.var "s") "data") (.var "key"))] E[(.var "value")])] }

def ToSlice : Func := { name := "ToSlice", recv := "", params := ["v"], body :=
B[
  (.ifS B[] (.bin "==" (.var "v") (.var "nil")) B[
    (.ret E[(.lit "[]any" E[])])] B[]),
  (.typeSwitch "val" (.var "v") (Cases.ofList [
    ((.lit "types" E[(.var "[]any")]), B[
      (.ret E[(.var "val")])]),
    ((.lit "types" E[(.var "[]string")]), B[
      (.define ["result"] E[(.call "make" E[(.var "[]any"), (.call "len" E[(.var "val")])])]),
      (.rangeS "i" "v" (.var "val") B[
        (.assign E[(.index (.var "result") (.var "i"))] E[(.var "v")])]),
      (.ret E[(.var "result")])]),
    ((.lit "types" E[(.var "[]int")]), B[
      (.define ["result"] E[(.call "make" E[(.var "[]any"), (.call "len" E[(.var "val")])])]),
      (.rangeS "i" "v" (.var "val") B[
        (.assign E[(.index (.var "result") (.var "i"))] E[(.var "v")])]),
      (.ret E[(.var "result")])]),
    ((.lit "types" E[(.var "[]float64")]), B[
      (.define ["result"] E[(.call "make" E[(.var "[]any"), (.call "len" E[(.var "val")])])]),
      (.rangeS "i" "v" (.var "val") B[
        (.assign E[(.index (.var "result") (.var "i"))] E[(.var "v")])]),
      (.ret E[(.var "result")])]),
    ((.lit "types" E[(.var "[]map[string]any")]), B[
      (.define ["result"] E[(.call "make" E[(.var "[]any"), (.call "len" E[(.var "val")])])]),
      (.rangeS "i" "v" (.var "val") B[
        (.assign E[(.index (.var "result") (.var "i"))] E[(.var "v")])]),
      (.ret E[(.var "result")])]),
    ((.var "default"), B[
      (.define ["rv"] E[(.call "reflect.ValueOf" E[(.var "v")])]),
      (.ifS B[] (.bin "==" (.mcall (.var "rv") "Kind" E[]) (.sel (.var "reflect") "Slice")) B[
        (.define ["result"] E[(.call "make" E[(.var "[]any"), (.mcall (.var "rv") "Len" E[])])]),
        (.forS B[(.define ["i"] E[(.int 0)])] (.bin "<" (.var "i") (.mcall (.var "rv") "Len" E[])) B[(.incr "i")] B[
          (.assign E[(.index (.var "result") (.var "i"))] E[(.mcall (.mcall (.var "rv") "Index" E[(.var "i")]) "Interface" E[])])]),
        (.ret E[(.var "result")])] B[]),
      (.ret E[(.lit "[]any" E[(.var "v")])])])]))] }

def WithBatchConcurrency : Func := { name := "WithBatchConcurrency", recv := "", params := ["n"], body :=
B[
  (.ret E[(.funcLit ["node"] B[
        (.assign E[(.sel (.var "node") "batchConcurrency")] E[(.var "n")])])])] }

def WithBatchErrorHandling : Func := { name := "WithBatchErrorHandling", recv := "", params := ["continueOnError"], body :=
B[
  (.ret E[(.funcLit ["node"] B[
        (.ifS B[] (.var "continueOnError") B[
          (.assign E[(.sel (.var "node") "batchErrorHandling")] E[(.str "continue")])] B[
          (.assign E[(.sel (.var "node") "batchErrorHandling")] E[(.str "stop")])])])])] }

def WithExecFallbackFunc : Func := { name := "WithExecFallbackFunc", recv := "", params := ["fn"], body :=
B[
  (.ret E[(.un "&" (.lit "customNodeOption" E[(.bin ":" (.var "f") (.funcLit ["n"] B[
        (.assign E[(.sel (.var "n") "execFallbackFunc")] E[(.var "fn")])]))]))])] }

def WithExecFunc : Func := { name := "WithExecFunc", recv := "", params := ["fn"], body :=
B[
  (.ret E[(.un "&" (.lit "customNodeOption" E[(.bin ":" (.var "f") (.funcLit ["n"] B[
        (.assign E[(.sel (.var "n") "execFunc")] E[(.var "fn")])]))]))])] }

def WithExecFuncAny : Func := { name := "WithExecFuncAny", recv := "", params := ["fn"], body :=
B[
  (.ret E[(.un "&" (.lit "customNodeOption" E[(.bin ":" (.var "f") (.funcLit ["n"] B[
        (.assign E[(.sel (.var "n") "execFunc")] E[(.funcLit ["ctx", "prepResult"] B[
        (.define ["val", "err"] E[(.call "fn" E[(.var "ctx"), (.mcall (.var "prepResult") "Value" E[])])]),
        (.ifS B[] (.bin "!=" (.var "err") (.var "nil")) B[
          (.ret E[(.lit "Result" E[]), (.var "err")])] B[]),
        (.ret E[(.call "NewResult" E[(.var "val")]), (.var "nil")])])])]))]))])] }

def WithMaxRetries : Func := { name := "WithMaxRetries", recv := "", params := ["retries"], body :=
B[
  (.ret E[(.funcLit ["n"] B[
        (.assign E[(.sel (.var "n") "maxRetries")] E[(.var "retries")])])])] }

def WithPostFunc : Func := { name := "WithPostFunc", recv := "", params := ["fn"], body :=
B[
  (.ret E[(.un "&" (.lit "customNodeOption" E[(.bin ":" (.var "f") (.funcLit ["n"] B[
        (.assign E[(.sel (.var "n") "postFunc")] E[(.var "fn")])]))]))])] }

def WithPostFuncAny : Func := { name := "WithPostFuncAny", recv := "", params := ["fn"], body :=
B[
  (.ret E[(.un "&" (.lit "customNodeOption" E[(.bin ":" (.var "f") (.funcLit ["n"] B[
        (.assign E[(.sel (.var "n") "postFunc")] E[(.funcLit ["ctx", "shared", "prepResult", "execResult"] B[
        (.ret E[(.call "fn" E[(.var "ctx"), (.var "shared"), (.mcall (.var "prepResult") "Value" E[]), (.mcall (.var "execResult") "Value" E[])])])])])]))]))])] }

def WithPrepFunc : Func := { name := "WithPrepFunc", recv := "", params := ["fn"], body :=
B[
  (.ret E[(.un "&" (.lit "customNodeOption" E[(.bin ":" (.var "f") (.funcLit ["n"] B[
        (.assign E[(.sel (.var "n") "prepFunc")] E[(.var "fn")])]))]))])] }

def WithPrepFuncAny : Func := { name := "WithPrepFuncAny", recv := "", params := ["fn"], body :=
B[
  (.ret E[(.un "&" (.lit "customNodeOption" E[(.bin ":" (.var "f") (.funcLit ["n"] B[
        (.assign E[(.sel (.var "n") "prepFunc")] E[(.funcLit ["ctx", "shared"] B[
        (.define ["val", "err"] E[(.call "fn" E[(.var "ctx"), (.var "shared")])]),
        (.ifS B[] (.bin "!=" (.var "err") (.var "nil")) B[
          (.ret E[(.lit "Result" E[]), (.var "err")])] B[]),
        (.ret E[(.call "NewResult" E[(.var "val")]), (.var "nil")])])])]))]))])] }

def WithWait : Func := { name := "WithWait", recv := "", params := ["wait"], body :=
B[
  (.ret E[(.funcLit ["n"] B[
        (.assign E[(.sel (.var "n") "wait")] E[(.var "wait")])])])] }

def WorkerPool_Close : Func := { name := "WorkerPool.Close", recv := "p", params := [], body :=
B[
  (.expr (.call "close" E[(.sel (.var "p") "done")])),
  (.expr (.call "close" E[(.sel (.var "p") "tasks")]))] }

def WorkerPool_Submit : Func := { name := "WorkerPool.Submit", recv := "p", params := ["task"], body :=
B[
  (.expr (.mcall (.sel (.var "p") "wg") "Add" E[(.int 1)])),
  (.send (.sel (.var "p") "tasks") (.funcLit [] B[
        (.deferS (.mcall (.sel (.var "p") "wg") "Done" E[])),
        (.expr (.call "task" E[]))]))] }

def WorkerPool_Wait : Func := { name := "WorkerPool.Wait", recv := "p", params := [], body :=
B[
  (.expr (.mcall (.sel (.var "p") "wg") "Wait" E[]))] }

def WorkerPool_worker : Func := { name := "WorkerPool.worker", recv := "p", params := [], body :=
B[
  (.forS B[] (.var "true") B[] B[
    (.selectS (Cases.ofList [
      ((.un "<-" (.sel (.var "p") "tasks")), B[
        (.define ["task", "ok"] E[(.call "chan:recvd" E[(.sel (.var "p") "tasks")])]),
        (.ifS B[] (.un "!" (.var "ok")) B[
          (.ret E[])] B[]),
        (.expr (.call "task" E[]))]),
      ((.un "<-" (.sel (.var "p") "done")), B[
        (.ret E[])])]))])] }

def customNodeOption_apply : Func := { name := "customNodeOption.apply", recv := "o", params := ["n"], body :=
B[
  (.expr (.mcall (.var "o") "f" E[(.var "n")]))] }

def markUnprocessed : Func := { name := "markUnprocessed", recv := "", params := ["results", "reason"], body :=
B[
  (.rangeS "i" "_" (.var "results") B[
    (.assign E[(.index (.var "results") (.var "i"))] E[(.call "NewErrorResult" E[(.call "fmt.Errorf" E[(.str "%s"), (.var "reason")])])])])] }

def runBatch : Func := { name := "runBatch", recv := "", params := ["ctx", "node", "shared"], body :=
B[
  (.define ["prepResult", "err"] E[(.mcall (.var "node") "Prep" E[(.var "ctx"), (.var "shared")])]),
  (.ifS B[] (.bin "!=" (.var "err") (.var "nil")) B[
    (.ret E[(.str ""), (.call "fmt.Errorf" E[(.str "run: prep failed: %w"), (.var "err")])])] B[]),
  (.declare "items" "[]Result"),
  (.typeSwitch "v" (.var "prepResult") (Cases.ofList [
    ((.lit "types" E[(.var "[]Result")]), B[
      (.assign E[(.var "items")] E[(.var "v")])]),
    ((.lit "types" E[(.var "[]any")]), B[
      (.assign E[(.var "items")] E[(.call "make" E[(.var "[]Result"), (.call "len" E[(.var "v")])])]),
      (.rangeS "i" "item" (.var "v") B[
        (.assign E[(.index (.var "items") (.var "i"))] E[(.call "NewResult" E[(.var "item")])])])]),
    ((.var "default"), B[
      (.define ["slice"] E[(.call "ToSlice" E[(.var "prepResult")])]),
      (.assign E[(.var "items")] E[(.call "make" E[(.var "[]Result"), (.call "len" E[(.var "slice")])])]),
      (.rangeS "i" "item" (.var "slice") B[
        (.assign E[(.index (.var "items") (.var "i"))] E[(.call "NewResult" E[(.var "item")])])])])])),
  (.ifS B[] (.bin "==" (.call "len" E[(.var "items")]) (.int 0)) B[
    (.define ["action", "err"] E[(.mcall (.var "node") "Post" E[(.var "ctx"), (.var "shared"), (.lit "[]Result" E[]), (.lit "[]Result" E[])])]),
    (.ifS B[] (.bin "!=" (.var "err") (.var "nil")) B[
      (.ret E[(.str ""), (.call "fmt.Errorf" E[(.str "run: post failed: %w"), (.var "err")])])] B[]),
    (.ifS B[] (.bin "==" (.var "action") (.str "")) B[
      (.assign E[(.var "action")] E[(.var "DefaultAction")])] B[]),
    (.ret E[(.var "action"), (.var "nil")])] B[]),
  (.declare "concurrency" "int"),
  (.define ["errorHandling"] E[(.str "continue")]),
  (.ifS B[(.define ["baseNode", "ok"] E[(.assert (.var "node") "*BaseNode")])] (.var "ok") B[
    (.assign E[(.var "concurrency")] E[(.mcall (.var "baseNode") "GetBatchConcurrency" E[])]),
    (.assign E[(.var "errorHandling")] E[(.mcall (.var "baseNode") "GetBatchErrorHandling" E[])])] B[(.ifS B[(.define ["customNode", "ok"] E[(.assert (.var "node") "*CustomNode")])] (.var "ok") B[
    (.assign E[(.var "concurrency")] E[(.mcall (.var "customNode") "GetBatchConcurrency" E[])]),
    (.assign E[(.var "errorHandling")] E[(.mcall (.var "customNode") "GetBatchErrorHandling" E[])])] B[(.ifS B[(.define ["batchNode", "ok"] E[(.assert (.var "node") "*BatchNode")])] (.var "ok") B[
    (.assign E[(.var "concurrency")] E[(.mcall (.var "batchNode") "GetBatchConcurrency" E[])]),
    (.assign E[(.var "errorHandling")] E[(.mcall (.var "batchNode") "GetBatchErrorHandling" E[])])] B[(.ifS B[(.define ["batchBuilder", "ok"] E[(.assert (.var "node") "*BatchNodeBuilder")])] (.var "ok") B[
    (.assign E[(.var "concurrency")] E[(.mcall (.var "batchBuilder") "GetBatchConcurrency" E[])]),
    (.assign E[(.var "errorHandling")] E[(.mcall (.var "batchBuilder") "GetBatchErrorHandling" E[])])] B[])])])]),
  (.define ["results"] E[(.call "make" E[(.var "[]Result"), (.call "len" E[(.var "items")])])]),
  (.ifS B[] (.bin ">" (.var "concurrency") (.int 0)) B[
    (.expr (.call "runBatchConcurrent" E[(.var "ctx"), (.var "node"), (.var "items"), (.var "results"), (.var "concurrency"), (.var "errorHandling")]))] B[
    (.expr (.call "runBatchSequential" E[(.var "ctx"), (.var "node"), (.var "items"), (.var "results"), (.var "errorHandling")]))]),
  (.define ["action", "err"] E[(.mcall (.var "node") "Post" E[(.var "ctx"), (.var "shared"), (.var "items"), (.var "results")])]),
  (.ifS B[] (.bin "!=" (.var "err") (.var "nil")) B[
    (.ret E[(.str ""), (.call "fmt.Errorf" E[(.str "run: post failed: %w"), (.var "err")])])] B[]),
  (.ifS B[] (.bin "==" (.var "action") (.str "")) B[
    (.assign E[(.var "action")] E[(.var "DefaultAction")])] B[]),
  (.ret E[(.var "action"), (.var "nil")])] }

def runBatchConcurrent : Func := { name := "runBatchConcurrent", recv := "", params := ["ctx", "node", "items", "results", "concurrency", "errorHandling"], body :=
B[
  (.define ["pool"] E[(.call "NewWorkerPool" E[(.var "concurrency")])]),
  (.deferS (.mcall (.var "pool") "Close" E[])),
  (.declare "mu" "sync.Mutex"),
  (.define ["shouldStop"] E[(.var "false")]),
  (.rangeS "i" "item" (.var "items") B[
    (.define ["idx"] E[(.var "i")]),
    (.define ["itm"] E[(.var "item")]),
    (.expr (.mcall (.var "pool") "Submit" E[(.funcLit [] B[
        (.expr (.mcall (.var "mu") "Lock" E[])),
        (.ifS B[] (.bin "&&" (.var "shouldStop") (.bin "==" (.var "errorHandling") (.str "stop"))) B[
          (.assign E[(.index (.var "results") (.var "idx"))] E[(.call "NewErrorResult" E[(.call "fmt.Errorf" E[(.str "batch stopped due to error")])])]),
          (.expr (.mcall (.var "mu") "Unlock" E[])),
          (.ret E[])] B[]),
        (.expr (.mcall (.var "mu") "Unlock" E[])),
        (.ifS B[] (.bin "!=" (.mcall (.var "ctx") "Err" E[]) (.var "nil")) B[
          (.assign E[(.index (.var "results") (.var "idx"))] E[(.call "NewErrorResult" E[(.call "fmt.Errorf" E[(.str "context cancelled")])])]),
          (.ret E[])] B[]),
        (.define ["execResult", "err"] E[(.call "runExecWithRetries" E[(.var "ctx"), (.var "node"), (.var "itm")])]),
        (.expr (.mcall (.var "mu") "Lock" E[])),
        (.ifS B[] (.bin "!=" (.var "err") (.var "nil")) B[
          (.assign E[(.index (.var "results") (.var "idx"))] E[(.call "NewErrorResult" E[(.var "err")])]),
          (.ifS B[] (.bin "==" (.var "errorHandling") (.str "stop")) B[
            (.assign E[(.var "shouldStop")] E[(.var "true")])] B[])] B[
          (.ifS B[(.define ["r", "ok"] E[(.assert (.var "execResult") "Result")])] (.var "ok") B[
            (.assign E[(.index (.var "results") (.var "idx"))] E[(.var "r")])] B[
            (.assign E[(.index (.var "results") (.var "idx"))] E[(.call "NewResult" E[(.var "execResult")])])])]),
        (.expr (.mcall (.var "mu") "Unlock" E[]))])]))]),
  (.expr (.mcall (.var "pool") "Wait" E[]))] }

def runBatchSequential : Func := { name := "runBatchSequential", recv := "", params := ["ctx", "node", "items", "results", "errorHandling"], body :=
B[
  (.rangeS "i" "item" (.var "items") B[
    (.ifS B[] (.bin "!=" (.mcall (.var "ctx") "Err" E[]) (.var "nil")) B[
      (.assign E[(.index (.var "results") (.var "i"))] E[(.call "NewErrorResult" E[(.call "fmt.Errorf" E[(.str "context cancelled")])])]),
      (.ifS B[] (.bin "==" (.var "errorHandling") (.str "stop")) B[
        (.expr (.call "markUnprocessed" E[(.sliceFrom (.var "results") (.bin "+" (.var "i") (.int 1))), (.str "context cancelled")])),
        .brk] B[]),
      .cont] B[]),
    (.define ["execResult", "err"] E[(.call "runExecWithRetries" E[(.var "ctx"), (.var "node"), (.var "item")])]),
    (.ifS B[] (.bin "!=" (.var "err") (.var "nil")) B[
      (.assign E[(.index (.var "results") (.var "i"))] E[(.call "NewErrorResult" E[(.var "err")])]),
      (.ifS B[] (.bin "==" (.var "errorHandling") (.str "stop")) B[
        (.expr (.call "markUnprocessed" E[(.sliceFrom (.var "results") (.bin "+" (.var "i") (.int 1))), (.str "batch stopped due to error")])),
        .brk] B[])] B[
      (.ifS B[(.define ["r", "ok"] E[(.assert (.var "execResult") "Result")])] (.var "ok") B[
        (.assign E[(.index (.var "results") (.var "i"))] E[(.var "r")])] B[
        (.assign E[(.index (.var "results") (.var "i"))] E[(.call "NewResult" E[(.var "execResult")])])])])])] }

def runExecWithRetries : Func := { name := "runExecWithRetries", recv := "", params := ["ctx", "node", "item"], body :=
B[
  (.define ["maxRetries"] E[(.int 1)]),
  (.define ["wait"] E[(.int 0)]),
  (.ifS B[(.define ["retryable", "ok"] E[(.assert (.var "node") "RetryableNode")])] (.var "ok") B[
    (.assign E[(.var "maxRetries")] E[(.mcall (.var "retryable") "GetMaxRetries" E[])]),
    (.assign E[(.var "wait")] E[(.mcall (.var "retryable") "GetWait" E[])])] B[]),
  (.declare "execResult" "any"),
  (.declare "execErr" "error"),
  (.forS B[(.define ["attempt"] E[(.int 0)])] (.bin "<" (.var "attempt") (.var "maxRetries")) B[(.incr "attempt")] B[
    (.ifS B[] (.bin "!=" (.mcall (.var "ctx") "Err" E[]) (.var "nil")) B[
      (.ret E[(.var "nil"), (.call "fmt.Errorf" E[(.str "context cancelled during retry: %w"), (.mcall (.var "ctx") "Err" E[])])])] B[]),
    (.ifS B[] (.bin "&&" (.bin ">" (.var "attempt") (.int 0)) (.bin ">" (.var "wait") (.int 0))) B[
      (.selectS (Cases.ofList [
        ((.un "<-" (.call "time.After" E[(.var "wait")])), B[]),
        ((.un "<-" (.mcall (.var "ctx") "Done" E[])), B[
          (.ret E[(.var "nil"), (.call "fmt.Errorf" E[(.str "context cancelled during wait: %w"), (.mcall (.var "ctx") "Err" E[])])])])]))] B[]),
    (.assign E[(.var "execResult"), (.var "execErr")] E[(.mcall (.var "node") "Exec" E[(.var "ctx"), (.var "item")])]),
    (.ifS B[] (.bin "==" (.var "execErr") (.var "nil")) B[
      .brk] B[])]),
  (.ifS B[] (.bin "!=" (.var "execErr") (.var "nil")) B[
    (.ifS B[(.define ["fallback", "ok"] E[(.assert (.var "node") "FallbackNode")])] (.var "ok") B[
      (.ret E[(.mcall (.var "fallback") "ExecFallback" E[(.var "item"), (.var "execErr")])])] B[]),
    (.ret E[(.var "nil"), (.var "execErr")])] B[]),
  (.ret E[(.var "execResult"), (.var "nil")])] }

def all : List Func := [As, BaseNode_Exec, BaseNode_ExecFallback, BaseNode_GetBatchConcurrency, BaseNode_GetBatchErrorHandling, BaseNode_GetMaxRetries, BaseNode_GetWait, BaseNode_Post, BaseNode_Prep, BatchError_Error, BatchNode_Post, BatchNode_Prep, BatchNodeBuilder_Exec, BatchNodeBuilder_Post, BatchNodeBuilder_Prep, BatchNodeBuilder_WithBatchConcurrency, BatchNodeBuilder_WithBatchErrorHandling, BatchNodeBuilder_WithExecFunc, BatchNodeBuilder_WithExecFuncAny, BatchNodeBuilder_WithMaxRetries, BatchNodeBuilder_WithPostFunc, BatchNodeBuilder_WithPrepFunc, BatchNodeBuilder_WithWait, CustomNode_Exec, CustomNode_ExecFallback, CustomNode_Post, CustomNode_Prep, Flow_Connect, Flow_Exec, Flow_Post, Flow_Prep, Flow_Run, MustAs, NewBaseNode, NewBatchNode, NewErrorResult, NewFlow, NewNode, NewResult, NewSharedStore, NewWorkerPool, NodeBuilder_Exec, NodeBuilder_ExecFallback, NodeBuilder_GetMaxRetries, NodeBuilder_GetWait, NodeBuilder_Post, NodeBuilder_Prep, NodeBuilder_WithBatchConcurrency, NodeBuilder_WithBatchErrorHandling, NodeBuilder_WithExecFallbackFunc, NodeBuilder_WithExecFunc, NodeBuilder_WithExecFuncAny, NodeBuilder_WithMaxRetries, NodeBuilder_WithPostFunc, NodeBuilder_WithPostFuncAny, NodeBuilder_WithPrepFunc, NodeBuilder_WithPrepFuncAny, NodeBuilder_WithWait, R, Result_AsBool, Result_AsBoolOr, Result_AsFloat64, Result_AsFloat64Or, Result_AsInt, Result_AsIntOr, Result_AsMap, Result_AsMapOr, Result_AsSlice, Result_AsSliceOr, Result_AsString, Result_AsStringOr, Result_Bind, Result_Error, Result_IsError, Result_IsNil, Result_MustBind, Result_MustBool, Result_MustFloat64, Result_MustInt, Result_MustMap, Result_MustSlice, Result_MustString, Result_Type, Result_Value, Run, SharedStore_Bind, SharedStore_Clear, SharedStore_Delete, SharedStore_Get, SharedStore_GetAll, SharedStore_GetBool, SharedStore_GetBoolOr, SharedStore_GetFloat64, SharedStore_GetFloat64Or, SharedStore_GetInt, SharedStore_GetIntOr, SharedStore_GetMap, SharedStore_GetMapOr, SharedStore_GetSlice, SharedStore_GetSliceOr, SharedStore_GetString, SharedStore_GetStringOr, SharedStore_Has, SharedStore_Keys, SharedStore_Len, SharedStore_Merge, SharedStore_MustBind, SharedStore_Set, ToSlice, WithBatchConcurrency, WithBatchErrorHandling, WithExecFallbackFunc, WithExecFunc, WithExecFuncAny, WithMaxRetries, WithPostFunc, WithPostFuncAny, WithPrepFunc, WithPrepFuncAny, WithWait, WorkerPool_Close, WorkerPool_Submit, WorkerPool_Wait, WorkerPool_worker, customNodeOption_apply, markUnprocessed, runBatch, runBatchConcurrent, runBatchSequential, runExecWithRetries]

end Flyt.Expected.IR
