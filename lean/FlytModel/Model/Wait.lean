import FlytModel.Model.Batch
/-!
# Retry waits (flyt.go:719-738, batch.go:330-347) — the parts of the model property C20 needs
in addition to `Model/Run.lean` and `Model/Batch.lean`.

The wait itself is already in `attempts` (`Model/Run.lean`): before attempt `k > 0` with `wait > 0`
the code runs `select { case <-time.After(wait): … case <-ctx.Done(): return … ctx.Err() }`; the
model emits `wait … fired` with `fired = true` when the timer wins and `fired = false` when the
scripted asynchronous cancellation (`waitCancel k`) wins, in which case the loop returns the
context's error.  "`fired = true` ⇒ at least `wait` elapsed" is `time.After`'s contract (trusted).

What is added here is the one schedule of `runBatchConcurrent` (batch.go:270-315) that the real-time
family can observe without depending on the scheduler when an asynchronous cancellation is involved:
*every task has passed its `shouldStop` / `ctx.Err()` checks before the cancellation arrives*.
The harness enforces that schedule (it cancels only after every item has entered its first attempt),
it needs `items ≤ workers` and continue-mode error handling.  Without any cancellation this function
yields, per item, exactly the events of the serial schedule `itemsSerialPool`.
-/
namespace Flyt

/-- the slot `runBatchConcurrent` / `runBatchSequential` store for an item's outcome
    (batch.go:297-309) -/
def slotOfItemRes : ItemRes → Result
  | .error e => newErrorResult e
  | .slot s => s

/-- `runBatchConcurrent`, continue mode, every task started on a live context: each item runs
    `runExecWithRetries` on its own.  Returns events (item after item — the driver compares
    per item), whether any item saw the context cancelled, and the slots. -/
def itemsAllLive (kind : CtxKind) (n : NodeId) (v : Nat) (cfg : BatchCfg) (scr : BatchScript) :
    (items : List Result) → (i : Nat) → List Ev × Bool × List Result
  | [], _ => ([], false, [])
  | it :: rest, i =>
    let r := runItem kind n v cfg i it (scr.item i) .live
    let rs := itemsAllLive kind n v cfg scr rest (i + 1)
    (r.1 ++ rs.1, r.2.1.isDone || rs.2.1, slotOfItemRes r.2.2 :: rs.2.2)

/-- `runBatch` (batch.go:156-232) with the executor above for `conc ≥ 2`; for `conc < 2` it *is*
    `runBatch`. -/
def runBatchW (kind : CtxKind) (n : NodeId) (v : Nat) (sid : StoreId) (cfg : BatchCfg) (scr : BatchScript)
    (ctx : Ctx) : List Ev × Ctx × Outcome :=
  if cfg.conc < 2 then runBatch kind n v sid cfg scr ctx else
  let ctx1 := ctx.after kind scr.prep.cancels
  match scr.prep.res with
  | .error e => ([.bprep n v sid], ctx1, .err (.user e))
  | .ok l =>
    let items := normItems cfg.shape l
    if items.isEmpty then runBatch kind n v sid cfg scr ctx else
    let r := itemsAllLive kind n v cfg scr items 0
    let ctx2 : Ctx := if r.2.1 then .done kind else ctx1
    if cfg.hasPost then
      let ctx3 := ctx2.after kind scr.post.cancels
      let pe := Ev.bpost n v sid (items.map Result.box) (r.2.2.map Result.box)
      match scr.post.res with
      | .error e => ([.bprep n v sid] ++ r.1 ++ [pe], ctx3, .err (.user e))
      | .ok a => ([.bprep n v sid] ++ r.1 ++ [pe], ctx3, .ok (norm a))
    else ([.bprep n v sid] ++ r.1, ctx2, .ok defaultAction)

end Flyt
