import FlytModel.Model.Flow
/-!
# `flyt.Run` on a `*Flow` whose embedded `BaseNode` was given a retry budget

`Flow` embeds `*BaseNode`, so `flyt.WithMaxRetries(n)(flow.BaseNode)` gives a flow a retry budget like any other node:
`Run` (flyt.go:679-761) then calls `Flow.Exec` — the whole path from the start node — up to `n` times, until one attempt
ends without error; the fallback is `BaseNode.ExecFallback` (returns the error), so after `n` failed attempts the run fails
with the error of the LAST attempt. Between attempts only the context is checked (wait 0; waits are the subject of C20 on
leaf nodes). Visit counters run on across attempts: the nodes see one visit after the other, whatever attempt it belongs to.

`Model/Flow.lean`'s flow node is the default-budget case (`runFlowRetried_one`). This file is additive: the root of a run
may be such a flow; nested flows keep the default budget.
-/
namespace Flyt

/-- the attempts of the retry loop of `Run` on a flow: `k` attempts left, `last` = outcome of the previous attempt.
    Returns the events, the state, the outcome and the number of attempts made. -/
def retryLoop (env : Env) (fuel : Nat) (tbl : Table) (s : NodeId) (sid : StoreId) :
    Nat → Outcome → RunSt → List Ev × RunSt × Outcome × Nat
  | 0, last, st => ([], st, last, 0)                       -- budget used up: pass-through fallback, the last error
  | k + 1, _, st =>
    match st.ctx with
    | .done c => ([], st, .err (.ctx c), 0)                -- "run: context cancelled during retry"
    | .live =>
      match flowLoop env fuel tbl s sid st with
      | (evs, st', .ok a) => (evs, st', .ok a, 1)          -- `break` on the first attempt without error
      | (evs, st', out) =>
        let r := retryLoop env fuel tbl s sid k out st'
        (evs ++ r.1, r.2.1, r.2.2.1, r.2.2.2 + 1)

/-- `flyt.Run(ctx, flow, shared)` for a flow with retry budget `budget` (wait 0) -/
def runFlowRetried (env : Env) (fuel : Nat) (start : Option NodeId) (ops : List ConnOp) (budget : Nat)
    (sid : StoreId) (st : RunSt) : List Ev × RunSt × Outcome × Nat :=
  match st.ctx with
  | .done c => ([], st, .err (.ctx c), 0)
  | .live =>
    if budget = 0 then ([], st, .ok defaultAction, 0)      -- no attempt: exec result nil, Flow.Post gives the default action
    else
      match start with
      | none => ([], st, .err (.fw .noStart), budget)      -- every attempt fails at once, nothing is called
      | some s =>
        match retryLoop env fuel (buildTable ops) s sid budget (.err (.fw .other)) st with
        | (evs, st', .ok a, n) => (evs, st', .ok (norm a), n)   -- Flow.Post + Run's normalisation
        | r => r

/-! ### the clauses of C02 at the level of a flow -/

/-- never more than `budget` attempts -/
theorem retryLoop_attempts_le (env : Env) (fuel : Nat) (tbl : Table) (s : NodeId) (sid : StoreId) :
    ∀ (k : Nat) (last : Outcome) (st : RunSt), (retryLoop env fuel tbl s sid k last st).2.2.2 ≤ k
  | 0, _, _ => by simp [retryLoop]
  | k + 1, last, st => by
    unfold retryLoop
    cases hc : st.ctx with
    | done c => simp
    | live =>
      simp only
      rcases hf : flowLoop env fuel tbl s sid st with ⟨evs, st', out⟩
      cases out with
      | ok a => simp
      | err e => simpa using retryLoop_attempts_le env fuel tbl s sid k (.err e) st'
      | both a e => simpa using retryLoop_attempts_le env fuel tbl s sid k (.both a e) st'
      | fuel => simpa using retryLoop_attempts_le env fuel tbl s sid k .fuel st'

/-- a run that gives up with something other than a context error, on a context that is still live, has made ALL its
    attempts: the budget is never cut short -/
theorem retryLoop_exhausts (env : Env) (fuel : Nat) (tbl : Table) (s : NodeId) (sid : StoreId) :
    ∀ (k : Nat) (last : Outcome) (st : RunSt),
      (∀ a, (retryLoop env fuel tbl s sid k last st).2.2.1 ≠ .ok a) →
      (retryLoop env fuel tbl s sid k last st).2.1.ctx = .live →
      (retryLoop env fuel tbl s sid k last st).2.2.2 = k
  | 0, _, _ => by simp [retryLoop]
  | k + 1, last, st => by
    unfold retryLoop
    cases hc : st.ctx with
    | done c => intro _ h; simp [hc] at h
    | live =>
      simp only
      rcases hf : flowLoop env fuel tbl s sid st with ⟨evs, st', out⟩
      cases out with
      | ok a => intro h; exact absurd rfl (h a)
      | err e =>
        intro h1 h2
        have := retryLoop_exhausts env fuel tbl s sid k (.err e) st' (by simpa using h1) (by simpa using h2)
        simpa using this
      | both a e =>
        intro h1 h2
        have := retryLoop_exhausts env fuel tbl s sid k (.both a e) st' (by simpa using h1) (by simpa using h2)
        simpa using this
      | fuel =>
        intro h1 h2
        have := retryLoop_exhausts env fuel tbl s sid k .fuel st' (by simpa using h1) (by simpa using h2)
        simpa using this

/-- **C02 for a flow, bound**: `Run` on a flow with budget `N` makes at most `N` attempts of `Flow.Exec` -/
theorem runFlowRetried_attempts_le (env : Env) (fuel : Nat) (start : Option NodeId) (ops : List ConnOp) (N : Nat)
    (sid : StoreId) (st : RunSt) : (runFlowRetried env fuel start ops N sid st).2.2.2 ≤ N := by
  unfold runFlowRetried
  cases hc : st.ctx with
  | done c => simp
  | live =>
    simp only
    split
    · simp
    · cases start with
      | none => simp
      | some s =>
        simp only
        have h := retryLoop_attempts_le env fuel (buildTable ops) s sid N (.err (.fw .other)) st
        rcases hr : retryLoop env fuel (buildTable ops) s sid N (.err (.fw .other)) st with ⟨evs, st', out, n⟩
        rw [hr] at h
        cases out <;> simpa using h

/-- **C02 for a flow, exactness**: a run that fails while its context is still live has made all `N` attempts -/
theorem runFlowRetried_exhausts (env : Env) (fuel : Nat) (start : Option NodeId) (ops : List ConnOp) (N : Nat)
    (sid : StoreId) (st : RunSt)
    (hfail : ∀ a, (runFlowRetried env fuel start ops N sid st).2.2.1 ≠ .ok a)
    (hlive : (runFlowRetried env fuel start ops N sid st).2.1.ctx = .live) :
    (runFlowRetried env fuel start ops N sid st).2.2.2 = N := by
  unfold runFlowRetried at hfail hlive ⊢
  cases hc : st.ctx with
  | done c => simp [hc] at hlive
  | live =>
    simp only [hc] at hfail hlive ⊢
    split
    · rename_i h0; subst h0; simp at hfail
    · rename_i h0
      simp only [h0, if_false] at hfail hlive
      cases start with
      | none => simp
      | some s =>
        simp only at hfail hlive ⊢
        have h := retryLoop_exhausts env fuel (buildTable ops) s sid N (.err (.fw .other)) st
        rcases hr : retryLoop env fuel (buildTable ops) s sid N (.err (.fw .other)) st with ⟨evs, st', out, n⟩
        rw [hr] at h hfail hlive
        cases out with
        | ok a => simp at hfail
        | err e => simpa using h (by simp) (by simpa using hlive)
        | both a e => simpa using h (by simp) (by simpa using hlive)
        | fuel => simpa using h (by simp) (by simpa using hlive)

/-- with the default budget this is the flow branch of `runNode` -/
theorem runFlowRetried_one (env : Env) (fuel : Nat) (id : NodeId) (start : Option NodeId) (ops : List ConnOp)
    (sid : StoreId) (st : RunSt) (h : env.arena id = .flow start ops) :
    let r := runFlowRetried env fuel start ops 1 sid st
    (r.1, r.2.1, r.2.2.1) = runNode env (fuel + 1) id sid st := by
  simp only [runFlowRetried, runNode, h]
  cases hc : st.ctx with
  | done c => simp
  | live =>
    simp only
    cases start with
    | none => simp
    | some s =>
      simp only [retryLoop, hc]
      rcases hf : flowLoop env fuel (buildTable ops) s sid st with ⟨evs, st', out⟩
      cases out <;> simp

end Flyt
