import FlytModel.Core
/-!
# `flyt.Run` on a leaf node (flyt.go:681-761) and the function-style adapters
(`CustomNode.Prep/Exec/Post/ExecFallback`, flyt.go:1117-1164; Any-style adapters
flyt.go:1325-1384, builder.go:91-122).

`runLeaf` is a total function of (configuration, callback script, context) to
(callback events, context afterwards, outcome).
-/
namespace Flyt

/-- How a phase's user callback is reached.
* `absent`  – not provided: `BaseNode`'s default method runs, no user code.
* `direct`  – a method of a user struct, called by `Run` directly.
* `res`     – Result-style function behind `CustomNode`.
* `any`     – Any-style function behind `CustomNode` (wrapped into a Result-style one). -/
inductive Style | absent | direct | res | any
  deriving DecidableEq, Repr, Inhabited

/-- `ExecFallback`: not implemented at all / `BaseNode`'s pass-through / user-provided -/
inductive FbKind | absent | passThrough | custom
  deriving DecidableEq, Repr, Inhabited

structure LeafCfg where
  retryable : Bool        -- the node implements `RetryableNode`
  budget : Nat            -- `GetMaxRetries()` (values ≤ 0 are 0 here)
  wait : Nat              -- `GetWait()` in ms
  fb : FbKind
  prepS : Style
  execS : Style
  postS : Style
  deriving DecidableEq, Repr, Inhabited

/-- `maxRetries` as read by `Run` -/
def LeafCfg.effBudget (c : LeafCfg) : Nat := if c.retryable then c.budget else 1
/-- `wait` as read by `Run` -/
def LeafCfg.effWait (c : LeafCfg) : Nat := if c.retryable then c.wait else 0

structure LeafScript where
  prep : Out Val
  exec : Nat → Out Val
  /-- an asynchronous cancellation arrives while waiting before attempt k -/
  waitCancel : Nat → Bool
  fb : Out Val
  post : Out Action

/-! ### adapters -/

/-- value `Prep` returns to `Run`, given what the user's prep callback returned -/
def prepRet (s : Style) (x : Val) : Val :=
  match s with
  | .res => (toResult x).valueOf           -- `result.Value()`
  | _ => x                                 -- direct; any: `NewResult(v).Value() = v`

/-- what the user's exec callback observes as its argument, given the value `Run` passes in -/
def execArg (s : Style) (pv : Val) : Val :=
  match s with
  | .res => (match pv.asResult? with | some r => r.box | none => (newResult pv).box)
  | .any => (match pv.asResult? with | some r => r.valueOf | none => pv)
  | _ => pv

/-- value `Exec` returns to `Run`, given what the user's exec callback returned -/
def execRet (s : Style) (x : Val) : Val :=
  match s with
  | .res => let r := toResult x; if r.isError then r.box else r.valueOf
  | _ => x                                 -- direct; any: `NewResult(x)` is never an error

/-- the exec result as wrapped by `CustomNode.Post` -/
def wrapExecForPost (ev : Val) : Result :=
  match ev.asResult? with
  | some r => if r.isError then r else newResult ev     -- an error Result is passed through as is
  | none => newResult ev

/-- what the user's post callback observes, given what `Run` passes in -/
def postArgs (s : Style) (pv ev : Val) : Val × Val :=
  match s with
  | .res => ((newResult pv).box, (wrapExecForPost ev).box)
  | .any => ((newResult pv).valueOf, (wrapExecForPost ev).valueOf)
  | _ => (pv, ev)

/-! ### the exec phase: retry loop -/

inductive AttemptRes
  | ok (r : Val)                 -- loop left with `execErr == nil`
  | failed (e : Nat)             -- budget exhausted, last attempt's error
  | cancelled (k : CtxKind)      -- early return with the context's error
  deriving DecidableEq, Repr

/-- `for attempt := k; attempt < k + rem; attempt++ { … }`; `last` = `execErr` so far.
    Emits `exec`/`wait` events through `mkExec` / `mkWait` so the batch copy of the loop can
    reuse the definition with its own event constructors. -/
def attempts (kind : CtxKind) (mkExec : Nat → Ev) (mkWait : Nat → Bool → Ev)
    (exec : Nat → Out Val) (waitCancel : Nat → Bool) (execS : Style) (wait : Nat) :
    (k rem : Nat) → (last : Option Nat) → Ctx → List Ev × Ctx × AttemptRes
  | _, 0, last, ctx =>
      ([], ctx, match last with | none => .ok Val.nil | some e => .failed e)
  | k, rem + 1, _, ctx =>
    match ctx with
    | .done kd => ([], ctx, .cancelled kd)                       -- loop-top `ctx.Err()` check
    | .live =>
      if k > 0 ∧ wait > 0 ∧ waitCancel k then                    -- select: ctx.Done() first
        ([mkWait k false], .done kind, .cancelled kind)
      else
        let wev := if k > 0 ∧ wait > 0 then [mkWait k true] else []
        match execS with
        | .absent =>                                             -- BaseNode.Exec: (nil, nil)
          (wev, ctx, .ok Val.nil)
        | _ =>
          let o := exec k
          let ctx' := ctx.after kind o.cancels
          match o.res with
          | .ok x => (wev ++ [mkExec k], ctx', .ok (execRet execS x))
          | .error e =>
            let (evs, c, r) := attempts kind mkExec mkWait exec waitCancel execS wait (k + 1) rem (some e) ctx'
            (wev ++ [mkExec k] ++ evs, c, r)

/-- fallback handling after the loop: `(events, ctx, exec-phase result or the run's error)` -/
def fallbackPhase (kind : CtxKind) (fb : FbKind) (mkFb : Nat → Ev) (fbOut : Out Val)
    (ctx : Ctx) (r : AttemptRes) : List Ev × Ctx × Except ErrRoot Val :=
  match r with
  | .ok x => ([], ctx, .ok x)
  | .cancelled k => ([], ctx, .error (.ctx k))
  | .failed e =>
    match fb with
    | .absent => ([], ctx, .error (.user e))
    | .passThrough => ([], ctx, .error (.user e))
    | .custom =>
      let ctx' := ctx.after kind fbOut.cancels
      match fbOut.res with
      | .ok x => ([mkFb e], ctx', .ok x)
      | .error e' => ([mkFb e], ctx', .error (.user e'))

/-- `flyt.Run` for a non-batch, non-flow node. -/
def runLeaf (kind : CtxKind) (n : NodeId) (v : Nat) (sid : StoreId) (cfg : LeafCfg) (scr : LeafScript)
    (ctx : Ctx) : List Ev × Ctx × Outcome :=
  match ctx with
  | .done k => ([], ctx, .err (.ctx k))                           -- "run: context cancelled"
  | .live =>
    -- prep
    let (pev, ctx1, pres) : List Ev × Ctx × Except Nat Val :=
      match cfg.prepS with
      | .absent => ([], ctx, .ok Val.nil)
      | s => ([.prep n v sid], ctx.after kind scr.prep.cancels, scr.prep.res.map (prepRet s))
    match pres with
    | .error e => (pev, ctx1, .err (.user e))                     -- "run: prep failed"
    | .ok pv =>
      match ctx1 with
      | .done k => (pev, ctx1, .err (.ctx k))                     -- "cancelled after prep"
      | .live =>
        let (aev, ctx2, ares) :=
          attempts kind (fun k => .exec n v k (execArg cfg.execS pv)) (fun k f => .wait n v k cfg.effWait f)
            scr.exec scr.waitCancel cfg.execS cfg.effWait 0 cfg.effBudget none ctx1
        let (fev, ctx3, eres) := fallbackPhase kind cfg.fb (fun e => .fb n v pv (.user e)) scr.fb ctx2 ares
        match eres with
        | .error e => (pev ++ aev ++ fev, ctx3, .err e)
        | .ok ev =>
          match cfg.postS with
          | .absent => (pev ++ aev ++ fev, ctx3, .ok defaultAction)
          | s =>
            let pa := postArgs s pv ev
            let ctx4 := ctx3.after kind scr.post.cancels
            match scr.post.res with
            | .error e => (pev ++ aev ++ fev ++ [.post n v sid pa.1 pa.2], ctx4, .err (.user e))
            | .ok a => (pev ++ aev ++ fev ++ [.post n v sid pa.1 pa.2], ctx4, .ok (norm a))

end Flyt
