import FlytModel.Model.Batch
/-!
# `runBatchConcurrent` on the worker pool, as a labelled transition system (batch.go:257-302,
flyt.go:935-1013)

`apply : BState → Label → Option BState` is *executable*: the gated simulation (`simulate`), the
correspondence driver and the theorems all go through this one function, so everything `simulate`
visits is reachable by construction. Every schedule of the real code is a path of this LTS at the
granularity of: one channel send by the submitter, one receive by a worker, one critical section /
context check / loop iteration of a task, the return of a (gated) user exec call.
-/
namespace Flyt.Conc
open Flyt

/-- scripted behaviour of item `i`: outcome of attempt `k`, and of the fallback -/
structure Cfg where
  n : Nat                      -- number of items
  w : Nat                      -- workers = max 1 concurrency
  cap : Nat                    -- capacity of the task channel
  stop : Bool                  -- errorHandling == "stop"
  budget : Nat                 -- maxRetries
  fb : FbKind
  execS : Style
  exec : Nat → Nat → Out Val   -- item → attempt → outcome
  fbOut : Nat → Out Val
  kind : CtxKind

/-- program counter of a task (the closure submitted for item `i`) -/
inductive Pc
  | stopCheck                               -- about to lock mu and read shouldStop
  | ctxCheck                                -- about to test ctx.Err()
  | loopTop (k : Nat) (last : Option Nat)   -- top of the retry loop, attempt k, execErr so far
  | inExec (k : Nat)                        -- inside the user's exec callback (gated)
  | store (r : Result) (failed : Bool)      -- about to lock mu and write results[idx]; `failed` = runExecWithRetries
                                            -- returned an error (only then is shouldStop raised — an error *Result*
                                            -- returned as a value with a nil error does not stop the batch)
  deriving DecidableEq, Repr

inductive Obs
  | start (i k : Nat)          -- exec callback of item i, attempt k entered
  | done (i k : Nat)           -- … returned
  | fb (i : Nat)               -- fallback callback of item i ran
  | cancel
  | post
  deriving DecidableEq, Repr

structure BState where
  next : Nat                          -- submitter: next item to hand to the pool
  queue : List Nat                    -- task channel (FIFO)
  running : List (Nat × Pc)           -- tasks held by workers
  idle : Nat                          -- workers blocked in the select of `worker`
  slots : List (Option Result)        -- `results`; none = never written (zero Result)
  shouldStop : Bool
  cancelled : Bool
  posted : Bool
  log : List Obs                      -- newest first
  deriving Repr

def init (c : Cfg) : BState :=
  { next := 0, queue := [], running := [], idle := c.w, slots := List.replicate c.n none,
    shouldStop := false, cancelled := false, posted := false, log := [] }

inductive Label
  | submit                    -- pool.Submit for item `next`: wg.Add(1); tasks <- closure
  | take                      -- an idle worker receives the head of the queue
  | step (i : Nat)            -- task i performs its next internal step
  | ret (i : Nat)             -- the user's exec callback of task i returns (a gate is released)
  | cancel                    -- the context is cancelled (from anywhere)
  | waitRet                   -- pool.Wait returns; post runs
  deriving DecidableEq, Repr

def setSlot (sl : List (Option Result)) (i : Nat) (r : Result) : List (Option Result) := sl.set i (some r)

def pcOf (s : BState) (i : Nat) : Option Pc := (s.running.find? (·.1 = i)).map (·.2)

def setPc (s : BState) (i : Nat) (pc : Pc) : BState :=
  { s with running := s.running.map fun p => if p.1 = i then (i, pc) else p }

/-- the task returns: deferred wg.Done, the worker goes back to its select -/
def finish (s : BState) (i : Nat) : BState :=
  { s with running := s.running.filter (·.1 ≠ i), idle := s.idle + 1 }

def apply (c : Cfg) (s : BState) : Label → Option BState
  | .submit =>
    if s.next < c.n ∧ s.queue.length < c.cap then
      some { s with next := s.next + 1, queue := s.queue ++ [s.next] }
    else none
  | .take =>
    match s.queue with
    | [] => none
    | t :: q =>
      if s.idle > 0 then some { s with queue := q, running := s.running ++ [(t, .stopCheck)], idle := s.idle - 1 }
      else none
  | .cancel => if s.cancelled then none else some { s with cancelled := true, log := .cancel :: s.log }
  | .waitRet =>
    if s.next = c.n ∧ s.queue = [] ∧ s.running = [] ∧ ¬ s.posted then
      some { s with posted := true, log := .post :: s.log }
    else none
  | .ret i =>
    match pcOf s i with
    | some (.inExec k) =>
      let o := c.exec i k
      let s := { s with cancelled := s.cancelled || o.cancels, log := .done i k :: s.log }
      (match o.res with
       | .ok x => some (setPc s i (.store (slotOfVal (execRet c.execS x)) false))
       | .error e => some (setPc s i (.loopTop (k + 1) (some e))))
    | _ => none
  | .step i =>
    match pcOf s i with
    | some .stopCheck =>
      if s.shouldStop ∧ c.stop then
        some (finish { s with slots := setSlot s.slots i (newErrorResult (.fw .batchStopped)) } i)
      else some (setPc s i .ctxCheck)
    | some .ctxCheck =>
      if s.cancelled then
        some (finish { s with slots := setSlot s.slots i (newErrorResult (.fw .batchCancelled)) } i)
      else some (setPc s i (.loopTop 0 none))
    | some (.loopTop k last) =>
      if k < c.budget then
        if s.cancelled then some (setPc s i (.store (newErrorResult (.ctx c.kind)) true))
        else
          match c.execS with
          | .absent => some (setPc s i (.store (slotOfVal Val.nil) false))
          | _ => some (setPc { s with log := .start i k :: s.log } i (.inExec k))
      else
        (match last with
         | none => some (setPc s i (.store (slotOfVal Val.nil) false))
         | some e =>
           match c.fb with
           | .custom =>
             let o := c.fbOut i
             let s := { s with cancelled := s.cancelled || o.cancels, log := .fb i :: s.log }
             (match o.res with
              | .ok x => some (setPc s i (.store (slotOfVal x) false))
              | .error e' => some (setPc s i (.store (newErrorResult (.user e')) true)))
           | _ => some (setPc s i (.store (newErrorResult (.user e)) true)))
    | some (.store r failed) =>
      some (finish { s with slots := setSlot s.slots i r,
                            shouldStop := s.shouldStop || (failed && c.stop) } i)
    | _ => none

/-! ### deterministic simulation of a *gated* run -/

/-- first enabled internal label (everything except `ret`, `cancel`): a task step, else a take, else a
    submit, else the return of Wait -/
def nextInternal (c : Cfg) (s : BState) : Option Label :=
  match s.running.find? (fun p => match p.2 with | .inExec _ => false | _ => true) with
  | some (i, _) => some (.step i)
  | none =>
    if s.queue ≠ [] ∧ s.idle > 0 then some .take
    else if s.next < c.n ∧ s.queue.length < c.cap then some .submit
    else if s.next = c.n ∧ s.queue = [] ∧ s.running = [] ∧ ¬ s.posted then some .waitRet
    else none

/-- run internal steps until quiescence (only gated exec calls remain, or the run is over) -/
def quiesce (c : Cfg) : Nat → BState → BState
  | 0, s => s
  | fuel + 1, s =>
    match nextInternal c s with
    | none => s
    | some l => match apply c s l with
      | some s' => quiesce c fuel s'
      | none => s

/-- a decision of the gating harness -/
inductive Decision | release (i : Nat) | cancel
  deriving DecidableEq, Repr

def decide1 (c : Cfg) (fuel : Nat) (s : BState) : Decision → Option BState
  | .release i => (apply c s (.ret i)).map (quiesce c fuel)
  | .cancel => (apply c s .cancel).map (quiesce c fuel)

/-- states at the quiescent points: after start-up and after each decision -/
def simulate (c : Cfg) (fuel : Nat) (ds : List Decision) : Option (List BState) :=
  let s0 := quiesce c fuel (init c)
  let rec go (s : BState) : List Decision → Option (List BState)
    | [] => some []
    | d :: rest =>
      match decide1 c fuel s d with
      | none => none
      | some s' => (go s' rest).map (s' :: ·)
  (go s0 ds).map (s0 :: ·)

/-- tasks currently parked in a user exec call -/
def parked (s : BState) : List (Nat × Nat) :=
  s.running.filterMap fun p => match p.2 with | .inExec k => some (p.1, k) | _ => none

end Flyt.Conc
