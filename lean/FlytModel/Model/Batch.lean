import FlytModel.Model.Run
/-!
# Batch nodes: `runBatch`, `runBatchSequential`, `runExecWithRetries` (batch.go:156-344)

The concurrent executor under *every* schedule is the LTS of `Model/BatchConc.lean`; here the
concurrent path appears only through its serial schedule (`itemsSerialPool`): tasks run one after
the other in index order, each to completion — exactly what one worker does, and for c ≥ 2 one
legal schedule among many (used for runs whose result does not depend on the schedule).
-/
namespace Flyt

/-- Go type of the value the batch node's prep returned -/
inductive PrepShape
  | results   -- `[]Result` (through `batchPrepFunc`)
  | anys      -- `[]any`
  | typed     -- another slice type (`[]int`, `[]string`, …): goes through `ToSlice`
  | single    -- a non-slice value: `ToSlice` wraps it
  | nilv      -- nil
  deriving DecidableEq, Repr, Inhabited

structure BatchCfg where
  budget : Nat
  wait : Nat
  fb : FbKind            -- passThrough (BaseNode) or custom (WithExecFallbackFunc)
  conc : Nat             -- `GetBatchConcurrency()`, values ≤ 0 are 0
  stop : Bool            -- `GetBatchErrorHandling() == "stop"`
  execS : Style          -- res | any | absent
  hasPost : Bool         -- batchPostFunc set
  shape : PrepShape
  deriving DecidableEq, Repr, Inhabited

structure ItemScript where
  exec : Nat → Out Val
  waitCancel : Nat → Bool
  fb : Out Val

structure BatchScript where
  prep : Out (List Val)
  item : Nat → ItemScript
  post : Out Action

/-- `runBatch`'s conversion of the prep value to `[]Result` (batch.go:163-180) -/
def normItems (shape : PrepShape) (l : List Val) : List Result :=
  match shape with
  | .results => l.map toResult
  | .anys => l.map newResult
  | .typed => l.map newResult
  | .single => (l.take 1).map newResult
  | .nilv => []

/-- `results[i] = r` if the exec value is a `Result`, else `NewResult(execResult)` -/
def slotOfVal (x : Val) : Result := toResult x

inductive ItemRes
  | slot (r : Result)        -- runExecWithRetries returned without error
  | error (e : ErrRoot)      -- … returned an error
  deriving DecidableEq, Repr

/-- `runExecWithRetries` for item `i` (batch.go:304-344): the same loop as `Run`'s, duplicated. -/
def runItem (kind : CtxKind) (n : NodeId) (v : Nat) (cfg : BatchCfg) (i : Nat) (item : Result)
    (scr : ItemScript) (ctx : Ctx) : List Ev × Ctx × ItemRes :=
  let (aev, ctx1, ares) :=
    attempts kind (fun k => .bexec n v i k (execArg cfg.execS item.box)) (fun k f => .bwait n v i k cfg.wait f)
      scr.exec scr.waitCancel cfg.execS cfg.wait 0 cfg.budget none ctx
  let (fev, ctx2, eres) := fallbackPhase kind cfg.fb (fun e => .bfb n v i item.box (.user e)) scr.fb ctx1 ares
  match eres with
  | .ok x => (aev ++ fev, ctx2, .slot (slotOfVal x))
  | .error e => (aev ++ fev, ctx2, .error e)

def zeroSlot : Result := ⟨Val.nil, none⟩

/-- `runBatchSequential` from item `i` on; `slots` is the result slice so far (length n).
    Returns events, context, final slots. -/
def itemsSeq (kind : CtxKind) (n : NodeId) (v : Nat) (cfg : BatchCfg) (scr : BatchScript) :
    (items : List Result) → (i : Nat) → Ctx → List Ev × Ctx × List Result
  | [], _, ctx => ([], ctx, [])
  | it :: rest, i, ctx =>
    match ctx with
    | .done _ =>
      -- results[i] = "context cancelled"; stop ⇒ the remaining slots are marked the same way, break
      if cfg.stop then
        ([], ctx, newErrorResult (.fw .batchCancelled) :: rest.map (fun _ => newErrorResult (.fw .batchCancelled)))
      else
        let (evs, c, sl) := itemsSeq kind n v cfg scr rest (i + 1) ctx
        (evs, c, newErrorResult (.fw .batchCancelled) :: sl)
    | .live =>
      let (ev1, ctx1, r) := runItem kind n v cfg i it (scr.item i) ctx
      match r with
      | .error e =>
        if cfg.stop then
          (ev1, ctx1, newErrorResult e :: rest.map (fun _ => newErrorResult (.fw .batchStopped)))
        else
          let (evs, c, sl) := itemsSeq kind n v cfg scr rest (i + 1) ctx1
          (ev1 ++ evs, c, newErrorResult e :: sl)
      | .slot s =>
        let (evs, c, sl) := itemsSeq kind n v cfg scr rest (i + 1) ctx1
        (ev1 ++ evs, c, s :: sl)

/-- The serial schedule of `runBatchConcurrent` (batch.go:257-302): every task body in index
    order, each run to completion; `stopped` is the `shouldStop` flag. -/
def itemsSerialPool (kind : CtxKind) (n : NodeId) (v : Nat) (cfg : BatchCfg) (scr : BatchScript) :
    (items : List Result) → (i : Nat) → (stopped : Bool) → Ctx → List Ev × Ctx × List Result
  | [], _, _, ctx => ([], ctx, [])
  | it :: rest, i, stopped, ctx =>
    if stopped ∧ cfg.stop then
      let (evs, c, sl) := itemsSerialPool kind n v cfg scr rest (i + 1) stopped ctx
      (evs, c, newErrorResult (.fw .batchStopped) :: sl)
    else
      match ctx with
      | .done _ =>
        let (evs, c, sl) := itemsSerialPool kind n v cfg scr rest (i + 1) stopped ctx
        (evs, c, newErrorResult (.fw .batchCancelled) :: sl)
      | .live =>
        let (ev1, ctx1, r) := runItem kind n v cfg i it (scr.item i) ctx
        match r with
        | .error e =>
          let (evs, c, sl) := itemsSerialPool kind n v cfg scr rest (i + 1) (stopped || cfg.stop) ctx1
          (ev1 ++ evs, c, newErrorResult e :: sl)
        | .slot s =>
          let (evs, c, sl) := itemsSerialPool kind n v cfg scr rest (i + 1) stopped ctx1
          (ev1 ++ evs, c, s :: sl)

/-- `runBatch` (batch.go:156-229). -/
def runBatch (kind : CtxKind) (n : NodeId) (v : Nat) (sid : StoreId) (cfg : BatchCfg) (scr : BatchScript)
    (ctx : Ctx) : List Ev × Ctx × Outcome :=
  -- no context check before prep (see DESIGN B6)
  let ctx1 := ctx.after kind scr.prep.cancels
  match scr.prep.res with
  | .error e => ([.bprep n v sid], ctx1, .err (.user e))
  | .ok l =>
    let items := normItems cfg.shape l
    if items.isEmpty then
      -- empty path: post with two empty slices
      if cfg.hasPost then
        let ctx2 := ctx1.after kind scr.post.cancels
        match scr.post.res with
        | .error e => ([.bprep n v sid, .bpost n v sid [] []], ctx2, .err (.user e))
        | .ok a => ([.bprep n v sid, .bpost n v sid [] []], ctx2, .ok (norm a))
      else ([.bprep n v sid], ctx1, .ok defaultAction)
    else
      let (iev, ctx2, slots) :=
        if cfg.conc > 0 then itemsSerialPool kind n v cfg scr items 0 false ctx1
        else itemsSeq kind n v cfg scr items 0 ctx1
      if cfg.hasPost then
        let ctx3 := ctx2.after kind scr.post.cancels
        let pe := Ev.bpost n v sid (items.map Result.box) (slots.map Result.box)
        match scr.post.res with
        | .error e => ([.bprep n v sid] ++ iev ++ [pe], ctx3, .err (.user e))
        | .ok a => ([.bprep n v sid] ++ iev ++ [pe], ctx3, .ok (norm a))
      else ([.bprep n v sid] ++ iev, ctx2, .ok defaultAction)

end Flyt
