/-!
# `WorkerPool` (flyt.go:935-1013) as an executable labelled transition system

State = the places a submitted task can be in (`pend`: `wg.Add(1)` done, channel send not yet
completed; `queue`: in the buffered channel; `running`: being executed by a worker; `finished`), the
WaitGroup counter, and the workers (blocked in their `select`, or exited).

`apply` is executable; `Step`/`Reachable` quantify over **every** schedule of any number of
submitting goroutines, any queue capacity and any number of workers.
-/
namespace Flyt.Pool

structure Pool where
  cap : Nat                 -- capacity of the `tasks` channel
  w : Nat                   -- number of worker goroutines started by NewWorkerPool
  pend : List Nat           -- Submit in progress: wg.Add(1) done, `tasks <- …` not yet completed (FIFO)
  queue : List Nat          -- the channel buffer
  running : List Nat        -- tasks being run by workers
  finished : List Nat       -- tasks whose wrapper returned (deferred wg.Done ran)
  wg : Nat                  -- WaitGroup counter
  idle : Nat                -- workers blocked in `select`
  exited : Nat              -- workers that returned
  closed : Bool             -- Close() called (both channels closed)
  waiters : Nat             -- Wait() calls in progress
  waitDone : Nat            -- Wait() calls that returned
  submitRet : Nat           -- Submit() calls that returned
  deriving Repr, DecidableEq

inductive Label
  | add (t : Nat)       -- Submit: wg.Add(1)                     (t = fresh task id)
  | send (t : Nat)      -- Submit: the channel send completes; Submit returns
  | take                -- a worker receives the head of the queue and starts running it
  | finish (t : Nat)    -- task t returns; deferred wg.Done(); the worker loops back to its select
  | callWait            -- Wait() is called
  | waitRet             -- wg.Wait() returns
  | close               -- Close(): close(done); close(tasks)
  | exit                -- a worker leaves its loop (done closed / tasks closed and drained)
  deriving Repr, DecidableEq

/-- `NewWorkerPool(workers)`: `workers <= 0` means 1; capacity `2*workers`. The theorems hold for any
    capacity, so it is a separate argument. -/
def init (cap : Nat) (workers : Int) : Pool :=
  let w := if workers ≤ 0 then 1 else workers.toNat
  { cap, w, pend := [], queue := [], running := [], finished := [], wg := 0, idle := w, exited := 0,
    closed := false, waiters := 0, waitDone := 0, submitRet := 0 }

def fresh (p : Pool) (t : Nat) : Bool :=
  !(p.pend.contains t || p.queue.contains t || p.running.contains t || p.finished.contains t)

def apply (p : Pool) : Label → Option Pool
  | .add t => if fresh p t then some { p with pend := p.pend ++ [t], wg := p.wg + 1 } else none
  | .send t =>
    if p.pend.contains t ∧ p.queue.length < p.cap then
      some { p with pend := p.pend.erase t, queue := p.queue ++ [t], submitRet := p.submitRet + 1 }
    else none
  | .take =>
    match p.queue with
    | [] => none
    | t :: q =>
      if p.idle > 0 then some { p with queue := q, running := t :: p.running, idle := p.idle - 1 } else none
  | .finish t =>
    if p.running.contains t then
      some { p with running := p.running.erase t, finished := t :: p.finished, wg := p.wg - 1, idle := p.idle + 1 }
    else none
  | .callWait => some { p with waiters := p.waiters + 1 }
  | .waitRet =>
    if p.waiters > 0 ∧ p.wg = 0 then some { p with waiters := p.waiters - 1, waitDone := p.waitDone + 1 } else none
  | .close => if p.closed then none else some { p with closed := true }
  | .exit =>
    if p.closed ∧ p.idle > 0 then some { p with idle := p.idle - 1, exited := p.exited + 1 } else none

def Step (p q : Pool) : Prop := ∃ l, apply p l = some q

inductive Reachable (cap : Nat) (workers : Int) : Pool → Prop
  | init : Reachable cap workers (init cap workers)
  | step {p q} : Reachable cap workers p → Step p q → Reachable cap workers q

/-! ### deterministic simulation of a gated run (used by the correspondence driver) -/

/-- internal steps in a fixed order: a send (head of `pend`), else a take, else a waitRet, else an exit -/
def nextInternal (p : Pool) : Option Label :=
  match p.pend with
  | t :: _ => if p.queue.length < p.cap then some (.send t) else nextInternal2 p
  | [] => nextInternal2 p
where
  nextInternal2 (p : Pool) : Option Label :=
    if p.queue ≠ [] ∧ p.idle > 0 then some .take
    else if p.waiters > 0 ∧ p.wg = 0 then some .waitRet
    else if p.closed ∧ p.idle > 0 ∧ p.queue = [] then some .exit
    else none

def quiesce : Nat → Pool → Pool
  | 0, p => p
  | fuel + 1, p =>
    match nextInternal p with
    | none => p
    | some l => match apply p l with
      | some q => quiesce fuel q
      | none => p

/-- a decision of the gating harness: a goroutine calls Submit(t); task t's gate is released;
    a goroutine calls Wait; Close is called -/
inductive Decision | submit (t : Nat) | release (t : Nat) | wait | close
  deriving Repr, DecidableEq

def decide1 (fuel : Nat) (p : Pool) : Decision → Option Pool
  | .submit t => (apply p (.add t)).map (quiesce fuel)
  | .release t => (apply p (.finish t)).map (quiesce fuel)
  | .wait => (apply p .callWait).map (quiesce fuel)
  | .close => (apply p .close).map (quiesce fuel)

def simulate (fuel : Nat) (p0 : Pool) : List Decision → Option (List Pool)
  | [] => some []
  | d :: rest =>
    match decide1 fuel p0 d with
    | none => none
    | some p => (simulate fuel p rest).map (p :: ·)

end Flyt.Pool
