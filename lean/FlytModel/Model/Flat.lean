import FlytModel.Model.Flow
/-!
# The specification side of routing: last-write-wins `next` and the flattened stack machine

`next` is the simplest possible reading of "the node most recently connected to (node, action)".
`Flat.step` is a deterministic small-step machine over a stack of (connections, current node)
frames: no recursion, no nesting — the "equivalent flattened state machine" of property C10.
-/
namespace Flyt

/-- the node most recently connected to `(n, a)`; `some none` = connected to nil -/
def next (ops : List ConnOp) (n : NodeId) (a : Action) : Option (Option NodeId) :=
  (ops.reverse.find? (fun o => o.src = n ∧ o.action = a)).map (·.dst)

namespace Flat

abbrev Frame := List ConnOp × NodeId

inductive Cfg
  | exec (K : List Frame)                 -- about to run the node on top of the stack
  | ret (a : Action) (K : List Frame)     -- the node on top of the stack finished with action a
  | halt (r : Outcome)
  deriving Repr, Inhabited

/-- one machine step; returns the callback events it produced -/
def step (env : Env) (sid : StoreId) : Cfg × RunSt → List Ev × (Cfg × RunSt)
  | (.exec [], st) => ([], (.halt (.err (.fw .other)), st))
  | (.exec ((ops, cur) :: K), st) =>
    match st.ctx with
    | .done k => ([], (.halt (.err (.ctx k)), st))
    | .live =>
      match env.arena cur with
      | .leaf cfg =>
        let v := st.visits cur
        let (evs, ctx', out) := runLeaf env.kind cur v sid cfg (env.leafBeh cur v) st.ctx
        let st' := { (st.bumpIf (!evs.isEmpty) cur) with ctx := ctx' }
        match out with
        | .ok a => (evs, (.ret a ((ops, cur) :: K), st'))
        | o => (evs, (.halt o, st'))
      | .batch cfg =>
        let v := st.visits cur
        let (evs, ctx', out) := runBatch env.kind cur v sid cfg (env.batchBeh cur v) st.ctx
        let st' := { (st.bumpIf (!evs.isEmpty) cur) with ctx := ctx' }
        match out with
        | .ok a => (evs, (.ret a ((ops, cur) :: K), st'))
        | o => (evs, (.halt o, st'))
      | .flow none _ => ([], (.halt (.err (.fw .noStart)), st))
      | .flow (some s) ops' => ([], (.exec ((ops', s) :: (ops, cur) :: K), st))
  | (.ret a [], st) => ([], (.halt (.ok a), st))
  | (.ret a ((ops, cur) :: K), st) =>
    match next ops cur a with
    | some (some nxt) => ([], (.exec ((ops, nxt) :: K), st))
    | _ => ([], (.ret (norm a) K, st))
  | (.halt r, st) => ([], (.halt r, st))

/-- run up to `n` steps, concatenating events -/
def steps (env : Env) (sid : StoreId) : Nat → Cfg × RunSt → List Ev × (Cfg × RunSt)
  | 0, c => ([], c)
  | n + 1, c =>
    let (e1, c1) := step env sid c
    let (e2, c2) := steps env sid n c1
    (e1 ++ e2, c2)

/-- initial configuration for `Run(root)`. A root that is itself a batch node is run without the
    flow-loop context check (there is no enclosing flow), hence the special cases. -/
def run (env : Env) (n : Nat) (root : NodeId) (sid : StoreId) (st : RunSt) : List Ev × RunSt × Outcome :=
  match env.arena root with
  | .batch cfg =>
    let v := st.visits root
    let (evs, ctx', out) := runBatch env.kind root v sid cfg (env.batchBeh root v) st.ctx
    (evs, { (st.bumpIf (!evs.isEmpty) root) with ctx := ctx' }, out)
  | _ =>
    match steps env sid n (.exec [([], root)], st) with
    | (evs, (.halt r, st')) => (evs, st', r)
    | (evs, (_, st')) => (evs, st', .fuel)

end Flat
end Flyt
