/-!
# Model of `SharedStore.Bind` / `Result.Bind` / `MustBind` (core Lean only)

Mirrors `flyt.go:380-425` and `result.go:294-337`.  `encoding/json` and `reflect.TypeOf` are
PARAMETERS (`Codec`): the property itself names the JSON round trip as the reference, so the
model is decision logic around two arbitrary functions.

Go's `reflect` calls that can panic when misused (`Value.IsNil`, `Type.Elem`, `Value.Set`) are
modelled as partial operations returning `Res.panic`; that `Bind` never reaches one of them is a
theorem about the guard order (`Props/C16.lean`), not a property of the result type.
-/
namespace Flyt.Bind

/-- A Go call either returns or panics. -/
inductive Res (α : Type) where
  | ok (a : α)
  | panic
  deriving DecidableEq, Repr, Inhabited

def Res.bind {α β : Type} : Res α → (α → Res β) → Res β
  | .ok a, f => f a
  | .panic, _ => .panic

instance : Monad Res where
  pure := Res.ok
  bind := Res.bind

def Res.isPanic {α : Type} : Res α → Bool
  | .panic => true
  | .ok _ => false

/-- The `dest any` argument as `reflect.ValueOf(dest)` sees it.  `T` = Go types, `V` = Go values.
    `ptr t cur` is a non-nil `*t` whose target currently holds `cur`. -/
inductive Dest (T V : Type) where
  | untypedNil                      -- `Bind(nil)`: reflect.ValueOf(nil) is the zero Value, Kind() == Invalid
  | nonPointer (t : T)              -- a struct, map, int … passed by value
  | nilPointer (elem : T)           -- `(*t)(nil)`
  | ptr (elem : T) (cur : V)
  deriving DecidableEq, Repr, Inhabited

inductive RKind | invalid | ptr | other
  deriving DecidableEq, Repr, Inhabited

/-- `rv.Kind()` (total) -/
def Dest.kind {T V : Type} : Dest T V → RKind
  | .untypedNil => .invalid
  | .nonPointer _ => .other
  | .nilPointer _ => .ptr
  | .ptr _ _ => .ptr

/-- `rv.IsNil()`: panics on the zero Value and (conservatively) on every non-pointer kind -/
def Dest.isNil {T V : Type} : Dest T V → Res Bool
  | .untypedNil => .panic
  | .nonPointer _ => .panic
  | .nilPointer _ => .ok true
  | .ptr _ _ => .ok false

/-- `rv.Type().Elem()`: `Type()` panics on the zero Value, `Elem()` (conservatively) on non-pointer types -/
def Dest.elemType {T V : Type} : Dest T V → Res T
  | .untypedNil => .panic
  | .nonPointer _ => .panic
  | .nilPointer t => .ok t
  | .ptr t _ => .ok t

/-- the three standard-library functions Bind delegates to -/
structure Codec (T V B E : Type) where
  /-- `reflect.TypeOf(v)` for a non-nil interface value -/
  typeOf : V → T
  /-- `json.Marshal(val)`; `none` is the nil interface value -/
  marshal : Option V → Except E B
  /-- `json.Unmarshal(b, dest)` for a valid `dest : *t` currently holding `cur`: the new contents of the
      target (encoding/json may have written part of it even when it reports an error) and the error -/
  unmarshal : B → T → V → V × Option E
  /-- the `*json.InvalidUnmarshalError` that `json.Unmarshal` returns (it does not panic) for a nil or
      non-pointer destination -/
  invalidDest : E

/-- `rv.Elem().Set(reflect.ValueOf(val))`: panics when `rv.Elem()` is not a settable value (nil
    pointer, non-pointer), when `val` is the nil interface, and (conservatively) whenever the value's
    type differs from the element type. -/
def Dest.set {T V B E : Type} [DecidableEq T] (c : Codec T V B E) : Dest T V → Option V → Res (Dest T V)
  | .ptr t _, some v => if c.typeOf v = t then .ok (.ptr t v) else .panic
  | _, _ => .panic

/-- `json.Unmarshal(b, dest)` on any destination (total, never panics) -/
def Dest.unmarshalInto {T V B E : Type} (c : Codec T V B E) (b : B) : Dest T V → Dest T V × Option E
  | .ptr t cur => let r := c.unmarshal b t cur; (.ptr t r.1, r.2)
  | d => (d, some c.invalidDest)

/-- error classes of Bind; the JSON errors are carried unchanged (`%w`) -/
inductive Err (E : Type) where
  | keyNotFound                     -- flyt.go:383  "key %q not found in shared store"
  | nilResult                       -- result.go:296 "cannot bind nil Result value"
  | badDest                         -- flyt.go:389 / result.go:302 "destination must be a non-nil pointer"
  | marshal (e : E)                 -- "failed to marshal …: %w"
  | unmarshal (e : E)               -- "failed to unmarshal to destination: %w"
  deriving DecidableEq, Repr, Inhabited

/-- calls into encoding/json, in order (to state "no marshal call on the same-type path") -/
inductive Call (T V B : Type) where
  | marshal (v : Option V)
  | unmarshal (b : B) (dest : Dest T V)
  deriving DecidableEq, Repr

/-- what a returning `Bind` call did -/
structure Outcome (T V B E : Type) where
  err : Option (Err E)
  dest : Dest T V
  calls : List (Call T V B)
  deriving DecidableEq, Repr

/-- the part both Bind methods share (flyt.go:386-410 = result.go:299-323), statement by statement -/
def bindVal {T V B E : Type} [DecidableEq T] (c : Codec T V B E) (val : Option V) (d : Dest T V) :
    Res (Outcome T V B E) :=
  -- rv := reflect.ValueOf(dest); if rv.Kind() != reflect.Ptr || rv.IsNil() { return error }
  if d.kind ≠ RKind.ptr then .ok ⟨some .badDest, d, []⟩ else
  (d.isNil).bind fun isNil =>
  if isNil then .ok ⟨some .badDest, d, []⟩ else
  -- valType := reflect.TypeOf(val)  (nil for the nil interface);  destType := rv.Type().Elem()
  let valType : Option T := val.map c.typeOf
  (d.elemType).bind fun destType =>
  -- if valType == destType { rv.Elem().Set(reflect.ValueOf(val)); return nil }
  if valType = some destType then
    (d.set c val).bind fun d' => .ok ⟨none, d', []⟩
  else
  -- jsonBytes, err := json.Marshal(val)
  match c.marshal val with
  | .error e => .ok ⟨some (.marshal e), d, [.marshal val]⟩
  | .ok b =>
    -- err := json.Unmarshal(jsonBytes, dest)
    let r := d.unmarshalInto c b
    .ok ⟨r.2.map .unmarshal, r.1, [.marshal val, .unmarshal b d]⟩

/-- the store as `Get` sees it: `none` = key absent, `some none` = a stored nil -/
abbrev Store (K V : Type) := K → Option (Option V)

/-- `SharedStore.Bind(key, dest)` (flyt.go:380-411): the call's outcome and the store afterwards -/
def storeBind {K T V B E : Type} [DecidableEq T] (c : Codec T V B E) (s : Store K V) (key : K) (d : Dest T V) :
    Res (Outcome T V B E) × Store K V :=
  match s key with
  | none => (.ok ⟨some .keyNotFound, d, []⟩, s)
  | some val => (bindVal c val d, s)

/-- `Result.Bind(dest)` (result.go:294-324); `none` = a Result whose value is nil -/
def resultBind {T V B E : Type} [DecidableEq T] (c : Codec T V B E) (value : Option V) (d : Dest T V) :
    Res (Outcome T V B E) :=
  match value with
  | none => .ok ⟨some .nilResult, d, []⟩
  | some v => bindVal c (some v) d

/-- how a `MustBind` call ends -/
inductive MustRes (T V E : Type) where
  | returned (dest : Dest T V)
  /-- `panic(fmt.Sprintf("….MustBind failed: %v", err))`; `dest` is what Bind left in the destination
      (a failed decode may have written part of it) -/
  | mustPanic (e : Err E) (dest : Dest T V)
  | panic                           -- a panic inside Bind itself
  deriving DecidableEq, Repr

/-- `MustBind` (flyt.go:421-425, result.go:333-337) on top of a Bind outcome -/
def mustOf {T V B E : Type} : Res (Outcome T V B E) → MustRes T V E
  | .panic => .panic
  | .ok o => match o.err with
    | some e => .mustPanic e o.dest
    | none => .returned o.dest

def storeMustBind {K T V B E : Type} [DecidableEq T] (c : Codec T V B E) (s : Store K V) (key : K) (d : Dest T V) :
    MustRes T V E × Store K V :=
  let r := storeBind c s key d
  (mustOf r.1, r.2)

def resultMustBind {T V B E : Type} [DecidableEq T] (c : Codec T V B E) (value : Option V) (d : Dest T V) :
    MustRes T V E :=
  mustOf (resultBind c value d)

/-! ## The case descriptor and the observation vocabulary of the correspondence family `bind` -/

inductive DestKind | untypedNil | nonPointer | nilPointer | ptr
  deriving DecidableEq, Repr, Inhabited

/-- store side: missing key / stored nil / a value.  The result side of a scenario uses a nil Result
    for `missing` and `nilVal`. -/
inductive Presence | missing | nilVal | val
  deriving DecidableEq, Repr, Inhabited

/-- what the reference (`json.Marshal` then `json.Unmarshal` into a fresh destination of the same type
    and initial contents) did; `na` = no valid pointer destination, no reference -/
inductive RefClass | ok | marshalErr | unmarshalErr | na
  deriving DecidableEq, Repr, Inhabited

structure Case where
  dest : DestKind
  pres : Presence
  /-- the value is non-nil and its type is the destination's element type -/
  same : Bool
  ref : RefClass
  deriving DecidableEq, Repr, Inhabited

inductive Class
  | ok | keyErr | nilErr | destErr | marshalErr | unmarshalErr | otherErr
  | mustPanic                       -- MustBind's own panic (message prefix "… MustBind failed: ")
  | panic | timeout
  deriving DecidableEq, Repr, Inhabited

/-- one call as the harness reports it -/
structure CallObs where
  cls : Class
  /-- destination afterwards deep-equals its initial contents -/
  destInit : Bool
  /-- … deep-equals the bound value (same type) -/
  destSrc : Bool
  /-- … deep-equals the reference destination -/
  destRef : Bool
  /-- the stored value / Result value deep-equals the copy taken before the call -/
  srcSame : Bool
  /-- the returned error wraps an error of the reference error's type and text -/
  wraps : Bool
  deriving DecidableEq, Repr, Inhabited

structure Obs where
  store : CallObs
  result : CallObs
  mustStore : CallObs
  mustResult : CallObs
  deriving DecidableEq, Repr, Inhabited

/-! ### Instantiating the model for a case
Types are tags `0` (the value's) / `1` (another one); values are tokens: `0` the destination's initial
contents, `1` the bound value, `2` what the reference's `json.Unmarshal` leaves in the destination. -/

def tokInit : Nat := 0
def tokSrc : Nat := 1
def tokRef : Nat := 2

def caseCodec (cs : Case) : Codec Nat Nat Unit Unit where
  typeOf := fun v => if v = tokSrc then 0 else if cs.same then 0 else 1
  marshal := fun _ => if cs.ref = .marshalErr then .error () else .ok ()
  unmarshal := fun _ _ _ => (tokRef, if cs.ref = .unmarshalErr then some () else none)
  invalidDest := ()

def caseDestType (cs : Case) : Nat := if cs.same then 0 else 1

def caseDest (cs : Case) : Dest Nat Nat :=
  match cs.dest with
  | .untypedNil => .untypedNil
  | .nonPointer => .nonPointer (caseDestType cs)
  | .nilPointer => .nilPointer (caseDestType cs)
  | .ptr => .ptr (caseDestType cs) tokInit

def caseStore (cs : Case) : Store Unit Nat := fun _ =>
  match cs.pres with
  | .missing => none
  | .nilVal => some none
  | .val => some (some tokSrc)

def caseResult (cs : Case) : Option Nat :=
  match cs.pres with
  | .val => some tokSrc
  | _ => none

/-- the token the reference destination holds afterwards -/
def refTok (cs : Case) : Nat :=
  match cs.dest, cs.ref with
  | .ptr, .ok => tokRef
  | .ptr, .unmarshalErr => tokRef
  | _, _ => tokInit

def destTok : Dest Nat Nat → Nat
  | .ptr _ v => v
  | _ => tokInit

def errClass : Err Unit → Class
  | .keyNotFound => .keyErr
  | .nilResult => .nilErr
  | .badDest => .destErr
  | .marshal _ => .marshalErr
  | .unmarshal _ => .unmarshalErr

def wrapsOf : Option (Err Unit) → Bool
  | some (.marshal _) => true
  | some (.unmarshal _) => true
  | _ => false

def mkObs (cs : Case) (cls : Class) (d : Dest Nat Nat) (wraps srcSame : Bool) : CallObs :=
  { cls, destInit := destTok d == tokInit, destSrc := destTok d == tokSrc, destRef := destTok d == refTok cs,
    srcSame, wraps }

def obsOfBind (cs : Case) (d0 : Dest Nat Nat) (r : Res (Outcome Nat Nat Unit Unit)) (srcSame : Bool) : CallObs :=
  match r with
  | .panic => mkObs cs .panic d0 false srcSame
  | .ok o => mkObs cs (match o.err with | none => .ok | some e => errClass e) o.dest (wrapsOf o.err) srcSame

def obsOfMust (cs : Case) (d0 : Dest Nat Nat) (r : MustRes Nat Nat Unit) (srcSame : Bool) : CallObs :=
  match r with
  | .panic => mkObs cs .panic d0 false srcSame
  | .mustPanic _ d => mkObs cs .mustPanic d false srcSame
  | .returned d => mkObs cs .ok d false srcSame

/-- is the store after the call the store before it (on the one key the scenario uses) -/
def storeSame (a b : Store Unit Nat) : Bool := a () == b ()

/-- the model's observation for a case -/
def modelObs (cs : Case) : Obs :=
  let c := caseCodec cs
  let d := caseDest cs
  let s := caseStore cs
  let sb := storeBind c s () d
  let sm := storeMustBind c s () d
  { store := obsOfBind cs d sb.1 (storeSame sb.2 s),
    result := obsOfBind cs d (resultBind c (caseResult cs) d) true,
    mustStore := obsOfMust cs d sm.1 (storeSame sm.2 s),
    mustResult := obsOfMust cs d (resultMustBind c (caseResult cs) d) true }

/-- Does the implementation's call observation match the model's?  Destination flags are one-sided:
    the implementation's destination may *also* equal something else by coincidence (a `string` survives
    the JSON round trip unchanged), the one the model names must hold. -/
def CallObs.matches (m i : CallObs) : Bool :=
  m.cls == i.cls && (!m.destInit || i.destInit) && (!m.destSrc || i.destSrc) && (!m.destRef || i.destRef)
    && (!m.srcSame || i.srcSame) && (!m.wraps || i.wraps)

def Obs.matches (m i : Obs) : Bool :=
  m.store.matches i.store && m.result.matches i.result && m.mustStore.matches i.mustStore
    && m.mustResult.matches i.mustResult

end Flyt.Bind
