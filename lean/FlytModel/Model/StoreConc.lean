/-!
# Operations on shared state under a readers/writer lock (`sync.RWMutex`), as a transition system

Threads are `idle → waiting op → inside op … → done`. An operation's body is a list of micro-steps on the
shared state `S` and a thread-local accumulator `L` (e.g. `GetAll` copies one entry per micro-step, `Merge`
writes one entry per micro-step); between any two micro-steps any other thread may move. `acquireW` needs
nobody inside, `acquireR` needs no writer inside — exactly what `RWMutex` guarantees (writer preference only
affects liveness). Ghost state: `g` is the state "as if every operation were atomic", updated at the
acquire step; `lin` is the order of acquire steps with the result promised to each operation.

The theorems (`Proofs/StoreConc.lean`, `Props/C13.lean`) hold for EVERY interleaving of any number of threads.
-/
namespace Flyt.StoreConc

variable {S : Type} {L : Type}

inductive Mode | R | W deriving DecidableEq, Repr

/-- A micro-step of an operation body: acts on shared state and thread-local accumulator. -/
abbrev Micro (S L : Type) := S → L → S × L

structure Op (S L : Type) where
  mode  : Mode
  body  : List (Micro S L)
  init  : L
  /-- reader bodies never change the shared state -/
  pure  : mode = .R → ∀ m ∈ body, ∀ s l, (m s l).1 = s

def runBody (b : List (Micro S L)) (s : S) (l : L) : S × L :=
  b.foldl (fun (p : S × L) m => m p.1 p.2) (s, l)

@[simp] theorem runBody_nil (s : S) (l : L) : runBody ([] : List (Micro S L)) s l = (s, l) := rfl
@[simp] theorem runBody_cons (m : Micro S L) (b) (s : S) (l : L) :
    runBody (m :: b) s l = runBody b (m s l).1 (m s l).2 := rfl

/-- thread status -/
inductive Th (S L : Type)
  | idle
  | waiting (op : Op S L)
  | inside (op : Op S L) (rest : List (Micro S L)) (l : L) (promised : L)
  | done (l : L) (promised : L)

structure Sys (S L : Type) where
  s       : S                 -- real shared state
  g       : S                 -- ghost: atomic spec state (updated at acquire)
  th      : Nat → Th S L      -- threads
  lin     : List (Op S L × L) -- ghost: operations in the order of their acquire steps, with the promised result

def Sys.writerInside (σ : Sys S L) : Prop :=
  ∃ t op r l p, σ.th t = .inside op r l p ∧ op.mode = .W
def Sys.anyInside (σ : Sys S L) : Prop :=
  ∃ t op r l p, σ.th t = .inside op r l p

def upd (f : Nat → Th S L) (t : Nat) (v : Th S L) : Nat → Th S L := fun u => if u = t then v else f u

inductive Step : Sys S L → Sys S L → Prop
  | invoke (σ t op) (h : σ.th t = .idle) :
      Step σ { σ with th := upd σ.th t (.waiting op) }
  | acquireW (σ t op) (h : σ.th t = .waiting op) (hm : op.mode = .W)
      (free : ¬ σ.anyInside) :
      Step σ { σ with g := (runBody op.body σ.s op.init).1,
                      th := upd σ.th t (.inside op op.body op.init (runBody op.body σ.s op.init).2),
                      lin := σ.lin ++ [(op, (runBody op.body σ.s op.init).2)] }
  | acquireR (σ t op) (h : σ.th t = .waiting op) (hm : op.mode = .R)
      (free : ¬ σ.writerInside) :
      Step σ { σ with th := upd σ.th t (.inside op op.body op.init (runBody op.body σ.s op.init).2),
                      lin := σ.lin ++ [(op, (runBody op.body σ.s op.init).2)] }
  | micro (σ t op m rest l p) (h : σ.th t = .inside op (m :: rest) l p) :
      Step σ { σ with s := (m σ.s l).1, th := upd σ.th t (.inside op rest (m σ.s l).2 p) }
  | release (σ t op l p) (h : σ.th t = .inside op [] l p) :
      Step σ { σ with th := upd σ.th t (.done l p) }


end Flyt.StoreConc
