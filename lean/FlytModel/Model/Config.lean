/-!
# Node configuration: constructor options vs. builder methods (family `config`, property C19)

Mirrors, setter by setter, the Go code that writes and reads a node's configuration:

* `BaseNode` fields and `NewBaseNode` defaults                      flyt.go:475-505
* option functions `WithMaxRetries` … `WithBatchErrorHandling`       flyt.go:518-567
* getters (with the `"" ↦ "continue"` default)                       flyt.go:571-602
* `NewNode`: type switch, base options FIRST, then custom options    flyt.go:1193-1226
* `CustomNodeOption`s `WithPrepFunc` … `WithPostFuncAny`             flyt.go:1254-1390
* `NodeBuilder` chain methods                                        builder.go:49-140
* `NewBatchNode` (only `NodeOption`s are looked at) and the
  `BatchNodeBuilder` chain methods                                   batch.go:60-153
* `NewWorkerPool`'s clamp of the pool size                           flyt.go:953-956

A user function is represented by the tag of the configuration step that installed it (the harness
installs a closure that records exactly this tag when it is called) plus the adapter it went through
(Result-style = stored as is, Any-style = wrapped in a closure).

The module is core Lean only and purely computational.
-/
namespace Flyt.Config

/-- which constructor: `flyt.NewNode` (→ `*NodeBuilder`) or `flyt.NewBatchNode` (→ `*BatchNodeBuilder`) -/
inductive Kind | node | batch
  deriving DecidableEq, Repr, Inhabited

/-- how a setting is applied: as an argument of the constructor, or as a chained builder method -/
inductive Form | opt | bld
  deriving DecidableEq, Repr, Inhabited

/-- the string field `batchErrorHandling`: `""` (never written), `"stop"`, `"continue"` -/
inductive EH | unset | stop | cont
  deriving DecidableEq, Repr, Inhabited

/-- the settings alphabet. `any = true` is the `…FuncAny` variant of a function setter. -/
inductive Setting
  | maxRetries (n : Int)
  | wait (d : Int)                               -- a `time.Duration` in ns
  | batchConcurrency (c : Int)
  | batchErrorHandling (continueOnError : Bool)
  | prepFn (any : Bool)
  | execFn (any : Bool)
  | postFn (any : Bool)
  | fbFn
  deriving DecidableEq, Repr, Inhabited

/-- `true` for the settings whose option form has Go type `NodeOption` (`func(*BaseNode)`);
    the others are `CustomNodeOption`s. This is what the type switches in `NewNode` /
    `NewBatchNode` look at. -/
def Setting.isNodeOption : Setting → Bool
  | .maxRetries _ | .wait _ | .batchConcurrency _ | .batchErrorHandling _ => true
  | _ => false

/-- one configuration step; `tag` identifies the user function a function setter installs -/
structure Step where
  setting : Setting
  form : Form
  tag : Nat
  deriving DecidableEq, Repr, Inhabited

/-- an installed user function -/
structure Fn where
  tag : Nat
  any : Bool
  deriving DecidableEq, Repr, Inhabited

/-- `flyt.BaseNode` (flyt.go:475-483), without its mutex -/
structure BaseNode where
  maxRetries : Int
  wait : Int
  batchConcurrency : Int
  batchErrorHandling : EH
  deriving DecidableEq, Repr, Inhabited

/-- `flyt.CustomNode` (flyt.go:1109-1115) together with the two extra fields of the `flyt.BatchNode`
    that may wrap it (batch.go:28-32; always `none` for a plain node) -/
structure Node where
  base : BaseNode
  prepFunc : Option Fn
  execFunc : Option Fn
  postFunc : Option Fn
  execFallbackFunc : Option Fn
  batchPrepFunc : Option Fn
  batchPostFunc : Option Fn
  deriving DecidableEq, Repr, Inhabited

/-- `NewBaseNode()` without options: `maxRetries: 1, wait: 0`, other fields zero (flyt.go:494-505) -/
def newBaseNode : BaseNode :=
  { maxRetries := 1, wait := 0, batchConcurrency := 0, batchErrorHandling := .unset }

/-- `&CustomNode{BaseNode: NewBaseNode()}` -/
def emptyNode : Node :=
  { base := newBaseNode, prepFunc := none, execFunc := none, postFunc := none,
    execFallbackFunc := none, batchPrepFunc := none, batchPostFunc := none }

/-- the closure a `NodeOption` constructor returns, applied to a `*BaseNode` (flyt.go:518-567).
    Function settings are not `NodeOption`s; they never reach this function. -/
def applyNodeOption (s : Setting) (b : BaseNode) : BaseNode :=
  match s with
  | .maxRetries n => { b with maxRetries := n }                       -- flyt.go:518-522
  | .wait d => { b with wait := d }                                   -- flyt.go:534-538
  | .batchConcurrency c => { b with batchConcurrency := c }           -- flyt.go:546-550
  | .batchErrorHandling continueOnError =>                            -- flyt.go:559-567
    if continueOnError then { b with batchErrorHandling := .cont }
    else { b with batchErrorHandling := .stop }
  | _ => b

/-- `opt.apply(node)` for a `CustomNodeOption` (flyt.go:1254-1390). Scalar settings are not
    `CustomNodeOption`s; they never reach this function. -/
def applyCustomOption (s : Step) (n : Node) : Node :=
  match s.setting with
  | .prepFn false => { n with prepFunc := some ⟨s.tag, false⟩ }        -- WithPrepFunc      flyt.go:1254
  | .execFn false => { n with execFunc := some ⟨s.tag, false⟩ }        -- WithExecFunc      flyt.go:1272
  | .postFn false => { n with postFunc := some ⟨s.tag, false⟩ }        -- WithPostFunc      flyt.go:1293
  | .fbFn => { n with execFallbackFunc := some ⟨s.tag, false⟩ }        -- WithExecFallbackFunc flyt.go:1312
  | .prepFn true => { n with prepFunc := some ⟨s.tag, true⟩ }          -- WithPrepFuncAny   flyt.go:1331
  | .execFn true => { n with execFunc := some ⟨s.tag, true⟩ }          -- WithExecFuncAny   flyt.go:1355
  | .postFn true => { n with postFunc := some ⟨s.tag, true⟩ }          -- WithPostFuncAny   flyt.go:1382
  | _ => n

/-- `flyt.NewNode(opts...)` (flyt.go:1193-1226): the options are first separated by Go type,
    then ALL base options are applied, then ALL custom options. -/
def newNode (opts : List Step) : Node :=
  let customOpts := opts.filter (fun o => !o.setting.isNodeOption)
  let baseOpts := opts.filter (fun o => o.setting.isNodeOption)
  let node := baseOpts.foldl (fun n o => { n with base := applyNodeOption o.setting n.base }) emptyNode
  customOpts.foldl (fun n o => applyCustomOption o n) node

/-- `flyt.NewBatchNode(opts...)` (batch.go:60-85): only `NodeOption`s are collected and applied;
    a `CustomNodeOption` matches no case of the type switch and is dropped (DESIGN 7/B1). -/
def newBatchNode (opts : List Step) : Node :=
  let baseOpts := opts.filter (fun o => o.setting.isNodeOption)
  baseOpts.foldl (fun n o => { n with base := applyNodeOption o.setting n.base }) emptyNode

/-- one chained method call on a `*NodeBuilder` (builder.go:49-140) -/
def nodeBuilderCall (s : Step) (n : Node) : Node :=
  match s.setting with
  | .maxRetries r => { n with base := applyNodeOption (.maxRetries r) n.base }   -- builder.go:49: WithMaxRetries(r)(b.BaseNode)
  | .wait w => { n with base := applyNodeOption (.wait w) n.base }               -- builder.go:56
  | .prepFn false => { n with prepFunc := some ⟨s.tag, false⟩ }                  -- builder.go:63
  | .execFn false => { n with execFunc := some ⟨s.tag, false⟩ }                  -- builder.go:70
  | .postFn false => { n with postFunc := some ⟨s.tag, false⟩ }                  -- builder.go:77
  | .fbFn => { n with execFallbackFunc := some ⟨s.tag, false⟩ }                  -- builder.go:84
  | .prepFn true => { n with prepFunc := some ⟨s.tag, true⟩ }                    -- builder.go:91
  | .execFn true => { n with execFunc := some ⟨s.tag, true⟩ }                    -- builder.go:104
  | .postFn true => { n with postFunc := some ⟨s.tag, true⟩ }                    -- builder.go:117
  | .batchConcurrency c => { n with base := { n.base with batchConcurrency := c } }  -- builder.go:126 (direct field write)
  | .batchErrorHandling continueOnError =>                                       -- builder.go:133-139 (direct field write)
    if continueOnError then { n with base := { n.base with batchErrorHandling := .cont } }
    else { n with base := { n.base with batchErrorHandling := .stop } }

/-- one chained method call on a `*BatchNodeBuilder` (batch.go:99-153). The builder has no
    `WithPrepFuncAny`, `WithPostFuncAny`, `WithExecFallbackFunc`: such steps cannot be written in Go
    (outside the domain, see `inDomain`); they are the identity here. -/
def batchBuilderCall (s : Step) (n : Node) : Node :=
  match s.setting with
  | .maxRetries r => { n with base := applyNodeOption (.maxRetries r) n.base }   -- batch.go:99
  | .wait w => { n with base := applyNodeOption (.wait w) n.base }               -- batch.go:104
  | .batchConcurrency c => { n with base := { n.base with batchConcurrency := c } }  -- batch.go:109 (direct field write)
  | .batchErrorHandling continueOnError =>                                       -- batch.go:114-121
    if continueOnError then { n with base := { n.base with batchErrorHandling := .cont } }
    else { n with base := { n.base with batchErrorHandling := .stop } }
  | .prepFn false => { n with batchPrepFunc := some ⟨s.tag, false⟩ }             -- batch.go:128
  | .execFn false => { n with execFunc := some ⟨s.tag, false⟩ }                  -- batch.go:133
  | .postFn false => { n with batchPostFunc := some ⟨s.tag, false⟩ }             -- batch.go:138
  | .execFn true => { n with execFunc := some ⟨s.tag, true⟩ }                    -- batch.go:144
  | _ => n

def isOpt (s : Step) : Bool := s.form == .opt
def isBld (s : Step) : Bool := s.form == .bld

/-- Build a node from a sequence of (setting, form): the option-form steps become the constructor's
    argument list (in their relative order), the builder-form steps are chained on the result (in
    their relative order). This is the only way the two forms can be mixed in Go: the constructor
    call necessarily precedes every method call on its result. -/
def build (k : Kind) (steps : List Step) : Node :=
  let opts := steps.filter isOpt
  let blds := steps.filter isBld
  match k with
  | .node => blds.foldl (fun n s => nodeBuilderCall s n) (newNode opts)
  | .batch => blds.foldl (fun n s => batchBuilderCall s n) (newBatchNode opts)

/-! ### getters (flyt.go:571-602) -/

def getMaxRetries (n : Node) : Int := n.base.maxRetries
def getWait (n : Node) : Int := n.base.wait
def getBatchConcurrency (n : Node) : Int := n.base.batchConcurrency
def getBatchErrorHandling (n : Node) : String :=
  match n.base.batchErrorHandling with
  | .unset => "continue"        -- flyt.go:598-600
  | .stop => "stop"
  | .cont => "continue"

structure Getters where
  retries : Int
  wait : Int
  conc : Int
  eh : String
  deriving DecidableEq, Repr, Inhabited

def getters (n : Node) : Getters :=
  { retries := getMaxRetries n, wait := getWait n, conc := getBatchConcurrency n, eh := getBatchErrorHandling n }

/-! ### worker pool size and batch width -/

/-- `NewWorkerPool(workers)`: `if workers <= 0 { workers = 1 }`, then that many goroutines (flyt.go:953-970) -/
def poolWorkers (workers : Int) : Nat := if workers ≤ 0 then 1 else workers.toNat

/-- number of items a batch works on at the same time: `concurrency > 0` ⇒ a pool of that size,
    otherwise the sequential loop (batch.go:215-219) -/
def batchWidth (concurrency : Int) : Nat := if concurrency > 0 then poolWorkers concurrency else 1

/-! ### probe runs

What the harness observes when it runs the configured node. Step-installed prep, exec and post
functions always succeed; the harness's own probe exec function (tag `probeExec`) fails on every
attempt (for a batch: on every attempt of item 0 only), which makes the retry budget, the fallback
and the stop/continue policy visible. A step-installed FALLBACK function records that it ran and then
fails (returns an error) iff its tag is odd (`fbFails`): only a failing fallback tells "the new
function replaced the old one" from "the new function was chained in front of the old one". -/

def probeExec : Nat := 900
def probePrep : Nat := 901

/-- harness convention: the fallback function installed by a step with tag `t` returns an error iff
    `t` is odd, and a value otherwise (it records that it ran in both cases) -/
def fbFails (g : Fn) : Bool := g.tag % 2 == 1

structure RunObs where
  prep : Option Nat     -- tag of the prep function that ran
  exec : Option Nat     -- tag of the exec function that ran
  fb : Option Nat       -- tag of the fallback function that ran
  post : Option Nat     -- tag of the post function that ran
  calls : List Nat      -- exec calls: `[n]` for a plain node, one count per item for a batch
  out : String          -- "done" (a user post ran), "default", "err"
  deriving DecidableEq, Repr, Inhabited

def tagOf (f : Option Fn) : Option Nat := f.map (·.tag)

/-- `flyt.Run` on a `*NodeBuilder` (flyt.go:681-761), reduced to which user functions are called
    how often: prep once; exec until success or `maxRetries` attempts; on exhaustion the fallback
    (user function, or `BaseNode.ExecFallback` which returns the error); if the fallback returns an
    error too (no user fallback, or a user fallback with `fbFails`) the run fails with
    "exec failed after … retries" and post is never called ("Handle exec failure" in `Run`);
    otherwise post once. -/
def runNode (n : Node) : RunObs :=
  let budget := n.base.maxRetries.toNat
  let okOut := if n.postFunc.isSome then "done" else "default"
  match n.execFunc with
  | none => { prep := tagOf n.prepFunc, exec := none, fb := none, post := tagOf n.postFunc, calls := [0], out := okOut }
  | some f =>
    if budget = 0 then
      { prep := tagOf n.prepFunc, exec := none, fb := none, post := tagOf n.postFunc, calls := [0], out := okOut }
    else if f.tag = probeExec then
      match n.execFallbackFunc with
      | some g =>
        if fbFails g then
          { prep := tagOf n.prepFunc, exec := some f.tag, fb := some g.tag, post := none, calls := [budget], out := "err" }
        else
          { prep := tagOf n.prepFunc, exec := some f.tag, fb := some g.tag, post := tagOf n.postFunc,
            calls := [budget], out := okOut }
      | none => { prep := tagOf n.prepFunc, exec := some f.tag, fb := none, post := none, calls := [budget], out := "err" }
    else
      { prep := tagOf n.prepFunc, exec := some f.tag, fb := none, post := tagOf n.postFunc, calls := [1], out := okOut }

/-- `runBatch` on a `*BatchNode` (batch.go:156-255, 304-344) whose batch prep function, if any,
    returns three items. Without a batch prep function `CustomNode.Prep` → `BaseNode.Prep` returns
    nil, i.e. no items: only post runs. Item 0 fails on every attempt when the exec function is the
    probe; a batch builder cannot install a fallback function, but the field is honoured if set:
    `runExecWithRetries` (batch.go:304-344) calls it once per failing item, i.e. for item 0 only.
    Item 0's slot holds an error iff there is no user fallback or the user fallback fails
    (`fbFails`); a failing item never fails the batch run itself — its error is stored in the
    item's result slot and post is called all the same (end of `runBatch`), so `post` and `out` do
    not depend on the fallback. In stop mode an error in item 0's slot makes the later items be
    skipped iff at most one item is worked on at a time (sequential loop, or a one-worker pool: the
    flag is set before the next task starts); for wider pools the harness holds item 0 back until
    all three items have started. -/
def runBatch (n : Node) : RunObs :=
  let budget := n.base.maxRetries.toNat
  let out := if n.batchPostFunc.isSome then "done" else "default"
  match n.batchPrepFunc with
  | none => { prep := none, exec := none, fb := none, post := tagOf n.batchPostFunc, calls := [], out := out }
  | some p =>
    match n.execFunc with
    | none => { prep := some p.tag, exec := none, fb := none, post := tagOf n.batchPostFunc, calls := [0, 0, 0], out := out }
    | some f =>
      if budget = 0 then
        { prep := some p.tag, exec := none, fb := none, post := tagOf n.batchPostFunc, calls := [0, 0, 0], out := out }
      else if f.tag = probeExec then
        -- would an error in item 0's slot keep items 1 and 2 from being executed?
        let stopped := getBatchErrorHandling n == "stop" && decide (batchWidth n.base.batchConcurrency ≤ 1)
        match n.execFallbackFunc with
        | some g =>
          { prep := some p.tag, exec := some f.tag, fb := some g.tag, post := tagOf n.batchPostFunc,
            calls := if fbFails g && stopped then [budget, 0, 0] else [budget, 1, 1], out := out }
        | none =>
          { prep := some p.tag, exec := some f.tag, fb := none, post := tagOf n.batchPostFunc,
            calls := if stopped then [budget, 0, 0] else [budget, 1, 1], out := out }
      else
        { prep := some p.tag, exec := some f.tag, fb := none, post := tagOf n.batchPostFunc, calls := [1, 1, 1], out := out }

/-- everything the harness observes of one configured node -/
structure Obs where
  g : Getters          -- the four getters right after configuration
  runA : RunObs        -- run as configured
  runB : RunObs        -- run after the harness chained its probe functions (builder form)
  hwm : Nat            -- batch only: most items in flight together (barrier-measured); 0 for a plain node
  g2 : Getters         -- the four getters after the probe functions were chained
  err : String := ""   -- "" | "panic" | "timeout" (never produced by the model)
  deriving DecidableEq, Repr, Inhabited

/-- the harness's own probe steps, chained in builder form after the scenario's steps -/
def withProbes (k : Kind) (n : Node) : Node :=
  match k with
  | .node => nodeBuilderCall ⟨.execFn false, .bld, probeExec⟩ n
  | .batch => batchBuilderCall ⟨.execFn false, .bld, probeExec⟩ (batchBuilderCall ⟨.prepFn false, .bld, probePrep⟩ n)

def observe (k : Kind) (n : Node) : Obs :=
  let nB := withProbes k n
  match k with
  | .node => { g := getters n, runA := runNode n, runB := runNode nB, hwm := 0, g2 := getters nB }
  | .batch => { g := getters n, runA := runBatch n, runB := runBatch nB,
                -- with a retry budget < 1 no exec call is ever made, so nothing is ever in flight
                hwm := if nB.base.maxRetries ≤ 0 then 0 else batchWidth nB.base.batchConcurrency, g2 := getters nB }

/-- the model's observation of a scenario -/
def modelObs (k : Kind) (steps : List Step) : Obs := observe k (build k steps)

end Flyt.Config
