/-!
# The Go value universe and flyt's typed accessors (property C15)

Mirrors `result.go:32-279` (`Result.AsX / AsXOr / MustX`), `result.go:378-399` (`As[T]`, `MustAs[T]`), `flyt.go:163-364`
(`SharedStore.GetX / GetXOr`) and `flyt.go:1032-1076` (`ToSlice`).

* `GoType` / `GoVal`: dynamic types and values as an `any` can hold them (a `flyt.Result` used as a
  value included: `tResult`, `GoVal.result`). Every non-nil value carries
  its dynamic type; identity-bearing values (pointers, maps, channels) carry an identity number,
  floats carry their IEEE-754 bit pattern (so NaN, ±Inf, ±0 are exact), integers their
  mathematical value.
* `ifaceEq`: Go's `==` on two interface values, including the run-time panic on identical
  non-comparable dynamic types, `NaN ≠ NaN`, `+0 == -0`, and the field-by-field / index-by-index
  order of struct and array comparison (stop at the first mismatch *or panic*).
* Integer → `int` conversion is exact two's complement (`wrap64`, `int` is 64 bit); the float
  conversions are the parameter `Conv` (Go's own conversion, supplied by the harness).
* The slice accessors are written over a `SliceTest` ("did `ToSlice` merely wrap a non-slice?").
  `kindTest` is the repaired code (`reflect.ValueOf(v).Kind() != reflect.Slice`); `Legacy.eqTest`
  is the `len(result) == 1 && result[0] == value` heuristic of the unrepaired code (finding F4),
  kept so that a regression is recognised for what it is.

Core Lean only.
-/
namespace Flyt.Value

/-- predeclared non-composite types -/
inductive Basic where
  | int | int8 | int16 | int32 | int64
  | uint | uint8 | uint16 | uint32 | uint64 | uintptr
  | float32 | float64 | complex64 | complex128
  | string | bool
  deriving DecidableEq, Repr, Inhabited

/-- Go types. A struct type is the chain `structField f₀ (structField f₁ … structEnd)`
    (kept first-order so that type identity is decidable by `deriving`). -/
inductive GoType where
  | basic (b : Basic)
  | any
  | ptr (t : GoType)
  | slice (t : GoType)
  | array (n : Nat) (t : GoType)
  | map (k v : GoType)
  | chan (t : GoType)
  | func (sig : Nat)
  | structEnd
  | structField (f : GoType) (rest : GoType)
  | named (name : String) (under : GoType)
  deriving DecidableEq, Repr, Inhabited

mutual
/-- what an `any` can hold. `nil` is the nil interface; every other value knows its dynamic type `t`. -/
inductive GoVal where
  | nil
  | int (t : GoType) (n : Int)
  | float (t : GoType) (bits : Nat)
  | complex (t : GoType) (re im : Nat)
  | str (t : GoType) (s : String)
  | bool (t : GoType) (b : Bool)
  | ptr (t : GoType) (id : Option Nat)          -- `none` = typed nil pointer
  | map (t : GoType) (id : Option Nat)          -- `none` = nil map
  | chan (t : GoType) (id : Option Nat)
  | func (t : GoType) (isNil : Bool)
  | slice (t : GoType) (isNil : Bool) (elems : GoVals)
  | array (t : GoType) (elems : GoVals)
  | struct (t : GoType) (fields : GoVals)
  deriving DecidableEq, Repr
inductive GoVals where
  | nil
  | cons (h : GoVal) (t : GoVals)
  deriving DecidableEq, Repr
end

instance : Inhabited GoVal := ⟨.nil⟩
instance : Inhabited GoVals := ⟨.nil⟩

/-- coarse `reflect.Kind` -/
inductive Kind where
  | invalid | int | float | complex | string | bool | ptr | map | chan | func | slice | array | struct | iface
  deriving DecidableEq, Repr, Inhabited

namespace Basic

/-- the ten integer types named by the accessors' documentation (`uintptr` is not among them) -/
def isDocInt : Basic → Bool
  | .int | .int8 | .int16 | .int32 | .int64 | .uint | .uint8 | .uint16 | .uint32 | .uint64 => true
  | _ => false

def isFloat : Basic → Bool
  | .float32 | .float64 => true
  | _ => false

def kind : Basic → Kind
  | .int | .int8 | .int16 | .int32 | .int64 | .uint | .uint8 | .uint16 | .uint32 | .uint64 | .uintptr => .int
  | .float32 | .float64 => .float
  | .complex64 | .complex128 => .complex
  | .string => .string
  | .bool => .bool

/-- value range of the integer types (`int`, `uint`, `uintptr` are 64 bit) -/
def range : Basic → Option (Int × Int)
  | .int8 => some (-128, 127)
  | .int16 => some (-32768, 32767)
  | .int32 => some (-2147483648, 2147483647)
  | .int | .int64 => some (-9223372036854775808, 9223372036854775807)
  | .uint8 => some (0, 255)
  | .uint16 => some (0, 65535)
  | .uint32 => some (0, 4294967295)
  | .uint | .uint64 | .uintptr => some (0, 18446744073709551615)
  | _ => none

end Basic

namespace GoType

def underlying : GoType → GoType
  | .named _ u => u.underlying
  | t => t

def kind : GoType → Kind
  | .basic b => b.kind
  | .any => .iface
  | .ptr _ => .ptr
  | .slice _ => .slice
  | .array _ _ => .array
  | .map _ _ => .map
  | .chan _ => .chan
  | .func _ => .func
  | .structEnd => .struct
  | .structField _ _ => .struct
  | .named _ u => u.kind

/-- Go's "comparable" for types (interface types are comparable; the panic is dynamic) -/
def comparable : GoType → Bool
  | .basic _ => true
  | .any => true
  | .ptr _ => true
  | .chan _ => true
  | .slice _ => false
  | .map _ _ => false
  | .func _ => false
  | .array _ t => t.comparable
  | .structEnd => true
  | .structField f r => f.comparable && r.comparable
  | .named _ u => u.comparable

def ofFields : List GoType → GoType
  | [] => .structEnd
  | f :: r => .structField f (ofFields r)

end GoType

/-- the types with a fast path in `ToSlice` / a case in the accessors -/
def tString : GoType := .basic .string
def tBool : GoType := .basic .bool
def tAnys : GoType := .slice .any
def tStrings : GoType := .slice (.basic .string)
def tInts : GoType := .slice (.basic .int)
def tFloat64s : GoType := .slice (.basic .float64)
def tMapSA : GoType := .map (.basic .string) .any
def tMapSAs : GoType := .slice tMapSA

/-- the interface type `error` (a named interface type: kind `iface`, comparable as a static type,
    never the dynamic type of a value) -/
def tError : GoType := .named "error" .any
/-- `flyt.Result` (result.go:11-14): `struct { value any; err error }` -/
def tResult : GoType := .named "Result" (.structField .any (.structField tError .structEnd))

namespace GoVals
def toList : GoVals → List GoVal
  | .nil => []
  | .cons h t => h :: t.toList
def ofList : List GoVal → GoVals
  | [] => .nil
  | h :: t => .cons h (ofList t)
def length : GoVals → Nat
  | .nil => 0
  | .cons _ t => t.length + 1
end GoVals

namespace GoVal

/-- dynamic type (`none` for the nil interface) -/
def typeOf? : GoVal → Option GoType
  | .nil => none
  | .int t _ | .float t _ | .complex t _ _ | .str t _ | .bool t _ | .ptr t _ | .map t _ | .chan t _
  | .func t _ | .slice t _ _ | .array t _ | .struct t _ => some t

/-- `reflect.ValueOf(v).Kind()` (coarse): determined by the representation of the value -/
def kind : GoVal → Kind
  | .nil => .invalid
  | .int .. => .int
  | .float .. => .float
  | .complex .. => .complex
  | .str .. => .string
  | .bool .. => .bool
  | .ptr .. => .ptr
  | .map .. => .map
  | .chan .. => .chan
  | .func .. => .func
  | .slice .. => .slice
  | .array .. => .array
  | .struct .. => .struct

/-- a `flyt.Result` used as an ordinary value (a payload of another Result, a store entry, an element
    of a slice …): the struct `Result{value: v, err: e}`. It is a struct-kind value like any other —
    never nil, not a slice, not a map, not a source type of any accessor. -/
def result (v e : GoVal) : GoVal := .struct tResult (.cons v (.cons e .nil))
/-- `flyt.NewResult(v)` (result.go:18) -/
def newResult (v : GoVal) : GoVal := result v .nil
/-- `flyt.NewErrorResult(err)` (result.go:23) -/
def newErrorResult (e : GoVal) : GoVal := result .nil e

/-- representation and dynamic type fit together (top level only) -/
def shapeOK (v : GoVal) : Bool :=
  match v.typeOf? with
  | none => true
  | some t => t.kind == v.kind

end GoVal

/-- may a value sit in a slot (slice element, array element, struct field) of static type `e`?
    A slot of interface type (`any`, `error`) holds nil or a value of any dynamic type — the method
    set of `error` is not modelled, so well-formedness admits every value there (a superset of what
    Go admits); a slot of any other type holds values of exactly that type. -/
def slotOK (e : GoType) (h : GoVal) : Bool :=
  if e.kind == .iface then true else h.typeOf? == some e

mutual
/-- well-formedness of a value, recursively: representation fits the type, integers are in range,
    float patterns have the right width, elements fit their slots -/
def GoVal.wf : GoVal → Bool
  | .nil => true
  | .int t n =>
    match t.underlying with
    | .basic b => (match b.range with | some (lo, hi) => decide (lo ≤ n) && decide (n ≤ hi) | none => false)
    | _ => false
  | .float t bits =>
    match t.underlying with
    | .basic .float32 => decide (bits < 4294967296)
    | .basic .float64 => decide (bits < 18446744073709551616)
    | _ => false
  | .complex t re im =>
    match t.underlying with
    | .basic .complex64 => decide (re < 4294967296) && decide (im < 4294967296)
    | .basic .complex128 => decide (re < 18446744073709551616) && decide (im < 18446744073709551616)
    | _ => false
  | .str t _ => t.underlying == .basic .string
  | .bool t _ => t.underlying == .basic .bool
  | .ptr t _ => t.kind == .ptr
  | .map t _ => t.kind == .map
  | .chan t _ => t.kind == .chan
  | .func t _ => t.kind == .func
  | .slice t isNil elems =>
    match t.underlying with
    | .slice e => elems.wfAll e && (!isNil || elems.length == 0)
    | _ => false
  | .array t elems =>
    match t.underlying with
    | .array n e => elems.length == n && elems.wfAll e
    | _ => false
  | .struct t fields => fields.wfFields t.underlying
def GoVals.wfAll : GoVals → GoType → Bool
  | .nil, _ => true
  | .cons h r, e => h.wf && slotOK e h && r.wfAll e
def GoVals.wfFields : GoVals → GoType → Bool
  | .nil, .structEnd => true
  | .cons h r, .structField f rest => h.wf && slotOK f h && r.wfFields rest
  | _, _ => false
end

/-! ## Interface equality -/

inductive EqRes where
  | eq | ne | panic
  deriving DecidableEq, Repr, Inhabited

def f64IsNaN (b : Nat) : Bool := (b / 4503599627370496) % 2048 == 2047 && b % 4503599627370496 != 0
def f32IsNaN (b : Nat) : Bool := (b / 8388608) % 256 == 255 && b % 8388608 != 0
def f64IsZero (b : Nat) : Bool := b % 9223372036854775808 == 0
def f32IsZero (b : Nat) : Bool := b % 2147483648 == 0

/-- is the floating-point layout of this type the 32-bit one (`float32`, `complex64`)? -/
def is32 (t : GoType) : Bool :=
  match t.underlying with
  | .basic .float32 => true
  | .basic .complex64 => true
  | _ => false

def isNaN (w32 : Bool) (b : Nat) : Bool := if w32 then f32IsNaN b else f64IsNaN b
def isZero (w32 : Bool) (b : Nat) : Bool := if w32 then f32IsZero b else f64IsZero b

/-- Go's `==` on two floats given by their bit patterns -/
def floatEq (w32 : Bool) (a b : Nat) : Bool :=
  !isNaN w32 a && !isNaN w32 b && (a == b || (isZero w32 a && isZero w32 b))

def boolRes (b : Bool) : EqRes := if b then .eq else .ne

/-- the part of an interface comparison that precedes looking at the values: different dynamic
    types ⇒ unequal; identical non-comparable type ⇒ run-time panic -/
def typeGuard (t u : GoType) (k : EqRes) : EqRes :=
  if t ≠ u then .ne else if !t.comparable then .panic else k

mutual
/-- `a == b` for interface values `a`, `b` -/
def ifaceEq : GoVal → GoVal → EqRes
  | .nil, .nil => .eq
  | .int t n, .int u m => typeGuard t u (boolRes (n == m))
  | .float t x, .float u y => typeGuard t u (boolRes (floatEq (is32 t) x y))
  | .complex t xr xi, .complex u yr yi =>
    typeGuard t u (boolRes (floatEq (is32 t) xr yr && floatEq (is32 t) xi yi))
  | .str t x, .str u y => typeGuard t u (boolRes (x == y))
  | .bool t x, .bool u y => typeGuard t u (boolRes (x == y))
  | .ptr t x, .ptr u y => typeGuard t u (boolRes (x == y))
  | .chan t x, .chan u y => typeGuard t u (boolRes (x == y))
  | .map t _, .map u _ => typeGuard t u .panic
  | .func t _, .func u _ => typeGuard t u .panic
  | .slice t _ _, .slice u _ _ => typeGuard t u .panic
  | .array t xs, .array u ys => typeGuard t u (elemsEq xs ys)
  | .struct t xs, .struct u ys => typeGuard t u (elemsEq xs ys)
  | _, _ => .ne
/-- elements / fields in order; stops at the first result that is not `eq` -/
def elemsEq : GoVals → GoVals → EqRes
  | .nil, .nil => .eq
  | .cons x xs, .cons y ys =>
    match ifaceEq x y with
    | .eq => elemsEq xs ys
    | r => r
  | _, _ => .ne
end

/-! ## Results that may be a panic -/

inductive Ret (α : Type) where
  | ok (a : α)
  | panic
  deriving DecidableEq, Repr

instance {α} : Inhabited (Ret α) := ⟨.panic⟩

def Ret.isPanic {α} : Ret α → Bool
  | .panic => true
  | .ok _ => false

/-- a `[]any` result: `none` is the nil slice -/
abbrev SliceV := Option (List GoVal)
/-- a `map[string]any` result, by identity: `none` is the nil map -/
abbrev MapV := Option Nat

/-! ## Numeric conversion -/

def two63 : Int := 9223372036854775808
def two64 : Int := 18446744073709551616

/-- Go's `int(v)` for an integer `v` with mathematical value `n` (two's complement, 64 bit) -/
def wrap64 (n : Int) : Int := (n + two63) % two64 - two63

/-- Go's own floating-point conversions: a parameter of the model.
    `f2i w32 bits`: `int(v)` for the float with this pattern; `none` = not defined by the language
    (NaN, ±Inf, out of range), never compared.  `f32to64`, `i2f`: `float64(v)`. -/
structure Conv where
  f2i : Bool → Nat → Option Int
  f32to64 : Nat → Nat
  i2f : Int → Nat

/-! ## `ToSlice` (flyt.go:1032-1076) -/

/-- the elements a slice header denotes: a nil slice has length 0 -/
def sliceElems (isNil : Bool) (elems : GoVals) : List GoVal := if isNil then [] else elems.toList

def toSlice (v : GoVal) : SliceV :=
  match v with
  | .nil => some []                                            -- :1033 nil ↦ []any{}
  | .slice t isNil elems =>
    if t = tAnys then (if isNil then none else some elems.toList)   -- :1038 `case []any: return val`
    else if t = tStrings then some (sliceElems isNil elems)    -- :1040 make([]any, len(val)) + copy
    else if t = tInts then some (sliceElems isNil elems)       -- :1046
    else if t = tFloat64s then some (sliceElems isNil elems)   -- :1052
    else if t = tMapSAs then some (sliceElems isNil elems)     -- :1058
    else some (sliceElems isNil elems)                         -- :1067 reflection, rv.Kind() == Slice
  | v => some [v]                                              -- :1074 single item

/-! ## Result accessors (result.go) -/

/-- result.go:34 -/
def asString (v : GoVal) : String × Bool :=
  match v with
  | .nil => ("", false)
  | .str (.basic .string) s => (s, true)
  | _ => ("", false)

def asStringOr (v : GoVal) (d : String) : String :=
  let r := asString v
  if !r.2 then d else r.1

def mustString (v : GoVal) : Ret String :=
  let r := asString v
  if !r.2 then .panic else .ok r.1

/-- result.go:65 — the value is `none` only where Go leaves a float→int conversion undefined -/
def asInt (c : Conv) (v : GoVal) : Option Int × Bool :=
  match v with
  | .nil => (some 0, false)
  | .int (.basic .int) n => (some n, true)
  | .int (.basic .int8) n => (some (wrap64 n), true)
  | .int (.basic .int16) n => (some (wrap64 n), true)
  | .int (.basic .int32) n => (some (wrap64 n), true)
  | .int (.basic .int64) n => (some (wrap64 n), true)
  | .int (.basic .uint) n => (some (wrap64 n), true)
  | .int (.basic .uint8) n => (some (wrap64 n), true)
  | .int (.basic .uint16) n => (some (wrap64 n), true)
  | .int (.basic .uint32) n => (some (wrap64 n), true)
  | .int (.basic .uint64) n => (some (wrap64 n), true)
  | .float (.basic .float32) b => (c.f2i true b, true)
  | .float (.basic .float64) b => (c.f2i false b, true)
  | _ => (some 0, false)

def asIntOr (c : Conv) (v : GoVal) (d : Option Int) : Option Int :=
  let r := asInt c v
  if !r.2 then d else r.1

def mustInt (c : Conv) (v : GoVal) : Ret (Option Int) :=
  let r := asInt c v
  if !r.2 then .panic else .ok r.1

/-- result.go:123 — floats by bit pattern -/
def asFloat64 (c : Conv) (v : GoVal) : Nat × Bool :=
  match v with
  | .nil => (0, false)
  | .float (.basic .float64) b => (b, true)
  | .float (.basic .float32) b => (c.f32to64 b, true)
  | .int (.basic .int) n => (c.i2f n, true)
  | .int (.basic .int8) n => (c.i2f n, true)
  | .int (.basic .int16) n => (c.i2f n, true)
  | .int (.basic .int32) n => (c.i2f n, true)
  | .int (.basic .int64) n => (c.i2f n, true)
  | .int (.basic .uint) n => (c.i2f n, true)
  | .int (.basic .uint8) n => (c.i2f n, true)
  | .int (.basic .uint16) n => (c.i2f n, true)
  | .int (.basic .uint32) n => (c.i2f n, true)
  | .int (.basic .uint64) n => (c.i2f n, true)
  | _ => (0, false)

def asFloat64Or (c : Conv) (v : GoVal) (d : Nat) : Nat :=
  let r := asFloat64 c v
  if !r.2 then d else r.1

def mustFloat64 (c : Conv) (v : GoVal) : Ret Nat :=
  let r := asFloat64 c v
  if !r.2 then .panic else .ok r.1

/-- result.go:180 -/
def asBool (v : GoVal) : Bool × Bool :=
  match v with
  | .nil => (false, false)
  | .bool (.basic .bool) b => (b, true)
  | _ => (false, false)

def asBoolOr (v : GoVal) (d : Bool) : Bool :=
  let r := asBool v
  if !r.2 then d else r.1

def mustBool (v : GoVal) : Ret Bool :=
  let r := asBool v
  if !r.2 then .panic else .ok r.1

/-- result.go:253 -/
def asMap (v : GoVal) : MapV × Bool :=
  match v with
  | .nil => (none, false)
  | .map t id => if t = tMapSA then (id, true) else (none, false)
  | _ => (none, false)

def asMapOr (v : GoVal) (d : MapV) : MapV :=
  let r := asMap v
  if !r.2 then d else r.1

def mustMap (v : GoVal) : Ret MapV :=
  let r := asMap v
  if !r.2 then .panic else .ok r.1

/-- "did `ToSlice` merely wrap a non-slice value?" — may panic -/
abbrev SliceTest := SliceV → GoVal → Ret Bool

/-- repaired code: `reflect.ValueOf(v).Kind() != reflect.Slice` -/
def kindTest : SliceTest := fun _ v => .ok (v.kind != .slice)

/-- `v.([]any)` -/
def assertAnys (v : GoVal) : Option SliceV :=
  match v with
  | .slice t isNil elems => if t = tAnys then some (if isNil then none else some elems.toList) else none
  | _ => none

/-- result.go:211 -/
def asSliceWith (test : SliceTest) (v : GoVal) : Ret (SliceV × Bool) :=
  match v with
  | .nil => .ok (none, false)                       -- :212
  | v =>
    match assertAnys v with
    | some s => .ok (s, true)                       -- :217
    | none =>
      let result := toSlice v                       -- :222
      match test result v with
      | .panic => .panic
      | .ok true => .ok (none, false)               -- :226 ToSlice wrapped a non-slice value
      | .ok false => .ok (result, true)

def asSliceOrWith (test : SliceTest) (v : GoVal) (d : SliceV) : Ret SliceV :=
  match asSliceWith test v with
  | .panic => .panic
  | .ok r => .ok (if !r.2 then d else r.1)

def mustSliceWith (test : SliceTest) (v : GoVal) : Ret SliceV :=
  match asSliceWith test v with
  | .panic => .panic
  | .ok r => if !r.2 then .panic else .ok r.1

def asSlice := asSliceWith kindTest
def asSliceOr := asSliceOrWith kindTest
def mustSlice := mustSliceWith kindTest

/-! ## Generic accessors `As[T]` / `MustAs[T]` (result.go:378-399) -/

def GoVals.replicate (n : Nat) (v : GoVal) : GoVals :=
  match n with
  | 0 => .nil
  | n + 1 => .cons v (GoVals.replicate n v)

mutual
/-- the zero value of a type whose underlying type is the second argument, as an `any` holds it
    (labelled with the type `outer`; for an interface type: the nil interface) -/
def zeroAs (outer : GoType) : GoType → GoVal
  | .basic .string => .str outer ""
  | .basic .bool => .bool outer false
  | .basic .float32 | .basic .float64 => .float outer 0
  | .basic .complex64 | .basic .complex128 => .complex outer 0 0
  | .basic _ => .int outer 0
  | .any => .nil
  | .ptr _ => .ptr outer none
  | .slice _ => .slice outer true .nil
  | .array n e => .array outer (GoVals.replicate n (zeroAs e e))
  | .map _ _ => .map outer none
  | .chan _ => .chan outer none
  | .func _ => .func outer true
  | .structEnd => .struct outer .nil
  | .structField f r => .struct outer (.cons (zeroAs f f) (zeroFields r))
  | .named _ u => zeroAs outer u
def zeroFields : GoType → GoVals
  | .structField f r => .cons (zeroAs f f) (zeroFields r)
  | _ => .nil
end

/-- `var zero T` -/
def zeroOf (t : GoType) : GoVal := zeroAs t t

/-- result.go:378 `As[T]`: `typed, ok := r.value.(T)` after the nil check. For a non-interface `T` the
    assertion holds iff the dynamic type is identical to `T`; for `T = any` iff the value is not nil.
    (Interface types with methods — `error` — are not instantiated: the model has no method sets.)
    On failure `typed` is the zero value of `T`. -/
def asT (t : GoType) (v : GoVal) : GoVal × Bool :=
  match v.typeOf? with
  | none => (zeroOf t, false)
  | some u => if t = .any ∨ u = t then (v, true) else (zeroOf t, false)

/-- result.go:393 `MustAs[T]` -/
def mustT (t : GoType) (v : GoVal) : Ret GoVal :=
  let r := asT t v
  if !r.2 then .panic else .ok r.1

/-- the instantiations of `T` every scenario observes (the harness owns the same list) -/
def genTargets : List GoType :=
  [.basic .int, tString, .basic .float64, tBool, .basic .uint8, tAnys, tInts, tMapSA, .any, tResult,
   .slice tResult, .named "MyInt" (.basic .int), .ptr (.basic .int), .func 0, .array 2 (.basic .int),
   .named "MyRec" (.structField (.basic .int) (.structField tString .structEnd)), .ptr tResult]

/-- one instantiation: `As[T]` (value, ok) and `MustAs[T]` -/
abbrev GenObs := Ret (GoVal × Bool) × Ret GoVal

/-! ## SharedStore getters (flyt.go:163-364). The type switches are duplicated there, so they are
duplicated here. -/

abbrev Store := List (String × GoVal)

/-- `s.Get(key)`: (value, ok) -/
def Store.get (s : Store) (k : String) : Option GoVal := s.lookup k
/-- `s.Set(key, v)` -/
def Store.set (s : Store) (k : String) (v : GoVal) : Store := (k, v) :: s

/-- flyt.go:166 -/
def getString (s : Store) (k : String) : String :=
  match s.get k with
  | none => ""
  | some (.str (.basic .string) x) => x
  | some _ => ""

/-- flyt.go:178 -/
def getStringOr (s : Store) (k : String) (d : String) : String :=
  match s.get k with
  | none => d
  | some (.str (.basic .string) x) => x
  | some _ => d

/-- flyt.go:202 -/
def getIntOr (c : Conv) (s : Store) (k : String) (d : Option Int) : Option Int :=
  match s.get k with
  | none => d
  | some (.int (.basic .int) n) => some n
  | some (.int (.basic .int8) n) => some (wrap64 n)
  | some (.int (.basic .int16) n) => some (wrap64 n)
  | some (.int (.basic .int32) n) => some (wrap64 n)
  | some (.int (.basic .int64) n) => some (wrap64 n)
  | some (.int (.basic .uint) n) => some (wrap64 n)
  | some (.int (.basic .uint8) n) => some (wrap64 n)
  | some (.int (.basic .uint16) n) => some (wrap64 n)
  | some (.int (.basic .uint32) n) => some (wrap64 n)
  | some (.int (.basic .uint64) n) => some (wrap64 n)
  | some (.float (.basic .float32) b) => c.f2i true b
  | some (.float (.basic .float64) b) => c.f2i false b
  | some _ => d

/-- flyt.go:194 -/
def getInt (c : Conv) (s : Store) (k : String) : Option Int := getIntOr c s k (some 0)

/-- flyt.go:250 -/
def getFloat64Or (c : Conv) (s : Store) (k : String) (d : Nat) : Nat :=
  match s.get k with
  | none => d
  | some (.float (.basic .float64) b) => b
  | some (.float (.basic .float32) b) => c.f32to64 b
  | some (.int (.basic .int) n) => c.i2f n
  | some (.int (.basic .int8) n) => c.i2f n
  | some (.int (.basic .int16) n) => c.i2f n
  | some (.int (.basic .int32) n) => c.i2f n
  | some (.int (.basic .int64) n) => c.i2f n
  | some (.int (.basic .uint) n) => c.i2f n
  | some (.int (.basic .uint8) n) => c.i2f n
  | some (.int (.basic .uint16) n) => c.i2f n
  | some (.int (.basic .uint32) n) => c.i2f n
  | some (.int (.basic .uint64) n) => c.i2f n
  | some _ => d

/-- flyt.go:242 -/
def getFloat64 (c : Conv) (s : Store) (k : String) : Nat := getFloat64Or c s k 0

/-- flyt.go:296 -/
def getBoolOr (s : Store) (k : String) (d : Bool) : Bool :=
  match s.get k with
  | none => d
  | some (.bool (.basic .bool) b) => b
  | some _ => d

/-- flyt.go:289 -/
def getBool (s : Store) (k : String) : Bool := getBoolOr s k false

/-- flyt.go:319 -/
def getSliceOrWith (test : SliceTest) (s : Store) (k : String) (d : SliceV) : Ret SliceV :=
  match s.get k with
  | none => .ok d                                   -- :321
  | some .nil => .ok d                              -- :326
  | some v =>
    match assertAnys v with
    | some sl => .ok sl                             -- :331
    | none =>
      let result := toSlice v                       -- :336
      match test result v with
      | .panic => .panic
      | .ok true => .ok d                           -- :339
      | .ok false => .ok result

/-- flyt.go:311 -/
def getSliceWith (test : SliceTest) (s : Store) (k : String) : Ret SliceV := getSliceOrWith test s k none

def getSliceOr := getSliceOrWith kindTest
def getSlice := getSliceWith kindTest

/-- flyt.go:354 -/
def getMapOr (s : Store) (k : String) (d : MapV) : MapV :=
  match s.get k with
  | none => d
  | some (.map t id) => if t = tMapSA then id else d
  | some _ => d

/-- flyt.go:347 -/
def getMap (s : Store) (k : String) : MapV := getMapOr s k none

/-! ## The unrepaired slice test (finding F4) -/
namespace Legacy

/-- `len(result) == 1 && result[0] == value` -/
def eqTest : SliceTest := fun result v =>
  match result.getD [] with
  | [e] =>
    match ifaceEq e v with
    | .eq => .ok true
    | .ne => .ok false
    | .panic => .panic
  | _ => .ok false

def asSlice := asSliceWith eqTest
def asSliceOr := asSliceOrWith eqTest
def mustSlice := mustSliceWith eqTest
def getSliceOr := getSliceOrWith eqTest
def getSlice := getSliceWith eqTest

end Legacy

/-! ## What one scenario observes -/

/-- the seven observations of one accessor family on one value: `Result.AsX / AsXOr / MustX`,
    `store.GetX / GetXOr` on the key holding the value and on a missing key -/
structure FamObs (α : Type) where
  as_ : Ret (α × Bool)
  or_ : Ret α
  must : Ret α
  get : Ret α
  getOr : Ret α
  getMiss : Ret α
  getOrMiss : Ret α
  deriving DecidableEq, Repr

structure Defaults where
  s : String
  i : Int
  f : Nat
  b : Bool
  sl : SliceV
  m : MapV
  deriving DecidableEq, Repr

structure Obs where
  str : FamObs String
  int : FamObs (Option Int)
  flt : FamObs Nat
  bool : FamObs Bool
  slice : FamObs SliceV
  map : FamObs MapV
  /-- `As[T]` / `MustAs[T]` for each `T` of `genTargets`, in that order -/
  gen : List GenObs
  toSlice : Ret SliceV
  /-- `any(v) == any(v)` -/
  eqSelf : EqRes
  /-- `ToSlice(v)[0] == v` when `ToSlice(v)` has exactly one element -/
  eqHead : Option EqRes
  deriving DecidableEq, Repr

structure Scenario where
  v : GoVal
  d : Defaults
  conv : Conv

/-- the key the harness stores the value under / a key it never sets -/
def keyK : String := "k"
def keyMiss : String := "missing"

/-- the store of a scenario: a fresh store, one unrelated key, then `Set("k", v)` -/
def scStore (v : GoVal) : Store := Store.set (Store.set [] "other" (.str tString "x")) keyK v

def observeWith (test : SliceTest) (sc : Scenario) : Obs :=
  let v := sc.v
  let d := sc.d
  let c := sc.conv
  let st := scStore v
  { str := { as_ := .ok (asString v), or_ := .ok (asStringOr v d.s), must := mustString v,
             get := .ok (getString st keyK), getOr := .ok (getStringOr st keyK d.s),
             getMiss := .ok (getString st keyMiss), getOrMiss := .ok (getStringOr st keyMiss d.s) }
    int := { as_ := .ok (asInt c v), or_ := .ok (asIntOr c v (some d.i)), must := mustInt c v,
             get := .ok (getInt c st keyK), getOr := .ok (getIntOr c st keyK (some d.i)),
             getMiss := .ok (getInt c st keyMiss), getOrMiss := .ok (getIntOr c st keyMiss (some d.i)) }
    flt := { as_ := .ok (asFloat64 c v), or_ := .ok (asFloat64Or c v d.f), must := mustFloat64 c v,
             get := .ok (getFloat64 c st keyK), getOr := .ok (getFloat64Or c st keyK d.f),
             getMiss := .ok (getFloat64 c st keyMiss), getOrMiss := .ok (getFloat64Or c st keyMiss d.f) }
    bool := { as_ := .ok (asBool v), or_ := .ok (asBoolOr v d.b), must := mustBool v,
              get := .ok (getBool st keyK), getOr := .ok (getBoolOr st keyK d.b),
              getMiss := .ok (getBool st keyMiss), getOrMiss := .ok (getBoolOr st keyMiss d.b) }
    slice := { as_ := asSliceWith test v, or_ := asSliceOrWith test v d.sl, must := mustSliceWith test v,
               get := getSliceWith test st keyK, getOr := getSliceOrWith test st keyK d.sl,
               getMiss := getSliceWith test st keyMiss, getOrMiss := getSliceOrWith test st keyMiss d.sl }
    map := { as_ := .ok (asMap v), or_ := .ok (asMapOr v d.m), must := mustMap v,
             get := .ok (getMap st keyK), getOr := .ok (getMapOr st keyK d.m),
             getMiss := .ok (getMap st keyMiss), getOrMiss := .ok (getMapOr st keyMiss d.m) }
    gen := genTargets.map fun t => (.ok (asT t v), mustT t v)
    toSlice := .ok (toSlice v)
    eqSelf := ifaceEq v v
    eqHead := match (toSlice v).getD [] with | [e] => some (ifaceEq e v) | _ => none }

/-- the model of the (repaired) code -/
def observe (sc : Scenario) : Obs := observeWith kindTest sc

/-- the model of the unrepaired code -/
def Legacy.observe (sc : Scenario) : Obs := observeWith Legacy.eqTest sc

end Flyt.Value
