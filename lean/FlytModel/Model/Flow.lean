import FlytModel.Model.Batch
/-!
# Flows: `Connect`, `Flow.Prep/Exec/Post`, and `Run` dispatch over an arena of nodes
(flyt.go:681-689, 785-915).

`runNode`/`flowLoop` are mutually recursive on `fuel` (nested flows, loops); `Outcome.fuel`
is the "out of fuel" result that the theorems exclude.
-/
namespace Flyt

/-- one `flow.Connect(from, action, to)` call; `to = none` is a nil target -/
structure ConnOp where
  src : NodeId
  action : Action
  dst : Option NodeId
  deriving DecidableEq, Repr, Inhabited

/-- `transitions map[Node]map[Action]Node` as association lists, built literally like `Connect`. -/
abbrev Table := List (NodeId × List (Action × Option NodeId))

def assocSet {κ α : Type} [DecidableEq κ] (l : List (κ × α)) (k : κ) (v : α) : List (κ × α) :=
  match l with
  | [] => [(k, v)]
  | (k', v') :: t => if k' = k then (k, v) :: t else (k', v') :: assocSet t k v

def assocGet {κ α : Type} [DecidableEq κ] (l : List (κ × α)) (k : κ) : Option α :=
  match l with
  | [] => none
  | (k', v') :: t => if k' = k then some v' else assocGet t k

/-- `Connect`: create the inner map if missing, then `f.transitions[from][action] = to` -/
def connect (t : Table) (op : ConnOp) : Table :=
  let inner := (assocGet t op.src).getD []
  assocSet t op.src (assocSet inner op.action op.dst)

def buildTable (ops : List ConnOp) : Table := ops.foldl connect []

/-- the two-level lookup of `Flow.Exec`: `none` = no entry (flow ends), `some none` = nil target -/
def tableLookup (t : Table) (n : NodeId) (a : Action) : Option (Option NodeId) :=
  match assocGet t n with
  | none => none
  | some inner => assocGet inner a

inductive NodeDef
  | leaf (cfg : LeafCfg)
  | flow (start : Option NodeId) (ops : List ConnOp)
  | batch (cfg : BatchCfg)
  deriving Repr, Inhabited

structure Env where
  kind : CtxKind
  arena : NodeId → NodeDef
  leafBeh : NodeId → Nat → LeafScript
  batchBeh : NodeId → Nat → BatchScript

/-- run state: the context and the per-node visit counters (which script a node uses next) -/
structure RunSt where
  ctx : Ctx
  visits : NodeId → Nat

def RunSt.bump (s : RunSt) (n : NodeId) : RunSt :=
  { s with visits := fun m => if m = n then s.visits m + 1 else s.visits m }

/-- a visit is counted when the run invoked at least one user callback of the node (that is how
    the instrumented nodes of the harness can count) -/
def RunSt.bumpIf (s : RunSt) (b : Bool) (n : NodeId) : RunSt := if b then s.bump n else s

mutual
/-- `flyt.Run(ctx, node, shared)` -/
def runNode (env : Env) : Nat → NodeId → StoreId → RunSt → List Ev × RunSt × Outcome
  | 0, _, _, st => ([], st, .fuel)
  | fuel + 1, id, sid, st =>
    match env.arena id with
    | .leaf cfg =>
      let v := st.visits id
      let (evs, ctx', out) := runLeaf env.kind id v sid cfg (env.leafBeh id v) st.ctx
      (evs, { (st.bumpIf (!evs.isEmpty) id) with ctx := ctx' }, out)
    | .batch cfg =>
      let v := st.visits id
      let (evs, ctx', out) := runBatch env.kind id v sid cfg (env.batchBeh id v) st.ctx
      (evs, { (st.bumpIf (!evs.isEmpty) id) with ctx := ctx' }, out)
    | .flow start ops =>
      -- Run on a *Flow: ctx check, Flow.Prep (returns the store), ctx check, one attempt
      -- (default BaseNode: budget 1), ctx check, Flow.Exec, pass-through fallback, Flow.Post
      match st.ctx with
      | .done k => ([], st, .err (.ctx k))
      | .live =>
        match start with
        | none => ([], st, .err (.fw .noStart))
        | some s =>
          match flowLoop env fuel (buildTable ops) s sid st with
          | (evs, st', .ok a) => (evs, st', .ok (norm a))          -- Flow.Post + Run's normalisation
          | r => r
/-- the loop of `Flow.Exec` from node `cur` on -/
def flowLoop (env : Env) : Nat → Table → NodeId → StoreId → RunSt → List Ev × RunSt × Outcome
  | 0, _, _, _, st => ([], st, .fuel)
  | fuel + 1, tbl, cur, sid, st =>
    match st.ctx with
    | .done k => ([], st, .err (.ctx k))                          -- "flow: exec cancelled"
    | .live =>
      match runNode env fuel cur sid st with
      | (evs, st', .ok a) =>
        match tableLookup tbl cur a with
        | some (some nxt) =>
          let (evs2, st'', r) := flowLoop env fuel tbl nxt sid st'
          (evs ++ evs2, st'', r)
        | _ => (evs, st', .ok a)
      | r => r
end

end Flyt
