import FlytModel.Core
/-!
# `flyt.SharedStore`, sequentially (flyt.go:55-161), over an explicit heap of map objects

Go maps and slices are reference objects: `GetAll` hands the caller a map, `Keys` a slice, `Merge`
receives a map the caller keeps. Whether those objects are *shared* with the store's own
`s.data` is exactly what property C14 is about, so the model keeps a heap of map objects and a heap
of slice objects and addresses them by reference (`Nat` = allocation index). A caller-held map is a
*handle* `j` (index into `snaps`), a caller-held keys slice a handle into `ksnaps`.

The content of one Go map object is an association list `KV` with distinct keys (the invariant
`Proofs/StoreKV.lean: NodupKeys`); iteration order is the list order, which is as unspecified as Go's
(the driver sorts before comparing).

The lock (`s.mu`) is not modelled here: this is the sequential semantics of each method, which
`Model/StoreConc` wraps in `acquire … release`.
-/
namespace Flyt.Store
open Flyt

abbrev Key := String
/-- content of one Go `map[string]any` object -/
abbrev KV := List (Key × Val)

/-- `v, ok := m[k]` -/
def lookup (k : Key) : KV → Option Val
  | [] => none
  | (k', v) :: t => if k' = k then some v else lookup k t

/-- `delete(m, k)` -/
def erase (k : Key) : KV → KV
  | [] => []
  | (k', v) :: t => if k' = k then erase k t else (k', v) :: erase k t

/-- `m[k] = v` -/
def put (m : KV) (k : Key) (v : Val) : KV := (k, v) :: erase k m

/-- `for k, v := range src { dst[k] = v }` (flyt.go:111-113 with `dst = s.data`,
    flyt.go:94-97 with `dst = make(map[string]any, …)`) -/
def mergeInto (dst : KV) : KV → KV
  | [] => dst
  | (k, v) :: t => put (mergeInto dst t) k v

/-- `for k := range m { keys = append(keys, k) }` (flyt.go:148-151) -/
def keysOf (m : KV) : List Key := m.map (·.1)

/-- One step of a scenario: a `SharedStore` method call, or something the caller does to an object a
    previous call handed out / received. -/
inductive Op
  | get (k : Key)
  | set (k : Key) (v : Val)
  /-- `GetAll()`; the returned map becomes handle `snaps.length` -/
  | getAll
  /-- `Merge(nil)` -/
  | mergeNil
  /-- `m := map[string]any{…}; Merge(m)`; the caller keeps `m` as handle `snaps.length` -/
  | mergeLit (l : KV)
  /-- `Merge(m_j)`: the argument is the very object a previous `GetAll`/literal produced -/
  | mergeSnap (j : Nat)
  | has (k : Key)
  | delete (k : Key)
  | clear
  /-- `Keys()`; the returned slice becomes handle `ksnaps.length` -/
  | keys
  | len
  /-- `m_j[k] = v` on a caller-held map -/
  | snapSet (j : Nat) (k : Key) (v : Val)
  /-- `delete(m_j, k)` -/
  | snapDel (j : Nat) (k : Key)
  /-- `for i := range ks_j { if ks_j[i] == old { ks_j[i] = new } }` on a caller-held keys slice -/
  | keysRepl (j : Nat) (old new : Key)
  /-- look at the current content of the caller-held map `j` -/
  | readSnap (j : Nat)
  /-- look at the current content of the caller-held keys slice `j` -/
  | readKeys (j : Nat)
  deriving DecidableEq, Repr, Inhabited

/-- What one step returns. `noHandle`: the scenario named a handle that does not exist (nothing is
    called). `junk`: only an implementation can produce it (panic, watchdog, a key or value outside
    the scenario's vocabulary); the model never does. -/
inductive Resp
  | unit
  | got (v : Val) (ok : Bool)
  | bool (b : Bool)
  | nat (n : Nat)
  | keys (l : List Key)
  | map (m : KV)
  | noHandle
  | junk
  deriving DecidableEq, Repr, Inhabited

/-- heap + the store's `data` pointer + the caller's handles -/
structure St where
  /-- heap of map objects; a reference is an index -/
  maps : List KV
  /-- heap of `[]string` objects -/
  slices : List (List Key)
  /-- `s.data` -/
  data : Nat
  /-- caller-held maps, in order of creation -/
  snaps : List Nat
  /-- caller-held keys slices, in order of creation -/
  ksnaps : List Nat
  deriving Repr

/-- `NewSharedStore()`: `data: make(map[string]any)` (flyt.go:62-66) -/
def St.init : St := { maps := [[]], slices := [], data := 0, snaps := [], ksnaps := [] }

def St.deref (s : St) (r : Nat) : KV := s.maps.getD r []
def St.derefSlice (s : St) (r : Nat) : List Key := s.slices.getD r []
/-- the object `s.data` points to -/
def St.cur (s : St) : KV := s.deref s.data
/-- in-place update of map object `r` -/
def St.write (s : St) (r : Nat) (m : KV) : St := { s with maps := s.maps.set r m }

def replKey (old new : Key) (x : Key) : Key := if x = old then new else x

def step (s : St) : Op → St × Resp
  | .get k => (s, .got ((lookup k s.cur).getD Val.nil) (lookup k s.cur).isSome)        -- flyt.go:71-76
  | .set k v => (s.write s.data (put s.cur k v), .unit)                                -- flyt.go:81-85
  | .getAll =>                                                                          -- flyt.go:91-99
    let c := mergeInto [] s.cur
    ({ s with maps := s.maps ++ [c], snaps := s.snaps ++ [s.maps.length] }, .map c)
  | .mergeNil => (s, .unit)                                                             -- flyt.go:106-108
  | .mergeLit l =>                                                                      -- flyt.go:105-114
    let a := mergeInto [] l
    let r := s.maps.length
    let s1 : St := { s with maps := s.maps ++ [a], snaps := s.snaps ++ [r] }
    (s1.write s1.data (mergeInto s1.cur (s1.deref r)), .unit)
  | .mergeSnap j =>
    match s.snaps[j]? with
    | none => (s, .noHandle)
    | some r => (s.write s.data (mergeInto s.cur (s.deref r)), .unit)
  | .has k => (s, .bool (lookup k s.cur).isSome)                                       -- flyt.go:118-123
  | .delete k => (s.write s.data (erase k s.cur), .unit)                               -- flyt.go:127-131
  | .clear => ({ s with maps := s.maps ++ [[]], data := s.maps.length }, .unit)         -- flyt.go:135-139
  | .keys =>                                                                            -- flyt.go:145-153
    let ks := keysOf s.cur
    ({ s with slices := s.slices ++ [ks], ksnaps := s.ksnaps ++ [s.slices.length] }, .keys ks)
  | .len => (s, .nat s.cur.length)                                                      -- flyt.go:157-161
  | .snapSet j k v =>
    match s.snaps[j]? with
    | none => (s, .noHandle)
    | some r => (s.write r (put (s.deref r) k v), .unit)
  | .snapDel j k =>
    match s.snaps[j]? with
    | none => (s, .noHandle)
    | some r => (s.write r (erase k (s.deref r)), .unit)
  | .keysRepl j old new =>
    match s.ksnaps[j]? with
    | none => (s, .noHandle)
    | some r => ({ s with slices := s.slices.set r ((s.derefSlice r).map (replKey old new)) }, .unit)
  | .readSnap j =>
    match s.snaps[j]? with
    | none => (s, .noHandle)
    | some r => (s, .map (s.deref r))
  | .readKeys j =>
    match s.ksnaps[j]? with
    | none => (s, .noHandle)
    | some r => (s, .keys (s.derefSlice r))

/-- state after a sequence -/
def exec (s : St) : List Op → St
  | [] => s
  | op :: t => exec (step s op).1 t

/-- every response of a sequence -/
def run (s : St) : List Op → List Resp
  | [] => []
  | op :: t => (step s op).2 :: run (step s op).1 t

/-! ### the same machine without a heap: caller-held objects are *values*

`VSt` is what a reader who takes "GetAll returns a copy" literally has in mind: the store is one
map, every handed-out object is an independent value that only its own mutations change.
`Proofs/StoreHeap.lean` shows the heap machine never deviates from it (that is the isolation
theorem); `Proofs/StoreSpec.lean` relates it to the function-level map of `Spec/Store.lean`. -/

structure VSt where
  m : KV
  snaps : List KV
  ksnaps : List (List Key)
  deriving Repr

def VSt.init : VSt := { m := [], snaps := [], ksnaps := [] }

def vstep (s : VSt) : Op → VSt × Resp
  | .get k => (s, .got ((lookup k s.m).getD Val.nil) (lookup k s.m).isSome)
  | .set k v => ({ s with m := put s.m k v }, .unit)
  | .getAll => let c := mergeInto [] s.m; ({ s with snaps := s.snaps ++ [c] }, .map c)
  | .mergeNil => (s, .unit)
  | .mergeLit l => let a := mergeInto [] l; ({ s with m := mergeInto s.m a, snaps := s.snaps ++ [a] }, .unit)
  | .mergeSnap j =>
    match s.snaps[j]? with
    | none => (s, .noHandle)
    | some a => ({ s with m := mergeInto s.m a }, .unit)
  | .has k => (s, .bool (lookup k s.m).isSome)
  | .delete k => ({ s with m := erase k s.m }, .unit)
  | .clear => ({ s with m := [] }, .unit)
  | .keys => ({ s with ksnaps := s.ksnaps ++ [keysOf s.m] }, .keys (keysOf s.m))
  | .len => (s, .nat s.m.length)
  | .snapSet j k v =>
    match s.snaps[j]? with
    | none => (s, .noHandle)
    | some a => ({ s with snaps := s.snaps.set j (put a k v) }, .unit)
  | .snapDel j k =>
    match s.snaps[j]? with
    | none => (s, .noHandle)
    | some a => ({ s with snaps := s.snaps.set j (erase k a) }, .unit)
  | .keysRepl j old new =>
    match s.ksnaps[j]? with
    | none => (s, .noHandle)
    | some l => ({ s with ksnaps := s.ksnaps.set j (l.map (replKey old new)) }, .unit)
  | .readSnap j =>
    match s.snaps[j]? with
    | none => (s, .noHandle)
    | some a => (s, .map a)
  | .readKeys j =>
    match s.ksnaps[j]? with
    | none => (s, .noHandle)
    | some l => (s, .keys l)

def vexec (s : VSt) : List Op → VSt
  | [] => s
  | op :: t => vexec (vstep s op).1 t

def vrun (s : VSt) : List Op → List Resp
  | [] => []
  | op :: t => (vstep s op).2 :: vrun (vstep s op).1 t

/-- the value view of a heap state -/
def St.view (s : St) : VSt :=
  { m := s.cur, snaps := s.snaps.map s.deref, ksnaps := s.ksnaps.map s.derefSlice }

end Flyt.Store
