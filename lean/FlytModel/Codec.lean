import FlytModel.Core
/-!
# Text codec for values, errors, events and outcomes (the line protocol's leaves)

Grammar (prefix codes, so no separators are needed inside a value):
```
ERR ::= u<nat> | cc | cd | fn | fs | fc | fu | fo
VAL ::= t<nat> | r VAL | x ERR | y ERR VAL
EV  ::= p:n:v:sid | e:n:v:k:VAL | w:n:v:k:dur:f | f:n:v:VAL:ERR | o:n:v:sid:VAL:VAL
      | bp:n:v:sid | be:n:v:i:k:VAL | bw:n:v:i:k:dur:f | bf:n:v:i:VAL:ERR | bo:n:v:sid:VALS:VALS
OUT ::= A<action> | E ERR | B ERR : <action> | F
```
-/
namespace Flyt.Codec
open Flyt

def errStr : ErrRoot → String
  | .user n => s!"u{n}"
  | .ctx .canceled => "cc"
  | .ctx .deadline => "cd"
  | .fw .noStart => "fn"
  | .fw .batchStopped => "fs"
  | .fw .batchCancelled => "fc"
  | .fw .unprocessed => "fu"
  | .fw .other => "fo"

def valStr : Val → String
  | .tok n => s!"t{n}"
  | .res v none => "r" ++ valStr v
  | .res v (some e) => if v = Val.nil then "x" ++ errStr e else "y" ++ errStr e ++ valStr v

def valsStr (l : List Val) : String :=
  if l.isEmpty then "-" else ",".intercalate (l.map valStr)

def b01 (b : Bool) : String := if b then "1" else "0"

def evStr : Ev → String
  | .prep n v s => s!"p:{n}:{v}:{s}"
  | .exec n v k a => s!"e:{n}:{v}:{k}:{valStr a}"
  | .wait n v k d f => s!"w:{n}:{v}:{k}:{d}:{b01 f}"
  | .fb n v a e => s!"f:{n}:{v}:{valStr a}:{errStr e}"
  | .post n v s p e => s!"o:{n}:{v}:{s}:{valStr p}:{valStr e}"
  | .bprep n v s => s!"bp:{n}:{v}:{s}"
  | .bexec n v i k a => s!"be:{n}:{v}:{i}:{k}:{valStr a}"
  | .bwait n v i k d f => s!"bw:{n}:{v}:{i}:{k}:{d}:{b01 f}"
  | .bfb n v i a e => s!"bf:{n}:{v}:{i}:{valStr a}:{errStr e}"
  | .bpost n v s it sl => s!"bo:{n}:{v}:{s}:{valsStr it}:{valsStr sl}"

def outStr : Outcome → String
  | .ok a => "A" ++ a
  | .err e => "E" ++ errStr e
  | .both a e => "B" ++ errStr e ++ ":" ++ a
  | .fuel => "F"

/-! ### parsers (on `List Char`, returning the rest) -/

def takeNat (cs : List Char) : Option (Nat × List Char) :=
  let ds := cs.takeWhile Char.isDigit
  if ds.isEmpty then none
  else some (ds.foldl (fun a c => a * 10 + (c.toNat - '0'.toNat)) 0, cs.dropWhile Char.isDigit)

def parseErr (cs : List Char) : Option (ErrRoot × List Char) :=
  match cs with
  | 'u' :: r => (takeNat r).map fun (n, r') => (.user n, r')
  | 'c' :: 'c' :: r => some (.ctx .canceled, r)
  | 'c' :: 'd' :: r => some (.ctx .deadline, r)
  | 'f' :: 'n' :: r => some (.fw .noStart, r)
  | 'f' :: 's' :: r => some (.fw .batchStopped, r)
  | 'f' :: 'c' :: r => some (.fw .batchCancelled, r)
  | 'f' :: 'u' :: r => some (.fw .unprocessed, r)
  | 'f' :: 'o' :: r => some (.fw .other, r)
  | _ => none

def parseValFuel : Nat → List Char → Option (Val × List Char)
  | 0, _ => none
  | f + 1, cs =>
    match cs with
    | 't' :: r => (takeNat r).map fun (n, r') => (.tok n, r')
    | 'r' :: r => (parseValFuel f r).map fun (v, r') => (.res v none, r')
    | 'x' :: r => (parseErr r).map fun (e, r') => (.res Val.nil (some e), r')
    | 'y' :: r =>
      match parseErr r with
      | some (e, r') => (parseValFuel f r').map fun (v, r'') => (.res v (some e), r'')
      | none => none
    | _ => none

def parseVal (s : String) : Option Val :=
  match parseValFuel (s.length + 1) s.toList with
  | some (v, []) => some v
  | _ => none

def parseErrS (s : String) : Option ErrRoot :=
  match parseErr s.toList with
  | some (e, []) => some e
  | _ => none

def parseVals (s : String) : Option (List Val) :=
  if s = "-" then some [] else (s.splitOn ",").mapM parseVal

def parseBool (s : String) : Option Bool :=
  if s = "1" then some true else if s = "0" then some false else none

def parseEv (s : String) : Option Ev :=
  match s.splitOn ":" with
  | ["p", n, v, sid] => do pure (.prep (← n.toNat?) (← v.toNat?) (← sid.toNat?))
  | ["e", n, v, k, a] => do pure (.exec (← n.toNat?) (← v.toNat?) (← k.toNat?) (← parseVal a))
  | ["w", n, v, k, d, f] => do pure (.wait (← n.toNat?) (← v.toNat?) (← k.toNat?) (← d.toNat?) (← parseBool f))
  | ["f", n, v, a, e] => do pure (.fb (← n.toNat?) (← v.toNat?) (← parseVal a) (← parseErrS e))
  | ["o", n, v, sid, p, e] => do pure (.post (← n.toNat?) (← v.toNat?) (← sid.toNat?) (← parseVal p) (← parseVal e))
  | ["bp", n, v, sid] => do pure (.bprep (← n.toNat?) (← v.toNat?) (← sid.toNat?))
  | ["be", n, v, i, k, a] => do pure (.bexec (← n.toNat?) (← v.toNat?) (← i.toNat?) (← k.toNat?) (← parseVal a))
  | ["bw", n, v, i, k, d, f] => do pure (.bwait (← n.toNat?) (← v.toNat?) (← i.toNat?) (← k.toNat?) (← d.toNat?) (← parseBool f))
  | ["bf", n, v, i, a, e] => do pure (.bfb (← n.toNat?) (← v.toNat?) (← i.toNat?) (← parseVal a) (← parseErrS e))
  | ["bo", n, v, sid, it, sl] => do pure (.bpost (← n.toNat?) (← v.toNat?) (← sid.toNat?) (← parseVals it) (← parseVals sl))
  | _ => none

def parseOut (s : String) : Option Outcome :=
  match s.toList with
  | 'A' :: r => some (.ok (String.ofList r))
  | 'E' :: r => (parseErrS (String.ofList r)).map .err
  | 'B' :: r =>
    match parseErr r with
    | some (e, ':' :: a) => some (.both (String.ofList a) e)
    | _ => none
  | ['F'] => some .fuel
  | _ => none

/-- scripted callback outcome: `VAL` | `!<nat>` | `!<nat>+VAL` (error returned together with a
    value), with an optional trailing `*` (the callback cancels the context) -/
def parseOutVal (s : String) : Option (Out Val) :=
  let (body, c) := if s.endsWith "*" then ((s.dropEnd 1).toString, true) else (s, false)
  match body.toList with
  | '!' :: r =>
    match (String.ofList r).splitOn "+" with
    | [n] => n.toNat?.map fun n => { res := .error n, cancels := c }
    | [n, j] => do pure { res := .error (← n.toNat?), cancels := c, junk := some (← parseVal j) }
    | _ => none
  | _ => (parseVal body).map fun v => { res := .ok v, cancels := c }

/-- scripted post outcome: `=<action>` | `!<nat>` | `!<nat>+=<action>`, optional trailing `*` -/
def parseOutAct (s : String) : Option (Out Action) :=
  let (body, c) := if s.endsWith "*" then ((s.dropEnd 1).toString, true) else (s, false)
  match body.toList with
  | '!' :: r =>
    match (String.ofList r).splitOn "+=" with
    | [n] => n.toNat?.map fun n => { res := .error n, cancels := c }
    | [n, j] => n.toNat?.map fun n => { res := .error n, cancels := c, junk := some j }
    | _ => none
  | '=' :: r => some { res := .ok (String.ofList r), cancels := c }
  | _ => none

end Flyt.Codec
