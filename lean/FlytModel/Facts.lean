/-!
# Structural facts about the Go source, as data (types + well-formedness predicates)

`Generated/Facts.lean` (rewritten from /repo on every run by `/verif/extract`) instantiates these types.
The concurrency theorems of C12 / C13 and the transparency theorem of C04 carry the hypothesis that the
facts are well-formed; `Props/*` discharge it by `decide` on the generated terms, so a structural change in
the source (a narrowed lock, a moved `wg.Add`, a `%v`) breaks a proof obligation.
-/
namespace Flyt.Facts

inductive LockKind | none | r | w | mixed
  deriving DecidableEq, Repr
inductive UnlockKind | none | deferred | other
  deriving DecidableEq, Repr

/-- what the extractor found in one method of `*SharedStore` -/
structure MethodFacts where
  name : String
  lock : LockKind              -- which of mu.Lock / mu.RLock the method calls
  lockCalls : Nat              -- how many lock calls it contains
  unlock : UnlockKind          -- `defer mu.(R)Unlock()` right after the lock, or something else
  lockInLoop : Bool
  accessBeforeLock : Bool      -- a field of the store is touched before the lock is taken
  writes : Bool                -- assigns to / deletes from a field of the store
  reads : Bool                 -- touches a field of the store (other than mu)
  otherFields : List String    -- fields other than `data` it touches
  calls : List String          -- other methods of the store it calls
  callInLoop : Bool
  deriving DecidableEq, Repr

/-- A method that touches the store's state does so inside exactly one critical section that spans its
    whole body: one lock call, not in a loop, released by an immediately deferred unlock, nothing touched
    before it, writes only under the write lock, no nested calls to other (locking) store methods. -/
def MethodFacts.atomicSection (m : MethodFacts) : Bool :=
  (m.lock == .r || m.lock == .w) && m.lockCalls == 1 && m.unlock == .deferred && !m.lockInLoop
  && !m.accessBeforeLock && (!m.writes || m.lock == .w) && m.otherFields.isEmpty && m.calls.isEmpty

/-- A method that does not touch the state itself derives its answer from at most one call of another store
    method (not in a loop): its linearisation point is that call's. -/
def MethodFacts.derived (m : MethodFacts) : Bool :=
  m.lock == .none && m.lockCalls == 0 && !m.reads && !m.writes && m.calls.length ≤ 1 && !m.callInLoop

def MethodFacts.wellLocked (m : MethodFacts) : Bool := m.atomicSection || m.derived

/-- the write-locked methods are exactly the mutators -/
def mutators : List String := ["Set", "Merge", "Delete", "Clear"]
def readers : List String := ["Get", "GetAll", "Has", "Keys", "Len"]

def storeWellLocked (l : List MethodFacts) : Bool :=
  l.all MethodFacts.wellLocked
  -- the nine core operations exist and take the lock of the right kind
  && mutators.all (fun n => l.any fun m => m.name == n && m.lock == .w && m.atomicSection)
  && readers.all (fun n => l.any fun m => m.name == n && m.lock == .r && m.atomicSection && !m.writes)
  -- derived methods only call methods of this table
  && l.all (fun m => m.calls.all fun c => l.any (·.name == c))

structure PoolFacts where
  clampToOne : Bool             -- `if workers <= 0 { workers = 1 }`
  spawnLoopExact : Bool         -- `for i := 0; i < workers; i++ { go p.worker() }`
  addBeforeSend : Bool          -- Submit: `p.wg.Add(1)` then the channel send, nothing else
  doneDeferredInWrapper : Bool  -- the submitted closure starts with `defer p.wg.Done()`
  taskCalledOnce : Bool         -- … and calls the user's task exactly once
  workerLoopShape : Bool        -- `for { select { case task, ok := <-p.tasks: if !ok {return}; task()  case <-p.done: return } }`
  waitIsWgWait : Bool           -- Wait is exactly `p.wg.Wait()`
  closeClosesBoth : Bool        -- Close closes `done` and `tasks`
  noExtraGo : Bool              -- the only `go` statement of the pool is the one in the spawn loop
  capExpr : String              -- the capacity expression of the task channel (informational)
  deriving DecidableEq, Repr

def PoolFacts.wellFormed (p : PoolFacts) : Bool :=
  p.clampToOne && p.spawnLoopExact && p.addBeforeSend && p.doneDeferredInWrapper && p.taskCalledOnce
  && p.workerLoopShape && p.waitIsWgWait && p.closeClosesBoth && p.noExtraGo

structure WrapSite where
  file : String
  fn : String
  line : Nat
  wraps : Bool                  -- the error argument is consumed by `%w`
  format : String
  deriving DecidableEq, Repr

/-- every `fmt.Errorf` of the run paths that receives an error wraps it transparently -/
def wrapsTransparent (l : List WrapSite) : Bool := l.all (·.wraps)

end Flyt.Facts
