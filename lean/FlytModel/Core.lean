/-!
# Core vocabulary of the flyt model (core Lean only)

Everything here is what crosses the line protocol: actions, context state, error *roots*
(what `errors.Is` / `errors.As` can observe), payload values and callback events.
-/
namespace Flyt

abbrev Action := String
abbrev NodeId := Nat
abbrev StoreId := Nat

/-- `flyt.DefaultAction` -/
def defaultAction : Action := "default"

/-- `if action == "" { action = DefaultAction }` (flyt.go Run, batch.go runBatch) -/
def norm (a : Action) : Action := if a = "" then defaultAction else a

theorem norm_ne_empty (a : Action) : norm a ≠ "" := by
  unfold norm defaultAction; split <;> simp_all

theorem norm_norm (a : Action) : norm (norm a) = norm a := by
  unfold norm defaultAction; split <;> simp_all

theorem norm_of_ne {a : Action} (h : a ≠ "") : norm a = a := by
  unfold norm; simp [h]

/-- which error a done context reports -/
inductive CtxKind | canceled | deadline
  deriving DecidableEq, Repr, Inhabited

inductive Ctx | live | done (k : CtxKind)
  deriving DecidableEq, Repr, Inhabited

def Ctx.isDone : Ctx → Bool
  | .live => false
  | .done _ => true

/-- errors the framework creates itself (no user / ctx error underneath) -/
inductive FwTag
  | noStart          -- "flow: exec failed: no start node configured"
  | batchStopped     -- "batch stopped due to error"
  | batchCancelled   -- "context cancelled" (a fresh error; does not wrap ctx.Err())
  | unprocessed      -- slot of an item the batch never reached (after the F1 repair)
  | other
  deriving DecidableEq, Repr, Inhabited

/-- What `errors.Is` / `errors.As` can see of an error: its root.
    `user n` = the n-th sentinel handed out by a user callback. -/
inductive ErrRoot
  | user (n : Nat)
  | ctx (k : CtxKind)
  | fw (t : FwTag)
  deriving DecidableEq, Repr, Inhabited

/-- Go values as far as the orchestration can distinguish them: an opaque payload token
    (`tok 0` is `nil`) or a `flyt.Result` boxed in an `any`. -/
inductive Val
  | tok (n : Nat)
  | res (value : Val) (err : Option ErrRoot)
  deriving DecidableEq, Repr, Inhabited

def Val.nil : Val := .tok 0

/-- `flyt.Result` -/
structure Result where
  value : Val
  err : Option ErrRoot
  deriving DecidableEq, Repr, Inhabited

def newResult (v : Val) : Result := ⟨v, none⟩
def newErrorResult (e : ErrRoot) : Result := ⟨Val.nil, some e⟩
def Result.isError (r : Result) : Bool := r.err.isSome
/-- `Result.Value()`: nil for an error result -/
def Result.valueOf (r : Result) : Val := if r.err.isSome then Val.nil else r.value
def Result.box (r : Result) : Val := .res r.value r.err

/-- `v.(Result)` -/
def Val.asResult? : Val → Option Result
  | .res v e => some ⟨v, e⟩
  | .tok _ => none

/-- how a script value is turned into the `Result` a Result-style user function returns:
    a boxed result is returned as is, anything else through `NewResult` -/
def toResult (x : Val) : Result :=
  match x.asResult? with
  | some r => r
  | none => newResult x

/-- Scripted outcome of one user-callback invocation. `.error n` = the callback returns its
    sentinel error number n. `cancels` = the callback cancels the run's context before returning. -/
structure Out (α : Type) where
  res : Except Nat α
  cancels : Bool := false
  /-- a value the callback returns *alongside* its error (Go callbacks return a pair); the code
      under `if err != nil` never looks at it, and neither does the model -/
  junk : Option α := none

def Ctx.after (c : Ctx) (kind : CtxKind) (cancels : Bool) : Ctx :=
  match c with
  | .done k => .done k
  | .live => if cancels then .done kind else .live

/-- result slot of a batch: a `flyt.Result` -/
abbrev Slot := Result

/-- Events recorded by instrumented user callbacks. `n` node, `v` visit number of that node
    (counted by its prep-level entry), `sid` identity of the store handed in. -/
inductive Ev
  | prep (n : NodeId) (v : Nat) (sid : StoreId)
  | exec (n : NodeId) (v : Nat) (k : Nat) (arg : Val)
  | wait (n : NodeId) (v : Nat) (k : Nat) (dur : Nat) (fired : Bool)
  | fb (n : NodeId) (v : Nat) (arg : Val) (err : ErrRoot)
  | post (n : NodeId) (v : Nat) (sid : StoreId) (pv : Val) (ev : Val)
  | bprep (n : NodeId) (v : Nat) (sid : StoreId)
  | bexec (n : NodeId) (v : Nat) (i : Nat) (k : Nat) (arg : Val)
  | bwait (n : NodeId) (v : Nat) (i : Nat) (k : Nat) (dur : Nat) (fired : Bool)
  | bfb (n : NodeId) (v : Nat) (i : Nat) (arg : Val) (err : ErrRoot)
  | bpost (n : NodeId) (v : Nat) (sid : StoreId) (items : List Val) (slots : List Val)
  deriving DecidableEq, Repr, Inhabited

/-- Outcome of `flyt.Run`. `both` can only be produced by an implementation (the model never does). -/
inductive Outcome
  | ok (a : Action)
  | err (e : ErrRoot)
  | both (a : Action) (e : ErrRoot)
  | fuel
  deriving DecidableEq, Repr, Inhabited

def Ev.isWait : Ev → Bool
  | .wait .. => true
  | .bwait .. => true
  | _ => false

end Flyt
