import FlytModel.Generated.IR
import FlytModel.Expected.IR
/-! The translation of `SharedStore_Has` from the CURRENT source is, term for term, the expected IR. -/
namespace Flyt.Tie
theorem SharedStore_Has : Flyt.Generated.IR.SharedStore_Has = Flyt.Expected.IR.SharedStore_Has := rfl
end Flyt.Tie
