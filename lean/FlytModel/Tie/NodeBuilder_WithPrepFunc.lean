import FlytModel.Generated.IR
import FlytModel.Expected.IR
/-! The translation of `NodeBuilder_WithPrepFunc` from the CURRENT source is, term for term, the expected IR. -/
namespace Flyt.Tie
theorem NodeBuilder_WithPrepFunc : Flyt.Generated.IR.NodeBuilder_WithPrepFunc = Flyt.Expected.IR.NodeBuilder_WithPrepFunc := rfl
end Flyt.Tie
