import FlytModel.Generated.IR
import FlytModel.Expected.IR
/-! The translation of `SharedStore_Len` from the CURRENT source is, term for term, the expected IR. -/
namespace Flyt.Tie
theorem SharedStore_Len : Flyt.Generated.IR.SharedStore_Len = Flyt.Expected.IR.SharedStore_Len := rfl
end Flyt.Tie
