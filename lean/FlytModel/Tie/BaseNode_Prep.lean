import FlytModel.Generated.IR
import FlytModel.Expected.IR
/-! The translation of `BaseNode_Prep` from the CURRENT source is, term for term, the expected IR. -/
namespace Flyt.Tie
theorem BaseNode_Prep : Flyt.Generated.IR.BaseNode_Prep = Flyt.Expected.IR.BaseNode_Prep := rfl
end Flyt.Tie
