import FlytModel.Generated.IR
import FlytModel.Expected.IR
/-! The translation of `Flow_Prep` from the CURRENT source is, term for term, the expected IR. -/
namespace Flyt.Tie
theorem Flow_Prep : Flyt.Generated.IR.Flow_Prep = Flyt.Expected.IR.Flow_Prep := rfl
end Flyt.Tie
