import FlytModel.Generated.IR
import FlytModel.Expected.IR
/-! The translation of `BatchNodeBuilder_Prep` from the CURRENT source is, term for term, the expected IR. -/
namespace Flyt.Tie
theorem BatchNodeBuilder_Prep : Flyt.Generated.IR.BatchNodeBuilder_Prep = Flyt.Expected.IR.BatchNodeBuilder_Prep := rfl
end Flyt.Tie
