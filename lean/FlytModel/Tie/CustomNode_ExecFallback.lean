import FlytModel.Generated.IR
import FlytModel.Expected.IR
/-! The translation of `CustomNode_ExecFallback` from the CURRENT source is, term for term, the expected IR. -/
namespace Flyt.Tie
theorem CustomNode_ExecFallback : Flyt.Generated.IR.CustomNode_ExecFallback = Flyt.Expected.IR.CustomNode_ExecFallback := rfl
end Flyt.Tie
