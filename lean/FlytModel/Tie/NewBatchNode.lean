import FlytModel.Generated.IR
import FlytModel.Expected.IR
/-! The translation of `NewBatchNode` from the CURRENT source is, term for term, the expected IR. -/
namespace Flyt.Tie
theorem NewBatchNode : Flyt.Generated.IR.NewBatchNode = Flyt.Expected.IR.NewBatchNode := rfl
end Flyt.Tie
