import FlytModel.Generated.IR
import FlytModel.Expected.IR
/-! The translation of `BaseNode_Exec` from the CURRENT source is, term for term, the expected IR. -/
namespace Flyt.Tie
theorem BaseNode_Exec : Flyt.Generated.IR.BaseNode_Exec = Flyt.Expected.IR.BaseNode_Exec := rfl
end Flyt.Tie
