import FlytModel.Generated.IR
import FlytModel.Expected.IR
/-! The translation of `NewNode` from the CURRENT source is, term for term, the expected IR. -/
namespace Flyt.Tie
theorem NewNode : Flyt.Generated.IR.NewNode = Flyt.Expected.IR.NewNode := rfl
end Flyt.Tie
