import FlytModel.Generated.IR
import FlytModel.Expected.IR
/-! The translation of `MustAs` from the CURRENT source is, term for term, the expected IR. -/
namespace Flyt.Tie
theorem MustAs : Flyt.Generated.IR.MustAs = Flyt.Expected.IR.MustAs := rfl
end Flyt.Tie
