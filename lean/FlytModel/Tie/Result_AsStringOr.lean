import FlytModel.Generated.IR
import FlytModel.Expected.IR
/-! The translation of `Result_AsStringOr` from the CURRENT source is, term for term, the expected IR. -/
namespace Flyt.Tie
theorem Result_AsStringOr : Flyt.Generated.IR.Result_AsStringOr = Flyt.Expected.IR.Result_AsStringOr := rfl
end Flyt.Tie
