import FlytModel.Generated.IR
import FlytModel.Expected.IR
/-! The translation of `NodeBuilder_WithExecFunc` from the CURRENT source is, term for term, the expected IR. -/
namespace Flyt.Tie
theorem NodeBuilder_WithExecFunc : Flyt.Generated.IR.NodeBuilder_WithExecFunc = Flyt.Expected.IR.NodeBuilder_WithExecFunc := rfl
end Flyt.Tie
