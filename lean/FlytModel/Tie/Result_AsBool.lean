import FlytModel.Generated.IR
import FlytModel.Expected.IR
/-! The translation of `Result_AsBool` from the CURRENT source is, term for term, the expected IR. -/
namespace Flyt.Tie
theorem Result_AsBool : Flyt.Generated.IR.Result_AsBool = Flyt.Expected.IR.Result_AsBool := rfl
end Flyt.Tie
