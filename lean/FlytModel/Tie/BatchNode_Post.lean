import FlytModel.Generated.IR
import FlytModel.Expected.IR
/-! The translation of `BatchNode_Post` from the CURRENT source is, term for term, the expected IR. -/
namespace Flyt.Tie
theorem BatchNode_Post : Flyt.Generated.IR.BatchNode_Post = Flyt.Expected.IR.BatchNode_Post := rfl
end Flyt.Tie
