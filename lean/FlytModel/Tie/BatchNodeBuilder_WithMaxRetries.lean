import FlytModel.Generated.IR
import FlytModel.Expected.IR
/-! The translation of `BatchNodeBuilder_WithMaxRetries` from the CURRENT source is, term for term, the expected IR. -/
namespace Flyt.Tie
theorem BatchNodeBuilder_WithMaxRetries : Flyt.Generated.IR.BatchNodeBuilder_WithMaxRetries = Flyt.Expected.IR.BatchNodeBuilder_WithMaxRetries := rfl
end Flyt.Tie
