import FlytModel.Generated.IR
import FlytModel.Expected.IR
/-! The translation of `As` from the CURRENT source is, term for term, the expected IR. -/
namespace Flyt.Tie
theorem As : Flyt.Generated.IR.As = Flyt.Expected.IR.As := rfl
end Flyt.Tie
