import FlytModel.Generated.IR
import FlytModel.Expected.IR
/-! The translation of `NewBaseNode` from the CURRENT source is, term for term, the expected IR. -/
namespace Flyt.Tie
theorem NewBaseNode : Flyt.Generated.IR.NewBaseNode = Flyt.Expected.IR.NewBaseNode := rfl
end Flyt.Tie
