import FlytModel.Generated.IR
import FlytModel.Expected.IR
/-! The translation of `BaseNode_ExecFallback` from the CURRENT source is, term for term, the expected IR. -/
namespace Flyt.Tie
theorem BaseNode_ExecFallback : Flyt.Generated.IR.BaseNode_ExecFallback = Flyt.Expected.IR.BaseNode_ExecFallback := rfl
end Flyt.Tie
