import FlytModel.Generated.IR
import FlytModel.Expected.IR
/-! The translation of `SharedStore_Clear` from the CURRENT source is, term for term, the expected IR. -/
namespace Flyt.Tie
theorem SharedStore_Clear : Flyt.Generated.IR.SharedStore_Clear = Flyt.Expected.IR.SharedStore_Clear := rfl
end Flyt.Tie
