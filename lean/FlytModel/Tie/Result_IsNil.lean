import FlytModel.Generated.IR
import FlytModel.Expected.IR
/-! The translation of `Result_IsNil` from the CURRENT source is, term for term, the expected IR. -/
namespace Flyt.Tie
theorem Result_IsNil : Flyt.Generated.IR.Result_IsNil = Flyt.Expected.IR.Result_IsNil := rfl
end Flyt.Tie
