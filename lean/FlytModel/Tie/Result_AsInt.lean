import FlytModel.Generated.IR
import FlytModel.Expected.IR
/-! The translation of `Result_AsInt` from the CURRENT source is, term for term, the expected IR. -/
namespace Flyt.Tie
theorem Result_AsInt : Flyt.Generated.IR.Result_AsInt = Flyt.Expected.IR.Result_AsInt := rfl
end Flyt.Tie
