import FlytModel.Generated.IR
import FlytModel.Expected.IR
/-! The translation of `runBatchConcurrent` from the CURRENT source is, term for term, the expected IR. -/
namespace Flyt.Tie
theorem runBatchConcurrent : Flyt.Generated.IR.runBatchConcurrent = Flyt.Expected.IR.runBatchConcurrent := rfl
end Flyt.Tie
