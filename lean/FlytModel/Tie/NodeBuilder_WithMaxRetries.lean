import FlytModel.Generated.IR
import FlytModel.Expected.IR
/-! The translation of `NodeBuilder_WithMaxRetries` from the CURRENT source is, term for term, the expected IR. -/
namespace Flyt.Tie
theorem NodeBuilder_WithMaxRetries : Flyt.Generated.IR.NodeBuilder_WithMaxRetries = Flyt.Expected.IR.NodeBuilder_WithMaxRetries := rfl
end Flyt.Tie
