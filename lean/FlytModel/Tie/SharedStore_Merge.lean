import FlytModel.Generated.IR
import FlytModel.Expected.IR
/-! The translation of `SharedStore_Merge` from the CURRENT source is, term for term, the expected IR. -/
namespace Flyt.Tie
theorem SharedStore_Merge : Flyt.Generated.IR.SharedStore_Merge = Flyt.Expected.IR.SharedStore_Merge := rfl
end Flyt.Tie
