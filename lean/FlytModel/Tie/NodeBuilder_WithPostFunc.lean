import FlytModel.Generated.IR
import FlytModel.Expected.IR
/-! The translation of `NodeBuilder_WithPostFunc` from the CURRENT source is, term for term, the expected IR. -/
namespace Flyt.Tie
theorem NodeBuilder_WithPostFunc : Flyt.Generated.IR.NodeBuilder_WithPostFunc = Flyt.Expected.IR.NodeBuilder_WithPostFunc := rfl
end Flyt.Tie
