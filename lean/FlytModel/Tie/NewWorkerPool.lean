import FlytModel.Generated.IR
import FlytModel.Expected.IR
/-! The translation of `NewWorkerPool` from the CURRENT source is, term for term, the expected IR. -/
namespace Flyt.Tie
theorem NewWorkerPool : Flyt.Generated.IR.NewWorkerPool = Flyt.Expected.IR.NewWorkerPool := rfl
end Flyt.Tie
