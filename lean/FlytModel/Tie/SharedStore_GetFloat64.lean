import FlytModel.Generated.IR
import FlytModel.Expected.IR
/-! The translation of `SharedStore_GetFloat64` from the CURRENT source is, term for term, the expected IR. -/
namespace Flyt.Tie
theorem SharedStore_GetFloat64 : Flyt.Generated.IR.SharedStore_GetFloat64 = Flyt.Expected.IR.SharedStore_GetFloat64 := rfl
end Flyt.Tie
