import FlytModel.Generated.IR
import FlytModel.Expected.IR
/-! The translation of `NewFlow` from the CURRENT source is, term for term, the expected IR. -/
namespace Flyt.Tie
theorem NewFlow : Flyt.Generated.IR.NewFlow = Flyt.Expected.IR.NewFlow := rfl
end Flyt.Tie
