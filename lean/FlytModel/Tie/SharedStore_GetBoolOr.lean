import FlytModel.Generated.IR
import FlytModel.Expected.IR
/-! The translation of `SharedStore_GetBoolOr` from the CURRENT source is, term for term, the expected IR. -/
namespace Flyt.Tie
theorem SharedStore_GetBoolOr : Flyt.Generated.IR.SharedStore_GetBoolOr = Flyt.Expected.IR.SharedStore_GetBoolOr := rfl
end Flyt.Tie
