import FlytModel.Generated.IR
import FlytModel.Expected.IR
/-! The translation of `BatchNodeBuilder_WithWait` from the CURRENT source is, term for term, the expected IR. -/
namespace Flyt.Tie
theorem BatchNodeBuilder_WithWait : Flyt.Generated.IR.BatchNodeBuilder_WithWait = Flyt.Expected.IR.BatchNodeBuilder_WithWait := rfl
end Flyt.Tie
