import FlytModel.Generated.IR
import FlytModel.Expected.IR
/-! The translation of `WorkerPool_Wait` from the CURRENT source is, term for term, the expected IR. -/
namespace Flyt.Tie
theorem WorkerPool_Wait : Flyt.Generated.IR.WorkerPool_Wait = Flyt.Expected.IR.WorkerPool_Wait := rfl
end Flyt.Tie
