import FlytModel.Generated.IR
import FlytModel.Expected.IR
/-! The translation of `SharedStore_GetFloat64Or` from the CURRENT source is, term for term, the expected IR. -/
namespace Flyt.Tie
theorem SharedStore_GetFloat64Or : Flyt.Generated.IR.SharedStore_GetFloat64Or = Flyt.Expected.IR.SharedStore_GetFloat64Or := rfl
end Flyt.Tie
