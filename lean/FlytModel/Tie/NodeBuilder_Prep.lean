import FlytModel.Generated.IR
import FlytModel.Expected.IR
/-! The translation of `NodeBuilder_Prep` from the CURRENT source is, term for term, the expected IR. -/
namespace Flyt.Tie
theorem NodeBuilder_Prep : Flyt.Generated.IR.NodeBuilder_Prep = Flyt.Expected.IR.NodeBuilder_Prep := rfl
end Flyt.Tie
