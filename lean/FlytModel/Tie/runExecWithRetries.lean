import FlytModel.Generated.IR
import FlytModel.Expected.IR
/-! The translation of `runExecWithRetries` from the CURRENT source is, term for term, the expected IR. -/
namespace Flyt.Tie
theorem runExecWithRetries : Flyt.Generated.IR.runExecWithRetries = Flyt.Expected.IR.runExecWithRetries := rfl
end Flyt.Tie
