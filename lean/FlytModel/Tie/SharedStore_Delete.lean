import FlytModel.Generated.IR
import FlytModel.Expected.IR
/-! The translation of `SharedStore_Delete` from the CURRENT source is, term for term, the expected IR. -/
namespace Flyt.Tie
theorem SharedStore_Delete : Flyt.Generated.IR.SharedStore_Delete = Flyt.Expected.IR.SharedStore_Delete := rfl
end Flyt.Tie
