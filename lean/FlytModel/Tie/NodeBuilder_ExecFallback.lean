import FlytModel.Generated.IR
import FlytModel.Expected.IR
/-! The translation of `NodeBuilder_ExecFallback` from the CURRENT source is, term for term, the expected IR. -/
namespace Flyt.Tie
theorem NodeBuilder_ExecFallback : Flyt.Generated.IR.NodeBuilder_ExecFallback = Flyt.Expected.IR.NodeBuilder_ExecFallback := rfl
end Flyt.Tie
