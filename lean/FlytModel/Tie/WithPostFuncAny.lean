import FlytModel.Generated.IR
import FlytModel.Expected.IR
/-! The translation of `WithPostFuncAny` from the CURRENT source is, term for term, the expected IR. -/
namespace Flyt.Tie
theorem WithPostFuncAny : Flyt.Generated.IR.WithPostFuncAny = Flyt.Expected.IR.WithPostFuncAny := rfl
end Flyt.Tie
