import FlytModel.Generated.IR
import FlytModel.Expected.IR
/-! The translation of `Result_AsFloat64Or` from the CURRENT source is, term for term, the expected IR. -/
namespace Flyt.Tie
theorem Result_AsFloat64Or : Flyt.Generated.IR.Result_AsFloat64Or = Flyt.Expected.IR.Result_AsFloat64Or := rfl
end Flyt.Tie
