import FlytModel.Generated.IR
import FlytModel.Expected.IR
/-! The translation of `SharedStore_GetMap` from the CURRENT source is, term for term, the expected IR. -/
namespace Flyt.Tie
theorem SharedStore_GetMap : Flyt.Generated.IR.SharedStore_GetMap = Flyt.Expected.IR.SharedStore_GetMap := rfl
end Flyt.Tie
