import FlytModel.Generated.IR
import FlytModel.Expected.IR
/-! The translation of `NodeBuilder_GetWait` from the CURRENT source is, term for term, the expected IR. -/
namespace Flyt.Tie
theorem NodeBuilder_GetWait : Flyt.Generated.IR.NodeBuilder_GetWait = Flyt.Expected.IR.NodeBuilder_GetWait := rfl
end Flyt.Tie
