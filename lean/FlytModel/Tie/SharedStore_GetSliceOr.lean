import FlytModel.Generated.IR
import FlytModel.Expected.IR
/-! The translation of `SharedStore_GetSliceOr` from the CURRENT source is, term for term, the expected IR. -/
namespace Flyt.Tie
theorem SharedStore_GetSliceOr : Flyt.Generated.IR.SharedStore_GetSliceOr = Flyt.Expected.IR.SharedStore_GetSliceOr := rfl
end Flyt.Tie
