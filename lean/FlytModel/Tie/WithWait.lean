import FlytModel.Generated.IR
import FlytModel.Expected.IR
/-! The translation of `WithWait` from the CURRENT source is, term for term, the expected IR. -/
namespace Flyt.Tie
theorem WithWait : Flyt.Generated.IR.WithWait = Flyt.Expected.IR.WithWait := rfl
end Flyt.Tie
