import FlytModel.Generated.IR
import FlytModel.Expected.IR
/-! The translation of `NodeBuilder_WithExecFuncAny` from the CURRENT source is, term for term, the expected IR. -/
namespace Flyt.Tie
theorem NodeBuilder_WithExecFuncAny : Flyt.Generated.IR.NodeBuilder_WithExecFuncAny = Flyt.Expected.IR.NodeBuilder_WithExecFuncAny := rfl
end Flyt.Tie
