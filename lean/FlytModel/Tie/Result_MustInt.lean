import FlytModel.Generated.IR
import FlytModel.Expected.IR
/-! The translation of `Result_MustInt` from the CURRENT source is, term for term, the expected IR. -/
namespace Flyt.Tie
theorem Result_MustInt : Flyt.Generated.IR.Result_MustInt = Flyt.Expected.IR.Result_MustInt := rfl
end Flyt.Tie
