import FlytModel.Generated.IR
import FlytModel.Expected.IR
/-! The translation of `CustomNode_Post` from the CURRENT source is, term for term, the expected IR. -/
namespace Flyt.Tie
theorem CustomNode_Post : Flyt.Generated.IR.CustomNode_Post = Flyt.Expected.IR.CustomNode_Post := rfl
end Flyt.Tie
