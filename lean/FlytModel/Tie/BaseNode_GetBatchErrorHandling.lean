import FlytModel.Generated.IR
import FlytModel.Expected.IR
/-! The translation of `BaseNode_GetBatchErrorHandling` from the CURRENT source is, term for term, the expected IR. -/
namespace Flyt.Tie
theorem BaseNode_GetBatchErrorHandling : Flyt.Generated.IR.BaseNode_GetBatchErrorHandling = Flyt.Expected.IR.BaseNode_GetBatchErrorHandling := rfl
end Flyt.Tie
