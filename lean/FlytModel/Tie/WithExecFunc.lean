import FlytModel.Generated.IR
import FlytModel.Expected.IR
/-! The translation of `WithExecFunc` from the CURRENT source is, term for term, the expected IR. -/
namespace Flyt.Tie
theorem WithExecFunc : Flyt.Generated.IR.WithExecFunc = Flyt.Expected.IR.WithExecFunc := rfl
end Flyt.Tie
