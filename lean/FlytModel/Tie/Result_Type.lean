import FlytModel.Generated.IR
import FlytModel.Expected.IR
/-! The translation of `Result_Type` from the CURRENT source is, term for term, the expected IR. -/
namespace Flyt.Tie
theorem Result_Type : Flyt.Generated.IR.Result_Type = Flyt.Expected.IR.Result_Type := rfl
end Flyt.Tie
