import FlytModel.Generated.IR
import FlytModel.Expected.IR
/-! The translation of `Flow_Post` from the CURRENT source is, term for term, the expected IR. -/
namespace Flyt.Tie
theorem Flow_Post : Flyt.Generated.IR.Flow_Post = Flyt.Expected.IR.Flow_Post := rfl
end Flyt.Tie
