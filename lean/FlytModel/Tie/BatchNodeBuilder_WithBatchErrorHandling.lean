import FlytModel.Generated.IR
import FlytModel.Expected.IR
/-! The translation of `BatchNodeBuilder_WithBatchErrorHandling` from the CURRENT source is, term for term, the expected IR. -/
namespace Flyt.Tie
theorem BatchNodeBuilder_WithBatchErrorHandling : Flyt.Generated.IR.BatchNodeBuilder_WithBatchErrorHandling = Flyt.Expected.IR.BatchNodeBuilder_WithBatchErrorHandling := rfl
end Flyt.Tie
