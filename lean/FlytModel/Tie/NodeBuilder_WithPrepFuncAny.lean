import FlytModel.Generated.IR
import FlytModel.Expected.IR
/-! The translation of `NodeBuilder_WithPrepFuncAny` from the CURRENT source is, term for term, the expected IR. -/
namespace Flyt.Tie
theorem NodeBuilder_WithPrepFuncAny : Flyt.Generated.IR.NodeBuilder_WithPrepFuncAny = Flyt.Expected.IR.NodeBuilder_WithPrepFuncAny := rfl
end Flyt.Tie
