import FlytModel.Generated.IR
import FlytModel.Expected.IR
/-! The translation of `Flow_Exec` from the CURRENT source is, term for term, the expected IR. -/
namespace Flyt.Tie
theorem Flow_Exec : Flyt.Generated.IR.Flow_Exec = Flyt.Expected.IR.Flow_Exec := rfl
end Flyt.Tie
