import FlytModel.Generated.IR
import FlytModel.Expected.IR
/-! The translation of `Result_MustSlice` from the CURRENT source is, term for term, the expected IR. -/
namespace Flyt.Tie
theorem Result_MustSlice : Flyt.Generated.IR.Result_MustSlice = Flyt.Expected.IR.Result_MustSlice := rfl
end Flyt.Tie
