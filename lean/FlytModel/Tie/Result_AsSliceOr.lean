import FlytModel.Generated.IR
import FlytModel.Expected.IR
/-! The translation of `Result_AsSliceOr` from the CURRENT source is, term for term, the expected IR. -/
namespace Flyt.Tie
theorem Result_AsSliceOr : Flyt.Generated.IR.Result_AsSliceOr = Flyt.Expected.IR.Result_AsSliceOr := rfl
end Flyt.Tie
