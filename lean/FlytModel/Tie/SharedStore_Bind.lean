import FlytModel.Generated.IR
import FlytModel.Expected.IR
/-! The translation of `SharedStore_Bind` from the CURRENT source is, term for term, the expected IR. -/
namespace Flyt.Tie
theorem SharedStore_Bind : Flyt.Generated.IR.SharedStore_Bind = Flyt.Expected.IR.SharedStore_Bind := rfl
end Flyt.Tie
