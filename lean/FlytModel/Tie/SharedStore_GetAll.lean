import FlytModel.Generated.IR
import FlytModel.Expected.IR
/-! The translation of `SharedStore_GetAll` from the CURRENT source is, term for term, the expected IR. -/
namespace Flyt.Tie
theorem SharedStore_GetAll : Flyt.Generated.IR.SharedStore_GetAll = Flyt.Expected.IR.SharedStore_GetAll := rfl
end Flyt.Tie
