import FlytModel.Generated.IR
import FlytModel.Expected.IR
/-! The translation of `NodeBuilder_GetMaxRetries` from the CURRENT source is, term for term, the expected IR. -/
namespace Flyt.Tie
theorem NodeBuilder_GetMaxRetries : Flyt.Generated.IR.NodeBuilder_GetMaxRetries = Flyt.Expected.IR.NodeBuilder_GetMaxRetries := rfl
end Flyt.Tie
