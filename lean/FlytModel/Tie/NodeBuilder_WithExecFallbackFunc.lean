import FlytModel.Generated.IR
import FlytModel.Expected.IR
/-! The translation of `NodeBuilder_WithExecFallbackFunc` from the CURRENT source is, term for term, the expected IR. -/
namespace Flyt.Tie
theorem NodeBuilder_WithExecFallbackFunc : Flyt.Generated.IR.NodeBuilder_WithExecFallbackFunc = Flyt.Expected.IR.NodeBuilder_WithExecFallbackFunc := rfl
end Flyt.Tie
