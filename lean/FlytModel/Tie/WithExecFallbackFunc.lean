import FlytModel.Generated.IR
import FlytModel.Expected.IR
/-! The translation of `WithExecFallbackFunc` from the CURRENT source is, term for term, the expected IR. -/
namespace Flyt.Tie
theorem WithExecFallbackFunc : Flyt.Generated.IR.WithExecFallbackFunc = Flyt.Expected.IR.WithExecFallbackFunc := rfl
end Flyt.Tie
