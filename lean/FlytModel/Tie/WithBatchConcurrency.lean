import FlytModel.Generated.IR
import FlytModel.Expected.IR
/-! The translation of `WithBatchConcurrency` from the CURRENT source is, term for term, the expected IR. -/
namespace Flyt.Tie
theorem WithBatchConcurrency : Flyt.Generated.IR.WithBatchConcurrency = Flyt.Expected.IR.WithBatchConcurrency := rfl
end Flyt.Tie
