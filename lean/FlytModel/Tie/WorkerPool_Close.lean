import FlytModel.Generated.IR
import FlytModel.Expected.IR
/-! The translation of `WorkerPool_Close` from the CURRENT source is, term for term, the expected IR. -/
namespace Flyt.Tie
theorem WorkerPool_Close : Flyt.Generated.IR.WorkerPool_Close = Flyt.Expected.IR.WorkerPool_Close := rfl
end Flyt.Tie
