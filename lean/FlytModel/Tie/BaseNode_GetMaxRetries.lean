import FlytModel.Generated.IR
import FlytModel.Expected.IR
/-! The translation of `BaseNode_GetMaxRetries` from the CURRENT source is, term for term, the expected IR. -/
namespace Flyt.Tie
theorem BaseNode_GetMaxRetries : Flyt.Generated.IR.BaseNode_GetMaxRetries = Flyt.Expected.IR.BaseNode_GetMaxRetries := rfl
end Flyt.Tie
