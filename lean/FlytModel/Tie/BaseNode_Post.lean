import FlytModel.Generated.IR
import FlytModel.Expected.IR
/-! The translation of `BaseNode_Post` from the CURRENT source is, term for term, the expected IR. -/
namespace Flyt.Tie
theorem BaseNode_Post : Flyt.Generated.IR.BaseNode_Post = Flyt.Expected.IR.BaseNode_Post := rfl
end Flyt.Tie
