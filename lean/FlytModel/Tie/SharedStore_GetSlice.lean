import FlytModel.Generated.IR
import FlytModel.Expected.IR
/-! The translation of `SharedStore_GetSlice` from the CURRENT source is, term for term, the expected IR. -/
namespace Flyt.Tie
theorem SharedStore_GetSlice : Flyt.Generated.IR.SharedStore_GetSlice = Flyt.Expected.IR.SharedStore_GetSlice := rfl
end Flyt.Tie
