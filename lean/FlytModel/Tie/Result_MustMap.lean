import FlytModel.Generated.IR
import FlytModel.Expected.IR
/-! The translation of `Result_MustMap` from the CURRENT source is, term for term, the expected IR. -/
namespace Flyt.Tie
theorem Result_MustMap : Flyt.Generated.IR.Result_MustMap = Flyt.Expected.IR.Result_MustMap := rfl
end Flyt.Tie
