import FlytModel.Generated.IR
import FlytModel.Expected.IR
/-! The translation of `markUnprocessed` from the CURRENT source is, term for term, the expected IR. -/
namespace Flyt.Tie
theorem markUnprocessed : Flyt.Generated.IR.markUnprocessed = Flyt.Expected.IR.markUnprocessed := rfl
end Flyt.Tie
