import FlytModel.Generated.IR
import FlytModel.Expected.IR
/-! The translation of `BaseNode_GetWait` from the CURRENT source is, term for term, the expected IR. -/
namespace Flyt.Tie
theorem BaseNode_GetWait : Flyt.Generated.IR.BaseNode_GetWait = Flyt.Expected.IR.BaseNode_GetWait := rfl
end Flyt.Tie
