import FlytModel.Generated.IR
import FlytModel.Expected.IR
/-! The translation of `BatchNodeBuilder_WithExecFuncAny` from the CURRENT source is, term for term, the expected IR. -/
namespace Flyt.Tie
theorem BatchNodeBuilder_WithExecFuncAny : Flyt.Generated.IR.BatchNodeBuilder_WithExecFuncAny = Flyt.Expected.IR.BatchNodeBuilder_WithExecFuncAny := rfl
end Flyt.Tie
