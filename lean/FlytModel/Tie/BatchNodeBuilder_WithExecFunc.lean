import FlytModel.Generated.IR
import FlytModel.Expected.IR
/-! The translation of `BatchNodeBuilder_WithExecFunc` from the CURRENT source is, term for term, the expected IR. -/
namespace Flyt.Tie
theorem BatchNodeBuilder_WithExecFunc : Flyt.Generated.IR.BatchNodeBuilder_WithExecFunc = Flyt.Expected.IR.BatchNodeBuilder_WithExecFunc := rfl
end Flyt.Tie
