import FlytModel.Generated.IR
import FlytModel.Expected.IR
/-! The translation of `Result_Value` from the CURRENT source is, term for term, the expected IR. -/
namespace Flyt.Tie
theorem Result_Value : Flyt.Generated.IR.Result_Value = Flyt.Expected.IR.Result_Value := rfl
end Flyt.Tie
