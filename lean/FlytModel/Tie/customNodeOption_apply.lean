import FlytModel.Generated.IR
import FlytModel.Expected.IR
/-! The translation of `customNodeOption_apply` from the CURRENT source is, term for term, the expected IR. -/
namespace Flyt.Tie
theorem customNodeOption_apply : Flyt.Generated.IR.customNodeOption_apply = Flyt.Expected.IR.customNodeOption_apply := rfl
end Flyt.Tie
