import FlytModel.Generated.IR
import FlytModel.Expected.IR
/-! The translation of `WithExecFuncAny` from the CURRENT source is, term for term, the expected IR. -/
namespace Flyt.Tie
theorem WithExecFuncAny : Flyt.Generated.IR.WithExecFuncAny = Flyt.Expected.IR.WithExecFuncAny := rfl
end Flyt.Tie
