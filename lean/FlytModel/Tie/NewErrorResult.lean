import FlytModel.Generated.IR
import FlytModel.Expected.IR
/-! The translation of `NewErrorResult` from the CURRENT source is, term for term, the expected IR. -/
namespace Flyt.Tie
theorem NewErrorResult : Flyt.Generated.IR.NewErrorResult = Flyt.Expected.IR.NewErrorResult := rfl
end Flyt.Tie
