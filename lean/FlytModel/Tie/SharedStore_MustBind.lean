import FlytModel.Generated.IR
import FlytModel.Expected.IR
/-! The translation of `SharedStore_MustBind` from the CURRENT source is, term for term, the expected IR. -/
namespace Flyt.Tie
theorem SharedStore_MustBind : Flyt.Generated.IR.SharedStore_MustBind = Flyt.Expected.IR.SharedStore_MustBind := rfl
end Flyt.Tie
