import FlytModel.Generated.IR
import FlytModel.Expected.IR
/-! The translation of `SharedStore_GetInt` from the CURRENT source is, term for term, the expected IR. -/
namespace Flyt.Tie
theorem SharedStore_GetInt : Flyt.Generated.IR.SharedStore_GetInt = Flyt.Expected.IR.SharedStore_GetInt := rfl
end Flyt.Tie
