import FlytModel.Generated.IR
import FlytModel.Expected.IR
/-! The translation of `Result_MustFloat64` from the CURRENT source is, term for term, the expected IR. -/
namespace Flyt.Tie
theorem Result_MustFloat64 : Flyt.Generated.IR.Result_MustFloat64 = Flyt.Expected.IR.Result_MustFloat64 := rfl
end Flyt.Tie
