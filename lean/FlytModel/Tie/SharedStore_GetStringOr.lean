import FlytModel.Generated.IR
import FlytModel.Expected.IR
/-! The translation of `SharedStore_GetStringOr` from the CURRENT source is, term for term, the expected IR. -/
namespace Flyt.Tie
theorem SharedStore_GetStringOr : Flyt.Generated.IR.SharedStore_GetStringOr = Flyt.Expected.IR.SharedStore_GetStringOr := rfl
end Flyt.Tie
