import FlytModel.Generated.IR
import FlytModel.Expected.IR
/-! The translation of `Result_AsString` from the CURRENT source is, term for term, the expected IR. -/
namespace Flyt.Tie
theorem Result_AsString : Flyt.Generated.IR.Result_AsString = Flyt.Expected.IR.Result_AsString := rfl
end Flyt.Tie
