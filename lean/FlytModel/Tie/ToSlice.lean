import FlytModel.Generated.IR
import FlytModel.Expected.IR
/-! The translation of `ToSlice` from the CURRENT source is, term for term, the expected IR. -/
namespace Flyt.Tie
theorem ToSlice : Flyt.Generated.IR.ToSlice = Flyt.Expected.IR.ToSlice := rfl
end Flyt.Tie
