import FlytModel.Generated.IR
import FlytModel.Expected.IR
/-! The translation of `BatchNodeBuilder_Exec` from the CURRENT source is, term for term, the expected IR. -/
namespace Flyt.Tie
theorem BatchNodeBuilder_Exec : Flyt.Generated.IR.BatchNodeBuilder_Exec = Flyt.Expected.IR.BatchNodeBuilder_Exec := rfl
end Flyt.Tie
