import FlytModel.Generated.IR
import FlytModel.Expected.IR
/-! The translation of `WorkerPool_worker` from the CURRENT source is, term for term, the expected IR. -/
namespace Flyt.Tie
theorem WorkerPool_worker : Flyt.Generated.IR.WorkerPool_worker = Flyt.Expected.IR.WorkerPool_worker := rfl
end Flyt.Tie
