import FlytModel.Generated.IR
import FlytModel.Expected.IR
/-! The translation of `SharedStore_GetBool` from the CURRENT source is, term for term, the expected IR. -/
namespace Flyt.Tie
theorem SharedStore_GetBool : Flyt.Generated.IR.SharedStore_GetBool = Flyt.Expected.IR.SharedStore_GetBool := rfl
end Flyt.Tie
