import FlytModel.Generated.IR
import FlytModel.Expected.IR
/-! The translation of `BatchNode_Prep` from the CURRENT source is, term for term, the expected IR. -/
namespace Flyt.Tie
theorem BatchNode_Prep : Flyt.Generated.IR.BatchNode_Prep = Flyt.Expected.IR.BatchNode_Prep := rfl
end Flyt.Tie
