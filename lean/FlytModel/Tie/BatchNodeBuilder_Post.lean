import FlytModel.Generated.IR
import FlytModel.Expected.IR
/-! The translation of `BatchNodeBuilder_Post` from the CURRENT source is, term for term, the expected IR. -/
namespace Flyt.Tie
theorem BatchNodeBuilder_Post : Flyt.Generated.IR.BatchNodeBuilder_Post = Flyt.Expected.IR.BatchNodeBuilder_Post := rfl
end Flyt.Tie
