import FlytModel.Generated.IR
import FlytModel.Expected.IR
/-! The translation of `SharedStore_GetString` from the CURRENT source is, term for term, the expected IR. -/
namespace Flyt.Tie
theorem SharedStore_GetString : Flyt.Generated.IR.SharedStore_GetString = Flyt.Expected.IR.SharedStore_GetString := rfl
end Flyt.Tie
