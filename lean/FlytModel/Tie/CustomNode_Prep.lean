import FlytModel.Generated.IR
import FlytModel.Expected.IR
/-! The translation of `CustomNode_Prep` from the CURRENT source is, term for term, the expected IR. -/
namespace Flyt.Tie
theorem CustomNode_Prep : Flyt.Generated.IR.CustomNode_Prep = Flyt.Expected.IR.CustomNode_Prep := rfl
end Flyt.Tie
