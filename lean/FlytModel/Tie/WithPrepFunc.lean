import FlytModel.Generated.IR
import FlytModel.Expected.IR
/-! The translation of `WithPrepFunc` from the CURRENT source is, term for term, the expected IR. -/
namespace Flyt.Tie
theorem WithPrepFunc : Flyt.Generated.IR.WithPrepFunc = Flyt.Expected.IR.WithPrepFunc := rfl
end Flyt.Tie
