import FlytModel.Generated.IR
import FlytModel.Expected.IR
/-! The translation of `WithMaxRetries` from the CURRENT source is, term for term, the expected IR. -/
namespace Flyt.Tie
theorem WithMaxRetries : Flyt.Generated.IR.WithMaxRetries = Flyt.Expected.IR.WithMaxRetries := rfl
end Flyt.Tie
