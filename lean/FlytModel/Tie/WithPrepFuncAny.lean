import FlytModel.Generated.IR
import FlytModel.Expected.IR
/-! The translation of `WithPrepFuncAny` from the CURRENT source is, term for term, the expected IR. -/
namespace Flyt.Tie
theorem WithPrepFuncAny : Flyt.Generated.IR.WithPrepFuncAny = Flyt.Expected.IR.WithPrepFuncAny := rfl
end Flyt.Tie
