import FlytModel.Generated.IR
import FlytModel.Expected.IR
/-! The translation of `NodeBuilder_Post` from the CURRENT source is, term for term, the expected IR. -/
namespace Flyt.Tie
theorem NodeBuilder_Post : Flyt.Generated.IR.NodeBuilder_Post = Flyt.Expected.IR.NodeBuilder_Post := rfl
end Flyt.Tie
