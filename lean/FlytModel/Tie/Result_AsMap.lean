import FlytModel.Generated.IR
import FlytModel.Expected.IR
/-! The translation of `Result_AsMap` from the CURRENT source is, term for term, the expected IR. -/
namespace Flyt.Tie
theorem Result_AsMap : Flyt.Generated.IR.Result_AsMap = Flyt.Expected.IR.Result_AsMap := rfl
end Flyt.Tie
