import FlytModel.Generated.IR
import FlytModel.Expected.IR
/-! The translation of `Result_MustBind` from the CURRENT source is, term for term, the expected IR. -/
namespace Flyt.Tie
theorem Result_MustBind : Flyt.Generated.IR.Result_MustBind = Flyt.Expected.IR.Result_MustBind := rfl
end Flyt.Tie
