import FlytModel.Generated.IR
import FlytModel.Expected.IR
/-! The translation of `NodeBuilder_WithPostFuncAny` from the CURRENT source is, term for term, the expected IR. -/
namespace Flyt.Tie
theorem NodeBuilder_WithPostFuncAny : Flyt.Generated.IR.NodeBuilder_WithPostFuncAny = Flyt.Expected.IR.NodeBuilder_WithPostFuncAny := rfl
end Flyt.Tie
