import FlytModel.Generated.IR
import FlytModel.Expected.IR
/-! The translation of `NodeBuilder_WithBatchErrorHandling` from the CURRENT source is, term for term, the expected IR. -/
namespace Flyt.Tie
theorem NodeBuilder_WithBatchErrorHandling : Flyt.Generated.IR.NodeBuilder_WithBatchErrorHandling = Flyt.Expected.IR.NodeBuilder_WithBatchErrorHandling := rfl
end Flyt.Tie
