import FlytModel.Generated.IR
import FlytModel.Expected.IR
/-! The translation of `SharedStore_Set` from the CURRENT source is, term for term, the expected IR. -/
namespace Flyt.Tie
theorem SharedStore_Set : Flyt.Generated.IR.SharedStore_Set = Flyt.Expected.IR.SharedStore_Set := rfl
end Flyt.Tie
