import FlytModel.Generated.IR
import FlytModel.Expected.IR
/-! The translation of `Result_IsError` from the CURRENT source is, term for term, the expected IR. -/
namespace Flyt.Tie
theorem Result_IsError : Flyt.Generated.IR.Result_IsError = Flyt.Expected.IR.Result_IsError := rfl
end Flyt.Tie
