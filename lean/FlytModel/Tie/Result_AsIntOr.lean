import FlytModel.Generated.IR
import FlytModel.Expected.IR
/-! The translation of `Result_AsIntOr` from the CURRENT source is, term for term, the expected IR. -/
namespace Flyt.Tie
theorem Result_AsIntOr : Flyt.Generated.IR.Result_AsIntOr = Flyt.Expected.IR.Result_AsIntOr := rfl
end Flyt.Tie
