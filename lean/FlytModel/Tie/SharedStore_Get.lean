import FlytModel.Generated.IR
import FlytModel.Expected.IR
/-! The translation of `SharedStore_Get` from the CURRENT source is, term for term, the expected IR. -/
namespace Flyt.Tie
theorem SharedStore_Get : Flyt.Generated.IR.SharedStore_Get = Flyt.Expected.IR.SharedStore_Get := rfl
end Flyt.Tie
