import FlytModel.Generated.IR
import FlytModel.Expected.IR
/-! The translation of `runBatchSequential` from the CURRENT source is, term for term, the expected IR. -/
namespace Flyt.Tie
theorem runBatchSequential : Flyt.Generated.IR.runBatchSequential = Flyt.Expected.IR.runBatchSequential := rfl
end Flyt.Tie
