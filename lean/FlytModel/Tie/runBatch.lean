import FlytModel.Generated.IR
import FlytModel.Expected.IR
/-! The translation of `runBatch` from the CURRENT source is, term for term, the expected IR. -/
namespace Flyt.Tie
theorem runBatch : Flyt.Generated.IR.runBatch = Flyt.Expected.IR.runBatch := rfl
end Flyt.Tie
