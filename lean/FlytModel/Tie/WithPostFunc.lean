import FlytModel.Generated.IR
import FlytModel.Expected.IR
/-! The translation of `WithPostFunc` from the CURRENT source is, term for term, the expected IR. -/
namespace Flyt.Tie
theorem WithPostFunc : Flyt.Generated.IR.WithPostFunc = Flyt.Expected.IR.WithPostFunc := rfl
end Flyt.Tie
