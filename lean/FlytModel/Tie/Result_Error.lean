import FlytModel.Generated.IR
import FlytModel.Expected.IR
/-! The translation of `Result_Error` from the CURRENT source is, term for term, the expected IR. -/
namespace Flyt.Tie
theorem Result_Error : Flyt.Generated.IR.Result_Error = Flyt.Expected.IR.Result_Error := rfl
end Flyt.Tie
