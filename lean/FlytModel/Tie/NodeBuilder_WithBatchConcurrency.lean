import FlytModel.Generated.IR
import FlytModel.Expected.IR
/-! The translation of `NodeBuilder_WithBatchConcurrency` from the CURRENT source is, term for term, the expected IR. -/
namespace Flyt.Tie
theorem NodeBuilder_WithBatchConcurrency : Flyt.Generated.IR.NodeBuilder_WithBatchConcurrency = Flyt.Expected.IR.NodeBuilder_WithBatchConcurrency := rfl
end Flyt.Tie
