import FlytModel.Generated.IR
import FlytModel.Expected.IR
/-! The translation of `Result_AsBoolOr` from the CURRENT source is, term for term, the expected IR. -/
namespace Flyt.Tie
theorem Result_AsBoolOr : Flyt.Generated.IR.Result_AsBoolOr = Flyt.Expected.IR.Result_AsBoolOr := rfl
end Flyt.Tie
