import FlytModel.Generated.IR
import FlytModel.Expected.IR
/-! The translation of `BatchNodeBuilder_WithBatchConcurrency` from the CURRENT source is, term for term, the expected IR. -/
namespace Flyt.Tie
theorem BatchNodeBuilder_WithBatchConcurrency : Flyt.Generated.IR.BatchNodeBuilder_WithBatchConcurrency = Flyt.Expected.IR.BatchNodeBuilder_WithBatchConcurrency := rfl
end Flyt.Tie
