import FlytModel.Generated.IR
import FlytModel.Expected.IR
/-! The translation of `Run` from the CURRENT source is, term for term, the expected IR. -/
namespace Flyt.Tie
theorem Run : Flyt.Generated.IR.Run = Flyt.Expected.IR.Run := rfl
end Flyt.Tie
