import FlytModel.Generated.IR
import FlytModel.Expected.IR
/-! The translation of `SharedStore_GetMapOr` from the CURRENT source is, term for term, the expected IR. -/
namespace Flyt.Tie
theorem SharedStore_GetMapOr : Flyt.Generated.IR.SharedStore_GetMapOr = Flyt.Expected.IR.SharedStore_GetMapOr := rfl
end Flyt.Tie
