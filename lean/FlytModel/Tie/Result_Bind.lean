import FlytModel.Generated.IR
import FlytModel.Expected.IR
/-! The translation of `Result_Bind` from the CURRENT source is, term for term, the expected IR. -/
namespace Flyt.Tie
theorem Result_Bind : Flyt.Generated.IR.Result_Bind = Flyt.Expected.IR.Result_Bind := rfl
end Flyt.Tie
