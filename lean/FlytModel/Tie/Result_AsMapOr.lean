import FlytModel.Generated.IR
import FlytModel.Expected.IR
/-! The translation of `Result_AsMapOr` from the CURRENT source is, term for term, the expected IR. -/
namespace Flyt.Tie
theorem Result_AsMapOr : Flyt.Generated.IR.Result_AsMapOr = Flyt.Expected.IR.Result_AsMapOr := rfl
end Flyt.Tie
