import FlytModel.Generated.IR
import FlytModel.Expected.IR
/-! The translation of `Flow_Run` from the CURRENT source is, term for term, the expected IR. -/
namespace Flyt.Tie
theorem Flow_Run : Flyt.Generated.IR.Flow_Run = Flyt.Expected.IR.Flow_Run := rfl
end Flyt.Tie
