import FlytModel.Generated.IR
import FlytModel.Expected.IR
/-! The translation of `CustomNode_Exec` from the CURRENT source is, term for term, the expected IR. -/
namespace Flyt.Tie
theorem CustomNode_Exec : Flyt.Generated.IR.CustomNode_Exec = Flyt.Expected.IR.CustomNode_Exec := rfl
end Flyt.Tie
