import FlytModel.Generated.IR
import FlytModel.Expected.IR
/-! The translation of `Result_MustString` from the CURRENT source is, term for term, the expected IR. -/
namespace Flyt.Tie
theorem Result_MustString : Flyt.Generated.IR.Result_MustString = Flyt.Expected.IR.Result_MustString := rfl
end Flyt.Tie
