import FlytModel.Generated.IR
import FlytModel.Expected.IR
/-! The translation of `R` from the CURRENT source is, term for term, the expected IR. -/
namespace Flyt.Tie
theorem R : Flyt.Generated.IR.R = Flyt.Expected.IR.R := rfl
end Flyt.Tie
