import FlytModel.Generated.IR
import FlytModel.Expected.IR
/-! The translation of `Result_MustBool` from the CURRENT source is, term for term, the expected IR. -/
namespace Flyt.Tie
theorem Result_MustBool : Flyt.Generated.IR.Result_MustBool = Flyt.Expected.IR.Result_MustBool := rfl
end Flyt.Tie
