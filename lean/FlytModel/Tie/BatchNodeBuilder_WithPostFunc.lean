import FlytModel.Generated.IR
import FlytModel.Expected.IR
/-! The translation of `BatchNodeBuilder_WithPostFunc` from the CURRENT source is, term for term, the expected IR. -/
namespace Flyt.Tie
theorem BatchNodeBuilder_WithPostFunc : Flyt.Generated.IR.BatchNodeBuilder_WithPostFunc = Flyt.Expected.IR.BatchNodeBuilder_WithPostFunc := rfl
end Flyt.Tie
