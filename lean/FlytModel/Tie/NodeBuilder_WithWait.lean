import FlytModel.Generated.IR
import FlytModel.Expected.IR
/-! The translation of `NodeBuilder_WithWait` from the CURRENT source is, term for term, the expected IR. -/
namespace Flyt.Tie
theorem NodeBuilder_WithWait : Flyt.Generated.IR.NodeBuilder_WithWait = Flyt.Expected.IR.NodeBuilder_WithWait := rfl
end Flyt.Tie
