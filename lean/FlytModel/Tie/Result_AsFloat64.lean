import FlytModel.Generated.IR
import FlytModel.Expected.IR
/-! The translation of `Result_AsFloat64` from the CURRENT source is, term for term, the expected IR. -/
namespace Flyt.Tie
theorem Result_AsFloat64 : Flyt.Generated.IR.Result_AsFloat64 = Flyt.Expected.IR.Result_AsFloat64 := rfl
end Flyt.Tie
