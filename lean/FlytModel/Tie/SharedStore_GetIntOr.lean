import FlytModel.Generated.IR
import FlytModel.Expected.IR
/-! The translation of `SharedStore_GetIntOr` from the CURRENT source is, term for term, the expected IR. -/
namespace Flyt.Tie
theorem SharedStore_GetIntOr : Flyt.Generated.IR.SharedStore_GetIntOr = Flyt.Expected.IR.SharedStore_GetIntOr := rfl
end Flyt.Tie
