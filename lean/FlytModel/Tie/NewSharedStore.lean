import FlytModel.Generated.IR
import FlytModel.Expected.IR
/-! The translation of `NewSharedStore` from the CURRENT source is, term for term, the expected IR. -/
namespace Flyt.Tie
theorem NewSharedStore : Flyt.Generated.IR.NewSharedStore = Flyt.Expected.IR.NewSharedStore := rfl
end Flyt.Tie
