import FlytModel.Generated.IR
import FlytModel.Expected.IR
/-! The translation of `BatchNodeBuilder_WithPrepFunc` from the CURRENT source is, term for term, the expected IR. -/
namespace Flyt.Tie
theorem BatchNodeBuilder_WithPrepFunc : Flyt.Generated.IR.BatchNodeBuilder_WithPrepFunc = Flyt.Expected.IR.BatchNodeBuilder_WithPrepFunc := rfl
end Flyt.Tie
