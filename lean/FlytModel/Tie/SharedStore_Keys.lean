import FlytModel.Generated.IR
import FlytModel.Expected.IR
/-! The translation of `SharedStore_Keys` from the CURRENT source is, term for term, the expected IR. -/
namespace Flyt.Tie
theorem SharedStore_Keys : Flyt.Generated.IR.SharedStore_Keys = Flyt.Expected.IR.SharedStore_Keys := rfl
end Flyt.Tie
