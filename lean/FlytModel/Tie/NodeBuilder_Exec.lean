import FlytModel.Generated.IR
import FlytModel.Expected.IR
/-! The translation of `NodeBuilder_Exec` from the CURRENT source is, term for term, the expected IR. -/
namespace Flyt.Tie
theorem NodeBuilder_Exec : Flyt.Generated.IR.NodeBuilder_Exec = Flyt.Expected.IR.NodeBuilder_Exec := rfl
end Flyt.Tie
