import FlytModel.Generated.IR
import FlytModel.Expected.IR
/-! The translation of `WithBatchErrorHandling` from the CURRENT source is, term for term, the expected IR. -/
namespace Flyt.Tie
theorem WithBatchErrorHandling : Flyt.Generated.IR.WithBatchErrorHandling = Flyt.Expected.IR.WithBatchErrorHandling := rfl
end Flyt.Tie
