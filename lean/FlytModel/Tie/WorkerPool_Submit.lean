import FlytModel.Generated.IR
import FlytModel.Expected.IR
/-! The translation of `WorkerPool_Submit` from the CURRENT source is, term for term, the expected IR. -/
namespace Flyt.Tie
theorem WorkerPool_Submit : Flyt.Generated.IR.WorkerPool_Submit = Flyt.Expected.IR.WorkerPool_Submit := rfl
end Flyt.Tie
