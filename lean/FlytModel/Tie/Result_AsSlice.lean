import FlytModel.Generated.IR
import FlytModel.Expected.IR
/-! The translation of `Result_AsSlice` from the CURRENT source is, term for term, the expected IR. -/
namespace Flyt.Tie
theorem Result_AsSlice : Flyt.Generated.IR.Result_AsSlice = Flyt.Expected.IR.Result_AsSlice := rfl
end Flyt.Tie
