import FlytModel.Generated.IR
import FlytModel.Expected.IR
/-! The translation of `NewResult` from the CURRENT source is, term for term, the expected IR. -/
namespace Flyt.Tie
theorem NewResult : Flyt.Generated.IR.NewResult = Flyt.Expected.IR.NewResult := rfl
end Flyt.Tie
