import FlytModel.Generated.IR
import FlytModel.Expected.IR
/-! The translation of `BaseNode_GetBatchConcurrency` from the CURRENT source is, term for term, the expected IR. -/
namespace Flyt.Tie
theorem BaseNode_GetBatchConcurrency : Flyt.Generated.IR.BaseNode_GetBatchConcurrency = Flyt.Expected.IR.BaseNode_GetBatchConcurrency := rfl
end Flyt.Tie
