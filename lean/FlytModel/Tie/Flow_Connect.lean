import FlytModel.Generated.IR
import FlytModel.Expected.IR
/-! The translation of `Flow_Connect` from the CURRENT source is, term for term, the expected IR. -/
namespace Flyt.Tie
theorem Flow_Connect : Flyt.Generated.IR.Flow_Connect = Flyt.Expected.IR.Flow_Connect := rfl
end Flyt.Tie
