import FlytModel.Model.Flat
/-!
# Concrete scenarios used by the non-vacuity `example`s of C03, C04, C05, C10
-/
namespace Flyt.Proofs.Ex
open Flyt

def okO {α} (x : α) : Out α := { res := .ok x }
def errO {α} (n : Nat) : Out α := { res := .error n }
def okCancelO {α} (x : α) : Out α := { res := .ok x, cancels := true }

/-- retryable leaf, budget 2, custom fallback, all three callbacks are methods of a user struct -/
def cfgPlain : LeafCfg :=
  { retryable := true, budget := 2, wait := 0, fb := .custom, prepS := .direct, execS := .direct, postS := .direct }

/-- same, but without a custom fallback -/
def cfgNoFb : LeafCfg := { cfgPlain with fb := .passThrough }

/-- a leaf visit on which everything succeeds and post returns action `a` -/
def scrOk (a : Action) : LeafScript :=
  { prep := okO (.tok 1), exec := fun _ => okO (.tok 2), waitCancel := fun _ => false, fb := okO (.tok 3),
    post := okO a }

/-- exec fails on every attempt with sentinel 41 (the fallback, if any, recovers) -/
def scrExecFails (a : Action) : LeafScript := { scrOk a with exec := fun _ => errO 41 }

/-- post fails with sentinel 42 -/
def scrPostFails : LeafScript := { scrOk "" with post := errO 42 }

/-- post succeeds with action `a` and cancels the context -/
def scrPostCancels (a : Action) : LeafScript := { scrOk a with post := okCancelO a }

/-- the first exec attempt fails and cancels the context -/
def scrExecCancels (a : Action) : LeafScript :=
  { scrOk a with exec := fun k => if k = 0 then { res := .error 43, cancels := true } else okO (.tok 2) }

def dummyItem : ItemScript := { exec := fun _ => errO 9, waitCancel := fun _ => false, fb := errO 9 }
def dummyBatch : BatchScript := { prep := errO 9, item := fun _ => dummyItem, post := errO 9 }

/-- Root flow 0 with start 1:
    `1 -a-> 2`, `2 -y-> 1` overwritten by `2 -y-> 3`, `3 -again-> 1` overwritten by `3 -again-> nil`, `3 -loop-> 3`.
    Node 2 is itself a flow (start 4, `4 -x-> 5`); node 6 is a flow nested in nothing (no start node). -/
def arena1 : NodeId → NodeDef
  | 0 => .flow (some 1)
      [⟨1, "a", some 2⟩, ⟨2, "y", some 1⟩, ⟨2, "y", some 3⟩, ⟨3, "again", some 1⟩, ⟨3, "again", none⟩, ⟨3, "loop", some 3⟩]
  | 2 => .flow (some 4) [⟨4, "x", some 5⟩]
  | 6 => .flow none []
  | 7 => .leaf cfgNoFb
  | _ => .leaf cfgPlain

/-- every visit succeeds: 1 returns "a", 4 "x", 5 "y", 3 "again" -/
def beh1 : NodeId → Nat → LeafScript
  | 1, _ => scrOk "a"
  | 4, _ => scrOk "x"
  | 5, _ => scrOk "y"
  | 3, _ => scrOk "again"
  | _, _ => scrOk ""

def env1 : Env := { kind := .canceled, arena := arena1, leafBeh := beh1, batchBeh := fun _ _ => dummyBatch }

/-- node 3 returns "loop" on its first visit (self-loop), "again" on the second -/
def envLoop : Env := { env1 with leafBeh := fun n v => if n = 3 ∧ v = 0 then scrOk "loop" else beh1 n v }

/-- the inner node 5 fails in post (sentinel 42) -/
def envFail : Env := { env1 with leafBeh := fun n v => if n = 5 then scrPostFails else beh1 n v }

/-- the inner node 4 cancels the context inside post -/
def envCancel : Env := { env1 with leafBeh := fun n v => if n = 4 then scrPostCancels "x" else beh1 n v }

/-- the last node of the run (3) cancels the context inside post: the run completes -/
def envCancelLast : Env := { env1 with leafBeh := fun n v => if n = 3 then scrPostCancels "again" else beh1 n v }

/-- node 1's first exec attempt fails and cancels -/
def envExecCancel : Env := { env1 with leafBeh := fun n v => if n = 1 then scrExecCancels "a" else beh1 n v }

def st0 : RunSt := { ctx := .live, visits := fun _ => 0 }
def stDone : RunSt := { ctx := .done .deadline, visits := fun _ => 0 }

end Flyt.Proofs.Ex
