import FlytModel.Spec.Wait
/-!
# Helper lemmas for property C20 (retry wait honoured and interruptible)

`AttShape` is the set of event lists the retry loop `attempts` can produce, written as an inductive
predicate; `attempts_shape` shows by induction on the remaining budget that `attempts` only produces
such lists.  Everything C20 says is then derived from `AttShape` by induction on its derivations.
-/
namespace Flyt.Proofs.Wait
open Flyt Flyt.Spec

/-- Event lists of the retry loop from attempt `k` on.  The `Bool` index says whether the list ends
    with an interrupted wait.  `stop k` = "the wait before attempt k is reached and cancelled". -/
inductive AttShape (mkExec : Nat → Ev) (mkWait : Nat → Bool → Ev) (w : Nat) (wc stop : Nat → Bool) :
    Nat → List Ev → Bool → Prop
  | done {k} : (k = 0 ∨ stop k = false) → AttShape mkExec mkWait w wc stop k [] false
  | plain {k t c} : (k = 0 ∨ w = 0) → AttShape mkExec mkWait w wc stop (k + 1) t c →
      AttShape mkExec mkWait w wc stop k (mkExec k :: t) c
  | waited {k t c} : 0 < k → 0 < w → wc k = false → AttShape mkExec mkWait w wc stop (k + 1) t c →
      AttShape mkExec mkWait w wc stop k (mkWait k true :: mkExec k :: t) c
  | cut {k} : 0 < k → 0 < w → wc k = true → AttShape mkExec mkWait w wc stop k [mkWait k false] true

theorem stopAt_of_budget {w budget : Nat} {exec : Nat → Out Val} {wc : Nat → Bool} {k : Nat}
    (h : budget ≤ k) : stopAt w budget exec wc k = false := by
  unfold stopAt
  have : decide (k < budget) = false := by simp; omega
  simp [this]

theorem stopAt_of_cancels {w budget : Nat} {exec : Nat → Out Val} {wc : Nat → Bool} {k : Nat}
    (h : (exec (k - 1)).cancels = true) : stopAt w budget exec wc k = false := by
  unfold stopAt; simp [h]

theorem stopAt_of_ok {w budget : Nat} {exec : Nat → Out Val} {wc : Nat → Bool} {k : Nat} {x : Val}
    (h : (exec (k - 1)).res = .ok x) : stopAt w budget exec wc k = false := by
  unfold stopAt; simp [h]

/-- **The retry loop only produces `AttShape` lists** (and an interrupted wait makes it return the
    context's error with the context done). -/
theorem attempts_shape (kind : CtxKind) (mkExec : Nat → Ev) (mkWait : Nat → Bool → Ev)
    (exec : Nat → Out Val) (wc : Nat → Bool) (execS : Style) (w budget : Nat) :
    ∀ (rem k : Nat) (last : Option Nat) (ctx : Ctx),
      budget = k + rem →
      (execS ≠ .absent ∨ k = 0) →
      (k = 0 ∨ ((∃ e, (exec (k - 1)).res = .error e) ∧ (ctx = .live ↔ (exec (k - 1)).cancels = false))) →
      ∃ c, AttShape mkExec mkWait w wc (stopAt w budget exec wc) k
              (attempts kind mkExec mkWait exec wc execS w k rem last ctx).1 c
        ∧ (c = true →
            (attempts kind mkExec mkWait exec wc execS w k rem last ctx).2.2 = .cancelled kind
            ∧ (attempts kind mkExec mkWait exec wc execS w k rem last ctx).2.1 = .done kind) := by
  intro rem
  induction rem with
  | zero =>
    intro k last ctx hb _ _
    refine ⟨false, ?_, by simp⟩
    simp only [attempts]
    exact .done (Or.inr (stopAt_of_budget (by omega)))
  | succ rem ih =>
    intro k last ctx hb habs hpre
    cases ctx with
    | done kd =>
      refine ⟨false, ?_, by simp⟩
      simp only [attempts]
      refine .done ?_
      rcases hpre with h0 | ⟨_, hc⟩
      · exact Or.inl h0
      · right
        apply stopAt_of_cancels
        cases hcc : (exec (k - 1)).cancels with
        | true => rfl
        | false => exact absurd (hc.mpr hcc) (by simp)
    | live =>
      by_cases hcond : k > 0 ∧ w > 0 ∧ wc k = true
      · refine ⟨true, ?_, ?_⟩
        · simp only [attempts, hcond, and_self, if_true]
          exact .cut hcond.1 hcond.2.1 hcond.2.2
        · intro _
          simp only [attempts, hcond, and_self, if_true]
      · have hwc : k > 0 → w > 0 → wc k = false := by
          intro h1 h2
          cases h : wc k with
          | false => rfl
          | true => exact absurd ⟨h1, h2, h⟩ hcond
        cases execS
        case absent =>
          have hk : k = 0 := by
            rcases habs with h | h
            · exact absurd rfl h
            · exact h
          subst hk
          refine ⟨false, ?_, by simp⟩
          simp only [attempts, hcond, if_false]
          simp only [Nat.lt_irrefl, gt_iff_lt, false_and, if_false]
          exact .done (Or.inl rfl)
        all_goals
          simp only [attempts, hcond, if_false]
          cases hres : (exec k).res with
          | ok x =>
            refine ⟨false, ?_, by simp⟩
            have hdone : AttShape mkExec mkWait w wc (stopAt w budget exec wc) (k + 1) [] false :=
              .done (Or.inr (stopAt_of_ok (x := x) (by simpa using hres)))
            by_cases hw : k > 0 ∧ w > 0
            · simp only [hw, and_self, if_true, List.cons_append, List.nil_append]
              exact .waited hw.1 hw.2 (hwc hw.1 hw.2) hdone
            · simp only [hw, if_false, List.nil_append]
              exact .plain (by omega) hdone
          | error e =>
            obtain ⟨c, hs, hc⟩ := ih (k + 1) (some e) (Ctx.live.after kind (exec k).cancels) (by omega)
              (Or.inl (by simp))
              (Or.inr ⟨⟨e, by simpa using hres⟩, by
                simp only [Nat.add_sub_cancel]
                cases (exec k).cancels <;> simp [Ctx.after]⟩)
            refine ⟨c, ?_, fun hct => hc hct⟩
            by_cases hw : k > 0 ∧ w > 0
            · simp only [hw, and_self, if_true, List.cons_append, List.nil_append]
              exact .waited hw.1 hw.2 (hwc hw.1 hw.2) hs
            · simp only [hw, if_false, List.nil_append, List.cons_append]
              exact .plain (by omega) hs

/-! ### what `AttShape` implies -/

/-- the event constructors of a retry loop are told apart by their attempt numbers -/
structure MkOK (mkExec : Nat → Ev) (mkWait : Nat → Bool → Ev) : Prop where
  exec_ne_wait : ∀ k j f, mkExec k ≠ mkWait j f
  exec_inj : ∀ k j, mkExec k = mkExec j → k = j
  wait_inj : ∀ k j f g, mkWait k f = mkWait j g → k = j ∧ f = g

section shape
variable {mkExec : Nat → Ev} {mkWait : Nat → Bool → Ev} {w : Nat} {wc stop : Nat → Bool}

/-- attempt numbers only go up -/
theorem shape_exec_ge (ok : MkOK mkExec mkWait) {k : Nat} {t : List Ev} {c : Bool}
    (h : AttShape mkExec mkWait w wc stop k t c) : ∀ j, mkExec j ∈ t → k ≤ j := by
  induction h with
  | done _ => intro j hj; simp at hj
  | plain _ _ ih =>
    intro j hj
    rcases List.mem_cons.mp hj with h | h
    · have := ok.exec_inj _ _ h; omega
    · have := ih j h; omega
  | waited _ _ _ _ ih =>
    intro j hj
    rcases List.mem_cons.mp hj with h | h
    · exact absurd h (ok.exec_ne_wait _ _ _)
    · rcases List.mem_cons.mp h with h | h
      · have := ok.exec_inj _ _ h; omega
      · have := ih j h; omega
  | cut _ _ _ =>
    intro j hj
    rcases List.mem_cons.mp hj with h | h
    · exact absurd h (ok.exec_ne_wait _ _ _)
    · simp at h

/-- **with a wait configured, every attempt after the first is immediately preceded by its fired wait** -/
theorem shape_exec_preceded (ok : MkOK mkExec mkWait) {k : Nat} {t : List Ev} {c : Bool}
    (h : AttShape mkExec mkWait w wc stop k t c) (hw : 0 < w) :
    ∀ (j : Nat) (pre post : List Ev), 0 < j → t = pre ++ mkExec j :: post →
      ∃ pre', pre = pre' ++ [mkWait j true] := by
  induction h with
  | done _ => intro j pre post _ h; simp at h
  | @plain k t c hk _ ih =>
    intro j pre post hj h
    have hk0 : k = 0 := by omega
    cases pre with
    | nil =>
      simp only [List.nil_append, List.cons.injEq] at h
      have := ok.exec_inj _ _ h.1; omega
    | cons p pre' =>
      simp only [List.cons_append, List.cons.injEq] at h
      obtain ⟨q, hq⟩ := ih j pre' post hj h.2
      exact ⟨p :: q, by simp [hq]⟩
  | @waited k t c _ _ _ _ ih =>
    intro j pre post hj h
    cases pre with
    | nil =>
      simp only [List.nil_append, List.cons.injEq] at h
      exact absurd h.1.symm (ok.exec_ne_wait _ _ _)
    | cons p pre' =>
      simp only [List.cons_append, List.cons.injEq] at h
      cases pre' with
      | nil =>
        simp only [List.nil_append, List.cons.injEq] at h
        have hkj := ok.exec_inj _ _ h.2.1
        exact ⟨[], by simp [← h.1, hkj]⟩
      | cons p2 pre'' =>
        simp only [List.cons_append, List.cons.injEq] at h
        obtain ⟨q, hq⟩ := ih j pre'' post hj h.2.2
        exact ⟨p :: p2 :: q, by simp [hq]⟩
  | cut _ _ _ =>
    intro j pre post _ h
    cases pre with
    | nil =>
      simp only [List.nil_append, List.cons.injEq] at h
      exact absurd h.1.symm (ok.exec_ne_wait _ _ _)
    | cons p pre' => simp at h

/-- **nothing precedes attempt 0 in the loop's events** (in particular no wait) -/
theorem shape_first (ok : MkOK mkExec mkWait) {t : List Ev} {c : Bool}
    (h : AttShape mkExec mkWait w wc stop 0 t c) :
    ∀ (pre post : List Ev), t = pre ++ mkExec 0 :: post → pre = [] := by
  intro pre post ht
  cases h with
  | done _ => simp at ht
  | plain _ h' =>
    cases pre with
    | nil => rfl
    | cons p pre' =>
      simp only [List.cons_append, List.cons.injEq] at ht
      have : mkExec 0 ∈ pre' ++ mkExec 0 :: post := by simp
      have := shape_exec_ge ok h' 0 (ht.2 ▸ this)
      omega
  | waited h0 _ _ _ => omega
  | cut h0 _ _ => omega

/-- **a fired wait is immediately followed by the attempt it precedes** (so none follows the last attempt) -/
theorem shape_wait_followed (ok : MkOK mkExec mkWait) {k : Nat} {t : List Ev} {c : Bool}
    (h : AttShape mkExec mkWait w wc stop k t c) :
    ∀ (j : Nat) (pre post : List Ev), t = pre ++ mkWait j true :: post →
      ∃ post', post = mkExec j :: post' := by
  induction h with
  | done _ => intro j pre post h; simp at h
  | plain _ _ ih =>
    intro j pre post h
    cases pre with
    | nil =>
      simp only [List.nil_append, List.cons.injEq] at h
      exact absurd h.1 (ok.exec_ne_wait _ _ _)
    | cons p pre' =>
      simp only [List.cons_append, List.cons.injEq] at h
      exact ih j pre' post h.2
  | @waited k t c _ _ _ _ ih =>
    intro j pre post h
    cases pre with
    | nil =>
      simp only [List.nil_append, List.cons.injEq] at h
      have := (ok.wait_inj _ _ _ _ h.1).1
      exact ⟨t, by rw [← h.2, this]⟩
    | cons p pre' =>
      simp only [List.cons_append, List.cons.injEq] at h
      cases pre' with
      | nil =>
        simp only [List.nil_append, List.cons.injEq] at h
        exact absurd h.2.1 (ok.exec_ne_wait _ _ _)
      | cons p2 pre'' =>
        simp only [List.cons_append, List.cons.injEq] at h
        exact ih j pre'' post h.2.2
  | cut _ _ _ =>
    intro j pre post h
    cases pre with
    | nil =>
      simp only [List.nil_append, List.cons.injEq] at h
      have := (ok.wait_inj _ _ _ _ h.1).2
      simp at this
    | cons p pre' => simp at h

/-- every event of the loop is an attempt or a wait; waits only exist for `k > 0`, `w > 0` -/
theorem shape_events {k : Nat} {t : List Ev} {c : Bool}
    (h : AttShape mkExec mkWait w wc stop k t c) :
    ∀ e ∈ t, (∃ j, k ≤ j ∧ e = mkExec j) ∨ (∃ j f, k ≤ j ∧ 0 < j ∧ 0 < w ∧ wc j = !f ∧ e = mkWait j f) := by
  induction h with
  | done _ => intro e he; simp at he
  | @plain k t c _ _ ih =>
    intro e he
    rcases List.mem_cons.mp he with h | h
    · exact Or.inl ⟨k, Nat.le_refl _, h⟩
    · rcases ih e h with ⟨j, hj, rfl⟩ | ⟨j, f, hj, h1, h2, h3, rfl⟩
      · exact Or.inl ⟨j, by omega, rfl⟩
      · exact Or.inr ⟨j, f, by omega, h1, h2, h3, rfl⟩
  | @waited k t c hk hw hwc _ ih =>
    intro e he
    rcases List.mem_cons.mp he with h | h
    · exact Or.inr ⟨k, true, Nat.le_refl _, hk, hw, by simp [hwc], h⟩
    · rcases List.mem_cons.mp h with h | h
      · exact Or.inl ⟨k, Nat.le_refl _, h⟩
      · rcases ih e h with ⟨j, hj, rfl⟩ | ⟨j, f, hj, h1, h2, h3, rfl⟩
        · exact Or.inl ⟨j, by omega, rfl⟩
        · exact Or.inr ⟨j, f, by omega, h1, h2, h3, rfl⟩
  | @cut k hk hw hwc =>
    intro e he
    rcases List.mem_cons.mp he with h | h
    · exact Or.inr ⟨k, false, Nat.le_refl _, hk, hw, by simp [hwc], h⟩
    · simp at h

/-- **no wait configured ⇒ the loop's events are attempts only** -/
theorem shape_zero_wait {k : Nat} {t : List Ev} {c : Bool}
    (h : AttShape mkExec mkWait w wc stop k t c) (hw : w = 0) : ∀ e ∈ t, ∃ j, e = mkExec j := by
  intro e he
  rcases shape_events h e he with ⟨j, _, rfl⟩ | ⟨j, f, _, _, h2, _, _⟩
  · exact ⟨j, rfl⟩
  · omega

/-- **an interrupted wait is the loop's last event, and the loop says so** -/
theorem shape_cut_last (ok : MkOK mkExec mkWait) {k : Nat} {t : List Ev} {c : Bool}
    (h : AttShape mkExec mkWait w wc stop k t c) :
    ∀ (j : Nat) (pre post : List Ev), t = pre ++ mkWait j false :: post → post = [] ∧ c = true := by
  induction h with
  | done _ => intro j pre post h; simp at h
  | plain _ _ ih =>
    intro j pre post h
    cases pre with
    | nil =>
      simp only [List.nil_append, List.cons.injEq] at h
      exact absurd h.1 (ok.exec_ne_wait _ _ _)
    | cons p pre' =>
      simp only [List.cons_append, List.cons.injEq] at h
      exact ih j pre' post h.2
  | waited _ _ _ _ ih =>
    intro j pre post h
    cases pre with
    | nil =>
      simp only [List.nil_append, List.cons.injEq] at h
      have := (ok.wait_inj _ _ _ _ h.1).2
      simp at this
    | cons p pre' =>
      simp only [List.cons_append, List.cons.injEq] at h
      cases pre' with
      | nil =>
        simp only [List.nil_append, List.cons.injEq] at h
        exact absurd h.2.1 (ok.exec_ne_wait _ _ _)
      | cons p2 pre'' =>
        simp only [List.cons_append, List.cons.injEq] at h
        exact ih j pre'' post h.2.2
  | cut _ _ _ =>
    intro j pre post h
    cases pre with
    | nil =>
      simp only [List.nil_append, List.cons.injEq] at h
      exact ⟨h.2.symm, rfl⟩
    | cons p pre' => simp at h

/-- the loop reports an interruption only if its last event is an interrupted wait -/
theorem shape_cut_ends {k : Nat} {t : List Ev} {c : Bool}
    (h : AttShape mkExec mkWait w wc stop k t c) (hc : c = true) :
    ∃ pre j, k ≤ j ∧ t = pre ++ [mkWait j false] := by
  induction h with
  | done _ => simp at hc
  | @plain k t c _ _ ih =>
    obtain ⟨pre, j, hj, rfl⟩ := ih hc
    exact ⟨mkExec k :: pre, j, by omega, by simp⟩
  | @waited k t c _ _ _ _ ih =>
    obtain ⟨pre, j, hj, rfl⟩ := ih hc
    exact ⟨mkWait k true :: mkExec k :: pre, j, by omega, by simp⟩
  | @cut k _ _ _ => exact ⟨[], k, Nat.le_refl _, by simp⟩

/-- **liveness of the interruption**: if attempt `j-1` was made and the oracle says the wait before
    attempt `j` is reached and cancelled, the loop's last event is that interrupted wait -/
theorem shape_stop (ok : MkOK mkExec mkWait) (hstop : ∀ j, stop j = true → 0 < w ∧ wc j = true)
    {k : Nat} {t : List Ev} {c : Bool} (h : AttShape mkExec mkWait w wc stop k t c) :
    ∀ j, k ≤ j → mkExec j ∈ t → stop (j + 1) = true →
      c = true ∧ ∃ pre, t = pre ++ [mkExec j, mkWait (j + 1) false] := by
  have tail : ∀ {j : Nat} {t' : List Ev} {c' : Bool}, AttShape mkExec mkWait w wc stop (j + 1) t' c' →
      stop (j + 1) = true → c' = true ∧ t' = [mkWait (j + 1) false] := by
    intro j t' c' h' hs
    obtain ⟨hw, hwc⟩ := hstop _ hs
    cases h' with
    | done h0 => rcases h0 with h0 | h0 <;> simp_all
    | plain h0 _ => omega
    | waited _ _ h0 _ => simp_all
    | cut _ _ _ => exact ⟨rfl, rfl⟩
  induction h with
  | done _ => intro j _ hj; simp at hj
  | @plain k t c _ h' ih =>
    intro j hkj hj hs
    rcases List.mem_cons.mp hj with h | h
    · have hjk := ok.exec_inj _ _ h
      subst hjk
      obtain ⟨hc, ht⟩ := tail h' hs
      exact ⟨hc, [], by simp [ht]⟩
    · have := shape_exec_ge ok h' j h
      obtain ⟨hc, pre, hp⟩ := ih j this h hs
      exact ⟨hc, mkExec k :: pre, by simp [hp]⟩
  | @waited k t c _ _ _ h' ih =>
    intro j hkj hj hs
    rcases List.mem_cons.mp hj with h | h
    · exact absurd h (ok.exec_ne_wait _ _ _)
    · rcases List.mem_cons.mp h with h | h
      · have hjk := ok.exec_inj _ _ h
        subst hjk
        obtain ⟨hc, ht⟩ := tail h' hs
        exact ⟨hc, [mkWait j true], by simp [ht]⟩
      · have := shape_exec_ge ok h' j h
        obtain ⟨hc, pre, hp⟩ := ih j this h hs
        exact ⟨hc, mkWait k true :: mkExec k :: pre, by simp [hp]⟩
  | cut _ _ _ =>
    intro j _ hj
    rcases List.mem_cons.mp hj with h | h
    · exact absurd h (ok.exec_ne_wait _ _ _)
    · simp at h

end shape

/-! ### the Bool predicates of `Spec/Wait.lean` on `AttShape` lists -/

section spec
variable {mkExec : Nat → Ev} {mkWait : Nat → Bool → Ev} {w : Nat} {wc stop : Nat → Bool}
variable {proj : Ev → Option AEv}

theorem shape_waitStream (hpe : ∀ k, proj (mkExec k) = some (.ex k)) (hpw : ∀ k f, proj (mkWait k f) = some (.wt k w f))
    {k : Nat} {t : List Ev} {c : Bool} (h : AttShape mkExec mkWait w wc stop k t c) :
    waitStream w stop k (t.filterMap proj) = true := by
  induction h with
  | @done k h0 =>
    simp only [List.filterMap_nil, waitStream]
    rcases h0 with h0 | h0 <;> simp [h0]
  | @plain k t c h0 _ ih =>
    simp only [List.filterMap_cons, hpe, waitStream, ih, Bool.and_true]
    rcases h0 with h0 | h0 <;> simp [h0]
  | @waited k t c h0 h1 _ _ ih =>
    simp only [List.filterMap_cons, hpe, hpw, waitStream, ih, Bool.and_true]
    simp [h0, h1]
  | @cut k h0 h1 _ =>
    simp only [List.filterMap_cons, List.filterMap_nil, hpw, waitStream]
    simp [h0, h1]

theorem shape_firedIff (hpe : ∀ k, proj (mkExec k) = some (.ex k)) (hpw : ∀ k f, proj (mkWait k f) = some (.wt k w f))
    {k : Nat} {t : List Ev} {c : Bool} (h : AttShape mkExec mkWait w wc stop k t c) :
    firedIff wc (t.filterMap proj) = true := by
  induction h with
  | done _ => simp [firedIff]
  | plain _ _ ih =>
    simp only [firedIff, List.filterMap_cons, hpe, List.all_cons, Bool.true_and] at ih ⊢
    exact ih
  | waited _ _ hwc _ ih =>
    simp only [firedIff, List.filterMap_cons, hpe, hpw, List.all_cons, Bool.true_and] at ih ⊢
    simp [hwc, ih]
  | cut _ _ hwc => simp [firedIff, hpw, hwc]

theorem endsCut_cons_of_nonCut {e : AEv} {s : List AEv} (he : ∀ k d, e ≠ .wt k d false) :
    endsCut (e :: s) = endsCut s := by
  cases s with
  | nil =>
    cases e with
    | ex k => simp [endsCut]
    | wt k d f =>
      cases f with
      | true => simp [endsCut]
      | false => exact absurd rfl (he k d)
  | cons a s' => simp [endsCut, List.getLast?_cons_cons]

theorem shape_endsCut (hpe : ∀ k, proj (mkExec k) = some (.ex k)) (hpw : ∀ k f, proj (mkWait k f) = some (.wt k w f))
    {k : Nat} {t : List Ev} {c : Bool} (h : AttShape mkExec mkWait w wc stop k t c) :
    endsCut (t.filterMap proj) = c := by
  induction h with
  | done _ => simp [endsCut]
  | plain _ _ ih =>
    simp only [List.filterMap_cons, hpe]
    rw [endsCut_cons_of_nonCut (by intro k d; simp)]
    exact ih
  | waited _ _ _ _ ih =>
    simp only [List.filterMap_cons, hpe, hpw]
    rw [endsCut_cons_of_nonCut (by intro k d; simp), endsCut_cons_of_nonCut (by intro k d; simp)]
    exact ih
  | cut _ _ _ => simp [endsCut, hpw]

end spec

/-! ### lists -/

/-- an element that occurs neither in the prefix nor in the suffix of `A ++ B ++ C` occurs in `B` -/
theorem split_mid {α : Type} {x : α} {C post : List α} (hC : x ∉ C) :
    ∀ (A B pre : List α), x ∉ A → A ++ B ++ C = pre ++ x :: post →
      ∃ p q, B = p ++ x :: q ∧ pre = A ++ p ∧ post = q ++ C := by
  intro A
  induction A with
  | nil =>
    intro B
    induction B with
    | nil =>
      intro pre _ h
      simp only [List.nil_append] at h
      exact absurd (h ▸ (by simp : x ∈ pre ++ x :: post)) hC
    | cons b B ihB =>
      intro pre hA h
      cases pre with
      | nil =>
        simp only [List.nil_append, List.cons_append, List.cons.injEq] at h
        exact ⟨[], B, by simp [h.1], rfl, h.2.symm⟩
      | cons p0 pre' =>
        simp only [List.nil_append, List.cons_append, List.cons.injEq] at h
        obtain ⟨p, q, h1, h2, h3⟩ := ihB pre' hA (by simpa using h.2)
        exact ⟨b :: p, q, by simp [h1], by simp at h2; simp [h2, h.1], h3⟩
  | cons a A ihA =>
    intro B pre hA h
    have ha : x ≠ a := fun hxa => hA (by simp [hxa])
    have hA' : x ∉ A := fun hx => hA (by simp [hx])
    cases pre with
    | nil =>
      simp only [List.nil_append, List.cons_append, List.cons.injEq] at h
      exact absurd h.1.symm ha
    | cons p0 pre' =>
      simp only [List.cons_append, List.cons.injEq] at h
      obtain ⟨p, q, h1, h2, h3⟩ := ihA B pre' hA' h.2
      exact ⟨p, q, h1, by simp [h2, h.1], h3⟩

/-! ### `runLeaf` as prep phase + retry loop + fallback/post phase -/

def prepPhase (kind : CtxKind) (n v sid : Nat) (cfg : LeafCfg) (scr : LeafScript) : List Ev × Ctx × Except Nat Val :=
  match cfg.prepS with
  | .absent => ([], .live, .ok Val.nil)
  | s => ([.prep n v sid], Ctx.live.after kind scr.prep.cancels, scr.prep.res.map (prepRet s))

def afterAttempts (kind : CtxKind) (n v sid : Nat) (cfg : LeafCfg) (scr : LeafScript) (pev : List Ev) (pv : Val)
    (a : List Ev × Ctx × AttemptRes) : List Ev × Ctx × Outcome :=
  let f := fallbackPhase kind cfg.fb (fun e => .fb n v pv (.user e)) scr.fb a.2.1 a.2.2
  match f.2.2 with
  | .error e => (pev ++ a.1 ++ f.1, f.2.1, .err e)
  | .ok ev =>
    match cfg.postS with
    | .absent => (pev ++ a.1 ++ f.1, f.2.1, .ok defaultAction)
    | s =>
      let pa := postArgs s pv ev
      let ctx4 := f.2.1.after kind scr.post.cancels
      match scr.post.res with
      | .error e => (pev ++ a.1 ++ f.1 ++ [.post n v sid pa.1 pa.2], ctx4, .err (.user e))
      | .ok act => (pev ++ a.1 ++ f.1 ++ [.post n v sid pa.1 pa.2], ctx4, .ok (norm act))

theorem runLeaf_live_eq (kind : CtxKind) (n v sid : Nat) (cfg : LeafCfg) (scr : LeafScript) :
    runLeaf kind n v sid cfg scr .live =
      match (prepPhase kind n v sid cfg scr).2.2 with
      | .error e => ((prepPhase kind n v sid cfg scr).1, (prepPhase kind n v sid cfg scr).2.1, .err (.user e))
      | .ok pv =>
        match (prepPhase kind n v sid cfg scr).2.1 with
        | .done k => ((prepPhase kind n v sid cfg scr).1, (prepPhase kind n v sid cfg scr).2.1, .err (.ctx k))
        | .live =>
          afterAttempts kind n v sid cfg scr (prepPhase kind n v sid cfg scr).1 pv
            (attempts kind (fun k => .exec n v k (execArg cfg.execS pv)) (fun k f => .wait n v k cfg.effWait f)
              scr.exec scr.waitCancel cfg.execS cfg.effWait 0 cfg.effBudget none
              (prepPhase kind n v sid cfg scr).2.1) := by
  unfold runLeaf prepPhase afterAttempts
  rfl

theorem prepPhase_events (kind : CtxKind) (n v sid : Nat) (cfg : LeafCfg) (scr : LeafScript) :
    (prepPhase kind n v sid cfg scr).1 = [] ∨ (prepPhase kind n v sid cfg scr).1 = [.prep n v sid] := by
  unfold prepPhase
  cases cfg.prepS <;> simp

/-- the events after the retry loop of a plain node: its fallback and its post -/
def isTailEv (n v sid : Nat) (e : Ev) : Prop := (∃ x err, e = .fb n v x err) ∨ (∃ x y, e = .post n v sid x y)

theorem afterAttempts_spec (kind : CtxKind) (n v sid : Nat) (cfg : LeafCfg) (scr : LeafScript) (pev : List Ev) (pv : Val)
    (a : List Ev × Ctx × AttemptRes) :
    ∃ tail, (afterAttempts kind n v sid cfg scr pev pv a).1 = pev ++ a.1 ++ tail
      ∧ (∀ e ∈ tail, isTailEv n v sid e)
      ∧ (∀ kd, a.2.2 = .cancelled kd → tail = [] ∧ (afterAttempts kind n v sid cfg scr pev pv a).2.2 = .err (.ctx kd)
           ∧ (afterAttempts kind n v sid cfg scr pev pv a).2.1 = a.2.1) := by
  obtain ⟨aev, ctx2, ares⟩ := a
  cases ares <;> cases hfb : cfg.fb <;> cases hfr : scr.fb.res <;> cases hps : cfg.postS <;> cases hpr : scr.post.res <;>
    simp [afterAttempts, fallbackPhase, isTailEv, hfb, hfr, hps, hpr]

/-- the retry loop's event constructors of a plain node -/
abbrev leafExec (n v : Nat) (arg : Val) : Nat → Ev := fun k => .exec n v k arg
abbrev leafWait (n v w : Nat) : Nat → Bool → Ev := fun k f => .wait n v k w f

theorem leaf_mkOK (n v w : Nat) (arg : Val) : MkOK (leafExec n v arg) (leafWait n v w) :=
  ⟨by intro k j f h; simp [leafExec, leafWait] at h,
   by intro k j h; simpa [leafExec] using h,
   by intro k j f g h; simpa [leafWait] using h⟩

/-- **Structure of a plain node's run**: prep event (if any), then the retry loop's events, which
    form an `AttShape` list from attempt 0, then fallback / post events; an interrupted wait makes
    the run end there with the context's error. -/
theorem runLeaf_struct (kind : CtxKind) (n v sid : Nat) (cfg : LeafCfg) (scr : LeafScript) (ctx : Ctx) :
    ∃ (pev aev tail : List Ev) (pv : Val) (c : Bool),
      (runLeaf kind n v sid cfg scr ctx).1 = pev ++ aev ++ tail
      ∧ (pev = [] ∨ pev = [.prep n v sid])
      ∧ (∀ e ∈ tail, isTailEv n v sid e)
      ∧ AttShape (leafExec n v (execArg cfg.execS pv)) (leafWait n v cfg.effWait) cfg.effWait scr.waitCancel
          (stopAt cfg.effWait cfg.effBudget scr.exec scr.waitCancel) 0 aev c
      ∧ (c = true → tail = [] ∧ (runLeaf kind n v sid cfg scr ctx).2.2 = .err (.ctx kind)
            ∧ (runLeaf kind n v sid cfg scr ctx).2.1 = .done kind) := by
  have trivialCase : ∀ (r : List Ev × Ctx × Outcome), (r.1 = [] ∨ r.1 = [.prep n v sid]) →
      ∃ (pev aev tail : List Ev) (pv : Val) (c : Bool),
        r.1 = pev ++ aev ++ tail ∧ (pev = [] ∨ pev = [.prep n v sid]) ∧ (∀ e ∈ tail, isTailEv n v sid e)
        ∧ AttShape (leafExec n v (execArg cfg.execS pv)) (leafWait n v cfg.effWait) cfg.effWait scr.waitCancel
            (stopAt cfg.effWait cfg.effBudget scr.exec scr.waitCancel) 0 aev c
        ∧ (c = true → tail = [] ∧ r.2.2 = .err (.ctx kind) ∧ r.2.1 = .done kind) := by
    intro r hr
    exact ⟨r.1, [], [], Val.nil, false, by simp, hr, by simp, .done (Or.inl rfl), by simp⟩
  cases ctx with
  | done k => exact trivialCase _ (Or.inl (by simp [runLeaf]))
  | live =>
    rw [runLeaf_live_eq]
    have hpev := prepPhase_events kind n v sid cfg scr
    generalize prepPhase kind n v sid cfg scr = p at hpev ⊢
    obtain ⟨pev, ctx1, pres⟩ := p
    cases pres with
    | error e => exact trivialCase _ hpev
    | ok pv =>
      cases ctx1 with
      | done k => exact trivialCase _ hpev
      | live =>
        simp only []
        obtain ⟨c, hs, hc⟩ := attempts_shape kind (leafExec n v (execArg cfg.execS pv)) (leafWait n v cfg.effWait)
          scr.exec scr.waitCancel cfg.execS cfg.effWait cfg.effBudget cfg.effBudget 0 none .live (by simp)
          (Or.inr rfl) (Or.inl rfl)
        obtain ⟨tail, ht, htail, hcan⟩ := afterAttempts_spec kind n v sid cfg scr pev pv
          (attempts kind (leafExec n v (execArg cfg.execS pv)) (leafWait n v cfg.effWait)
            scr.exec scr.waitCancel cfg.execS cfg.effWait 0 cfg.effBudget none .live)
        refine ⟨pev, _, tail, pv, c, ht, hpev, htail, hs, ?_⟩
        intro hct
        obtain ⟨h1, h2⟩ := hc hct
        obtain ⟨h3, h4, h5⟩ := hcan kind h1
        exact ⟨h3, h4, h5.trans h2⟩

/-! ### `runItem` (`runExecWithRetries`) as retry loop + fallback -/

/-- the retry loop's event constructors of item `i` of a batch node -/
abbrev itemExec (n v i : Nat) (arg : Val) : Nat → Ev := fun k => .bexec n v i k arg
abbrev itemWait (n v i w : Nat) : Nat → Bool → Ev := fun k f => .bwait n v i k w f

theorem item_mkOK (n v i w : Nat) (arg : Val) : MkOK (itemExec n v i arg) (itemWait n v i w) :=
  ⟨by intro k j f h; simp [itemExec, itemWait] at h,
   by intro k j h; simpa [itemExec] using h,
   by intro k j f g h; simpa [itemWait] using h⟩

theorem runItem_spec (kind : CtxKind) (n v : Nat) (cfg : BatchCfg) (i : Nat) (item : Result) (scr : ItemScript) (ctx : Ctx) :
    ∃ tail,
      (runItem kind n v cfg i item scr ctx).1 =
        (attempts kind (itemExec n v i (execArg cfg.execS item.box)) (itemWait n v i cfg.wait)
          scr.exec scr.waitCancel cfg.execS cfg.wait 0 cfg.budget none ctx).1 ++ tail
      ∧ (∀ e ∈ tail, ∃ x err, e = .bfb n v i x err)
      ∧ (∀ kd, (attempts kind (itemExec n v i (execArg cfg.execS item.box)) (itemWait n v i cfg.wait)
                  scr.exec scr.waitCancel cfg.execS cfg.wait 0 cfg.budget none ctx).2.2 = .cancelled kd →
           tail = [] ∧ (runItem kind n v cfg i item scr ctx).2.2 = .error (.ctx kd)
           ∧ (runItem kind n v cfg i item scr ctx).2.1 =
               (attempts kind (itemExec n v i (execArg cfg.execS item.box)) (itemWait n v i cfg.wait)
                  scr.exec scr.waitCancel cfg.execS cfg.wait 0 cfg.budget none ctx).2.1) := by
  unfold runItem
  generalize attempts kind (itemExec n v i (execArg cfg.execS item.box)) (itemWait n v i cfg.wait)
    scr.exec scr.waitCancel cfg.execS cfg.wait 0 cfg.budget none ctx = a
  obtain ⟨aev, ctx1, ares⟩ := a
  cases ares <;> cases cfg.fb <;> cases hfr : scr.fb.res <;> simp [fallbackPhase, hfr]

/-- **Structure of one batch item's processing**: the retry loop's events (an `AttShape` list from
    attempt 0), then at most the item's fallback event; an interrupted wait makes it end there with
    the context's error. -/
theorem runItem_struct (kind : CtxKind) (n v : Nat) (cfg : BatchCfg) (i : Nat) (item : Result) (scr : ItemScript) (ctx : Ctx) :
    ∃ (aev tail : List Ev) (c : Bool),
      (runItem kind n v cfg i item scr ctx).1 = aev ++ tail
      ∧ (∀ e ∈ tail, ∃ x err, e = .bfb n v i x err)
      ∧ AttShape (itemExec n v i (execArg cfg.execS item.box)) (itemWait n v i cfg.wait) cfg.wait scr.waitCancel
          (stopAt cfg.wait cfg.budget scr.exec scr.waitCancel) 0 aev c
      ∧ (c = true → tail = [] ∧ (runItem kind n v cfg i item scr ctx).2.2 = .error (.ctx kind)
            ∧ (runItem kind n v cfg i item scr ctx).2.1 = .done kind) := by
  obtain ⟨c, hs, hc⟩ := attempts_shape kind (itemExec n v i (execArg cfg.execS item.box)) (itemWait n v i cfg.wait)
    scr.exec scr.waitCancel cfg.execS cfg.wait cfg.budget cfg.budget 0 none ctx (by simp) (Or.inr rfl) (Or.inl rfl)
  obtain ⟨tail, ht, htail, hcan⟩ := runItem_spec kind n v cfg i item scr ctx
  refine ⟨_, tail, c, ht, htail, hs, ?_⟩
  intro hct
  obtain ⟨h1, h2⟩ := hc hct
  obtain ⟨h3, h4, h5⟩ := hcan kind h1
  exact ⟨h3, h4, h5.trans h2⟩

/-! ### locating a retry-loop event of the whole run inside the loop's own events -/

/-- retry-loop events of a plain node -/
def isLeafLoop : Ev → Bool
  | .exec .. => true
  | .wait .. => true
  | _ => false

/-- retry-loop events of item `i` of a batch node -/
def isItemLoop (i : Nat) : Ev → Bool
  | .bexec _ _ j _ _ => j == i
  | .bwait _ _ j _ _ _ => j == i
  | _ => false

theorem leaf_split {n v sid : Nat} {tr pev aev tail pre post : List Ev} {x : Ev}
    (htr : tr = pev ++ aev ++ tail) (hpev : pev = [] ∨ pev = [.prep n v sid])
    (htail : ∀ e ∈ tail, isTailEv n v sid e) (hx : isLeafLoop x = true) (h : tr = pre ++ x :: post) :
    ∃ p q, aev = p ++ x :: q ∧ pre = pev ++ p ∧ post = q ++ tail := by
  have h1 : x ∉ pev := by
    intro hm
    rcases hpev with rfl | rfl
    · simp at hm
    · simp at hm; subst hm; simp [isLeafLoop] at hx
  have h2 : x ∉ tail := by
    intro hm
    rcases htail x hm with ⟨a, b, rfl⟩ | ⟨a, b, rfl⟩ <;> simp [isLeafLoop] at hx
  exact split_mid h2 pev aev pre h1 (htr ▸ h)

theorem item_split {n v i : Nat} {tr aev tail pre post : List Ev} {x : Ev}
    (htr : tr = aev ++ tail) (htail : ∀ e ∈ tail, ∃ a err, e = .bfb n v i a err)
    (hx : isItemLoop i x = true) (h : tr = pre ++ x :: post) :
    ∃ p q, aev = p ++ x :: q ∧ pre = p ∧ post = q ++ tail := by
  have h2 : x ∉ tail := by
    intro hm
    obtain ⟨a, b, rfl⟩ := htail x hm
    simp [isItemLoop] at hx
  obtain ⟨p, q, h1, h3, h4⟩ := split_mid h2 [] aev pre (by simp) (by simpa using htr ▸ h)
  exact ⟨p, q, h1, by simpa using h3, h4⟩

/-- in the raw trace, events without fired waits in front do not matter for adjacency -/
theorem adjacent_append_left {p x : List Ev} (hp : ∀ e ∈ p, e.isWait = false) :
    firedWaitsAdjacent (p ++ x) = firedWaitsAdjacent x := by
  induction p with
  | nil => rfl
  | cons e p ih =>
    have he : e.isWait = false := hp e (by simp)
    have ih' := ih (fun e' he' => hp e' (by simp [he']))
    cases e <;> simp_all [firedWaitsAdjacent, Ev.isWait]

theorem shape_adjacent_leaf {n v w : Nat} {arg : Val} {wc stop : Nat → Bool} {k : Nat} {t : List Ev} {c : Bool}
    (h : AttShape (leafExec n v arg) (leafWait n v w) w wc stop k t c) (rest : List Ev) :
    firedWaitsAdjacent (t ++ rest) = firedWaitsAdjacent rest := by
  induction h with
  | done _ => rfl
  | plain _ _ ih => simpa [firedWaitsAdjacent, leafExec] using ih
  | waited _ _ _ _ ih => simpa [firedWaitsAdjacent, leafExec, leafWait] using ih
  | cut _ _ _ => simp [firedWaitsAdjacent, leafWait]

theorem shape_adjacent_item {n v i w : Nat} {arg : Val} {wc stop : Nat → Bool} {k : Nat} {t : List Ev} {c : Bool}
    (h : AttShape (itemExec n v i arg) (itemWait n v i w) w wc stop k t c) (rest : List Ev) :
    firedWaitsAdjacent (t ++ rest) = firedWaitsAdjacent rest := by
  induction h with
  | done _ => rfl
  | plain _ _ ih => simpa [firedWaitsAdjacent, itemExec] using ih
  | waited _ _ _ _ ih => simpa [firedWaitsAdjacent, itemExec, itemWait] using ih
  | cut _ _ _ => simp [firedWaitsAdjacent, itemWait]

theorem filterMap_none {α β : Type} {f : α → Option β} {l : List α} (h : ∀ e ∈ l, f e = none) : l.filterMap f = [] := by
  induction l with
  | nil => rfl
  | cons a l ih =>
    simp only [List.filterMap_cons, h a (by simp)]
    exact ih (fun e he => h e (by simp [he]))

/-! ### batch runs: the items' retry loops inside `runBatch` / `runBatchW` -/

/-- events of item `j`'s processing: all carry the item index `j` -/
def isItemEvOf (n v j : Nat) (e : Ev) : Prop :=
  (∃ k a, e = .bexec n v j k a) ∨ (∃ k d f, e = .bwait n v j k d f) ∨ (∃ a err, e = .bfb n v j a err)

theorem runItem_events (kind : CtxKind) (n v : Nat) (cfg : BatchCfg) (j : Nat) (item : Result) (scr : ItemScript) (ctx : Ctx) :
    ∀ e ∈ (runItem kind n v cfg j item scr ctx).1, isItemEvOf n v j e := by
  intro e he
  obtain ⟨aev, tail, c, htr, htail, hs, _⟩ := runItem_struct kind n v cfg j item scr ctx
  rw [htr] at he
  rcases List.mem_append.mp he with he | he
  · rcases shape_events hs e he with ⟨k, _, rfl⟩ | ⟨k, f, _, _, _, _, rfl⟩
    · exact Or.inl ⟨k, _, rfl⟩
    · exact Or.inr (Or.inl ⟨k, _, f, rfl⟩)
  · obtain ⟨a, b, rfl⟩ := htail e he
    exact Or.inr (Or.inr ⟨a, b, rfl⟩)

theorem itemEvOf_proj_other {n v j i : Nat} {e : Ev} (h : isItemEvOf n v j e) (hji : j ≠ i) : itemAEv i e = none := by
  rcases h with ⟨k, a, rfl⟩ | ⟨k, d, f, rfl⟩ | ⟨a, b, rfl⟩ <;> simp [itemAEv, hji]

/-- a batch node's post event -/
def isBPost : Ev → Bool
  | .bpost .. => true
  | _ => false

theorem itemEvOf_not_post {n v j : Nat} {e : Ev} (h : isItemEvOf n v j e) : isBPost e = false := by
  rcases h with ⟨k, a, rfl⟩ | ⟨k, d, f, rfl⟩ | ⟨a, b, rfl⟩ <;> rfl

/-- `c20Item` only looks at the item's own events -/
theorem c20Item_congr {kind : CtxKind} {cfg : BatchCfg} {scr : ItemScript} {i : Nat} {tr tr' : List Ev} {slot : Option Val}
    (h : tr.filterMap (itemAEv i) = tr'.filterMap (itemAEv i)) :
    c20Item kind cfg scr i tr slot = c20Item kind cfg scr i tr' slot := by
  unfold c20Item
  simp only [h]

theorem c20Item_nil {kind : CtxKind} {cfg : BatchCfg} {scr : ItemScript} {i : Nat} {tr : List Ev} {slot : Option Val}
    (h : tr.filterMap (itemAEv i) = []) : c20Item kind cfg scr i tr slot = true := by
  unfold c20Item c20Stream
  simp [h, waitStream, firedIff, endsCut]

/-- C20 for one item's own processing, with the slot `runBatch*` stores for it -/
theorem runItem_c20Item (kind : CtxKind) (n v : Nat) (cfg : BatchCfg) (i : Nat) (item : Result) (scr : ItemScript) (ctx : Ctx) :
    c20Item kind cfg scr i (runItem kind n v cfg i item scr ctx).1
      (some (slotOfItemRes (runItem kind n v cfg i item scr ctx).2.2).box) = true := by
  obtain ⟨aev, tail, c, htr, htail, hs, hc⟩ := runItem_struct kind n v cfg i item scr ctx
  have hpe : ∀ k, itemAEv i (itemExec n v i (execArg cfg.execS item.box) k) = some (.ex k) := fun _ => by simp [itemAEv]
  have hpw : ∀ k f, itemAEv i (itemWait n v i cfg.wait k f) = some (.wt k cfg.wait f) := fun _ _ => by simp [itemAEv]
  have htailN : ∀ e ∈ tail, itemAEv i e = none := by
    intro e he
    obtain ⟨a, b, rfl⟩ := htail e he
    rfl
  have hproj : (runItem kind n v cfg i item scr ctx).1.filterMap (itemAEv i) = aev.filterMap (itemAEv i) := by
    rw [htr, List.filterMap_append, filterMap_none htailN]
    simp
  unfold c20Item c20Stream
  simp only [hproj, shape_waitStream hpe hpw hs, shape_firedIff hpe hpw hs, shape_endsCut hpe hpw hs,
    Bool.and_true, Bool.true_and]
  cases c with
  | false => rfl
  | true => simp [(hc rfl).2.1, slotOfItemRes]

theorem runItem_adjacent (kind : CtxKind) (n v : Nat) (cfg : BatchCfg) (i : Nat) (item : Result) (scr : ItemScript) (ctx : Ctx)
    (rest : List Ev) :
    firedWaitsAdjacent ((runItem kind n v cfg i item scr ctx).1 ++ rest) = firedWaitsAdjacent rest := by
  obtain ⟨aev, tail, c, htr, htail, hs, _⟩ := runItem_struct kind n v cfg i item scr ctx
  rw [htr, List.append_assoc, shape_adjacent_item hs, adjacent_append_left]
  intro e he
  obtain ⟨a, b, rfl⟩ := htail e he
  rfl

/-- What all three item executors (`itemsSeq`, `itemsSerialPool`, `itemsAllLive`) produce: item after
    item from index `i` on, each either processed by `runItem` (its events, its slot) or skipped (no
    events, some slot). -/
inductive ItemsRun (kind : CtxKind) (n v : Nat) (cfg : BatchCfg) (scr : BatchScript) :
    Nat → List Result → List Ev → List Result → Prop
  | nil (i : Nat) : ItemsRun kind n v cfg scr i [] [] []
  | skip {i : Nat} {it : Result} {rest : List Result} {evs : List Ev} {sl : List Result} (s : Result) :
      ItemsRun kind n v cfg scr (i + 1) rest evs sl → ItemsRun kind n v cfg scr i (it :: rest) evs (s :: sl)
  | run {i : Nat} {it : Result} {rest : List Result} {evs : List Ev} {sl : List Result} (ctx : Ctx) :
      ItemsRun kind n v cfg scr (i + 1) rest evs sl →
      ItemsRun kind n v cfg scr i (it :: rest)
        ((runItem kind n v cfg i it (scr.item i) ctx).1 ++ evs)
        (slotOfItemRes (runItem kind n v cfg i it (scr.item i) ctx).2.2 :: sl)

section itemsRun
variable {kind : CtxKind} {n v : Nat} {cfg : BatchCfg} {scr : BatchScript}

theorem itemsRun_skipAll (f : Result → Result) : ∀ (rest : List Result) (i : Nat),
    ItemsRun kind n v cfg scr i rest [] (rest.map f)
  | [], i => .nil i
  | it :: rest, i => .skip (f it) (itemsRun_skipAll f rest (i + 1))

theorem itemsSeq_run : ∀ (items : List Result) (i : Nat) (ctx : Ctx),
    ItemsRun kind n v cfg scr i items (itemsSeq kind n v cfg scr items i ctx).1 (itemsSeq kind n v cfg scr items i ctx).2.2 := by
  intro items
  induction items with
  | nil => intro i ctx; exact .nil i
  | cons it rest ih =>
    intro i ctx
    cases ctx with
    | done k =>
      by_cases hst : cfg.stop = true
      · simp only [itemsSeq, hst, if_true]
        exact .skip _ (itemsRun_skipAll _ rest (i + 1))
      · simp only [itemsSeq, hst]
        exact .skip _ (ih (i + 1) (.done k))
    | live =>
      have hrun := fun (evs : List Ev) (sl : List Result) (h : ItemsRun kind n v cfg scr (i + 1) rest evs sl) =>
        ItemsRun.run (kind := kind) (n := n) (v := v) (cfg := cfg) (scr := scr) (i := i) (it := it) .live h
      simp only [itemsSeq]
      generalize hr : runItem kind n v cfg i it (scr.item i) .live = ri at hrun
      obtain ⟨ev1, ctx1, r⟩ := ri
      cases r with
      | error e =>
        by_cases hst : cfg.stop = true
        · simp only [hst, if_true]
          have := hrun _ _ (itemsRun_skipAll (fun _ => newErrorResult (.fw .batchStopped)) rest (i + 1))
          simpa [slotOfItemRes] using this
        · simp only [hst]
          have := hrun _ _ (ih (i + 1) ctx1)
          simpa [slotOfItemRes] using this
      | slot s =>
        have := hrun _ _ (ih (i + 1) ctx1)
        simpa [slotOfItemRes] using this

theorem itemsSerialPool_run : ∀ (items : List Result) (i : Nat) (stopped : Bool) (ctx : Ctx),
    ItemsRun kind n v cfg scr i items (itemsSerialPool kind n v cfg scr items i stopped ctx).1
      (itemsSerialPool kind n v cfg scr items i stopped ctx).2.2 := by
  intro items
  induction items with
  | nil => intro i stopped ctx; exact .nil i
  | cons it rest ih =>
    intro i stopped ctx
    by_cases hst : stopped = true ∧ cfg.stop = true
    · simp only [itemsSerialPool, hst, and_self, if_true]
      exact .skip _ (ih (i + 1) _ ctx)
    · cases ctx with
      | done k =>
        simp only [itemsSerialPool, hst, if_false]
        exact .skip _ (ih (i + 1) stopped (.done k))
      | live =>
        have hrun := fun (evs : List Ev) (sl : List Result) (h : ItemsRun kind n v cfg scr (i + 1) rest evs sl) =>
          ItemsRun.run (kind := kind) (n := n) (v := v) (cfg := cfg) (scr := scr) (i := i) (it := it) .live h
        simp only [itemsSerialPool, hst, if_false]
        generalize hr : runItem kind n v cfg i it (scr.item i) .live = ri at hrun
        obtain ⟨ev1, ctx1, r⟩ := ri
        cases r with
        | error e =>
          have := hrun _ _ (ih (i + 1) (stopped || cfg.stop) ctx1)
          simpa [slotOfItemRes] using this
        | slot s =>
          have := hrun _ _ (ih (i + 1) stopped ctx1)
          simpa [slotOfItemRes] using this

theorem itemsAllLive_run : ∀ (items : List Result) (i : Nat),
    ItemsRun kind n v cfg scr i items (itemsAllLive kind n v cfg scr items i).1 (itemsAllLive kind n v cfg scr items i).2.2 := by
  intro items
  induction items with
  | nil => intro i; exact .nil i
  | cons it rest ih =>
    intro i
    simp only [itemsAllLive]
    exact .run .live (ih (i + 1))

/-- the events of an executor from index `i0` on belong to items `≥ i0` -/
theorem itemsRun_events {i0 : Nat} {items : List Result} {evs : List Ev} {sl : List Result}
    (h : ItemsRun kind n v cfg scr i0 items evs sl) : ∀ e ∈ evs, ∃ j, i0 ≤ j ∧ isItemEvOf n v j e := by
  induction h with
  | nil i => intro e he; simp at he
  | skip s _ ih =>
    intro e he
    obtain ⟨j, hj, hev⟩ := ih e he
    exact ⟨j, by omega, hev⟩
  | @run i it rest evs sl ctx _ ih =>
    intro e he
    rcases List.mem_append.mp he with he | he
    · exact ⟨i, Nat.le_refl _, runItem_events kind n v cfg i it (scr.item i) ctx e he⟩
    · obtain ⟨j, hj, hev⟩ := ih e he
      exact ⟨j, by omega, hev⟩

theorem itemsRun_proj_below {i0 : Nat} {items : List Result} {evs : List Ev} {sl : List Result}
    (h : ItemsRun kind n v cfg scr i0 items evs sl) {i : Nat} (hi : i < i0) : evs.filterMap (itemAEv i) = [] := by
  apply filterMap_none
  intro e he
  obtain ⟨j, hj, hev⟩ := itemsRun_events h e he
  exact itemEvOf_proj_other hev (by omega)

theorem itemsRun_length {i0 : Nat} {items : List Result} {evs : List Ev} {sl : List Result}
    (h : ItemsRun kind n v cfg scr i0 items evs sl) : sl.length = items.length := by
  induction h with
  | nil i => rfl
  | skip s _ ih => simp [ih]
  | run ctx _ ih => simp [ih]

/-- **C20 for every item of an executor's run**, with the slot the executor stored for it -/
theorem itemsRun_c20Item {i0 : Nat} {items : List Result} {evs : List Ev} {sl : List Result}
    (h : ItemsRun kind n v cfg scr i0 items evs sl) :
    ∀ i, i0 ≤ i → c20Item kind cfg (scr.item i) i evs ((sl[i - i0]?).map Result.box) = true := by
  induction h with
  | nil i0 => intro i _; exact c20Item_nil rfl
  | @skip i0 it rest evs sl s h' ih =>
    intro i hi
    by_cases hii : i = i0
    · exact c20Item_nil (itemsRun_proj_below h' (by omega))
    · have hidx : i - i0 = (i - (i0 + 1)) + 1 := by omega
      rw [hidx, List.getElem?_cons_succ]
      exact ih i (by omega)
  | @run i0 it rest evs sl ctx h' ih =>
    intro i hi
    by_cases hii : i = i0
    · subst hii
      have hproj : ((runItem kind n v cfg i it (scr.item i) ctx).1 ++ evs).filterMap (itemAEv i)
          = (runItem kind n v cfg i it (scr.item i) ctx).1.filterMap (itemAEv i) := by
        rw [List.filterMap_append, itemsRun_proj_below h' (by omega), List.append_nil]
      rw [c20Item_congr hproj]
      simpa using runItem_c20Item kind n v cfg i it (scr.item i) ctx
    · have hidx : i - i0 = (i - (i0 + 1)) + 1 := by omega
      have hproj : ((runItem kind n v cfg i0 it (scr.item i0) ctx).1 ++ evs).filterMap (itemAEv i)
          = evs.filterMap (itemAEv i) := by
        rw [List.filterMap_append, filterMap_none, List.nil_append]
        intro e he
        exact itemEvOf_proj_other (runItem_events kind n v cfg i0 it (scr.item i0) ctx e he) (by omega)
      rw [hidx, List.getElem?_cons_succ, c20Item_congr hproj]
      exact ih i (by omega)

theorem itemsRun_adjacent {i0 : Nat} {items : List Result} {evs : List Ev} {sl : List Result}
    (h : ItemsRun kind n v cfg scr i0 items evs sl) (rest : List Ev) :
    firedWaitsAdjacent (evs ++ rest) = firedWaitsAdjacent rest := by
  induction h with
  | nil i => rfl
  | skip s _ ih => exact ih
  | @run i it items evs sl ctx _ ih =>
    rw [List.append_assoc, runItem_adjacent, ih]

end itemsRun

theorem postSlots_append_post (xs : List Ev) (n v sid : Nat) (a b : List Val) :
    postSlots (xs ++ [.bpost n v sid a b]) = some b := by
  simp [postSlots, List.foldl_append]

theorem postSlots_none_of_noPost {xs : List Ev} (h : ∀ e ∈ xs, isBPost e = false) :
    postSlots xs = none := by
  have : ∀ (acc : Option (List Val)) (xs : List Ev), (∀ e ∈ xs, isBPost e = false) →
      xs.foldl (fun acc e => match e with | .bpost _ _ _ _ sl => some sl | _ => acc) acc = acc := by
    intro acc xs
    induction xs generalizing acc with
    | nil => intro _; rfl
    | cons e xs ih =>
      intro h
      have he := h e (by simp)
      have := ih (acc := acc) (fun e' he' => h e' (by simp [he']))
      cases e <;> simp_all [isBPost]
  exact this none xs h

/-! ### the trace of a batch run -/

theorem runBatch_form (kind : CtxKind) (n v sid : Nat) (cfg : BatchCfg) (scr : BatchScript) (ctx : Ctx) :
    ∃ (items : List Result) (iev : List Ev) (slots : List Result) (its : List Val) (hasPost : Bool),
      ItemsRun kind n v cfg scr 0 items iev slots ∧
      (runBatch kind n v sid cfg scr ctx).1 =
        [.bprep n v sid] ++ iev ++ (if hasPost then [.bpost n v sid its (slots.map Result.box)] else []) := by
  unfold runBatch
  cases hp : scr.prep.res with
  | error e => exact ⟨[], [], [], [], false, .nil 0, by simp⟩
  | ok l =>
    simp only []
    by_cases hemp : (normItems cfg.shape l).isEmpty = true
    · simp only [hemp, if_true]
      by_cases hpost : cfg.hasPost = true
      · refine ⟨[], [], [], [], true, .nil 0, ?_⟩
        cases scr.post.res <;> simp [hpost]
      · exact ⟨[], [], [], [], false, .nil 0, by simp [hpost]⟩
    · simp only [hemp]
      by_cases hc : cfg.conc > 0
      · have hrun := itemsSerialPool_run (kind := kind) (n := n) (v := v) (cfg := cfg) (scr := scr)
          (normItems cfg.shape l) 0 false (ctx.after kind scr.prep.cancels)
        by_cases hpost : cfg.hasPost = true
        · refine ⟨_, _, _, (normItems cfg.shape l).map Result.box, true, hrun, ?_⟩
          cases scr.post.res <;> simp [hc, hpost]
        · exact ⟨_, _, _, [], false, hrun, by simp [hc, hpost]⟩
      · have hrun := itemsSeq_run (kind := kind) (n := n) (v := v) (cfg := cfg) (scr := scr)
          (normItems cfg.shape l) 0 (ctx.after kind scr.prep.cancels)
        by_cases hpost : cfg.hasPost = true
        · refine ⟨_, _, _, (normItems cfg.shape l).map Result.box, true, hrun, ?_⟩
          cases scr.post.res <;> simp [hc, hpost]
        · exact ⟨_, _, _, [], false, hrun, by simp [hc, hpost]⟩

theorem runBatchW_form (kind : CtxKind) (n v sid : Nat) (cfg : BatchCfg) (scr : BatchScript) (ctx : Ctx) :
    ∃ (items : List Result) (iev : List Ev) (slots : List Result) (its : List Val) (hasPost : Bool),
      ItemsRun kind n v cfg scr 0 items iev slots ∧
      (runBatchW kind n v sid cfg scr ctx).1 =
        [.bprep n v sid] ++ iev ++ (if hasPost then [.bpost n v sid its (slots.map Result.box)] else []) := by
  unfold runBatchW
  by_cases hc : cfg.conc < 2
  · simp only [hc, if_true]
    exact runBatch_form kind n v sid cfg scr ctx
  · simp only [hc, if_false]
    cases hp : scr.prep.res with
    | error e => exact ⟨[], [], [], [], false, .nil 0, by simp⟩
    | ok l =>
      simp only []
      by_cases hemp : (normItems cfg.shape l).isEmpty = true
      · simp only [hemp, if_true]
        exact runBatch_form kind n v sid cfg scr ctx
      · simp only [hemp]
        have hrun := itemsAllLive_run (kind := kind) (n := n) (v := v) (cfg := cfg) (scr := scr) (normItems cfg.shape l) 0
        by_cases hpost : cfg.hasPost = true
        · refine ⟨_, _, _, (normItems cfg.shape l).map Result.box, true, hrun, ?_⟩
          cases scr.post.res <;> simp [hpost]
        · exact ⟨_, _, _, [], false, hrun, by simp [hpost]⟩

theorem c20Item_slot_none {kind : CtxKind} {cfg : BatchCfg} {scr : ItemScript} {i : Nat} {tr : List Ev} {slot : Option Val}
    (h : c20Item kind cfg scr i tr slot = true) : c20Item kind cfg scr i tr none = true := by
  unfold c20Item at h ⊢
  simp only [Bool.and_eq_true] at h ⊢
  exact ⟨h.1, by simp⟩

theorem c20Batch_of_form {kind : CtxKind} {n v sid : Nat} {cfg : BatchCfg} {scr : BatchScript}
    {items : List Result} {iev : List Ev} {slots : List Result}
    (h : ItemsRun kind n v cfg scr 0 items iev slots) (its : List Val) (hasPost : Bool) (nItems : Nat) (ordered : Bool) :
    c20Batch kind cfg scr nItems ordered
      ([.bprep n v sid] ++ iev ++ (if hasPost then [.bpost n v sid its (slots.map Result.box)] else [])) = true := by
  have hnoPost : ∀ e ∈ [Ev.bprep n v sid] ++ iev, isBPost e = false := by
    intro e he
    rcases List.mem_append.mp he with he | he
    · simp at he; subst he; rfl
    · obtain ⟨j, _, hev⟩ := itemsRun_events h e he
      exact itemEvOf_not_post hev
  unfold c20Batch
  simp only [Bool.and_eq_true, List.all_eq_true, List.mem_range]
  constructor
  · intro i _
    have hitem := itemsRun_c20Item h i (Nat.zero_le _)
    simp only [Nat.sub_zero] at hitem
    have hproj : ([Ev.bprep n v sid] ++ iev ++ (if hasPost then [Ev.bpost n v sid its (slots.map Result.box)] else [])).filterMap (itemAEv i)
        = iev.filterMap (itemAEv i) := by
      have h1 : itemAEv i (Ev.bprep n v sid) = none := rfl
      have h2 : itemAEv i (Ev.bpost n v sid its (slots.map Result.box)) = none := rfl
      cases hasPost <;> simp [List.filterMap_append, h1, h2]
    rw [c20Item_congr hproj]
    cases hasPost with
    | true =>
      simp only [if_true, postSlots_append_post, Option.bind_some, List.getElem?_map]
      exact hitem
    | false =>
      simp only [Bool.false_eq_true, if_false, List.append_nil, postSlots_none_of_noPost hnoPost, Option.bind_none]
      exact c20Item_slot_none hitem
  · cases ordered with
    | false => rfl
    | true =>
      simp only [Bool.not_true, Bool.false_or]
      rw [List.append_assoc, adjacent_append_left (by intro e he; simp at he; subst he; rfl), itemsRun_adjacent h]
      cases hasPost <;> simp [firedWaitsAdjacent]

/-- inside a batch run, the retry-loop events of item `i` are exactly those of `runItem` on that item
    (or there are none: the item was skipped) -/
theorem itemsRun_proj {kind : CtxKind} {n v : Nat} {cfg : BatchCfg} {scr : BatchScript}
    {i0 : Nat} {items : List Result} {evs : List Ev} {sl : List Result}
    (h : ItemsRun kind n v cfg scr i0 items evs sl) (i : Nat) :
    evs.filterMap (itemAEv i) = [] ∨
      ∃ it ctx, evs.filterMap (itemAEv i) = (runItem kind n v cfg i it (scr.item i) ctx).1.filterMap (itemAEv i) := by
  induction h with
  | nil i0 => exact Or.inl rfl
  | skip s _ ih => exact ih
  | @run i0 it rest evs sl ctx h' ih =>
    by_cases hii : i = i0
    · subst hii
      right
      refine ⟨it, ctx, ?_⟩
      rw [List.filterMap_append, itemsRun_proj_below h' (by omega), List.append_nil]
    · have hproj : ((runItem kind n v cfg i0 it (scr.item i0) ctx).1 ++ evs).filterMap (itemAEv i)
          = evs.filterMap (itemAEv i) := by
        rw [List.filterMap_append, filterMap_none, List.nil_append]
        intro e he
        exact itemEvOf_proj_other (runItem_events kind n v cfg i0 it (scr.item i0) ctx e he) (by omega)
      rw [hproj]
      exact ih

theorem form_proj {n v sid : Nat} {iev : List Ev} {its sl : List Val} {hasPost : Bool} (i : Nat) :
    ([Ev.bprep n v sid] ++ iev ++ (if hasPost then [Ev.bpost n v sid its sl] else [])).filterMap (itemAEv i)
      = iev.filterMap (itemAEv i) := by
  have h1 : itemAEv i (Ev.bprep n v sid) = none := rfl
  have h2 : itemAEv i (Ev.bpost n v sid its sl) = none := rfl
  cases hasPost <;> simp [List.filterMap_append, h1, h2]

end Flyt.Proofs.Wait
