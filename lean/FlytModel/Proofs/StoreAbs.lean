import FlytModel.Proofs.StoreSpec
/-!
# The abstraction `abs : heap state → (Key → Option Val)` and what each operation does to it
-/
namespace Flyt.Store
open Flyt Flyt.Spec.Store

/-- **the abstraction function**: the map the store's `data` pointer currently denotes -/
def abs (s : St) : Key → Option Val := fun k => lookup k s.cur

/-- `g` laid over `f`: where `g` has an entry it wins -/
def overlay (g f : Key → Option Val) : Key → Option Val :=
  fun x => (g x).or (f x)

/-- what an operation does to a plain map `f` (the heap state `s` is consulted only to find out
    which map a `Merge` argument handle currently denotes) -/
def absStep (s : St) (f : Key → Option Val) : Op → (Key → Option Val)
  | .set k v => fun x => if x = k then some v else f x
  | .delete k => fun x => if x = k then none else f x
  | .clear => fun _ => none
  | .mergeLit l => overlay (fun x => lookup x l) f
  | .mergeSnap j =>
    match s.snaps[j]? with
    | some r => overlay (fun x => lookup x (s.deref r)) f
    | none => f
  | _ => f

/-- operations that only touch objects the caller holds, or only read -/
def Op.leavesStoreAlone : Op → Bool
  | .set .. | .delete _ | .clear | .mergeLit _ | .mergeSnap _ => false
  | _ => true

/-- reachable from a fresh store -/
def Reachable (s : St) : Prop := ∃ ops, s = exec St.init ops

theorem Reachable.iso {s : St} (h : Reachable s) : Iso s := by
  obtain ⟨ops, rfl⟩ := h; exact iso_exec iso_init ops

theorem Reachable.step {s : St} (h : Reachable s) (op : Op) : Reachable (step s op).1 := by
  obtain ⟨ops, rfl⟩ := h
  refine ⟨ops ++ [op], ?_⟩
  generalize St.init = s0
  induction ops generalizing s0 with
  | nil => rfl
  | cons o t ih => exact ih (Store.step s0 o).1

theorem Reachable.simV {s : St} (h : Reachable s) : ∃ fs ks, SimV s.view fs ks := by
  obtain ⟨ops, rfl⟩ := h
  rw [exec_view iso_init, view_init]
  obtain ⟨ks, hk⟩ := sim_vexec simV_init ops
  exact ⟨_, ks, hk⟩

/-- every map object the store currently points to has distinct keys -/
theorem Reachable.nodupKeys {s : St} (h : Reachable s) : NodupKeys s.cur := by
  obtain ⟨fs, ks, hs⟩ := h.simV
  exact hs.cur.nd

theorem lookup_mergeInto_nil (l : KV) (k : Key) : lookup k (mergeInto [] l) = lookup k l := by
  rw [lookup_mergeInto]; cases lookup k l <;> rfl

/-- the value machine's map after one step, as a function -/
theorem vstep_abs (vs : VSt) (op : Op) (k : Key) :
    lookup k (vstep vs op).1.m =
      (match op with
       | .set k' v => if k = k' then some v else lookup k vs.m
       | .delete k' => if k = k' then none else lookup k vs.m
       | .clear => none
       | .mergeLit l => (lookup k l).or (lookup k vs.m)
       | .mergeSnap j =>
         (match vs.snaps[j]? with
          | some a => (lookup k a).or (lookup k vs.m)
          | none => lookup k vs.m)
       | _ => lookup k vs.m) := by
  cases op with
  | set k' v => simp only [vstep, lookup_put]
  | delete k' => simp only [vstep, lookup_erase]
  | clear => rfl
  | mergeLit l => simp only [vstep]; rw [lookup_mergeInto, lookup_mergeInto_nil]
  | mergeSnap j =>
    simp only [vstep]
    cases vs.snaps[j]? with
    | none => rfl
    | some a => simp only [lookup_mergeInto]
  | snapSet j k' v => simp only [vstep]; split <;> rfl
  | snapDel j k' => simp only [vstep]; split <;> rfl
  | keysRepl j o n => simp only [vstep]; split <;> rfl
  | readSnap j => simp only [vstep]; split <;> rfl
  | readKeys j => simp only [vstep]; split <;> rfl
  | get _ => rfl
  | getAll => rfl
  | mergeNil => rfl
  | has _ => rfl
  | keys => rfl
  | len => rfl

/-- **abs commutes with every operation** on an isolated state -/
theorem abs_step {s : St} (h : Iso s) (op : Op) : abs (step s op).1 = absStep s (abs s) op := by
  funext k
  have hv : (step s op).1.cur = (vstep s.view op).1.m := congrArg VSt.m (step_view h op).2
  simp only [abs, hv, vstep_abs]
  cases op with
  | mergeSnap j =>
    simp only [absStep, view_snaps_getElem?]
    cases s.snaps[j]? with
    | none => rfl
    | some r => rfl
  | mergeLit l => simp only [absStep, overlay]; rfl
  | set _ _ => rfl
  | delete _ => rfl
  | clear => rfl
  | get _ => rfl
  | getAll => rfl
  | mergeNil => rfl
  | has _ => rfl
  | keys => rfl
  | len => rfl
  | snapSet _ _ _ => rfl
  | snapDel _ _ => rfl
  | keysRepl _ _ _ => rfl
  | readSnap _ => rfl
  | readKeys _ => rfl

/-- how one step changes the content of the caller-held map with handle `j` (value machine) -/
def snapAfter (a : KV) (j : Nat) : Op → KV
  | .snapSet j' k v => if j' = j then put a k v else a
  | .snapDel j' k => if j' = j then erase k a else a
  | _ => a

/-- how one step changes the content of the caller-held keys slice with handle `j` -/
def ksnapAfter (l : List Key) (j : Nat) : Op → List Key
  | .keysRepl j' old new => if j' = j then l.map (replKey old new) else l
  | _ => l

theorem vstep_snap (vs : VSt) (op : Op) (j : Nat) (a : KV) (ha : vs.snaps[j]? = some a) :
    (vstep vs op).1.snaps[j]? = some (snapAfter a j op) := by
  have hj : j < vs.snaps.length := by
    apply Classical.byContradiction; intro hn
    rw [List.getElem?_eq_none (by omega)] at ha; cases ha
  cases op with
  | getAll => simp only [vstep, snapAfter]; rw [List.getElem?_append_left hj]; exact ha
  | mergeLit l => simp only [vstep, snapAfter]; rw [List.getElem?_append_left hj]; exact ha
  | mergeSnap j' => simp only [vstep, snapAfter]; split <;> exact ha
  | snapSet j' k v =>
    simp only [vstep, snapAfter]
    by_cases e : j' = j
    · subst e; rw [ha]; simp only [if_true]; grind
    · simp only [if_neg e]; split
      · exact ha
      · simp only; rw [List.getElem?_set_ne e]; exact ha
  | snapDel j' k =>
    simp only [vstep, snapAfter]
    by_cases e : j' = j
    · subst e; rw [ha]; simp only [if_true]; grind
    · simp only [if_neg e]; split
      · exact ha
      · simp only; rw [List.getElem?_set_ne e]; exact ha
  | keysRepl j' o n => simp only [vstep, snapAfter]; split <;> exact ha
  | readSnap j' => simp only [vstep, snapAfter]; split <;> exact ha
  | readKeys j' => simp only [vstep, snapAfter]; split <;> exact ha
  | get _ => exact ha
  | set _ _ => exact ha
  | mergeNil => exact ha
  | has _ => exact ha
  | delete _ => exact ha
  | clear => exact ha
  | keys => exact ha
  | len => exact ha

theorem vstep_ksnap (vs : VSt) (op : Op) (j : Nat) (l : List Key) (hl : vs.ksnaps[j]? = some l) :
    (vstep vs op).1.ksnaps[j]? = some (ksnapAfter l j op) := by
  have hj : j < vs.ksnaps.length := by
    apply Classical.byContradiction; intro hn
    rw [List.getElem?_eq_none (by omega)] at hl; cases hl
  cases op with
  | keys => simp only [vstep, ksnapAfter]; rw [List.getElem?_append_left hj]; exact hl
  | keysRepl j' o n =>
    simp only [vstep, ksnapAfter]
    by_cases e : j' = j
    · subst e; rw [hl]; simp only [if_true]; grind
    · simp only [if_neg e]; split
      · exact hl
      · simp only; rw [List.getElem?_set_ne e]; exact hl
  | mergeSnap j' => simp only [vstep, ksnapAfter]; split <;> exact hl
  | snapSet j' k v => simp only [vstep, ksnapAfter]; split <;> exact hl
  | snapDel j' k => simp only [vstep, ksnapAfter]; split <;> exact hl
  | readSnap j' => simp only [vstep, ksnapAfter]; split <;> exact hl
  | readKeys j' => simp only [vstep, ksnapAfter]; split <;> exact hl
  | get _ => exact hl
  | set _ _ => exact hl
  | getAll => exact hl
  | mergeNil => exact hl
  | mergeLit _ => exact hl
  | has _ => exact hl
  | delete _ => exact hl
  | clear => exact hl
  | len => exact hl

end Flyt.Store
