import FlytModel.Proofs.FailStop
/-!
# Batch nodes as seen from the enclosing run (helper lemmas for C03, C04, C05, C10)

Only what the flow-level properties need: which events a batch node emits, the shape of its run, and
that only its own prep / post can end the run with a user error.
-/
namespace Flyt.Proofs
open Flyt

/-- per-item events of batch node `n`, visit `v` -/
def ItemEv (n : NodeId) (v : Nat) : Ev → Prop
  | .bexec n' v' _ _ _ => n' = n ∧ v' = v
  | .bwait n' v' _ _ _ _ => n' = n ∧ v' = v
  | .bfb n' v' _ _ _ => n' = n ∧ v' = v
  | _ => False

theorem ItemEv.key {n v e} (h : ItemEv n v e) : Spec.evKey e = (n, v) := by
  cases e <;> simp_all [ItemEv, Spec.evKey]

theorem ItemEv.isBatch {n v e} (h : ItemEv n v e) : Spec.isBatchEv e = true := by
  cases e <;> simp_all [ItemEv, Spec.isBatchEv]

theorem ItemEv.nonfatal {env : Env} {n v e} (h : ItemEv n v e) : Spec.scriptFatal env e = none := by
  cases e <;> simp_all [ItemEv, Spec.scriptFatal]

/-- `runItem` = retry loop, then fallback -/
theorem runItem_eq (kind : CtxKind) (n : NodeId) (v : Nat) (cfg : BatchCfg) (i : Nat) (item : Result)
    (scr : ItemScript) (ctx : Ctx) :
    ∃ aev c1 ares fev c2 eres,
      attempts kind (fun k => .bexec n v i k (execArg cfg.execS item.box)) (fun k f => .bwait n v i k cfg.wait f)
        scr.exec scr.waitCancel cfg.execS cfg.wait 0 cfg.budget none ctx = (aev, c1, ares) ∧
      fallbackPhase kind cfg.fb (fun e => .bfb n v i item.box (.user e)) scr.fb c1 ares = (fev, c2, eres) ∧
      runItem kind n v cfg i item scr ctx =
        (aev ++ fev, c2, match eres with | .ok x => .slot (slotOfVal x) | .error e => .error e) := by
  generalize hA : attempts kind (fun k => Ev.bexec n v i k (execArg cfg.execS item.box))
    (fun k f => Ev.bwait n v i k cfg.wait f) scr.exec scr.waitCancel cfg.execS cfg.wait 0 cfg.budget none ctx = ar
  obtain ⟨aev, c1, ares⟩ := ar
  generalize hF : fallbackPhase kind cfg.fb (fun e => Ev.bfb n v i item.box (.user e)) scr.fb c1 ares = fr
  obtain ⟨fev, c2, eres⟩ := fr
  refine ⟨aev, c1, ares, fev, c2, eres, rfl, hF, ?_⟩
  simp only [runItem, hA, hF]
  cases eres <;> rfl

theorem runItem_mem (kind : CtxKind) (n : NodeId) (v : Nat) (cfg : BatchCfg) (i : Nat) (item : Result)
    (scr : ItemScript) (ctx : Ctx) : ∀ e ∈ (runItem kind n v cfg i item scr ctx).1, ItemEv n v e := by
  obtain ⟨aev, c1, ares, fev, c2, eres, hA, hF, hR⟩ := runItem_eq kind n v cfg i item scr ctx
  rw [hR]
  intro e he
  simp only [List.mem_append] at he
  rcases he with he | he
  · have := attempts_mem (kind := kind) (mkExec := fun k => Ev.bexec n v i k (execArg cfg.execS item.box))
      (mkWait := fun k f => Ev.bwait n v i k cfg.wait f) (exec := scr.exec) (waitCancel := scr.waitCancel)
      (execS := cfg.execS) (wait := cfg.wait) 0 cfg.budget none ctx
    rw [hA] at this
    rcases this e he with ⟨j, _, _, rfl, _⟩ | ⟨j, b, _, _, rfl⟩ <;> simp [ItemEv]
  · rcases fallbackPhase_cases hF with ⟨x, _, rfl, _⟩ | ⟨k, _, rfl, _⟩ | ⟨e', _, _, rfl, _⟩ | ⟨e', _, _, rfl, _⟩
    · cases he
    · cases he
    · cases he
    · simp at he; subst he; simp [ItemEv]

/-- whatever holds of the events of every item's run holds of the events of the sequential executor -/
theorem itemsSeq_all (P : Ev → Prop) (kind : CtxKind) (n : NodeId) (v : Nat) (cfg : BatchCfg) (scr : BatchScript)
    (hitem : ∀ i it, ∀ e ∈ (runItem kind n v cfg i it (scr.item i) .live).1, P e)
    (items : List Result) (i : Nat) (ctx : Ctx) :
    ∀ e ∈ (itemsSeq kind n v cfg scr items i ctx).1, P e := by
  induction items generalizing i ctx with
  | nil => simp [itemsSeq]
  | cons it rest ih =>
    intro e he
    have hm := hitem i it
    simp only [itemsSeq] at he
    cases ctx with
    | done k =>
      simp only at he
      split at he
      · cases he
      · exact ih _ _ e he
    | live =>
      simp only at he
      split at he
      · split at he
        · exact hm e he
        · simp only [List.mem_append] at he
          rcases he with he | he
          · exact hm e he
          · exact ih _ _ e he
      · simp only [List.mem_append] at he
        rcases he with he | he
        · exact hm e he
        · exact ih _ _ e he

theorem itemsSeq_mem (kind : CtxKind) (n : NodeId) (v : Nat) (cfg : BatchCfg) (scr : BatchScript)
    (items : List Result) (i : Nat) (ctx : Ctx) :
    ∀ e ∈ (itemsSeq kind n v cfg scr items i ctx).1, ItemEv n v e :=
  itemsSeq_all (ItemEv n v) kind n v cfg scr (fun i it => runItem_mem kind n v cfg i it (scr.item i) .live) items i ctx

/-- … and of the events of the worker-pool executor (serial schedule) -/
theorem itemsSerialPool_all (P : Ev → Prop) (kind : CtxKind) (n : NodeId) (v : Nat) (cfg : BatchCfg)
    (scr : BatchScript) (hitem : ∀ i it, ∀ e ∈ (runItem kind n v cfg i it (scr.item i) .live).1, P e)
    (items : List Result) (i : Nat) (stopped : Bool) (ctx : Ctx) :
    ∀ e ∈ (itemsSerialPool kind n v cfg scr items i stopped ctx).1, P e := by
  induction items generalizing i stopped ctx with
  | nil => simp [itemsSerialPool]
  | cons it rest ih =>
    intro e he
    have hm := hitem i it
    simp only [itemsSerialPool] at he
    split at he
    · exact ih _ _ _ e he
    · cases ctx with
      | done k => exact ih _ _ _ e he
      | live =>
        simp only at he
        split at he
        · simp only [List.mem_append] at he
          rcases he with he | he
          · exact hm e he
          · exact ih _ _ _ e he
        · simp only [List.mem_append] at he
          rcases he with he | he
          · exact hm e he
          · exact ih _ _ _ e he

theorem itemsSerialPool_mem (kind : CtxKind) (n : NodeId) (v : Nat) (cfg : BatchCfg) (scr : BatchScript)
    (items : List Result) (i : Nat) (stopped : Bool) (ctx : Ctx) :
    ∀ e ∈ (itemsSerialPool kind n v cfg scr items i stopped ctx).1, ItemEv n v e :=
  itemsSerialPool_all (ItemEv n v) kind n v cfg scr
    (fun i it => runItem_mem kind n v cfg i it (scr.item i) .live) items i stopped ctx

/-- the item phase of `runBatch`: worker-pool (serial schedule) or sequential executor -/
def batchItems (kind : CtxKind) (n : NodeId) (v : Nat) (cfg : BatchCfg) (scr : BatchScript)
    (items : List Result) (ctx1 : Ctx) : List Ev × Ctx × List Result :=
  if cfg.conc > 0 then itemsSerialPool kind n v cfg scr items 0 false ctx1
  else itemsSeq kind n v cfg scr items 0 ctx1

theorem batchItems_mem (kind : CtxKind) (n : NodeId) (v : Nat) (cfg : BatchCfg) (scr : BatchScript)
    (items : List Result) (ctx1 : Ctx) : ∀ e ∈ (batchItems kind n v cfg scr items ctx1).1, ItemEv n v e := by
  unfold batchItems
  split
  · exact itemsSerialPool_mem kind n v cfg scr items 0 false ctx1
  · exact itemsSeq_mem kind n v cfg scr items 0 ctx1

theorem batchItems_all (P : Ev → Prop) {kind : CtxKind} {n : NodeId} {v : Nat} {cfg : BatchCfg} {scr : BatchScript}
    (hitem : ∀ i it, ∀ e ∈ (runItem kind n v cfg i it (scr.item i) .live).1, P e)
    {items : List Result} {ctx1 : Ctx} {iev c2 slots}
    (h : batchItems kind n v cfg scr items ctx1 = (iev, c2, slots)) : ∀ e ∈ iev, P e := by
  unfold batchItems at h
  split at h
  · have := itemsSerialPool_all P kind n v cfg scr hitem items 0 false ctx1
    rw [h] at this; exact this
  · have := itemsSeq_all P kind n v cfg scr hitem items 0 ctx1
    rw [h] at this; exact this

theorem batchItems_mem' {kind : CtxKind} {n : NodeId} {v : Nat} {cfg : BatchCfg} {scr : BatchScript}
    {items : List Result} {ctx1 : Ctx} {iev c2 slots}
    (h : batchItems kind n v cfg scr items ctx1 = (iev, c2, slots)) : ∀ e ∈ iev, ItemEv n v e := by
  have := batchItems_mem kind n v cfg scr items ctx1
  rw [h] at this
  exact this

/-- all the ways a batch node's run can go -/
inductive BatchShape (kind : CtxKind) (n : NodeId) (v : Nat) (sid : StoreId) (cfg : BatchCfg) (scr : BatchScript)
    (ctx : Ctx) : List Ev → Ctx → Outcome → Prop
  | prepErr {e} : scr.prep.res = .error e →
      BatchShape kind n v sid cfg scr ctx [.bprep n v sid] (ctx.after kind scr.prep.cancels) (.err (.user e))
  | noPost {l iev c2 slots} : scr.prep.res = .ok l →
      batchItems kind n v cfg scr (normItems cfg.shape l) (ctx.after kind scr.prep.cancels) = (iev, c2, slots) →
      cfg.hasPost = false →
      BatchShape kind n v sid cfg scr ctx ([.bprep n v sid] ++ iev) c2 (.ok defaultAction)
  | postErr {l iev c2 slots e} : scr.prep.res = .ok l →
      batchItems kind n v cfg scr (normItems cfg.shape l) (ctx.after kind scr.prep.cancels) = (iev, c2, slots) →
      cfg.hasPost = true → scr.post.res = .error e →
      BatchShape kind n v sid cfg scr ctx
        ([.bprep n v sid] ++ iev ++ [.bpost n v sid ((normItems cfg.shape l).map Result.box) (slots.map Result.box)])
        (c2.after kind scr.post.cancels) (.err (.user e))
  | postOk {l iev c2 slots a} : scr.prep.res = .ok l →
      batchItems kind n v cfg scr (normItems cfg.shape l) (ctx.after kind scr.prep.cancels) = (iev, c2, slots) →
      cfg.hasPost = true → scr.post.res = .ok a →
      BatchShape kind n v sid cfg scr ctx
        ([.bprep n v sid] ++ iev ++ [.bpost n v sid ((normItems cfg.shape l).map Result.box) (slots.map Result.box)])
        (c2.after kind scr.post.cancels) (.ok (norm a))

theorem batchItems_nil (kind : CtxKind) (n : NodeId) (v : Nat) (cfg : BatchCfg) (scr : BatchScript) (ctx1 : Ctx) :
    batchItems kind n v cfg scr [] ctx1 = ([], ctx1, []) := by
  unfold batchItems; split <;> simp [itemsSerialPool, itemsSeq]

theorem batchShape_of_runBatch {kind n v sid cfg scr ctx evs c out}
    (h : runBatch kind n v sid cfg scr ctx = (evs, c, out)) : BatchShape kind n v sid cfg scr ctx evs c out := by
  unfold runBatch at h
  dsimp only at h
  cases hr : scr.prep.res with
  | error e => simp only [hr] at h; cases h; exact .prepErr hr
  | ok l =>
    simp only [hr] at h
    by_cases hem : (normItems cfg.shape l).isEmpty = true
    · have hnil : normItems cfg.shape l = [] := List.isEmpty_iff.mp hem
      have hbi := batchItems_nil kind n v cfg scr (ctx.after kind scr.prep.cancels)
      rw [← hnil] at hbi
      simp only [hem, if_true] at h
      cases hp : cfg.hasPost with
      | false =>
        simp only [hp] at h
        cases h
        have := BatchShape.noPost (sid := sid) hr hbi hp
        simpa using this
      | true =>
        simp only [hp, if_true] at h
        cases hpr : scr.post.res with
        | error e =>
          simp only [hpr] at h; cases h
          have := BatchShape.postErr (sid := sid) hr hbi hp hpr
          simpa [hnil] using this
        | ok a =>
          simp only [hpr] at h; cases h
          have := BatchShape.postOk (sid := sid) hr hbi hp hpr
          simpa [hnil] using this
    · simp only [hem] at h
      generalize hbi : (if cfg.conc > 0 then
          itemsSerialPool kind n v cfg scr (normItems cfg.shape l) 0 false (ctx.after kind scr.prep.cancels)
        else itemsSeq kind n v cfg scr (normItems cfg.shape l) 0 (ctx.after kind scr.prep.cancels)) = br at h
      obtain ⟨iev, c2, slots⟩ := br
      have hbi' : batchItems kind n v cfg scr (normItems cfg.shape l) (ctx.after kind scr.prep.cancels) =
          (iev, c2, slots) := hbi
      simp only at h
      cases hp : cfg.hasPost with
      | false => simp only [hp] at h; cases h; exact .noPost hr hbi' hp
      | true =>
        simp only [hp, if_true] at h
        cases hpr : scr.post.res with
        | error e => simp only [hpr] at h; cases h; exact .postErr hr hbi' hp hpr
        | ok a => simp only [hpr] at h; cases h; exact .postOk hr hbi' hp hpr

section
variable {env : Env} {n : NodeId} {v : Nat} {sid : StoreId}

theorem fatal_bprep : Spec.scriptFatal env (.bprep n v sid) = Spec.errOf (env.batchBeh n v).prep := rfl
theorem fatal_bpost {a b} : Spec.scriptFatal env (.bpost n v sid a b) = Spec.errOf (env.batchBeh n v).post := rfl

theorem runBatch_failstop {cfg : BatchCfg} {ctx evs c out}
    (h : runBatch env.kind n v sid cfg (env.batchBeh n v) ctx = (evs, c, out)) :
    FailStop (Spec.scriptFatal env) evs out := by
  have hs := batchShape_of_runBatch h
  cases hs with
  | @prepErr e0 hr =>
    have := FailStop.snoc (fatal := Spec.scriptFatal env) (l := []) (e := .bprep n v sid)
      (out := .err (.user e0)) (by simp) (by intro u; rw [fatal_bprep, errOf_error hr]; simp)
    simpa using this
  | noPost hr hbi hp =>
    apply FailStop.of_nonfatal
    · intro a ha
      simp only [List.mem_append, List.mem_singleton] at ha
      rcases ha with rfl | ha
      · rw [fatal_bprep, errOf_ok hr]
      · exact (batchItems_mem' hbi a ha).nonfatal
    · simp
  | postErr hr hbi hp hpr =>
    apply FailStop.snoc
    · intro a ha
      simp only [List.mem_append, List.mem_singleton] at ha
      rcases ha with rfl | ha
      · rw [fatal_bprep, errOf_ok hr]
      · exact (batchItems_mem' hbi a ha).nonfatal
    · intro u; rw [fatal_bpost, errOf_error hpr]; simp
  | postOk hr hbi hp hpr =>
    apply FailStop.snoc
    · intro a ha
      simp only [List.mem_append, List.mem_singleton] at ha
      rcases ha with rfl | ha
      · rw [fatal_bprep, errOf_ok hr]
      · exact (batchItems_mem' hbi a ha).nonfatal
    · intro u; rw [fatal_bpost, errOf_ok hpr]; simp
end

/-- **whole runs are fail-stop** (any nesting depth): by induction over the big-step derivation -/
theorem big_failstop {env : Env} {sid task st evs st' r} (h : Big env sid task st evs st' r) :
    FailStop (Spec.scriptFatal env) evs r := by
  induction h with
  | leaf hA h => exact runLeaf_failstop hA (leafStep_ctx h)
  | batch hA h => exact runBatch_failstop (batchStep_ctx h)
  | flowDone => exact .nil (by simp)
  | flowNoStart => exact .nil (by simp)
  | flowOk _ _ _ ih => exact .of_nonfatal (ih.nonfatal (by simp)) (by simp)
  | flowFail _ _ _ _ ih => exact ih
  | loopDone => exact .nil (by simp)
  | loopStop _ _ _ ih => exact ih
  | loopStep _ _ _ _ ih1 ih2 => exact .append (ih1.nonfatal (by simp)) ih2
  | loopFail _ _ _ ih => exact ih

end Flyt.Proofs
