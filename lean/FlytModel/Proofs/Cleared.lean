import FlytModel.Proofs.Cancel
/-!
# A run that was not cut short does not depend on the cancellation (helper lemmas for C05 (iii))

`clearEnv env` is the same scenario with every `cancels` flag cleared and no asynchronous cancellation during
waits (the driver's `noCancelEnv`, the reference run `ref` of `Spec.c05`).  A run that ends on a live context,
or that returns an action although some leaf callback cancelled, produces exactly the reference run's trace,
visit counters and outcome.
-/
namespace Flyt.Proofs
open Flyt

def clearLeaf (s : LeafScript) : LeafScript :=
  { prep := clearOut s.prep, exec := fun k => clearOut (s.exec k), waitCancel := fun _ => false,
    fb := clearOut s.fb, post := clearOut s.post }

def clearItem (it : ItemScript) : ItemScript :=
  { exec := fun k => clearOut (it.exec k), waitCancel := fun _ => false, fb := clearOut it.fb }

def clearBatch (s : BatchScript) : BatchScript :=
  { prep := clearOut s.prep, item := fun i => clearItem (s.item i), post := clearOut s.post }

/-- the same scenario without any cancellation -/
def clearEnv (env : Env) : Env :=
  { env with leafBeh := fun n v => clearLeaf (env.leafBeh n v), batchBeh := fun n v => clearBatch (env.batchBeh n v) }

/-- the same run state with a live context -/
def relive (s : RunSt) : RunSt := { s with ctx := .live }

theorem relive_of_live {s : RunSt} (h : s.ctx = .live) : relive s = s := by
  cases s; simp_all [relive]

theorem fallbackPhase_clear {kind fb mkFb} {fbOut : Out Val} {ctx r fev c eres}
    (h : fallbackPhase kind fb mkFb fbOut ctx r = (fev, c, eres)) :
    fallbackPhase kind fb mkFb (clearOut fbOut) .live r = (fev, .live, eres) := by
  unfold fallbackPhase at h ⊢
  cases r with
  | ok x => simp only [Prod.mk.injEq] at h ⊢; exact ⟨h.1, (by first | rfl | trivial), h.2.2⟩
  | cancelled k => simp only [Prod.mk.injEq] at h ⊢; exact ⟨h.1, (by first | rfl | trivial), h.2.2⟩
  | failed e =>
    cases fb with
    | absent => simp only [Prod.mk.injEq] at h ⊢; exact ⟨h.1, (by first | rfl | trivial), h.2.2⟩
    | passThrough => simp only [Prod.mk.injEq] at h ⊢; exact ⟨h.1, (by first | rfl | trivial), h.2.2⟩
    | custom =>
      simp only [clearOut_res, clearOut_cancels, after_live_false] at h ⊢
      cases hr : fbOut.res with
      | ok x => simp only [hr, Prod.mk.injEq] at h ⊢; exact ⟨h.1, (by first | rfl | trivial), h.2.2⟩
      | error e' => simp only [hr, Prod.mk.injEq] at h ⊢; exact ⟨h.1, (by first | rfl | trivial), h.2.2⟩

/-! ### leaves -/

theorem prepOk_clear {kind n v sid cfg scr pev pv} (h : PrepOk kind n v sid cfg scr pev pv) :
    PrepOk kind n v sid cfg (clearLeaf scr) pev pv := by
  rcases h with h | ⟨h1, h2, _, x, hx, h4⟩
  · exact .inl h
  · exact .inr ⟨h1, h2, rfl, x, hx, h4⟩

theorem execPhase_clear {kind n v cfg scr pv aev c2 ares fev c3 eres}
    (h : ExecPhase kind n v cfg scr pv aev c2 ares fev c3 eres) (hnc : ∀ kd, ares ≠ .cancelled kd) :
    ExecPhase kind n v cfg (clearLeaf scr) pv aev .live ares fev .live eres := by
  obtain ⟨hA, hF⟩ := h
  constructor
  · have := attempts_cleared (kind := kind) (mkExec := fun k => Ev.exec n v k (execArg cfg.execS pv))
      (mkWait := fun k f => Ev.wait n v k cfg.effWait f) (exec := scr.exec) (waitCancel := scr.waitCancel)
      (execS := cfg.execS) (wait := cfg.effWait) 0 cfg.effBudget none .live
    rw [hA] at this
    exact this hnc
  · exact fallbackPhase_clear hF

theorem execPhase_not_cancelled {kind n v cfg scr pv aev c2 ares fev c3 eres}
    (h : ExecPhase kind n v cfg scr pv aev c2 ares fev c3 eres)
    (hok : c3 = .live ∨ ∃ ev, eres = .ok ev) : ∀ kd, ares ≠ .cancelled kd := by
  intro kd hk
  subst hk
  obtain ⟨hA, hF⟩ := h
  have hd := attempts_cancelled (kind := kind) (mkExec := fun k => Ev.exec n v k (execArg cfg.execS pv))
      (mkWait := fun k f => Ev.wait n v k cfg.effWait f) (exec := scr.exec) (waitCancel := scr.waitCancel)
      (execS := cfg.execS) (wait := cfg.effWait) 0 cfg.effBudget none .live
  rw [hA] at hd
  have hd := hd kd rfl
  simp only at hd
  rcases fallbackPhase_cases hF with ⟨x, hx, _⟩ | ⟨k, _, _, hc, he⟩ | ⟨e, hx, _⟩ | ⟨e, hx, _⟩
  · cases hx
  · rcases hok with hok | ⟨ev, hok⟩
    · rw [hc, hd] at hok; cases hok
    · rw [he] at hok; cases hok
  · cases hx
  · cases hx

theorem runLeaf_cleared {kind n v sid cfg scr evs c out}
    (h : runLeaf kind n v sid cfg scr .live = (evs, c, out)) (hok : c = .live ∨ ∃ a, out = .ok a) :
    runLeaf kind n v sid cfg (clearLeaf scr) .live = (evs, .live, out) := by
  cases leafShape_of_runLeaf h with
  | @prepErr e hne hr =>
    have hc : scr.prep.cancels = false := by
      rcases hok with hok | ⟨a, hok⟩
      · cases hcz : scr.prep.cancels with
        | false => rfl
        | true => rw [hcz] at hok; cases hok
      · cases hok
    cases hs : cfg.prepS
    case absent => exact absurd hs hne
    all_goals simp [runLeaf, hs, clearLeaf, hr, Except.map]
  | prepCancel hne hr hc =>
    rcases hok with hok | ⟨a, hok⟩
    · cases hok
    · cases hok
  | @execErr pev pv aev c2 ares fev c3 e hP hE =>
    have hl : c = .live := by
      rcases hok with hok | ⟨a, hok⟩
      · exact hok
      · cases hok
    have hnc := execPhase_not_cancelled hE (.inl hl)
    rw [runLeaf_body (prepOk_clear hP) (execPhase_clear hE hnc)]
    rfl
  | @noPost pev pv aev c2 ares fev c3 ev hP hE hpo =>
    have hnc := execPhase_not_cancelled hE (.inr ⟨ev, rfl⟩)
    rw [runLeaf_body (prepOk_clear hP) (execPhase_clear hE hnc)]
    simp [leafFinish, hpo]
  | @postErr pev pv aev c2 ares fev c3 ev e hP hE hpo hr =>
    have hnc := execPhase_not_cancelled hE (.inr ⟨ev, rfl⟩)
    rw [runLeaf_body (prepOk_clear hP) (execPhase_clear hE hnc)]
    cases hs : cfg.postS
    case absent => exact absurd hs hpo
    all_goals simp [leafFinish, hs, clearLeaf, hr]
  | @postOk pev pv aev c2 ares fev c3 ev a hP hE hpo hr =>
    have hnc := execPhase_not_cancelled hE (.inr ⟨ev, rfl⟩)
    rw [runLeaf_body (prepOk_clear hP) (execPhase_clear hE hnc)]
    cases hs : cfg.postS
    case absent => exact absurd hs hpo
    all_goals simp [leafFinish, hs, clearLeaf, hr]

/-! ### batch nodes -/

section batch
variable {env : Env} {n : NodeId} {v : Nat} {sid : StoreId} {cfg : BatchCfg}

theorem runItem_cleared {i : Nat} {item : Result}
    (hq : ∀ e ∈ (runItem env.kind n v cfg i item ((env.batchBeh n v).item i) .live).1, cancelsAt env e = false) :
    runItem env.kind n v cfg i item (clearItem ((env.batchBeh n v).item i)) .live =
      ((runItem env.kind n v cfg i item ((env.batchBeh n v).item i) .live).1, .live,
       (runItem env.kind n v cfg i item ((env.batchBeh n v).item i) .live).2.2) := by
  obtain ⟨aev, c1, ares, fev, c2, eres, hA, hF, hR⟩ :=
    runItem_eq env.kind n v cfg i item ((env.batchBeh n v).item i) .live
  rw [hR] at hq ⊢
  have hc := attempts_cancel (kind := env.kind) (mkExec := fun k => Ev.bexec n v i k (execArg cfg.execS item.box))
    (mkWait := fun k f => Ev.bwait n v i k cfg.wait f) (exec := ((env.batchBeh n v).item i).exec)
    (waitCancel := ((env.batchBeh n v).item i).waitCancel) (execS := cfg.execS) (wait := cfg.wait)
    (cancelsAt env) (fun _ => cz_bexec) (fun _ _ => cz_bwait) 0 cfg.budget none .live
  rw [hA] at hc
  have hnc := (hc.2.2.1 rfl (fun e he => hq e (by simp [he]))).2
  have hA' := attempts_cleared (kind := env.kind) (mkExec := fun k => Ev.bexec n v i k (execArg cfg.execS item.box))
    (mkWait := fun k f => Ev.bwait n v i k cfg.wait f) (exec := ((env.batchBeh n v).item i).exec)
    (waitCancel := ((env.batchBeh n v).item i).waitCancel) (execS := cfg.execS) (wait := cfg.wait)
    0 cfg.budget none .live
  rw [hA] at hA'
  have hA' := hA' hnc
  have hF' := fallbackPhase_clear hF
  simp only [runItem, clearItem, hA', hF']
  cases eres <;> rfl

theorem itemsSeq_cleared (items : List Result) (i : Nat) :
    (∀ e ∈ (itemsSeq env.kind n v cfg (env.batchBeh n v) items i .live).1, cancelsAt env e = false) →
    itemsSeq env.kind n v cfg (clearBatch (env.batchBeh n v)) items i .live =
      ((itemsSeq env.kind n v cfg (env.batchBeh n v) items i .live).1, .live,
       (itemsSeq env.kind n v cfg (env.batchBeh n v) items i .live).2.2) := by
  induction items generalizing i with
  | nil => intro _; simp [itemsSeq]
  | cons it rest ih =>
    intro hq
    have hi := runItem_cleared (env := env) (n := n) (v := v) (cfg := cfg) (i := i) (item := it)
    have ht := runItem_track (env := env) (n := n) (v := v) (cfg := cfg) (i := i) (item := it) (ctx := .live)
    have hci : (clearBatch (env.batchBeh n v)).item i = clearItem ((env.batchBeh n v).item i) := rfl
    simp only [itemsSeq, hci] at hq ⊢
    generalize hr : runItem env.kind n v cfg i it ((env.batchBeh n v).item i) .live = res at hq hi ht ⊢
    obtain ⟨ev1, ctx1, r⟩ := res
    simp only at hq hi ht ⊢
    cases r with
    | error e =>
      simp only at hq ⊢
      cases hst : cfg.stop with
      | true =>
        simp only [hst, if_true] at hq ⊢
        rw [hi hq]
      | false =>
        simp only [hst, Bool.false_eq_true, if_false] at hq ⊢
        have h1 : ∀ e ∈ ev1, cancelsAt env e = false := fun e he => hq e (by simp [he])
        have hl : ctx1 = .live := ht.quiet rfl h1
        subst hl
        rw [hi h1]
        simp only
        rw [ih (i + 1) (fun e he => hq e (by simp [he]))]
    | slot s =>
      simp only at hq ⊢
      have h1 : ∀ e ∈ ev1, cancelsAt env e = false := fun e he => hq e (by simp [he])
      have hl : ctx1 = .live := ht.quiet rfl h1
      subst hl
      rw [hi h1]
      simp only
      rw [ih (i + 1) (fun e he => hq e (by simp [he]))]

theorem itemsSerialPool_cleared (items : List Result) (i : Nat) (stopped : Bool) :
    (∀ e ∈ (itemsSerialPool env.kind n v cfg (env.batchBeh n v) items i stopped .live).1, cancelsAt env e = false) →
    itemsSerialPool env.kind n v cfg (clearBatch (env.batchBeh n v)) items i stopped .live =
      ((itemsSerialPool env.kind n v cfg (env.batchBeh n v) items i stopped .live).1, .live,
       (itemsSerialPool env.kind n v cfg (env.batchBeh n v) items i stopped .live).2.2) := by
  induction items generalizing i stopped with
  | nil => intro _; simp [itemsSerialPool]
  | cons it rest ih =>
    intro hq
    have hi := runItem_cleared (env := env) (n := n) (v := v) (cfg := cfg) (i := i) (item := it)
    have ht := runItem_track (env := env) (n := n) (v := v) (cfg := cfg) (i := i) (item := it) (ctx := .live)
    have hci : (clearBatch (env.batchBeh n v)).item i = clearItem ((env.batchBeh n v).item i) := rfl
    simp only [itemsSerialPool, hci] at hq ⊢
    by_cases hs : stopped = true ∧ cfg.stop = true
    · obtain ⟨rfl, hs2⟩ := hs
      simp only [hs2, and_self, if_true] at hq ⊢
      rw [ih (i + 1) true hq]
    · simp only [hs, if_false] at hq ⊢
      generalize hr : runItem env.kind n v cfg i it ((env.batchBeh n v).item i) .live = res at hq hi ht ⊢
      obtain ⟨ev1, ctx1, r⟩ := res
      simp only at hq hi ht ⊢
      have h1 : ∀ e ∈ ev1, cancelsAt env e = false := by
        intro e he; cases r <;> exact hq e (by simp [he])
      have hl : ctx1 = .live := ht.quiet rfl h1
      subst hl
      rw [hi h1]
      cases r with
      | error e =>
        simp only at hq ⊢
        rw [ih (i + 1) _ (fun e he => hq e (by simp [he]))]
      | slot s =>
        simp only at hq ⊢
        rw [ih (i + 1) _ (fun e he => hq e (by simp [he]))]

theorem batchItems_cleared {items : List Result} {iev c2 slots}
    (h : batchItems env.kind n v cfg (env.batchBeh n v) items .live = (iev, c2, slots))
    (hq : ∀ e ∈ iev, cancelsAt env e = false) :
    batchItems env.kind n v cfg (clearBatch (env.batchBeh n v)) items .live = (iev, .live, slots) := by
  unfold batchItems at h ⊢
  split
  · rename_i hc
    simp only [hc, if_true] at h
    rw [itemsSerialPool_cleared items 0 false (by rw [h]; exact hq), h]
  · rename_i hc
    simp only [hc, if_false] at h
    rw [itemsSeq_cleared items 0 (by rw [h]; exact hq), h]

/-- what `runBatch` does once the items have been processed -/
def batchFinish (kind : CtxKind) (n : NodeId) (v : Nat) (sid : StoreId) (cfg : BatchCfg) (scr : BatchScript)
    (l : List Val) (iev : List Ev) (c2 : Ctx) (slots : List Result) : List Ev × Ctx × Outcome :=
  if cfg.hasPost then
    match scr.post.res with
    | .error e => ([.bprep n v sid] ++ iev ++
        [.bpost n v sid ((normItems cfg.shape l).map Result.box) (slots.map Result.box)],
        c2.after kind scr.post.cancels, .err (.user e))
    | .ok a => ([.bprep n v sid] ++ iev ++
        [.bpost n v sid ((normItems cfg.shape l).map Result.box) (slots.map Result.box)],
        c2.after kind scr.post.cancels, .ok (norm a))
  else ([.bprep n v sid] ++ iev, c2, .ok defaultAction)

theorem runBatch_body {kind : CtxKind} {scr : BatchScript} {ctx : Ctx} {l iev c2 slots}
    (hr : scr.prep.res = .ok l)
    (hbi : batchItems kind n v cfg scr (normItems cfg.shape l) (ctx.after kind scr.prep.cancels) = (iev, c2, slots)) :
    runBatch kind n v sid cfg scr ctx = batchFinish kind n v sid cfg scr l iev c2 slots := by
  unfold runBatch batchFinish
  dsimp only
  simp only [hr]
  by_cases hem : (normItems cfg.shape l).isEmpty = true
  · have hnil : normItems cfg.shape l = [] := List.isEmpty_iff.mp hem
    rw [hnil, batchItems_nil] at hbi
    simp only [Prod.mk.injEq] at hbi
    obtain ⟨rfl, rfl, rfl⟩ := hbi
    simp only [hnil]
    cases cfg.hasPost <;> simp
    cases scr.post.res <;> rfl
  · unfold batchItems at hbi
    simp only [hem, hbi]
    cases cfg.hasPost <;> simp
    cases scr.post.res <;> rfl

theorem runBatch_cleared {evs c out}
    (h : runBatch env.kind n v sid cfg (env.batchBeh n v) .live = (evs, c, out))
    (hq : ∀ e ∈ evs, cancelsAt env e = false) :
    runBatch env.kind n v sid cfg (clearBatch (env.batchBeh n v)) .live = (evs, .live, out) := by
  have hprep : Ev.bprep n v sid ∈ evs → (env.batchBeh n v).prep.cancels = false := by
    intro ht
    have := hq (.bprep n v sid) ht
    rwa [cz_bprep] at this
  cases batchShape_of_runBatch h with
  | @prepErr e hr => simp [runBatch, clearBatch, hr]
  | @noPost l iev c2 slots hr hbi hp =>
    have hpc := hprep (by simp)
    rw [hpc, after_live_false] at hbi
    have hbi' := batchItems_cleared hbi (fun e he => hq e (by simp [he]))
    rw [runBatch_body (scr := clearBatch (env.batchBeh n v)) (l := l) (by simpa [clearBatch] using hr)
      (by simpa [clearBatch] using hbi')]
    simp [batchFinish, hp]
  | @postErr l iev c2 slots e hr hbi hp hpr =>
    have hpc := hprep (by simp)
    rw [hpc, after_live_false] at hbi
    have hbi' := batchItems_cleared hbi (fun e he => hq e (by simp [he]))
    rw [runBatch_body (scr := clearBatch (env.batchBeh n v)) (l := l) (by simpa [clearBatch] using hr)
      (by simpa [clearBatch] using hbi')]
    simp [batchFinish, hp, clearBatch, hpr]
  | @postOk l iev c2 slots a hr hbi hp hpr =>
    have hpc := hprep (by simp)
    rw [hpc, after_live_false] at hbi
    have hbi' := batchItems_cleared hbi (fun e he => hq e (by simp [he]))
    rw [runBatch_body (scr := clearBatch (env.batchBeh n v)) (l := l) (by simpa [clearBatch] using hr)
      (by simpa [clearBatch] using hbi')]
    simp [batchFinish, hp, clearBatch, hpr]

end batch

/-! ### whole runs -/

theorem leafStep_cleared {env : Env} {id sid cfg st evs st' out}
    (h : leafStep env id sid cfg st = (evs, st', out)) (hc : st.ctx = .live)
    (hok : st'.ctx = .live ∨ ∃ a, out = .ok a) :
    leafStep (clearEnv env) id sid cfg st = (evs, relive st', out) := by
  have hr := leafStep_ctx h
  rw [hc] at hr
  have hr' := runLeaf_cleared hr hok
  simp only [leafStep, Prod.mk.injEq] at h
  obtain ⟨h1, h2, h3⟩ := h
  have hk : (clearEnv env).kind = env.kind := rfl
  have hb : (clearEnv env).leafBeh id (st.visits id) = clearLeaf (env.leafBeh id (st.visits id)) := rfl
  rw [hc] at h1 h2 h3
  subst h2
  simp only [leafStep, hk, hb, hc, hr', relive, h1]

theorem batchStep_cleared {env : Env} {id sid cfg st evs st' out}
    (h : batchStep env id sid cfg st = (evs, st', out)) (hc : st.ctx = .live)
    (hq : ∀ e ∈ evs, cancelsAt env e = false) :
    batchStep (clearEnv env) id sid cfg st = (evs, relive st', out) := by
  have hr := batchStep_ctx h
  rw [hc] at hr
  have hr' := runBatch_cleared hr hq
  simp only [batchStep, Prod.mk.injEq] at h
  obtain ⟨h1, h2, h3⟩ := h
  have hk : (clearEnv env).kind = env.kind := rfl
  have hb : (clearEnv env).batchBeh id (st.visits id) = clearBatch (env.batchBeh id (st.visits id)) := rfl
  rw [hc] at h1 h2 h3
  subst h2
  simp only [batchStep, hk, hb, hc, hr', relive, h1]

/-- **a run that was not cut short is the run of the scenario without cancellation**: if it ends on a live
    context, or returns an action, and no batch-node callback cancelled, then the same derivation exists in
    `clearEnv env`, with the same events, visit counters and outcome. -/
theorem big_cleared {env : Env} {sid task st evs st' r} (h : Big env sid task st evs st' r) :
    st.ctx = .live → (∀ e ∈ evs, Spec.isBatchEv e = true → cancelsAt env e = false) →
    (st'.ctx = .live ∨ ∃ a, r = .ok a) → Big (clearEnv env) sid task st evs (relive st') r := by
  induction h with
  | @leaf id cfg st evs st' out hA h =>
    intro hc _ hok
    exact .leaf (cfg := cfg) hA (leafStep_cleared h hc hok)
  | @batch id cfg st evs st' out hA h =>
    intro hc hq _
    refine .batch (cfg := cfg) hA (batchStep_cleared h hc ?_)
    intro e he
    exact hq e he (runBatch_mem (batchStep_ctx h) e he).isBatch
  | flowDone hA hc' => intro hc; rw [hc] at hc'; cases hc'
  | @flowNoStart id ops st hA hc' =>
    intro hc _ _
    rw [relive_of_live hc]
    exact .flowNoStart (ops := ops) hA hc
  | @flowOk id s ops st evs st' a hA hc' _ ih =>
    intro hc hq _
    exact .flowOk (s := s) (ops := ops) hA hc (ih hc hq (.inr ⟨a, rfl⟩))
  | @flowFail id s ops st evs st' r hA hc' _ hne ih =>
    intro hc hq hok
    exact .flowFail (s := s) (ops := ops) hA hc (ih hc hq hok) hne
  | loopDone hc' => intro hc; rw [hc] at hc'; cases hc'
  | @loopStop ops cur st evs st' a hc' _ hnx ih =>
    intro hc hq _
    exact .loopStop hc (ih hc hq (.inr ⟨a, rfl⟩)) hnx
  | @loopStep ops cur st evs st' a nxt evs2 st'' r hc' h1 hnx h2 ih1 ih2 =>
    intro hc hq hok
    have hl1 : st'.ctx = .live := by
      cases hctx : st'.ctx with
      | live => rfl
      | done k =>
        obtain ⟨_, hst, hr⟩ := big_done h2 hctx (by intro id cfg ht; cases ht)
        rcases hok with hok | ⟨b, hok⟩
        · rw [hst, hctx] at hok; cases hok
        · rw [hr] at hok; cases hok
    have b1 := ih1 hc (fun e he => hq e (by simp [he])) (.inl hl1)
    rw [relive_of_live hl1] at b1
    exact .loopStep hc b1 hnx (ih2 hl1 (fun e he => hq e (by simp [he])) hok)
  | @loopFail ops cur st evs st' r hc' _ hne ih =>
    intro hc hq hok
    exact .loopFail hc (ih hc hq hok) hne

end Flyt.Proofs
