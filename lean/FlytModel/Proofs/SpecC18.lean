import FlytModel.Proofs.SpecC03
/-!
# Bridge to `Spec.c18Followed` (C18's last clause on flat root flows: a connection on the default action is followed)

`FollowedKeys env ops ks`: along the visit sequence `ks`, EVERY visit that returns an action `a` (not only the
default action) for which the table has a successor is followed by a visit of that successor.
`specPath_followed`: the reference path `Spec.specPath` has this property whenever its fuel did not run out;
`flat_run_keys`: the visit sequence of a run of the model on a flat flow is that reference path, for every fuel
that suffices (the content of `spec_c03_of_run`, with the bound on the length made visible).
-/
namespace Flyt.Proofs
open Flyt

/-- every connection is followed along a visit sequence: a visit `(n, v)` that returns action `a`, with `(n, a)`
    connected to `d`, is not the last one and the next visit is of `d` -/
def FollowedKeys (env : Env) (ops : List ConnOp) (ks : List (NodeId × Nat)) : Prop :=
  ∀ i, i < ks.length → ∀ a d, Spec.visitAction env (ks.getD i (0, 0)).1 (ks.getD i (0, 0)).2 = some a →
    next ops (ks.getD i (0, 0)).1 a = some (some d) → i + 1 < ks.length ∧ (ks.getD (i + 1) (0, 0)).1 = d

theorem followedKeys_single {env : Env} {ops : List ConnOp} {n : NodeId} {v : Nat}
    (h : ∀ a d, Spec.visitAction env n v = some a → next ops n a ≠ some (some d)) :
    FollowedKeys env ops [(n, v)] := by
  intro i hi a d ha hx
  have hi0 : i = 0 := by simpa using hi
  subst hi0
  exact absurd hx (h a d ha)

theorem followedKeys_cons {env : Env} {ops : List ConnOp} {n : NodeId} {v : Nat} {a : Action} {nxt : NodeId} {w : Nat}
    {t : List (NodeId × Nat)} (ha : Spec.visitAction env n v = some a) (hx : next ops n a = some (some nxt))
    (ht : FollowedKeys env ops ((nxt, w) :: t)) : FollowedKeys env ops ((n, v) :: (nxt, w) :: t) := by
  intro i hi a' d ha' hx'
  cases i with
  | zero =>
    simp only [List.getD_cons_zero] at ha' hx'
    rw [ha] at ha'; cases ha'
    rw [hx] at hx'; cases hx'
    exact ⟨by simp, rfl⟩
  | succ j =>
    simp only [List.getD_cons_succ] at ha' hx'
    have hj : j < ((nxt, w) :: t).length := by simpa using hi
    obtain ⟨h1, h2⟩ := ht j hj a' d ha' hx'
    refine ⟨by simpa using h1, ?_⟩
    simpa only [List.getD_cons_succ] using h2

/-- the reference path starts with the current node at its current visit number -/
theorem specPath_head (env : Env) (ops : List ConnOp) (F : Nat) (cur : NodeId) (vis : NodeId → Nat) :
    ∃ t, (Spec.specPath env ops (F + 1) cur vis).1 = (cur, vis cur) :: t := by
  cases hact : Spec.visitAction env cur (vis cur) with
  | none => exact ⟨[], by simp [Spec.specPath, hact]⟩
  | some a =>
    cases hx : next ops cur a with
    | none => exact ⟨[], by simp [Spec.specPath, hact, hx]⟩
    | some x =>
      cases x with
      | none => exact ⟨[], by simp [Spec.specPath, hact, hx]⟩
      | some nxt =>
        exact ⟨(Spec.specPath env ops F nxt (fun m => if m = cur then vis m + 1 else vis m)).1, by
          simp only [Spec.specPath, hact, hx]⟩

/-- **along the reference path every connection is followed**, when its fuel did not run out -/
theorem specPath_followed (env : Env) (ops : List ConnOp) : ∀ (F : Nat) (cur : NodeId) (vis : NodeId → Nat),
    (Spec.specPath env ops F cur vis).1.length < F → FollowedKeys env ops (Spec.specPath env ops F cur vis).1
  | 0, _, _, h => by simp at h
  | F + 1, cur, vis, h => by
    cases hact : Spec.visitAction env cur (vis cur) with
    | none =>
      have hp : (Spec.specPath env ops (F + 1) cur vis).1 = [(cur, vis cur)] := by simp [Spec.specPath, hact]
      rw [hp]
      exact followedKeys_single (by intro a d ha; rw [hact] at ha; cases ha)
    | some a =>
      have stop : (∀ d, next ops cur a ≠ some (some d)) →
          (Spec.specPath env ops (F + 1) cur vis).1 = [(cur, vis cur)] := by
        intro hn
        cases hx : next ops cur a with
        | none => simp [Spec.specPath, hact, hx]
        | some x =>
          cases x with
          | none => simp [Spec.specPath, hact, hx]
          | some nxt => exact absurd hx (hn nxt)
      cases hx : next ops cur a with
      | none =>
        rw [stop (by simp [hx])]
        exact followedKeys_single (by intro a' d ha; rw [hact] at ha; cases ha; simp [hx])
      | some x =>
        cases x with
        | none =>
          rw [stop (by simp [hx])]
          exact followedKeys_single (by intro a' d ha; rw [hact] at ha; cases ha; simp [hx])
        | some nxt =>
          have hp : (Spec.specPath env ops (F + 1) cur vis).1 =
              (cur, vis cur) :: (Spec.specPath env ops F nxt (fun m => if m = cur then vis m + 1 else vis m)).1 := by
            simp only [Spec.specPath, hact, hx]
          rw [hp] at h ⊢
          have hlen : (Spec.specPath env ops F nxt (fun m => if m = cur then vis m + 1 else vis m)).1.length < F := by
            simpa using h
          have ih := specPath_followed env ops F nxt _ hlen
          cases F with
          | zero => simp at hlen
          | succ F' =>
            obtain ⟨t, ht⟩ := specPath_head env ops F' nxt (fun m => if m = cur then vis m + 1 else vis m)
            rw [ht] at ih ⊢
            exact followedKeys_cons hact hx ih

/-- **the visit sequence of a run of the model on a flat flow** (no cancellation, store 0) **is the reference path
    for every fuel that is at least its length — which is smaller than the fuel of the run** -/
theorem flat_run_keys (env : Env) (fuel : Nat) (root : NodeId) (st : RunSt) {evs st' out s ops}
    (hprep : ∀ n cfg, env.arena n = .leaf cfg → cfg.prepS ≠ .absent)
    (hlive : st.ctx = .live) (h : runNode env fuel root 0 st = (evs, st', out)) (hfuel : out ≠ .fuel)
    (hnc : ∀ e ∈ evs, cancelsAt env e = false)
    (hA : env.arena root = .flow (some s) ops) (hflat : Spec.isFlatFlow env ops s = true) :
    (Spec.visitSeq (Spec.noWaits evs)).length < fuel ∧
    ∀ F, (Spec.visitSeq (Spec.noWaits evs)).length ≤ F →
      (Spec.specPath env ops F s st.visits).1 = Spec.visitSeq (Spec.noWaits evs) := by
  obtain ⟨hs, hdst⟩ := flatNode_of_isFlat hprep hflat
  have hfin : st'.ctx = .live := (big_track (big_of_runNode h hfuel)).quiet hlive hnc
  cases fuel with
  | zero => simp [runNode] at h; exact absurd h.2.2.symm hfuel
  | succ f =>
    simp only [runNode, hA, hlive] at h
    cases hl : flowLoop env f (buildTable ops) s 0 st with
    | mk evs1 p1 =>
      obtain ⟨st1, r1⟩ := p1
      rw [hl] at h
      have hr1 : r1 ≠ .fuel := by
        intro hf; subst hf; simp only at h; cases h; exact hfuel rfl
      obtain ⟨vs, hlen, hp, he, hg⟩ := path_of_flowLoop f ops s st evs1 st1 r1 hl hr1
      have hsame : evs1 = evs ∧ st1 = st' := by
        cases r1 <;> (simp only at h; cases h; exact ⟨rfl, rfl⟩)
      obtain ⟨rfl, rfl⟩ := hsame
      have hvne : vs ≠ [] := by
        intro h0; subst h0
        obtain ⟨_, k, hk, _⟩ := hp
        rw [hlive] at hk; cases hk
      have hseq : Spec.visitSeq (Spec.noWaits evs1) = vs.map vkey := by
        obtain ⟨_, j2, j3, _⟩ := spec_of_isPath hdst vs s st st1 r1 hp hs hvne hfin hg vs.length (Nat.le_refl _)
        simp only [Spec.visitSeq, noWaits_idem]
        rw [he, noWaits_flatMap, segments_blocks _ j3 j2, List.map_map]
        apply List.map_congr_left; intro v _; rfl
      rw [hseq]
      refine ⟨by simp; omega, fun F hF => ?_⟩
      obtain ⟨j1, _⟩ := spec_of_isPath hdst vs s st st1 r1 hp hs hvne hfin hg F (by simpa using hF)
      rw [j1]

/-- `Spec.c18Followed` from `FollowedKeys` of the observed visit sequence -/
theorem c18Followed_of_keys {env : Env} {root : NodeId} {s : NodeId} {ops : List ConnOp} {o : Spec.RunObs}
    (hA : env.arena root = .flow (some s) ops) (hk : FollowedKeys env ops (Spec.visitSeq o.trace)) :
    Spec.c18Followed env root o = true := by
  unfold Spec.c18Followed
  simp only [hA]
  split
  · rw [List.all_eq_true]
    intro i hi
    have hi' : i < (Spec.visitSeq o.trace).length := by simpa using hi
    have hki := hk i hi'
    generalize (Spec.visitSeq o.trace).getD i (0, 0) = kv at hki
    obtain ⟨n, v⟩ := kv
    simp only
    cases hact : Spec.visitAction env n v with
    | none => rfl
    | some a =>
      simp only
      split
      · cases hx : next ops n a with
        | none => rfl
        | some x =>
          cases x with
          | none => rfl
          | some d =>
            obtain ⟨h1, h2⟩ := hki a d hact hx
            rw [← List.getElem_eq_getD (h := h1)] at h2
            simp [h1, h2]
      · rfl
  · rfl

/-- **C18's last clause as the driver evaluates it** (`Spec.c18Followed`: flat flow, no cancellation, store 0) on
    the model's own observation; `store` is whatever the driver records there. -/
theorem spec_c18Followed_of_run (env : Env) (fuel : Nat) (root : NodeId) (st : RunSt) {evs st' out}
    (hprep : ∀ n cfg, env.arena n = .leaf cfg → cfg.prepS ≠ .absent)
    (hlive : st.ctx = .live) (h : runNode env fuel root 0 st = (evs, st', out)) (hfuel : out ≠ .fuel)
    (hnc : ∀ e ∈ evs, cancelsAt env e = false) (store : List Nat) :
    Spec.c18Followed env root ⟨Spec.noWaits evs, out, store⟩ = true := by
  cases hA : env.arena root with
  | leaf cfg => simp [Spec.c18Followed, hA]
  | batch cfg => simp [Spec.c18Followed, hA]
  | flow start ops =>
    cases start with
    | none => simp [Spec.c18Followed, hA]
    | some s =>
      by_cases hflat : Spec.isFlatFlow env ops s = true
      · apply c18Followed_of_keys hA
        obtain ⟨hlt, hF⟩ := flat_run_keys env fuel root st hprep hlive h hfuel hnc hA hflat
        show FollowedKeys env ops (Spec.visitSeq (Spec.noWaits evs))
        have := specPath_followed env ops ((Spec.visitSeq (Spec.noWaits evs)).length + 1) s st.visits
          (by rw [hF _ (Nat.le_succ _)]; exact Nat.lt_succ_self _)
        rwa [hF _ (Nat.le_succ _)] at this
      · simp [Spec.c18Followed, hA, hflat]

end Flyt.Proofs
