import FlytModel.Proofs.Events
/-!
# Cancellation (helper lemmas for C05)

* `cancelsAt env e` — the callback invocation recorded as `e` cancels the run's context (script flag), or `e`
  is a wait that was cut short by an asynchronous cancellation.
* `CtxTrack` — how the context evolves along a trace: done stays done; live stays live iff no event cancels.
* `CancelTail` — after a cancelling event only the fallback / post of the very same visit (or further events
  of the same batch node) follow.
-/
namespace Flyt.Proofs
open Flyt

def cancelsAt (env : Env) (e : Ev) : Bool :=
  Spec.scriptCancels env e ||
    (match e with | .wait _ _ _ _ f => !f | .bwait _ _ _ _ _ f => !f | _ => false)

structure CtxTrack (cz : Ev → Bool) (kind : CtxKind) (c0 : Ctx) (evs : List Ev) (c1 : Ctx) : Prop where
  done : ∀ kd, c0 = .done kd → c1 = .done kd
  quiet : c0 = .live → (∀ e ∈ evs, cz e = false) → c1 = .live
  hit : c0 = .live → ∀ e ∈ evs, cz e = true → c1 = .done kind

theorem after_false (c : Ctx) (kind : CtxKind) : c.after kind false = c := by cases c <;> rfl

theorem CtxTrack.nil {cz kind c} : CtxTrack cz kind c [] c :=
  ⟨fun _ h => h, fun h _ => h, fun _ e he => by cases he⟩

theorem CtxTrack.single {cz : Ev → Bool} {kind c e b} (h : cz e = b) : CtxTrack cz kind c [e] (c.after kind b) := by
  refine ⟨?_, ?_, ?_⟩
  · intro kd hc; subst hc; rfl
  · intro hc hq; subst hc
    have : cz e = false := hq e (by simp)
    rw [h] at this; subst this; rfl
  · intro hc a ha hz; subst hc
    simp at ha; subst ha
    rw [h] at hz; subst hz; rfl

theorem CtxTrack.append {cz : Ev → Bool} {kind c0 c1 c2 l1 l2} (h1 : CtxTrack cz kind c0 l1 c1)
    (h2 : CtxTrack cz kind c1 l2 c2) : CtxTrack cz kind c0 (l1 ++ l2) c2 := by
  refine ⟨?_, ?_, ?_⟩
  · intro kd hc; exact h2.done kd (h1.done kd hc)
  · intro hc hq
    exact h2.quiet (h1.quiet hc (fun e he => hq e (by simp [he]))) (fun e he => hq e (by simp [he]))
  · intro hc e he hz
    rw [List.mem_append] at he
    rcases he with he | he
    · exact h2.done _ (h1.hit hc e he hz)
    · by_cases hq : ∀ a ∈ l1, cz a = false
      · exact h2.hit (h1.quiet hc hq) e he hz
      · have : ∃ a ∈ l1, cz a = true := by
          apply Classical.byContradiction
          intro hn
          apply hq
          intro a ha
          cases hc' : cz a with
          | false => rfl
          | true => exact absurd ⟨a, ha, hc'⟩ hn
        obtain ⟨a, ha, hza⟩ := this
        exact h2.done _ (h1.hit hc a ha hza)

/-- the context after a trace: live, or done with the run's own kind (when it started live) -/
theorem CtxTrack.live_or_done {cz : Ev → Bool} {kind c1 l} (h : CtxTrack cz kind .live l c1) :
    c1 = .live ∨ c1 = .done kind := by
  by_cases hq : ∀ a ∈ l, cz a = false
  · exact .inl (h.quiet rfl hq)
  · right
    have : ∃ a ∈ l, cz a = true := by
      apply Classical.byContradiction
      intro hn
      apply hq
      intro a ha
      cases hc' : cz a with
      | false => rfl
      | true => exact absurd ⟨a, ha, hc'⟩ hn
    obtain ⟨a, ha, hza⟩ := this
    exact h.hit rfl a ha hza

section generic
variable {kind : CtxKind} {mkExec : Nat → Ev} {mkWait : Nat → Bool → Ev} {exec : Nat → Out Val}
  {waitCancel : Nat → Bool} {execS : Style} {wait : Nat}

theorem attempts_track (cz : Ev → Bool) (hE : ∀ j, cz (mkExec j) = (exec j).cancels)
    (hW : ∀ j b, cz (mkWait j b) = !b) {k rem last ctx evs c r}
    (h : attempts kind mkExec mkWait exec waitCancel execS wait k rem last ctx = (evs, c, r)) :
    CtxTrack cz kind ctx evs c := by
  have hc := attempts_cancel (kind := kind) (waitCancel := waitCancel) (execS := execS) (wait := wait)
    cz hE hW k rem last ctx
  rw [h] at hc
  obtain ⟨_, h2, h3, _⟩ := hc
  refine ⟨?_, ?_, ?_⟩
  · intro kd hd
    subst hd
    have := attempts_done (kind := kind) (mkExec := mkExec) (mkWait := mkWait) (exec := exec)
      (waitCancel := waitCancel) (execS := execS) (wait := wait) k rem last kd
    rw [h] at this
    exact this.2
  · intro hl hq; exact (h3 hl hq).1
  · intro _ e he hz; exact h2 e he hz

theorem fallbackPhase_track (cz : Ev → Bool) {fb mkFb} {fbOut : Out Val} (hF : ∀ e, cz (mkFb e) = fbOut.cancels)
    {ctx r fev c eres} (h : fallbackPhase kind fb mkFb fbOut ctx r = (fev, c, eres)) :
    CtxTrack cz kind ctx fev c := by
  rcases fallbackPhase_cases h with ⟨x, _, rfl, rfl, _⟩ | ⟨k, _, rfl, rfl, _⟩ | ⟨e, _, _, rfl, rfl, _⟩ |
      ⟨e, _, _, rfl, rfl, _⟩
  · exact .nil
  · exact .nil
  · exact .nil
  · exact .single (hF e)

end generic

/-! ### classifier facts for concrete events -/

section
variable {env : Env} {n : NodeId} {v : Nat} {sid : StoreId}

theorem cz_prep : cancelsAt env (.prep n v sid) = (env.leafBeh n v).prep.cancels := by
  simp [cancelsAt, Spec.scriptCancels]
theorem cz_exec {k a} : cancelsAt env (.exec n v k a) = ((env.leafBeh n v).exec k).cancels := by
  simp [cancelsAt, Spec.scriptCancels]
theorem cz_wait {k d f} : cancelsAt env (.wait n v k d f) = !f := by
  simp [cancelsAt, Spec.scriptCancels]
theorem cz_fb {a e} : cancelsAt env (.fb n v a e) = (env.leafBeh n v).fb.cancels := by
  simp [cancelsAt, Spec.scriptCancels]
theorem cz_post {a b} : cancelsAt env (.post n v sid a b) = (env.leafBeh n v).post.cancels := by
  simp [cancelsAt, Spec.scriptCancels]
theorem cz_bprep : cancelsAt env (.bprep n v sid) = (env.batchBeh n v).prep.cancels := by
  simp [cancelsAt, Spec.scriptCancels]
theorem cz_bexec {i k a} : cancelsAt env (.bexec n v i k a) = (((env.batchBeh n v).item i).exec k).cancels := by
  simp [cancelsAt, Spec.scriptCancels]
theorem cz_bwait {i k d f} : cancelsAt env (.bwait n v i k d f) = !f := by
  simp [cancelsAt, Spec.scriptCancels]
theorem cz_bfb {i a e} : cancelsAt env (.bfb n v i a e) = ((env.batchBeh n v).item i).fb.cancels := by
  simp [cancelsAt, Spec.scriptCancels]
theorem cz_bpost {a b} : cancelsAt env (.bpost n v sid a b) = (env.batchBeh n v).post.cancels := by
  simp [cancelsAt, Spec.scriptCancels]

/-! ### one leaf run -/

theorem prepOk_track {cfg pev pv} (h : PrepOk env.kind n v sid cfg (env.leafBeh n v) pev pv) :
    CtxTrack (cancelsAt env) env.kind .live pev .live ∧ ∀ e ∈ pev, cancelsAt env e = false := by
  rcases h with ⟨_, rfl, _⟩ | ⟨_, rfl, hc, _⟩
  · exact ⟨.nil, by simp⟩
  · have := CtxTrack.single (cz := cancelsAt env) (kind := env.kind) (c := .live) (e := .prep n v sid)
      (b := false) (by rw [cz_prep, hc])
    exact ⟨this, by intro e he; simp at he; subst he; rw [cz_prep, hc]⟩

theorem execPhase_track {cfg pv aev c2 ares fev c3 eres}
    (h : ExecPhase env.kind n v cfg (env.leafBeh n v) pv aev c2 ares fev c3 eres) :
    CtxTrack (cancelsAt env) env.kind .live aev c2 ∧ CtxTrack (cancelsAt env) env.kind c2 fev c3 :=
  ⟨attempts_track (cancelsAt env) (fun _ => cz_exec) (fun _ _ => cz_wait) h.1,
   fallbackPhase_track (cancelsAt env) (fun _ => cz_fb) h.2⟩

theorem runLeaf_track {cfg ctx evs c out}
    (h : runLeaf env.kind n v sid cfg (env.leafBeh n v) ctx = (evs, c, out)) :
    CtxTrack (cancelsAt env) env.kind ctx evs c := by
  cases ctx with
  | done k => rw [runLeaf_done] at h; cases h; exact .nil
  | live =>
    have post1 : ∀ {c3 a b}, CtxTrack (cancelsAt env) env.kind c3 [Ev.post n v sid a b]
        (c3.after env.kind (env.leafBeh n v).post.cancels) := fun {_ _ _} => .single cz_post
    cases leafShape_of_runLeaf h with
    | prepErr hne hr => exact .single cz_prep
    | prepCancel hne hr hc =>
      have := CtxTrack.single (cz := cancelsAt env) (kind := env.kind) (c := .live) (e := .prep n v sid)
        (b := true) (by rw [cz_prep, hc])
      exact this
    | execErr hP hE => exact ((prepOk_track hP).1.append (execPhase_track hE).1).append (execPhase_track hE).2
    | noPost hP hE _ => exact ((prepOk_track hP).1.append (execPhase_track hE).1).append (execPhase_track hE).2
    | postErr hP hE _ _ =>
      exact (((prepOk_track hP).1.append (execPhase_track hE).1).append (execPhase_track hE).2).append post1
    | postOk hP hE _ _ =>
      exact (((prepOk_track hP).1.append (execPhase_track hE).1).append (execPhase_track hE).2).append post1


/-! ### one batch-node run -/

theorem runItem_track {cfg : BatchCfg} {i item ctx} :
    CtxTrack (cancelsAt env) env.kind ctx
      (runItem env.kind n v cfg i item ((env.batchBeh n v).item i) ctx).1
      (runItem env.kind n v cfg i item ((env.batchBeh n v).item i) ctx).2.1 := by
  obtain ⟨aev, c1, ares, fev, c2, eres, hA, hF, hR⟩ :=
    runItem_eq env.kind n v cfg i item ((env.batchBeh n v).item i) ctx
  rw [hR]
  exact (attempts_track (cancelsAt env) (fun _ => cz_bexec) (fun _ _ => cz_bwait) hA).append
    (fallbackPhase_track (cancelsAt env) (fun _ => cz_bfb) hF)

theorem itemsSeq_track {cfg : BatchCfg} (items : List Result) (i : Nat) (ctx : Ctx) :
    CtxTrack (cancelsAt env) env.kind ctx
      (itemsSeq env.kind n v cfg (env.batchBeh n v) items i ctx).1
      (itemsSeq env.kind n v cfg (env.batchBeh n v) items i ctx).2.1 := by
  induction items generalizing i ctx with
  | nil => simp only [itemsSeq]; exact .nil
  | cons it rest ih =>
    have hi := runItem_track (env := env) (n := n) (v := v) (cfg := cfg) (i := i) (item := it) (ctx := .live)
    simp only [itemsSeq]
    cases ctx with
    | done k =>
      simp only
      split
      · exact .nil
      · exact ih _ _
    | live =>
      simp only
      split
      · split
        · exact hi
        · exact hi.append (ih _ _)
      · exact hi.append (ih _ _)

theorem itemsSerialPool_track {cfg : BatchCfg} (items : List Result) (i : Nat) (stopped : Bool) (ctx : Ctx) :
    CtxTrack (cancelsAt env) env.kind ctx
      (itemsSerialPool env.kind n v cfg (env.batchBeh n v) items i stopped ctx).1
      (itemsSerialPool env.kind n v cfg (env.batchBeh n v) items i stopped ctx).2.1 := by
  induction items generalizing i stopped ctx with
  | nil => simp only [itemsSerialPool]; exact .nil
  | cons it rest ih =>
    have hi := runItem_track (env := env) (n := n) (v := v) (cfg := cfg) (i := i) (item := it) (ctx := .live)
    simp only [itemsSerialPool]
    split
    · exact ih _ _ _
    · cases ctx with
      | done k => exact ih _ _ _
      | live =>
        simp only
        split
        · exact hi.append (ih _ _ _)
        · exact hi.append (ih _ _ _)

theorem batchItems_track {cfg : BatchCfg} {items ctx1 iev c2 slots}
    (h : batchItems env.kind n v cfg (env.batchBeh n v) items ctx1 = (iev, c2, slots)) :
    CtxTrack (cancelsAt env) env.kind ctx1 iev c2 := by
  unfold batchItems at h
  split at h
  · have := itemsSerialPool_track (env := env) (n := n) (v := v) (cfg := cfg) items 0 false ctx1
    rw [h] at this; exact this
  · have := itemsSeq_track (env := env) (n := n) (v := v) (cfg := cfg) items 0 ctx1
    rw [h] at this; exact this

theorem runBatch_track {cfg : BatchCfg} {ctx evs c out}
    (h : runBatch env.kind n v sid cfg (env.batchBeh n v) ctx = (evs, c, out)) :
    CtxTrack (cancelsAt env) env.kind ctx evs c := by
  have pre1 : CtxTrack (cancelsAt env) env.kind ctx [Ev.bprep n v sid]
      (ctx.after env.kind (env.batchBeh n v).prep.cancels) := .single cz_bprep
  have post1 : ∀ {c3 a b}, CtxTrack (cancelsAt env) env.kind c3 [Ev.bpost n v sid a b]
      (c3.after env.kind (env.batchBeh n v).post.cancels) := fun {_ _ _} => .single cz_bpost
  cases batchShape_of_runBatch h with
  | prepErr hr => exact pre1
  | noPost hr hbi hp => exact pre1.append (batchItems_track hbi)
  | postErr hr hbi hp hpr => exact (pre1.append (batchItems_track hbi)).append post1
  | postOk hr hbi hp hpr => exact (pre1.append (batchItems_track hbi)).append post1

end

/-! ### whole runs -/

theorem big_track {env : Env} {sid task st evs st' r} (h : Big env sid task st evs st' r) :
    CtxTrack (cancelsAt env) env.kind st.ctx evs st'.ctx := by
  induction h with
  | leaf hA h => exact runLeaf_track (leafStep_ctx h)
  | batch hA h => exact runBatch_track (batchStep_ctx h)
  | flowDone => exact .nil
  | flowNoStart => exact .nil
  | flowOk _ _ _ ih => exact ih
  | flowFail _ _ _ _ ih => exact ih
  | loopDone => exact .nil
  | loopStop _ _ _ ih => exact ih
  | loopStep _ _ _ _ ih1 ih2 => exact ih1.append ih2
  | loopFail _ _ _ ih => exact ih

/-- a node that is not a batch node, or a loop, started on a done context does nothing -/
theorem big_done {env : Env} {sid task st evs st' r k} (h : Big env sid task st evs st' r) (hc : st.ctx = .done k)
    (hnb : ∀ id cfg, task = .node id → env.arena id ≠ .batch cfg) :
    evs = [] ∧ st' = st ∧ r = .err (.ctx k) := by
  cases h with
  | leaf hA h => rw [leafStep_done hc] at h; cases h; exact ⟨rfl, rfl, rfl⟩
  | batch hA h => exact absurd hA (hnb _ _ rfl)
  | flowDone _ hc' => rw [hc] at hc'; cases hc'; exact ⟨rfl, rfl, rfl⟩
  | flowNoStart _ hc' => rw [hc] at hc'; cases hc'
  | flowOk _ hc' _ => rw [hc] at hc'; cases hc'
  | flowFail _ hc' _ _ => rw [hc] at hc'; cases hc'
  | loopDone hc' => rw [hc] at hc'; cases hc'; exact ⟨rfl, rfl, rfl⟩
  | loopStop hc' _ _ => rw [hc] at hc'; cases hc'
  | loopStep hc' _ _ _ => rw [hc] at hc'; cases hc'
  | loopFail hc' _ _ => rw [hc] at hc'; cases hc'

/-! ### what may still follow a cancelling event -/

/-- fallback, post, or an event of a batch node -/
def lateEv (e : Ev) : Bool := Spec.isFbEv e || Spec.isPostEv e || Spec.isBatchEv e

/-- `e` may follow the cancelling event `c`: same node, same visit, and only a fallback / post
    (or a further event of the same batch node, whose items are judged by C11) -/
def TailRel (c e : Ev) : Prop := Spec.evKey e = Spec.evKey c ∧ lateEv e = true

/-- every event after a cancelling event is in `TailRel` to it -/
def CancelTail (cz : Ev → Bool) (evs : List Ev) : Prop :=
  evs.Pairwise (fun c e => cz c = true → TailRel c e)

theorem early_late {cz : Ev → Bool} {early late : List Ev} (h1 : early.Pairwise (fun c _ => cz c = false))
    (h2 : ∀ e ∈ late, lateEv e = true) :
    (early ++ late).Pairwise (fun c e => cz c = true → lateEv e = true) := by
  rw [List.pairwise_append]
  refine ⟨h1.imp (fun h hc => by rw [h] at hc; cases hc), ?_, fun _ _ b hb _ => h2 b hb⟩
  exact List.pairwise_of_forall_mem_list (fun _ _ b hb _ => h2 b hb)

section
variable {env : Env} {n : NodeId} {v : Nat} {sid : StoreId}

theorem leaf_early {cfg pev pv aev c2 ares fev c3 eres}
    (hP : PrepOk env.kind n v sid cfg (env.leafBeh n v) pev pv)
    (hE : ExecPhase env.kind n v cfg (env.leafBeh n v) pv aev c2 ares fev c3 eres) :
    (pev ++ aev).Pairwise (fun c _ => cancelsAt env c = false) ∧ ∀ e ∈ fev, lateEv e = true := by
  constructor
  · rw [List.pairwise_append]
    refine ⟨pairwise_of_all (prepOk_track hP).2, ?_, fun a ha _ _ => (prepOk_track hP).2 a ha⟩
    have := attempts_cancel (kind := env.kind) (mkExec := fun k => Ev.exec n v k (execArg cfg.execS pv))
      (mkWait := fun k f => Ev.wait n v k cfg.effWait f) (exec := (env.leafBeh n v).exec)
      (waitCancel := (env.leafBeh n v).waitCancel) (execS := cfg.execS) (wait := cfg.effWait)
      (cancelsAt env) (fun _ => cz_exec) (fun _ _ => cz_wait) 0 cfg.effBudget none .live
    rw [hE.1] at this
    exact this.1
  · intro e he
    obtain ⟨a, err, rfl⟩ := (execPhase_mem hE).2 e he
    rfl

theorem runLeaf_cancelTail {cfg ctx evs c out}
    (h : runLeaf env.kind n v sid cfg (env.leafBeh n v) ctx = (evs, c, out)) :
    CancelTail (cancelsAt env) evs := by
  have hm := runLeaf_mem h
  suffices hs : evs.Pairwise (fun c e => cancelsAt env c = true → lateEv e = true) by
    apply hs.imp_of_mem
    intro a b ha hb hab hc
    exact ⟨by rw [(hm a ha).key, (hm b hb).key], hab hc⟩
  cases ctx with
  | done k => rw [runLeaf_done] at h; cases h; simp
  | live =>
    cases leafShape_of_runLeaf h with
    | prepErr => simp
    | prepCancel => simp
    | execErr hP hE => exact early_late (leaf_early hP hE).1 (leaf_early hP hE).2
    | noPost hP hE _ => exact early_late (leaf_early hP hE).1 (leaf_early hP hE).2
    | postErr hP hE _ _ =>
      rw [List.append_assoc]
      apply early_late (leaf_early hP hE).1
      intro e he
      simp only [List.mem_append, List.mem_singleton] at he
      rcases he with he | rfl
      · exact (leaf_early hP hE).2 e he
      · rfl
    | postOk hP hE _ _ =>
      rw [List.append_assoc]
      apply early_late (leaf_early hP hE).1
      intro e he
      simp only [List.mem_append, List.mem_singleton] at he
      rcases he with he | rfl
      · exact (leaf_early hP hE).2 e he
      · rfl

theorem runBatch_cancelTail {cfg : BatchCfg} {scr ctx evs c out} {cz : Ev → Bool}
    (h : runBatch env.kind n v sid cfg scr ctx = (evs, c, out)) : CancelTail cz evs := by
  have hm := runBatch_mem h
  apply List.pairwise_of_forall_mem_list
  intro a ha b hb _
  refine ⟨by rw [(hm a ha).key, (hm b hb).key], ?_⟩
  simp [lateEv, (hm b hb).isBatch]

end

theorem big_cancelTail {env : Env} {sid task st evs st' r} (h : Big env sid task st evs st' r) :
    CancelTail (cancelsAt env) evs := by
  induction h with
  | leaf hA h => exact runLeaf_cancelTail (leafStep_ctx h)
  | batch hA h => exact runBatch_cancelTail (batchStep_ctx h)
  | flowDone => exact List.Pairwise.nil
  | flowNoStart => exact List.Pairwise.nil
  | flowOk _ _ _ ih => exact ih
  | flowFail _ _ _ _ ih => exact ih
  | loopDone => exact List.Pairwise.nil
  | loopStop _ _ _ ih => exact ih
  | @loopStep ops cur st evs st' a nxt evs2 st'' r hc h1 hnx h2 ih1 ih2 =>
    unfold CancelTail
    rw [List.pairwise_append]
    refine ⟨ih1, ih2, ?_⟩
    intro c hcm e he hz
    have hd := (big_track h1).hit hc c hcm hz
    have := (big_done h2 hd (by intro id cfg ht; cases ht)).1
    rw [this] at he; cases he
  | loopFail _ _ _ ih => exact ih

/-! ### a context error is reported only by a run whose context is done -/

theorem runLeaf_ctxErr {kind n v sid cfg scr ctx evs c k}
    (h : runLeaf kind n v sid cfg scr ctx = (evs, c, .err (.ctx k))) : c = .done k := by
  cases ctx with
  | done k' => rw [runLeaf_done] at h; cases h; rfl
  | live =>
    generalize ho : Outcome.err (ErrRoot.ctx k) = out at h
    cases leafShape_of_runLeaf h with
    | prepErr => cases ho
    | prepCancel => cases ho; rfl
    | @execErr pev pv aev c2 ares fev c3 e hP hE =>
      cases ho
      obtain ⟨hA, hF⟩ := hE
      rcases fallbackPhase_cases hF with ⟨x, _, _, _, he⟩ | ⟨k', rfl, _, rfl, he⟩ | ⟨e, _, _, _, _, he⟩ |
          ⟨e, _, _, _, _, he⟩
      · cases he
      · cases he
        have := attempts_cancelled (kind := kind) (mkExec := fun k => Ev.exec n v k (execArg cfg.execS pv))
          (mkWait := fun k f => Ev.wait n v k cfg.effWait f) (exec := scr.exec)
          (waitCancel := scr.waitCancel) (execS := cfg.execS) (wait := cfg.effWait) 0 cfg.effBudget none .live
        rw [hA] at this
        exact this _ rfl
      · cases he
      · split at he <;> cases he
    | noPost => cases ho
    | postErr => cases ho
    | postOk => cases ho

theorem runBatch_no_ctxErr {kind n v sid cfg scr ctx evs c k}
    (h : runBatch kind n v sid cfg scr ctx = (evs, c, .err (.ctx k))) : False := by
  generalize ho : Outcome.err (ErrRoot.ctx k) = out at h
  cases batchShape_of_runBatch h <;> cases ho

theorem big_ctxErr {env : Env} {sid task st evs st' r} (h : Big env sid task st evs st' r) :
    ∀ k, r = .err (.ctx k) → st'.ctx = .done k := by
  induction h with
  | leaf hA h => intro k hr; subst hr; exact runLeaf_ctxErr (leafStep_ctx h)
  | batch hA h => intro k hr; subst hr; exact (runBatch_no_ctxErr (batchStep_ctx h)).elim
  | flowDone _ hc => intro k hr; cases hr; exact hc
  | flowNoStart => intro k hr; cases hr
  | flowOk => intro k hr; cases hr
  | flowFail _ _ _ _ ih => exact ih
  | loopDone hc => intro k hr; cases hr; exact hc
  | loopStop => intro k hr; cases hr
  | loopStep _ _ _ _ _ ih2 => exact ih2
  | loopFail _ _ _ ih => exact ih

/-- a run started on a live context that reports a context error: some callback (or asynchronous cancel
    during a wait) cancelled the context, and the error is the run's own kind of context error -/
theorem big_ctxErr_live {env : Env} {sid task st evs st' r k} (h : Big env sid task st evs st' r)
    (hc : st.ctx = .live) (hr : r = .err (.ctx k)) :
    k = env.kind ∧ ∃ e ∈ evs, cancelsAt env e = true := by
  have hd := big_ctxErr h k hr
  have ht := big_track h
  have hex : ∃ e ∈ evs, cancelsAt env e = true := by
    apply Classical.byContradiction
    intro hn
    have : st'.ctx = .live := ht.quiet hc (by
      intro e he
      cases hz : cancelsAt env e with
      | false => rfl
      | true => exact absurd ⟨e, he, hz⟩ hn)
    rw [this] at hd; cases hd
  refine ⟨?_, hex⟩
  obtain ⟨e, he, hz⟩ := hex
  have := ht.hit hc e he hz
  rw [this] at hd
  cases hd; rfl

end Flyt.Proofs
