import FlytModel.Model.StoreConc
/-! # The RW-lock invariant: every critical section is atomic (proof) -/
namespace Flyt.StoreConc

variable {S : Type} {L : Type}

/-- The invariant. -/
structure Inv (σ : Sys S L) : Prop where
  /-- a writer inside is alone -/
  alone : ∀ t op r l p, σ.th t = .inside op r l p → op.mode = .W →
            ∀ u, u ≠ t → ∀ op' r' l' p', σ.th u ≠ .inside op' r' l' p'
  /-- writer: finishing its remaining steps yields the ghost state and the promised local -/
  wr : ∀ t op r l p, σ.th t = .inside op r l p → op.mode = .W →
            runBody r σ.s l = (σ.g, p)
  /-- no writer inside ⇒ real = ghost -/
  sync : ¬ σ.writerInside → σ.s = σ.g
  /-- reader: finishing its remaining steps on the current state yields the promised local; its steps are pure -/
  rd : ∀ t op r l p, σ.th t = .inside op r l p → op.mode = .R →
            (runBody r σ.s l).2 = p ∧ (∀ m ∈ r, ∀ s l, (m s l).1 = s)
  /-- finished threads returned what was promised at their linearisation point -/
  fin : ∀ t l p, σ.th t = .done l p → l = p


theorem upd_same (f : Nat → Th S L) (t v) : upd f t v t = v := by simp [upd]
theorem upd_other (f : Nat → Th S L) (t u v) (h : u ≠ t) : upd f t v u = f u := by simp [upd, h]

theorem runBody_pure_fst (r : List (Micro S L)) (hp : ∀ m ∈ r, ∀ s l, (m s l).1 = s) (s : S) (l : L) :
    (runBody r s l).1 = s := by
  induction r generalizing s l with
  | nil => rfl
  | cons m r ih =>
    have h1 := hp m (by simp) s l
    simp only [runBody_cons]
    rw [ih (fun m' hm' => hp m' (by simp [hm'])) , h1]

theorem step_preserves (σ σ' : Sys S L) (hI : Inv σ) (hs : Step σ σ') : Inv σ' := by
  cases hs with
  | invoke t op h =>
    have hne : ∀ u op' r' l' p', upd σ.th t (Th.waiting op) u = .inside op' r' l' p' → σ.th u = .inside op' r' l' p' := by
      intro u op' r' l' p' hu
      by_cases hut : u = t
      · subst hut; simp [upd_same] at hu
      · rwa [upd_other _ _ _ _ hut] at hu
    refine ⟨?_, ?_, ?_, ?_, ?_⟩ <;> dsimp only
    · intro t' op' r l p h1 hm u hu op'' r' l' p' h2
      exact hI.alone t' op' r l p (hne _ _ _ _ _ h1) hm u hu op'' r' l' p' (hne _ _ _ _ _ h2)
    · intro t' op' r l p h1 hm
      exact hI.wr t' op' r l p (hne _ _ _ _ _ h1) hm
    · intro hw
      apply hI.sync
      rintro ⟨t', op', r, l, p, h1, hm⟩
      apply hw
      refine ⟨t', op', r, l, p, ?_, hm⟩
      have : t' ≠ t := by rintro rfl; simp [h] at h1
      simpa [upd_other _ _ _ _ this] using h1
    · intro t' op' r l p h1 hm
      exact hI.rd t' op' r l p (hne _ _ _ _ _ h1) hm
    · intro t' l p h1
      by_cases hut : t' = t
      · subst hut; simp [upd_same] at h1
      · rw [upd_other _ _ _ _ hut] at h1; exact hI.fin t' l p h1
  | acquireW t op h hm free =>
    -- nobody is inside before; afterwards only t is
    have nobody : ∀ u op' r' l' p', σ.th u ≠ .inside op' r' l' p' := by
      intro u op' r' l' p' hu; exact free ⟨u, op', r', l', p', hu⟩
    have hsg : σ.s = σ.g := hI.sync (by rintro ⟨u, op', r', l', p', hu, _⟩; exact nobody _ _ _ _ _ hu)
    have only : ∀ u op' r' l' p',
        upd σ.th t (Th.inside op op.body op.init (runBody op.body σ.s op.init).2) u = .inside op' r' l' p' →
        u = t ∧ op' = op ∧ r' = op.body ∧ l' = op.init ∧ p' = (runBody op.body σ.s op.init).2 := by
      intro u op' r' l' p' hu
      by_cases hut : u = t
      · subst hut; rw [upd_same] at hu; cases hu; simp
      · rw [upd_other _ _ _ _ hut] at hu; exact absurd hu (nobody _ _ _ _ _)
    refine ⟨?_, ?_, ?_, ?_, ?_⟩ <;> dsimp only
    · intro t' op' r l p h1 _ u hu op'' r' l' p' h2
      have a := (only _ _ _ _ _ h1).1; have b := (only _ _ _ _ _ h2).1
      exact hu (b.trans a.symm)
    · intro t' op' r l p h1 _
      obtain ⟨_, rfl, rfl, rfl, rfl⟩ := only _ _ _ _ _ h1
      rfl
    · intro hw
      exact absurd ⟨t, op, op.body, op.init, _, upd_same _ _ _, hm⟩ hw
    · intro t' op' r l p h1 hR
      obtain ⟨_, rfl, _, _, _⟩ := only _ _ _ _ _ h1
      rw [hm] at hR; cases hR
    · intro t' l p h1
      by_cases hut : t' = t
      · subst hut; rw [upd_same] at h1; cases h1
      · rw [upd_other _ _ _ _ hut] at h1; exact hI.fin t' l p h1
  | acquireR t op h hm free =>
    have hsg : σ.s = σ.g := hI.sync free
    have cases_u : ∀ u op' r' l' p',
        upd σ.th t (Th.inside op op.body op.init (runBody op.body σ.s op.init).2) u = .inside op' r' l' p' →
        (u = t ∧ op' = op ∧ r' = op.body ∧ l' = op.init ∧ p' = (runBody op.body σ.s op.init).2) ∨
        (u ≠ t ∧ σ.th u = .inside op' r' l' p') := by
      intro u op' r' l' p' hu
      by_cases hut : u = t
      · subst hut; rw [upd_same] at hu; cases hu; simp
      · rw [upd_other _ _ _ _ hut] at hu; exact Or.inr ⟨hut, hu⟩
    have noW : ∀ u op' r' l' p', σ.th u = .inside op' r' l' p' → op'.mode ≠ .W := by
      intro u op' r' l' p' hu hW; exact free ⟨u, op', r', l', p', hu, hW⟩
    refine ⟨?_, ?_, ?_, ?_, ?_⟩ <;> dsimp only
    · intro t' op' r l p h1 hW
      rcases cases_u _ _ _ _ _ h1 with ⟨_, rfl, _⟩ | ⟨_, h1'⟩
      · rw [hm] at hW; cases hW
      · exact absurd hW (noW _ _ _ _ _ h1')
    · intro t' op' r l p h1 hW
      rcases cases_u _ _ _ _ _ h1 with ⟨_, rfl, _⟩ | ⟨_, h1'⟩
      · rw [hm] at hW; cases hW
      · exact absurd hW (noW _ _ _ _ _ h1')
    · intro _; exact hsg
    · intro t' op' r l p h1 hR
      rcases cases_u _ _ _ _ _ h1 with ⟨_, rfl, rfl, rfl, rfl⟩ | ⟨_, h1'⟩
      · exact ⟨rfl, op'.pure hR⟩
      · exact hI.rd _ _ _ _ _ h1' hR
    · intro t' l p h1
      by_cases hut : t' = t
      · subst hut; rw [upd_same] at h1; cases h1
      · rw [upd_other _ _ _ _ hut] at h1; exact hI.fin t' l p h1
  | micro t op m rest l p h =>
    have cases_u : ∀ u op' r' l' p',
        upd σ.th t (Th.inside op rest (m σ.s l).2 p) u = .inside op' r' l' p' →
        (u = t ∧ op' = op ∧ r' = rest ∧ l' = (m σ.s l).2 ∧ p' = p) ∨
        (u ≠ t ∧ σ.th u = .inside op' r' l' p') := by
      intro u op' r' l' p' hu
      by_cases hut : u = t
      · subst hut; rw [upd_same] at hu; cases hu; simp
      · rw [upd_other _ _ _ _ hut] at hu; exact Or.inr ⟨hut, hu⟩
    cases hmode : op.mode with
    | W =>
      have lone := hI.alone t op _ l p h hmode
      have hwr := hI.wr t op _ l p h hmode
      refine ⟨?_, ?_, ?_, ?_, ?_⟩ <;> dsimp only
      · intro t' op' r l' p' h1 _ u hu op'' r' l'' p'' h2
        rcases cases_u _ _ _ _ _ h1 with ⟨rfl, _⟩ | ⟨hne, h1'⟩
        · rcases cases_u _ _ _ _ _ h2 with ⟨rfl, _⟩ | ⟨hne2, h2'⟩
          · exact hu rfl
          · exact lone u hne2 _ _ _ _ h2'
        · exact lone t' hne _ _ _ _ h1'
      · intro t' op' r l' p' h1 _
        rcases cases_u _ _ _ _ _ h1 with ⟨_, rfl, rfl, rfl, rfl⟩ | ⟨hne, h1'⟩
        · simpa using hwr
        · exact absurd h1' (lone t' hne _ _ _ _)
      · intro hw
        exact absurd ⟨t, op, rest, _, p, upd_same _ _ _, hmode⟩ hw
      · intro t' op' r l' p' h1 hR
        rcases cases_u _ _ _ _ _ h1 with ⟨_, rfl, _⟩ | ⟨hne, h1'⟩
        · rw [hmode] at hR; cases hR
        · exact absurd h1' (lone t' hne _ _ _ _)
      · intro t' l' p' h1
        by_cases hut : t' = t
        · subst hut; rw [upd_same] at h1; cases h1
        · rw [upd_other _ _ _ _ hut] at h1; exact hI.fin t' l' p' h1
    | R =>
      obtain ⟨hp, hpure⟩ := hI.rd t op _ l p h hmode
      have hs' : (m σ.s l).1 = σ.s := hpure m (by simp) σ.s l
      have noW : ¬ σ.writerInside := by
        rintro ⟨u, op', r', l', p', hu, hW⟩
        by_cases hut : u = t
        · subst hut; rw [h] at hu; cases hu; rw [hmode] at hW; cases hW
        · exact hI.alone u op' r' l' p' hu hW t (Ne.symm hut) _ _ _ _ h
      have hsg := hI.sync noW
      have noW' : ∀ u op' r' l' p', σ.th u = .inside op' r' l' p' → op'.mode ≠ .W := by
        intro u op' r' l' p' hu hW; exact noW ⟨u, op', r', l', p', hu, hW⟩
      refine ⟨?_, ?_, ?_, ?_, ?_⟩ <;> dsimp only
      · intro t' op' r l' p' h1 hW
        rcases cases_u _ _ _ _ _ h1 with ⟨_, rfl, _⟩ | ⟨_, h1'⟩
        · rw [hmode] at hW; cases hW
        · exact absurd hW (noW' _ _ _ _ _ h1')
      · intro t' op' r l' p' h1 hW
        rcases cases_u _ _ _ _ _ h1 with ⟨_, rfl, _⟩ | ⟨_, h1'⟩
        · rw [hmode] at hW; cases hW
        · exact absurd hW (noW' _ _ _ _ _ h1')
      · intro _; rw [hs']; exact hsg
      · intro t' op' r l' p' h1 hR
        rw [hs']
        rcases cases_u _ _ _ _ _ h1 with ⟨_, rfl, rfl, rfl, rfl⟩ | ⟨_, h1'⟩
        · refine ⟨?_, fun m' hm' => hpure m' (by simp [hm'])⟩
          rw [← hp, runBody_cons, hs']
        · exact hI.rd _ _ _ _ _ h1' hR
      · intro t' l' p' h1
        by_cases hut : t' = t
        · subst hut; rw [upd_same] at h1; cases h1
        · rw [upd_other _ _ _ _ hut] at h1; exact hI.fin t' l' p' h1
  | release t op l p h =>
    have hne : ∀ u op' r' l' p', upd σ.th t (Th.done l p) u = .inside op' r' l' p' →
        u ≠ t ∧ σ.th u = .inside op' r' l' p' := by
      intro u op' r' l' p' hu
      by_cases hut : u = t
      · subst hut; simp [upd_same] at hu
      · rw [upd_other _ _ _ _ hut] at hu; exact ⟨hut, hu⟩
    refine ⟨?_, ?_, ?_, ?_, ?_⟩ <;> dsimp only
    · intro t' op' r l' p' h1 hm u hu op'' r' l'' p'' h2
      exact hI.alone t' op' r l' p' (hne _ _ _ _ _ h1).2 hm u hu op'' r' l'' p'' (hne _ _ _ _ _ h2).2
    · intro t' op' r l' p' h1 hm
      exact hI.wr t' op' r l' p' (hne _ _ _ _ _ h1).2 hm
    · intro hw
      cases hmode : op.mode with
      | W =>
        have := hI.wr t op [] l p h hmode
        simp at this
        exact this.1
      | R =>
        apply hI.sync
        rintro ⟨u, op', r', l', p', hu, hW⟩
        by_cases hut : u = t
        · subst hut; rw [h] at hu; cases hu; rw [hmode] at hW; cases hW
        · exact hw ⟨u, op', r', l', p', by show upd σ.th t (Th.done l p) u = _; rw [upd_other _ _ _ _ hut]; exact hu, hW⟩
    · intro t' op' r l' p' h1 hm
      exact hI.rd t' op' r l' p' (hne _ _ _ _ _ h1).2 hm
    · intro t' l' p' h1
      by_cases hut : t' = t
      · subst hut; rw [upd_same] at h1; cases h1
        cases hmode : op.mode with
        | W => have := hI.wr t' op [] l p h hmode; simp at this; exact this.2
        | R => have := (hI.rd t' op [] l p h hmode).1; simpa using this
      · rw [upd_other _ _ _ _ hut] at h1; exact hI.fin t' l' p' h1



/-- a legal sequential history from `s0`: every operation, run atomically in list order, returns the
    recorded result; `Legal s0 log g` also says the final state is `g` -/
inductive Legal (s0 : S) : List (Op S L × L) → S → Prop
  | nil : Legal s0 [] s0
  | snoc {log g op} : Legal s0 log g → Legal s0 (log ++ [(op, (runBody op.body g op.init).2)]) (runBody op.body g op.init).1

theorem legal_step (s0 : S) (σ σ' : Sys S L) (hI : Inv σ) (hL : Legal s0 σ.lin σ.g) (hs : Step σ σ') :
    Legal s0 σ'.lin σ'.g := by
  cases hs with
  | invoke t op h => exact hL
  | acquireW t op h hm free =>
    have hsg : σ.s = σ.g := hI.sync (by rintro ⟨u, op', r', l', p', hu, _⟩; exact free ⟨u, op', r', l', p', hu⟩)
    dsimp only
    rw [hsg]
    exact .snoc hL
  | acquireR t op h hm free =>
    have hsg : σ.s = σ.g := hI.sync free
    dsimp only
    have hpure : (runBody op.body σ.g op.init).1 = σ.g := runBody_pure_fst op.body (op.pure hm) σ.g op.init
    rw [hsg]
    have := Legal.snoc (op := op) hL
    rw [hpure] at this
    exact this
  | micro t op m rest l p h => exact hL
  | release t op l p h => exact hL

end Flyt.StoreConc
