import FlytModel.Spec.Value
/-!
# Helper lemmas for property C15 (typed accessors)

Case analysis over the value universe, the store lemmas, the closed forms of the slice accessors,
`wrap64` arithmetic, interface-equality facts. Core Lean only.
-/
namespace Flyt.Value

/-- full case split of a value down to the predeclared scalar types; `tac` must close every leaf -/
syntax "govcases " ident " => " tacticSeq : tactic
macro_rules
  | `(tactic| govcases $v:ident => $tac:tacticSeq) => `(tactic|
    cases $v:ident with
    | int t n => cases t with | basic b => (cases b <;> ($tac)) | _ => ($tac)
    | float t n => cases t with | basic b => (cases b <;> ($tac)) | _ => ($tac)
    | str t n => cases t with | basic b => (cases b <;> ($tac)) | _ => ($tac)
    | bool t n => cases t with | basic b => (cases b <;> ($tac)) | _ => ($tac)
    | _ => ($tac))

/-! ## two's complement -/

theorem wrap64_of_inRange {n : Int} (h1 : -two63 ≤ n) (h2 : n < two63) : wrap64 n = n := by
  unfold wrap64 two63 two64 at *; omega

theorem wrap64_range (n : Int) : -two63 ≤ wrap64 n ∧ wrap64 n < two63 := by
  unfold wrap64 two63 two64; omega

theorem wrap64_congr (n : Int) : (wrap64 n - n) % two64 = 0 := by
  unfold wrap64 two63 two64; omega

theorem wrap64_high {n : Int} (h1 : two63 ≤ n) (h2 : n < two64) : wrap64 n = n - two64 := by
  unfold wrap64 two63 two64 at *; omega

theorem wrap64_idem (n : Int) : wrap64 (wrap64 n) = wrap64 n :=
  wrap64_of_inRange (wrap64_range n).1 (wrap64_range n).2

/-! ## the store -/

theorem get_set (s : Store) (k : String) (v : GoVal) : (Store.set s k v).get k = some v := by
  simp [Store.get, Store.set]

theorem get_set_ne (s : Store) (k k' : String) (v : GoVal) (h : k' ≠ k) :
    (Store.set s k v).get k' = s.get k' := by
  have hb : (k' == k) = false := by simpa using h
  simp [Store.get, Store.set, List.lookup, hb]

theorem get_scStore (v : GoVal) : (scStore v).get keyK = some v := get_set _ _ _

theorem get_scStore_miss (v : GoVal) : (scStore v).get keyMiss = none := by
  simp [scStore, Store.get, Store.set, List.lookup, keyMiss, keyK]

/-! ## `Or` and `Must` in terms of `As` -/

theorem asStringOr_eq (v : GoVal) (d : String) :
    asStringOr v d = if (asString v).2 then (asString v).1 else d := by
  unfold asStringOr; cases h : (asString v).2 <;> simp [h]
theorem mustString_eq (v : GoVal) :
    mustString v = if (asString v).2 then .ok (asString v).1 else .panic := by
  unfold mustString; cases h : (asString v).2 <;> simp [h]

theorem asIntOr_eq (c : Conv) (v : GoVal) (d : Option Int) :
    asIntOr c v d = if (asInt c v).2 then (asInt c v).1 else d := by
  unfold asIntOr; cases h : (asInt c v).2 <;> simp [h]
theorem mustInt_eq (c : Conv) (v : GoVal) :
    mustInt c v = if (asInt c v).2 then .ok (asInt c v).1 else .panic := by
  unfold mustInt; cases h : (asInt c v).2 <;> simp [h]

theorem asFloat64Or_eq (c : Conv) (v : GoVal) (d : Nat) :
    asFloat64Or c v d = if (asFloat64 c v).2 then (asFloat64 c v).1 else d := by
  unfold asFloat64Or; cases h : (asFloat64 c v).2 <;> simp [h]
theorem mustFloat64_eq (c : Conv) (v : GoVal) :
    mustFloat64 c v = if (asFloat64 c v).2 then .ok (asFloat64 c v).1 else .panic := by
  unfold mustFloat64; cases h : (asFloat64 c v).2 <;> simp [h]

theorem asBoolOr_eq (v : GoVal) (d : Bool) :
    asBoolOr v d = if (asBool v).2 then (asBool v).1 else d := by
  unfold asBoolOr; cases h : (asBool v).2 <;> simp [h]
theorem mustBool_eq (v : GoVal) :
    mustBool v = if (asBool v).2 then .ok (asBool v).1 else .panic := by
  unfold mustBool; cases h : (asBool v).2 <;> simp [h]

theorem asMapOr_eq (v : GoVal) (d : MapV) :
    asMapOr v d = if (asMap v).2 then (asMap v).1 else d := by
  unfold asMapOr; cases h : (asMap v).2 <;> simp [h]
theorem mustMap_eq (v : GoVal) :
    mustMap v = if (asMap v).2 then .ok (asMap v).1 else .panic := by
  unfold mustMap; cases h : (asMap v).2 <;> simp [h]

/-! ## store getter = result accessor (the duplicated type switches agree).
`h : s.get k = some v` — the store holds `v` under `k` (in particular after `Set k v`, `get_set`). -/

theorem getStringOr_of_get (s : Store) (k : String) (v : GoVal) (d : String) (h : s.get k = some v) :
    getStringOr s k d = asStringOr v d := by
  unfold getStringOr; rw [h]; govcases v => rfl

theorem getString_of_get (s : Store) (k : String) (v : GoVal) (h : s.get k = some v) :
    getString s k = asStringOr v "" := by
  unfold getString; rw [h]; govcases v => rfl

theorem getIntOr_of_get (c : Conv) (s : Store) (k : String) (v : GoVal) (d : Option Int) (h : s.get k = some v) :
    getIntOr c s k d = asIntOr c v d := by
  unfold getIntOr; rw [h]; govcases v => rfl

theorem getFloat64Or_of_get (c : Conv) (s : Store) (k : String) (v : GoVal) (d : Nat) (h : s.get k = some v) :
    getFloat64Or c s k d = asFloat64Or c v d := by
  unfold getFloat64Or; rw [h]; govcases v => rfl

theorem getBoolOr_of_get (s : Store) (k : String) (v : GoVal) (d : Bool) (h : s.get k = some v) :
    getBoolOr s k d = asBoolOr v d := by
  unfold getBoolOr; rw [h]; govcases v => rfl

theorem getMapOr_of_get (s : Store) (k : String) (v : GoVal) (d : MapV) (h : s.get k = some v) :
    getMapOr s k d = asMapOr v d := by
  unfold getMapOr; rw [h]
  cases v <;> first | rfl | (simp only [asMapOr, asMap]; split <;> simp_all)

/-! ### missing keys -/

theorem getString_miss (s : Store) (k : String) (h : s.get k = none) : getString s k = "" := by
  unfold getString; rw [h]
theorem getStringOr_miss (s : Store) (k : String) (d : String) (h : s.get k = none) :
    getStringOr s k d = d := by
  unfold getStringOr; rw [h]
theorem getIntOr_miss (c : Conv) (s : Store) (k : String) (d : Option Int) (h : s.get k = none) :
    getIntOr c s k d = d := by
  unfold getIntOr; rw [h]
theorem getFloat64Or_miss (c : Conv) (s : Store) (k : String) (d : Nat) (h : s.get k = none) :
    getFloat64Or c s k d = d := by
  unfold getFloat64Or; rw [h]
theorem getBoolOr_miss (s : Store) (k : String) (d : Bool) (h : s.get k = none) : getBoolOr s k d = d := by
  unfold getBoolOr; rw [h]
theorem getMapOr_miss (s : Store) (k : String) (d : MapV) (h : s.get k = none) : getMapOr s k d = d := by
  unfold getMapOr; rw [h]
theorem getSliceOrWith_miss (test : SliceTest) (s : Store) (k : String) (d : SliceV) (h : s.get k = none) :
    getSliceOrWith test s k d = .ok d := by
  unfold getSliceOrWith; rw [h]

/-! ## a failing `As` returns the zero value -/

theorem asString_zero (v : GoVal) (h : (asString v).2 = false) : (asString v).1 = "" := by
  revert h; govcases v => first | (intro _; rfl) | (intro h; cases h)
theorem asInt_zero (c : Conv) (v : GoVal) (h : (asInt c v).2 = false) : (asInt c v).1 = some 0 := by
  revert h; govcases v => first | (intro _; rfl) | (intro h; cases h)
theorem asFloat64_zero (c : Conv) (v : GoVal) (h : (asFloat64 c v).2 = false) : (asFloat64 c v).1 = 0 := by
  revert h; govcases v => first | (intro _; rfl) | (intro h; cases h)
theorem asBool_zero (v : GoVal) (h : (asBool v).2 = false) : (asBool v).1 = false := by
  revert h; govcases v => first | (intro _; rfl) | (intro h; cases h)
theorem asMap_zero (v : GoVal) (h : (asMap v).2 = false) : (asMap v).1 = none := by
  revert h
  cases v <;> first | (intro _; rfl) | (simp only [asMap]; split <;> simp_all)

/-! ## closed forms of the slice accessors under the repaired test -/

theorem assertAnys_eq (v : GoVal) (s : SliceV) (h : assertAnys v = some s) :
    v.kind = .slice ∧ toSlice v = s := by
  cases v <;> simp [assertAnys] at h
  case slice t isNil elems =>
    obtain ⟨ht, hs⟩ := h
    subst ht
    refine ⟨rfl, ?_⟩
    simp [toSlice, ← hs]

theorem asSlice_closed (v : GoVal) :
    asSlice v = .ok (if v.kind = .slice then (toSlice v, true) else (none, false)) := by
  unfold asSlice asSliceWith
  cases v with
  | nil => rfl
  | slice t isNil elems =>
    simp only []
    cases h : assertAnys (.slice t isNil elems) with
    | some s => simp [(assertAnys_eq _ _ h).2, GoVal.kind]
    | none => simp [kindTest, GoVal.kind]
  | _ => rfl

theorem asSliceOr_closed (v : GoVal) (d : SliceV) :
    asSliceOr v d = .ok (if v.kind = .slice then toSlice v else d) := by
  have h := asSlice_closed v
  unfold asSlice at h
  unfold asSliceOr asSliceOrWith
  rw [h]
  by_cases hk : v.kind = .slice <;> simp [hk]

theorem mustSlice_closed (v : GoVal) :
    mustSlice v = if v.kind = .slice then .ok (toSlice v) else .panic := by
  have h := asSlice_closed v
  unfold asSlice at h
  unfold mustSlice mustSliceWith
  rw [h]
  by_cases hk : v.kind = .slice <;> simp [hk]

theorem getSliceOr_of_get (s : Store) (k : String) (v : GoVal) (d : SliceV) (h : s.get k = some v) :
    getSliceOr s k d = .ok (if v.kind = .slice then toSlice v else d) := by
  unfold getSliceOr getSliceOrWith
  rw [h]
  cases v with
  | nil => rfl
  | slice t isNil elems =>
    simp only []
    cases h : assertAnys (.slice t isNil elems) with
    | some s => simp [(assertAnys_eq _ _ h).2, GoVal.kind]
    | none => simp [kindTest, GoVal.kind]
  | _ => rfl

theorem getSlice_of_get (s : Store) (k : String) (v : GoVal) (h : s.get k = some v) :
    getSlice s k = .ok (if v.kind = .slice then toSlice v else none) := by
  have := getSliceOr_of_get s k v none h
  unfold getSliceOr at this
  unfold getSlice getSliceWith
  exact this

/-! ## `ToSlice` -/

theorem elemsOf_toSlice (v : GoVal) : Spec.elemsOf (toSlice v) = Spec.specElems v := by
  cases v <;> try rfl
  case slice t isNil elems =>
    simp only [toSlice, Spec.specElems, Spec.elemsOf, sliceElems]
    cases isNil <;> (repeat' split) <;> simp_all

/-! ## interface equality -/

theorem typeGuard_self_noncomparable (t : GoType) (k : EqRes) (h : t.comparable = false) :
    typeGuard t t k = .panic := by
  simp [typeGuard, h]

theorem typeGuard_self_comparable (t : GoType) (k : EqRes) (h : t.comparable = true) :
    typeGuard t t k = k := by
  simp [typeGuard, h]

theorem typeGuard_ne (t u : GoType) (k : EqRes) (h : t ≠ u) : typeGuard t u k = .ne := by
  simp [typeGuard, h]

/-- identical non-comparable dynamic type: the comparison panics, whatever the values -/
theorem ifaceEq_noncomparable (a b : GoVal) (t : GoType) (ha : a.typeOf? = some t) (hb : b.typeOf? = some t)
    (hk : a.kind = b.kind) (h : t.comparable = false) : ifaceEq a b = .panic := by
  cases a <;> cases b <;> simp [GoVal.typeOf?, GoVal.kind] at ha hb hk <;> subst ha <;> subst hb <;>
    simp [ifaceEq, typeGuard, h]

theorem ifaceEq_self_noncomparable (v : GoVal) (t : GoType) (hv : v.typeOf? = some t)
    (h : t.comparable = false) : ifaceEq v v = .panic :=
  ifaceEq_noncomparable v v t hv hv rfl h

/-- values of different dynamic types are unequal, without panic -/
theorem ifaceEq_type_ne (a b : GoVal) (h : a.typeOf? ≠ b.typeOf?) : ifaceEq a b = .ne := by
  cases a <;> cases b <;> simp [GoVal.typeOf?] at h <;> simp [ifaceEq, typeGuard, h]

theorem floatEq_nan (w : Bool) (x : Nat) (h : isNaN w x = true) : floatEq w x x = false := by
  simp [floatEq, h]

/-! ## the unrepaired slice test -/

theorem nonslice_paths (v : GoVal) (hn : v ≠ .nil) (hk : v.kind ≠ .slice) :
    assertAnys v = none ∧ toSlice v = some [v] := by
  cases v <;> first | exact ⟨rfl, rfl⟩ | (exfalso; exact hn rfl) | (exfalso; exact hk rfl)

/-- what the heuristic `len(result) == 1 && result[0] == value` computes on a non-slice -/
theorem Legacy.eqTest_nonslice (v : GoVal) :
    Legacy.eqTest (some [v]) v
      = match ifaceEq v v with | .eq => .ok true | .ne => .ok false | .panic => .panic := by
  simp only [Legacy.eqTest, Option.getD]
  cases ifaceEq v v <;> rfl

theorem Legacy.asSlice_nonslice (v : GoVal) (hn : v ≠ .nil) (hk : v.kind ≠ .slice) :
    Legacy.asSlice v
      = match ifaceEq v v with
        | .eq => .ok (none, false) | .ne => .ok (some [v], true) | .panic => .panic := by
  obtain ⟨ha, ht⟩ := nonslice_paths v hn hk
  unfold Legacy.asSlice asSliceWith
  cases v with
  | nil => exact absurd rfl hn
  | _ => simp only [ha, ht, Legacy.eqTest_nonslice]; cases ifaceEq _ _ <;> rfl

theorem Legacy.getSliceOr_nonslice (s : Store) (k : String) (d : SliceV) (v : GoVal) (h : s.get k = some v)
    (hn : v ≠ .nil) (hk : v.kind ≠ .slice) :
    Legacy.getSliceOr s k d
      = match ifaceEq v v with
        | .eq => .ok d | .ne => .ok (some [v]) | .panic => .panic := by
  obtain ⟨ha, ht⟩ := nonslice_paths v hn hk
  unfold Legacy.getSliceOr getSliceOrWith
  rw [h]
  cases v with
  | nil => exact absurd rfl hn
  | _ => simp only [ha, ht, Legacy.eqTest_nonslice]; cases ifaceEq _ _ <;> rfl

/-! ## well-formedness, top level -/

theorem GoType.kind_underlying (t : GoType) : t.underlying.kind = t.kind := by
  induction t <;> simp_all [GoType.underlying, GoType.kind]

theorem GoType.comparable_underlying (t : GoType) : t.underlying.comparable = t.comparable := by
  induction t <;> simp_all [GoType.underlying, GoType.comparable]

/-- for a well-formed value the representation determines `reflect.Kind` exactly as the type does -/
theorem wf_shapeOK (v : GoVal) (h : v.wf = true) : v.shapeOK = true := by
  cases v with
  | nil => rfl
  | int t n =>
    simp only [GoVal.shapeOK, GoVal.typeOf?, GoVal.kind, ← GoType.kind_underlying t]
    simp only [GoVal.wf] at h
    split at h
    · rename_i b hb; rw [hb]; cases b <;> simp_all [Basic.range, GoType.kind, Basic.kind]
    · cases h
  | float t n =>
    simp only [GoVal.shapeOK, GoVal.typeOf?, GoVal.kind, ← GoType.kind_underlying t]
    simp only [GoVal.wf] at h
    split at h <;> simp_all [GoType.kind, Basic.kind]
  | complex t r i =>
    simp only [GoVal.shapeOK, GoVal.typeOf?, GoVal.kind, ← GoType.kind_underlying t]
    simp only [GoVal.wf] at h
    split at h <;> simp_all [GoType.kind, Basic.kind]
  | str t x =>
    simp only [GoVal.shapeOK, GoVal.typeOf?, GoVal.kind, ← GoType.kind_underlying t]
    simp only [GoVal.wf, beq_iff_eq] at h
    simp [h, GoType.kind, Basic.kind]
  | bool t x =>
    simp only [GoVal.shapeOK, GoVal.typeOf?, GoVal.kind, ← GoType.kind_underlying t]
    simp only [GoVal.wf, beq_iff_eq] at h
    simp [h, GoType.kind, Basic.kind]
  | ptr t x => simpa [GoVal.shapeOK, GoVal.typeOf?, GoVal.kind, GoVal.wf] using h
  | map t x => simpa [GoVal.shapeOK, GoVal.typeOf?, GoVal.kind, GoVal.wf] using h
  | chan t x => simpa [GoVal.shapeOK, GoVal.typeOf?, GoVal.kind, GoVal.wf] using h
  | func t x => simpa [GoVal.shapeOK, GoVal.typeOf?, GoVal.kind, GoVal.wf] using h
  | slice t x es =>
    simp only [GoVal.shapeOK, GoVal.typeOf?, GoVal.kind, ← GoType.kind_underlying t]
    simp only [GoVal.wf] at h
    split at h <;> simp_all [GoType.kind]
  | array t es =>
    simp only [GoVal.shapeOK, GoVal.typeOf?, GoVal.kind, ← GoType.kind_underlying t]
    simp only [GoVal.wf] at h
    split at h <;> simp_all [GoType.kind]
  | struct t fs =>
    simp only [GoVal.shapeOK, GoVal.typeOf?, GoVal.kind, ← GoType.kind_underlying t]
    simp only [GoVal.wf] at h
    cases fs <;> cases hu : t.underlying <;> simp_all [GoVals.wfFields, GoType.kind]

theorem wf_kind (v : GoVal) (t : GoType) (h : v.wf = true) (ht : v.typeOf? = some t) : t.kind = v.kind := by
  have := wf_shapeOK v h
  simpa [GoVal.shapeOK, ht] using this

/-! ## a `flyt.Result` used as a value -/

theorem result_wf (v e : GoVal) : (GoVal.result v e).wf = (v.wf && e.wf) := by
  simp [GoVal.result, GoVal.wf, tResult, tError, GoType.underlying, GoVals.wfFields, slotOK, GoType.kind]

/-- `Result{v, e} == Result{v, e}`: the struct type is comparable, the fields are compared in order -/
theorem result_ifaceEq (v e : GoVal) :
    ifaceEq (GoVal.result v e) (GoVal.result v e) = match ifaceEq v v with | .eq => ifaceEq e e | x => x := by
  simp only [GoVal.result, ifaceEq, elemsEq]
  have hc : tResult.comparable = true := by decide
  rw [typeGuard_self_comparable _ _ hc]
  cases ifaceEq v v <;> simp
  cases ifaceEq e e <;> rfl

/-- no accessor has a case for it; `ToSlice` takes the single-item path -/
theorem result_accessors (c : Conv) (v e : GoVal) :
    asString (GoVal.result v e) = ("", false) ∧ asInt c (GoVal.result v e) = (some 0, false)
    ∧ asFloat64 c (GoVal.result v e) = (0, false) ∧ asBool (GoVal.result v e) = (false, false)
    ∧ asMap (GoVal.result v e) = (none, false) ∧ asSlice (GoVal.result v e) = .ok (none, false)
    ∧ toSlice (GoVal.result v e) = some [GoVal.result v e] := by
  refine ⟨rfl, rfl, rfl, rfl, rfl, ?_, rfl⟩
  rw [asSlice_closed]; rfl

/-! ## `As` against the expected outcome of the specification -/

theorem asString_exp (v : GoVal) :
    (asString v).2 = (Spec.expString v).isSome ∧ (asString v).1 = (Spec.expString v).getD "" := by
  govcases v => first | exact ⟨rfl, rfl⟩ | simp [asString, Spec.expString, tString]

theorem asBool_exp (v : GoVal) :
    (asBool v).2 = (Spec.expBool v).isSome ∧ (asBool v).1 = (Spec.expBool v).getD false := by
  govcases v => first | exact ⟨rfl, rfl⟩ | simp [asBool, Spec.expBool, tBool]

theorem asMap_exp (v : GoVal) :
    (asMap v).2 = (Spec.expMap v).isSome ∧ (asMap v).1 = (Spec.expMap v).getD none := by
  cases v <;> first | exact ⟨rfl, rfl⟩ | (simp only [asMap, Spec.expMap]; split <;> simp)

theorem asInt_exp (c : Conv) (v : GoVal) (h : v.wf = true) :
    (asInt c v).2 = (Spec.expInt c v).isSome ∧ (asInt c v).1 = (Spec.expInt c v).getD (some 0) := by
  revert h
  govcases v => first
    | (intro _; exact ⟨rfl, rfl⟩)
    | (intro h; simp [GoVal.wf, GoType.underlying, Basic.range] at h; done)
    | (intro h; simp [GoVal.wf, GoType.underlying, Basic.range] at h
       refine ⟨rfl, ?_⟩
       rename_i n
       have hw : wrap64 n = n := wrap64_of_inRange (by unfold two63; omega) (by unfold two63; omega)
       show some n = some (wrap64 n)
       rw [hw])

theorem asFloat64_exp (c : Conv) (v : GoVal) (h : v.wf = true) :
    (asFloat64 c v).2 = (Spec.expFloat c v).isSome ∧ (asFloat64 c v).1 = (Spec.expFloat c v).getD 0 := by
  revert h
  govcases v => first
    | (intro _; exact ⟨rfl, rfl⟩)
    | (intro h; simp [GoVal.wf, GoType.underlying, Basic.range] at h; done)

/-! ## the generic accessors `As[T]` / `MustAs[T]` -/

theorem typeOf?_none_iff (v : GoVal) : v.typeOf? = none ↔ v = .nil := by
  cases v <;> simp [GoVal.typeOf?]

theorem asT_exp (t : GoType) (v : GoVal) :
    (asT t v).2 = Spec.expAs t v ∧ (asT t v).1 = (if Spec.expAs t v then v else zeroOf t) := by
  unfold asT Spec.expAs
  cases h : v.typeOf? with
  | none =>
    have := (typeOf?_none_iff v).1 h
    subst this; simp
  | some u =>
    have hn : v ≠ .nil := by intro e; subst e; simp [GoVal.typeOf?] at h
    by_cases hc : t = .any ∨ u = t
    · simp [hc, hn]
    · have hc' := hc
      simp only [not_or] at hc'
      simp [hc'.1, hc'.2]

theorem mustT_eq (t : GoType) (v : GoVal) :
    mustT t v = if (asT t v).2 then .ok (asT t v).1 else .panic := by
  unfold mustT; cases h : (asT t v).2 <;> simp [h]

theorem genOK1_model (t : GoType) (v : GoVal) : Spec.genOK1 t v (.ok (asT t v), mustT t v) = true := by
  obtain ⟨h1, h2⟩ := asT_exp t v
  simp only [Spec.genOK1, mustT_eq, h1, h2]
  cases Spec.expAs t v <;> simp

theorem all_zip_map {α β} (l : List α) (f : α → β) (g : α × β → Bool) (h : ∀ a, g (a, f a) = true) :
    (l.zip (l.map f)).all g = true := by
  induction l with
  | nil => rfl
  | cons a l ih => simp only [List.map_cons, List.zip_cons_cons, List.all_cons, h a, ih, Bool.and_self]

theorem genOK_model (v : GoVal) : Spec.genOK v (genTargets.map fun t => (.ok (asT t v), mustT t v)) = true := by
  simp only [Spec.genOK, List.length_map, beq_self_eq_true, Bool.true_and]
  exact all_zip_map _ _ _ (fun t => genOK1_model t v)
/-! ## assembling one family of the specification -/

theorem Spec.famOK_of {α β} [DecidableEq α] [DecidableEq β] (nf : α → β) (z d : α) (e : Option α)
    (o : FamObs α) (x : α) (ok : Bool)
    (has : o.as_ = .ok (x, ok)) (hor : o.or_ = .ok (if ok then x else d))
    (hmust : o.must = if ok then .ok x else .panic)
    (hget : o.get = .ok (if ok then x else z)) (hgetOr : o.getOr = .ok (if ok then x else d))
    (hmiss : o.getMiss = .ok z) (hormiss : o.getOrMiss = .ok d)
    (hz : ok = false → x = z) (hok : ok = e.isSome) (hval : nf x = nf (e.getD z)) :
    Spec.famOK nf z d e o = true := by
  simp only [Spec.famOK, Spec.total, Spec.consistent, Spec.faithful, has, hor, hmust, hget, hgetOr, hmiss,
    hormiss, Ret.isPanic, hval]
  cases ok <;> simp_all

end Flyt.Value
