import FlytModel.Proofs.StoreHeap
import FlytModel.Spec.Store
/-!
# The value machine is a plain map: simulation with the function-level reference of `Spec/Store.lean`
-/
namespace Flyt.Store
open Flyt Flyt.Spec.Store

/-! ### `dom` bookkeeping -/

theorem mem_addDom (x k : Key) (d : List Key) : x ∈ addDom k d ↔ x = k ∨ x ∈ d := by
  unfold addDom
  split
  · rename_i h
    have hk : k ∈ d := List.contains_iff_mem.1 h
    constructor
    · exact Or.inr
    · rintro (e | e)
      · exact e ▸ hk
      · exact e
  · simp

theorem nodup_addDom (k : Key) {d : List Key} (h : d.Nodup) : (addDom k d).Nodup := by
  unfold addDom
  split
  · exact h
  · rename_i hk
    rw [List.nodup_cons]
    exact ⟨fun hm => hk (List.contains_iff_mem.2 hm), h⟩

theorem mem_foldr_addDom (x : Key) (g d : List Key) : x ∈ g.foldr addDom d ↔ x ∈ g ∨ x ∈ d := by
  induction g with
  | nil => simp
  | cons a t ih => simp only [List.foldr_cons, mem_addDom, ih, List.mem_cons, or_assoc]

theorem nodup_foldr_addDom (g : List Key) {d : List Key} (h : d.Nodup) : (g.foldr addDom d).Nodup := by
  induction g with
  | nil => exact h
  | cons a t ih => exact nodup_addDom a ih

/-- `dom` is duplicate-free and covers the support -/
structure WF (F : FMap) : Prop where
  nodup : F.dom.Nodup
  supp : ∀ k, (F.f k).isSome = true → k ∈ F.dom

theorem wf_empty : WF FMap.empty := ⟨by simp [FMap.empty], by simp [FMap.empty]⟩

theorem wf_set {F : FMap} (h : WF F) (k : Key) (v : Val) : WF (F.set k v) := by
  refine ⟨nodup_addDom k h.nodup, ?_⟩
  intro x hx
  simp only [FMap.set] at hx ⊢
  rw [mem_addDom]
  by_cases e : x = k
  · exact Or.inl e
  · rw [if_neg e] at hx; exact Or.inr (h.supp x hx)

theorem wf_del {F : FMap} (h : WF F) (k : Key) : WF (F.del k) := by
  refine ⟨h.nodup, ?_⟩
  intro x hx
  simp only [FMap.del] at hx ⊢
  by_cases e : x = k
  · rw [if_pos e] at hx; simp at hx
  · rw [if_neg e] at hx; exact h.supp x hx

theorem wf_merge {F G : FMap} (h : WF F) (g : WF G) : WF (F.merge G) := by
  refine ⟨nodup_foldr_addDom _ h.nodup, ?_⟩
  intro x hx
  simp only [FMap.merge] at hx ⊢
  rw [mem_foldr_addDom]
  cases e : G.f x with
  | none => rw [e] at hx; exact Or.inr (h.supp x hx)
  | some v => exact Or.inl (g.supp x (by simp [e]))

/-! ### one map -/

/-- the association list `m` and the function-level map `F` are the same map -/
structure Sim (m : KV) (F : FMap) : Prop where
  look : ∀ k, lookup k m = F.f k
  wf : WF F
  nd : NodupKeys m

theorem sim_empty : Sim [] FMap.empty := ⟨fun _ => rfl, wf_empty, nodupKeys_nil⟩

theorem sim_put {m : KV} {F : FMap} (h : Sim m F) (k : Key) (v : Val) : Sim (put m k v) (F.set k v) :=
  ⟨fun x => by simp only [lookup_put, FMap.set, h.look], wf_set h.wf k v, nodupKeys_put k v h.nd⟩

theorem sim_erase {m : KV} {F : FMap} (h : Sim m F) (k : Key) : Sim (erase k m) (F.del k) :=
  ⟨fun x => by simp only [lookup_erase, FMap.del, h.look], wf_del h.wf k, nodupKeys_erase k h.nd⟩

theorem sim_merge {m a : KV} {F G : FMap} (h : Sim m F) (g : Sim a G) : Sim (mergeInto m a) (F.merge G) :=
  ⟨fun x => by
      rw [lookup_mergeInto, h.look, g.look]; rfl,
    wf_merge h.wf g.wf, nodupKeys_mergeInto a h.nd⟩

theorem sim_ofList (l : KV) : Sim (mergeInto [] l) (FMap.ofList l) := by
  induction l with
  | nil => exact sim_empty
  | cons p t ih => obtain ⟨k, v⟩ := p; exact sim_put ih k v

theorem sim_copy {m : KV} {F : FMap} (h : Sim m F) : Sim (mergeInto [] m) F := by
  rw [mergeInto_nil_self h.nd]; exact h

theorem mem_support {F : FMap} (h : WF F) (k : Key) : k ∈ F.support ↔ (F.f k).isSome = true := by
  simp only [FMap.support, List.mem_filter]
  exact ⟨fun hk => hk.2, fun hk => ⟨h.supp k hk, hk⟩⟩

theorem sim_mem_iff {m : KV} {F : FMap} (h : Sim m F) (k : Key) : k ∈ keysOf m ↔ k ∈ F.support := by
  rw [mem_support h.wf, mem_keysOf_iff, h.look]

theorem nodup_support {F : FMap} (h : WF F) : F.support.Nodup :=
  List.Nodup.sublist List.filter_sublist h.nodup

/-- `Len` is the number of present keys -/
theorem sim_length {m : KV} {F : FMap} (h : Sim m F) : m.length = F.support.length := by
  rw [← length_keysOf]
  exact ((List.perm_ext_iff_of_nodup h.nd (nodup_support h.wf)).2 (sim_mem_iff h)).length_eq

theorem sim_keysOK {m : KV} {F : FMap} (h : Sim m F) : F.keysOK (keysOf m) = true := by
  simp only [FMap.keysOK, Bool.and_eq_true, decide_eq_true_eq, List.all_eq_true, beq_iff_eq,
    List.contains_iff_mem]
  refine ⟨⟨⟨h.nd, ?_⟩, ?_⟩, ?_⟩
  · intro k hk; rw [← h.look]; exact (mem_keysOf_iff k m).1 hk
  · intro k hk; exact (sim_mem_iff h k).2 hk
  · rw [length_keysOf]; exact sim_length h

theorem lookup_of_mem {m : KV} (h : NodupKeys m) {k : Key} {v : Val} (hm : (k, v) ∈ m) : lookup k m = some v := by
  induction m with
  | nil => cases hm
  | cons p t ih =>
    obtain ⟨a, w⟩ := p
    simp only [NodupKeys, keysOf_cons, List.nodup_cons] at h
    rw [lookup_cons]
    rcases List.mem_cons.1 hm with e | e
    · cases e; simp
    · have hne : a ≠ k := by
        intro e'
        subst e'
        exact h.1 (List.mem_map.2 ⟨(a, v), e, rfl⟩)
      rw [if_neg hne]; exact ih h.2 e

theorem sim_mapOK {m : KV} {F : FMap} (h : Sim m F) : F.mapOK m = true := by
  simp only [FMap.mapOK, Bool.and_eq_true, sim_keysOK h, List.all_eq_true, beq_iff_eq, true_and]
  intro p hp
  rw [← h.look]
  exact lookup_of_mem h.nd hp

/-! ### the whole machine -/

/-- value-machine state `vs` and reference state `fs` (+ the caller's keys slices `ks`) agree -/
structure SimV (vs : VSt) (fs : FSt) (ks : List (List Key)) : Prop where
  cur : Sim vs.m fs.cur
  len : vs.snaps.length = fs.snaps.length
  snaps : ∀ (j : Nat) (a : KV) (F : FMap), vs.snaps[j]? = some a → fs.snaps[j]? = some F → Sim a F
  ks : vs.ksnaps = ks

theorem simV_init : SimV VSt.init FSt.init [] :=
  ⟨sim_empty, rfl, by simp [VSt.init], rfl⟩

theorem simV_push {vs : VSt} {fs : FSt} {ks : List (List Key)} (h : SimV vs fs ks) {a : KV} {F : FMap}
    (ha : Sim a F) :
    ∀ (j : Nat) (b : KV) (G : FMap), (vs.snaps ++ [a])[j]? = some b → (fs.snaps ++ [F])[j]? = some G → Sim b G := by
  intro j b G hb hG
  by_cases hj : j < vs.snaps.length
  · rw [List.getElem?_append_left hj] at hb
    rw [List.getElem?_append_left (h.len ▸ hj)] at hG
    exact h.snaps j b G hb hG
  · have hj' : ¬ j < fs.snaps.length := h.len ▸ hj
    rw [List.getElem?_append_right (by omega)] at hb
    rw [List.getElem?_append_right (by omega)] at hG
    have : j - vs.snaps.length = 0 := by
      cases hx : j - vs.snaps.length with
      | zero => rfl
      | succ n => rw [hx] at hb; simp at hb
    rw [this] at hb
    rw [← h.len, this] at hG
    simp only [List.getElem?_cons_zero, Option.some.injEq] at hb hG
    subst hb; subst hG; exact ha

theorem simV_set {vs : VSt} {fs : FSt} {ks : List (List Key)} (h : SimV vs fs ks) {i : Nat} {a : KV} {F : FMap}
    (ha : Sim a F) :
    ∀ (j : Nat) (b : KV) (G : FMap), (vs.snaps.set i a)[j]? = some b → (fs.snaps.set i F)[j]? = some G → Sim b G := by
  intro j b G hb hG
  by_cases hij : i = j
  · subst hij
    have eb : b = a := by grind
    have eG : G = F := by grind
    subst eb; subst eG; exact ha
  · rw [List.getElem?_set_ne hij] at hb
    rw [List.getElem?_set_ne hij] at hG
    exact h.snaps j b G hb hG

theorem handle_cases {vs : VSt} {fs : FSt} {ks : List (List Key)} (h : SimV vs fs ks) (j : Nat) :
    (vs.snaps[j]? = none ∧ fs.snaps[j]? = none ∧ ¬ j < fs.snaps.length) ∨
    (∃ a F, vs.snaps[j]? = some a ∧ fs.snaps[j]? = some F ∧ j < fs.snaps.length ∧ Sim a F) := by
  by_cases hj : j < vs.snaps.length
  · right
    have hj' : j < fs.snaps.length := h.len ▸ hj
    refine ⟨vs.snaps[j], fs.snaps[j], List.getElem?_eq_getElem hj, List.getElem?_eq_getElem hj', hj', ?_⟩
    exact h.snaps j _ _ (List.getElem?_eq_getElem hj) (List.getElem?_eq_getElem hj')
  · left
    have hj' : ¬ j < fs.snaps.length := h.len ▸ hj
    exact ⟨List.getElem?_eq_none (by omega), List.getElem?_eq_none (by omega), hj'⟩

/-- One step: the value machine's answer is accepted by the reference, and the states stay related. -/
theorem simV_step {vs : VSt} {fs : FSt} {ks : List (List Key)} (h : SimV vs fs ks) (op : Op) :
    respOK fs ks op (vstep vs op).2 = true ∧
    SimV (vstep vs op).1 (fstep fs op) (ksStep ks op (vstep vs op).2) := by
  cases op with
  | get k => exact ⟨by simp [respOK, vstep, h.cur.look], h⟩
  | has k => exact ⟨by simp [respOK, vstep, h.cur.look], h⟩
  | len => exact ⟨by simp [respOK, vstep, sim_length h.cur], h⟩
  | mergeNil => exact ⟨by simp [respOK, vstep], h⟩
  | set k v => exact ⟨by simp [respOK, vstep], ⟨sim_put h.cur k v, h.len, h.snaps, h.ks⟩⟩
  | delete k => exact ⟨by simp [respOK, vstep], ⟨sim_erase h.cur k, h.len, h.snaps, h.ks⟩⟩
  | clear => exact ⟨by simp [respOK, vstep], ⟨sim_empty, h.len, h.snaps, h.ks⟩⟩
  | getAll =>
    refine ⟨by simp [respOK, vstep, sim_mapOK (sim_copy h.cur)], ⟨h.cur, ?_, ?_, h.ks⟩⟩
    · simp [vstep, fstep, h.len]
    · exact simV_push h (sim_copy h.cur)
  | mergeLit l =>
    refine ⟨by simp [respOK, vstep], ⟨sim_merge h.cur (sim_ofList l), ?_, ?_, h.ks⟩⟩
    · simp [vstep, fstep, h.len]
    · exact simV_push h (sim_ofList l)
  | keys =>
    refine ⟨by simp [respOK, vstep, sim_keysOK h.cur], ⟨h.cur, h.len, h.snaps, ?_⟩⟩
    simp [vstep, ksStep, h.ks]
  | mergeSnap j =>
    rcases handle_cases h j with ⟨hv, hf, hj⟩ | ⟨a, F, hv, hf, hj, hs⟩
    · simp only [respOK, vstep, fstep, ksStep, hv, hf, if_neg hj]
      exact ⟨by simp, h⟩
    · simp only [respOK, vstep, fstep, ksStep, hv, hf, if_pos hj]
      exact ⟨by simp, ⟨sim_merge h.cur hs, h.len, h.snaps, h.ks⟩⟩
  | snapSet j k v =>
    rcases handle_cases h j with ⟨hv, hf, hj⟩ | ⟨a, F, hv, hf, hj, hs⟩
    · simp only [respOK, vstep, fstep, ksStep, hv, hf, if_neg hj]
      exact ⟨by simp, h⟩
    · simp only [respOK, vstep, fstep, ksStep, hv, hf, if_pos hj]
      exact ⟨by simp, ⟨h.cur, by simp [h.len], simV_set h (sim_put hs k v), h.ks⟩⟩
  | snapDel j k =>
    rcases handle_cases h j with ⟨hv, hf, hj⟩ | ⟨a, F, hv, hf, hj, hs⟩
    · simp only [respOK, vstep, fstep, ksStep, hv, hf, if_neg hj]
      exact ⟨by simp, h⟩
    · simp only [respOK, vstep, fstep, ksStep, hv, hf, if_pos hj]
      exact ⟨by simp, ⟨h.cur, by simp [h.len], simV_set h (sim_erase hs k), h.ks⟩⟩
  | readSnap j =>
    rcases handle_cases h j with ⟨hv, hf, hj⟩ | ⟨a, F, hv, hf, hj, hs⟩
    · simp only [respOK, vstep, fstep, ksStep, hv, hf]
      exact ⟨by simp, h⟩
    · simp only [respOK, vstep, fstep, ksStep, hv, hf]
      exact ⟨sim_mapOK hs, h⟩
  | keysRepl j old new =>
    obtain ⟨hc, hl, hs, hk⟩ := h
    subst hk
    cases hv : vs.ksnaps[j]? with
    | none =>
      have hlt : ¬ j < vs.ksnaps.length := by
        intro hlt; rw [List.getElem?_eq_getElem hlt] at hv; cases hv
      simp only [respOK, vstep, fstep, ksStep, hv, if_neg hlt]
      exact ⟨by simp, ⟨hc, hl, hs, rfl⟩⟩
    | some l =>
      have hlt : j < vs.ksnaps.length := by
        apply Classical.byContradiction; intro hn
        rw [List.getElem?_eq_none (by omega)] at hv; cases hv
      simp only [respOK, vstep, fstep, ksStep, hv, if_pos hlt]
      exact ⟨by simp, ⟨hc, hl, hs, rfl⟩⟩
  | readKeys j =>
    obtain ⟨hc, hl, hs, hk⟩ := h
    subst hk
    cases hv : vs.ksnaps[j]? with
    | none =>
      simp only [respOK, vstep, fstep, ksStep, hv]
      exact ⟨by simp, ⟨hc, hl, hs, rfl⟩⟩
    | some l =>
      simp only [respOK, vstep, fstep, ksStep, hv]
      exact ⟨List.isPerm_iff.2 (List.Perm.refl l), ⟨hc, hl, hs, rfl⟩⟩

/-- every answer of the value machine, for every operation sequence, is accepted by the reference -/
theorem check_vrun {vs : VSt} {fs : FSt} {ks : List (List Key)} (h : SimV vs fs ks) (ops : List Op) :
    check fs ks ops (vrun vs ops) = true := by
  induction ops generalizing vs fs ks with
  | nil => rfl
  | cons op t ih =>
    simp only [vrun, check, Bool.and_eq_true]
    exact ⟨(simV_step h op).1, ih (simV_step h op).2⟩

/-- after every operation sequence the value machine's map and the reference's function are the same map -/
theorem sim_vexec {vs : VSt} {fs : FSt} {ks : List (List Key)} (h : SimV vs fs ks) (ops : List Op) :
    ∃ ks', SimV (vexec vs ops) (fexec fs ops) ks' := by
  induction ops generalizing vs fs ks with
  | nil => exact ⟨ks, h⟩
  | cons op t ih => exact ih (simV_step h op).2

end Flyt.Store
