import FlytModel.Spec.Bind
/-!
# Helper definitions and lemmas for C16 (`Props/C16.lean`)

`jsonRoundTrip` is the property's reference written on its own ("encode the value as JSON and decode
it into the destination"), `bindVal` is then characterised branch by branch.
-/
namespace Flyt.Bind

variable {K T V B E : Type} [DecidableEq T]

/-- The reference of the property: `json.Marshal(val)` then `json.Unmarshal(bytes, dest)` for a valid
    destination `*t` holding `cur`, with the errors passed through. -/
def jsonRoundTrip (c : Codec T V B E) (val : Option V) (t : T) (cur : V) : Outcome T V B E :=
  match c.marshal val with
  | .error e => ⟨some (.marshal e), .ptr t cur, [.marshal val]⟩
  | .ok b => ⟨(c.unmarshal b t cur).2.map .unmarshal, .ptr t (c.unmarshal b t cur).1,
              [.marshal val, .unmarshal b (.ptr t cur)]⟩

/-- a destination Bind must refuse -/
def Dest.valid : Dest T V → Bool
  | .ptr _ _ => true
  | _ => false

theorem bindVal_invalid (c : Codec T V B E) (val : Option V) (d : Dest T V) (h : d.valid = false) :
    bindVal c val d = .ok ⟨some .badDest, d, []⟩ := by
  cases d <;> simp [Dest.valid] at h <;> simp [bindVal, Dest.kind, Dest.isNil, Res.bind]

theorem bindVal_same (c : Codec T V B E) (v : V) (t : T) (cur : V) (h : c.typeOf v = t) :
    bindVal c (some v) (.ptr t cur) = .ok ⟨none, .ptr t v, []⟩ := by
  simp [bindVal, Dest.kind, Dest.isNil, Dest.elemType, Dest.set, Res.bind, h]

theorem bindVal_other (c : Codec T V B E) (val : Option V) (t : T) (cur : V)
    (h : val.map c.typeOf ≠ some t) :
    bindVal c val (.ptr t cur) = .ok (jsonRoundTrip c val t cur) := by
  simp only [bindVal, Dest.kind, Dest.isNil, Dest.elemType, Res.bind, jsonRoundTrip, Dest.unmarshalInto]
  simp only [ne_eq, not_true_eq_false, ↓reduceIte, Bool.false_eq_true, h]
  cases c.marshal val <;> rfl

theorem bindVal_ptr (c : Codec T V B E) (val : Option V) (t : T) (cur : V) :
    bindVal c val (.ptr t cur) =
      match val with
      | some v => if c.typeOf v = t then .ok ⟨none, .ptr t v, []⟩ else .ok (jsonRoundTrip c (some v) t cur)
      | none => .ok (jsonRoundTrip c none t cur) := by
  cases val with
  | none => exact bindVal_other c none t cur (by simp)
  | some v =>
    by_cases h : c.typeOf v = t
    · simp [h, bindVal_same c v t cur h]
    · simp only [h, ↓reduceIte]; exact bindVal_other c (some v) t cur (by simpa using h)

theorem bindVal_not_panic (c : Codec T V B E) (val : Option V) (d : Dest T V) :
    ∃ o, bindVal c val d = .ok o := by
  cases d with
  | untypedNil => exact ⟨_, bindVal_invalid c val _ rfl⟩
  | nonPointer t => exact ⟨_, bindVal_invalid c val _ rfl⟩
  | nilPointer t => exact ⟨_, bindVal_invalid c val _ rfl⟩
  | ptr t cur =>
    rw [bindVal_ptr]
    cases val with
    | none => exact ⟨_, rfl⟩
    | some v => by_cases h : c.typeOf v = t <;> simp [h]

omit [DecidableEq T] in
/-- the error of a JSON round trip is exactly the codec's error, tagged with the failing phase -/
theorem jsonRoundTrip_err (c : Codec T V B E) (val : Option V) (t : T) (cur : V) :
    (jsonRoundTrip c val t cur).err =
      match c.marshal val with
      | .error e => some (.marshal e)
      | .ok b => (c.unmarshal b t cur).2.map .unmarshal := by
  unfold jsonRoundTrip; cases c.marshal val <;> rfl

end Flyt.Bind
