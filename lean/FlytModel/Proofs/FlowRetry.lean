import FlytModel.Proofs.Path
import FlytModel.Spec.FlowRetry
/-!
# Helper lemmas for the bridge theorem of `Spec.c02Flow` (`Props/C02Flow.lean`)

The attempts of `Run` on a flow with a retry budget are counted from outside as prep events of the flow's start node
`s` (`Spec.startPreps`). This file shows that the count is exact for the model:

* a leaf with a prep callback, run on a live context, emits exactly one prep event (`runLeaf_live_startPreps`);
* a run that stays inside a set of nodes `Safe` that does not contain `s` and is closed under "start node of" and
  "target of a connection of" emits no prep event of `s` (`noPrep_run`, fuel induction: also for runs cut by `fuel`);
* hence every attempt of `Flow.Exec` from `s` shows as exactly one prep event of `s` (`flowLoop_start_startPreps`) and
  `startPreps s (events) = attempts` for the whole retry loop (`retryLoop_startPreps`);
* the attempt count of `retryLoop` in terms of its outcome alone (`retryLoop_ok_pos`, `retryLoop_nonctx_exhausts`: an
  outcome other than an action or the context's error is only ever returned when the budget is used up — no hypothesis
  on cancellation is needed), and `retryLoop_not_both`, `retryLoop_lowfuel`.
-/
namespace Flyt.Proofs
open Flyt

/-! ### counting prep events of one node -/

/-- `e` is a prep event of node `s` -/
def isPrepOf (s : NodeId) : Ev → Bool
  | .prep n _ _ => n == s
  | _ => false

theorem startPreps_eq (s : NodeId) (tr : List Ev) :
    Spec.startPreps s tr = (tr.filter (isPrepOf s)).length := by
  unfold Spec.startPreps
  congr 2

theorem startPreps_nil (s : NodeId) : Spec.startPreps s [] = 0 := rfl

theorem startPreps_append (s : NodeId) (a b : List Ev) :
    Spec.startPreps s (a ++ b) = Spec.startPreps s a + Spec.startPreps s b := by
  simp [startPreps_eq]

theorem startPreps_zero {s : NodeId} {tr : List Ev} (h : ∀ e ∈ tr, isPrepOf s e = false) :
    Spec.startPreps s tr = 0 := by
  rw [startPreps_eq, List.length_eq_zero_iff, List.filter_eq_nil_iff]
  intro e he
  simp [h e he]

/-- wait events are not prep events: the driver's filtering of the trace does not change the count -/
theorem startPreps_noWaits (s : NodeId) (tr : List Ev) :
    Spec.startPreps s (Spec.noWaits tr) = Spec.startPreps s tr := by
  rw [startPreps_eq, startPreps_eq, Spec.noWaits, List.filter_filter]
  congr 1
  apply List.filter_congr
  intro e _
  cases e <;> simp [isPrepOf, Ev.isWait]

theorem LeafEv.notPrepOf {n v sid e s} (h : LeafEv n v sid e) (hne : n ≠ s) : isPrepOf s e = false := by
  cases e <;> simp_all [LeafEv, isPrepOf]

theorem BatchEv.notPrepOf {n v sid e} (s : NodeId) (h : BatchEv n v sid e) : isPrepOf s e = false := by
  cases e <;> simp_all [BatchEv, ItemEv, isPrepOf]

/-- a leaf with a prep callback, run on a live context, emits exactly one prep event -/
theorem runLeaf_live_startPreps {kind n v sid cfg scr evs c out}
    (h : runLeaf kind n v sid cfg scr .live = (evs, c, out)) (hp : cfg.prepS ≠ .absent) :
    Spec.startPreps n evs = 1 := by
  have one : Spec.startPreps n [Ev.prep n v sid] = 1 := by simp [startPreps_eq, isPrepOf]
  have body : ∀ {pev pv aev c2 ares fev c3 eres}, PrepOk kind n v sid cfg scr pev pv →
      ExecPhase kind n v cfg scr pv aev c2 ares fev c3 eres → Spec.startPreps n (pev ++ aev ++ fev) = 1 := by
    intro pev pv aev c2 ares fev c3 eres hP hE
    rcases hP with ⟨ha, _, _⟩ | ⟨_, rfl, _⟩
    · exact absurd ha hp
    · rw [startPreps_append, startPreps_append, one, startPreps_zero, startPreps_zero]
      · intro e he
        obtain ⟨a, err, rfl⟩ := (execPhase_mem hE).2 e he
        rfl
      · intro e he
        rcases (execPhase_mem hE).1 e he with ⟨k, a, rfl⟩ | ⟨k, d, f, rfl⟩ <;> rfl
  have post : ∀ a b, Spec.startPreps n [Ev.post n v sid a b] = 0 := fun a b => rfl
  cases leafShape_of_runLeaf h with
  | prepErr => exact one
  | prepCancel => exact one
  | execErr hP hE => exact body hP hE
  | noPost hP hE _ => exact body hP hE
  | postErr hP hE _ _ => rw [startPreps_append, body hP hE, post]
  | postOk hP hE _ _ => rw [startPreps_append, body hP hE, post]

theorem runLeaf_live_startPreps' {kind n v sid cfg scr} (hp : cfg.prepS ≠ .absent) :
    Spec.startPreps n (runLeaf kind n v sid cfg scr .live).1 = 1 :=
  runLeaf_live_startPreps (c := (runLeaf kind n v sid cfg scr .live).2.1)
    (out := (runLeaf kind n v sid cfg scr .live).2.2) rfl hp

/-! ### runs that stay away from `s` -/

/-- every (non-nil) target the table can yield is in `Safe` -/
def TblSafe (Safe : NodeId → Prop) (tbl : Table) : Prop :=
  ∀ n a d, tableLookup tbl n a = some (some d) → Safe d

/-- `Safe` is closed under what a run can reach from a flow node: its start node and the targets of its connections -/
structure Closed (env : Env) (Safe : NodeId → Prop) : Prop where
  start : ∀ id t ops, Safe id → env.arena id = .flow (some t) ops → Safe t
  conn : ∀ id st ops, Safe id → env.arena id = .flow st ops → ∀ c ∈ ops, ∀ d, c.dst = some d → Safe d

theorem next_mem {ops : List ConnOp} {n : NodeId} {a : Action} {d : Option NodeId} (h : next ops n a = some d) :
    ∃ c ∈ ops, c.dst = d := by
  unfold next at h
  rw [Option.map_eq_some_iff] at h
  obtain ⟨c, hc, rfl⟩ := h
  exact ⟨c, by simpa using List.mem_of_find?_eq_some hc, rfl⟩

theorem tblSafe_buildTable {Safe : NodeId → Prop} {ops : List ConnOp}
    (h : ∀ c ∈ ops, ∀ d, c.dst = some d → Safe d) : TblSafe Safe (buildTable ops) := by
  intro n a d hl
  rw [Table.tableLookup_buildTable] at hl
  obtain ⟨c, hc, hd⟩ := next_mem hl
  exact h c hc d hd

/-- a run that starts at a node of `Safe` (closed, `s ∉ Safe`) emits no prep event of `s` — whatever the fuel -/
theorem noPrep_run (env : Env) (s : NodeId) (Safe : NodeId → Prop) (hs : ¬ Safe s) (hcl : Closed env Safe)
    (sid : StoreId) (f : Nat) :
    (∀ id st, Safe id → ∀ e ∈ (runNode env f id sid st).1, isPrepOf s e = false) ∧
    (∀ tbl cur st, TblSafe Safe tbl → Safe cur → ∀ e ∈ (flowLoop env f tbl cur sid st).1, isPrepOf s e = false) := by
  induction f with
  | zero =>
    constructor
    · intro id st _ e he; simp [runNode] at he
    · intro tbl cur st _ _ e he; simp [flowLoop] at he
  | succ f ih =>
    obtain ⟨ihN, ihL⟩ := ih
    constructor
    · intro id st hid e he
      have hne : id ≠ s := fun h => hs (h ▸ hid)
      cases hA : env.arena id with
      | leaf cfg =>
        rw [runNode_leaf hA] at he
        simp only [leafStep] at he
        exact (runLeaf_mem (evs := (runLeaf _ _ _ _ _ _ _).1) (c := (runLeaf _ _ _ _ _ _ _).2.1)
          (out := (runLeaf _ _ _ _ _ _ _).2.2) rfl e he).notPrepOf hne
      | batch cfg =>
        rw [runNode_batch hA] at he
        simp only [batchStep] at he
        exact (runBatch_mem (evs := (runBatch _ _ _ _ _ _ _).1) (c := (runBatch _ _ _ _ _ _ _).2.1)
          (out := (runBatch _ _ _ _ _ _ _).2.2) rfl e he).notPrepOf s
      | flow start ops =>
        simp only [runNode, hA] at he
        cases hc : st.ctx with
        | done k => simp [hc] at he
        | live =>
          simp only [hc] at he
          cases start with
          | none => simp at he
          | some t =>
            simp only at he
            have hmem := ihL (buildTable ops) t st (tblSafe_buildTable (hcl.conn id _ ops hid hA))
              (hcl.start id t ops hid hA)
            rcases hl : flowLoop env f (buildTable ops) t sid st with ⟨evs, st', out⟩
            rw [hl] at he hmem
            cases out <;> exact hmem e (by simpa using he)
    · intro tbl cur st htbl hcur e he
      rw [flowLoop] at he
      cases hc : st.ctx with
      | done k => simp [hc] at he
      | live =>
        simp only [hc] at he
        have h1 := ihN cur st hcur
        rcases hn : runNode env f cur sid st with ⟨evs1, st1, r1⟩
        rw [hn] at he h1
        cases r1 with
        | ok a =>
          simp only at he
          cases hx : tableLookup tbl cur a with
          | none => simp only [hx] at he; exact h1 e he
          | some t =>
            cases t with
            | none => simp only [hx] at he; exact h1 e he
            | some nxt =>
              simp only [hx] at he
              have h2 := ihL tbl nxt st1 htbl (htbl cur a nxt hx)
              rcases hl : flowLoop env f tbl nxt sid st1 with ⟨evs2, st2, r2⟩
              rw [hl] at he h2
              simp only [List.mem_append] at he
              rcases he with he | he
              · exact h1 e he
              · exact h2 e he
        | err x => exact h1 e he
        | both a x => exact h1 e he
        | fuel => exact h1 e he

/-! ### one attempt of `Flow.Exec` = one prep event of the start node -/

/-- the shape the driver accepts, abstractly: `s` is a leaf with a prep callback, outside a closed set `Safe` that holds
    every target of the root flow's table -/
structure Shape (env : Env) (s : NodeId) (Safe : NodeId → Prop) (tbl : Table) : Prop where
  leaf : ∃ cfg, env.arena s = .leaf cfg ∧ cfg.prepS ≠ .absent
  notSafe : ¬ Safe s
  closed : Closed env Safe
  tbl : TblSafe Safe tbl

theorem flowLoop_start_startPreps {env : Env} {s : NodeId} {Safe : NodeId → Prop} {tbl : Table}
    (sh : Shape env s Safe tbl) (sid : StoreId) (f : Nat) (st : RunSt) (hlive : st.ctx = .live) :
    Spec.startPreps s (flowLoop env (f + 2) tbl s sid st).1 = 1 := by
  obtain ⟨cfg, hA, hp⟩ := sh.leaf
  rw [flowLoop]
  simp only [hlive]
  rw [runNode_leaf hA]
  have key : Spec.startPreps s (leafStep env s sid cfg st).1 = 1 := by
    simp only [leafStep, hlive]
    exact runLeaf_live_startPreps' hp
  rcases hn : leafStep env s sid cfg st with ⟨evs1, st1, r1⟩
  rw [hn] at key
  cases r1 with
  | ok a =>
    simp only
    cases hx : tableLookup tbl s a with
    | none => exact key
    | some t =>
      cases t with
      | none => exact key
      | some nxt =>
        simp only
        have h2 := (noPrep_run env s Safe sh.notSafe sh.closed sid (f + 1)).2 tbl nxt st1 sh.tbl (sh.tbl s a nxt hx)
        rcases hl : flowLoop env (f + 1) tbl nxt sid st1 with ⟨evs2, st2, r2⟩
        rw [hl] at h2
        simp only
        rw [startPreps_append, key, startPreps_zero h2]
  | err x => exact key
  | both a x => exact key
  | fuel => exact key

/-- with less than 2 units of fuel an attempt does nothing and reports `fuel` -/
theorem flowLoop_lowfuel {env : Env} {fuel : Nat} (hf : fuel < 2) (tbl : Table) (s : NodeId) (sid : StoreId)
    (st : RunSt) (hlive : st.ctx = .live) : flowLoop env fuel tbl s sid st = ([], st, .fuel) := by
  match fuel, hf with
  | 0, _ => simp [flowLoop]
  | 1, _ => simp [flowLoop, hlive, runNode]

/-! ### the retry loop -/

/-- **the key lemma**: the number of attempts is the number of prep events of the start node -/
theorem retryLoop_startPreps {env : Env} {s : NodeId} {Safe : NodeId → Prop} {tbl : Table}
    (sh : Shape env s Safe tbl) (sid : StoreId) (fuel : Nat) (hf : 2 ≤ fuel) :
    ∀ (k : Nat) (last : Outcome) (st : RunSt),
      Spec.startPreps s (retryLoop env fuel tbl s sid k last st).1 = (retryLoop env fuel tbl s sid k last st).2.2.2
  | 0, _, _ => by simp [retryLoop, startPreps_nil]
  | k + 1, last, st => by
    unfold retryLoop
    cases hc : st.ctx with
    | done c => simp [startPreps_nil]
    | live =>
      simp only
      obtain ⟨f, rfl⟩ : ∃ f, fuel = f + 2 := ⟨fuel - 2, by omega⟩
      have h1 := flowLoop_start_startPreps sh sid f st hc
      rcases hl : flowLoop env (f + 2) tbl s sid st with ⟨evs, st', out⟩
      rw [hl] at h1
      cases out with
      | ok a => simpa using h1
      | err e =>
        have := retryLoop_startPreps sh sid (f + 2) hf k (.err e) st'
        simp only [startPreps_append, h1, this]; omega
      | both a e =>
        have := retryLoop_startPreps sh sid (f + 2) hf k (.both a e) st'
        simp only [startPreps_append, h1, this]; omega
      | fuel =>
        have := retryLoop_startPreps sh sid (f + 2) hf k .fuel st'
        simp only [startPreps_append, h1, this]; omega

/-- a retry loop that ends with an action has made at least one attempt (given it had a budget) -/
theorem retryLoop_ok_pos (env : Env) (fuel : Nat) (tbl : Table) (s : NodeId) (sid : StoreId)
    (k : Nat) (last : Outcome) (st : RunSt) (a : Action)
    (h : (retryLoop env fuel tbl s sid (k + 1) last st).2.2.1 = .ok a) :
    1 ≤ (retryLoop env fuel tbl s sid (k + 1) last st).2.2.2 := by
  unfold retryLoop at h ⊢
  cases hc : st.ctx with
  | done c => simp [hc] at h
  | live =>
    simp only
    rcases hl : flowLoop env fuel tbl s sid st with ⟨evs, st', out⟩
    cases out <;> simp

/-- an outcome that is neither an action nor the context's error is only returned when the budget is used up:
    the loop leaves early only by success (`break`) or by the context check between attempts -/
theorem retryLoop_nonctx_exhausts (env : Env) (fuel : Nat) (tbl : Table) (s : NodeId) (sid : StoreId) :
    ∀ (k : Nat) (last : Outcome) (st : RunSt),
      (∀ a, (retryLoop env fuel tbl s sid k last st).2.2.1 ≠ .ok a) →
      (∀ c, (retryLoop env fuel tbl s sid k last st).2.2.1 ≠ .err (.ctx c)) →
      (retryLoop env fuel tbl s sid k last st).2.2.2 = k
  | 0, _, _ => by simp [retryLoop]
  | k + 1, last, st => by
    unfold retryLoop
    cases hc : st.ctx with
    | done c => intro _ h; exact absurd rfl (h c)
    | live =>
      simp only
      rcases hl : flowLoop env fuel tbl s sid st with ⟨evs, st', out⟩
      cases out with
      | ok a => intro h; exact absurd rfl (h a)
      | err e =>
        intro h1 h2
        have := retryLoop_nonctx_exhausts env fuel tbl s sid k (.err e) st' (by simpa using h1) (by simpa using h2)
        simpa using this
      | both a e =>
        intro h1 h2
        have := retryLoop_nonctx_exhausts env fuel tbl s sid k (.both a e) st' (by simpa using h1) (by simpa using h2)
        simpa using this
      | fuel =>
        intro h1 h2
        have := retryLoop_nonctx_exhausts env fuel tbl s sid k .fuel st' (by simpa using h1) (by simpa using h2)
        simpa using this

/-- the model never produces a `both` outcome -/
theorem flowLoop_not_both {env : Env} {f : Nat} {ops : List ConnOp} {cur : NodeId} {sid : StoreId} {st st' : RunSt}
    {evs : List Ev} {a : Action} {e : ErrRoot} :
    flowLoop env f (buildTable ops) cur sid st ≠ (evs, st', .both a e) := by
  intro h
  exact big_proper (big_of_flowLoop h (by simp))

theorem retryLoop_not_both (env : Env) (fuel : Nat) (ops : List ConnOp) (s : NodeId) (sid : StoreId) :
    ∀ (k : Nat) (last : Outcome) (st : RunSt), (∀ a e, last ≠ .both a e) →
      ∀ a e, (retryLoop env fuel (buildTable ops) s sid k last st).2.2.1 ≠ .both a e
  | 0, _, _ => by simp [retryLoop]
  | k + 1, last, st => by
    intro _
    unfold retryLoop
    cases hc : st.ctx with
    | done c => simp
    | live =>
      simp only
      rcases hl : flowLoop env fuel (buildTable ops) s sid st with ⟨evs, st', out⟩
      cases out with
      | ok a => simp
      | err e => simpa using retryLoop_not_both env fuel ops s sid k (.err e) st' (by simp)
      | both a e => exact absurd hl flowLoop_not_both
      | fuel => simpa using retryLoop_not_both env fuel ops s sid k .fuel st' (by simp)

/-- with less than 2 units of fuel nothing is ever called: a retry loop with a budget, on a live context, ends `fuel` -/
theorem retryLoop_lowfuel {env : Env} {fuel : Nat} (hf : fuel < 2) (tbl : Table) (s : NodeId) (sid : StoreId) :
    ∀ (k : Nat) (last : Outcome) (st : RunSt), st.ctx = .live → (k = 0 → last = .fuel) →
      (retryLoop env fuel tbl s sid k last st).2.2.1 = .fuel
  | 0, _, _ => by intro _ h; simp [retryLoop, h]
  | k + 1, last, st => by
    intro hc _
    unfold retryLoop
    simp only [hc, flowLoop_lowfuel hf tbl s sid st hc]
    exact retryLoop_lowfuel hf tbl s sid k .fuel st hc (fun _ => rfl)

end Flyt.Proofs
