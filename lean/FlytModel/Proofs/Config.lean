import FlytModel.Spec.Config
/-!
# Helper lemmas for C19 (configuration styles)

* `lastSome` algebra (append, filter, all-none);
* `foldl_proj`: a fold of setters, seen through one field, is "last step that writes the field";
* the commutation lemma for `NewNode`'s base-options-first order (`lastSome_split`);
* `node_field` / `batch_field`: one field of `build k steps` is `lastSome` over the effective order.
-/
namespace Flyt.Config

/-! ### `lastSome` -/

theorem lastSome_append {α : Type} (w : Step → Option α) (a b : List Step) :
    lastSome w (a ++ b) = match lastSome w b with | some x => some x | none => lastSome w a := by
  induction a with
  | nil => simp only [List.nil_append, lastSome]; cases lastSome w b <;> rfl
  | cons s rest ih =>
    simp only [List.cons_append, lastSome, ih]
    cases lastSome w b <;> rfl

theorem lastSome_append_getD {α : Type} (w : Step → Option α) (a b : List Step) (d : α) :
    (lastSome w (a ++ b)).getD d = (lastSome w b).getD ((lastSome w a).getD d) := by
  rw [lastSome_append]
  cases lastSome w b <;> rfl

theorem lastSome_none {α : Type} (w : Step → Option α) (l : List Step)
    (h : ∀ s, s ∈ l → w s = none) : lastSome w l = none := by
  induction l with
  | nil => rfl
  | cons s rest ih =>
    have h1 : lastSome w rest = none := ih (fun x hx => h x (List.mem_cons_of_mem _ hx))
    simp only [lastSome, h1]
    exact h s List.mem_cons_self

theorem lastSome_filter {α : Type} (w : Step → Option α) (q : Step → Bool) (l : List Step)
    (h : ∀ s, s ∈ l → q s = false → w s = none) : lastSome w (l.filter q) = lastSome w l := by
  induction l with
  | nil => rfl
  | cons s rest ih =>
    have ih' := ih (fun x hx => h x (List.mem_cons_of_mem _ hx))
    cases hq : q s with
    | true =>
      rw [List.filter_cons_of_pos (by simp [hq])]
      simp only [lastSome, ih']
    | false =>
      have hw : w s = none := h s List.mem_cons_self hq
      rw [List.filter_cons_of_neg (by simp [hq]), ih']
      simp only [lastSome, hw]
      cases lastSome w rest <;> rfl

/-- commutation of the two option groups: if `w` only looks at steps on one side of the split `q`,
    applying the `q`-steps first and the others afterwards is the same as applying all in order -/
theorem lastSome_split {α : Type} (w : Step → Option α) (q : Step → Bool) (l : List Step) (d : α)
    (h : (∀ s, q s = true → w s = none) ∨ (∀ s, q s = false → w s = none)) :
    (lastSome w (l.filter (fun s => !q s))).getD ((lastSome w (l.filter q)).getD d) = (lastSome w l).getD d := by
  cases h with
  | inl h =>
    have h1 : lastSome w (l.filter q) = none :=
      lastSome_none w _ (fun s hs => h s (List.mem_filter.mp hs).2)
    have h2 : lastSome w (l.filter (fun s => !q s)) = lastSome w l :=
      lastSome_filter w _ l (fun s _ hq => h s (by simpa using hq))
    rw [h1, h2]; rfl
  | inr h =>
    have h1 : lastSome w (l.filter (fun s => !q s)) = none :=
      lastSome_none w _ (fun s hs => h s (by simpa using (List.mem_filter.mp hs).2))
    have h2 : lastSome w (l.filter q) = lastSome w l :=
      lastSome_filter w _ l (fun s _ hq => h s hq)
    rw [h1, h2]; rfl

/-! ### folds seen through one field -/

theorem foldl_proj {α : Type} (π : Node → α) (w : Step → Option α) (f : Node → Step → Node)
    (l : List Step) (h : ∀ n s, s ∈ l → π (f n s) = (w s).getD (π n)) (n : Node) :
    π (l.foldl f n) = (lastSome w l).getD (π n) := by
  induction l generalizing n with
  | nil => rfl
  | cons s rest ih =>
    have ih' := ih (fun n x hx => h n x (List.mem_cons_of_mem _ hx)) (f n s)
    simp only [List.foldl_cons, ih', lastSome, h n s List.mem_cons_self]
    cases lastSome w rest <;> rfl

/-! ### execution order -/

theorem optsFirst_all_bld (l : List Step) (h : l.all isBld = true) :
    l.filter isOpt = [] ∧ l.filter isBld = l := by
  induction l with
  | nil => exact ⟨rfl, rfl⟩
  | cons s rest ih =>
    simp only [List.all_cons, Bool.and_eq_true] at h
    obtain ⟨h1, h2⟩ := ih h.2
    have hb : isBld s = true := h.1
    have ho : isOpt s = false := by
      cases s with | mk st f t => cases f <;> simp_all [isOpt, isBld]
    constructor
    · rw [List.filter_cons_of_neg (by simp [ho]), h1]
    · rw [List.filter_cons_of_pos hb, h2]

theorem effective_of_optsFirst (l : List Step) (h : optsFirst l = true) : effective l = l := by
  induction l with
  | nil => rfl
  | cons s rest ih =>
    unfold optsFirst at h
    by_cases hf : s.form = .opt
    · simp only [hf, if_true] at h
      have ho : isOpt s = true := by simp [isOpt, hf]
      have hb : isBld s = false := by simp [isBld, hf]
      have := ih h
      unfold effective at this ⊢
      rw [List.filter_cons_of_pos ho, List.filter_cons_of_neg (by simp [hb]), List.cons_append, this]
    · simp only [hf, if_false] at h
      obtain ⟨h1, h2⟩ := optsFirst_all_bld rest h
      have hb : isBld s = true := by
        cases s with | mk st f t => cases f <;> simp_all [isBld]
      have ho : isOpt s = false := by
        cases s with | mk st f t => cases f <;> simp_all [isOpt]
      unfold effective
      rw [List.filter_cons_of_neg (by simp [ho]), List.filter_cons_of_pos hb, h1, h2, List.nil_append]

/-! ### one field of a built node -/

theorem node_field {α : Type} (π : Node → α) (w : Step → Option α)
    (hsplit : (∀ s : Step, s.setting.isNodeOption = true → w s = none)
            ∨ (∀ s : Step, s.setting.isNodeOption = false → w s = none))
    (hbo : ∀ (n : Node) (s : Step), s.setting.isNodeOption = true →
      π { n with base := applyNodeOption s.setting n.base } = (w s).getD (π n))
    (hco : ∀ (n : Node) (s : Step), s.setting.isNodeOption = false →
      π (applyCustomOption s n) = (w s).getD (π n))
    (hnb : ∀ (n : Node) (s : Step), π (nodeBuilderCall s n) = (w s).getD (π n))
    (steps : List Step) :
    π (build .node steps) = (lastSome w (effective steps)).getD (π emptyNode) := by
  unfold build newNode effective
  simp only []
  rw [foldl_proj π w (fun n s => nodeBuilderCall s n) _ (fun n s _ => hnb n s)]
  rw [foldl_proj π w (fun n o => applyCustomOption o n) _
        (fun n s hs => hco n s (by simpa using (List.mem_filter.mp hs).2))]
  rw [foldl_proj π w (fun n o => { n with base := applyNodeOption o.setting n.base }) _
        (fun n s hs => hbo n s (List.mem_filter.mp hs).2)]
  rw [lastSome_append_getD]
  congr 1
  exact lastSome_split w (fun s => s.setting.isNodeOption) _ _ hsplit

theorem batch_opts_all_base (steps : List Step) (hdom : ∀ s, s ∈ steps → inDomain .batch s = true) :
    (steps.filter isOpt).filter (fun o => o.setting.isNodeOption) = steps.filter isOpt := by
  apply List.filter_eq_self.mpr
  intro s hs
  obtain ⟨hm, ho⟩ := List.mem_filter.mp hs
  have hd := hdom s hm
  cases s with
  | mk st f t =>
    cases f with
    | bld => simp [isOpt] at ho
    | opt =>
      cases st <;> first | rfl | (rename_i b; cases b <;> simp [inDomain] at hd) | simp [inDomain] at hd

theorem batch_field {α : Type} (π : Node → α) (w : Step → Option α)
    (hbo : ∀ (n : Node) (s : Step), s.setting.isNodeOption = true →
      π { n with base := applyNodeOption s.setting n.base } = (w s).getD (π n))
    (hbb : ∀ (n : Node) (s : Step), inDomain .batch s = true → s.form = .bld →
      π (batchBuilderCall s n) = (w s).getD (π n))
    (steps : List Step) (hdom : ∀ s, s ∈ steps → inDomain .batch s = true) :
    π (build .batch steps) = (lastSome w (effective steps)).getD (π emptyNode) := by
  unfold build newBatchNode effective
  simp only []
  rw [batch_opts_all_base steps hdom]
  rw [foldl_proj π w (fun n s => batchBuilderCall s n) _
        (fun n s hs => hbb n s (hdom s (List.mem_filter.mp hs).1)
          (by have := (List.mem_filter.mp hs).2; simpa [isBld] using this))]
  rw [foldl_proj π w (fun n o => { n with base := applyNodeOption o.setting n.base }) _
        (fun n s hs => hbo n s (by
          have : s ∈ (steps.filter isOpt).filter (fun o => o.setting.isNodeOption) := by
            rw [batch_opts_all_base steps hdom]; exact hs
          exact (List.mem_filter.mp this).2))]
  rw [lastSome_append_getD]

/-! ### extensionality -/

theorem BaseNode.ext' {a b : BaseNode} (h1 : a.maxRetries = b.maxRetries) (h2 : a.wait = b.wait)
    (h3 : a.batchConcurrency = b.batchConcurrency) (h4 : a.batchErrorHandling = b.batchErrorHandling) : a = b := by
  cases a; cases b; simp_all

theorem Node.ext' {a b : Node} (h0 : a.base = b.base) (h1 : a.prepFunc = b.prepFunc)
    (h2 : a.execFunc = b.execFunc) (h3 : a.postFunc = b.postFunc)
    (h4 : a.execFallbackFunc = b.execFallbackFunc) (h5 : a.batchPrepFunc = b.batchPrepFunc)
    (h6 : a.batchPostFunc = b.batchPostFunc) : a = b := by
  cases a; cases b; simp_all

end Flyt.Config
