import FlytModel.Proofs.Cleared
import FlytModel.Proofs.Path
/-!
# Bridges to the executable predicates of `Spec/Flow.lean` (what the driver evaluates on observations)
-/
namespace Flyt.Proofs
open Flyt

theorem noWaits_append (l1 l2 : List Ev) : Spec.noWaits (l1 ++ l2) = Spec.noWaits l1 ++ Spec.noWaits l2 := by
  simp [Spec.noWaits]

theorem noWaits_idem (l : List Ev) : Spec.noWaits (Spec.noWaits l) = Spec.noWaits l := by
  simp [Spec.noWaits]

theorem mem_noWaits {l : List Ev} {e : Ev} : e ∈ Spec.noWaits l ↔ e ∈ l ∧ e.isWait = false := by
  simp [Spec.noWaits]

theorem fatal_not_wait {env : Env} {e : Ev} {u} (h : Spec.scriptFatal env e = some u) : e.isWait = false := by
  cases e <;> simp_all [Spec.scriptFatal, Ev.isWait]

theorem findIdx?_snoc_last {α} {p : α → Bool} {l : List α} {e : α} (hl : ∀ a ∈ l, p a = false) (he : p e = true) :
    (l ++ [e]).findIdx? p = some l.length := by
  rw [List.findIdx?_append, List.findIdx?_eq_none_iff.mpr (fun x hx => hl x hx)]
  simp [List.findIdx?_cons, he]

/-- **C04 as the driver evaluates it** (`Spec.c04`, scenarios without cancellation) on the model's own observation. -/
theorem spec_c04_of_big {env : Env} {sid task st evs st' out} (hb : Big env sid task st evs st' out)
    (hlive : st.ctx = .live) (hnc : ∀ e ∈ evs, cancelsAt env e = false) (store : List Nat) :
    Spec.c04 env ⟨Spec.noWaits evs, out, store⟩ = true := by
  have fs := big_failstop hb
  unfold Spec.c04
  simp only [noWaits_idem]
  by_cases hex : ∃ e ∈ evs, ∃ u, Spec.scriptFatal env e = some u
  · obtain ⟨e, he, u, hu⟩ := hex
    have hout := fs.fatalErr e he u hu
    subst hout
    obtain ⟨e', hl, hf⟩ := fs.userErr u rfl
    obtain ⟨pre, rfl⟩ := List.getLast?_eq_some_iff.mp hl
    have hpre : ∀ a ∈ pre, Spec.scriptFatal env a = none := by
      have := fs.noneAfter
      rw [List.pairwise_append] at this
      intro a ha
      exact this.2.2 a ha e' (by simp)
    have hnw : Spec.noWaits (pre ++ [e']) = Spec.noWaits pre ++ [e'] := by
      rw [noWaits_append]
      simp [Spec.noWaits, fatal_not_wait hf]
    rw [hnw, findIdx?_snoc_last (p := fun e => (Spec.scriptFatal env e).isSome)
      (fun a ha => by simp [hpre a (mem_noWaits.mp ha).1]) (by simp [hf])]
    simp [hf]
  · have hnf : ∀ e ∈ evs, Spec.scriptFatal env e = none := by
      intro e he
      cases hf : Spec.scriptFatal env e with
      | none => rfl
      | some u => exact absurd ⟨e, he, u, hf⟩ hex
    rw [List.findIdx?_eq_none_iff.mpr (fun x hx => by simp [hnf x (mem_noWaits.mp hx).1])]
    have hp := big_proper hb
    cases out with
    | ok a => rfl
    | err r =>
      cases r with
      | user u =>
        obtain ⟨e, hl, hf⟩ := fs.userErr u rfl
        rw [hnf e (List.mem_of_getLast? hl)] at hf; cases hf
      | ctx k =>
        obtain ⟨_, e, he, hz⟩ := big_ctxErr_live hb hlive rfl
        rw [hnc e he] at hz; cases hz
      | fw t => cases t <;> simp_all [Outcome.Proper]
    | both a e => simp [Outcome.Proper] at hp
    | fuel => simp [Outcome.Proper] at hp

/-! ### C05 -/

theorem findIdx?_some_split {α} {p : α → Bool} {l : List α} {j : Nat} (d : α) (h : l.findIdx? p = some j) :
    ∃ pre c post, l = pre ++ c :: post ∧ p c = true ∧ (∀ a ∈ pre, p a = false) ∧
      l.getD j d = c ∧ l.drop (j + 1) = post := by
  induction l generalizing j with
  | nil => simp at h
  | cons x t ih =>
    rw [List.findIdx?_cons] at h
    by_cases hx : p x = true
    · simp only [hx, if_true, Option.some.injEq] at h
      subst h
      exact ⟨[], x, t, rfl, hx, by simp, by simp, by simp⟩
    · simp only [hx] at h
      cases ht : t.findIdx? p with
      | none => rw [ht] at h; simp at h
      | some i =>
        rw [ht] at h
        simp only [Bool.false_eq_true, if_false, Option.map_some, Option.some.injEq] at h
        subst h
        obtain ⟨pre, c, post, rfl, hc, hpre, hg, hd⟩ := ih ht
        refine ⟨x :: pre, c, post, rfl, hc, ?_, ?_, ?_⟩
        · intro a ha
          simp only [List.mem_cons] at ha
          rcases ha with rfl | ha
          · simp at hx ⊢; exact hx
          · exact hpre a ha
        · simpa using hg
        · simpa using hd

theorem pairwise_mem_cases {α} {R : α → α → Prop} {l : List α} (h : l.Pairwise R) {a b : α} (ha : a ∈ l)
    (hb : b ∈ l) : a = b ∨ R a b ∨ R b a := by
  induction h with
  | nil => cases ha
  | @cons x t hx _ ih =>
    simp only [List.mem_cons] at ha hb
    rcases ha with rfl | ha <;> rcases hb with rfl | hb
    · exact .inl rfl
    · exact .inr (.inl (hx b hb))
    · exact .inr (.inr (hx a ha))
    · exact ih ha hb

/-- events of the same (node, visit) are of the same kind of node -/
theorem nodeEv_same_kind {env : Env} {sid : StoreId} {e1 e2 : Ev} (h1 : NodeEv env sid e1) (h2 : NodeEv env sid e2)
    (hk : Spec.evKey e1 = Spec.evKey e2) : Spec.isBatchEv e1 = Spec.isBatchEv e2 := by
  obtain ⟨n1, v1, h1⟩ := h1
  obtain ⟨n2, v2, h2⟩ := h2
  rcases h1 with ⟨c1, a1, l1⟩ | ⟨c1, a1, b1⟩ <;> rcases h2 with ⟨c2, a2, l2⟩ | ⟨c2, a2, b2⟩
  · rw [l1.notBatch, l2.notBatch]
  · rw [l1.key, b2.key] at hk; cases hk; rw [a1] at a2; cases a2
  · rw [b1.key, l2.key] at hk; cases hk; rw [a1] at a2; cases a2
  · rw [b1.isBatch, b2.isBatch]

theorem runLeaf_no_noStart {kind n v sid cfg scr ctx evs c} :
    runLeaf kind n v sid cfg scr ctx ≠ (evs, c, .err (.fw .noStart)) := by
  intro h
  have := runLeaf_proper kind n v sid cfg scr ctx
  cases ctx with
  | done k => rw [runLeaf_done] at h; cases h
  | live =>
    generalize ho : Outcome.err (.fw .noStart) = out at h
    cases leafShape_of_runLeaf h with
    | prepErr => cases ho
    | prepCancel => cases ho
    | execErr hP hE =>
      cases ho
      rcases fallbackPhase_err hE.2 with ⟨u, hu⟩ | ⟨k, hk⟩
      · cases hu
      · cases hk
    | noPost => cases ho
    | postErr => cases ho
    | postOk => cases ho

theorem runBatch_no_noStart {kind n v sid cfg scr ctx evs c} :
    runBatch kind n v sid cfg scr ctx ≠ (evs, c, .err (.fw .noStart)) := by
  intro h
  generalize ho : Outcome.err (.fw .noStart) = out at h
  cases batchShape_of_runBatch h <;> cases ho

/-- "no start node" is reported only while the context is still live -/
theorem big_noStart_live {env : Env} {sid task st evs st' r} (h : Big env sid task st evs st' r) :
    r = .err (.fw .noStart) → st.ctx = .live → st'.ctx = .live := by
  induction h with
  | leaf hA h => intro hr; subst hr; exact absurd (leafStep_ctx h) runLeaf_no_noStart
  | batch hA h => intro hr; subst hr; exact absurd (batchStep_ctx h) runBatch_no_noStart
  | flowDone => intro hr; cases hr
  | flowNoStart => intro _ hc; exact hc
  | flowOk => intro hr; cases hr
  | flowFail _ _ _ _ ih => exact ih
  | loopDone => intro hr; cases hr
  | loopStop => intro hr; cases hr
  | @loopStep ops cur st evs st' a nxt evs2 st'' r hc h1 hnx h2 _ ih2 =>
    intro hr _
    cases hctx : st'.ctx with
    | live => exact ih2 hr hctx
    | done k =>
      obtain ⟨_, _, hr'⟩ := big_done h2 hctx (by intro id cfg ht; cases ht)
      rw [hr] at hr'; cases hr'
  | loopFail _ _ _ ih => exact ih

/-- the observation the driver builds from a result; `storeOf` is any function of the event list
    (the driver uses the list of nodes whose prep received the store) -/
def obsWith (storeOf : List Ev → List Nat) (r : List Ev × RunSt × Outcome) : Spec.RunObs :=
  { trace := Spec.noWaits r.1, out := r.2.2, store := storeOf r.1 }

/-- **C05 as the driver evaluates it** (`Spec.c05`) on the model's own observation, for a root that is not a
    batch node; `ref` is the run of the same scenario without cancellation, from the same visit counters. -/
theorem spec_c05_of_big {env : Env} {sid root st evs st' out} (hb : Big env sid (.node root) st evs st' out)
    (hnb : ∀ cfg, env.arena root ≠ .batch cfg)
    {evs₀ st₀ out₀} (hb₀ : Big (clearEnv env) sid (.node root) (relive st) evs₀ st₀ out₀)
    (storeOf : List Ev → List Nat) :
    Spec.c05 env st.ctx (obsWith storeOf (evs, st', out)) (obsWith storeOf (evs₀, st₀, out₀)) = true := by
  unfold Spec.c05 obsWith
  simp only [noWaits_idem]
  cases hc : st.ctx with
  | done k =>
    obtain ⟨rfl, _, rfl⟩ := big_done hb hc (by intro id cfg ht; cases ht; exact hnb cfg)
    simp [Spec.noWaits]
  | live =>
    simp only
    cases hfi : (Spec.noWaits evs).findIdx? (Spec.scriptCancels env) with
    | none => rfl
    | some j =>
      simp only
      obtain ⟨pre, c, post, htr, hcz, hpre, hget, hdrop⟩ := findIdx?_some_split default hfi
      rw [hget, hdrop]
      have hcm : c ∈ evs := (mem_noWaits.mp (by rw [htr]; simp)).1
      have hczA : cancelsAt env c = true := by simp [cancelsAt, hcz]
      have htail : (Spec.noWaits evs).Pairwise (fun c e => cancelsAt env c = true → TailRel c e) :=
        (big_cancelTail hb).sublist (by simp [Spec.noWaits])
      rw [htr, List.pairwise_append, List.pairwise_cons] at htail
      have hpost : ∀ e ∈ post, TailRel c e := fun e he => htail.2.1.1 e he hczA
      have hdone : st'.ctx = .done env.kind := (big_track hb).hit hc c hcm hczA
      rw [Bool.and_eq_true]
      constructor
      · rw [List.all_eq_true]
        intro e he
        obtain ⟨hk, hl⟩ := hpost e he
        simp only [lateEv] at hl
        simp [hk, hl]
      · have hp := big_proper hb
        cases out with
        | ok a =>
          simp only
          by_cases hcb : Spec.isBatchEv c = true
          · simp [hcb]
          · have hcb' : Spec.isBatchEv c = false := by simpa using hcb
            have hev := big_events hb
            have hbatch : ∀ e ∈ evs, Spec.isBatchEv e = true → cancelsAt env e = false := by
              intro e he heb
              cases hze : cancelsAt env e with
              | false => rfl
              | true =>
                exfalso
                rcases pairwise_mem_cases (big_cancelTail hb) he hcm with rfl | h1 | h1
                · rw [heb] at hcb'; cases hcb'
                · have := nodeEv_same_kind (hev e he) (hev c hcm) (h1 hze).1.symm
                  rw [heb, hcb'] at this; cases this
                · have := nodeEv_same_kind (hev c hcm) (hev e he) (h1 hczA).1.symm
                  rw [heb, hcb'] at this; cases this
            have hcl := big_cleared hb hc hbatch (.inr ⟨a, rfl⟩)
            rw [relive_of_live hc] at hb₀
            obtain ⟨hr1, f1, hf1⟩ := run_of_big hcl
            obtain ⟨hr2, f2, hf2⟩ := run_of_big hb₀
            have := runNode_det hf1 (by simp) hf2 (by simpa using hr2)
            simp only [Prod.mk.injEq] at this
            obtain ⟨rfl, _, rfl⟩ := this
            simp
        | err r =>
          cases r with
          | user u =>
            obtain ⟨e, hl, hf⟩ := (big_failstop hb).userErr u rfl
            obtain ⟨pre', rfl⟩ := List.getLast?_eq_some_iff.mp hl
            have hnw : Spec.noWaits (pre' ++ [e]) = Spec.noWaits pre' ++ [e] := by
              rw [noWaits_append]
              simp [Spec.noWaits, fatal_not_wait hf]
            simp [hnw, hf]
          | ctx k =>
            have := (big_ctxErr_live hb hc rfl).1
            simp [this]
          | fw t =>
            cases t <;> simp [Outcome.Proper] at hp
            have := big_noStart_live hb rfl hc
            rw [this] at hdone; cases hdone
        | both a e => simp [Outcome.Proper] at hp
        | fuel => simp [Outcome.Proper] at hp

/-- **C11 for a batch node inside a flow, as the driver evaluates it** (`Spec.c11Flow`) on the model's own
    observation — any root (leaf, batch node, flow nested to any depth), any context at the start, any pattern of
    cancellation: everything that follows the first cancelling callback belongs to the very same visit of the very
    same node (for ANY cancelling callback, not only one of a batch node). -/
theorem spec_c11Flow_of_big {env : Env} {sid task st evs st' out} (hb : Big env sid task st evs st' out)
    (storeOf : List Ev → List Nat) :
    Spec.c11Flow env st.ctx (obsWith storeOf (evs, st', out)) = true := by
  unfold Spec.c11Flow obsWith
  simp only [noWaits_idem]
  cases hc : st.ctx with
  | done k => rfl
  | live =>
    simp only
    cases hfi : (Spec.noWaits evs).findIdx? (Spec.scriptCancels env) with
    | none => rfl
    | some j =>
      simp only
      obtain ⟨pre, c, post, htr, hcz, hpre, hget, hdrop⟩ := findIdx?_some_split default hfi
      rw [hget, hdrop]
      have hczA : cancelsAt env c = true := by simp [cancelsAt, hcz]
      have htail : (Spec.noWaits evs).Pairwise (fun c e => cancelsAt env c = true → TailRel c e) :=
        (big_cancelTail hb).sublist (by simp [Spec.noWaits])
      rw [htr, List.pairwise_append, List.pairwise_cons] at htail
      rw [Bool.or_eq_true]
      right
      rw [List.all_eq_true]
      intro e he
      simpa using (htail.2.1.1 e he hczA).1

end Flyt.Proofs
