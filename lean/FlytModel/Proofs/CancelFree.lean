import FlytModel.Proofs.Cancel
/-!
# Scenarios without cancellation: the static predicate the driver computes (`cancelFree`: no `*` flag, no
asynchronous cancel in any script) implies the trace-level hypothesis of the C03 / C04 theorems.
-/
namespace Flyt.Proofs
open Flyt

/-- no script of the scenario cancels: no `cancels` flag, no asynchronous cancel during a wait -/
structure CancelFree (env : Env) : Prop where
  leaf : ∀ n v, (env.leafBeh n v).prep.cancels = false ∧ (∀ k, ((env.leafBeh n v).exec k).cancels = false) ∧
    (∀ k, (env.leafBeh n v).waitCancel k = false) ∧ (env.leafBeh n v).fb.cancels = false ∧
    (env.leafBeh n v).post.cancels = false
  batch : ∀ n v, (env.batchBeh n v).prep.cancels = false ∧ (env.batchBeh n v).post.cancels = false ∧
    ∀ i, (∀ k, (((env.batchBeh n v).item i).exec k).cancels = false) ∧
      (∀ k, ((env.batchBeh n v).item i).waitCancel k = false) ∧ ((env.batchBeh n v).item i).fb.cancels = false

/-- a wait recorded as cut short at a point where the script has no asynchronous cancel (never produced) -/
def spuriousWait (env : Env) : Ev → Bool
  | .wait n v k _ false => !(env.leafBeh n v).waitCancel k
  | .bwait n v i k _ false => !((env.batchBeh n v).item i).waitCancel k
  | _ => false

section generic
variable {kind : CtxKind} {mkExec : Nat → Ev} {mkWait : Nat → Bool → Ev} {exec : Nat → Out Val}
  {waitCancel : Nat → Bool} {execS : Style} {wait : Nat}

theorem attempts_no_spurious (bad : Ev → Bool) (hE : ∀ j, bad (mkExec j) = false)
    (hWt : ∀ j, bad (mkWait j true) = false) (hWf : ∀ j, bad (mkWait j false) = !waitCancel j)
    (k rem : Nat) (last : Option Nat) (ctx : Ctx) :
    ∀ e ∈ (attempts kind mkExec mkWait exec waitCancel execS wait k rem last ctx).1, bad e = false := by
  fun_induction attempts kind mkExec mkWait exec waitCancel execS wait k rem last ctx with
  | case1 => simp
  | case2 => simp
  | case3 last k rem h => simp [hWf, h.2.2]
  | case4 last k rem h wev ha =>
    intro e he
    simp only [wev] at he
    split at he <;> simp at he
    rw [he, hWt]
  | case5 last k rem h wev o x hx hne =>
    intro e he
    simp only [hx, wev, List.mem_append, List.mem_singleton] at he
    rcases he with he | he
    · split at he <;> simp at he
      rw [he, hWt]
    · rw [he, hE]
  | case6 last k rem h wev o e0 he0 evs c r hne ctx' heq ih =>
    intro e he
    simp only [he0, wev, List.mem_append, List.mem_singleton] at he
    rcases he with (he | he) | he
    · split at he <;> simp at he
      rw [he, hWt]
    · rw [he, hE]
    · exact ih e he

end generic

section
variable {env : Env} {n : NodeId} {v : Nat} {sid : StoreId}

theorem runLeaf_no_spurious {cfg ctx evs c out}
    (h : runLeaf env.kind n v sid cfg (env.leafBeh n v) ctx = (evs, c, out)) :
    ∀ e ∈ evs, spuriousWait env e = false := by
  cases ctx with
  | done k => rw [runLeaf_done] at h; cases h; simp
  | live =>
    have body : ∀ {pev pv aev c2 ares fev c3 eres}, PrepOk env.kind n v sid cfg (env.leafBeh n v) pev pv →
        ExecPhase env.kind n v cfg (env.leafBeh n v) pv aev c2 ares fev c3 eres →
        ∀ e ∈ pev ++ aev ++ fev, spuriousWait env e = false := by
      intro pev pv aev c2 ares fev c3 eres hP hE e he
      simp only [List.mem_append] at he
      rcases he with (he | he) | he
      · rw [prepOk_mem hP e he]; rfl
      · have := attempts_no_spurious (kind := env.kind) (mkExec := fun k => Ev.exec n v k (execArg cfg.execS pv))
          (mkWait := fun k f => Ev.wait n v k cfg.effWait f) (exec := (env.leafBeh n v).exec)
          (waitCancel := (env.leafBeh n v).waitCancel) (execS := cfg.execS) (wait := cfg.effWait)
          (spuriousWait env) (fun _ => rfl) (fun _ => rfl) (fun _ => rfl) 0 cfg.effBudget none .live
        rw [hE.1] at this
        exact this e he
      · obtain ⟨a, err, rfl⟩ := (execPhase_mem hE).2 e he; rfl
    cases leafShape_of_runLeaf h with
    | prepErr => intro e he; simp at he; subst he; rfl
    | prepCancel => intro e he; simp at he; subst he; rfl
    | execErr hP hE => exact body hP hE
    | noPost hP hE _ => exact body hP hE
    | postErr hP hE _ _ =>
      intro e he
      rw [List.mem_append] at he
      rcases he with he | he
      · exact body hP hE e he
      · simp at he; subst he; rfl
    | postOk hP hE _ _ =>
      intro e he
      rw [List.mem_append] at he
      rcases he with he | he
      · exact body hP hE e he
      · simp at he; subst he; rfl

theorem runItem_no_spurious {cfg : BatchCfg} (i : Nat) (item : Result) (ctx : Ctx) :
    ∀ e ∈ (runItem env.kind n v cfg i item ((env.batchBeh n v).item i) ctx).1, spuriousWait env e = false := by
  obtain ⟨aev, c1, ares, fev, c2, eres, hA, hF, hR⟩ :=
    runItem_eq env.kind n v cfg i item ((env.batchBeh n v).item i) ctx
  rw [hR]
  intro e he
  simp only [List.mem_append] at he
  rcases he with he | he
  · have := attempts_no_spurious (kind := env.kind)
      (mkExec := fun k => Ev.bexec n v i k (execArg cfg.execS item.box))
      (mkWait := fun k f => Ev.bwait n v i k cfg.wait f) (exec := ((env.batchBeh n v).item i).exec)
      (waitCancel := ((env.batchBeh n v).item i).waitCancel) (execS := cfg.execS) (wait := cfg.wait)
      (spuriousWait env) (fun _ => rfl) (fun _ => rfl) (fun _ => rfl) 0 cfg.budget none ctx
    rw [hA] at this
    exact this e he
  · rcases fallbackPhase_cases hF with ⟨x, _, rfl, _⟩ | ⟨k, _, rfl, _⟩ | ⟨e', _, _, rfl, _⟩ | ⟨e', _, _, rfl, _⟩
    · cases he
    · cases he
    · cases he
    · simp at he; subst he; rfl

theorem runBatch_no_spurious {cfg : BatchCfg} {ctx evs c out}
    (h : runBatch env.kind n v sid cfg (env.batchBeh n v) ctx = (evs, c, out)) :
    ∀ e ∈ evs, spuriousWait env e = false := by
  have hi : ∀ {items ctx1 iev c2 slots},
      batchItems env.kind n v cfg (env.batchBeh n v) items ctx1 = (iev, c2, slots) →
      ∀ e ∈ iev, spuriousWait env e = false := fun hbi =>
    batchItems_all (fun e => spuriousWait env e = false) (fun i it => runItem_no_spurious i it .live) hbi
  cases batchShape_of_runBatch h with
  | prepErr => intro e he; simp at he; subst he; rfl
  | noPost hr hbi hp =>
    intro e he
    simp only [List.mem_append, List.mem_singleton] at he
    rcases he with rfl | he
    · rfl
    · exact hi hbi e he
  | postErr hr hbi hp hpr =>
    intro e he
    simp only [List.mem_append, List.mem_singleton] at he
    rcases he with (rfl | he) | rfl
    · rfl
    · exact hi hbi e he
    · rfl
  | postOk hr hbi hp hpr =>
    intro e he
    simp only [List.mem_append, List.mem_singleton] at he
    rcases he with (rfl | he) | rfl
    · rfl
    · exact hi hbi e he
    · rfl

end

theorem big_no_spurious {env : Env} {sid task st evs st' r} (h : Big env sid task st evs st' r) :
    ∀ e ∈ evs, spuriousWait env e = false := by
  induction h with
  | leaf hA h => exact runLeaf_no_spurious (leafStep_ctx h)
  | batch hA h => exact runBatch_no_spurious (batchStep_ctx h)
  | flowDone => simp
  | flowNoStart => simp
  | flowOk _ _ _ ih => exact ih
  | flowFail _ _ _ _ ih => exact ih
  | loopDone => simp
  | loopStop _ _ _ ih => exact ih
  | loopStep _ _ _ _ ih1 ih2 =>
    intro e he
    rw [List.mem_append] at he
    rcases he with he | he
    · exact ih1 e he
    · exact ih2 e he
  | loopFail _ _ _ ih => exact ih

/-- **in a scenario without cancellation no event of any run cancels** -/
theorem big_cancelFree {env : Env} {sid task st evs st' r} (h : Big env sid task st evs st' r)
    (hcf : CancelFree env) : ∀ e ∈ evs, cancelsAt env e = false := by
  intro e he
  have hs := big_no_spurious h e he
  cases e with
  | prep n v s => rw [cz_prep]; exact (hcf.leaf n v).1
  | exec n v k a => rw [cz_exec]; exact (hcf.leaf n v).2.1 k
  | wait n v k d f =>
    rw [cz_wait]
    cases f with
    | true => rfl
    | false =>
      simp only [spuriousWait, Bool.not_eq_false'] at hs
      rw [(hcf.leaf n v).2.2.1 k] at hs; cases hs
  | fb n v a err => rw [cz_fb]; exact (hcf.leaf n v).2.2.2.1
  | post n v s a b => rw [cz_post]; exact (hcf.leaf n v).2.2.2.2
  | bprep n v s => rw [cz_bprep]; exact (hcf.batch n v).1
  | bexec n v i k a => rw [cz_bexec]; exact ((hcf.batch n v).2.2 i).1 k
  | bwait n v i k d f =>
    rw [cz_bwait]
    cases f with
    | true => rfl
    | false =>
      simp only [spuriousWait, Bool.not_eq_false'] at hs
      rw [((hcf.batch n v).2.2 i).2.1 k] at hs; cases hs
  | bfb n v i a err => rw [cz_bfb]; exact ((hcf.batch n v).2.2 i).2.2
  | bpost n v s a b => rw [cz_bpost]; exact (hcf.batch n v).2.1

end Flyt.Proofs
