import FlytModel.Model.Pool
/-!
# Invariants of the worker-pool LTS, for every reachable state (every schedule)
-/
namespace Flyt.Pool

structure Inv (p : Pool) : Prop where
  /-- the WaitGroup counts exactly the tasks that are submitted and not finished -/
  wgEq : p.wg = p.pend.length + p.queue.length + p.running.length
  /-- every worker is idle, running exactly one task, or gone -/
  workers : p.running.length + p.idle + p.exited = p.w
  /-- the channel never holds more than its capacity -/
  qcap : p.queue.length ≤ p.cap
  /-- a task is in exactly one place: never duplicated -/
  nodup : (p.pend ++ p.queue ++ p.running ++ p.finished).Nodup

theorem inv_init (cap : Nat) (workers : Int) : Inv (init cap workers) := by
  constructor <;> simp [init]

theorem inv_step {p q : Pool} {l : Label} (h : Inv p) (hs : apply p l = some q) : Inv q := by
  obtain ⟨h1, h2, h3, h4⟩ := h
  cases l with
  | add t =>
    simp only [apply] at hs
    split at hs <;> simp at hs
    rename_i hf
    subst hs
    refine ⟨by simp; omega, by simpa using h2, by simpa using h3, ?_⟩
    simp [fresh] at hf
    simp only [List.nodup_append] at h4 ⊢
    grind
  | send t =>
    simp only [apply] at hs
    split at hs <;> simp at hs
    rename_i hc
    subst hs
    have hm : t ∈ p.pend := by simpa using hc.1
    have hl := List.length_erase_of_mem hm
    have : p.pend.length > 0 := List.length_pos_of_mem hm
    refine ⟨by simp [hl]; omega, by simpa using h2, by simp; omega, ?_⟩
    simp only [List.nodup_append] at h4 ⊢
    have := @List.mem_of_mem_erase _ _ t
    have e1 : (p.pend.erase t).Nodup := List.Nodup.erase t h4.1.1.1
    have e2 : t ∉ p.pend.erase t := List.Nodup.not_mem_erase h4.1.1.1
    grind
  | take =>
    simp only [apply] at hs
    split at hs
    · simp at hs
    · rename_i t q' hq
      split at hs <;> simp at hs
      subst hs
      rw [hq] at h1 h3 h4
      refine ⟨by simp at h1 ⊢; omega, by simp; omega, by simp at h3 ⊢; omega, ?_⟩
      simp only [List.nodup_append, List.nodup_cons] at h4 ⊢
      grind
  | finish t =>
    simp only [apply] at hs
    split at hs <;> simp at hs
    rename_i hc
    subst hs
    have hm : t ∈ p.running := by simpa using hc
    have hl := List.length_erase_of_mem hm
    have : p.running.length > 0 := List.length_pos_of_mem hm
    refine ⟨by simp [hl]; omega, by simp [hl]; omega, by simpa using h3, ?_⟩
    simp only [List.nodup_append, List.nodup_cons] at h4 ⊢
    have e1 : (p.running.erase t).Nodup := List.Nodup.erase t h4.1.2.1
    have e2 : t ∉ p.running.erase t := List.Nodup.not_mem_erase h4.1.2.1
    have := @List.mem_of_mem_erase _ _ t
    grind
  | callWait =>
    simp only [apply] at hs
    cases hs
    exact ⟨h1, h2, h3, h4⟩
  | waitRet =>
    simp only [apply] at hs
    split at hs <;> simp at hs
    subst hs
    exact ⟨h1, h2, h3, h4⟩
  | close =>
    simp only [apply] at hs
    split at hs <;> simp at hs
    subst hs
    exact ⟨h1, h2, h3, h4⟩
  | exit =>
    simp only [apply] at hs
    split at hs <;> simp at hs
    rename_i hc
    subst hs
    refine ⟨h1, ?_, h3, h4⟩
    simp; omega

theorem inv_reachable {cap : Nat} {workers : Int} {p : Pool} (h : Reachable cap workers p) : Inv p := by
  induction h with
  | init => exact inv_init cap workers
  | step _ hs ih => obtain ⟨l, hl⟩ := hs; exact inv_step ih hl

/-- all tasks ever submitted (ghost): the union of the four places -/
def Pool.tasks (p : Pool) : List Nat := p.pend ++ p.queue ++ p.running ++ p.finished

/-- no step ever loses a task: the set of tasks only grows -/
theorem tasks_mono {p q : Pool} {l : Label} (hs : apply p l = some q) : ∀ t, t ∈ p.tasks → t ∈ q.tasks := by
  intro t ht
  cases l with
  | add u =>
    simp only [apply] at hs; split at hs <;> simp at hs; subst hs
    simp only [Pool.tasks, List.mem_append] at ht ⊢; grind
  | send u =>
    simp only [apply] at hs; split at hs <;> simp at hs; subst hs
    simp only [Pool.tasks, List.mem_append] at ht ⊢
    by_cases htu : t = u
    · subst htu; simp
    · have := (List.mem_erase_of_ne htu (l := p.pend)); grind
  | take =>
    simp only [apply] at hs
    split at hs
    · simp at hs
    · rename_i u q' hq
      split at hs <;> simp at hs
      subst hs
      simp only [Pool.tasks, List.mem_append, hq, List.mem_cons] at ht ⊢; grind
  | finish u =>
    simp only [apply] at hs; split at hs <;> simp at hs; subst hs
    simp only [Pool.tasks, List.mem_append, List.mem_cons] at ht ⊢
    by_cases htu : t = u
    · subst htu; simp
    · have := (List.mem_erase_of_ne htu (l := p.running)); grind
  | callWait => simp only [apply] at hs; cases hs; exact ht
  | waitRet => simp only [apply] at hs; split at hs <;> simp at hs; subst hs; exact ht
  | close => simp only [apply] at hs; split at hs <;> simp at hs; subst hs; exact ht
  | exit => simp only [apply] at hs; split at hs <;> simp at hs; subst hs; exact ht

/-- a finished task stays finished, and is never run again -/
theorem finished_mono {p q : Pool} {l : Label} (hs : apply p l = some q) : ∀ t, t ∈ p.finished → t ∈ q.finished := by
  intro t ht
  cases l with
  | add u => simp only [apply] at hs; split at hs <;> simp at hs; subst hs; exact ht
  | send u => simp only [apply] at hs; split at hs <;> simp at hs; subst hs; exact ht
  | take =>
    simp only [apply] at hs
    split at hs
    · simp at hs
    · split at hs <;> simp at hs
      subst hs; exact ht
  | finish u => simp only [apply] at hs; split at hs <;> simp at hs; subst hs; simp [ht]
  | callWait => simp only [apply] at hs; cases hs; exact ht
  | waitRet => simp only [apply] at hs; split at hs <;> simp at hs; subst hs; exact ht
  | close => simp only [apply] at hs; split at hs <;> simp at hs; subst hs; exact ht
  | exit => simp only [apply] at hs; split at hs <;> simp at hs; subst hs; exact ht

end Flyt.Pool
