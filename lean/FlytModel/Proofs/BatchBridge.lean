import FlytModel.Proofs.BatchSeq
import FlytModel.Proofs.BatchConc
/-!
# Bridge: the sequential model's observation satisfies the driver's executable predicates

`Driver/FlowFam.lean` judges a run of a batch node (families `batchseq`, `C02`, …) by translating the
callback trace into a `Spec.BatchView` (`batchViewOf`) and the node's configuration and script into a
`Conc.Cfg` (`concCfgOf`), then evaluating `Spec.c06 / c07 / c09 / c11`. Both translations are repeated here
verbatim (the library cannot import the driver), and the predicates are proved of `runBatch`'s own output.

The key step (`runItem_origin`) is a simulation: processing one item sequentially is a sequence of `Micro`
steps of the concurrent LTS for that item, so the provenance relation `Origin` — and with it every
consequence proved in `Proofs/BatchConc.lean` — holds for the sequential slots as well.
-/
namespace Flyt.Bridge
open Flyt Flyt.BatchSeq Flyt.Conc Flyt.Spec

/-- `Driver.FlowFam.batchViewOf`, event translation -/
def obsOf : Ev → List Obs
  | .bexec _ _ i k _ => [.start i k, .done i k]
  | .bfb _ _ i _ _ => [.fb i]
  | .bpost .. => [.post]
  | _ => []

/-- `Driver.FlowFam.batchViewOf` (on the trace and outcome of a `RunObs`) -/
def batchViewOf (trace : List Ev) (out : Outcome) : BatchView :=
  let ev : List Obs := trace.flatMap obsOf
  let posts := trace.filterMap fun e => match e with | .bpost _ _ _ it sl => some (it, sl) | _ => none
  let (items, slots) := posts.getLast?.getD ([], [])
  { events := ev, quiescent := [], items := items,
    slots := slots.map (fun v => match v.asResult? with | some r => r | none => newResult v),
    posts := posts.length, outOk := (match out with | .ok _ => true | _ => false) }

/-- `Driver.FlowFam.concCfgOf` -/
def concCfgOf (kind : CtxKind) (cfg : BatchCfg) (scr : BatchScript) (n : Nat) : Conc.Cfg :=
  { n := n, w := if cfg.conc = 0 then 1 else cfg.conc, cap := 2 * (if cfg.conc = 0 then 1 else cfg.conc),
    stop := cfg.stop, budget := cfg.budget, fb := cfg.fb, execS := cfg.execS,
    exec := fun i k => (scr.item i).exec k, fbOut := fun i => (scr.item i).fb, kind := kind }

/-- the LTS configuration describes the same node and the same scripts -/
structure Agrees (c : Conc.Cfg) (kind : CtxKind) (cfg : BatchCfg) (scr : BatchScript) : Prop where
  budget : c.budget = cfg.budget
  fb : c.fb = cfg.fb
  execS : c.execS = cfg.execS
  exec : ∀ i k, c.exec i k = (scr.item i).exec k
  fbOut : ∀ i, c.fbOut i = (scr.item i).fb
  kind : c.kind = kind
  stop : c.stop = cfg.stop

theorem agrees_concCfgOf (kind : CtxKind) (cfg : BatchCfg) (scr : BatchScript) (n : Nat) :
    Agrees (concCfgOf kind cfg scr n) kind cfg scr :=
  ⟨rfl, rfl, rfl, fun _ _ => rfl, fun _ => rfl, rfl, rfl⟩

/-- a state that only carries the `cancelled` flag a `Micro` step reads -/
def st (cz : Bool) : BState :=
  { next := 0, queue := [], running := [], idle := 0, slots := [], shouldStop := false, cancelled := cz,
    posted := false, log := [] }

section item
variable {c : Conc.Cfg} {kind : CtxKind} {cfg : BatchCfg} {scr : BatchScript} (n : NodeId) (v : Nat)

theorem wev_obs (i : Nat) (k : Nat) :
    (wev (fun k f => Ev.bwait n v i k cfg.wait f) cfg.wait k).flatMap obsOf = [] := by
  unfold wev; split <;> simp [obsOf]

/-- what the retry loop leaves behind, in LTS terms -/
def AttOut (c : Conc.Cfg) (kind : CtxKind) (cfg : BatchCfg) (i : Nat) (cz : Bool) (h0 : List Obs)
    (a : List Ev × Ctx × AttemptRes) : Prop :=
  (a.2.1 = .live ∨ (a.2.1 = .done kind ∧ cz = true)) ∧
  match a.2.2 with
  | .ok x => LoopEnd c cz (h0 ++ a.1.flatMap obsOf) i (slotOfVal x) false
  | .cancelled kd => kd = kind ∧ LoopEnd c cz (h0 ++ a.1.flatMap obsOf) i (newErrorResult (.ctx kind)) true
  | .failed e => PcOk c cz (h0 ++ a.1.flatMap obsOf) i (.loopTop cfg.budget (some e))

theorem attempts_pcOk (ag : Agrees c kind cfg scr) (i : Nat) (arg : Val) (cz : Bool)
    (hz : cz = true ∨ Quiet (scr.item i)) (rem : Nat) :
    ∀ (k : Nat) (last : Option Nat) (ctx : Ctx) (h0 : List Obs), k + rem = cfg.budget →
      (ctx = .live ∨ (ctx = .done kind ∧ cz = true)) → PcOk c cz h0 i (.loopTop k last) →
      AttOut c kind cfg i cz h0
        (attempts kind (fun k => .bexec n v i k arg) (fun k f => .bwait n v i k cfg.wait f)
          (scr.item i).exec (scr.item i).waitCancel cfg.execS cfg.wait k rem last ctx) := by
  induction rem with
  | zero =>
    intro k last ctx h0 hk hctx hp
    rw [attempts_zero]
    have hkb : ¬ k < c.budget := by rw [ag.budget]; omega
    cases last with
    | none =>
      refine ⟨hctx, ?_⟩
      have := pcOk_micro (s := st false) (Micro.exhaustedNone (c := c) (s := st false) (i := i) k hkb) hp (by simp [st])
      simpa [PcOk] using this
    | some e =>
      refine ⟨hctx, ?_⟩
      have : k = cfg.budget := by omega
      subst this
      simpa using hp
  | succ rem ih =>
    intro k last ctx h0 hk hctx hp
    have hkb : k < c.budget := by rw [ag.budget]; omega
    rcases hctx with rfl | ⟨rfl, hcz⟩
    · -- live context
      by_cases hw : k > 0 ∧ cfg.wait > 0 ∧ (scr.item i).waitCancel k = true
      · rw [attempts_waitCancel _ _ _ _ _ _ _ _ _ _ hw]
        have hcz : cz = true := by
          rcases hz with h | h
          · exact h
          · rw [h.2.1 k] at hw; simp at hw
        refine ⟨.inr ⟨rfl, hcz⟩, rfl, ?_⟩
        have := pcOk_micro (s := st true) (Micro.loopCancelled (c := c) (s := st true) (i := i) k last hkb rfl) hp (fun _ => hcz)
        rw [ag.kind] at this
        simpa [PcOk, obsOf] using this
      · by_cases hsa : cfg.execS = .absent
        · rw [attempts_absent _ _ _ _ _ _ _ _ _ _ hw hsa]
          refine ⟨.inl rfl, ?_⟩
          have := pcOk_micro (s := st false)
            (Micro.loopAbsent (c := c) (s := st false) (i := i) k last hkb rfl (ag.execS ▸ hsa)) hp (by simp [st])
          simpa [PcOk, wev_obs] using this
        · have hsa' : c.execS ≠ .absent := ag.execS ▸ hsa
          have hstart := pcOk_micro (s := st false)
            (Micro.loopStart (c := c) (s := st false) (i := i) k last hkb rfl hsa') hp (by simp [st])
          have hctx' : Ctx.live.after kind ((scr.item i).exec k).cancels = .live ∨
              (Ctx.live.after kind ((scr.item i).exec k).cancels = .done kind ∧ cz = true) := by
            cases hcan : ((scr.item i).exec k).cancels with
            | false => exact .inl (by simp [Ctx.after])
            | true =>
              refine .inr ⟨by simp [Ctx.after], ?_⟩
              rcases hz with h | h
              · exact h
              · rw [h.1 k] at hcan; simp at hcan
          cases hr : ((scr.item i).exec k).res with
          | ok x =>
            rw [attempts_ok _ _ _ _ _ _ _ _ _ _ hw hsa hr]
            refine ⟨hctx', ?_⟩
            have := pcOk_micro (s := st false)
              (Micro.retOk (c := c) (s := st false) (i := i) k x (by rw [ag.exec]; exact hr)) hstart (by simp [st])
            rw [ag.execS] at this
            simpa [PcOk, wev_obs, obsOf, List.flatMap_append] using this
          | error e =>
            rw [attempts_err _ _ _ _ _ _ _ _ _ _ hw hsa hr]
            have hloop := pcOk_micro (s := st false)
              (Micro.retErr (c := c) (s := st false) (i := i) k e (by rw [ag.exec]; exact hr)) hstart (by simp [st])
            have hrec := ih (k + 1) (some e) _ (h0 ++ [Obs.start i k] ++ [Obs.done i k]) (by omega) hctx'
              (by simpa using hloop)
            unfold AttOut at hrec ⊢
            simp only [List.flatMap_append, wev_obs, List.nil_append, List.flatMap_cons, obsOf,
              List.append_assoc, List.cons_append] at hrec ⊢
            exact hrec
    · -- the context was already finished
      rw [attempts_done]
      refine ⟨.inr ⟨rfl, hcz⟩, rfl, ?_⟩
      have := pcOk_micro (s := st true) (Micro.loopCancelled (c := c) (s := st true) (i := i) k last hkb rfl) hp (fun _ => hcz)
      rw [ag.kind] at this
      simpa [PcOk] using this

/-- `runExecWithRetries` returned an error (the sequential model's own notion of a FAILED item) -/
def resFailed : ItemRes → Bool
  | .slot _ => false
  | .error _ => true

/-- **Simulation of one item.** Processing item `i` sequentially from a live context (`runItem`) leaves, in the
    translated event list, exactly the history the LTS would have for that item; the slot it produces has
    the provenance the LTS gives it, and the sequential model's "returned an error" is exactly the LTS's `failed`
    flag (`LoopEnd`). With `cz = false` this needs the item's script to be cancellation-free. -/
theorem runItem_loopEnd (ag : Agrees c kind cfg scr) (i : Nat) (item : Result) (cz : Bool)
    (hz : cz = true ∨ Quiet (scr.item i)) (h0 : List Obs) (hf : Fresh h0 i) :
    LoopEnd c cz (h0 ++ (runItem kind n v cfg i item (scr.item i) .live).1.flatMap obsOf) i
      (slotOfRes (runItem kind n v cfg i item (scr.item i) .live).2.2)
      (resFailed (runItem kind n v cfg i item (scr.item i) .live).2.2) := by
  have hp0 : PcOk c cz h0 i (.loopTop 0 none) := by
    have := pcOk_micro (s := st false) (Micro.ctxPass (c := c) (s := st false) (i := i) rfl) (cz := cz) (h := h0)
      (show PcOk c cz h0 i .ctxCheck from hf) (by simp [st])
    simpa using this
  have ha := attempts_pcOk n v ag i (execArg cfg.execS item.box) cz hz cfg.budget 0 none .live h0 (by omega) (.inl rfl) hp0
  rw [runItem_eq]
  simp only []
  generalize attempts kind (fun k => Ev.bexec n v i k (execArg cfg.execS item.box)) (fun k f => Ev.bwait n v i k cfg.wait f)
    (scr.item i).exec (scr.item i).waitCancel cfg.execS cfg.wait 0 cfg.budget none Ctx.live = a at ha
  obtain ⟨aev, actx, ares⟩ := a
  obtain ⟨hctx, hres⟩ := ha
  simp only at hctx hres
  cases ares with
  | ok x => simpa [fallbackPhase, resFailed] using hres
  | cancelled kd =>
    obtain ⟨rfl, hres⟩ := hres
    simpa [fallbackPhase, resFailed] using hres
  | failed e =>
    have hkb : ¬ cfg.budget < c.budget := by rw [ag.budget]; omega
    simp only [fallbackPhase]
    cases hfb : cfg.fb with
    | absent =>
      have := pcOk_micro (s := st false)
        (Micro.noFb (c := c) (s := st false) (i := i) cfg.budget e hkb (by rw [ag.fb, hfb]; simp)) hres (by simp [st])
      simpa [PcOk, resFailed] using this
    | passThrough =>
      have := pcOk_micro (s := st false)
        (Micro.noFb (c := c) (s := st false) (i := i) cfg.budget e hkb (by rw [ag.fb, hfb]; simp)) hres (by simp [st])
      simpa [PcOk, resFailed] using this
    | custom =>
      cases hr : (scr.item i).fb.res with
      | ok x =>
        have := pcOk_micro (s := st false)
          (Micro.fbOk (c := c) (s := st false) (i := i) cfg.budget e x hkb (by rw [ag.fb, hfb]) (by rw [ag.fbOut]; exact hr))
          hres (by simp [st])
        simpa [PcOk, obsOf, List.flatMap_append, resFailed] using this
      | error e' =>
        have := pcOk_micro (s := st false)
          (Micro.fbErr (c := c) (s := st false) (i := i) cfg.budget e e' hkb (by rw [ag.fb, hfb]) (by rw [ag.fbOut]; exact hr))
          hres (by simp [st])
        simpa [PcOk, obsOf, List.flatMap_append, resFailed] using this

/-- … in particular the slot has the provenance `Origin` -/
theorem runItem_origin (ag : Agrees c kind cfg scr) (i : Nat) (item : Result) (cz : Bool)
    (hz : cz = true ∨ Quiet (scr.item i)) (h0 : List Obs) (hf : Fresh h0 i) :
    Origin c cz (h0 ++ (runItem kind n v cfg i item (scr.item i) .live).1.flatMap obsOf) i
      (slotOfRes (runItem kind n v cfg i item (scr.item i) .live).2.2) :=
  (runItem_loopEnd n v ag i item cz hz h0 hf).origin

end item

/-! ### "nothing starts after a cancelling event", on observation lists -/

/-- after every element satisfying `cancels`, no element satisfying `bad` follows -/
def QAfter {α : Type} (cancels bad : α → Bool) : List α → Prop
  | [] => True
  | e :: t => (cancels e = true → ∀ x ∈ t, bad x = false) ∧ QAfter cancels bad t

theorem qafter_append {α : Type} (cancels bad : α → Bool) (a b : List α) :
    QAfter cancels bad (a ++ b) ↔
      QAfter cancels bad a ∧ QAfter cancels bad b ∧ ((∃ e ∈ a, cancels e = true) → ∀ x ∈ b, bad x = false) := by
  induction a with
  | nil => simp [QAfter]
  | cons e t ih =>
    simp only [List.cons_append, QAfter, ih, List.mem_append, List.mem_cons]
    constructor
    · rintro ⟨h1, h2, h3, h4⟩
      refine ⟨⟨fun hc x hx => h1 hc x (.inl hx), h2⟩, h3, ?_⟩
      rintro ⟨e', rfl | he', hc⟩ x hx
      · exact h1 hc x (.inr hx)
      · exact h4 ⟨e', he', hc⟩ x hx
    · rintro ⟨⟨h1, h2⟩, h3, h4⟩
      refine ⟨?_, h2, h3, fun ⟨e', he', hc⟩ => h4 ⟨e', .inr he', hc⟩⟩
      rintro hc x (hx | hx)
      · exact h1 hc x hx
      · exact h4 ⟨e, .inl rfl, hc⟩ x hx

/-- the executable form used by `Spec.c11`: after the FIRST cancelling element nothing bad follows -/
theorem qafter_findIdx {α : Type} (cancels bad good : α → Bool) (l : List α) (h : QAfter cancels bad l)
    (hg : ∀ x, bad x = false → good x = true) :
    (match l.findIdx? cancels with
     | none => true
     | some q => (l.drop (q + 1)).all good) = true := by
  induction l with
  | nil => rfl
  | cons e t ih =>
    rw [List.findIdx?_cons]
    by_cases hc : cancels e = true
    · simp only [hc, if_true, Nat.zero_add, List.drop_succ_cons, List.drop_zero, List.all_eq_true]
      intro x hx; exact hg x (h.1 hc x hx)
    · simp only [hc, Bool.false_eq_true, if_false]
      have := ih h.2
      cases hf : t.findIdx? cancels with
      | none => rfl
      | some q => simpa [hf] using this

theorem qafter_of_none {α : Type} (cancels bad : α → Bool) (l : List α) (h : ∀ e ∈ l, cancels e = false) :
    QAfter cancels bad l := by
  induction l with
  | nil => trivial
  | cons e t ih =>
    refine ⟨fun hc => ?_, ih (fun x hx => h x (List.mem_cons_of_mem _ hx))⟩
    rw [h e (List.mem_cons_self)] at hc; simp at hc

/-- positional reading: nothing bad after position `p` if the element at `p` cancels -/
theorem qafter_drop {α : Type} (cancels bad : α → Bool) (l : List α) (h : QAfter cancels bad l) (p : Nat) (hp : p < l.length)
    (hc : cancels l[p] = true) : ∀ x ∈ l.drop (p + 1), bad x = false := by
  induction l generalizing p with
  | nil => simp at hp
  | cons e t ih =>
    cases p with
    | zero => simpa using h.1 (by simpa using hc)
    | succ p =>
      simp only [List.drop_succ_cons]
      exact ih h.2 p (by simpa using hp) (by simpa using hc)

/-- transport along a translation `f` of events into observations -/
theorem qafter_flatMap {α β : Type} (f : α → List β) (ca ba : α → Bool) (cb bb : β → Bool)
    (hself : ∀ e, QAfter cb bb (f e))
    (hc : ∀ e, (∃ o ∈ f e, cb o = true) → ca e = true)
    (hb : ∀ e, ba e = false → ∀ o ∈ f e, bb o = false)
    (l : List α) (h : QAfter ca ba l) : QAfter cb bb (l.flatMap f) := by
  induction l with
  | nil => trivial
  | cons e t ih =>
    rw [List.flatMap_cons, qafter_append]
    refine ⟨hself e, ih h.2, fun hex x hx => ?_⟩
    obtain ⟨e', he', hx'⟩ := List.mem_flatMap.1 hx
    exact hb e' (h.1 (hc e hex) e' he') x hx'

/-- `Spec.c11`'s notion of a cancelling event -/
def obsCancels (c : Conc.Cfg) : Obs → Bool := fun e => match e with
  | .cancel => true
  | .done i k => (c.exec i k).cancels
  | .fb i => (c.fbOut i).cancels
  | _ => false

def isStart : Obs → Bool := fun e => match e with | .start .. => true | _ => false

theorem qafter_obs {c : Conc.Cfg} {kind : CtxKind} {cfg : BatchCfg} {scr : BatchScript} (ag : Agrees c kind cfg scr)
    (evs : List Ev) (h : QuietAfterCancel scr evs) : QAfter (obsCancels c) isStart (evs.flatMap obsOf) := by
  induction evs with
  | nil => trivial
  | cons e t ih =>
    obtain ⟨h1, h2⟩ := h
    rw [List.flatMap_cons, qafter_append]
    refine ⟨?_, ih h2, ?_⟩
    · cases e <;> simp [obsOf, QAfter, obsCancels, isStart]
    · rintro ⟨o, ho, hc⟩ x hx
      have hec : evCancels scr e = true := by
        cases e <;> simp [obsOf] at ho
        · rcases ho with rfl | rfl
          · simp [obsCancels] at hc
          · simpa [obsCancels, evCancels, ag.exec] using hc
        · subst ho; simpa [obsCancels, evCancels, ag.fbOut] using hc
        · subst ho; simp [obsCancels] at hc
      obtain ⟨e', he', hx'⟩ := List.mem_flatMap.1 hx
      have := h1 hec e' he'
      cases e' <;> simp [obsOf] at hx' <;> simp_all [isStart, isAttempt, isBexec, isBwait]

/-! ### from items to the whole run -/

/-- what the translated trace says about item `j` is determined by item `j`'s own events -/
theorem view_itemEvents (evs : List Ev) (j : Nat) :
    itemStarts (evs.flatMap obsOf) j = itemStarts ((itemEvents j evs).flatMap obsOf) j ∧
    itemDones (evs.flatMap obsOf) j = itemDones ((itemEvents j evs).flatMap obsOf) j ∧
    itemFbs (evs.flatMap obsOf) j = itemFbs ((itemEvents j evs).flatMap obsOf) j := by
  induction evs with
  | nil => simp [itemEvents]
  | cons e t ih =>
    obtain ⟨ih1, ih2, ih3⟩ := ih
    simp only [List.flatMap_cons, itemStarts_append, itemDones_append, itemFbs_append, ih1, ih2, ih3]
    by_cases he : evItem e = some j
    · have : itemEvents j (e :: t) = e :: itemEvents j t := by simp [itemEvents, he]
      rw [this]
      simp only [List.flatMap_cons, itemStarts_append, itemDones_append, itemFbs_append]
      exact ⟨trivial, trivial, trivial⟩
    · have : itemEvents j (e :: t) = itemEvents j t := by simp [itemEvents, he]
      rw [this]
      have hv := view_other [] (obsOf e) j (by
        intro o ho
        cases e <;> simp [obsOf] at ho <;> simp only [evItem] at he <;>
          (try rcases ho with rfl | rfl) <;> (try subst ho) <;> simp_all [obsItem])
      simp only [List.nil_append, itemStarts_nil, itemDones_nil, itemFbs_nil] at hv
      rw [hv.1, hv.2.1, hv.2.2]
      simp

section run
variable {c : Conc.Cfg} {kind : CtxKind} {cfg : BatchCfg} {scr : BatchScript} (n : NodeId) (v : Nat)

/-- **Every slot of the sequential loop has an LTS provenance.** For every history `H` that says about each
    item what the loop's own translated events say (e.g. the translated trace of the whole run). -/
theorem itemsSeq_origin (ag : Agrees c kind cfg scr) (items : List Result) (ctx : Ctx) (H : List Obs)
    (hH : ∀ j, itemStarts H j = itemStarts ((itemsSeq kind n v cfg scr items 0 ctx).1.flatMap obsOf) j ∧
      itemDones H j = itemDones ((itemsSeq kind n v cfg scr items 0 ctx).1.flatMap obsOf) j ∧
      itemFbs H j = itemFbs ((itemsSeq kind n v cfg scr items 0 ctx).1.flatMap obsOf) j)
    (j : Nat) (hj : j < items.length) :
    ∃ r, (itemsSeq kind n v cfg scr items 0 ctx).2.2[j]? = some r ∧ Origin c true H j r := by
  have hown := itemsSeq_own kind n v cfg scr items 0 ctx j hj
  simp only [Nat.zero_add] at hown
  obtain ⟨v1, v2, v3⟩ := view_itemEvents (itemsSeq kind n v cfg scr items 0 ctx).1 j
  obtain ⟨e1, e2, e3⟩ := hH j
  rcases hown with ⟨hev, hslot⟩ | ⟨hev, r, hslot, hm⟩
  · refine ⟨_, hslot, ?_⟩
    have := runItem_origin n v ag j items[j] true (.inl rfl) [] ⟨rfl, rfl, rfl⟩
    rw [List.nil_append, ← hev] at this
    exact this.congr id (by rw [e1, v1]) (by rw [e2, v2]) (by rw [e3, v3])
  · refine ⟨r, hslot, ?_⟩
    have hf : Fresh H j := by
      refine ⟨by rw [e1, v1, hev]; rfl, by rw [e2, v2, hev]; rfl, by rw [e3, v3, hev]; rfl⟩
    rcases hm with ⟨rfl, hs⟩ | rfl
    · exact .stopped (by rw [ag.stop]; exact hs) hf
    · exact .cancelledBefore rfl hf

theorem unbox_box (l : List Result) :
    (l.map Result.box).map (fun v => match v.asResult? with | some r => r | none => newResult v) = l := by
  induction l with
  | nil => rfl
  | cons r t ih => simp only [List.map_cons, ih]; rfl

theorem itemsSeq_no_post (items : List Result) (i : Nat) (ctx : Ctx) :
    (itemsSeq kind n v cfg scr items i ctx).1.filterMap
      (fun e => match e with | .bpost _ _ _ it sl => some (it, sl) | _ => none) = [] := by
  rw [List.filterMap_eq_nil_iff]
  intro e he
  obtain ⟨j, h1, _⟩ := itemsSeq_evItem _ _ _ _ _ _ _ _ e he
  cases e <;> simp_all [evItem]

/-- the driver's view of a batch run whose prep succeeded and which has a post function -/
theorem batchViewOf_runBatch (sid : StoreId) (ctx : Ctx) {l : List Val} (hp : scr.prep.res = .ok l)
    (hpost : cfg.hasPost = true) :
    batchViewOf (runBatch kind n v sid cfg scr ctx).1 (runBatch kind n v sid cfg scr ctx).2.2 =
      { events := (itemsSeq kind n v cfg scr (normItems cfg.shape l) 0 (ctx.after kind scr.prep.cancels)).1.flatMap obsOf
          ++ [.post],
        quiescent := [], items := (normItems cfg.shape l).map Result.box,
        slots := (itemsSeq kind n v cfg scr (normItems cfg.shape l) 0 (ctx.after kind scr.prep.cancels)).2.2,
        posts := 1,
        outOk := (match scr.post.res with | .ok _ => true | .error _ => false) } := by
  rw [runBatch_ok kind n v cfg scr sid ctx hp]
  simp only [hpost, if_true, batchViewOf, List.flatMap_cons, List.flatMap_append, List.flatMap_nil, obsOf,
    List.nil_append, List.append_nil, List.filterMap_cons, List.filterMap_append, List.filterMap_nil,
    itemsSeq_no_post, List.getLast?_singleton, Option.getD_some, List.length_singleton, unbox_box]
  cases scr.post.res <;> rfl

/-- **Bridge, C06, sequential family.** For every batch node with an exec function, a retry budget ≥ 1 and a
    post function, every script whose prep succeeds, every context and every concurrency setting of `runBatch`:
    the predicate `Spec.c06`, evaluated exactly as `Driver.FlowFam.judgeBatchRoot` does on the model's own
    observation, is true. -/
theorem c06_runBatch (sid : StoreId) (ctx : Ctx) {l : List Val} (hp : scr.prep.res = .ok l)
    (hpost : cfg.hasPost = true) (hex : cfg.execS ≠ .absent) (hb : 0 < cfg.budget) :
    c06 (concCfgOf kind cfg scr (normItems cfg.shape l).length) ((normItems cfg.shape l).map Result.box)
      (batchViewOf (runBatch kind n v sid cfg scr ctx).1 (runBatch kind n v sid cfg scr ctx).2.2) = true := by
  rw [batchViewOf_runBatch n v sid ctx hp hpost]
  have ag := agrees_concCfgOf kind cfg scr (normItems cfg.shape l).length
  have horig := fun j hj => itemsSeq_origin n v ag (normItems cfg.shape l) (ctx.after kind scr.prep.cancels)
    ((itemsSeq kind n v cfg scr (normItems cfg.shape l) 0 (ctx.after kind scr.prep.cancels)).1.flatMap obsOf ++ [.post])
    (fun j => view_other _ _ j (by simp [obsItem])) j hj
  simp only [c06, Bool.and_eq_true, List.all_eq_true, List.mem_range, beq_iff_eq]
  refine ⟨⟨⟨⟨⟨?_, ?_⟩, ?_⟩, ?_⟩, ?_⟩, ?_⟩
  · trivial
  · trivial
  · simp [itemsSeq_length, concCfgOf]
  · intro i hi
    obtain ⟨r, hr, ho⟩ := horig i hi
    rw [List.getD_eq_getElem?_getD, hr]
    exact origin_slotMatches ho hex hb
  · simp
  · intro i hi
    obtain ⟨r, hr, ho⟩ := horig i hi
    exact origin_balanced ho

/-- **Bridge, C11, sequential family.** `Spec.c11` on the model's own observation, evaluated as the driver does,
    for every context (live, cancelled before the run) and every script (cancellation from inside any callback,
    asynchronously during a retry wait) whose prep and post succeed. -/
theorem c11_runBatch (sid : StoreId) (ctx : Ctx) {l : List Val} {a : Action} (hp : scr.prep.res = .ok l)
    (hpost : cfg.hasPost = true) (hex : cfg.execS ≠ .absent) (hb : 0 < cfg.budget) (hpo : scr.post.res = .ok a) :
    c11 (concCfgOf kind cfg scr (normItems cfg.shape l).length)
      (batchViewOf (runBatch kind n v sid cfg scr ctx).1 (runBatch kind n v sid cfg scr ctx).2.2) = true := by
  rw [batchViewOf_runBatch n v sid ctx hp hpost]
  have ag := agrees_concCfgOf kind cfg scr (normItems cfg.shape l).length
  have horig := fun j hj => itemsSeq_origin n v ag (normItems cfg.shape l) (ctx.after kind scr.prep.cancels)
    ((itemsSeq kind n v cfg scr (normItems cfg.shape l) 0 (ctx.after kind scr.prep.cancels)).1.flatMap obsOf ++ [.post])
    (fun j => view_other _ _ j (by simp [obsItem])) j hj
  have hq : QAfter (obsCancels (concCfgOf kind cfg scr (normItems cfg.shape l).length)) isStart
      ((itemsSeq kind n v cfg scr (normItems cfg.shape l) 0 (ctx.after kind scr.prep.cancels)).1.flatMap obsOf ++ [.post]) := by
    rw [qafter_append]
    refine ⟨qafter_obs ag _ (itemsSeq_seg kind n v cfg scr _ 0 _).quiet, ⟨by simp, trivial⟩, ?_⟩
    intro _ x hx
    simp only [List.mem_singleton] at hx; subst hx; rfl
  simp only [c11, Bool.and_eq_true, hpo]
  refine ⟨⟨⟨?_, ?_⟩, ?_⟩, ?_⟩
  · exact qafter_findIdx (obsCancels _) isStart _ _ hq (by intro x hx; cases x <;> simp_all [isStart])
  · rfl
  · trivial
  · rw [List.all_eq_true]
    intro i hi
    rw [List.mem_range] at hi
    obtain ⟨r, hr, ho⟩ := horig i hi
    rw [List.getD_eq_getElem?_getD, hr]
    exact origin_slotMatches ho hex hb

/-- **Bridge, C07, sequential family.** `Spec.c07` on the model's own observation for runs without cancellation
    (no script cancels, prep does not cancel, live context), in either error-handling mode. -/
theorem c07_runBatch (sid : StoreId) {l : List Val} (hp : scr.prep.res = .ok l) (hpost : cfg.hasPost = true)
    (hq : ∀ j, Quiet (scr.item j)) (hpc : scr.prep.cancels = false) :
    c07 (concCfgOf kind cfg scr (normItems cfg.shape l).length)
      (batchViewOf (runBatch kind n v sid cfg scr .live).1 (runBatch kind n v sid cfg scr .live).2.2) = true := by
  unfold c07
  split
  · rfl
  · rename_i hcond
    simp only [Bool.or_eq_true, not_or, Bool.not_eq_true, beq_eq_false_iff_ne, ne_eq] at hcond
    obtain ⟨⟨⟨hstop, _⟩, hex⟩, hb⟩ := hcond
    have hstop' : cfg.stop = false := hstop
    have hex' : cfg.execS ≠ .absent := hex
    have hb' : 0 < cfg.budget := Nat.pos_of_ne_zero hb
    rw [batchViewOf_runBatch n v sid .live hp hpost]
    have ag := agrees_concCfgOf kind cfg scr (normItems cfg.shape l).length
    simp only [hpc, Ctx.after, Bool.false_eq_true, if_false]
    rw [List.all_eq_true]
    intro i hi
    rw [List.mem_range] at hi
    have hi' : i < (normItems cfg.shape l).length := hi
    -- closed form of the continue-mode run
    have hcl := itemsSeq_continue kind n v cfg scr hstop' hq (normItems cfg.shape l) 0
    have h1 := itemEvents_itemRuns kind n v cfg scr (normItems cfg.shape l) 0 i
    have h2 := itemRuns_getElem? kind n v cfg scr (normItems cfg.shape l) 0 i
    simp only [Nat.zero_add, List.getElem?_eq_getElem hi', Option.map_some] at h1 h2
    rw [h2] at h1
    simp only [Option.map_some, Option.getD_some] at h1
    have hev : itemEvents i (itemsSeq kind n v cfg scr (normItems cfg.shape l) 0 .live).1 =
        (runItem kind n v cfg i (normItems cfg.shape l)[i] (scr.item i) .live).1 := by rw [hcl]; exact h1
    have hslot : (itemsSeq kind n v cfg scr (normItems cfg.shape l) 0 .live).2.2[i]? =
        some (slotOfRes (runItem kind n v cfg i (normItems cfg.shape l)[i] (scr.item i) .live).2.2) := by
      rw [hcl]; simp [h2]
    obtain ⟨v1, v2, v3⟩ := view_itemEvents (itemsSeq kind n v cfg scr (normItems cfg.shape l) 0 .live).1 i
    obtain ⟨e1, e2, e3⟩ := view_other ((itemsSeq kind n v cfg scr (normItems cfg.shape l) 0 .live).1.flatMap obsOf)
      [.post] i (by simp [obsItem])
    have ho := runItem_origin n v ag i (normItems cfg.shape l)[i] false (.inr (hq i)) [] ⟨rfl, rfl, rfl⟩
    rw [List.nil_append, ← hev] at ho
    have ho' := ho.congr (h' := (itemsSeq kind n v cfg scr (normItems cfg.shape l) 0 .live).1.flatMap obsOf ++ [.post])
      id (by rw [e1, v1]) (by rw [e2, v2]) (by rw [e3, v3])
    obtain ⟨a1, a2, a3, _⟩ := origin_uncancelled ho' hstop hex hb'
    simp only [Bool.and_eq_true, beq_iff_eq]
    refine ⟨⟨⟨a1, a2⟩, ?_⟩, ?_⟩
    · rw [a3]; rfl
    · rw [List.getD_eq_getElem?_getD, hslot]
      exact origin_slotMatches ho' hex hb'

/-! ### stop mode: nothing is executed after a final failure -/

/-- the exec call whose return is a "final failure" in the sense of `Spec.isFinalFailure` -/
def ffEv (c : Conc.Cfg) : Ev → Bool := fun e => match e with
  | .bexec _ _ i k _ => isFinalFailure c i k
  | _ => false

def ffObs (c : Conc.Cfg) : Obs → Bool := fun e => match e with
  | .done i k => isFinalFailure c i k
  | _ => false

theorem attempts_ff (ag : Agrees c kind cfg scr) (i : Nat) (arg : Val) (rem : Nat) :
    ∀ (k : Nat) (last : Option Nat) (ctx : Ctx), k + rem = cfg.budget →
      QAfter (ffEv c) isBexec
        (attempts kind (fun k => .bexec n v i k arg) (fun k f => .bwait n v i k cfg.wait f)
          (scr.item i).exec (scr.item i).waitCancel cfg.execS cfg.wait k rem last ctx).1 ∧
      ((∃ e ∈ (attempts kind (fun k => .bexec n v i k arg) (fun k f => .bwait n v i k cfg.wait f)
          (scr.item i).exec (scr.item i).waitCancel cfg.execS cfg.wait k rem last ctx).1, ffEv c e = true) →
        ∃ e', (attempts kind (fun k => .bexec n v i k arg) (fun k f => .bwait n v i k cfg.wait f)
          (scr.item i).exec (scr.item i).waitCancel cfg.execS cfg.wait k rem last ctx).2.2 = .failed e') := by
  induction rem with
  | zero => intro k last ctx _; rw [attempts_zero]; exact ⟨trivial, by simp⟩
  | succ rem ih =>
    intro k last ctx hk
    have hwev : ∀ e ∈ wev (fun k f => Ev.bwait n v i k cfg.wait f) cfg.wait k, ffEv c e = false := by
      intro e he; rw [mem_wev _ _ he]; rfl
    cases ctx with
    | done kd => rw [attempts_done]; exact ⟨trivial, by simp⟩
    | live =>
      by_cases hw : k > 0 ∧ cfg.wait > 0 ∧ (scr.item i).waitCancel k = true
      · rw [attempts_waitCancel _ _ _ _ _ _ _ _ _ _ hw]
        exact ⟨qafter_of_none _ _ _ (by simp [ffEv]), by simp [ffEv]⟩
      · by_cases hsa : cfg.execS = .absent
        · rw [attempts_absent _ _ _ _ _ _ _ _ _ _ hw hsa]
          refine ⟨qafter_of_none _ _ _ hwev, ?_⟩
          rintro ⟨e, he, hc⟩; rw [hwev e he] at hc; simp at hc
        · cases hr : ((scr.item i).exec k).res with
          | ok x =>
            rw [attempts_ok _ _ _ _ _ _ _ _ _ _ hw hsa hr]
            have hnone : ∀ e ∈ wev (fun k f => Ev.bwait n v i k cfg.wait f) cfg.wait k ++ [Ev.bexec n v i k arg],
                ffEv c e = false := by
              intro e he
              rcases List.mem_append.1 he with he | he
              · exact hwev e he
              · simp only [List.mem_singleton] at he; subst he
                simp [ffEv, isFinalFailure, ag.exec, hr]
            refine ⟨qafter_of_none _ _ _ hnone, ?_⟩
            rintro ⟨e, he, hc⟩; rw [hnone e he] at hc; simp at hc
          | error e =>
            rw [attempts_err _ _ _ _ _ _ _ _ _ _ hw hsa hr]
            obtain ⟨ih1, ih2⟩ := ih (k + 1) (some e) (Ctx.live.after kind ((scr.item i).exec k).cancels) (by omega)
            have hlast : ffEv c (Ev.bexec n v i k arg) = true → rem = 0 := by
              intro hff
              simp only [ffEv, isFinalFailure, ag.exec, hr, Bool.and_eq_true, beq_iff_eq, ag.budget] at hff
              omega
            constructor
            · rw [qafter_append, qafter_append]
              refine ⟨⟨qafter_of_none _ _ _ hwev, ⟨by simp, trivial⟩, ?_⟩, ih1, ?_⟩
              · rintro ⟨e', he', hc⟩; rw [hwev e' he'] at hc; simp at hc
              · rintro ⟨e', he', hc⟩
                rcases List.mem_append.1 he' with he' | he'
                · rw [hwev e' he'] at hc; simp at hc
                · simp only [List.mem_singleton] at he'; subst he'
                  have := hlast hc; subst this
                  rw [attempts_zero]; simp
            · rintro ⟨e', he', hc⟩
              simp only [List.mem_append, List.mem_singleton] at he'
              rcases he' with (he' | rfl) | he'
              · rw [hwev e' he'] at hc; simp at hc
              · have := hlast hc; subst this
                rw [attempts_zero]; exact ⟨e, rfl⟩
              · exact ih2 ⟨e', he', hc⟩

/-- inside one item nothing is executed after a final failure, and a final failure makes the item fail -/
theorem runItem_ff (ag : Agrees c kind cfg scr) (i : Nat) (item : Result) (ctx : Ctx) :
    QAfter (ffEv c) isBexec (runItem kind n v cfg i item (scr.item i) ctx).1 ∧
    ((∃ e ∈ (runItem kind n v cfg i item (scr.item i) ctx).1, ffEv c e = true) →
      ∃ err, (runItem kind n v cfg i item (scr.item i) ctx).2.2 = .error err) := by
  obtain ⟨h1, h2⟩ := attempts_ff n v ag i (execArg cfg.execS item.box) cfg.budget 0 none ctx (by omega)
  have hevs := attempts_events kind (fun k => Ev.bexec n v i k (execArg cfg.execS item.box))
    (fun k f => Ev.bwait n v i k cfg.wait f) (scr.item i).exec (scr.item i).waitCancel cfg.execS cfg.wait 0 cfg.budget none ctx
  rw [runItem_eq]
  simp only []
  generalize attempts kind (fun k => Ev.bexec n v i k (execArg cfg.execS item.box)) (fun k f => Ev.bwait n v i k cfg.wait f)
    (scr.item i).exec (scr.item i).waitCancel cfg.execS cfg.wait 0 cfg.budget none ctx = a at h1 h2 hevs
  obtain ⟨aev, actx, ares⟩ := a
  simp only at h1 h2 hevs
  have hfb : ∀ e ∈ (fallbackPhase kind cfg.fb (fun e => Ev.bfb n v i item.box (ErrRoot.user e)) (scr.item i).fb actx ares).1,
      ffEv c e = false ∧ isBexec e = false := by
    intro e he
    obtain ⟨e', rfl⟩ := fallbackPhase_events _ _ _ _ _ _ e he
    exact ⟨rfl, rfl⟩
  constructor
  · rw [qafter_append]
    exact ⟨h1, qafter_of_none _ _ _ (fun e he => (hfb e he).1), fun _ x hx => (hfb x hx).2⟩
  · rintro ⟨e, he, hc⟩
    rcases List.mem_append.1 he with he | he
    · obtain ⟨e', rfl⟩ := h2 ⟨e, he, hc⟩
      -- the final-failure event is an exec of this very item: its fallback (if any) fails as well
      simp only [fallbackPhase]
      cases hfbk : cfg.fb with
      | absent => exact ⟨_, rfl⟩
      | passThrough => exact ⟨_, rfl⟩
      | custom =>
        cases hr : (scr.item i).fb.res with
        | error e2 => exact ⟨_, rfl⟩
        | ok x =>
          exfalso
          -- `ffEv` of an event of item `i` says the fallback of item `i` does not succeed
          have : ∃ k, e = Ev.bexec n v i k (execArg cfg.execS item.box) := by
            rcases hevs e he with h | ⟨k, f, rfl⟩
            · exact h
            · simp [ffEv] at hc
          obtain ⟨k, rfl⟩ := this
          simp only [ffEv, isFinalFailure, ag.fb, hfbk, ag.fbOut, okOf, hr] at hc
          split at hc <;> simp at hc
    · rw [(hfb e he).1] at hc; simp at hc

/-- **Stop mode, with or without cancellation:** in the sequential loop no exec call follows a final failure -/
theorem itemsSeq_ff (ag : Agrees c kind cfg scr) (hs : cfg.stop = true) (items : List Result) (i : Nat) (ctx : Ctx) :
    QAfter (ffEv c) isBexec (itemsSeq kind n v cfg scr items i ctx).1 := by
  induction items, i, ctx using itemsSeq_induct kind n v cfg scr with
  | nil => trivial
  | doneStop => trivial
  | doneCont h => rw [hs] at h; simp at h
  | liveSlot it rest i s hr ih =>
    rw [qafter_append]
    refine ⟨(runItem_ff n v ag i it .live).1, ih, fun hff => ?_⟩
    obtain ⟨err, herr⟩ := (runItem_ff n v ag i it .live).2 hff
    rw [hr] at herr; simp at herr
  | liveErrCont h => rw [hs] at h; simp at h
  | liveErrStop _ it rest i e _ => exact (runItem_ff n v ag i it .live).1

/-- **Bridge, C09, sequential family.** `Spec.c09` on the model's own observation: every slot is the item's real
    outcome or an error, and in stop mode nothing starts after a final failure — for every context and script. -/
theorem c09_runBatch (sid : StoreId) (ctx : Ctx) {l : List Val} (hp : scr.prep.res = .ok l)
    (hpost : cfg.hasPost = true) (hex : cfg.execS ≠ .absent) (hb : 0 < cfg.budget) :
    c09 (concCfgOf kind cfg scr (normItems cfg.shape l).length)
      (batchViewOf (runBatch kind n v sid cfg scr ctx).1 (runBatch kind n v sid cfg scr ctx).2.2) = true := by
  rw [batchViewOf_runBatch n v sid ctx hp hpost]
  have ag := agrees_concCfgOf kind cfg scr (normItems cfg.shape l).length
  have horig := fun j hj => itemsSeq_origin n v ag (normItems cfg.shape l) (ctx.after kind scr.prep.cancels)
    ((itemsSeq kind n v cfg scr (normItems cfg.shape l) 0 (ctx.after kind scr.prep.cancels)).1.flatMap obsOf ++ [.post])
    (fun j => view_other _ _ j (by simp [obsItem])) j hj
  simp only [c09, Bool.and_eq_true]
  constructor
  · rw [List.all_eq_true]
    intro i hi
    rw [List.mem_range] at hi
    obtain ⟨r, hr, ho⟩ := horig i hi
    rw [List.getD_eq_getElem?_getD, hr]
    exact origin_slotMatches ho hex hb
  · cases hs : cfg.stop with
    | false => simp [concCfgOf, hs]
    | true =>
      have hq : QAfter (ffObs (concCfgOf kind cfg scr (normItems cfg.shape l).length)) isStart
          ((itemsSeq kind n v cfg scr (normItems cfg.shape l) 0 (ctx.after kind scr.prep.cancels)).1.flatMap obsOf ++ [.post]) := by
        rw [qafter_append]
        refine ⟨qafter_flatMap obsOf (ffEv _) isBexec _ _ ?_ ?_ ?_ _ (itemsSeq_ff n v ag hs _ 0 _), ⟨by simp [ffObs], trivial⟩, ?_⟩
        · intro e; cases e <;> simp [obsOf, QAfter, ffObs, isStart]
        · rintro e ⟨o, ho, hc⟩
          cases e <;> simp [obsOf] at ho
          · rcases ho with rfl | rfl
            · simp [ffObs] at hc
            · simpa [ffObs, ffEv] using hc
          · subst ho; simp [ffObs] at hc
          · subst ho; simp [ffObs] at hc
        · intro e he o ho
          cases e <;> simp [obsOf] at ho <;> simp_all [isStart, isBexec]
        · intro _ x hx
          simp only [List.mem_singleton] at hx; subst hx; rfl
      simp only [Bool.or_eq_true, Bool.not_eq_true']
      right
      rw [List.all_eq_true]
      intro p hp
      rw [List.mem_range] at hp
      simp only [List.getD_eq_getElem?_getD, List.getElem?_eq_getElem hp, Option.getD_some]
      split
      · rename_i i k hpk
        split
        · rename_i hff
          rw [List.all_eq_true]
          intro x hx
          have := qafter_drop _ _ _ hq p hp (by rw [hpk]; exact hff) x hx
          cases x <;> simp_all [isStart]
        · rfl
      · rfl

end run

/-! ### the concurrent LTS: cancellation invariant and the remaining bridges -/

theorem micro_cancel_facts {c : Conc.Cfg} {s : BState} {i : Nat} {pc pc' : Pc} {b : Bool} {evs : List Obs}
    (h : Micro c s i pc b evs pc') :
    (b = true ↔ ∃ e ∈ evs, obsCancels c e = true) ∧ ((∃ e ∈ evs, isStart e = true) → s.cancelled = false) ∧
    (∀ e ∈ evs, e ≠ .cancel) ∧ QAfter (obsCancels c) isStart evs.reverse := by
  cases h <;> simp_all [obsCancels, isStart, QAfter]

/-- the `cancelled` flag is set exactly when a cancelling event is in the log, and no exec call has ever started
    after a cancelling event -/
structure CancelInv (c : Conc.Cfg) (s : BState) : Prop where
  flag : s.cancelled = true ↔ ∃ e ∈ s.log, obsCancels c e = true
  quiet : QAfter (obsCancels c) isStart (hist s)

theorem cancelInv_init (c : Conc.Cfg) : CancelInv c (init c) := by
  constructor <;> simp [init, hist, QAfter]

theorem cancelInv_trans {c : Conc.Cfg} {s s' : BState} {l : Label} (h : CancelInv c s) (t : Trans c s l s') :
    CancelInv c s' := by
  obtain ⟨h1, h2⟩ := h
  cases t with
  | submit => exact ⟨h1, h2⟩
  | take => exact ⟨h1, h2⟩
  | cancel hc =>
    refine ⟨by simp [obsCancels], ?_⟩
    show QAfter _ _ (Obs.cancel :: s.log).reverse
    rw [List.reverse_cons, qafter_append]
    exact ⟨h2, ⟨by simp, trivial⟩, fun _ x hx => by simp at hx; subst hx; rfl⟩
  | waitRet a b c' d =>
    refine ⟨?_, ?_⟩
    · show s.cancelled = true ↔ ∃ e ∈ Obs.post :: s.log, obsCancels c e = true
      rw [h1]; simp [obsCancels]
    · show QAfter _ _ (Obs.post :: s.log).reverse
      rw [List.reverse_cons, qafter_append]
      exact ⟨h2, ⟨by simp, trivial⟩, fun _ x hx => by simp at hx; subst hx; rfl⟩
  | advance i pc b evs pc' l hpc hm hl =>
    obtain ⟨f1, f2, _, f4⟩ := micro_cancel_facts hm
    refine ⟨?_, ?_⟩
    · show (s.cancelled || b) = true ↔ ∃ e ∈ evs ++ s.log, obsCancels c e = true
      simp only [Bool.or_eq_true, h1, f1, List.mem_append]
      constructor
      · rintro (⟨e, he, hc⟩ | ⟨e, he, hc⟩)
        · exact ⟨e, .inr he, hc⟩
        · exact ⟨e, .inl he, hc⟩
      · rintro ⟨e, he | he, hc⟩
        · exact .inr ⟨e, he, hc⟩
        · exact .inl ⟨e, he, hc⟩
    · show QAfter _ _ (evs ++ s.log).reverse
      rw [List.reverse_append, qafter_append]
      refine ⟨h2, f4, ?_⟩
      rintro ⟨e, he, hc⟩ x hx
      cases hs : isStart x with
      | false => rfl
      | true =>
        have hcf := f2 ⟨x, List.mem_reverse.1 hx, hs⟩
        have : s.cancelled = true := h1.2 ⟨e, List.mem_reverse.1 he, hc⟩
        rw [hcf] at this; simp at this
  | finish i pc r b hpc hf => exact ⟨h1, h2⟩

theorem cancelInv_reachable {c : Conc.Cfg} {s : BState} (h : Reachable c s) : CancelInv c s := by
  induction h with
  | init => exact cancelInv_init c
  | step _ hs ih => obtain ⟨l, hl⟩ := hs; exact cancelInv_trans ih (trans_of_apply hl)

/-- **Bridge, C11, gated family.** In the state right after post, `Spec.c11` holds of the model's observation
    (the LTS's own log as the event list) — for every schedule, every placement of the cancellation. -/
theorem c11_viewOf {c : Conc.Cfg} {s s' : BState} (items : List Val) (hr : Reachable c s) (hex : c.execS ≠ .absent)
    (hb : 0 < c.budget) (hw : apply c s .waitRet = some s') : c11 c (viewOf s' items) = true := by
  have hr' : Reachable c s' := hr.step ⟨_, hw⟩
  have hq := (cancelInv_reachable hr').quiet
  obtain ⟨hn, hqq, hrun, hp, rfl⟩ := waitRet_inv hw
  have hall := all_slots_written hr hn hqq hrun
  have hL := logInv_reachable hr'
  simp only [c11, Bool.and_eq_true]
  refine ⟨⟨⟨?_, ?_⟩, ?_⟩, ?_⟩
  · exact qafter_findIdx (obsCancels _) isStart _ _ hq (by intro x hx; cases x <;> simp_all [isStart])
  · simp [viewOf]
  · rfl
  · rw [List.all_eq_true]
    intro i hi
    rw [List.mem_range] at hi
    obtain ⟨r, hr0⟩ := hall i hi
    have hs : ({ s with posted := true, log := Obs.post :: s.log } : BState).slots[i]? = some (some r) := hr0
    rw [viewOf_slot hs]
    exact origin_slotMatches (hL.slots i r hs) hex hb

/-- `Spec.c09` on the LTS observation right after post: in continue mode the whole predicate; in stop mode its
    per-slot clause (the ordering clause speaks of gated schedules only, see `Props/C09.lean`). -/
theorem c09_viewOf_partial {c : Conc.Cfg} {s s' : BState} (items : List Val) (hr : Reachable c s) (hex : c.execS ≠ .absent)
    (hb : 0 < c.budget) (hw : apply c s .waitRet = some s') :
    ((List.range c.n).all fun i => slotMatches c (viewOf s' items).events i ((viewOf s' items).slots.getD i default)) = true ∧
    (c.stop = false → c09 c (viewOf s' items) = true) := by
  have hr' : Reachable c s' := hr.step ⟨_, hw⟩
  obtain ⟨hn, hqq, hrun, hp, rfl⟩ := waitRet_inv hw
  have hall := all_slots_written hr hn hqq hrun
  have hL := logInv_reachable hr'
  have h1 : ((List.range c.n).all fun i => slotMatches c (viewOf { s with posted := true, log := Obs.post :: s.log } items).events i
      ((viewOf { s with posted := true, log := Obs.post :: s.log } items).slots.getD i default)) = true := by
    rw [List.all_eq_true]
    intro i hi
    rw [List.mem_range] at hi
    obtain ⟨r, hr0⟩ := hall i hi
    have hs : ({ s with posted := true, log := Obs.post :: s.log } : BState).slots[i]? = some (some r) := hr0
    rw [viewOf_slot hs]
    exact origin_slotMatches (hL.slots i r hs) hex hb
  refine ⟨h1, fun hstop => ?_⟩
  simp only [c09, Bool.and_eq_true, hstop]
  exact ⟨h1, rfl⟩

theorem origin_dones_lt {c : Conc.Cfg} {cz : Bool} {h : List Obs} {i : Nat} {r : Result} (ho : Origin c cz h i r) :
    ∀ k ∈ itemDones h i, k < c.budget := by
  intro k hk
  cases ho with
  | stopped _ hf => rw [hf.2.1] at hk; simp at hk
  | cancelledBefore _ hf => rw [hf.2.1] at hk; simp at hk
  | ctxCut k' z hk' h1 h2 ha hf => rw [h2] at hk; simp at hk; omega
  | noExec _ hf => rw [hf.2.1] at hk; simp at hk
  | ok k' x hk' h1 h2 ha hx hf => rw [h2] at hk; simp at hk; omega
  | fbOk x hpos h1 h2 ha hfb hx hf => rw [h2] at hk; simpa using hk
  | fbErr e' hpos h1 h2 ha hfb hx hf => rw [h2] at hk; simpa using hk
  | lastError e hpos h1 h2 ha hfb he hf => rw [h2] at hk; simpa using hk

/-- a fallback call in the history of a finished item means the node has a custom fallback -/
theorem origin_fb_custom {c : Conc.Cfg} {cz : Bool} {h : List Obs} {i : Nat} {r : Result} (ho : Origin c cz h i r)
    (hf : 0 < itemFbs h i) : c.fb = .custom := by
  cases ho with
  | stopped _ hfr => rw [hfr.2.2] at hf; omega
  | cancelledBefore _ hfr => rw [hfr.2.2] at hf; omega
  | ctxCut k' z hk' h1 h2 ha hf0 => omega
  | noExec _ hfr => rw [hfr.2.2] at hf; omega
  | ok k' x hk' h1 h2 ha hx hf0 => omega
  | fbOk x hpos h1 h2 ha hfb hx hf1 => exact hfb
  | fbErr e' hpos h1 h2 ha hfb hx hf1 => exact hfb
  | lastError e hpos h1 h2 ha hfb he hf0 => omega

theorem itemFbs_pos_of_mem {h : List Obs} {i : Nat} (hm : Obs.fb i ∈ h) : 0 < itemFbs h i := by
  simp only [itemFbs, List.length_pos_iff_exists_mem, List.mem_filter]
  exact ⟨_, hm, by simp⟩

/-- **Bridge, C07, gated family.** In the state right after post, `Spec.c07` holds of the model's observation,
    for every schedule and every script (`Spec.cancelFree` inspects exec AND fallback scripts, so no side
    condition on the scripts remains). -/
theorem c07_viewOf {c : Conc.Cfg} {s s' : BState} (items : List Val) (hr : Reachable c s)
    (hw : apply c s .waitRet = some s') : c07 c (viewOf s' items) = true := by
  unfold c07
  split
  · rfl
  · rename_i hcond
    simp only [Bool.or_eq_true, not_or, Bool.not_eq_true, beq_eq_false_iff_ne, ne_eq, Bool.not_eq_false'] at hcond
    obtain ⟨⟨⟨hstop, hcf⟩, hex⟩, hb⟩ := hcond
    have hb' : 0 < c.budget := Nat.pos_of_ne_zero hb
    have hr' : Reachable c s' := hr.step ⟨_, hw⟩
    have hC := cancelInv_reachable hr'
    obtain ⟨hn, hqq, hrun, hp, rfl⟩ := waitRet_inv hw
    have hall := all_slots_written hr hn hqq hrun
    have hL := logInv_reachable hr'
    have hI := inv_reachable hr
    -- the context was never cancelled
    have hnc : ({ s with posted := true, log := Obs.post :: s.log } : BState).cancelled = false := by
      cases hcz : ({ s with posted := true, log := Obs.post :: s.log } : BState).cancelled with
      | false => rfl
      | true =>
        exfalso
        obtain ⟨e, he, hc⟩ := hC.flag.1 hcz
        simp only [cancelFree, Bool.and_eq_true, Bool.not_eq_true', List.any_eq_false, List.all_eq_true,
          List.mem_range, beq_iff_eq, Bool.or_eq_true, bne_iff_ne, ne_eq] at hcf
        obtain ⟨⟨hcf1, hcf2⟩, hcf3⟩ := hcf
        have hin : ∀ i, (itemDones (hist { s with posted := true, log := Obs.post :: s.log }) i ≠ [] ∨
            0 < itemFbs (hist { s with posted := true, log := Obs.post :: s.log }) i) → i < c.n := by
          intro i hne
          by_cases hge : i < c.n
          · exact hge
          exfalso
          have hfr := hL.fresh i
            (by simp [ids, hrun])
            (fun r hr0 => by
              have := (hI.slotIff i).1 ⟨r, hr0⟩
              omega)
          rcases hne with hne | hne
          · exact hne hfr.2.1
          · rw [hfr.2.2] at hne; omega
        have hev : e ∈ (viewOf { s with posted := true, log := Obs.post :: s.log } items).events := by
          simp only [viewOf, hist]; exact List.mem_reverse.2 he
        cases e with
        | cancel => exact hcf1 _ hev rfl
        | done i k =>
          simp only [obsCancels] at hc
          have hd : k ∈ itemDones (hist { s with posted := true, log := Obs.post :: s.log }) i :=
            mem_itemDones.2 (by simpa [viewOf] using hev)
          have hi : i < c.n := hin i (.inl (List.ne_nil_of_mem hd))
          obtain ⟨r, hr0⟩ := hall i hi
          have hk := origin_dones_lt (hL.slots i r hr0) k hd
          have := hcf2 i hi k hk
          rw [hc] at this; simp at this
        | fb i =>
          simp only [obsCancels] at hc
          have hf : 0 < itemFbs (hist { s with posted := true, log := Obs.post :: s.log }) i :=
            itemFbs_pos_of_mem (by simpa [viewOf] using hev)
          have hi : i < c.n := hin i (.inr hf)
          obtain ⟨r, hr0⟩ := hall i hi
          have hcust := origin_fb_custom (hL.slots i r hr0) hf
          rcases hcf3 with hcf3 | hcf3
          · exact hcf3 hcust
          · have := hcf3 i hi
            rw [hc] at this; simp at this
        | start i k => simp [obsCancels] at hc
        | post => simp [obsCancels] at hc
    rw [List.all_eq_true]
    intro i hi
    rw [List.mem_range] at hi
    obtain ⟨r, hr0⟩ := hall i hi
    have hs : ({ s with posted := true, log := Obs.post :: s.log } : BState).slots[i]? = some (some r) := hr0
    have ho := hL.slots i r hs
    rw [hnc] at ho
    obtain ⟨a1, a2, a3, _⟩ := origin_uncancelled ho hstop hex hb'
    simp only [Bool.and_eq_true, beq_iff_eq]
    refine ⟨⟨⟨a1, a2⟩, ?_⟩, ?_⟩
    · exact a3
    · rw [viewOf_slot hs]
      exact origin_slotMatches ho hex hb'

end Flyt.Bridge
