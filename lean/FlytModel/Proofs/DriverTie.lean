import Driver.FlowFam
import FlytModel.Proofs.SpecC03
/-!
# The definitions used in the bridge theorems are the driver's own

`Props/C05.spec_c05` speaks about `clearEnv` and `obsWith storeLog`; `Props/C03.spec_c03` about `storeLog`.
The driver (`Driver/FlowFam.lean`, which the proofs do not import) uses `noCancelEnv`, `obsOf`, `storeLog`.
They coincide by `rfl`.
-/
namespace Flyt.Proofs
open Flyt

example (env : Env) : Driver.FlowFam.noCancelEnv env = clearEnv env := rfl
example (tr : List Ev) : Driver.FlowFam.storeLog tr = storeLog tr := rfl
example (r : List Ev × RunSt × Outcome) : Driver.FlowFam.obsOf r = obsWith storeLog r := rfl

end Flyt.Proofs
