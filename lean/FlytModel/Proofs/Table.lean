import FlytModel.Model.Flat
/-!
# The literal two-level `Connect` table is a last-write-wins map (helper lemmas for C03 / C10)

`tableLookup (buildTable ops) n a = next ops n a`: what `Flow.Exec` reads from
`transitions[from][action]` after any sequence of `Connect` calls is the target of the most recent
call for exactly that `(from, action)` pair (nil targets preserved, no prefix / default matching).
-/
namespace Flyt.Proofs.Table
open Flyt

theorem assocGet_assocSet {κ α : Type} [DecidableEq κ] (l : List (κ × α)) (k k' : κ) (v : α) :
    assocGet (assocSet l k v) k' = if k = k' then some v else assocGet l k' := by
  induction l with
  | nil =>
    simp only [assocSet, assocGet]
  | cons h t ih =>
    obtain ⟨kh, vh⟩ := h
    simp only [assocSet]
    by_cases h1 : kh = k
    · subst h1
      simp only [if_true, assocGet]
      split <;> rfl
    · simp only [if_neg h1, assocGet, ih]
      by_cases h2 : kh = k'
      · subst h2
        have : ¬ k = kh := fun h => h1 h.symm
        simp only [if_true, if_neg this]
      · simp only [if_neg h2]

/-- one `Connect` call, seen through the two-level lookup -/
theorem tableLookup_connect (t : Table) (op : ConnOp) (n : NodeId) (a : Action) :
    tableLookup (connect t op) n a =
      if op.src = n ∧ op.action = a then some op.dst else tableLookup t n a := by
  unfold tableLookup connect
  simp only [assocGet_assocSet]
  by_cases h1 : op.src = n
  · subst h1
    simp only [if_true, true_and, assocGet_assocSet]
    by_cases h2 : op.action = a
    · simp only [if_pos h2]
    · simp only [if_neg h2]
      cases assocGet t op.src <;> simp [assocGet]
  · simp [h1]

theorem next_nil (n : NodeId) (a : Action) : next [] n a = none := rfl

theorem next_append_singleton (ops : List ConnOp) (op : ConnOp) (n : NodeId) (a : Action) :
    next (ops ++ [op]) n a = if op.src = n ∧ op.action = a then some op.dst else next ops n a := by
  unfold next
  simp only [List.reverse_append, List.reverse_cons, List.reverse_nil, List.nil_append,
    List.cons_append, List.find?_cons]
  by_cases h : op.src = n ∧ op.action = a
  · simp [h]
  · simp [h]

theorem next_cons (op : ConnOp) (ops : List ConnOp) (n : NodeId) (a : Action) :
    next (op :: ops) n a =
      match next ops n a with
      | some r => some r
      | none => if op.src = n ∧ op.action = a then some op.dst else none := by
  unfold next
  simp only [List.reverse_cons, List.find?_append]
  cases h : List.find? (fun o => decide (o.src = n ∧ o.action = a)) ops.reverse with
  | some o => simp
  | none =>
    by_cases h2 : op.src = n ∧ op.action = a
    · simp [h2]
    · simp [h2]

theorem tableLookup_foldl (ops : List ConnOp) (t : Table) (n : NodeId) (a : Action) :
    tableLookup (ops.foldl connect t) n a =
      match next ops n a with
      | some r => some r
      | none => tableLookup t n a := by
  induction ops generalizing t with
  | nil => simp [next_nil]
  | cons op ops ih =>
    simp only [List.foldl_cons, ih, next_cons, tableLookup_connect]
    cases next ops n a <;> simp
    split <;> simp_all

/-- **C03 (i)** the bridge between the literal table and the last-write-wins reading. -/
theorem tableLookup_buildTable (ops : List ConnOp) (n : NodeId) (a : Action) :
    tableLookup (buildTable ops) n a = next ops n a := by
  unfold buildTable
  rw [tableLookup_foldl]
  cases next ops n a <;> simp [tableLookup, assocGet]

end Flyt.Proofs.Table
