import FlytModel.Model.Batch
/-!
# Sequential / serial batch execution: lemmas by induction over the item list

Helper lemmas for `Props/C06.lean`, `C07.lean`, `C09.lean`, `C11.lean` about `runItem`, `itemsSeq`,
`itemsSerialPool` and `runBatch` (Model/Batch.lean). Nothing here is bounded: all statements hold for
every item list, index offset, configuration, script and context.
-/
namespace Flyt.BatchSeq
open Flyt

/-! ### vocabulary -/

/-- the item index a per-item batch event belongs to -/
def evItem : Ev → Option Nat
  | .bexec _ _ i _ _ => some i
  | .bwait _ _ i _ _ _ => some i
  | .bfb _ _ i _ _ => some i
  | _ => none

def isBexec : Ev → Bool | .bexec .. => true | _ => false
def isBwait : Ev → Bool | .bwait .. => true | _ => false
def isBfb : Ev → Bool | .bfb .. => true | _ => false
def isBpost : Ev → Bool | .bpost .. => true | _ => false

/-- the events of item `j` in a trace, in order -/
def itemEvents (j : Nat) (evs : List Ev) : List Ev := evs.filter (fun e => evItem e == some j)

/-- what `runBatch*` writes into the slot for an item whose processing returned `r` -/
def slotOfRes : ItemRes → Result
  | .slot r => r
  | .error e => newErrorResult e

@[simp] theorem slotOfRes_slot (r : Result) : slotOfRes (.slot r) = r := rfl
@[simp] theorem slotOfRes_error (e : ErrRoot) : slotOfRes (.error e) = newErrorResult e := rfl

/-- the marker a never-processed item gets -/
def isMarker (stop : Bool) (r : Result) : Prop :=
  (r = newErrorResult (.fw .batchStopped) ∧ stop = true) ∨ r = newErrorResult (.fw .batchCancelled)

theorem isMarker_isError {stop : Bool} {r : Result} (h : isMarker stop r) : r.isError = true := by
  rcases h with ⟨h, _⟩ | h <;> subst h <;> rfl

@[simp] theorem itemEvents_nil (j : Nat) : itemEvents j [] = [] := rfl
@[simp] theorem itemEvents_append (j : Nat) (a b : List Ev) :
    itemEvents j (a ++ b) = itemEvents j a ++ itemEvents j b := by simp [itemEvents]

theorem itemEvents_eq_self {j : Nat} {evs : List Ev} (h : ∀ e ∈ evs, evItem e = some j) :
    itemEvents j evs = evs := by
  simp only [itemEvents, List.filter_eq_self]
  intro e he; simp [h e he]

theorem itemEvents_eq_nil {j : Nat} {evs : List Ev} (h : ∀ e ∈ evs, evItem e ≠ some j) :
    itemEvents j evs = [] := by
  simp only [itemEvents, List.filter_eq_nil_iff]
  intro e he; simpa using h e he

/-! ### the retry loop -/

section attempts
variable (kind : CtxKind) (mkExec : Nat → Ev) (mkWait : Nat → Bool → Ev)
  (exec : Nat → Out Val) (wc : Nat → Bool) (execS : Style) (wait : Nat)

/-- the wait event (if any) that precedes attempt `k` -/
def wev (k : Nat) : List Ev := if k > 0 ∧ wait > 0 then [mkWait k true] else []

theorem attempts_zero (k : Nat) (last : Option Nat) (ctx : Ctx) :
    attempts kind mkExec mkWait exec wc execS wait k 0 last ctx =
      ([], ctx, match last with | none => .ok Val.nil | some e => .failed e) := by
  cases last <;> simp [attempts]

/-- the loop does nothing on a finished context (with budget left) -/
theorem attempts_done (k rem : Nat) (last : Option Nat) (kd : CtxKind) :
    attempts kind mkExec mkWait exec wc execS wait k (rem + 1) last (.done kd) = ([], .done kd, .cancelled kd) := by
  simp [attempts]

theorem attempts_waitCancel (k rem : Nat) (last : Option Nat) (h : k > 0 ∧ wait > 0 ∧ wc k = true) :
    attempts kind mkExec mkWait exec wc execS wait k (rem + 1) last .live =
      ([mkWait k false], .done kind, .cancelled kind) := by
  simp [attempts, h]

theorem attempts_absent (k rem : Nat) (last : Option Nat) (h : ¬ (k > 0 ∧ wait > 0 ∧ wc k = true))
    (hs : execS = .absent) :
    attempts kind mkExec mkWait exec wc execS wait k (rem + 1) last .live =
      (wev mkWait wait k, .live, .ok Val.nil) := by
  subst hs; simp [attempts, h, wev]

theorem attempts_ok (k rem : Nat) (last : Option Nat) (h : ¬ (k > 0 ∧ wait > 0 ∧ wc k = true))
    (hs : execS ≠ .absent) {x : Val} (hr : (exec k).res = .ok x) :
    attempts kind mkExec mkWait exec wc execS wait k (rem + 1) last .live =
      (wev mkWait wait k ++ [mkExec k], Ctx.live.after kind (exec k).cancels, .ok (execRet execS x)) := by
  cases execS <;> simp_all [attempts, wev]

theorem attempts_err (k rem : Nat) (last : Option Nat) (h : ¬ (k > 0 ∧ wait > 0 ∧ wc k = true))
    (hs : execS ≠ .absent) {e : Nat} (hr : (exec k).res = .error e) :
    attempts kind mkExec mkWait exec wc execS wait k (rem + 1) last .live =
      (wev mkWait wait k ++ [mkExec k] ++
        (attempts kind mkExec mkWait exec wc execS wait (k + 1) rem (some e) (Ctx.live.after kind (exec k).cancels)).1,
       (attempts kind mkExec mkWait exec wc execS wait (k + 1) rem (some e) (Ctx.live.after kind (exec k).cancels)).2.1,
       (attempts kind mkExec mkWait exec wc execS wait (k + 1) rem (some e) (Ctx.live.after kind (exec k).cancels)).2.2) := by
  cases execS <;> simp_all [attempts, wev]

theorem mem_wev {k : Nat} {e : Ev} (h : e ∈ wev mkWait wait k) : e = mkWait k true := by
  unfold wev at h; split at h <;> simp_all

/-- every event of the loop is an exec or a wait event of this loop -/
theorem attempts_events (k rem : Nat) (last : Option Nat) (ctx : Ctx) :
    ∀ e ∈ (attempts kind mkExec mkWait exec wc execS wait k rem last ctx).1,
      (∃ k', e = mkExec k') ∨ (∃ k' f, e = mkWait k' f) := by
  induction rem generalizing k last ctx with
  | zero => intro e he; simp [attempts] at he
  | succ rem ih =>
    intro e he
    cases ctx with
    | done kd => simp [attempts_done] at he
    | live =>
      by_cases hw : k > 0 ∧ wait > 0 ∧ wc k = true
      · rw [attempts_waitCancel _ _ _ _ _ _ _ _ _ _ hw] at he
        simp at he; exact .inr ⟨_, _, he⟩
      · by_cases hs : execS = .absent
        · rw [attempts_absent _ _ _ _ _ _ _ _ _ _ hw hs] at he
          exact .inr ⟨_, _, mem_wev _ _ he⟩
        · cases hr : (exec k).res with
          | ok x =>
            rw [attempts_ok _ _ _ _ _ _ _ _ _ _ hw hs hr] at he
            simp only [List.mem_append, List.mem_singleton] at he
            rcases he with he | rfl
            · exact .inr ⟨_, _, mem_wev _ _ he⟩
            · exact .inl ⟨_, rfl⟩
          | error e' =>
            rw [attempts_err _ _ _ _ _ _ _ _ _ _ hw hs hr] at he
            simp only [List.mem_append, List.mem_singleton] at he
            rcases he with (he | rfl) | he
            · exact .inr ⟨_, _, mem_wev _ _ he⟩
            · exact .inl ⟨_, rfl⟩
            · exact ih _ _ _ e he

/-- context and result of the loop do not depend on how events are rendered -/
theorem attempts_snd_indep (mkExec' : Nat → Ev) (mkWait' : Nat → Bool → Ev) (k rem : Nat) (last : Option Nat) (ctx : Ctx) :
    (attempts kind mkExec mkWait exec wc execS wait k rem last ctx).2 =
    (attempts kind mkExec' mkWait' exec wc execS wait k rem last ctx).2 := by
  induction rem generalizing k last ctx with
  | zero => simp [attempts]
  | succ rem ih =>
    cases ctx with
    | done kd => simp [attempts_done]
    | live =>
      by_cases hw : k > 0 ∧ wait > 0 ∧ wc k = true
      · simp [attempts_waitCancel, hw]
      · by_cases hs : execS = .absent
        · simp [attempts_absent, hw, hs]
        · cases hr : (exec k).res with
          | ok x => rw [attempts_ok _ _ _ _ _ _ _ _ _ _ hw hs hr, attempts_ok _ _ _ _ _ _ _ _ _ _ hw hs hr]
          | error e' =>
            rw [attempts_err _ _ _ _ _ _ _ _ _ _ hw hs hr, attempts_err _ _ _ _ _ _ _ _ _ _ hw hs hr]
            have := ih (k + 1) (some e') (Ctx.live.after kind (exec k).cancels)
            exact Prod.ext (congrArg Prod.fst this) (congrArg Prod.snd this)

/-- … nor does the number of events -/
theorem attempts_length_indep (mkExec' : Nat → Ev) (mkWait' : Nat → Bool → Ev) (k rem : Nat) (last : Option Nat) (ctx : Ctx) :
    (attempts kind mkExec mkWait exec wc execS wait k rem last ctx).1.length =
    (attempts kind mkExec' mkWait' exec wc execS wait k rem last ctx).1.length := by
  induction rem generalizing k last ctx with
  | zero => simp [attempts]
  | succ rem ih =>
    cases ctx with
    | done kd => simp [attempts_done]
    | live =>
      have hwl : (wev mkWait wait k).length = (wev mkWait' wait k).length := by unfold wev; split <;> rfl
      by_cases hw : k > 0 ∧ wait > 0 ∧ wc k = true
      · simp [attempts_waitCancel, hw]
      · by_cases hs : execS = .absent
        · simp [attempts_absent, hw, hs, hwl]
        · cases hr : (exec k).res with
          | ok x =>
            rw [attempts_ok _ _ _ _ _ _ _ _ _ _ hw hs hr, attempts_ok _ _ _ _ _ _ _ _ _ _ hw hs hr]
            simp [hwl]
          | error e' =>
            rw [attempts_err _ _ _ _ _ _ _ _ _ _ hw hs hr, attempts_err _ _ _ _ _ _ _ _ _ _ hw hs hr]
            simp [hwl, ih]

end attempts

/-! ### one item: `runItem` -/

section item
variable (kind : CtxKind) (n : NodeId) (v : Nat) (cfg : BatchCfg)

theorem fallbackPhase_events (fb : FbKind) (mkFb : Nat → Ev) (fbOut : Out Val) (ctx : Ctx) (r : AttemptRes) :
    ∀ e ∈ (fallbackPhase kind fb mkFb fbOut ctx r).1, ∃ e', e = mkFb e' := by
  intro e he
  unfold fallbackPhase at he
  cases r with
  | ok x => simp at he
  | cancelled k => simp at he
  | failed e' =>
    cases fb with
    | absent => simp at he
    | passThrough => simp at he
    | custom =>
      simp only [] at he
      cases hr : fbOut.res <;> rw [hr] at he <;> simp at he <;> exact ⟨_, he⟩

theorem fallbackPhase_snd_indep (fb : FbKind) (mkFb mkFb' : Nat → Ev) (fbOut : Out Val) (ctx : Ctx) (r : AttemptRes) :
    (fallbackPhase kind fb mkFb fbOut ctx r).2 = (fallbackPhase kind fb mkFb' fbOut ctx r).2 := by
  unfold fallbackPhase
  cases r with
  | ok x => rfl
  | cancelled k => rfl
  | failed e' =>
    cases fb with
    | absent => rfl
    | passThrough => rfl
    | custom => simp only []; cases hr : fbOut.res <;> rfl

theorem fallbackPhase_length_indep (fb : FbKind) (mkFb mkFb' : Nat → Ev) (fbOut : Out Val) (ctx : Ctx) (r : AttemptRes) :
    (fallbackPhase kind fb mkFb fbOut ctx r).1.length = (fallbackPhase kind fb mkFb' fbOut ctx r).1.length := by
  unfold fallbackPhase
  cases r with
  | ok x => rfl
  | cancelled k => rfl
  | failed e' =>
    cases fb with
    | absent => rfl
    | passThrough => rfl
    | custom => simp only []; cases hr : fbOut.res <;> rfl

/-- `runItem` spelled out with projections -/
theorem runItem_eq (i : Nat) (item : Result) (scr : ItemScript) (ctx : Ctx) :
    runItem kind n v cfg i item scr ctx =
      (let a := attempts kind (fun k => .bexec n v i k (execArg cfg.execS item.box)) (fun k f => .bwait n v i k cfg.wait f)
          scr.exec scr.waitCancel cfg.execS cfg.wait 0 cfg.budget none ctx
       let f := fallbackPhase kind cfg.fb (fun e => .bfb n v i item.box (.user e)) scr.fb a.2.1 a.2.2
       (a.1 ++ f.1, f.2.1, match f.2.2 with | .ok x => .slot (slotOfVal x) | .error e => .error e)) := by
  unfold runItem
  simp only []
  split <;> rename_i h <;> simp only [h]

/-- every event of an item's processing carries that item's index -/
theorem runItem_evItem (i : Nat) (item : Result) (scr : ItemScript) (ctx : Ctx) :
    ∀ e ∈ (runItem kind n v cfg i item scr ctx).1, evItem e = some i := by
  intro e he
  rw [runItem_eq] at he
  simp only [List.mem_append] at he
  rcases he with he | he
  · rcases attempts_events _ _ _ _ _ _ _ _ _ _ _ e he with ⟨k, rfl⟩ | ⟨k, f, rfl⟩ <;> rfl
  · obtain ⟨e', rfl⟩ := fallbackPhase_events _ _ _ _ _ _ e he
    rfl

/-- the outcome (context afterwards, result) of an item's processing depends only on the configuration,
    the item's own script and the context at entry – not on node, visit, index or payload -/
theorem runItem_snd_indep (n' : NodeId) (v' : Nat) (i i' : Nat) (item item' : Result) (scr : ItemScript) (ctx : Ctx) :
    (runItem kind n v cfg i item scr ctx).2 = (runItem kind n' v' cfg i' item' scr ctx).2 := by
  rw [runItem_eq, runItem_eq]
  simp only []
  rw [attempts_snd_indep kind _ _ _ _ _ _ (fun k => .bexec n' v' i' k (execArg cfg.execS item'.box)) (fun k f => .bwait n' v' i' k cfg.wait f)]
  rw [fallbackPhase_snd_indep kind _ _ (fun e => .bfb n' v' i' item'.box (.user e))]

/-- on a finished context an item (with a retry budget of at least one) is not executed at all and yields
    the context's error -/
theorem runItem_done (hb : 0 < cfg.budget) (i : Nat) (item : Result) (scr : ItemScript) (kd : CtxKind) :
    runItem kind n v cfg i item scr (.done kd) = ([], .done kd, .error (.ctx kd)) := by
  rw [runItem_eq]
  obtain ⟨b, hb'⟩ : ∃ b, cfg.budget = b + 1 := ⟨cfg.budget - 1, by omega⟩
  simp [hb', attempts_done, fallbackPhase]

/-- an item processed from a live context (exec function present, budget ≥ 1) starts with its attempt 0 -/
theorem runItem_live_first (hb : 0 < cfg.budget) (hex : cfg.execS ≠ .absent) (i : Nat) (item : Result) (scr : ItemScript) :
    ∃ t, (runItem kind n v cfg i item scr .live).1 = .bexec n v i 0 (execArg cfg.execS item.box) :: t := by
  rw [runItem_eq]
  obtain ⟨b, hb'⟩ : ∃ b, cfg.budget = b + 1 := ⟨cfg.budget - 1, by omega⟩
  simp only [hb']
  have hw : ¬ (0 > 0 ∧ cfg.wait > 0 ∧ scr.waitCancel 0 = true) := by simp
  cases hr : (scr.exec 0).res with
  | ok x => rw [attempts_ok _ _ _ _ _ _ _ _ _ _ hw hex hr]; simp [wev]
  | error e => rw [attempts_err _ _ _ _ _ _ _ _ _ _ hw hex hr]; simp [wev]

/-- an item whose processing produced no event was cut by a finished context: its outcome is an error -/
theorem runItem_no_events_isError (hb : 0 < cfg.budget) (hex : cfg.execS ≠ .absent) (i : Nat) (item : Result)
    (scr : ItemScript) (ctx : Ctx) (h : (runItem kind n v cfg i item scr ctx).1 = []) :
    (slotOfRes (runItem kind n v cfg i item scr ctx).2.2).isError = true := by
  cases ctx with
  | live =>
    obtain ⟨t, ht⟩ := runItem_live_first kind n v cfg hb hex i item scr
    rw [ht] at h; simp at h
  | done kd => rw [runItem_done kind n v cfg hb]; rfl

/-- the single-node counterpart of a batch item: a retryable leaf node with the batch's retry budget, wait,
    fallback and exec style, no prep and no post function -/
def leafOf : LeafCfg :=
  { retryable := true, budget := cfg.budget, wait := cfg.wait, fb := cfg.fb, prepS := .absent, execS := cfg.execS,
    postS := .absent }

def leafScriptOf (s : ItemScript) : LeafScript :=
  { prep := { res := .ok Val.nil }, exec := s.exec, waitCancel := s.waitCancel, fb := s.fb, post := { res := .ok "" } }

/-- **An item gets exactly the retry / fallback treatment of a single node run** (`flyt.Run`): same context
    afterwards, same number of callback events (attempts, waits, fallback), and it fails with the same error /
    succeeds exactly when the node run does. -/
theorem runItem_like_runLeaf (i : Nat) (item : Result) (s : ItemScript) (sid : StoreId) :
    (runLeaf kind n v sid (leafOf cfg) (leafScriptOf s) .live).2.1 = (runItem kind n v cfg i item s .live).2.1 ∧
    (runLeaf kind n v sid (leafOf cfg) (leafScriptOf s) .live).1.length = (runItem kind n v cfg i item s .live).1.length ∧
    (runLeaf kind n v sid (leafOf cfg) (leafScriptOf s) .live).2.2 =
      (match (runItem kind n v cfg i item s .live).2.2 with
       | .slot _ => .ok defaultAction
       | .error e => .err e) := by
  rw [runItem_eq]
  have h1 := attempts_snd_indep kind (fun k => Ev.exec n v k (execArg cfg.execS Val.nil))
    (fun k f => Ev.wait n v k cfg.wait f) s.exec s.waitCancel cfg.execS cfg.wait
    (fun k => Ev.bexec n v i k (execArg cfg.execS item.box)) (fun k f => Ev.bwait n v i k cfg.wait f) 0 cfg.budget none .live
  have h2 := attempts_length_indep kind (fun k => Ev.exec n v k (execArg cfg.execS Val.nil))
    (fun k f => Ev.wait n v k cfg.wait f) s.exec s.waitCancel cfg.execS cfg.wait
    (fun k => Ev.bexec n v i k (execArg cfg.execS item.box)) (fun k f => Ev.bwait n v i k cfg.wait f) 0 cfg.budget none .live
  simp only [runLeaf, leafOf, leafScriptOf, LeafCfg.effBudget, LeafCfg.effWait, if_true]
  generalize attempts kind (fun k => Ev.exec n v k (execArg cfg.execS Val.nil)) (fun k f => Ev.wait n v k cfg.wait f)
    s.exec s.waitCancel cfg.execS cfg.wait 0 cfg.budget none .live = a at h1 h2
  generalize attempts kind (fun k => Ev.bexec n v i k (execArg cfg.execS item.box)) (fun k f => Ev.bwait n v i k cfg.wait f)
    s.exec s.waitCancel cfg.execS cfg.wait 0 cfg.budget none .live = b at h1 h2
  obtain ⟨a1, a2, a3⟩ := a
  obtain ⟨b1, b2, b3⟩ := b
  simp only [Prod.mk.injEq] at h1 h2
  obtain ⟨rfl, rfl⟩ := h1
  have h3 := fallbackPhase_snd_indep kind cfg.fb (fun e => Ev.fb n v Val.nil (ErrRoot.user e))
    (fun e => Ev.bfb n v i item.box (ErrRoot.user e)) s.fb a2 a3
  have h4 := fallbackPhase_length_indep kind cfg.fb (fun e => Ev.fb n v Val.nil (ErrRoot.user e))
    (fun e => Ev.bfb n v i item.box (ErrRoot.user e)) s.fb a2 a3
  generalize fallbackPhase kind cfg.fb (fun e => Ev.fb n v Val.nil (ErrRoot.user e)) s.fb a2 a3 = f at h3 h4
  generalize fallbackPhase kind cfg.fb (fun e => Ev.bfb n v i item.box (ErrRoot.user e)) s.fb a2 a3 = g at h3 h4
  obtain ⟨f1, f2, f3⟩ := f
  obtain ⟨g1, g2, g3⟩ := g
  simp only [Prod.mk.injEq] at h3 h4
  obtain ⟨rfl, rfl⟩ := h3
  cases f3 <;> simp_all

end item

/-! ### the item loop -/

section seq
variable (kind : CtxKind) (n : NodeId) (v : Nat) (cfg : BatchCfg) (scr : BatchScript)

abbrev cancelledSlot : Result := newErrorResult (.fw .batchCancelled)
abbrev stoppedSlot : Result := newErrorResult (.fw .batchStopped)

@[simp] theorem itemsSeq_nil (i : Nat) (ctx : Ctx) : itemsSeq kind n v cfg scr [] i ctx = ([], ctx, []) := by
  simp [itemsSeq]

theorem itemsSeq_done_stop (hs : cfg.stop = true) (it : Result) (rest : List Result) (i : Nat) (kd : CtxKind) :
    itemsSeq kind n v cfg scr (it :: rest) i (.done kd) =
      ([], .done kd, cancelledSlot :: rest.map (fun _ => cancelledSlot)) := by
  simp [itemsSeq, hs]

theorem itemsSeq_done_cont (hs : cfg.stop = false) (it : Result) (rest : List Result) (i : Nat) (kd : CtxKind) :
    itemsSeq kind n v cfg scr (it :: rest) i (.done kd) =
      ((itemsSeq kind n v cfg scr rest (i + 1) (.done kd)).1, (itemsSeq kind n v cfg scr rest (i + 1) (.done kd)).2.1,
        cancelledSlot :: (itemsSeq kind n v cfg scr rest (i + 1) (.done kd)).2.2) := by
  simp [itemsSeq, hs]

theorem itemsSeq_live_slot (it : Result) (rest : List Result) (i : Nat) {s : Result}
    (h : (runItem kind n v cfg i it (scr.item i) .live).2.2 = .slot s) :
    itemsSeq kind n v cfg scr (it :: rest) i .live =
      (let r := runItem kind n v cfg i it (scr.item i) .live
       let t := itemsSeq kind n v cfg scr rest (i + 1) r.2.1
       (r.1 ++ t.1, t.2.1, s :: t.2.2)) := by
  rw [itemsSeq]
  generalize runItem kind n v cfg i it (scr.item i) .live = r at h
  obtain ⟨a, b, c⟩ := r
  simp only [] at h; subst h; rfl

theorem itemsSeq_live_err_cont (hs : cfg.stop = false) (it : Result) (rest : List Result) (i : Nat) {e : ErrRoot}
    (h : (runItem kind n v cfg i it (scr.item i) .live).2.2 = .error e) :
    itemsSeq kind n v cfg scr (it :: rest) i .live =
      (let r := runItem kind n v cfg i it (scr.item i) .live
       let t := itemsSeq kind n v cfg scr rest (i + 1) r.2.1
       (r.1 ++ t.1, t.2.1, newErrorResult e :: t.2.2)) := by
  rw [itemsSeq]
  generalize runItem kind n v cfg i it (scr.item i) .live = r at h
  obtain ⟨a, b, c⟩ := r
  simp only [] at h; subst h; simp [hs]

theorem itemsSeq_live_err_stop (hs : cfg.stop = true) (it : Result) (rest : List Result) (i : Nat) {e : ErrRoot}
    (h : (runItem kind n v cfg i it (scr.item i) .live).2.2 = .error e) :
    itemsSeq kind n v cfg scr (it :: rest) i .live =
      (let r := runItem kind n v cfg i it (scr.item i) .live
       (r.1, r.2.1, newErrorResult e :: rest.map (fun _ => stoppedSlot))) := by
  rw [itemsSeq]
  generalize runItem kind n v cfg i it (scr.item i) .live = r at h
  obtain ⟨a, b, c⟩ := r
  simp only [] at h; subst h; simp [hs]

/-- Induction over the sequential item loop: one case per branch of `runBatchSequential`. -/
theorem itemsSeq_induct {P : List Result → Nat → Ctx → List Ev × Ctx × List Result → Prop}
    (nil : ∀ i ctx, P [] i ctx ([], ctx, []))
    (doneStop : cfg.stop = true → ∀ it rest i kd,
      P (it :: rest) i (.done kd) ([], .done kd, cancelledSlot :: rest.map (fun _ => cancelledSlot)))
    (doneCont : cfg.stop = false → ∀ it rest i kd,
      P rest (i + 1) (.done kd) (itemsSeq kind n v cfg scr rest (i + 1) (.done kd)) →
      P (it :: rest) i (.done kd)
        ((itemsSeq kind n v cfg scr rest (i + 1) (.done kd)).1, (itemsSeq kind n v cfg scr rest (i + 1) (.done kd)).2.1,
          cancelledSlot :: (itemsSeq kind n v cfg scr rest (i + 1) (.done kd)).2.2))
    (liveSlot : ∀ it rest i s, (runItem kind n v cfg i it (scr.item i) .live).2.2 = .slot s →
      P rest (i + 1) (runItem kind n v cfg i it (scr.item i) .live).2.1
        (itemsSeq kind n v cfg scr rest (i + 1) (runItem kind n v cfg i it (scr.item i) .live).2.1) →
      P (it :: rest) i .live
        ((runItem kind n v cfg i it (scr.item i) .live).1 ++
            (itemsSeq kind n v cfg scr rest (i + 1) (runItem kind n v cfg i it (scr.item i) .live).2.1).1,
          (itemsSeq kind n v cfg scr rest (i + 1) (runItem kind n v cfg i it (scr.item i) .live).2.1).2.1,
          s :: (itemsSeq kind n v cfg scr rest (i + 1) (runItem kind n v cfg i it (scr.item i) .live).2.1).2.2))
    (liveErrCont : cfg.stop = false → ∀ it rest i e, (runItem kind n v cfg i it (scr.item i) .live).2.2 = .error e →
      P rest (i + 1) (runItem kind n v cfg i it (scr.item i) .live).2.1
        (itemsSeq kind n v cfg scr rest (i + 1) (runItem kind n v cfg i it (scr.item i) .live).2.1) →
      P (it :: rest) i .live
        ((runItem kind n v cfg i it (scr.item i) .live).1 ++
            (itemsSeq kind n v cfg scr rest (i + 1) (runItem kind n v cfg i it (scr.item i) .live).2.1).1,
          (itemsSeq kind n v cfg scr rest (i + 1) (runItem kind n v cfg i it (scr.item i) .live).2.1).2.1,
          newErrorResult e :: (itemsSeq kind n v cfg scr rest (i + 1) (runItem kind n v cfg i it (scr.item i) .live).2.1).2.2))
    (liveErrStop : cfg.stop = true → ∀ it rest i e, (runItem kind n v cfg i it (scr.item i) .live).2.2 = .error e →
      P (it :: rest) i .live
        ((runItem kind n v cfg i it (scr.item i) .live).1, (runItem kind n v cfg i it (scr.item i) .live).2.1,
          newErrorResult e :: rest.map (fun _ => stoppedSlot)))
    (items : List Result) (i : Nat) (ctx : Ctx) : P items i ctx (itemsSeq kind n v cfg scr items i ctx) := by
  induction items generalizing i ctx with
  | nil => simpa using nil i ctx
  | cons it rest ih =>
    cases ctx with
    | done kd =>
      cases hs : cfg.stop
      · rw [itemsSeq_done_cont _ _ _ _ _ hs]; exact doneCont hs _ _ _ _ (ih _ _)
      · rw [itemsSeq_done_stop _ _ _ _ _ hs]; exact doneStop hs _ _ _ _
    | live =>
      cases hr : (runItem kind n v cfg i it (scr.item i) .live).2.2 with
      | slot s => rw [itemsSeq_live_slot _ _ _ _ _ _ _ _ hr]; exact liveSlot _ _ _ _ hr (ih _ _)
      | error e =>
        cases hs : cfg.stop
        · rw [itemsSeq_live_err_cont _ _ _ _ _ hs _ _ _ hr]; exact liveErrCont hs _ _ _ _ hr (ih _ _)
        · rw [itemsSeq_live_err_stop _ _ _ _ _ hs _ _ _ hr]; exact liveErrStop hs _ _ _ _ hr

/-- the result slice has one slot per item -/
theorem itemsSeq_length (items : List Result) (i : Nat) (ctx : Ctx) :
    (itemsSeq kind n v cfg scr items i ctx).2.2.length = items.length := by
  induction items, i, ctx using itemsSeq_induct kind n v cfg scr with
  | nil => rfl
  | doneStop => simp
  | doneCont _ _ _ _ _ ih => simp [ih]
  | liveSlot _ _ _ _ _ ih => simp [ih]
  | liveErrCont _ _ _ _ _ _ ih => simp [ih]
  | liveErrStop => simp

/-- every event of the item loop belongs to one of its items -/
theorem itemsSeq_evItem (items : List Result) (i : Nat) (ctx : Ctx) :
    ∀ e ∈ (itemsSeq kind n v cfg scr items i ctx).1, ∃ j, evItem e = some j ∧ i ≤ j ∧ j < i + items.length := by
  induction items, i, ctx using itemsSeq_induct kind n v cfg scr with
  | nil => simp
  | doneStop => simp
  | doneCont _ it rest i kd ih =>
    intro e he; obtain ⟨j, h1, h2, h3⟩ := ih e he
    exact ⟨j, h1, by omega, by simp; omega⟩
  | liveSlot it rest i s _ ih =>
    intro e he
    simp only [List.mem_append] at he
    rcases he with he | he
    · exact ⟨i, runItem_evItem _ _ _ _ _ _ _ _ e he, by omega, by simp⟩
    · obtain ⟨j, h1, h2, h3⟩ := ih e he
      exact ⟨j, h1, by omega, by simp; omega⟩
  | liveErrCont _ it rest i e' _ ih =>
    intro e he
    simp only [List.mem_append] at he
    rcases he with he | he
    · exact ⟨i, runItem_evItem _ _ _ _ _ _ _ _ e he, by omega, by simp⟩
    · obtain ⟨j, h1, h2, h3⟩ := ih e he
      exact ⟨j, h1, by omega, by simp; omega⟩
  | liveErrStop _ it rest i e' _ =>
    intro e he
    exact ⟨i, runItem_evItem _ _ _ _ _ _ _ _ e he, by omega, by simp⟩

theorem itemEvents_runItem_self (i : Nat) (item : Result) (s : ItemScript) (ctx : Ctx) :
    itemEvents i (runItem kind n v cfg i item s ctx).1 = (runItem kind n v cfg i item s ctx).1 :=
  itemEvents_eq_self (runItem_evItem _ _ _ _ _ _ _ _)

theorem itemEvents_runItem_ne {i j : Nat} (h : j ≠ i) (item : Result) (s : ItemScript) (ctx : Ctx) :
    itemEvents j (runItem kind n v cfg i item s ctx).1 = [] :=
  itemEvents_eq_nil (fun e he => by rw [runItem_evItem _ _ _ _ _ _ _ _ e he]; simpa using Ne.symm h)

theorem itemEvents_itemsSeq_lt {i j : Nat} (h : j < i) (items : List Result) (ctx : Ctx) :
    itemEvents j (itemsSeq kind n v cfg scr items i ctx).1 = [] :=
  itemEvents_eq_nil (fun e he => by
    obtain ⟨j', h1, h2, _⟩ := itemsSeq_evItem _ _ _ _ _ _ _ _ e he
    rw [h1]; simp; omega)

/-- a finished context: no item is executed, every slot gets the "context cancelled" marker -/
theorem itemsSeq_done (items : List Result) (i : Nat) (kd : CtxKind) :
    itemsSeq kind n v cfg scr items i (.done kd) = ([], .done kd, items.map (fun _ => cancelledSlot)) := by
  induction items generalizing i with
  | nil => simp
  | cons it rest ih =>
    cases hs : cfg.stop
    · rw [itemsSeq_done_cont _ _ _ _ _ hs, ih]; simp
    · rw [itemsSeq_done_stop _ _ _ _ _ hs]; simp

/-- What happened to the item at position `pos` (index `idx`, payload `it`) of a loop that produced events
    `evs` and slots `slots`: either it was processed — its events are exactly those of `runItem` on *its own*
    script (entered with a live context; any cancellation that cuts it comes from its own callbacks / its own
    retry wait), and its slot is that processing's outcome — or it was never processed: no event carries its
    index and its slot is an error marker ("batch stopped", only in stop mode, or "context cancelled"). -/
def Own (evs : List Ev) (slots : List Result) (pos idx : Nat) (it : Result) : Prop :=
  (itemEvents idx evs = (runItem kind n v cfg idx it (scr.item idx) .live).1 ∧
      slots[pos]? = some (slotOfRes (runItem kind n v cfg idx it (scr.item idx) .live).2.2))
  ∨ (itemEvents idx evs = [] ∧ ∃ r, slots[pos]? = some r ∧ isMarker cfg.stop r)

theorem itemsSeq_own (items : List Result) (i : Nat) (ctx : Ctx) :
    ∀ j (hj : j < items.length),
      Own kind n v cfg scr (itemsSeq kind n v cfg scr items i ctx).1 (itemsSeq kind n v cfg scr items i ctx).2.2
        j (i + j) items[j] := by
  induction items, i, ctx using itemsSeq_induct kind n v cfg scr with
  | nil => intro j hj; simp at hj
  | doneStop _ it rest i kd =>
    intro j hj
    refine .inr ⟨rfl, ?_⟩
    cases j with
    | zero => exact ⟨_, rfl, .inr rfl⟩
    | succ j =>
      simp only [List.length_cons, Nat.add_lt_add_iff_right] at hj
      exact ⟨cancelledSlot, by simp [hj], .inr rfl⟩
  | doneCont _ it rest i kd ih =>
    intro j hj
    cases j with
    | zero =>
      refine .inr ⟨?_, _, rfl, .inr rfl⟩
      exact itemEvents_itemsSeq_lt _ _ _ _ _ (by omega) _ _
    | succ j =>
      simp only [List.length_cons, Nat.add_lt_add_iff_right] at hj
      have := ih j hj
      rw [show i + (j + 1) = i + 1 + j by omega]
      simpa [Own] using this
  | liveSlot it rest i s hr ih =>
    intro j hj
    cases j with
    | zero =>
      refine .inl ⟨?_, ?_⟩
      · simp only [Nat.add_zero, itemEvents_append, List.getElem_cons_zero]
        rw [itemEvents_runItem_self, itemEvents_itemsSeq_lt _ _ _ _ _ (by omega), List.append_nil]
      · simp [hr, slotOfRes]
    | succ j =>
      simp only [List.length_cons, Nat.add_lt_add_iff_right] at hj
      have := ih j hj
      rw [show i + (j + 1) = i + 1 + j by omega]
      simp only [Own, itemEvents_append, List.getElem_cons_succ, List.getElem?_cons_succ] at this ⊢
      rw [itemEvents_runItem_ne _ _ _ _ (by omega), List.nil_append]
      exact this
  | liveErrCont _ it rest i e hr ih =>
    intro j hj
    cases j with
    | zero =>
      refine .inl ⟨?_, ?_⟩
      · simp only [Nat.add_zero, itemEvents_append, List.getElem_cons_zero]
        rw [itemEvents_runItem_self, itemEvents_itemsSeq_lt _ _ _ _ _ (by omega), List.append_nil]
      · simp [hr, slotOfRes]
    | succ j =>
      simp only [List.length_cons, Nat.add_lt_add_iff_right] at hj
      have := ih j hj
      rw [show i + (j + 1) = i + 1 + j by omega]
      simp only [Own, itemEvents_append, List.getElem_cons_succ, List.getElem?_cons_succ] at this ⊢
      rw [itemEvents_runItem_ne _ _ _ _ (by omega), List.nil_append]
      exact this
  | liveErrStop _ it rest i e hr =>
    intro j hj
    cases j with
    | zero =>
      refine .inl ⟨?_, ?_⟩
      · simp only [Nat.add_zero, List.getElem_cons_zero]
        rw [itemEvents_runItem_self]
      · simp [hr, slotOfRes]
    | succ j =>
      simp only [List.length_cons, Nat.add_lt_add_iff_right] at hj
      refine .inr ⟨itemEvents_runItem_ne _ _ _ _ (by omega) _ _ _, stoppedSlot, by simp [hj], .inl ⟨rfl, ‹cfg.stop = true›⟩⟩

/-- `itemsSerialPool` spelled out with projections -/
theorem itemsSerialPool_cons (it : Result) (rest : List Result) (i : Nat) (stopped : Bool) (ctx : Ctx) :
    itemsSerialPool kind n v cfg scr (it :: rest) i stopped ctx =
      if stopped ∧ cfg.stop then
        ((itemsSerialPool kind n v cfg scr rest (i + 1) stopped ctx).1, (itemsSerialPool kind n v cfg scr rest (i + 1) stopped ctx).2.1,
          stoppedSlot :: (itemsSerialPool kind n v cfg scr rest (i + 1) stopped ctx).2.2)
      else match ctx with
        | .done _ =>
          ((itemsSerialPool kind n v cfg scr rest (i + 1) stopped ctx).1, (itemsSerialPool kind n v cfg scr rest (i + 1) stopped ctx).2.1,
            cancelledSlot :: (itemsSerialPool kind n v cfg scr rest (i + 1) stopped ctx).2.2)
        | .live =>
          let r := runItem kind n v cfg i it (scr.item i) .live
          match r.2.2 with
          | .error e =>
            let t := itemsSerialPool kind n v cfg scr rest (i + 1) (stopped || cfg.stop) r.2.1
            (r.1 ++ t.1, t.2.1, newErrorResult e :: t.2.2)
          | .slot s =>
            let t := itemsSerialPool kind n v cfg scr rest (i + 1) stopped r.2.1
            (r.1 ++ t.1, t.2.1, s :: t.2.2) := by
  rw [itemsSerialPool.eq_def]
  simp only []
  split
  · rfl
  · cases ctx with
    | done kd => rfl
    | live =>
      simp only []
      generalize runItem kind n v cfg i it (scr.item i) .live = r
      obtain ⟨a, b, c⟩ := r
      cases c <;> rfl

/-- The serial schedule of the pool (what a single worker does) computes exactly what the sequential loop
    computes — in both error-handling modes, with or without cancellation. -/
theorem itemsSerialPool_eq (items : List Result) (i : Nat) (stopped : Bool) (ctx : Ctx) :
    itemsSerialPool kind n v cfg scr items i stopped ctx =
      if stopped = true ∧ cfg.stop = true then ([], ctx, items.map (fun _ => stoppedSlot))
      else itemsSeq kind n v cfg scr items i ctx := by
  induction items generalizing i stopped ctx with
  | nil => simp [itemsSerialPool]
  | cons it rest ih =>
    rw [itemsSerialPool_cons]
    by_cases hc : stopped = true ∧ cfg.stop = true
    · simp only [hc, and_self, if_true, ih]; simp
    · rw [if_neg hc, if_neg hc]
      cases ctx with
      | done kd => simp only [ih, if_neg hc, itemsSeq_done]; simp
      | live =>
        simp only []
        cases hr : (runItem kind n v cfg i it (scr.item i) .live).2.2 with
        | slot s =>
          simp only [ih, if_neg hc]
          rw [itemsSeq_live_slot _ _ _ _ _ _ _ _ hr]
        | error e =>
          cases hs : cfg.stop
          · simp only [ih, hs, Bool.or_false]
            rw [itemsSeq_live_err_cont _ _ _ _ _ hs _ _ _ hr]
            simp
          · simp only [ih, Bool.or_true]
            rw [itemsSeq_live_err_stop _ _ _ _ _ hs _ _ _ hr]
            simp [hs]

theorem itemsSerialPool_eq_seq (items : List Result) (i : Nat) (ctx : Ctx) :
    itemsSerialPool kind n v cfg scr items i false ctx = itemsSeq kind n v cfg scr items i ctx := by
  rw [itemsSerialPool_eq]; simp

/-! ### runs without cancellation: closed forms -/

/-- the item's script never cancels the run's context (no `cancel()` from inside a callback, no
    asynchronous cancellation during a retry wait) -/
def Quiet (s : ItemScript) : Prop :=
  (∀ k, (s.exec k).cancels = false) ∧ (∀ k, s.waitCancel k = false) ∧ s.fb.cancels = false

theorem attempts_quiet_ctx (mkExec : Nat → Ev) (mkWait : Nat → Bool → Ev) (exec : Nat → Out Val) (wc : Nat → Bool)
    (execS : Style) (wait : Nat) (h1 : ∀ k, (exec k).cancels = false) (h2 : ∀ k, wc k = false)
    (k rem : Nat) (last : Option Nat) :
    (attempts kind mkExec mkWait exec wc execS wait k rem last .live).2.1 = .live ∧
    ∀ kd, (attempts kind mkExec mkWait exec wc execS wait k rem last .live).2.2 ≠ .cancelled kd := by
  induction rem generalizing k last with
  | zero => rw [attempts_zero]; cases last <;> simp
  | succ rem ih =>
    have hw : ¬ (k > 0 ∧ wait > 0 ∧ wc k = true) := by simp [h2]
    by_cases hs : execS = .absent
    · rw [attempts_absent _ _ _ _ _ _ _ _ _ _ hw hs]; simp
    · cases hr : (exec k).res with
      | ok x => rw [attempts_ok _ _ _ _ _ _ _ _ _ _ hw hs hr]; simp [h1, Ctx.after]
      | error e =>
        rw [attempts_err _ _ _ _ _ _ _ _ _ _ hw hs hr]
        have : Ctx.live.after kind (exec k).cancels = .live := by simp [h1, Ctx.after]
        rw [this]
        exact ih _ _

theorem runItem_quiet {s : ItemScript} (hq : Quiet s) (i : Nat) (item : Result) :
    (runItem kind n v cfg i item s .live).2.1 = .live := by
  rw [runItem_eq]
  simp only []
  obtain ⟨h1, h2⟩ := attempts_quiet_ctx kind (fun k => .bexec n v i k (execArg cfg.execS item.box))
    (fun k f => .bwait n v i k cfg.wait f) s.exec s.waitCancel cfg.execS cfg.wait hq.1 hq.2.1 0 cfg.budget none
  rw [h1]
  unfold fallbackPhase
  split
  · rfl
  · rfl
  · split
    · rfl
    · rfl
    · simp only [hq.2.2, Ctx.after]
      split <;> rfl

/-- every item processed on its own, from a live context -/
def itemRuns (items : List Result) (i : Nat) : List (List Ev × Ctx × ItemRes) :=
  (items.zipIdx i).map fun p => runItem kind n v cfg p.2 p.1 (scr.item p.2) .live

@[simp] theorem itemRuns_nil (i : Nat) : itemRuns kind n v cfg scr [] i = [] := rfl
@[simp] theorem itemRuns_cons (it : Result) (rest : List Result) (i : Nat) :
    itemRuns kind n v cfg scr (it :: rest) i =
      runItem kind n v cfg i it (scr.item i) .live :: itemRuns kind n v cfg scr rest (i + 1) := by
  simp [itemRuns, List.zipIdx_cons]

theorem itemRuns_length (items : List Result) (i : Nat) : (itemRuns kind n v cfg scr items i).length = items.length := by
  simp [itemRuns]

theorem itemRuns_getElem? (items : List Result) (i j : Nat) :
    (itemRuns kind n v cfg scr items i)[j]? =
      items[j]?.map fun it => runItem kind n v cfg (i + j) it (scr.item (i + j)) .live := by
  simp [itemRuns, List.getElem?_map, List.getElem?_zipIdx]
  cases items[j]? <;> simp

theorem itemRuns_evItem (items : List Result) (i : Nat) :
    ∀ e ∈ (itemRuns kind n v cfg scr items i).flatMap (·.1), ∃ j, evItem e = some j ∧ i ≤ j := by
  induction items generalizing i with
  | nil => simp
  | cons it rest ih =>
    intro e he
    simp only [itemRuns_cons, List.flatMap_cons, List.mem_append] at he
    rcases he with he | he
    · exact ⟨i, runItem_evItem _ _ _ _ _ _ _ _ e he, Nat.le_refl _⟩
    · obtain ⟨j, h1, h2⟩ := ih (i + 1) e he
      exact ⟨j, h1, by omega⟩

/-- in the concatenation of the per-item runs, the events of item `i + j` are exactly the `j`-th run -/
theorem itemEvents_itemRuns (items : List Result) (i j : Nat) :
    itemEvents (i + j) ((itemRuns kind n v cfg scr items i).flatMap (·.1)) =
      (((itemRuns kind n v cfg scr items i)[j]?).map (·.1)).getD [] := by
  induction items generalizing i j with
  | nil => simp
  | cons it rest ih =>
    simp only [itemRuns_cons, List.flatMap_cons, itemEvents_append]
    cases j with
    | zero =>
      simp only [Nat.add_zero, List.getElem?_cons_zero, Option.map_some, Option.getD_some]
      rw [itemEvents_runItem_self, itemEvents_eq_nil, List.append_nil]
      intro e he
      obtain ⟨j', h1, h2⟩ := itemRuns_evItem kind n v cfg scr rest (i + 1) e he
      rw [h1]; simp; omega
    | succ j =>
      rw [itemEvents_runItem_ne _ _ _ _ (by omega), List.nil_append, List.getElem?_cons_succ,
        show i + (j + 1) = i + 1 + j by omega]
      exact ih (i + 1) j

/-- **Continue mode, no cancellation — closed form.** The loop's events are the concatenation, in item
    order, of each item's own processing from a live context, and slot `j` is the outcome of item `j`'s own
    processing: nothing about item `j` depends on any other item. -/
theorem itemsSeq_continue (hs : cfg.stop = false) (hq : ∀ j, Quiet (scr.item j)) (items : List Result) (i : Nat) :
    itemsSeq kind n v cfg scr items i .live =
      ((itemRuns kind n v cfg scr items i).flatMap (·.1), .live,
       (itemRuns kind n v cfg scr items i).map (fun r => slotOfRes r.2.2)) := by
  induction items generalizing i with
  | nil => simp
  | cons it rest ih =>
    have hl := runItem_quiet kind n v cfg (hq i) i it
    cases hr : (runItem kind n v cfg i it (scr.item i) .live).2.2 with
    | slot s =>
      rw [itemsSeq_live_slot _ _ _ _ _ _ _ _ hr]
      simp only [hl, ih, itemRuns_cons, List.flatMap_cons, List.map_cons, hr, slotOfRes_slot]
    | error e =>
      rw [itemsSeq_live_err_cont _ _ _ _ _ hs _ _ _ hr]
      simp only [hl, ih, itemRuns_cons, List.flatMap_cons, List.map_cons, hr, slotOfRes_error]

/-- **No failing item, no cancellation — closed form in either mode.** -/
theorem itemsSeq_allOk (hq : ∀ j, Quiet (scr.item j)) (items : List Result) (i : Nat)
    (hok : ∀ j (hj : j < items.length), ∃ s, (runItem kind n v cfg (i + j) items[j] (scr.item (i + j)) .live).2.2 = .slot s) :
    itemsSeq kind n v cfg scr items i .live =
      ((itemRuns kind n v cfg scr items i).flatMap (·.1), .live,
       (itemRuns kind n v cfg scr items i).map (fun r => slotOfRes r.2.2)) := by
  induction items generalizing i with
  | nil => simp
  | cons it rest ih =>
    have hl := runItem_quiet kind n v cfg (hq i) i it
    obtain ⟨s, hr⟩ := hok 0 (by simp)
    simp only [Nat.add_zero, List.getElem_cons_zero] at hr
    rw [itemsSeq_live_slot _ _ _ _ _ _ _ _ hr]
    have ih' := ih (i + 1) (fun j hj => by
      have := hok (j + 1) (by simpa using hj)
      rw [show i + (j + 1) = i + 1 + j by omega] at this
      simpa using this)
    simp only [hl, ih', itemRuns_cons, List.flatMap_cons, List.map_cons, hr, slotOfRes_slot]

/-- **Stop mode, no cancellation — closed form.** If `f` is the first item whose processing returns an
    error, exactly the items `0..f` are processed (each on its own script), and every later slot holds the
    "batch stopped" error. -/
theorem itemsSeq_stop (hs : cfg.stop = true) (hq : ∀ j, Quiet (scr.item j)) (items : List Result) (i f : Nat)
    (hf : f < items.length)
    (hfail : ∃ e, (runItem kind n v cfg (i + f) items[f] (scr.item (i + f)) .live).2.2 = .error e)
    (hpre : ∀ j (hj : j < f), ∃ s, (runItem kind n v cfg (i + j) (items[j]'(by omega)) (scr.item (i + j)) .live).2.2 = .slot s) :
    itemsSeq kind n v cfg scr items i .live =
      ((itemRuns kind n v cfg scr (items.take (f + 1)) i).flatMap (·.1), .live,
       (itemRuns kind n v cfg scr (items.take (f + 1)) i).map (fun r => slotOfRes r.2.2)
         ++ List.replicate (items.length - (f + 1)) stoppedSlot) := by
  induction items generalizing i f with
  | nil => simp at hf
  | cons it rest ih =>
    have hl := runItem_quiet kind n v cfg (hq i) i it
    cases f with
    | zero =>
      obtain ⟨e, hr⟩ := hfail
      simp only [Nat.add_zero, List.getElem_cons_zero] at hr
      rw [itemsSeq_live_err_stop _ _ _ _ _ hs _ _ _ hr]
      simp [hl, hr, slotOfRes, List.map_const']
    | succ f =>
      obtain ⟨s, hr⟩ := hpre 0 (by omega)
      simp only [Nat.add_zero, List.getElem_cons_zero] at hr
      rw [itemsSeq_live_slot _ _ _ _ _ _ _ _ hr]
      have ih' := ih (i + 1) f (by simpa using hf)
        (by
          obtain ⟨e, he⟩ := hfail
          rw [show i + (f + 1) = i + 1 + f by omega] at he
          exact ⟨e, by simpa using he⟩)
        (fun j hj => by
          have := hpre (j + 1) (by omega)
          rw [show i + (j + 1) = i + 1 + j by omega] at this
          simpa using this)
      simp only [hl, ih', List.take_succ_cons, itemRuns_cons, List.flatMap_cons, List.map_cons, hr, slotOfRes_slot,
        List.length_cons, List.cons_append]
      rw [show rest.length + 1 - (f + 1 + 1) = rest.length - (f + 1) by omega]

/-! ### cancellation: nothing new starts after the context is done -/

/-- Does this callback invocation cancel the run's context, according to the scripts? A retry wait that
    did not fire (`fired = false`) records an asynchronous cancellation arriving during the wait. -/
def evCancels : Ev → Bool
  | .bprep .. => scr.prep.cancels
  | .bexec _ _ i k _ => ((scr.item i).exec k).cancels
  | .bfb _ _ i _ _ => (scr.item i).fb.cancels
  | .bwait _ _ _ _ _ fired => !fired
  | .bpost .. => scr.post.cancels
  | _ => false

/-- a new exec attempt, or a retry wait leading to one -/
def isAttempt (e : Ev) : Bool := isBexec e || isBwait e

/-- after every cancelling event, no exec attempt and no retry wait follows -/
def QuietAfterCancel : List Ev → Prop
  | [] => True
  | e :: t => (evCancels scr e = true → ∀ x ∈ t, isAttempt x = false) ∧ QuietAfterCancel t

theorem quietAfterCancel_append (a b : List Ev) :
    QuietAfterCancel scr (a ++ b) ↔
      QuietAfterCancel scr a ∧ QuietAfterCancel scr b ∧
        ((∃ e ∈ a, evCancels scr e = true) → ∀ x ∈ b, isAttempt x = false) := by
  induction a with
  | nil => simp [QuietAfterCancel]
  | cons e t ih =>
    simp only [List.cons_append, QuietAfterCancel, ih, List.mem_append, List.mem_cons]
    constructor
    · rintro ⟨h1, h2, h3, h4⟩
      refine ⟨⟨fun hc x hx => h1 hc x (.inl hx), h2⟩, h3, ?_⟩
      rintro ⟨e', rfl | he', hc⟩ x hx
      · exact h1 hc x (.inr hx)
      · exact h4 ⟨e', he', hc⟩ x hx
    · rintro ⟨⟨h1, h2⟩, h3, h4⟩
      refine ⟨?_, h2, h3, fun ⟨e', he', hc⟩ => h4 ⟨e', .inr he', hc⟩⟩
      rintro hc x (hx | hx)
      · exact h1 hc x hx
      · exact h4 ⟨e, .inl rfl, hc⟩ x hx

/-- the decomposition reading of `QuietAfterCancel` -/
theorem quietAfterCancel_iff (evs : List Ev) :
    QuietAfterCancel scr evs ↔
      ∀ pre e post, evs = pre ++ e :: post → evCancels scr e = true → ∀ x ∈ post, isAttempt x = false := by
  constructor
  · intro h pre e post heq hc x hx
    subst heq
    rw [quietAfterCancel_append] at h
    exact h.2.1.1 hc x hx
  · intro h
    induction evs with
    | nil => trivial
    | cons e t ih =>
      refine ⟨fun hc x hx => h [] e t rfl hc x hx, ih ?_⟩
      intro pre e' post heq hc
      exact h (e :: pre) e' post (by simp [heq]) hc

/-- A trace segment produced from context `ctx`, ending in context `ctx'`: (dead) on a finished context it
    contains no exec attempt and the context stays finished; (quiet) no attempt follows a cancelling event
    inside it; (kills) a cancelling event leaves the context finished. -/
structure Seg (ctx : Ctx) (evs : List Ev) (ctx' : Ctx) : Prop where
  dead : ctx.isDone = true → (∀ x ∈ evs, isAttempt x = false) ∧ ctx'.isDone = true
  quiet : QuietAfterCancel scr evs
  kills : (∃ e ∈ evs, evCancels scr e = true) → ctx'.isDone = true

theorem Seg.nil (ctx : Ctx) : Seg scr ctx [] ctx :=
  ⟨fun h => ⟨by simp, h⟩, trivial, by simp⟩

theorem Seg.append {c0 c1 c2 : Ctx} {a b : List Ev} (h1 : Seg scr c0 a c1) (h2 : Seg scr c1 b c2) :
    Seg scr c0 (a ++ b) c2 := by
  refine ⟨fun hd => ?_, ?_, ?_⟩
  · obtain ⟨ha, hc1⟩ := h1.dead hd
    obtain ⟨hb, hc2⟩ := h2.dead hc1
    exact ⟨fun x hx => (List.mem_append.1 hx).elim (ha x) (hb x), hc2⟩
  · rw [quietAfterCancel_append]
    exact ⟨h1.quiet, h2.quiet, fun hc => (h2.dead (h1.kills hc)).1⟩
  · rintro ⟨e, he, hc⟩
    rcases List.mem_append.1 he with he | he
    · exact (h2.dead (h1.kills ⟨e, he, hc⟩)).2
    · exact h2.kills ⟨e, he, hc⟩

theorem after_isDone_of_done {c : Ctx} (h : c.isDone = true) (b : Bool) : (c.after kind b).isDone = true := by
  cases c <;> simp_all [Ctx.after, Ctx.isDone]

/-- a single callback event that is not an attempt (fallback, prep, post) -/
theorem Seg.callback (ctx : Ctx) (e : Ev) (hna : isAttempt e = false) :
    Seg scr ctx [e] (ctx.after kind (evCancels scr e)) := by
  refine ⟨fun hd => ⟨by simpa using hna, after_isDone_of_done kind hd _⟩, ⟨by simp, trivial⟩, ?_⟩
  rintro ⟨e', he', hc⟩
  simp only [List.mem_singleton] at he'; subst he'
  cases ctx <;> simp [Ctx.after, Ctx.isDone, hc]

/-- an exec attempt started on a live context -/
theorem Seg.attempt (e : Ev) : Seg scr .live [e] (Ctx.live.after kind (evCancels scr e)) := by
  refine ⟨by simp [Ctx.isDone], ⟨by simp, trivial⟩, ?_⟩
  rintro ⟨e', he', hc⟩
  simp only [List.mem_singleton] at he'; subst he'
  simp [Ctx.after, Ctx.isDone, hc]

theorem attempts_seg (i : Nat) (arg : Val) (s : ItemScript) (hs : s = scr.item i) (k rem : Nat) (last : Option Nat) (ctx : Ctx) :
    Seg scr ctx
      (attempts kind (fun k => .bexec n v i k arg) (fun k f => .bwait n v i k cfg.wait f)
        s.exec s.waitCancel cfg.execS cfg.wait k rem last ctx).1
      (attempts kind (fun k => .bexec n v i k arg) (fun k f => .bwait n v i k cfg.wait f)
        s.exec s.waitCancel cfg.execS cfg.wait k rem last ctx).2.1 := by
  induction rem generalizing k last ctx with
  | zero => rw [attempts_zero]; exact Seg.nil scr ctx
  | succ rem ih =>
    cases ctx with
    | done kd => rw [attempts_done]; exact Seg.nil scr _
    | live =>
      have hwev : Seg scr .live (wev (fun k f => Ev.bwait n v i k cfg.wait f) cfg.wait k) .live := by
        unfold wev
        split
        · have := Seg.attempt kind scr (.bwait n v i k cfg.wait true)
          simpa [evCancels, Ctx.after] using this
        · exact Seg.nil scr _
      by_cases hw : k > 0 ∧ cfg.wait > 0 ∧ s.waitCancel k = true
      · rw [attempts_waitCancel _ _ _ _ _ _ _ _ _ _ hw]
        have := Seg.attempt kind scr (.bwait n v i k cfg.wait false)
        simpa [evCancels, Ctx.after] using this
      · by_cases hsa : cfg.execS = .absent
        · rw [attempts_absent _ _ _ _ _ _ _ _ _ _ hw hsa]; exact hwev
        · have hex : Seg scr .live [Ev.bexec n v i k arg] (Ctx.live.after kind (s.exec k).cancels) := by
            have := Seg.attempt kind scr (.bexec n v i k arg)
            simpa [evCancels, hs] using this
          cases hr : (s.exec k).res with
          | ok x =>
            rw [attempts_ok _ _ _ _ _ _ _ _ _ _ hw hsa hr]
            exact hwev.append scr hex
          | error e =>
            rw [attempts_err _ _ _ _ _ _ _ _ _ _ hw hsa hr]
            exact (hwev.append scr hex).append scr (ih _ _ _)

theorem fallbackPhase_seg (i : Nat) (arg : Val) (ctx : Ctx) (r : AttemptRes) :
    Seg scr ctx
      (fallbackPhase kind cfg.fb (fun e => .bfb n v i arg (.user e)) (scr.item i).fb ctx r).1
      (fallbackPhase kind cfg.fb (fun e => .bfb n v i arg (.user e)) (scr.item i).fb ctx r).2.1 := by
  unfold fallbackPhase
  cases r with
  | ok x => exact Seg.nil scr ctx
  | cancelled k => exact Seg.nil scr ctx
  | failed e =>
    cases cfg.fb with
    | absent => exact Seg.nil scr ctx
    | passThrough => exact Seg.nil scr ctx
    | custom =>
      have := Seg.callback kind scr ctx (.bfb n v i arg (.user e)) rfl
      simp only [evCancels] at this
      cases hr : (scr.item i).fb.res <;> simpa [hr] using this

theorem runItem_seg (i : Nat) (item : Result) (ctx : Ctx) :
    Seg scr ctx (runItem kind n v cfg i item (scr.item i) ctx).1 (runItem kind n v cfg i item (scr.item i) ctx).2.1 := by
  rw [runItem_eq]
  exact (attempts_seg kind n v cfg scr i _ _ rfl _ _ _ _).append scr (fallbackPhase_seg kind n v cfg scr i _ _ _)

theorem itemsSeq_seg (items : List Result) (i : Nat) (ctx : Ctx) :
    Seg scr ctx (itemsSeq kind n v cfg scr items i ctx).1 (itemsSeq kind n v cfg scr items i ctx).2.1 := by
  induction items, i, ctx using itemsSeq_induct kind n v cfg scr with
  | nil => exact Seg.nil scr _
  | doneStop => exact Seg.nil scr _
  | doneCont _ _ _ _ _ ih => exact ih
  | liveSlot it rest i s _ ih => exact (runItem_seg kind n v cfg scr i it .live).append scr ih
  | liveErrCont _ it rest i e _ ih => exact (runItem_seg kind n v cfg scr i it .live).append scr ih
  | liveErrStop _ it rest i e _ => exact runItem_seg kind n v cfg scr i it .live

/-! ### the whole batch run -/

/-- `runBatch` after a successful prep, in one equation for every concurrency setting (the concurrent path
    through its serial schedule), every item list (empty or not): prep event, the item loop, then — iff the
    node has a post function — exactly one post event carrying all items and all slots. -/
theorem runBatch_ok (sid : StoreId) (ctx : Ctx) {l : List Val} (hp : scr.prep.res = .ok l) :
    runBatch kind n v sid cfg scr ctx =
      (let items := normItems cfg.shape l
       let r := itemsSeq kind n v cfg scr items 0 (ctx.after kind scr.prep.cancels)
       if cfg.hasPost then
         (.bprep n v sid :: r.1 ++ [.bpost n v sid (items.map Result.box) (r.2.2.map Result.box)],
          r.2.1.after kind scr.post.cancels,
          match scr.post.res with | .error e => .err (.user e) | .ok a => .ok (norm a))
       else (.bprep n v sid :: r.1, r.2.1, .ok defaultAction)) := by
  unfold runBatch
  simp only [hp]
  cases hitems : normItems cfg.shape l with
  | nil =>
    simp only [List.isEmpty_nil, if_true, itemsSeq_nil, List.map_nil]
    cases cfg.hasPost
    · simp
    · cases scr.post.res <;> simp
  | cons it rest =>
    simp only [List.isEmpty_cons, Bool.false_eq_true, if_false, itemsSerialPool_eq_seq]
    cases cfg.hasPost
    · simp
    · cases scr.post.res <;> simp

/-- the whole trace of a batch run is a cancellation-respecting segment: no exec attempt / retry wait follows a
    cancelling callback (prep included), and on a context that is finished from the start there is none at all -/
theorem runBatch_seg (sid : StoreId) (ctx : Ctx) :
    Seg scr ctx (runBatch kind n v sid cfg scr ctx).1 (runBatch kind n v sid cfg scr ctx).2.1 := by
  have hprep := Seg.callback kind scr ctx (.bprep n v sid) rfl
  simp only [evCancels] at hprep
  cases hp : scr.prep.res with
  | error e =>
    have : runBatch kind n v sid cfg scr ctx = ([.bprep n v sid], ctx.after kind scr.prep.cancels, .err (.user e)) := by
      unfold runBatch; simp [hp]
    rw [this]; exact hprep
  | ok l =>
    rw [runBatch_ok kind n v cfg scr sid ctx hp]
    have hitems := itemsSeq_seg kind n v cfg scr (normItems cfg.shape l) 0 (ctx.after kind scr.prep.cancels)
    have h1 := hprep.append scr hitems
    cases cfg.hasPost with
    | false => simpa using h1
    | true =>
      have hpost := Seg.callback kind scr
        (itemsSeq kind n v cfg scr (normItems cfg.shape l) 0 (ctx.after kind scr.prep.cancels)).2.1
        (.bpost n v sid ((normItems cfg.shape l).map Result.box)
          ((itemsSeq kind n v cfg scr (normItems cfg.shape l) 0 (ctx.after kind scr.prep.cancels)).2.2.map Result.box)) rfl
      have h2 := h1.append scr hpost
      simp only [evCancels] at h2
      simpa using h2

end seq

end Flyt.BatchSeq
