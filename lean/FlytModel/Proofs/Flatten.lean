import FlytModel.Proofs.Leaf
/-!
# Big-step / small-step equivalence: the recursive semantics against the flattened stack machine
(`Model/Flat.lean`), for C10 (iii).
-/
namespace Flyt.Proofs
open Flyt Flyt.Flat

theorem steps_add (env : Env) (sid : StoreId) (n m : Nat) (c : Cfg × RunSt) :
    steps env sid (n + m) c =
      ((steps env sid n c).1 ++ (steps env sid m (steps env sid n c).2).1,
       (steps env sid m (steps env sid n c).2).2) := by
  induction n generalizing c with
  | zero => simp [steps]
  | succ n ih =>
    rw [Nat.succ_add]
    simp only [steps, ih, List.append_assoc]

theorem steps_one (env : Env) (sid : StoreId) (c : Cfg × RunSt) : steps env sid 1 c = step env sid c := by
  simp [steps]

theorem steps_halt (env : Env) (sid : StoreId) (n : Nat) (r : Outcome) (st : RunSt) :
    steps env sid n (.halt r, st) = ([], (.halt r, st)) := by
  induction n with
  | zero => rfl
  | succ n ih => simp [steps, step, ih]

/-- configuration the machine is in when the node / loop has finished with outcome `r` -/
def after (r : Outcome) (retK : Action → Cfg) : Cfg :=
  match r with
  | .ok a => retK a
  | r => .halt r

theorem after_not_ok {r : Outcome} (h : ∀ a, r ≠ .ok a) (retK : Action → Cfg) : after r retK = .halt r := by
  cases r <;> simp_all [after]

/-- a node that is a batch is only ever started on a live context inside a flow (`Flow.Exec` checks the
    context first); a batch node run directly is the special case of `Flat.run` -/
def Startable (env : Env) (id : NodeId) (st : RunSt) : Prop :=
  st.ctx = .live ∨ ∀ cfg, env.arena id ≠ .batch cfg

theorem sim {env : Env} {sid : StoreId} {task st evs st' r} (h : Big env sid task st evs st' r) :
    match task with
    | .node id => Startable env id st → ∀ ops K, ∃ n,
        steps env sid n (.exec ((ops, id) :: K), st) = (evs, (after r (fun a => .ret a ((ops, id) :: K)), st'))
    | .loop ops cur => ∀ K, ∃ n,
        steps env sid n (.exec ((ops, cur) :: K), st) = (evs, (after r (fun a => .ret (norm a) K), st')) := by
  induction h with
  | @leaf id cfg st evs st' out hA h =>
    intro _ ops K
    refine ⟨1, ?_⟩
    rw [steps_one]
    cases hc : st.ctx with
    | done k =>
      rw [leafStep_done hc] at h
      cases h
      simp [step, hc, after]
    | live =>
      simp only [leafStep] at h
      simp only [step, hc, hA]
      rw [hc] at h
      cases h
      cases (runLeaf env.kind id (st.visits id) sid cfg (env.leafBeh id (st.visits id)) Ctx.live).2.2 <;>
        simp [after]
  | @batch id cfg st evs st' out hA h =>
    intro hs ops K
    refine ⟨1, ?_⟩
    rw [steps_one]
    have hc : st.ctx = .live := by
      rcases hs with hs | hs
      · exact hs
      · exact absurd hA (hs cfg)
    simp only [batchStep] at h
    simp only [step, hc, hA]
    rw [hc] at h
    cases h
    cases (runBatch env.kind id (st.visits id) sid cfg (env.batchBeh id (st.visits id)) Ctx.live).2.2 <;>
      simp [after]
  | flowDone hA hc =>
    intro _ ops K
    exact ⟨1, by rw [steps_one]; simp [step, hc, after]⟩
  | flowNoStart hA hc =>
    intro _ ops K
    exact ⟨1, by rw [steps_one]; simp [step, hc, hA, after]⟩
  | @flowOk id s ops' st evs st' a hA hc _ ih =>
    intro _ ops K
    obtain ⟨n, hn⟩ := ih ((ops, id) :: K)
    refine ⟨1 + n, ?_⟩
    rw [steps_add, steps_one]
    simp only [step, hc, hA, hn, List.nil_append]
    simp [after]
  | @flowFail id s ops' st evs st' r hA hc _ hne ih =>
    intro _ ops K
    obtain ⟨n, hn⟩ := ih ((ops, id) :: K)
    refine ⟨1 + n, ?_⟩
    rw [steps_add, steps_one]
    simp only [step, hc, hA, hn, List.nil_append]
    rw [after_not_ok hne, after_not_ok hne]
  | loopDone hc =>
    intro K
    exact ⟨1, by rw [steps_one]; simp [step, hc, after]⟩
  | @loopStop ops cur st evs st' a hc _ hnx ih =>
    intro K
    obtain ⟨n, hn⟩ := ih (.inl hc) ops K
    refine ⟨n + 1, ?_⟩
    rw [steps_add, steps_one, hn]
    simp only [after, step]
    cases hx : next ops cur a with
    | none => simp
    | some t =>
      cases t with
      | none => simp
      | some nxt => exact absurd hx (hnx nxt)
  | @loopStep ops cur st evs st' a nxt evs2 st'' r hc _ hnx _ ih1 ih2 =>
    intro K
    obtain ⟨n, hn⟩ := ih1 (.inl hc) ops K
    obtain ⟨m, hm⟩ := ih2 K
    refine ⟨n + (1 + m), ?_⟩
    rw [steps_add, hn, steps_add, steps_one]
    simp only [after, step, hnx, hm, List.nil_append]
  | @loopFail ops cur st evs st' r hc _ hne ih =>
    intro K
    obtain ⟨n, hn⟩ := ih (.inl hc) ops K
    refine ⟨n, ?_⟩
    rw [hn, after_not_ok hne, after_not_ok hne]

/-- once the machine has halted, more steps change nothing -/
theorem steps_halted_mono {env : Env} {sid : StoreId} {n : Nat} {c : Cfg × RunSt} {evs r st'}
    (h : steps env sid n c = (evs, (.halt r, st'))) (m : Nat) (hm : n ≤ m) :
    steps env sid m c = (evs, (.halt r, st')) := by
  obtain ⟨d, rfl⟩ := Nat.exists_eq_add_of_le hm
  rw [steps_add, h]
  simp [steps_halt]

/-- **Flattening**: a non-`fuel` result of the recursive semantics is the result of the stack machine,
    for every sufficiently large step budget. -/
theorem flat_run_of_big {env : Env} {sid : StoreId} {root st evs st' r}
    (h : Big env sid (.node root) st evs st' r) :
    ∃ n, ∀ m, n ≤ m → Flat.run env m root sid st = (evs, st', r) := by
  cases hA : env.arena root with
  | batch cfg =>
    refine ⟨0, fun m _ => ?_⟩
    cases h with
    | leaf hA' _ => rw [hA] at hA'; cases hA'
    | batch hA' h =>
      rw [hA] at hA'; cases hA'
      simp only [Flat.run, hA]
      exact h
    | flowDone hA' _ => rw [hA] at hA'; cases hA'
    | flowNoStart hA' _ => rw [hA] at hA'; cases hA'
    | flowOk hA' _ _ => rw [hA] at hA'; cases hA'
    | flowFail hA' _ _ _ => rw [hA] at hA'; cases hA'
  | leaf cfg =>
    have hs : Startable env root st := .inr (by intro c hc; rw [hA] at hc; cases hc)
    obtain ⟨n, hn⟩ := sim h hs [] []
    refine ⟨n + 2, fun m hm => ?_⟩
    have : steps env sid (n + 2) (.exec [([], root)], st) = (evs, (.halt r, st')) := by
      rw [steps_add, hn]
      cases r with
      | ok a =>
        have ha := big_node_ok_norm h
        simp [after, steps, step, next, ha]
      | err e => simp [after, steps_halt]
      | both a e => simp [after, steps_halt]
      | fuel => simp [after, steps_halt]
    simp only [Flat.run, hA, steps_halted_mono this m hm]
  | flow s ops =>
    have hs : Startable env root st := .inr (by intro c hc; rw [hA] at hc; cases hc)
    obtain ⟨n, hn⟩ := sim h hs [] []
    refine ⟨n + 2, fun m hm => ?_⟩
    have : steps env sid (n + 2) (.exec [([], root)], st) = (evs, (.halt r, st')) := by
      rw [steps_add, hn]
      cases r with
      | ok a =>
        have ha := big_node_ok_norm h
        simp [after, steps, step, next, ha]
      | err e => simp [after, steps_halt]
      | both a e => simp [after, steps_halt]
      | fuel => simp [after, steps_halt]
    simp only [Flat.run, hA, steps_halted_mono this m hm]

end Flyt.Proofs
