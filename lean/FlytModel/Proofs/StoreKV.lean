import FlytModel.Model.Store
/-!
# Association lists as Go map contents: `lookup` / `erase` / `put` / `mergeInto` / `keysOf`
-/
namespace Flyt.Store
open Flyt

/-- the content of a Go map object never lists a key twice -/
def NodupKeys (m : KV) : Prop := (keysOf m).Nodup

@[simp] theorem lookup_nil (k : Key) : lookup k [] = none := rfl
@[simp] theorem erase_nil (k : Key) : erase k [] = [] := rfl
@[simp] theorem keysOf_nil : keysOf [] = [] := rfl
@[simp] theorem keysOf_cons (p : Key × Val) (t : KV) : keysOf (p :: t) = p.1 :: keysOf t := rfl
@[simp] theorem mergeInto_nil (d : KV) : mergeInto d [] = d := rfl
theorem nodupKeys_nil : NodupKeys [] := by simp [NodupKeys]

theorem lookup_cons (k k' : Key) (v : Val) (t : KV) :
    lookup k ((k', v) :: t) = if k' = k then some v else lookup k t := rfl

theorem lookup_erase (k k' : Key) (m : KV) :
    lookup k' (erase k m) = if k' = k then none else lookup k' m := by
  induction m with
  | nil => simp
  | cons p t ih =>
    obtain ⟨a, v⟩ := p
    simp only [erase, lookup_cons]
    by_cases h1 : a = k <;> by_cases h2 : k' = k <;> by_cases h3 : a = k' <;>
      simp_all [lookup_cons]

theorem lookup_put (m : KV) (k k' : Key) (v : Val) :
    lookup k' (put m k v) = if k' = k then some v else lookup k' m := by
  simp only [put, lookup_cons, lookup_erase]
  by_cases h : k = k'
  · subst h; simp
  · have h' : k' ≠ k := fun e => h e.symm
    simp [h, h']

theorem lookup_mergeInto (d s : KV) (k : Key) :
    lookup k (mergeInto d s) = (lookup k s).or (lookup k d) := by
  induction s with
  | nil => simp
  | cons p t ih =>
    obtain ⟨a, v⟩ := p
    simp only [mergeInto, lookup_put, lookup_cons, ih]
    by_cases h : a = k
    · subst h; simp
    · have h' : k ≠ a := fun e => h e.symm
      simp [h, h']

theorem mem_keysOf_iff (k : Key) (m : KV) : k ∈ keysOf m ↔ (lookup k m).isSome = true := by
  induction m with
  | nil => simp
  | cons p t ih =>
    obtain ⟨a, v⟩ := p
    simp only [keysOf_cons, List.mem_cons, lookup_cons, ih]
    by_cases h : a = k
    · subst h; simp
    · have h' : k ≠ a := fun e => h e.symm
      simp [h, h']

theorem lookup_eq_none_iff (k : Key) (m : KV) : lookup k m = none ↔ k ∉ keysOf m := by
  rw [mem_keysOf_iff]; cases lookup k m <;> simp

theorem mem_keysOf_erase (k k' : Key) (m : KV) : k' ∈ keysOf (erase k m) ↔ k' ≠ k ∧ k' ∈ keysOf m := by
  simp only [mem_keysOf_iff, lookup_erase]
  by_cases h : k' = k <;> simp [h]

theorem nodupKeys_erase (k : Key) {m : KV} (h : NodupKeys m) : NodupKeys (erase k m) := by
  induction m with
  | nil => simpa using h
  | cons p t ih =>
    obtain ⟨a, v⟩ := p
    simp only [NodupKeys, keysOf_cons, List.nodup_cons] at h
    simp only [erase]
    split
    · exact ih h.2
    · simp only [NodupKeys, keysOf_cons, List.nodup_cons]
      refine ⟨?_, ih h.2⟩
      intro hm
      exact h.1 ((mem_keysOf_erase k a t).1 hm).2

theorem nodupKeys_put (k : Key) (v : Val) {m : KV} (h : NodupKeys m) : NodupKeys (put m k v) := by
  simp only [put, NodupKeys, keysOf_cons, List.nodup_cons]
  refine ⟨?_, nodupKeys_erase k h⟩
  intro hm
  exact ((mem_keysOf_erase k k m).1 hm).1 rfl

theorem nodupKeys_mergeInto {d : KV} (s : KV) (h : NodupKeys d) : NodupKeys (mergeInto d s) := by
  induction s with
  | nil => simpa using h
  | cons p t ih => obtain ⟨a, v⟩ := p; exact nodupKeys_put a v ih

theorem erase_of_not_mem {k : Key} {m : KV} (h : k ∉ keysOf m) : erase k m = m := by
  induction m with
  | nil => rfl
  | cons p t ih =>
    obtain ⟨a, v⟩ := p
    simp only [keysOf_cons, List.mem_cons, not_or] at h
    simp only [erase]
    rw [if_neg (fun e => h.1 e.symm), ih h.2]

/-- copying a map entry by entry into a fresh map (`GetAll`, flyt.go:94-97) reproduces it -/
theorem mergeInto_nil_self {m : KV} (h : NodupKeys m) : mergeInto [] m = m := by
  induction m with
  | nil => rfl
  | cons p t ih =>
    obtain ⟨a, v⟩ := p
    simp only [NodupKeys, keysOf_cons, List.nodup_cons] at h
    simp only [mergeInto, put, ih h.2, erase_of_not_mem h.1]

theorem length_keysOf (m : KV) : (keysOf m).length = m.length := by simp [keysOf]

end Flyt.Store
