import FlytModel.Spec.Batch
/-!
# The concurrent batch LTS (`Model/BatchConc.lean`): invariants of every reachable state

`Step`/`Reachable`/`Path` quantify over **every** schedule (every interleaving of the submitter, the
workers' receives, each task's internal steps, the returns of the user's exec calls and a cancellation
arriving at any moment). `Trans` is a relational reading of the executable `apply`, obtained once by
inversion (`trans_of_apply`); all invariants are proved by cases on it.
-/
namespace Flyt.Conc
open Flyt Flyt.Spec

/-! ### schedules -/

def Step (c : Cfg) (s s' : BState) : Prop := ∃ l, apply c s l = some s'

/-- states reachable from the initial state under some schedule -/
inductive Reachable (c : Cfg) : BState → Prop
  | init : Reachable c (init c)
  | step {s s'} : Reachable c s → Step c s s' → Reachable c s'

/-- `s'` is reachable from `s` (reflexive-transitive closure of `Step`) -/
inductive Path (c : Cfg) : BState → BState → Prop
  | refl (s) : Path c s s
  | step {s t u} : Path c s t → Step c t u → Path c s u

theorem Reachable.path {c : Cfg} {s s' : BState} (h : Reachable c s) (p : Path c s s') : Reachable c s' := by
  induction p with
  | refl => exact h
  | step _ hs ih => exact .step ih hs

theorem Path.trans {c : Cfg} {s t u : BState} (p : Path c s t) (q : Path c t u) : Path c s u := by
  induction q with
  | refl => exact p
  | step _ hs ih => exact .step ih hs

theorem reachable_iff_path {c : Cfg} {s : BState} : Reachable c s ↔ Path c (init c) s := by
  constructor
  · intro h; induction h with
    | init => exact .refl _
    | step _ hs ih => exact .step ih hs
  · intro h; exact Reachable.init.path h

/-! ### relational reading of `apply` -/

abbrev stoppedSlot : Result := newErrorResult (.fw .batchStopped)
abbrev cancelledSlot : Result := newErrorResult (.fw .batchCancelled)

/-- One internal step of task `i` that does not end the task: from program counter `pc`, possibly
    cancelling the context (`b`), logging `evs` (newest first), to `pc'`. Reads `shouldStop` and
    `cancelled` of the current state. -/
inductive Micro (c : Cfg) (s : BState) (i : Nat) : Pc → Bool → List Obs → Pc → Prop
  | retOk (k : Nat) (x : Val) : (c.exec i k).res = .ok x →
      Micro c s i (.inExec k) (c.exec i k).cancels [.done i k] (.store (slotOfVal (execRet c.execS x)) false)
  | retErr (k : Nat) (e : Nat) : (c.exec i k).res = .error e →
      Micro c s i (.inExec k) (c.exec i k).cancels [.done i k] (.loopTop (k + 1) (some e))
  | stopPass : ¬ (s.shouldStop = true ∧ c.stop = true) → Micro c s i .stopCheck false [] .ctxCheck
  | ctxPass : s.cancelled = false → Micro c s i .ctxCheck false [] (.loopTop 0 none)
  | loopCancelled (k : Nat) (last : Option Nat) : k < c.budget → s.cancelled = true →
      Micro c s i (.loopTop k last) false [] (.store (newErrorResult (.ctx c.kind)) true)
  | loopAbsent (k : Nat) (last : Option Nat) : k < c.budget → s.cancelled = false → c.execS = .absent →
      Micro c s i (.loopTop k last) false [] (.store (slotOfVal Val.nil) false)
  | loopStart (k : Nat) (last : Option Nat) : k < c.budget → s.cancelled = false → c.execS ≠ .absent →
      Micro c s i (.loopTop k last) false [.start i k] (.inExec k)
  | exhaustedNone (k : Nat) : ¬ k < c.budget → Micro c s i (.loopTop k none) false [] (.store (slotOfVal Val.nil) false)
  | fbOk (k e : Nat) (x : Val) : ¬ k < c.budget → c.fb = .custom → (c.fbOut i).res = .ok x →
      Micro c s i (.loopTop k (some e)) (c.fbOut i).cancels [.fb i] (.store (slotOfVal x) false)
  | fbErr (k e e' : Nat) : ¬ k < c.budget → c.fb = .custom → (c.fbOut i).res = .error e' →
      Micro c s i (.loopTop k (some e)) (c.fbOut i).cancels [.fb i] (.store (newErrorResult (.user e')) true)
  | noFb (k e : Nat) : ¬ k < c.budget → c.fb ≠ .custom →
      Micro c s i (.loopTop k (some e)) false [] (.store (newErrorResult (.user e)) true)

/-- The last step of a task: it writes `r` into its slot (raising `shouldStop` iff `b`) and returns.
    A task at `.store r failed` raises the flag iff it FAILED (`runExecWithRetries` returned an error) in stop
    mode — not merely because `r` is an error Result (batch.go: `if err != nil { … shouldStop = true }`). -/
inductive Fin (c : Cfg) (s : BState) : Pc → Result → Bool → Prop
  | stopHit : s.shouldStop = true → c.stop = true → Fin c s .stopCheck stoppedSlot false
  | ctxHit : s.cancelled = true → Fin c s .ctxCheck cancelledSlot false
  | store (r : Result) (failed : Bool) : Fin c s (.store r failed) r (failed && c.stop)

inductive Trans (c : Cfg) (s : BState) : Label → BState → Prop
  | submit : s.next < c.n → s.queue.length < c.cap →
      Trans c s .submit { s with next := s.next + 1, queue := s.queue ++ [s.next] }
  | take (t : Nat) (q : List Nat) : s.queue = t :: q → s.idle > 0 →
      Trans c s .take { s with queue := q, running := s.running ++ [(t, .stopCheck)], idle := s.idle - 1 }
  | cancel : s.cancelled = false → Trans c s .cancel { s with cancelled := true, log := .cancel :: s.log }
  | waitRet : s.next = c.n → s.queue = [] → s.running = [] → s.posted = false →
      Trans c s .waitRet { s with posted := true, log := .post :: s.log }
  | advance (i : Nat) (pc : Pc) (b : Bool) (evs : List Obs) (pc' : Pc) (l : Label) :
      pcOf s i = some pc → Micro c s i pc b evs pc' → (l = .ret i ∨ l = .step i) →
      Trans c s l (setPc { s with cancelled := s.cancelled || b, log := evs ++ s.log } i pc')
  | finish (i : Nat) (pc : Pc) (r : Result) (b : Bool) :
      pcOf s i = some pc → Fin c s pc r b →
      Trans c s (.step i) (finish { s with slots := setSlot s.slots i r, shouldStop := s.shouldStop || b } i)

theorem bstate_eta (s : BState) : { s with cancelled := s.cancelled || false, log := [] ++ s.log } = s := by
  cases s; simp

theorem trans_of_apply {c : Cfg} {s s' : BState} {l : Label} (h : apply c s l = some s') : Trans c s l s' := by
  cases l with
  | submit =>
    simp only [apply] at h
    split at h <;> simp at h
    rename_i hc; subst h; exact .submit hc.1 hc.2
  | take =>
    simp only [apply] at h
    split at h
    · simp at h
    · rename_i t q hq
      split at h <;> simp at h
      rename_i hi; subst h; exact .take t q hq hi
  | cancel =>
    simp only [apply] at h
    split at h <;> simp at h
    rename_i hc; subst h; exact .cancel (by simpa using hc)
  | waitRet =>
    simp only [apply] at h
    split at h <;> simp at h
    rename_i hc; subst h; exact .waitRet hc.1 hc.2.1 hc.2.2.1 (by simpa using hc.2.2.2)
  | ret i =>
    simp only [apply] at h
    split at h
    · rename_i k hpc
      cases hr : (c.exec i k).res with
      | ok x =>
        simp only [hr, Option.some.injEq] at h; subst h
        exact .advance i _ _ _ _ _ hpc (.retOk k x hr) (.inl rfl)
      | error e =>
        simp only [hr, Option.some.injEq] at h; subst h
        exact .advance i _ _ _ _ _ hpc (.retErr k e hr) (.inl rfl)
    · simp at h
  | step i =>
    simp only [apply] at h
    split at h
    · rename_i hpc
      split at h
      · rename_i hc
        simp only [Option.some.injEq] at h; subst h
        have := Trans.finish (c := c) i _ _ false hpc (.stopHit hc.1 hc.2)
        simpa using this
      · rename_i hc
        simp only [Option.some.injEq] at h; subst h
        have := Trans.advance (c := c) i _ _ _ _ (.step i) hpc (.stopPass hc) (.inr rfl)
        rwa [bstate_eta] at this
    · rename_i hpc
      split at h
      · rename_i hc
        simp only [Option.some.injEq] at h; subst h
        have := Trans.finish (c := c) i _ _ false hpc (.ctxHit hc)
        simpa using this
      · rename_i hc
        simp only [Option.some.injEq] at h; subst h
        have := Trans.advance (c := c) i _ _ _ _ (.step i) hpc (.ctxPass (by simpa using hc)) (.inr rfl)
        rwa [bstate_eta] at this
    · rename_i k last hpc
      split at h
      · rename_i hk
        split at h
        · rename_i hc
          simp only [Option.some.injEq] at h; subst h
          have := Trans.advance (c := c) i _ _ _ _ (.step i) hpc (.loopCancelled k last hk hc) (.inr rfl)
          rwa [bstate_eta] at this
        · rename_i hc
          split at h
          · rename_i hs
            simp only [Option.some.injEq] at h; subst h
            have := Trans.advance (c := c) i _ _ _ _ (.step i) hpc (.loopAbsent k last hk (by simpa using hc) hs) (.inr rfl)
            rwa [bstate_eta] at this
          · rename_i hs
            simp only [Option.some.injEq] at h; subst h
            have := Trans.advance (c := c) i _ _ _ _ (.step i) hpc
              (.loopStart k last hk (by simpa using hc) (by intro hh; exact hs hh)) (.inr rfl)
            simpa using this
      · rename_i hk
        split at h
        · simp only [Option.some.injEq] at h; subst h
          have := Trans.advance (c := c) i _ _ _ _ (.step i) hpc (.exhaustedNone k hk) (.inr rfl)
          rwa [bstate_eta] at this
        · rename_i e
          split at h
          · rename_i hfb
            cases hr : (c.fbOut i).res with
            | ok x =>
              simp only [hr, Option.some.injEq] at h; subst h
              have := Trans.advance (c := c) i _ _ _ _ (.step i) hpc (.fbOk k e x hk hfb hr) (.inr rfl)
              simpa using this
            | error e' =>
              simp only [hr, Option.some.injEq] at h; subst h
              have := Trans.advance (c := c) i _ _ _ _ (.step i) hpc (.fbErr k e e' hk hfb hr) (.inr rfl)
              simpa using this
          · rename_i hfb
            simp only [Option.some.injEq] at h; subst h
            have := Trans.advance (c := c) i _ _ _ _ (.step i) hpc (.noFb k e hk (by intro hh; exact hfb hh)) (.inr rfl)
            rwa [bstate_eta] at this
    · rename_i r fl hpc
      simp only [Option.some.injEq] at h; subst h
      exact .finish i _ r _ hpc (.store r fl)
    · simp at h

/-! ### bookkeeping lemmas -/

/-- indices of the tasks currently held by workers -/
def ids (s : BState) : List Nat := s.running.map (·.1)

theorem pcOf_mem {s : BState} {i : Nat} {pc : Pc} (h : pcOf s i = some pc) : (i, pc) ∈ s.running := by
  unfold pcOf at h
  cases hf : s.running.find? (fun p => decide (p.1 = i)) with
  | none => simp [hf] at h
  | some p =>
    simp only [hf, Option.map_some, Option.some.injEq] at h
    have h1 := List.mem_of_find?_eq_some hf
    have h2 := List.find?_some hf
    simp only [decide_eq_true_eq] at h2
    obtain ⟨a, b⟩ := p
    simp only at h h2; subst h h2; exact h1

theorem pcOf_ids {s : BState} {i : Nat} {pc : Pc} (h : pcOf s i = some pc) : i ∈ ids s :=
  List.mem_map.2 ⟨_, pcOf_mem h, rfl⟩

theorem pcOf_isSome_of_mem {s : BState} {i : Nat} (h : i ∈ ids s) : ∃ pc, pcOf s i = some pc := by
  unfold pcOf
  obtain ⟨p, hp, rfl⟩ := List.mem_map.1 h
  cases hf : s.running.find? (fun q => decide (q.1 = p.1)) with
  | none =>
    rw [List.find?_eq_none] at hf
    have := hf p hp
    simp at this
  | some q => exact ⟨q.2, rfl⟩

@[simp] theorem ids_mk (a : Nat) (b : List Nat) (r : List (Nat × Pc)) (d : Nat) (e : List (Option Result))
    (f g h : Bool) (k : List Obs) : ids ⟨a, b, r, d, e, f, g, h, k⟩ = r.map (·.1) := rfl

@[simp] theorem setPc_next (s : BState) (i : Nat) (pc : Pc) : (setPc s i pc).next = s.next := rfl
@[simp] theorem setPc_queue (s : BState) (i : Nat) (pc : Pc) : (setPc s i pc).queue = s.queue := rfl
@[simp] theorem setPc_idle (s : BState) (i : Nat) (pc : Pc) : (setPc s i pc).idle = s.idle := rfl
@[simp] theorem setPc_slots (s : BState) (i : Nat) (pc : Pc) : (setPc s i pc).slots = s.slots := rfl
@[simp] theorem setPc_shouldStop (s : BState) (i : Nat) (pc : Pc) : (setPc s i pc).shouldStop = s.shouldStop := rfl
@[simp] theorem setPc_cancelled (s : BState) (i : Nat) (pc : Pc) : (setPc s i pc).cancelled = s.cancelled := rfl
@[simp] theorem setPc_posted (s : BState) (i : Nat) (pc : Pc) : (setPc s i pc).posted = s.posted := rfl
@[simp] theorem setPc_log (s : BState) (i : Nat) (pc : Pc) : (setPc s i pc).log = s.log := rfl
@[simp] theorem finish_next (s : BState) (i : Nat) : (finish s i).next = s.next := rfl
@[simp] theorem finish_queue (s : BState) (i : Nat) : (finish s i).queue = s.queue := rfl
@[simp] theorem finish_idle (s : BState) (i : Nat) : (finish s i).idle = s.idle + 1 := rfl
@[simp] theorem finish_slots (s : BState) (i : Nat) : (finish s i).slots = s.slots := rfl
@[simp] theorem finish_shouldStop (s : BState) (i : Nat) : (finish s i).shouldStop = s.shouldStop := rfl
@[simp] theorem finish_cancelled (s : BState) (i : Nat) : (finish s i).cancelled = s.cancelled := rfl
@[simp] theorem finish_posted (s : BState) (i : Nat) : (finish s i).posted = s.posted := rfl
@[simp] theorem finish_log (s : BState) (i : Nat) : (finish s i).log = s.log := rfl

@[simp] theorem ids_setPc (s : BState) (i : Nat) (pc : Pc) : ids (setPc s i pc) = ids s := by
  simp only [ids, setPc, List.map_map]
  apply List.map_congr_left
  intro p _; simp only [Function.comp]; split <;> simp_all

@[simp] theorem running_length_setPc (s : BState) (i : Nat) (pc : Pc) : (setPc s i pc).running.length = s.running.length := by
  simp [setPc]

theorem mem_setPc {s : BState} {i : Nat} {pc : Pc} {j : Nat} {q : Pc} :
    (j, q) ∈ (setPc s i pc).running ↔ (j = i ∧ q = pc ∧ i ∈ ids s) ∨ (j ≠ i ∧ (j, q) ∈ s.running) := by
  simp only [setPc, List.mem_map, ids]
  constructor
  · rintro ⟨p, hp, he⟩
    split at he
    · rename_i h; simp only [Prod.mk.injEq] at he
      exact .inl ⟨he.1.symm, he.2.symm, ⟨p, hp, h⟩⟩
    · rename_i h; subst he; exact .inr ⟨h, hp⟩
  · rintro (⟨rfl, rfl, p, hp, h⟩ | ⟨hne, hm⟩)
    · exact ⟨p, hp, by simp [h]⟩
    · exact ⟨(j, q), hm, by simp [hne]⟩

@[simp] theorem ids_finish (s : BState) (i : Nat) : ids (finish s i) = (ids s).filter (· ≠ i) := by
  simp only [ids, finish, List.filter_map]
  rfl

theorem mem_finish {s : BState} {i j : Nat} {q : Pc} :
    (j, q) ∈ (finish s i).running ↔ j ≠ i ∧ (j, q) ∈ s.running := by
  simp [finish, and_comm]

/-! ### structural invariant -/

/-- Every task index below `next` is in exactly one place — queued, held by a worker, or finished with its
    slot written; indices from `next` on have not been submitted and have no slot. -/
structure Inv (c : Cfg) (s : BState) : Prop where
  slotsLen : s.slots.length = c.n
  nextLe : s.next ≤ c.n
  workers : s.running.length + s.idle = c.w
  qcap : s.queue.length ≤ c.cap
  nodup : (s.queue ++ ids s).Nodup
  lt : ∀ i ∈ s.queue ++ ids s, i < s.next
  slotIff : ∀ i, (∃ r, s.slots[i]? = some (some r)) ↔ (i < s.next ∧ i ∉ s.queue ∧ i ∉ ids s)

theorem inv_init (c : Cfg) : Inv c (init c) := by
  refine ⟨by simp [init], by simp [init], by simp [init], by simp [init], by simp [init, ids], by simp [init, ids], ?_⟩
  intro i
  simp only [init, List.getElem?_replicate]
  split <;> simp_all

theorem getElem?_setSlot (sl : List (Option Result)) (i j : Nat) (r : Result) :
    (setSlot sl i r)[j]? = if i = j ∧ i < sl.length then some (some r) else sl[j]? := by
  unfold setSlot
  rw [List.getElem?_set]
  by_cases h : i = j
  · subst h
    by_cases h2 : i < sl.length
    · simp [h2]
    · simp [h2]
  · simp [h]

theorem length_filter_ne_of_nodup (l : List (Nat × Pc)) (i : Nat) (hn : (l.map (·.1)).Nodup) (hi : i ∈ l.map (·.1)) :
    (l.filter (fun p => decide (p.1 ≠ i))).length + 1 = l.length := by
  induction l with
  | nil => simp at hi
  | cons p t ih =>
    simp only [List.map_cons, List.nodup_cons, List.mem_cons] at hn hi
    by_cases hp : p.1 = i
    · have : ∀ q ∈ t, decide (q.1 ≠ i) = true := by
        intro q hq
        have : q.1 ∈ t.map (·.1) := List.mem_map.2 ⟨q, hq, rfl⟩
        simp only [ne_eq, decide_eq_true_eq]
        intro h; rw [h] at this; exact hn.1 (hp ▸ this)
      rw [List.filter_cons_of_neg (by simp [hp]), List.filter_eq_self.2 this]
      simp
    · have hi' : i ∈ t.map (·.1) := by rcases hi with h | h; exact absurd h.symm hp; exact h
      rw [List.filter_cons_of_pos (by simp [hp])]
      have := ih hn.2 hi'
      simp only [List.length_cons]
      omega

theorem inv_trans {c : Cfg} {s s' : BState} {l : Label} (h : Inv c s) (t : Trans c s l s') : Inv c s' := by
  obtain ⟨h1, h2, h3, h4, h5, h6, h7⟩ := h
  cases t with
  | submit hn hc =>
    refine ⟨h1, hn, h3, by simp; omega, ?_, ?_, ?_⟩
    · simp only [ids_mk]
      change (s.queue ++ [s.next] ++ ids s).Nodup
      simp only [List.append_assoc, List.nodup_append, List.mem_append, List.mem_singleton] at h5 h6 ⊢
      grind
    · simp only [ids_mk]
      change ∀ i ∈ s.queue ++ [s.next] ++ ids s, i < s.next + 1
      simp only [List.mem_append, List.mem_singleton] at h6 ⊢
      grind
    · intro i
      have := h7 i
      simp only [ids_mk]
      change _ ↔ i < s.next + 1 ∧ i ∉ s.queue ++ [s.next] ∧ i ∉ ids s
      simp only [List.mem_append, List.mem_singleton] at h6 ⊢
      grind
  | take t q hq hi =>
    rw [hq] at h4 h5 h6 h7
    refine ⟨h1, h2, by simp; omega, by simp at h4 ⊢; omega, ?_, ?_, ?_⟩
    · simp only [ids_mk, List.map_append, List.map_cons, List.map_nil]
      change (q ++ (ids s ++ [t])).Nodup
      simp only [List.cons_append, List.nodup_cons, List.nodup_append, List.mem_cons, List.mem_append] at h5 ⊢
      grind
    · simp only [ids_mk, List.map_append, List.map_cons, List.map_nil]
      change ∀ i ∈ q ++ (ids s ++ [t]), i < s.next
      simp only [List.cons_append, List.mem_cons, List.mem_append] at h6 ⊢
      grind
    · intro i
      have := h7 i
      simp only [ids_mk, List.map_append, List.map_cons, List.map_nil]
      change _ ↔ i < s.next ∧ i ∉ q ∧ i ∉ ids s ++ [t]
      simp only [List.cons_append, List.nodup_cons, List.mem_append] at h5
      simp only [List.mem_cons, List.mem_append] at this ⊢
      grind
  | cancel hc => exact ⟨h1, h2, h3, h4, h5, h6, h7⟩
  | waitRet a b c d => exact ⟨h1, h2, h3, h4, h5, h6, h7⟩
  | advance i pc b evs pc' l hpc hm hl =>
    have e : ids (setPc { s with cancelled := s.cancelled || b, log := evs ++ s.log } i pc') = ids s := by
      rw [ids_setPc]; rfl
    refine ⟨h1, h2, ?_, h4, ?_, ?_, ?_⟩
    · simpa using h3
    · rw [e]; exact h5
    · rw [e]; exact h6
    · rw [e]; exact h7
  | finish i pc r b hpc hf =>
    have hi := pcOf_ids hpc
    have e : ids (finish { s with slots := setSlot s.slots i r, shouldStop := s.shouldStop || b } i)
        = (ids s).filter (· ≠ i) := by rw [ids_finish]; rfl
    have hnd : (ids s).Nodup := (List.nodup_append.1 h5).2.1
    have hlen := length_filter_ne_of_nodup s.running i hnd hi
    have hin : i < s.next := h6 i (List.mem_append.2 (.inr hi))
    refine ⟨by simp [setSlot, h1], h2, ?_, h4, ?_, ?_, ?_⟩
    · simp only [finish_idle]
      simp only [Conc.finish]
      omega
    · rw [e]
      simp only [finish_queue, List.nodup_append, List.mem_filter] at h5 ⊢
      exact ⟨h5.1, hnd.filter _, fun a ha b hb => h5.2.2 a ha b hb.1⟩
    · rw [e]
      intro j hj
      simp only [finish_queue, finish_next, List.mem_append, List.mem_filter] at hj ⊢
      exact h6 j (List.mem_append.2 (hj.elim .inl (fun h => .inr h.1)))
    · intro j
      rw [e]
      simp only [finish_slots, finish_queue, finish_next, getElem?_setSlot, List.mem_filter]
      have := h7 j
      simp only [List.nodup_append] at h5
      by_cases hji : i = j
      · subst hji
        have hq : i ∉ s.queue := fun hq => h5.2.2 i hq i hi rfl
        simp [hq, hin, show i < s.slots.length by omega]
      · have : ¬ (j = i) := fun h => hji h.symm
        simp only [hji, false_and, if_false, ne_eq, this, not_false_eq_true, decide_true, and_true]
        exact h7 j

theorem inv_reachable {c : Cfg} {s : BState} (h : Reachable c s) : Inv c s := by
  induction h with
  | init => exact inv_init c
  | step _ hs ih => obtain ⟨l, hl⟩ := hs; exact inv_trans ih (trans_of_apply hl)

/-! ### flags -/

theorem micro_evs {c : Cfg} {s : BState} {i : Nat} {pc pc' : Pc} {b : Bool} {evs : List Obs}
    (h : Micro c s i pc b evs pc') : ∀ e ∈ evs, e ≠ .post ∧ e ≠ .cancel := by
  cases h <;> simp

/-- `shouldStop` is never raised in continue mode; once post has run nothing is left; post runs at most once -/
structure FlagInv (c : Cfg) (s : BState) : Prop where
  stopOff : c.stop = false → s.shouldStop = false
  postedDone : s.posted = true → s.next = c.n ∧ s.queue = [] ∧ s.running = []
  postCount : s.log.count .post = if s.posted then 1 else 0

theorem flagInv_init (c : Cfg) : FlagInv c (init c) := by
  constructor <;> simp [init]

theorem flagInv_trans {c : Cfg} {s s' : BState} {l : Label} (h : FlagInv c s) (t : Trans c s l s') : FlagInv c s' := by
  obtain ⟨h1, h2, h3⟩ := h
  cases t with
  | submit hn hc =>
    refine ⟨h1, ?_, h3⟩
    intro hp; have := h2 hp; omega
  | take t q hq hi =>
    refine ⟨h1, ?_, h3⟩
    intro hp; have := (h2 hp).2.1; simp [hq] at this
  | cancel hc =>
    refine ⟨h1, h2, ?_⟩
    simpa [List.count_cons] using h3
  | waitRet a b c d =>
    refine ⟨h1, fun _ => ⟨a, b, c⟩, ?_⟩
    simp only [d] at h3
    simp [h3]
  | advance i pc b evs pc' l hpc hm hl =>
    have hmem := pcOf_mem hpc
    refine ⟨h1, ?_, ?_⟩
    · intro hp
      have := (h2 hp).2.2
      rw [this] at hmem; simp at hmem
    · have : evs.count .post = 0 := List.count_eq_zero.2 (fun hmem => ((micro_evs hm) _ hmem).1 rfl)
      show (evs ++ s.log).count .post = if s.posted then 1 else 0
      rw [List.count_append, this, Nat.zero_add]; exact h3
  | finish i pc r b hpc hf =>
    have hmem := pcOf_mem hpc
    refine ⟨?_, ?_, h3⟩
    · intro hs
      simp only [finish_shouldStop, Bool.or_eq_false_iff]
      refine ⟨h1 hs, ?_⟩
      cases hf <;> simp [hs]
    · intro hp
      have := (h2 hp).2.2
      rw [this] at hmem; simp at hmem

theorem flagInv_reachable {c : Cfg} {s : BState} (h : Reachable c s) : FlagInv c s := by
  induction h with
  | init => exact flagInv_init c
  | step _ hs ih => obtain ⟨l, hl⟩ := hs; exact flagInv_trans ih (trans_of_apply hl)

/-! ### what the log says about each item -/

/-- the history of a state, oldest event first (what `Spec/Batch.lean` calls `events`) -/
def hist (s : BState) : List Obs := s.log.reverse

/-- the item an observation is about -/
def obsItem : Obs → Option Nat
  | .start i _ => some i
  | .done i _ => some i
  | .fb i => some i
  | _ => none

theorem itemStarts_append (a b : List Obs) (i : Nat) : itemStarts (a ++ b) i = itemStarts a i ++ itemStarts b i := by
  simp [itemStarts]
theorem itemDones_append (a b : List Obs) (i : Nat) : itemDones (a ++ b) i = itemDones a i ++ itemDones b i := by
  simp [itemDones]
theorem itemFbs_append (a b : List Obs) (i : Nat) : itemFbs (a ++ b) i = itemFbs a i + itemFbs b i := by
  simp [itemFbs]

/-- events about other items (or about none) do not change what the log says about item `i` -/
theorem view_other (h evs : List Obs) (i : Nat) (ho : ∀ e ∈ evs, obsItem e ≠ some i) :
    itemStarts (h ++ evs) i = itemStarts h i ∧ itemDones (h ++ evs) i = itemDones h i ∧
    itemFbs (h ++ evs) i = itemFbs h i := by
  have a : itemStarts evs i = [] := by
    simp only [itemStarts, List.filterMap_eq_nil_iff]
    intro e he; have := ho e he
    cases e <;> simp_all [obsItem]
  have b : itemDones evs i = [] := by
    simp only [itemDones, List.filterMap_eq_nil_iff]
    intro e he; have := ho e he
    cases e <;> simp_all [obsItem]
  have d : itemFbs evs i = 0 := by
    simp only [itemFbs, List.length_eq_zero_iff, List.filter_eq_nil_iff]
    intro e he; have := ho e he
    cases e <;> simp_all [obsItem]
  simp [itemStarts_append, itemDones_append, itemFbs_append, a, b, d]

/-- no event about item `i` yet -/
def Fresh (h : List Obs) (i : Nat) : Prop := itemStarts h i = [] ∧ itemDones h i = [] ∧ itemFbs h i = 0

/-- attempts `0..k-1` of item `i` all fail, according to its script -/
def AllErr (c : Cfg) (i k : Nat) : Prop := ∀ j < k, ∃ e, (c.exec i j).res = .error e

/-- `execErr` at the top of the loop before attempt `k` -/
def lastErr (c : Cfg) (i k : Nat) : Option Nat := if k = 0 then none else errNo (c.exec i (k - 1))

/-- **Provenance of a result.** `Origin c cz h i r`: the value `r` (about to be) written into slot `i` is
    explained by item `i`'s own script and its own events in the history `h`, in exactly one of these ways.
    `cz` = "the context has been cancelled": the two cancellation outcomes are possible only then. -/
inductive Origin (c : Cfg) (cz : Bool) (h : List Obs) (i : Nat) : Result → Prop
  /-- the task saw `shouldStop` (stop mode) before doing anything: never executed, "batch stopped" error -/
  | stopped : c.stop = true → Fresh h i → Origin c cz h i stoppedSlot
  /-- the task saw the cancelled context before its first attempt: never executed, "context cancelled" error -/
  | cancelledBefore : cz = true → Fresh h i → Origin c cz h i cancelledSlot
  /-- the retry loop was cut by cancellation before attempt `k`: attempts `0..k-1` ran and failed -/
  | ctxCut (k : Nat) : cz = true → k < c.budget → itemStarts h i = List.range k → itemDones h i = List.range k →
      AllErr c i k → itemFbs h i = 0 → Origin c cz h i (newErrorResult (.ctx c.kind))
  /-- nodes without an exec function, or a retry budget of 0 (outside the properties' domain): nil value -/
  | noExec : (c.execS = .absent ∨ c.budget = 0) → Fresh h i → Origin c cz h i (slotOfVal Val.nil)
  /-- attempt `k` succeeded after `k` failures: the slot holds exactly that attempt's value -/
  | ok (k : Nat) (x : Val) : k < c.budget → itemStarts h i = List.range (k + 1) → itemDones h i = List.range (k + 1) →
      AllErr c i k → (c.exec i k).res = .ok x → itemFbs h i = 0 → Origin c cz h i (slotOfVal (execRet c.execS x))
  /-- all `budget` attempts failed, the custom fallback ran once and succeeded -/
  | fbOk (x : Val) : 0 < c.budget → itemStarts h i = List.range c.budget → itemDones h i = List.range c.budget →
      AllErr c i c.budget → c.fb = .custom → (c.fbOut i).res = .ok x → itemFbs h i = 1 → Origin c cz h i (slotOfVal x)
  /-- … and failed -/
  | fbErr (e' : Nat) : 0 < c.budget → itemStarts h i = List.range c.budget → itemDones h i = List.range c.budget →
      AllErr c i c.budget → c.fb = .custom → (c.fbOut i).res = .error e' → itemFbs h i = 1 →
      Origin c cz h i (newErrorResult (.user e'))
  /-- all `budget` attempts failed, no custom fallback: the error of the LAST attempt -/
  | lastError (e : Nat) : 0 < c.budget → itemStarts h i = List.range c.budget → itemDones h i = List.range c.budget →
      AllErr c i c.budget → c.fb ≠ .custom → (c.exec i (c.budget - 1)).res = .error e → itemFbs h i = 0 →
      Origin c cz h i (newErrorResult (.user e))

/-- **How a retry loop ended.** `LoopEnd c cz h i r failed`: task `i` left `runExecWithRetries` with the result `r`
    to store, and `failed` says whether `runExecWithRetries` returned an ERROR (`err != nil`: the loop was cut by
    cancellation, or every attempt failed and there was no successful fallback) or a VALUE (`failed = false`: an
    attempt's or the fallback's value — which may itself be an error *Result* — or nil when there is nothing to
    call). Same cases, same evidence as `Origin`; only a failed loop raises `shouldStop`. -/
inductive LoopEnd (c : Cfg) (cz : Bool) (h : List Obs) (i : Nat) : Result → Bool → Prop
  | ctxCut (k : Nat) : cz = true → k < c.budget → itemStarts h i = List.range k → itemDones h i = List.range k →
      AllErr c i k → itemFbs h i = 0 → LoopEnd c cz h i (newErrorResult (.ctx c.kind)) true
  | noExec : (c.execS = .absent ∨ c.budget = 0) → Fresh h i → LoopEnd c cz h i (slotOfVal Val.nil) false
  | ok (k : Nat) (x : Val) : k < c.budget → itemStarts h i = List.range (k + 1) → itemDones h i = List.range (k + 1) →
      AllErr c i k → (c.exec i k).res = .ok x → itemFbs h i = 0 → LoopEnd c cz h i (slotOfVal (execRet c.execS x)) false
  | fbOk (x : Val) : 0 < c.budget → itemStarts h i = List.range c.budget → itemDones h i = List.range c.budget →
      AllErr c i c.budget → c.fb = .custom → (c.fbOut i).res = .ok x → itemFbs h i = 1 → LoopEnd c cz h i (slotOfVal x) false
  | fbErr (e' : Nat) : 0 < c.budget → itemStarts h i = List.range c.budget → itemDones h i = List.range c.budget →
      AllErr c i c.budget → c.fb = .custom → (c.fbOut i).res = .error e' → itemFbs h i = 1 →
      LoopEnd c cz h i (newErrorResult (.user e')) true
  | lastError (e : Nat) : 0 < c.budget → itemStarts h i = List.range c.budget → itemDones h i = List.range c.budget →
      AllErr c i c.budget → c.fb ≠ .custom → (c.exec i (c.budget - 1)).res = .error e → itemFbs h i = 0 →
      LoopEnd c cz h i (newErrorResult (.user e)) true

/-- the result a finished retry loop is about to store is justified by the item's own script and events -/
theorem LoopEnd.origin {c : Cfg} {cz : Bool} {h : List Obs} {i : Nat} {r : Result} {f : Bool}
    (ho : LoopEnd c cz h i r f) : Origin c cz h i r := by
  cases ho with
  | ctxCut k z a b d e g => exact .ctxCut k z a b d e g
  | noExec a b => exact .noExec a b
  | ok k x a b d e g j => exact .ok k x a b d e g j
  | fbOk x a b d e g j k => exact .fbOk x a b d e g j k
  | fbErr x a b d e g j k => exact .fbErr x a b d e g j k
  | lastError x a b d e g j k => exact .lastError x a b d e g j k

/-- a retry loop that FAILED stores an error Result (never a success-looking one) -/
theorem LoopEnd.failed_isError {c : Cfg} {cz : Bool} {h : List Obs} {i : Nat} {r : Result}
    (ho : LoopEnd c cz h i r true) : r.isError = true := by
  cases ho <;> rfl

/-- **What `failed` means in terms of the item's own script.** The loop failed iff it was cut by cancellation
    before an attempt `k < budget`, or all `budget ≥ 1` attempts failed and the node has no custom fallback or the
    fallback failed too. -/
theorem LoopEnd.failed_iff {c : Cfg} {cz : Bool} {h : List Obs} {i : Nat} {r : Result} {f : Bool}
    (ho : LoopEnd c cz h i r f) :
    f = true ↔
      ((cz = true ∧ ∃ k, k < c.budget ∧ itemDones h i = List.range k ∧ AllErr c i k ∧ itemFbs h i = 0 ∧
          r = newErrorResult (.ctx c.kind)) ∨
       (0 < c.budget ∧ itemDones h i = List.range c.budget ∧ AllErr c i c.budget ∧
          ((c.fb = .custom ∧ ∃ e', (c.fbOut i).res = .error e' ∧ r = newErrorResult (.user e')) ∨
           (c.fb ≠ .custom ∧ ∃ e, (c.exec i (c.budget - 1)).res = .error e ∧ r = newErrorResult (.user e))))) := by
  cases ho with
  | ctxCut k z a b d e g => exact ⟨fun _ => .inl ⟨z, k, a, d, e, g, rfl⟩, fun _ => rfl⟩
  | noExec a b =>
    refine ⟨fun hf => absurd hf (by simp), ?_⟩
    rintro (⟨_, k, hk, _, _, _, hr⟩ | ⟨hpos, hd, ha, _⟩)
    · -- the evidence could be that of a cut loop; the result decides: `slotOfVal nil` is not an error
      simp [slotOfVal, newErrorResult, toResult, Val.asResult?, newResult, Val.nil] at hr
    · rcases a with a | a
      · rw [b.2.1] at hd
        have : c.budget = 0 := by
          cases hb : c.budget with
          | zero => rfl
          | succ n => rw [hb] at hd; simp [List.range_succ] at hd
        omega
      · omega
  | ok k x a b d e g j =>
    refine ⟨fun hf => absurd hf (by simp), ?_⟩
    rintro (⟨_, k', hk', hd, ha', _, _⟩ | ⟨hpos, hd, ha, _⟩)
    · rw [d] at hd
      have := congrArg List.length hd; simp at this
      subst this; obtain ⟨e', he'⟩ := ha' k (by omega); rw [g] at he'; cases he'
    · obtain ⟨e', he'⟩ := ha k a; rw [g] at he'; cases he'
  | fbOk x a b d e g j k =>
    refine ⟨fun hf => absurd hf (by simp), ?_⟩
    rintro (⟨_, k', hk', _, _, hf, _⟩ | ⟨hpos, hd, ha, (⟨_, e', he', _⟩ | ⟨hn, _⟩)⟩)
    · omega
    · rw [j] at he'; cases he'
    · exact absurd g hn
  | fbErr x a b d e g j k => exact ⟨fun _ => .inr ⟨a, d, e, .inl ⟨g, x, j, rfl⟩⟩, fun _ => rfl⟩
  | lastError x a b d e g j k => exact ⟨fun _ => .inr ⟨a, d, e, .inr ⟨g, x, j, rfl⟩⟩, fun _ => rfl⟩

/-- what the log must say about task `i` at program counter `pc` -/
def PcOk (c : Cfg) (cz : Bool) (h : List Obs) (i : Nat) : Pc → Prop
  | .stopCheck => Fresh h i
  | .ctxCheck => Fresh h i
  | .loopTop k last =>
      k ≤ c.budget ∧ itemStarts h i = List.range k ∧ itemDones h i = List.range k ∧ AllErr c i k ∧
      last = lastErr c i k ∧ itemFbs h i = 0 ∧ (c.execS = .absent → k = 0)
  | .inExec k =>
      k < c.budget ∧ itemStarts h i = List.range (k + 1) ∧ itemDones h i = List.range k ∧ AllErr c i k ∧
      itemFbs h i = 0 ∧ c.execS ≠ .absent
  | .store r failed => LoopEnd c cz h i r failed

theorem Fresh.congr {h h' : List Obs} {i : Nat} (e1 : itemStarts h' i = itemStarts h i) (e2 : itemDones h' i = itemDones h i)
    (e3 : itemFbs h' i = itemFbs h i) (hf : Fresh h i) : Fresh h' i := by
  unfold Fresh at *; rw [e1, e2, e3]; exact hf

theorem Origin.congr {c : Cfg} {cz cz' : Bool} {h h' : List Obs} {i : Nat} {r : Result} (hz : cz = true → cz' = true)
    (e1 : itemStarts h' i = itemStarts h i)
    (e2 : itemDones h' i = itemDones h i) (e3 : itemFbs h' i = itemFbs h i) (ho : Origin c cz h i r) : Origin c cz' h' i r := by
  cases ho with
  | stopped a b => exact .stopped a (b.congr e1 e2 e3)
  | cancelledBefore z b => exact .cancelledBefore (hz z) (b.congr e1 e2 e3)
  | ctxCut k z a b d e f => exact .ctxCut k (hz z) a (e1 ▸ b) (e2 ▸ d) e (e3 ▸ f)
  | noExec a b => exact .noExec a (b.congr e1 e2 e3)
  | ok k x a b d e f g => exact .ok k x a (e1 ▸ b) (e2 ▸ d) e f (e3 ▸ g)
  | fbOk x a b d e f g k => exact .fbOk x a (e1 ▸ b) (e2 ▸ d) e f g (e3 ▸ k)
  | fbErr x a b d e f g k => exact .fbErr x a (e1 ▸ b) (e2 ▸ d) e f g (e3 ▸ k)
  | lastError x a b d e f g k => exact .lastError x a (e1 ▸ b) (e2 ▸ d) e f g (e3 ▸ k)

theorem LoopEnd.congr {c : Cfg} {cz cz' : Bool} {h h' : List Obs} {i : Nat} {r : Result} {fl : Bool} (hz : cz = true → cz' = true)
    (e1 : itemStarts h' i = itemStarts h i)
    (e2 : itemDones h' i = itemDones h i) (e3 : itemFbs h' i = itemFbs h i) (ho : LoopEnd c cz h i r fl) :
    LoopEnd c cz' h' i r fl := by
  cases ho with
  | ctxCut k z a b d e f => exact .ctxCut k (hz z) a (e1 ▸ b) (e2 ▸ d) e (e3 ▸ f)
  | noExec a b => exact .noExec a (b.congr e1 e2 e3)
  | ok k x a b d e f g => exact .ok k x a (e1 ▸ b) (e2 ▸ d) e f (e3 ▸ g)
  | fbOk x a b d e f g k => exact .fbOk x a (e1 ▸ b) (e2 ▸ d) e f g (e3 ▸ k)
  | fbErr x a b d e f g k => exact .fbErr x a (e1 ▸ b) (e2 ▸ d) e f g (e3 ▸ k)
  | lastError x a b d e f g k => exact .lastError x a (e1 ▸ b) (e2 ▸ d) e f g (e3 ▸ k)

theorem PcOk.congr {c : Cfg} {cz cz' : Bool} {h h' : List Obs} {i : Nat} {pc : Pc} (hz : cz = true → cz' = true)
    (e1 : itemStarts h' i = itemStarts h i)
    (e2 : itemDones h' i = itemDones h i) (e3 : itemFbs h' i = itemFbs h i) (ho : PcOk c cz h i pc) : PcOk c cz' h' i pc := by
  cases pc with
  | stopCheck => exact Fresh.congr e1 e2 e3 ho
  | ctxCheck => exact Fresh.congr e1 e2 e3 ho
  | loopTop k last => unfold PcOk at *; rw [e1, e2, e3]; exact ho
  | inExec k => unfold PcOk at *; rw [e1, e2, e3]; exact ho
  | store r fl => exact LoopEnd.congr hz e1 e2 e3 ho

@[simp] theorem itemStarts_nil (i : Nat) : itemStarts [] i = [] := rfl
@[simp] theorem itemDones_nil (i : Nat) : itemDones [] i = [] := rfl
@[simp] theorem itemFbs_nil (i : Nat) : itemFbs [] i = 0 := rfl
@[simp] theorem itemStarts_start (i k : Nat) : itemStarts [.start i k] i = [k] := by simp [itemStarts]
@[simp] theorem itemDones_start (i j k : Nat) : itemDones [.start j k] i = [] := by simp [itemDones]
@[simp] theorem itemFbs_start (i j k : Nat) : itemFbs [.start j k] i = 0 := by simp [itemFbs]
@[simp] theorem itemStarts_done (i j k : Nat) : itemStarts [.done j k] i = [] := by simp [itemStarts]
@[simp] theorem itemDones_done (i k : Nat) : itemDones [.done i k] i = [k] := by simp [itemDones]
@[simp] theorem itemFbs_done (i j k : Nat) : itemFbs [.done j k] i = 0 := by simp [itemFbs]
@[simp] theorem itemStarts_fb (i j : Nat) : itemStarts [.fb j] i = [] := by simp [itemStarts]
@[simp] theorem itemDones_fb (i j : Nat) : itemDones [.fb j] i = [] := by simp [itemDones]
@[simp] theorem itemFbs_fb (i : Nat) : itemFbs [.fb i] i = 1 := by simp [itemFbs]

theorem micro_evs_item {c : Cfg} {s : BState} {i : Nat} {pc pc' : Pc} {b : Bool} {evs : List Obs}
    (h : Micro c s i pc b evs pc') : ∀ e ∈ evs, obsItem e = some i := by
  cases h <;> simp [obsItem]

theorem lastErr_some_of_allErr {c : Cfg} {i k : Nat} (hk : 0 < k) (ha : AllErr c i k) :
    ∃ e, lastErr c i k = some e ∧ (c.exec i (k - 1)).res = .error e := by
  obtain ⟨e, he⟩ := ha (k - 1) (by omega)
  exact ⟨e, by simp [lastErr, Nat.ne_of_gt hk, errNo, he], he⟩

/-- one internal step of task `i` keeps the log consistent with its program counter -/
theorem pcOk_micro {c : Cfg} {s : BState} {i : Nat} {pc pc' : Pc} {b cz : Bool} {evs : List Obs} {h : List Obs}
    (hm : Micro c s i pc b evs pc') (hp : PcOk c cz h i pc) (hcz : s.cancelled = true → cz = true) :
    PcOk c cz (h ++ evs.reverse) i pc' := by
  cases hm with
  | retOk k x hr =>
    obtain ⟨h1, h2, h3, h4, h5, h6⟩ := hp
    refine .ok k x h1 ?_ ?_ h4 hr ?_
    · simp [itemStarts_append, h2]
    · simp [itemDones_append, h3, List.range_succ]
    · simp [itemFbs_append, h5]
  | retErr k e hr =>
    obtain ⟨h1, h2, h3, h4, h5, h6⟩ := hp
    refine ⟨h1, ?_, ?_, ?_, ?_, ?_, fun ha => absurd ha h6⟩
    · simp [itemStarts_append, h2]
    · simp [itemDones_append, h3, List.range_succ]
    · intro j hj
      by_cases hjk : j < k
      · exact h4 j hjk
      · have : j = k := by omega
        subst this; exact ⟨e, hr⟩
    · simp [lastErr, errNo, hr]
    · simp [itemFbs_append, h5]
  | stopPass _ => simpa [PcOk] using hp
  | ctxPass _ =>
    obtain ⟨h1, h2, h3⟩ := hp
    exact ⟨Nat.zero_le _, by simpa using h1, by simpa using h2, fun j hj => absurd hj (Nat.not_lt_zero _),
      by simp [lastErr], by simpa using h3, fun _ => rfl⟩
  | loopCancelled k last hk hcc =>
    obtain ⟨h1, h2, h3, h4, h5, h6, h7⟩ := hp
    exact .ctxCut k (hcz ‹_›) hk (by simpa using h2) (by simpa using h3) h4 (by simpa using h6)
  | loopAbsent k last hk _ ha =>
    obtain ⟨h1, h2, h3, h4, h5, h6, h7⟩ := hp
    have := h7 ha; subst this
    exact .noExec (.inl ha) ⟨by simpa using h2, by simpa using h3, by simpa using h6⟩
  | loopStart k last hk _ ha =>
    obtain ⟨h1, h2, h3, h4, h5, h6, h7⟩ := hp
    refine ⟨hk, ?_, ?_, h4, ?_, ha⟩
    · simp [itemStarts_append, h2, List.range_succ]
    · simp [itemDones_append, h3]
    · simp [itemFbs_append, h6]
  | exhaustedNone k hk =>
    obtain ⟨h1, h2, h3, h4, h5, h6, h7⟩ := hp
    by_cases hk0 : k = 0
    · subst hk0
      exact .noExec (.inr (by omega)) ⟨by simpa using h2, by simpa using h3, by simpa using h6⟩
    · obtain ⟨e, he, _⟩ := lastErr_some_of_allErr (Nat.pos_of_ne_zero hk0) h4
      rw [he] at h5; simp at h5
  | fbOk k e x hk hfb hr =>
    obtain ⟨h1, h2, h3, h4, h5, h6, h7⟩ := hp
    have hkb : k = c.budget := by omega
    subst hkb
    have hpos : 0 < c.budget := by
      rcases Nat.eq_zero_or_pos c.budget with h0 | h0
      · rw [h0] at h5; simp [lastErr] at h5
      · exact h0
    refine .fbOk x hpos ?_ ?_ h4 hfb hr ?_
    · simp [itemStarts_append, h2]
    · simp [itemDones_append, h3]
    · simp [itemFbs_append, h6]
  | fbErr k e e' hk hfb hr =>
    obtain ⟨h1, h2, h3, h4, h5, h6, h7⟩ := hp
    have hkb : k = c.budget := by omega
    subst hkb
    have hpos : 0 < c.budget := by
      rcases Nat.eq_zero_or_pos c.budget with h0 | h0
      · rw [h0] at h5; simp [lastErr] at h5
      · exact h0
    refine .fbErr e' hpos ?_ ?_ h4 hfb hr ?_
    · simp [itemStarts_append, h2]
    · simp [itemDones_append, h3]
    · simp [itemFbs_append, h6]
  | noFb k e hk hfb =>
    obtain ⟨h1, h2, h3, h4, h5, h6, h7⟩ := hp
    have hkb : k = c.budget := by omega
    subst hkb
    have hpos : 0 < c.budget := by
      rcases Nat.eq_zero_or_pos c.budget with h0 | h0
      · rw [h0] at h5; simp [lastErr] at h5
      · exact h0
    obtain ⟨e2, he2, hres⟩ := lastErr_some_of_allErr hpos h4
    rw [he2] at h5
    simp only [Option.some.injEq] at h5; subst h5
    exact .lastError e hpos (by simpa using h2) (by simpa using h3) h4 hfb hres (by simpa using h6)

/-- the log is consistent with every task's program counter, with every written slot, and says nothing
    about tasks that have not started -/
structure LogInv (c : Cfg) (s : BState) : Prop where
  running : ∀ i pc, (i, pc) ∈ s.running → PcOk c s.cancelled (hist s) i pc
  slots : ∀ i r, s.slots[i]? = some (some r) → Origin c s.cancelled (hist s) i r
  fresh : ∀ i, i ∉ ids s → (∀ r, s.slots[i]? ≠ some (some r)) → Fresh (hist s) i

theorem logInv_init (c : Cfg) : LogInv c (init c) := by
  refine ⟨by simp [init], ?_, fun i _ _ => by simp [hist, init, Fresh]⟩
  intro i r h
  simp only [init, List.getElem?_replicate] at h
  split at h <;> simp at h

theorem logInv_trans {c : Cfg} {s s' : BState} {l : Label} (hI : Inv c s) (h : LogInv c s) (t : Trans c s l s') :
    LogInv c s' := by
  obtain ⟨h1, h2, h3⟩ := h
  cases t with
  | submit hn hc => exact ⟨h1, h2, h3⟩
  | take t q hq hi =>
    refine ⟨?_, h2, ?_⟩
    · intro i pc hm
      simp only [List.mem_append, List.mem_singleton, Prod.mk.injEq] at hm
      rcases hm with hm | ⟨rfl, rfl⟩
      · exact h1 i pc hm
      · have hq' : i ∈ s.queue := by simp [hq]
        have hnd := hI.nodup
        simp only [List.nodup_append] at hnd
        refine h3 i (fun hi' => hnd.2.2 i hq' i hi' rfl) (fun r hr => ?_)
        exact ((hI.slotIff i).1 ⟨r, hr⟩).2.1 hq'
    · intro i hi' hs
      refine h3 i (fun hh => hi' ?_) hs
      simp only [ids_mk, List.map_append, List.mem_append]
      exact .inl hh
  | cancel hc =>
    have hv : ∀ i, itemStarts (hist s ++ [.cancel]) i = itemStarts (hist s) i ∧
        itemDones (hist s ++ [.cancel]) i = itemDones (hist s) i ∧ itemFbs (hist s ++ [.cancel]) i = itemFbs (hist s) i :=
      fun i => view_other _ _ i (by simp [obsItem])
    have hh : hist { s with cancelled := true, log := .cancel :: s.log } = hist s ++ [.cancel] := by simp [hist]
    refine ⟨?_, ?_, ?_⟩
    · intro i pc hm; rw [hh]; exact (h1 i pc hm).congr (fun _ => rfl) (hv i).1 (hv i).2.1 (hv i).2.2
    · intro i r hr; rw [hh]; exact (h2 i r hr).congr (fun _ => rfl) (hv i).1 (hv i).2.1 (hv i).2.2
    · intro i a b; rw [hh]; exact (h3 i a b).congr (hv i).1 (hv i).2.1 (hv i).2.2
  | waitRet a b c d =>
    have hv : ∀ i, itemStarts (hist s ++ [.post]) i = itemStarts (hist s) i ∧
        itemDones (hist s ++ [.post]) i = itemDones (hist s) i ∧ itemFbs (hist s ++ [.post]) i = itemFbs (hist s) i :=
      fun i => view_other _ _ i (by simp [obsItem])
    have hh : hist { s with posted := true, log := .post :: s.log } = hist s ++ [.post] := by simp [hist]
    refine ⟨?_, ?_, ?_⟩
    · intro i pc hm; rw [hh]; exact (h1 i pc hm).congr id (hv i).1 (hv i).2.1 (hv i).2.2
    · intro i r hr; rw [hh]; exact (h2 i r hr).congr id (hv i).1 (hv i).2.1 (hv i).2.2
    · intro i a b; rw [hh]; exact (h3 i a b).congr (hv i).1 (hv i).2.1 (hv i).2.2
  | advance i pc b evs pc' l hpc hm hl =>
    have hh : hist (setPc { s with cancelled := s.cancelled || b, log := evs ++ s.log } i pc') = hist s ++ evs.reverse := by
      simp [hist]
    have hi := pcOf_ids hpc
    have hv : ∀ j, j ≠ i → itemStarts (hist s ++ evs.reverse) j = itemStarts (hist s) j ∧
        itemDones (hist s ++ evs.reverse) j = itemDones (hist s) j ∧
        itemFbs (hist s ++ evs.reverse) j = itemFbs (hist s) j := by
      intro j hj
      refine view_other _ _ j (fun e he => ?_)
      rw [micro_evs_item hm e (List.mem_reverse.1 he)]
      simpa using Ne.symm hj
    have e : ids (setPc { s with cancelled := s.cancelled || b, log := evs ++ s.log } i pc') = ids s := by
      rw [ids_setPc]; rfl
    have hz : s.cancelled = true → (s.cancelled || b) = true := fun h => by simp [h]
    refine ⟨?_, ?_, ?_⟩
    · intro j q hjq
      rw [hh]
      rcases mem_setPc.1 hjq with ⟨rfl, rfl, _⟩ | ⟨hne, hm'⟩
      · exact (pcOk_micro hm (h1 _ _ (pcOf_mem hpc)) id).congr hz rfl rfl rfl
      · exact (h1 j q hm').congr hz (hv j hne).1 (hv j hne).2.1 (hv j hne).2.2
    · intro j r hr
      rw [hh]
      have hne : j ≠ i := by
        rintro rfl
        exact ((hI.slotIff j).1 ⟨r, hr⟩).2.2 hi
      exact (h2 j r hr).congr hz (hv j hne).1 (hv j hne).2.1 (hv j hne).2.2
    · intro j hj hs
      rw [hh]
      rw [e] at hj
      have hne : j ≠ i := by rintro rfl; exact hj hi
      exact (h3 j hj hs).congr (hv j hne).1 (hv j hne).2.1 (hv j hne).2.2
  | finish i pc r b hpc hf =>
    have hi := pcOf_ids hpc
    have hin : i < s.slots.length := by
      have := hI.lt i (List.mem_append.2 (.inr hi)); have := hI.nextLe; have := hI.slotsLen; omega
    have hh : hist (finish { s with slots := setSlot s.slots i r, shouldStop := s.shouldStop || b } i) = hist s := rfl
    refine ⟨?_, ?_, ?_⟩
    · intro j q hjq
      rw [hh]
      exact h1 j q (mem_finish.1 hjq).2
    · intro j r' hr
      rw [hh]
      simp only [finish_slots, getElem?_setSlot] at hr
      split at hr
      · rename_i hc
        obtain ⟨rfl, _⟩ := hc
        simp only [Option.some.injEq] at hr; subst hr
        have hp := h1 _ _ (pcOf_mem hpc)
        cases hf with
        | stopHit a b => exact .stopped b hp
        | ctxHit a => exact .cancelledBefore a hp
        | store r fl => exact LoopEnd.origin hp
      · exact h2 j r' hr
    · intro j hj hs
      rw [hh]
      simp only [finish_slots, getElem?_setSlot] at hs
      have hne : j ≠ i := by
        rintro rfl
        exact hs r (by simp [hin])
      refine h3 j (fun hh' => hj ?_) (fun r' hr' => hs r' ?_)
      · rw [ids_finish]; simp only [List.mem_filter, ne_eq, decide_not, Bool.not_eq_eq_eq_not, Bool.not_true,
          decide_eq_false_iff_not]
        exact ⟨hh', hne⟩
      · rw [if_neg (fun hc => hne hc.1.symm)]; exact hr'

theorem logInv_reachable {c : Cfg} {s : BState} (h : Reachable c s) : LogInv c s := by
  induction h with
  | init => exact logInv_init c
  | step hr hs ih => obtain ⟨l, hl⟩ := hs; exact logInv_trans (inv_reachable hr) ih (trans_of_apply hl)

/-! ### monotone flags, growing log -/

theorem trans_mono {c : Cfg} {s s' : BState} {l : Label} (t : Trans c s l s') :
    (s.cancelled = true → s'.cancelled = true) ∧ (s.shouldStop = true → s'.shouldStop = true) ∧
    (s.posted = true → s'.posted = true) ∧ ∃ new, s'.log = new ++ s.log := by
  cases t with
  | submit => exact ⟨id, id, id, [], rfl⟩
  | take => exact ⟨id, id, id, [], rfl⟩
  | cancel => exact ⟨fun _ => rfl, id, id, [.cancel], rfl⟩
  | waitRet => exact ⟨id, id, fun _ => rfl, [.post], rfl⟩
  | advance i pc b evs pc' l hpc hm hl =>
    exact ⟨fun h => by simp [h], id, id, evs, rfl⟩
  | finish i pc r b hpc hf => exact ⟨id, fun h => by simp [h], id, [], rfl⟩

/-! ### C09: after `shouldStop` has been raised -/

/-- tasks that have passed the stop check -/
def pastStopCheck (s : BState) (j : Nat) : Prop := ∃ q, (j, q) ∈ s.running ∧ q ≠ .stopCheck

/-- **Stop mode, every schedule.** From a state in which `shouldStop` is set: the flag stays set; no task passes
    the stop check any more; every exec call that starts later belongs to a task that had already passed the
    stop check in that state. -/
theorem after_stop {c : Cfg} {s s' : BState} (hp : Path c s s') (hstop : c.stop = true) (hs : s.shouldStop = true) :
    s'.shouldStop = true ∧ (∀ j, pastStopCheck s' j → pastStopCheck s j) ∧
    ∃ new, s'.log = new ++ s.log ∧ ∀ j k, .start j k ∈ new → pastStopCheck s j := by
  induction hp with
  | refl => exact ⟨hs, fun _ h => h, [], rfl, by simp⟩
  | step _ hst ih =>
    rename_i t u
    obtain ⟨l, hl⟩ := hst
    obtain ⟨ih1, ih2, new, ih3, ih4⟩ := ih
    have tr := trans_of_apply hl
    refine ⟨(trans_mono tr).2.1 ih1, ?_, ?_⟩
    · intro j ⟨q, hq, hne⟩
      cases tr with
      | submit => exact ih2 j ⟨q, hq, hne⟩
      | take t' q' hq' hi =>
        simp only [List.mem_append, List.mem_singleton, Prod.mk.injEq] at hq
        rcases hq with hq | ⟨_, rfl⟩
        · exact ih2 j ⟨q, hq, hne⟩
        · exact absurd rfl hne
      | cancel => exact ih2 j ⟨q, hq, hne⟩
      | waitRet => exact ih2 j ⟨q, hq, hne⟩
      | advance i pc b evs pc' l hpc hm hl =>
        rcases mem_setPc.1 hq with ⟨rfl, rfl, _⟩ | ⟨_, hm'⟩
        · refine ih2 _ ⟨pc, pcOf_mem hpc, ?_⟩
          rintro rfl
          cases hm with
          | stopPass hc => exact hc ⟨ih1, hstop⟩
        · exact ih2 j ⟨q, hm', hne⟩
      | finish i pc r b hpc hf => exact ih2 j ⟨q, (mem_finish.1 hq).2, hne⟩
    · cases tr with
      | submit => exact ⟨new, ih3, ih4⟩
      | take => exact ⟨new, ih3, ih4⟩
      | cancel => exact ⟨.cancel :: new, by simp [ih3], by simpa using ih4⟩
      | waitRet => exact ⟨.post :: new, by simp [ih3], by simpa using ih4⟩
      | advance i pc b evs pc' l hpc hm hl =>
        refine ⟨evs ++ new, by simp [ih3], ?_⟩
        intro j k hjk
        rcases List.mem_append.1 hjk with h | h
        · have := micro_evs_item hm _ h
          simp only [obsItem, Option.some.injEq] at this; subst this
          refine ih2 _ ⟨pc, pcOf_mem hpc, ?_⟩
          rintro rfl
          cases hm with
          | stopPass hc => exact hc ⟨ih1, hstop⟩
        · exact ih4 j k h
      | finish i pc r b hpc hf => exact ⟨new, ih3, ih4⟩

/-- in stop mode with `shouldStop` set, a task at the stop check can only end with the "batch stopped" error -/
theorem stopCheck_blocked {c : Cfg} {s s' : BState} {i : Nat} (hstop : c.stop = true) (hs : s.shouldStop = true)
    (hpc : pcOf s i = some .stopCheck) (h : apply c s (.step i) = some s') :
    s'.slots = setSlot s.slots i stoppedSlot ∧ i ∉ ids s' ∧ s'.log = s.log := by
  simp only [apply, hpc, hs, hstop, and_self, if_true, Option.some.injEq] at h
  subst h
  refine ⟨rfl, ?_, rfl⟩
  rw [ids_finish]; simp

/-- the step that stores the result of a task that FAILED (`runExecWithRetries` returned an error: pc
    `.store r true`) in stop mode raises `shouldStop` and frees its worker: at most `w - 1` other tasks are in flight -/
theorem failing_store {c : Cfg} {s s' : BState} {i : Nat} {r : Result} (hr : Reachable c s) (hstop : c.stop = true)
    (hpc : pcOf s i = some (.store r true)) (h : apply c s (.step i) = some s') :
    s'.shouldStop = true ∧ s'.running.length + 1 ≤ c.w ∧ s'.slots = setSlot s.slots i r := by
  have hI' := inv_trans (inv_reachable hr) (trans_of_apply h)
  simp only [apply, hpc, Option.some.injEq] at h
  subst h
  refine ⟨by simp [hstop], ?_, rfl⟩
  have := hI'.workers
  simp only [finish_idle] at this
  omega

/-- … whereas a task whose processing returned a VALUE (pc `.store r false`) — even an error *Result* handed back
    with a nil error — fills its slot and leaves the stop flag exactly as it was, in either mode -/
theorem value_store {c : Cfg} {s s' : BState} {i : Nat} {r : Result}
    (hpc : pcOf s i = some (.store r false)) (h : apply c s (.step i) = some s') :
    s'.shouldStop = s.shouldStop ∧ s'.slots = setSlot s.slots i r ∧ s'.log = s.log := by
  simp only [apply, hpc, Option.some.injEq] at h
  subst h
  exact ⟨by simp, rfl, rfl⟩

/-- a task of a reachable state that is about to store with `failed = true` stores an error Result, and `failed`
    is exactly "the item's own retry loop ended in an error" (`LoopEnd`) -/
theorem store_pc_loopEnd {c : Cfg} {s : BState} {i : Nat} {r : Result} {f : Bool} (hL : LogInv c s)
    (hpc : pcOf s i = some (.store r f)) : LoopEnd c s.cancelled (hist s) i r f :=
  hL.running _ _ (pcOf_mem hpc)

theorem length_le_of_nodup_subset : ∀ (L M : List Nat), L.Nodup → (∀ x ∈ L, x ∈ M) → L.length ≤ M.length
  | [], _, _, _ => by simp
  | a :: L, M, hn, hs => by
    have ha : a ∈ M := hs a (List.mem_cons_self)
    have hl := List.length_erase_of_mem ha
    have hpos : 0 < M.length := List.length_pos_of_mem ha
    have ih := length_le_of_nodup_subset L (M.erase a) (List.nodup_cons.1 hn).2 (fun x hx => by
      have hne : x ≠ a := fun h => (List.nodup_cons.1 hn).1 (h ▸ hx)
      exact (List.mem_erase_of_ne hne).2 (hs x (List.mem_cons_of_mem _ hx)))
    simp only [List.length_cons]
    omega

/-! ### C11: after the context has been cancelled -/

/-- **Every schedule.** From a state in which the context is cancelled: it stays cancelled and NO exec call
    is started any more (neither a new item nor a new attempt). -/
theorem after_cancel {c : Cfg} {s s' : BState} (hp : Path c s s') (hs : s.cancelled = true) :
    s'.cancelled = true ∧ ∃ new, s'.log = new ++ s.log ∧ ∀ j k, .start j k ∉ new := by
  induction hp with
  | refl => exact ⟨hs, [], rfl, by simp⟩
  | step _ hst ih =>
    obtain ⟨l, hl⟩ := hst
    obtain ⟨ih1, new, ih3, ih4⟩ := ih
    have tr := trans_of_apply hl
    refine ⟨(trans_mono tr).1 ih1, ?_⟩
    cases tr with
    | submit => exact ⟨new, ih3, ih4⟩
    | take => exact ⟨new, ih3, ih4⟩
    | cancel => exact ⟨.cancel :: new, by simp [ih3], by simpa using ih4⟩
    | waitRet => exact ⟨.post :: new, by simp [ih3], by simpa using ih4⟩
    | advance i pc b evs pc' l hpc hm hl =>
      refine ⟨evs ++ new, by simp [ih3], ?_⟩
      intro j k hjk
      rcases List.mem_append.1 hjk with h | h
      · cases hm <;> simp_all
      · exact ih4 j k h
    | finish i pc r b hpc hf => exact ⟨new, ih3, ih4⟩

/-- a task that reaches its context check after the cancellation ends with the "context cancelled" error -/
theorem ctxCheck_cancelled {c : Cfg} {s s' : BState} {i : Nat} (hs : s.cancelled = true)
    (hpc : pcOf s i = some .ctxCheck) (h : apply c s (.step i) = some s') :
    s'.slots = setSlot s.slots i cancelledSlot ∧ i ∉ ids s' ∧ s'.log = s.log := by
  simp only [apply, hpc, hs, if_true, Option.some.injEq] at h
  subst h
  refine ⟨rfl, ?_, rfl⟩
  rw [ids_finish]; simp

/-- … and a task at the top of its retry loop gives up with the context's error instead of starting an attempt -/
theorem loopTop_cancelled {c : Cfg} {s s' : BState} {i k : Nat} {last : Option Nat} (hs : s.cancelled = true)
    (hk : k < c.budget) (hpc : pcOf s i = some (.loopTop k last)) (h : apply c s (.step i) = some s') :
    s' = setPc s i (.store (newErrorResult (.ctx c.kind)) true) := by
  simp only [apply, hpc, hs, hk, if_true, Option.some.injEq] at h
  exact h.symm

/-! ### termination: a measure that every step decreases; no deadlock -/

/-- remaining work of a task at program counter `pc` -/
def rank (c : Cfg) : Pc → Nat
  | .stopCheck => 2 * c.budget + 4
  | .ctxCheck => 2 * c.budget + 3
  | .loopTop k _ => 2 * (c.budget - k) + 2
  | .inExec k => 2 * (c.budget - k) + 1
  | .store _ _ => 1

def runSum (c : Cfg) (l : List (Nat × Pc)) : Nat := (l.map fun p => rank c p.2).sum

/-- unsubmitted + queued + running work, post still to come, cancellation still possible -/
def measure (c : Cfg) (s : BState) : Nat :=
  (c.n - s.next) * (2 * c.budget + 6) + s.queue.length * (2 * c.budget + 5) + runSum c s.running
    + (if s.posted then 0 else 1) + (if s.cancelled then 0 else 1)

theorem runSum_setPc (c : Cfg) (l : List (Nat × Pc)) (i : Nat) (pc pc' : Pc) (hn : (l.map (·.1)).Nodup) (hm : (i, pc) ∈ l) :
    runSum c (l.map fun p => if p.1 = i then (i, pc') else p) + rank c pc = runSum c l + rank c pc' := by
  induction l with
  | nil => simp at hm
  | cons p t ih =>
    simp only [List.map_cons, List.nodup_cons] at hn
    simp only [List.mem_cons] at hm
    rcases hm with rfl | hm
    · have : t.map (fun p => if p.1 = i then (i, pc') else p) = t := by
        conv => rhs; rw [← List.map_id t]
        apply List.map_congr_left
        intro q hq
        have : q.1 ≠ i := fun h => hn.1 (h ▸ List.mem_map.2 ⟨q, hq, rfl⟩)
        simp [this]
      simp only [runSum, List.map_cons, if_true, List.sum_cons, this]
      omega
    · have hpi : p.1 ≠ i := fun h => hn.1 (h ▸ List.mem_map.2 ⟨(i, pc), hm, rfl⟩)
      have := ih hn.2 hm
      simp only [runSum, List.map_cons, hpi, if_false, List.sum_cons] at this ⊢
      omega

theorem runSum_filter (c : Cfg) (l : List (Nat × Pc)) (i : Nat) (pc : Pc) (hn : (l.map (·.1)).Nodup) (hm : (i, pc) ∈ l) :
    runSum c (l.filter fun p => decide (p.1 ≠ i)) + rank c pc = runSum c l := by
  induction l with
  | nil => simp at hm
  | cons p t ih =>
    simp only [List.map_cons, List.nodup_cons] at hn
    simp only [List.mem_cons] at hm
    rcases hm with rfl | hm
    · have : t.filter (fun p => decide (p.1 ≠ i)) = t := by
        apply List.filter_eq_self.2
        intro q hq
        have : q.1 ≠ i := fun h => hn.1 (h ▸ List.mem_map.2 ⟨q, hq, rfl⟩)
        simp [this]
      rw [List.filter_cons_of_neg (by simp), this]
      simp only [runSum, List.map_cons, List.sum_cons]
      omega
    · have hpi : p.1 ≠ i := fun h => hn.1 (h ▸ List.mem_map.2 ⟨(i, pc), hm, rfl⟩)
      have := ih hn.2 hm
      rw [List.filter_cons_of_pos (by simp [hpi])]
      simp only [runSum, List.map_cons, List.sum_cons] at this ⊢
      omega

theorem rank_micro {c : Cfg} {s : BState} {i : Nat} {pc pc' : Pc} {b cz : Bool} {evs : List Obs} {h : List Obs}
    (hm : Micro c s i pc b evs pc') (hp : PcOk c cz h i pc) : rank c pc' < rank c pc := by
  cases hm with
  | retOk k x hr => have := hp.1; simp only [rank]; omega
  | retErr k e hr => have := hp.1; simp only [rank]; omega
  | stopPass _ => simp only [rank]; omega
  | ctxPass _ => simp only [rank]; omega
  | loopCancelled k last hk _ => simp only [rank]; omega
  | loopAbsent k last hk _ _ => simp only [rank]; omega
  | loopStart k last hk _ _ => simp only [rank]; omega
  | exhaustedNone k hk => simp only [rank]; omega
  | fbOk k e x hk _ _ => simp only [rank]; omega
  | fbErr k e e' hk _ _ => simp only [rank]; omega
  | noFb k e hk _ => simp only [rank]; omega

theorem rank_pos (c : Cfg) (pc : Pc) : 0 < rank c pc := by cases pc <;> simp [rank]

/-- **Every step of every schedule strictly decreases the measure** — so no run is infinite. -/
theorem measure_decreases {c : Cfg} {s s' : BState} {l : Label} (hI : Inv c s) (hL : LogInv c s) (t : Trans c s l s') :
    measure c s' < measure c s := by
  have hnd : (s.running.map (·.1)).Nodup := (List.nodup_append.1 hI.nodup).2.1
  cases t with
  | submit hn hc =>
    simp only [measure, List.length_append, List.length_singleton]
    have : c.n - s.next = (c.n - (s.next + 1)) + 1 := by omega
    rw [this]
    simp only [Nat.add_mul, Nat.one_mul]
    omega
  | take t q hq hi =>
    simp only [measure, hq, List.length_cons, runSum, List.map_append, List.sum_append, List.map_cons, List.map_nil,
      List.sum_cons, List.sum_nil, rank]
    simp only [Nat.add_mul, Nat.one_mul]
    omega
  | cancel hc => simp [measure, hc]
  | waitRet a b c' d => simp [measure, d]
  | advance i pc b evs pc' l hpc hm hl =>
    have hmem := pcOf_mem hpc
    have h1 := runSum_setPc c s.running i pc pc' hnd hmem
    have h2 := rank_micro hm (hL.running _ _ hmem)
    have h3 : (if (s.cancelled || b) = true then 0 else 1) ≤ (if s.cancelled = true then 0 else 1) := by
      cases s.cancelled <;> cases b <;> simp
    show (c.n - s.next) * (2 * c.budget + 6) + s.queue.length * (2 * c.budget + 5)
        + runSum c (s.running.map fun p => if p.1 = i then (i, pc') else p)
        + (if s.posted then 0 else 1) + (if (s.cancelled || b) = true then 0 else 1)
      < (c.n - s.next) * (2 * c.budget + 6) + s.queue.length * (2 * c.budget + 5) + runSum c s.running
        + (if s.posted then 0 else 1) + (if s.cancelled then 0 else 1)
    omega
  | finish i pc r b hpc hf =>
    have hmem := pcOf_mem hpc
    have h1 := runSum_filter c s.running i pc hnd hmem
    have h2 := rank_pos c pc
    show (c.n - s.next) * (2 * c.budget + 6) + s.queue.length * (2 * c.budget + 5)
        + runSum c (s.running.filter fun p => decide (p.1 ≠ i))
        + (if s.posted then 0 else 1) + (if s.cancelled then 0 else 1)
      < (c.n - s.next) * (2 * c.budget + 6) + s.queue.length * (2 * c.budget + 5) + runSum c s.running
        + (if s.posted then 0 else 1) + (if s.cancelled then 0 else 1)
    omega

/-- a run: a sequence of steps with their labels -/
inductive Run (c : Cfg) : BState → List Label → BState → Prop
  | nil (s) : Run c s [] s
  | cons {s t u l ls} : apply c s l = some t → Run c t ls u → Run c s (l :: ls) u

theorem Run.path {c : Cfg} {s s' : BState} {ls : List Label} (r : Run c s ls s') : Path c s s' := by
  induction r with
  | nil => exact .refl _
  | cons h _ ih => exact (Path.step (.refl _) ⟨_, h⟩).trans ih

/-- **Termination.** Whatever the schedule, a run from a reachable state has at most `measure` steps. -/
theorem run_bounded {c : Cfg} {s s' : BState} {ls : List Label} (hr : Reachable c s) (r : Run c s ls s') :
    ls.length + measure c s' ≤ measure c s := by
  induction r with
  | nil => simp
  | cons h _ ih =>
    have hr' := hr.step ⟨_, h⟩
    have := measure_decreases (inv_reachable hr) (logInv_reachable hr) (trans_of_apply h)
    have := ih hr'
    simp only [List.length_cons]
    omega

theorem pcOf_head {s : BState} {i : Nat} {pc : Pc} {t : List (Nat × Pc)} (h : s.running = (i, pc) :: t) :
    pcOf s i = some pc := by
  simp [pcOf, h]

/-- **No deadlock.** In every reachable state in which post has not run yet, some step other than a
    cancellation is enabled (the pool has at least one worker, the channel at least one place). -/
theorem progress {c : Cfg} {s : BState} (hr : Reachable c s) (hw : 0 < c.w) (hcap : 0 < c.cap) (hp : s.posted = false) :
    ∃ l, l ≠ .cancel ∧ (apply c s l).isSome = true := by
  have hI := inv_reachable hr
  cases hrun : s.running with
  | cons p t =>
    obtain ⟨i, pc⟩ := p
    have hpc := pcOf_head hrun
    cases pc with
    | inExec k =>
      refine ⟨.ret i, by simp, ?_⟩
      simp only [apply, hpc]
      cases (c.exec i k).res <;> simp
    | stopCheck =>
      refine ⟨.step i, by simp, ?_⟩
      simp only [apply, hpc]; split <;> simp
    | ctxCheck =>
      refine ⟨.step i, by simp, ?_⟩
      simp only [apply, hpc]; split <;> simp
    | store r fl => exact ⟨.step i, by simp, by simp [apply, hpc]⟩
    | loopTop k last =>
      refine ⟨.step i, by simp, ?_⟩
      simp only [apply, hpc]
      split
      · split
        · simp
        · cases c.execS <;> simp
      · cases last with
        | none => simp
        | some e =>
          simp only []
          cases c.fb <;> simp
          cases (c.fbOut i).res <;> simp
  | nil =>
    have hidle : s.idle = c.w := by have := hI.workers; simp [hrun] at this; exact this
    cases hq : s.queue with
    | cons t q => exact ⟨.take, by simp, by simp [apply, hq, hidle, hw]⟩
    | nil =>
      by_cases hn : s.next < c.n
      · exact ⟨.submit, by simp, by simp [apply, hn, hq, hcap]⟩
      · have : s.next = c.n := by have := hI.nextLe; omega
        exact ⟨.waitRet, by simp, by simp [apply, this, hq, hrun, hp]⟩

/-- … hence a run that cannot be continued (except, at most, by a cancellation) has called post. -/
theorem stuck_is_posted {c : Cfg} {s : BState} (hr : Reachable c s) (hw : 0 < c.w) (hcap : 0 < c.cap)
    (hstuck : ∀ l, l ≠ .cancel → apply c s l = none) : s.posted = true := by
  cases hp : s.posted with
  | true => rfl
  | false =>
    obtain ⟨l, hl, hs⟩ := progress hr hw hcap hp
    rw [hstuck l hl] at hs; simp at hs

/-- … and post is reachable from every reachable state: the batch never hangs. -/
theorem post_reachable {c : Cfg} {s : BState} (hr : Reachable c s) (hw : 0 < c.w) (hcap : 0 < c.cap) :
    ∃ s', Path c s s' ∧ s'.posted = true := by
  generalize hm : measure c s = m
  induction m using Nat.strongRecOn generalizing s with
  | _ m ih =>
    cases hp : s.posted with
    | true => exact ⟨s, .refl _, hp⟩
    | false =>
      obtain ⟨l, _, hs⟩ := progress hr hw hcap hp
      obtain ⟨t, ht⟩ := Option.isSome_iff_exists.1 hs
      have hd := measure_decreases (inv_reachable hr) (logInv_reachable hr) (trans_of_apply ht)
      obtain ⟨s', hp', hps⟩ := ih (measure c t) (by omega) (hr.step ⟨l, ht⟩) rfl
      exact ⟨s', (Path.step (.refl _) ⟨l, ht⟩).trans hp', hps⟩

/-! ### the gated simulation only visits reachable states -/

theorem quiesce_path (c : Cfg) (fuel : Nat) (s : BState) : Path c s (quiesce c fuel s) := by
  induction fuel generalizing s with
  | zero => exact .refl _
  | succ fuel ih =>
    unfold quiesce
    split
    · exact .refl _
    · split
      · rename_i s' h
        exact (Path.step (.refl _) ⟨_, h⟩).trans (ih s')
      · exact .refl _

theorem decide1_path {c : Cfg} {fuel : Nat} {s s' : BState} {d : Decision} (h : decide1 c fuel s d = some s') :
    Path c s s' := by
  cases d with
  | release i =>
    simp only [decide1, Option.map_eq_some_iff] at h
    obtain ⟨t, ht, rfl⟩ := h
    exact (Path.step (.refl _) ⟨_, ht⟩).trans (quiesce_path c fuel t)
  | cancel =>
    simp only [decide1, Option.map_eq_some_iff] at h
    obtain ⟨t, ht, rfl⟩ := h
    exact (Path.step (.refl _) ⟨_, ht⟩).trans (quiesce_path c fuel t)

theorem simulate_go_reachable {c : Cfg} {fuel : Nat} {s : BState} {ds : List Decision} {sts : List BState}
    (hr : Reachable c s) (h : simulate.go c fuel s ds = some sts) : ∀ x ∈ sts, Reachable c x := by
  induction ds generalizing s sts with
  | nil => simp [simulate.go] at h; subst h; simp
  | cons d rest ih =>
    simp only [simulate.go] at h
    split at h
    · simp at h
    · rename_i s' hd
      simp only [Option.map_eq_some_iff] at h
      obtain ⟨l, hl, rfl⟩ := h
      have hr' := hr.path (decide1_path hd)
      intro x hx
      rcases List.mem_cons.1 hx with rfl | hx
      · exact hr'
      · exact ih hr' hl x hx

/-- every quiescent state the correspondence driver looks at is a reachable state of the LTS, so every
    invariant proved for reachable states holds for it -/
theorem simulate_reachable {c : Cfg} {fuel : Nat} {ds : List Decision} {sts : List BState}
    (h : simulate c fuel ds = some sts) : ∀ x ∈ sts, Reachable c x := by
  simp only [simulate, Option.map_eq_some_iff] at h
  obtain ⟨l, hl, rfl⟩ := h
  have h0 : Reachable c (quiesce c fuel (init c)) := Reachable.init.path (quiesce_path c fuel _)
  intro x hx
  rcases List.mem_cons.1 hx with rfl | hx
  · exact h0
  · exact simulate_go_reachable h0 hl x hx

/-! ### when post runs -/

/-- when `Wait` returns every one of the `n` tasks has finished: every slot has been written -/
theorem all_slots_written {c : Cfg} {s : BState} (hr : Reachable c s) (hn : s.next = c.n) (hq : s.queue = [])
    (hrun : s.running = []) : ∀ i, i < c.n → ∃ r, s.slots[i]? = some (some r) := by
  intro i hi
  exact ((inv_reachable hr).slotIff i).2 ⟨by omega, by simp [hq], by simp [ids, hrun]⟩

theorem waitRet_inv {c : Cfg} {s s' : BState} (h : apply c s .waitRet = some s') :
    s.next = c.n ∧ s.queue = [] ∧ s.running = [] ∧ s.posted = false ∧
    s' = { s with posted := true, log := .post :: s.log } := by
  simp only [apply] at h
  split at h <;> simp at h
  rename_i hc
  exact ⟨hc.1, hc.2.1, hc.2.2.1, by simpa using hc.2.2.2, h.symm⟩

/-! ### `Origin` and the executable predicates of `Spec/Batch.lean` -/

theorem find_range_some {p : Nat → Bool} {n k : Nat} (hlt : ∀ j < k, p j = false) (hk : p k = true) (hkn : k < n) :
    (List.range n).find? p = some k := by
  induction n with
  | zero => omega
  | succ n ih =>
    rw [List.range_succ, List.find?_append]
    by_cases hkn' : k < n
    · simp [ih hkn']
    · have : k = n := by omega
      subst this
      have : (List.range k).find? p = none := by
        rw [List.find?_eq_none]; intro x hx; simp [hlt x (List.mem_range.1 hx)]
      simp [this, hk]

theorem find_range_none {p : Nat → Bool} {n : Nat} (hlt : ∀ j < n, p j = false) : (List.range n).find? p = none := by
  rw [List.find?_eq_none]; intro x hx; simp [hlt x (List.mem_range.1 hx)]

theorem okOf_isSome_false_of_err {o : Out Val} {e : Nat} (h : o.res = .error e) : (okOf o).isSome = false := by
  simp [okOf, h]

theorem lastAttempt_ok {c : Cfg} {i k : Nat} {x : Val} (hk : k < c.budget) (ha : AllErr c i k) (hx : (c.exec i k).res = .ok x) :
    lastAttempt c i = k := by
  unfold lastAttempt
  rw [find_range_some (p := fun k => (okOf (c.exec i k)).isSome) (k := k) ?_ (by simp [okOf, hx]) hk]
  intro j hj
  obtain ⟨e, he⟩ := ha j hj
  exact okOf_isSome_false_of_err he

theorem lastAttempt_allErr {c : Cfg} {i : Nat} (ha : AllErr c i c.budget) : lastAttempt c i = c.budget - 1 := by
  unfold lastAttempt
  rw [find_range_none (p := fun k => (okOf (c.exec i k)).isSome)]
  intro j hj
  obtain ⟨e, he⟩ := ha j hj
  exact okOf_isSome_false_of_err he

/-- the slot an item ends with when nothing is cancelled and nothing stops the batch: a function of the item's
    OWN script only — the first successful attempt's value, else the fallback's outcome, else the LAST error -/
def finalSlot (c : Cfg) (i : Nat) : Result :=
  match (c.exec i (lastAttempt c i)).res with
  | .ok x => slotOfVal (execRet c.execS x)
  | .error e =>
    match c.fb with
    | .custom => (match (c.fbOut i).res with
        | .ok x => slotOfVal x
        | .error e' => newErrorResult (.user e'))
    | _ => newErrorResult (.user e)

/-- the number of fallback calls the item's own script prescribes -/
def finalFbs (c : Cfg) (i : Nat) : Nat :=
  if (okOf (c.exec i (lastAttempt c i))).isNone ∧ c.fb = .custom then 1 else 0

/-- a result that owes nothing to cancellation or stopping is fully determined by the item's own script -/
theorem origin_uncancelled {c : Cfg} {h : List Obs} {i : Nat} {r : Result} (ho : Origin c false h i r)
    (hstop : c.stop = false) (hex : c.execS ≠ .absent) (hb : 0 < c.budget) :
    itemStarts h i = List.range (lastAttempt c i + 1) ∧ itemDones h i = List.range (lastAttempt c i + 1) ∧
    itemFbs h i = finalFbs c i ∧ r = finalSlot c i := by
  cases ho with
  | stopped a _ => simp [hstop] at a
  | cancelledBefore z _ => simp at z
  | ctxCut k z => simp at z
  | noExec a _ => exact a.elim (fun a => absurd a hex) (fun a => by omega)
  | ok k x hk h1 h2 ha hx hf =>
    have := lastAttempt_ok hk ha hx
    refine ⟨this ▸ h1, this ▸ h2, ?_, ?_⟩
    · simp [finalFbs, this, okOf, hx, hf]
    · simp [finalSlot, this, hx]
  | fbOk x hpos h1 h2 ha hfb hx hf =>
    have hl := lastAttempt_allErr ha
    obtain ⟨e, he⟩ := ha (c.budget - 1) (by omega)
    have : c.budget - 1 + 1 = c.budget := by omega
    refine ⟨by rw [hl, this]; exact h1, by rw [hl, this]; exact h2, ?_, ?_⟩
    · simp [finalFbs, hl, okOf, he, hfb, hf]
    · simp [finalSlot, hl, he, hfb, hx]
  | fbErr e' hpos h1 h2 ha hfb hx hf =>
    have hl := lastAttempt_allErr ha
    obtain ⟨e, he⟩ := ha (c.budget - 1) (by omega)
    have : c.budget - 1 + 1 = c.budget := by omega
    refine ⟨by rw [hl, this]; exact h1, by rw [hl, this]; exact h2, ?_, ?_⟩
    · simp [finalFbs, hl, okOf, he, hfb, hf]
    · simp [finalSlot, hl, he, hfb, hx]
  | lastError e hpos h1 h2 ha hfb he hf =>
    have hl := lastAttempt_allErr ha
    have : c.budget - 1 + 1 = c.budget := by omega
    refine ⟨by rw [hl, this]; exact h1, by rw [hl, this]; exact h2, ?_, ?_⟩
    · simp [finalFbs, hl, hfb, hf]
    · simp only [finalSlot, hl, he]

theorem getLast?_range_succ (k : Nat) : (List.range (k + 1)).getLast? = some k := by
  simp [List.range_succ]

/-- every justified slot passes the driver's per-slot check `Spec.slotMatches` (for nodes that have an exec
    function and a retry budget ≥ 1 — the domain of the properties) -/
theorem origin_slotMatches {c : Cfg} {cz : Bool} {h : List Obs} {i : Nat} {r : Result} (ho : Origin c cz h i r)
    (hex : c.execS ≠ .absent) (hb : 0 < c.budget) : slotMatches c h i r = true := by
  cases ho with
  | stopped _ hf => simp [slotMatches, expectedSlot, hf.1, hf.2.1, Result.isError, newErrorResult]
  | cancelledBefore _ hf => simp [slotMatches, expectedSlot, hf.1, hf.2.1, Result.isError, newErrorResult]
  | ctxCut k z hk h1 h2 ha hf =>
    cases k with
    | zero => simp [slotMatches, expectedSlot, h1, h2, Result.isError, newErrorResult]
    | succ k =>
      obtain ⟨e, he⟩ := ha k (by omega)
      simp [slotMatches, expectedSlot, h2, getLast?_range_succ, he, hk]
  | noExec a _ => exact a.elim (fun a => absurd a hex) (fun a => by omega)
  | ok k x hk h1 h2 ha hx hf => simp [slotMatches, expectedSlot, h2, getLast?_range_succ, hx]
  | fbOk x hpos h1 h2 ha hfb hx hf =>
    obtain ⟨k, hk⟩ : ∃ k, c.budget = k + 1 := ⟨c.budget - 1, by omega⟩
    obtain ⟨e, he⟩ := ha k (by omega)
    simp [slotMatches, expectedSlot, h2, hk, getLast?_range_succ, he, hfb, hx]
  | fbErr e' hpos h1 h2 ha hfb hx hf =>
    obtain ⟨k, hk⟩ : ∃ k, c.budget = k + 1 := ⟨c.budget - 1, by omega⟩
    obtain ⟨e, he⟩ := ha k (by omega)
    simp [slotMatches, expectedSlot, h2, hk, getLast?_range_succ, he, hfb, hx]
  | lastError e hpos h1 h2 ha hfb he hf =>
    obtain ⟨k, hk⟩ : ∃ k, c.budget = k + 1 := ⟨c.budget - 1, by omega⟩
    simp only [hk, Nat.add_sub_cancel] at he
    simp only [slotMatches, expectedSlot, h2, hk, getLast?_range_succ, he, Nat.lt_irrefl, if_false]
    cases hc : c.fb <;> simp_all

/-- every exec call of a finished item has returned -/
theorem origin_balanced {c : Cfg} {cz : Bool} {h : List Obs} {i : Nat} {r : Result} (ho : Origin c cz h i r) :
    (itemStarts h i).length = (itemDones h i).length := by
  cases ho with
  | stopped _ hf => rw [hf.1, hf.2.1]
  | cancelledBefore _ hf => rw [hf.1, hf.2.1]
  | ctxCut k z hk h1 h2 ha hf => rw [h1, h2]
  | noExec _ hf => rw [hf.1, hf.2.1]
  | ok k x hk h1 h2 ha hx hf => rw [h1, h2]
  | fbOk x hpos h1 h2 ha hfb hx hf => rw [h1, h2]
  | fbErr e' hpos h1 h2 ha hfb hx hf => rw [h1, h2]
  | lastError e hpos h1 h2 ha hfb he hf => rw [h1, h2]

/-- a slot whose item was never executed holds an error (never a success-looking value) -/
theorem origin_unexecuted_isError {c : Cfg} {cz : Bool} {h : List Obs} {i : Nat} {r : Result} (ho : Origin c cz h i r)
    (hex : c.execS ≠ .absent) (hb : 0 < c.budget) (hne : itemStarts h i = []) : r.isError = true := by
  cases ho with
  | stopped _ hf => rfl
  | cancelledBefore _ hf => rfl
  | ctxCut k z hk h1 h2 ha hf => rfl
  | noExec a _ => exact a.elim (fun a => absurd a hex) (fun a => by omega)
  | ok k x hk h1 h2 ha hx hf => rw [h1] at hne; simp [List.range_succ] at hne
  | fbOk x hpos h1 h2 ha hfb hx hf => rw [h1] at hne; simp at hne; omega
  | fbErr e' hpos h1 h2 ha hfb hx hf => rfl
  | lastError e hpos h1 h2 ha hfb he hf => rfl

theorem mem_itemDones {h : List Obs} {i k : Nat} : k ∈ itemDones h i ↔ .done i k ∈ h := by
  simp only [itemDones, List.mem_filterMap]
  constructor
  · rintro ⟨e, he, hk⟩
    cases e <;> simp at hk
    obtain ⟨rfl, rfl⟩ := hk; exact he
  · intro he; exact ⟨_, he, by simp⟩

theorem mem_itemStarts {h : List Obs} {i k : Nat} : k ∈ itemStarts h i ↔ .start i k ∈ h := by
  simp only [itemStarts, List.mem_filterMap]
  constructor
  · rintro ⟨e, he, hk⟩
    cases e <;> simp at hk
    obtain ⟨rfl, rfl⟩ := hk; exact he
  · intro he; exact ⟨_, he, by simp⟩

theorem itemFbs_pos {h : List Obs} {i : Nat} (hp : 0 < itemFbs h i) : .fb i ∈ h := by
  simp only [itemFbs, List.length_pos_iff_exists_mem, List.mem_filter] at hp
  obtain ⟨e, he, hk⟩ := hp
  cases e <;> simp at hk
  subst hk; exact he

/-- **A slot that does not hold an error holds a value the item's own execution returned**: either the value of
    an exec attempt of item `i` that ran (its `done` event is in the history) and succeeded, or the value its
    fallback returned after it was called. -/
theorem origin_success {c : Cfg} {cz : Bool} {h : List Obs} {i : Nat} {r : Result} (ho : Origin c cz h i r)
    (hex : c.execS ≠ .absent) (hb : 0 < c.budget) (hok : r.isError = false) :
    (∃ k x, .start i k ∈ h ∧ .done i k ∈ h ∧ (c.exec i k).res = .ok x ∧ r = slotOfVal (execRet c.execS x)) ∨
    (∃ x, .fb i ∈ h ∧ c.fb = .custom ∧ (c.fbOut i).res = .ok x ∧ r = slotOfVal x) := by
  cases ho with
  | stopped _ hf => simp [Result.isError, newErrorResult] at hok
  | cancelledBefore _ hf => simp [Result.isError, newErrorResult] at hok
  | ctxCut k z hk h1 h2 ha hf => simp [Result.isError, newErrorResult] at hok
  | noExec a _ => exact a.elim (fun a => absurd a hex) (fun a => by omega)
  | ok k x hk h1 h2 ha hx hf =>
    refine .inl ⟨k, x, mem_itemStarts.1 ?_, mem_itemDones.1 ?_, hx, rfl⟩
    · rw [h1]; simp
    · rw [h2]; simp
  | fbOk x hpos h1 h2 ha hfb hx hf => exact .inr ⟨x, itemFbs_pos (by omega), hfb, hx, rfl⟩
  | fbErr e' hpos h1 h2 ha hfb hx hf => simp [Result.isError, newErrorResult] at hok
  | lastError e hpos h1 h2 ha hfb he hf => simp [Result.isError, newErrorResult] at hok

/-! ### slots are written once, by their own task -/

/-- a step changes slot `j` only if it is the last step of task `j` itself -/
theorem slot_change {c : Cfg} {s s' : BState} {l : Label} {j : Nat} (t : Trans c s l s') (h : s'.slots[j]? ≠ s.slots[j]?) :
    l = .step j ∧ j ∈ ids s ∧ j ∉ ids s' := by
  cases t with
  | submit => exact absurd rfl h
  | take => exact absurd rfl h
  | cancel => exact absurd rfl h
  | waitRet => exact absurd rfl h
  | advance => exact absurd rfl h
  | finish i pc r b hpc hf =>
    simp only [finish_slots, getElem?_setSlot] at h
    split at h
    · rename_i hc
      obtain ⟨rfl, _⟩ := hc
      refine ⟨rfl, pcOf_ids hpc, ?_⟩
      rw [ids_finish]; simp
    · exact absurd rfl h

/-- a written slot is never rewritten -/
theorem slot_stable_trans {c : Cfg} {s s' : BState} {l : Label} {j : Nat} {r : Result} (hI : Inv c s) (t : Trans c s l s')
    (h : s.slots[j]? = some (some r)) : s'.slots[j]? = some (some r) := by
  by_cases hc : s'.slots[j]? = s.slots[j]?
  · rw [hc, h]
  · exact absurd (slot_change t hc).2.1 ((hI.slotIff j).1 ⟨r, h⟩).2.2

theorem slot_stable {c : Cfg} {s s' : BState} {j : Nat} {r : Result} (hr : Reachable c s) (hp : Path c s s')
    (h : s.slots[j]? = some (some r)) : s'.slots[j]? = some (some r) := by
  induction hp with
  | refl => exact h
  | step p hs ih =>
    obtain ⟨l, hl⟩ := hs
    exact slot_stable_trans (inv_reachable (hr.path p)) (trans_of_apply hl) ih

/-! ### the model's observation satisfies the driver's predicates -/

/-- the observation of a state, as the correspondence driver builds it (`Driver/BatchFam.lean`: `mSlots`,
    `mPosts`), with the LTS's own log as the event list -/
def viewOf (s : BState) (items : List Val) : BatchView :=
  { events := hist s, quiescent := [], items := items, slots := s.slots.map (·.getD zeroSlot),
    posts := if s.posted then 1 else 0, outOk := true }

theorem viewOf_slot {s : BState} {items : List Val} {i : Nat} {r : Result} (h : s.slots[i]? = some (some r)) :
    (viewOf s items).slots.getD i default = r := by
  simp [viewOf, List.getD_eq_getElem?_getD, List.getElem?_map, h]

/-- all slots of a reachable state that are written pass `slotMatches` -/
theorem reachable_slotMatches {c : Cfg} {s : BState} (hr : Reachable c s) (hex : c.execS ≠ .absent) (hb : 0 < c.budget)
    {i : Nat} {r : Result} (h : s.slots[i]? = some (some r)) : slotMatches c (hist s) i r = true :=
  origin_slotMatches ((logInv_reachable hr).slots i r h) hex hb

/-- **Bridge, C06.** In the state right after `Wait` returned and post ran, the executable predicate
    `Spec.c06` holds of the model's observation — for every schedule that led there. -/
theorem c06_viewOf {c : Cfg} {s s' : BState} (items : List Val) (hr : Reachable c s) (hex : c.execS ≠ .absent)
    (hb : 0 < c.budget) (hw : apply c s .waitRet = some s') : c06 c items (viewOf s' items) = true := by
  have hr' : Reachable c s' := hr.step ⟨_, hw⟩
  obtain ⟨hn, hq, hrun, hp, rfl⟩ := waitRet_inv hw
  have hall := all_slots_written hr hn hq hrun
  have hL := logInv_reachable hr'
  simp only [c06, Bool.and_eq_true, List.all_eq_true, List.mem_range, beq_iff_eq]
  refine ⟨⟨⟨⟨⟨?_, ?_⟩, ?_⟩, ?_⟩, ?_⟩, ?_⟩
  · simp [viewOf]
  · simp [viewOf]
  · simp [viewOf, (inv_reachable hr).slotsLen]
  · intro i hi
    obtain ⟨r, hr0⟩ := hall i hi
    have hs : ({ s with posted := true, log := Obs.post :: s.log } : BState).slots[i]? = some (some r) := hr0
    rw [viewOf_slot hs]
    exact origin_slotMatches (hL.slots i r hs) hex hb
  · simp [viewOf, hist]
  · intro i hi
    obtain ⟨r, hr0⟩ := hall i hi
    have hs : ({ s with posted := true, log := Obs.post :: s.log } : BState).slots[i]? = some (some r) := hr0
    exact origin_balanced (hL.slots i r hs)

end Flyt.Conc
