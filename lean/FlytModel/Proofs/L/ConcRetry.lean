import FlytModel.Spec.Batch
import FlytModel.Proofs.L.Attempts
/-!
# The retry loop of a batch item under EVERY schedule of the concurrent executor (helper lemmas for C02)

`Model/BatchConc.lean` is the labelled transition system of `runBatchConcurrent` on the worker pool:
every interleaving of submitter, workers, task steps, exec returns and cancellation is a path.  Here:
an invariant of all reachable states that pins, for every item `i`, the exec calls / returns / fallback
calls of `i` in the log to the program counter of task `i` — and what they are once the task is over.
-/
namespace Flyt.Proofs.ConcRetry
open Flyt Flyt.Conc Flyt.Spec

inductive Reachable (c : Cfg) : BState → Prop
  | init : Reachable c (init c)
  | step {s s' : BState} {l : Label} : Reachable c s → apply c s l = some s' → Reachable c s'

/-- `k-1, …, 1, 0`: the attempt numbers of an item in the log (which is newest first) -/
def down (k : Nat) : List Nat := (List.range k).reverse

theorem down_succ (k : Nat) : down (k + 1) = k :: down k := by
  simp [down, List.range_succ]

theorem down_zero : down 0 = [] := rfl

/-- attempts `0 … k-1` of item `i` fail according to its script -/
def Failed (c : Cfg) (i k : Nat) : Prop := ∀ j, j < k → ∃ e, (c.exec i j).res = .error e

/-- no call of item `i` has been made: exec calls entered, exec calls returned, fallback calls -/
def Fresh (st dn : List Nat) (fb : Nat) : Prop := st = [] ∧ dn = [] ∧ fb = 0

/-- The calls of an item whose task is over (`st` / `dn` = attempt numbers of the exec calls entered /
    returned, newest first; `fb` = number of fallback calls). -/
inductive Final (c : Cfg) (i : Nat) (st dn : List Nat) (fb : Nat) (cancelled : Bool) : Prop
  /-- never executed (stop mode, cancellation before the first attempt, no exec callback, budget 0) -/
  | never : Fresh st dn fb → Final c i st dn fb cancelled
  /-- attempts `0..k`, the last one succeeded, all before failed; no fallback -/
  | success {k y} : st = down (k + 1) → dn = down (k + 1) → fb = 0 → k < c.budget → Failed c i k →
      (c.exec i k).res = .ok y → Final c i st dn fb cancelled
  /-- attempts `0..k-1` all failed, then cut short by cancellation; no fallback -/
  | cut {k} : 0 < k → k < c.budget → st = down k → dn = down k → fb = 0 → Failed c i k → cancelled = true →
      Final c i st dn fb cancelled
  /-- all `budget` attempts made and failed; the fallback ran once iff the node has one -/
  | exhausted : st = down c.budget → dn = down c.budget → 0 < c.budget → Failed c i c.budget →
      fb = (if c.fb = .custom then 1 else 0) → Final c i st dn fb cancelled

/-- what the log says about item `i` while its task is at program counter `pc` -/
def TaskInv (c : Cfg) (i : Nat) (st dn : List Nat) (fb : Nat) (cancelled : Bool) : Pc → Prop
  | .stopCheck => Fresh st dn fb
  | .ctxCheck => Fresh st dn fb
  | .loopTop k last =>
      st = down k ∧ dn = down k ∧ fb = 0 ∧ k ≤ c.budget ∧ Failed c i k ∧ (c.execS = .absent → k = 0) ∧
      (match last with | none => k = 0 | some e => ∃ j, k = j + 1 ∧ (c.exec i j).res = .error e)
  | .inExec k => st = down (k + 1) ∧ dn = down k ∧ fb = 0 ∧ k < c.budget ∧ Failed c i k ∧ c.execS ≠ .absent
  | .store _ _ => Final c i st dn fb cancelled

theorem Final.mono {c : Cfg} {i : Nat} {st dn : List Nat} {fb : Nat} {b b' : Bool} (hb : b = true → b' = true)
    (h : Final c i st dn fb b) : Final c i st dn fb b' := by
  cases h with
  | never h => exact .never h
  | success h1 h2 h3 h4 h5 h6 => exact .success h1 h2 h3 h4 h5 h6
  | cut h1 h2 h3 h4 h5 h6 h7 => exact .cut h1 h2 h3 h4 h5 h6 (hb h7)
  | exhausted h1 h2 h3 h4 h5 => exact .exhausted h1 h2 h3 h4 h5

theorem TaskInv.mono {c : Cfg} {i : Nat} {st dn : List Nat} {fb : Nat} {b b' : Bool} (hb : b = true → b' = true)
    {pc : Pc} (h : TaskInv c i st dn fb b pc) : TaskInv c i st dn fb b' pc := by
  cases pc with
  | store r f => exact Final.mono hb h
  | _ => exact h

/-! ### program counters -/

def pcIn : List (Nat × Pc) → Nat → Option Pc
  | [], _ => none
  | p :: t, i => if p.1 = i then some p.2 else pcIn t i

theorem pcOf_eq (s : BState) (i : Nat) : pcOf s i = pcIn s.running i := by
  unfold pcOf
  generalize s.running = r
  induction r with
  | nil => rfl
  | cons p t ih =>
    by_cases h : p.1 = i
    · simp [List.find?, pcIn, h]
    · simp only [List.find?, pcIn, h, decide_false, if_false]
      exact ih

theorem pcIn_none {r : List (Nat × Pc)} {i : Nat} : pcIn r i = none ↔ i ∉ r.map (·.1) := by
  induction r with
  | nil => simp [pcIn]
  | cons p t ih =>
    by_cases h : p.1 = i
    · simp [pcIn, h]
    · simp only [pcIn, h, if_false, ih, List.map_cons, List.mem_cons, not_or]
      exact ⟨fun h1 => ⟨fun h2 => h h2.symm, h1⟩, fun h1 => h1.2⟩

theorem pcIn_some_mem {r : List (Nat × Pc)} {i : Nat} {pc : Pc} (h : pcIn r i = some pc) : (i, pc) ∈ r := by
  induction r with
  | nil => simp [pcIn] at h
  | cons p t ih =>
    by_cases hp : p.1 = i
    · simp only [pcIn, hp, if_true, Option.some.injEq] at h
      have : p = (i, pc) := by cases p; simp_all
      simp [this]
    · simp only [pcIn, hp, if_false] at h
      exact List.mem_cons_of_mem _ (ih h)

theorem pcIn_setPc (r : List (Nat × Pc)) (i j : Nat) (pc : Pc) :
    pcIn (r.map fun p => if p.1 = i then (i, pc) else p) j =
      if j = i then (pcIn r i).map (fun _ => pc) else pcIn r j := by
  induction r with
  | nil => simp [pcIn]
  | cons p t ih =>
    simp only [List.map_cons, pcIn]
    by_cases hp : p.1 = i
    · by_cases hji : j = i
      · subst hji; simp [hp]
      · have hij : ¬ i = j := fun h => hji h.symm
        have hpj : ¬ p.1 = j := fun h => hji (h.symm.trans hp)
        simp only [hp, if_true, hij, if_false, hji] at ih ⊢
        exact ih
    · by_cases hji : j = i
      · subst hji
        simp only [hp, if_false, if_true] at ih ⊢
        exact ih
      · simp only [hp, if_false, hji] at ih ⊢
        by_cases hpj : p.1 = j
        · simp [hpj]
        · simp only [hpj, if_false]; exact ih

theorem pcIn_filter (r : List (Nat × Pc)) (i j : Nat) :
    pcIn (r.filter (·.1 ≠ i)) j = if j = i then none else pcIn r j := by
  induction r with
  | nil => simp [pcIn]
  | cons p t ih =>
    by_cases hp : p.1 = i
    · simp only [List.filter, hp, ne_eq, not_true_eq_false, decide_false, pcIn]
      rw [ih]
      by_cases hji : j = i
      · simp [hji]
      · have hpj : ¬ i = j := fun h => hji h.symm
        simp [hji, hpj]
    · simp only [List.filter, hp, ne_eq, not_false_eq_true, decide_true, pcIn]
      by_cases hpj : p.1 = j
      · have hji : ¬ j = i := fun h => hp (hpj.trans h)
        simp [hpj, hji]
      · simp only [hpj, if_false]
        exact ih

theorem pcIn_append (r : List (Nat × Pc)) (t j : Nat) (pc : Pc) :
    pcIn (r ++ [(t, pc)]) j = match pcIn r j with | some x => some x | none => if t = j then some pc else none := by
  induction r with
  | nil => by_cases h : t = j <;> simp [pcIn, h]
  | cons p r ih =>
    by_cases hp : p.1 = j
    · simp [pcIn, hp]
    · simp only [List.cons_append, pcIn, hp, if_false]
      exact ih

/-! ### the log, item by item -/

theorem starts_start (j k : Nat) (l : List Obs) (i : Nat) :
    itemStarts (.start j k :: l) i = if j = i then k :: itemStarts l i else itemStarts l i := by
  simp only [itemStarts, List.filterMap_cons]; split <;> simp_all
theorem starts_done (j k : Nat) (l : List Obs) (i : Nat) : itemStarts (.done j k :: l) i = itemStarts l i := by
  simp [itemStarts]
theorem starts_fb (j : Nat) (l : List Obs) (i : Nat) : itemStarts (.fb j :: l) i = itemStarts l i := by
  simp [itemStarts]
theorem starts_cancel (l : List Obs) (i : Nat) : itemStarts (.cancel :: l) i = itemStarts l i := by
  simp [itemStarts]
theorem starts_post (l : List Obs) (i : Nat) : itemStarts (.post :: l) i = itemStarts l i := by
  simp [itemStarts]

theorem dones_done (j k : Nat) (l : List Obs) (i : Nat) :
    itemDones (.done j k :: l) i = if j = i then k :: itemDones l i else itemDones l i := by
  simp only [itemDones, List.filterMap_cons]; split <;> simp_all
theorem dones_start (j k : Nat) (l : List Obs) (i : Nat) : itemDones (.start j k :: l) i = itemDones l i := by
  simp [itemDones]
theorem dones_fb (j : Nat) (l : List Obs) (i : Nat) : itemDones (.fb j :: l) i = itemDones l i := by
  simp [itemDones]
theorem dones_cancel (l : List Obs) (i : Nat) : itemDones (.cancel :: l) i = itemDones l i := by
  simp [itemDones]
theorem dones_post (l : List Obs) (i : Nat) : itemDones (.post :: l) i = itemDones l i := by
  simp [itemDones]

theorem fbs_fb (j : Nat) (l : List Obs) (i : Nat) :
    itemFbs (.fb j :: l) i = if j = i then itemFbs l i + 1 else itemFbs l i := by
  simp only [itemFbs, List.filter_cons]; split <;> simp_all
theorem fbs_start (j k : Nat) (l : List Obs) (i : Nat) : itemFbs (.start j k :: l) i = itemFbs l i := by
  simp [itemFbs]
theorem fbs_done (j k : Nat) (l : List Obs) (i : Nat) : itemFbs (.done j k :: l) i = itemFbs l i := by
  simp [itemFbs]
theorem fbs_cancel (l : List Obs) (i : Nat) : itemFbs (.cancel :: l) i = itemFbs l i := by
  simp [itemFbs]
theorem fbs_post (l : List Obs) (i : Nat) : itemFbs (.post :: l) i = itemFbs l i := by
  simp [itemFbs]

/-! ### the invariant -/

def ItemInv (c : Cfg) (s : BState) (i : Nat) : Prop :=
  match pcIn s.running i with
  | some pc => TaskInv c i (itemStarts s.log i) (itemDones s.log i) (itemFbs s.log i) s.cancelled pc
  | none =>
    if i ∈ s.queue ∨ s.next ≤ i then Fresh (itemStarts s.log i) (itemDones s.log i) (itemFbs s.log i)
    else Final c i (itemStarts s.log i) (itemDones s.log i) (itemFbs s.log i) s.cancelled

structure Inv (c : Cfg) (s : BState) : Prop where
  qlt : ∀ t ∈ s.queue, t < s.next
  rlt : ∀ p ∈ s.running, p.1 < s.next
  nodup : (s.queue ++ s.running.map (·.1)).Nodup
  item : ∀ i, ItemInv c s i

theorem ItemInv.frame {c : Cfg} {s s' : BState} {j : Nat}
    (hpc : pcIn s'.running j = pcIn s.running j)
    (hq : (j ∈ s'.queue ∨ s'.next ≤ j) ↔ (j ∈ s.queue ∨ s.next ≤ j))
    (hst : itemStarts s'.log j = itemStarts s.log j) (hdn : itemDones s'.log j = itemDones s.log j)
    (hfb : itemFbs s'.log j = itemFbs s.log j) (hc : s.cancelled = true → s'.cancelled = true)
    (h : ItemInv c s j) : ItemInv c s' j := by
  unfold ItemInv at h ⊢
  rw [hpc, hst, hdn, hfb]
  cases hp : pcIn s.running j with
  | some pc => rw [hp] at h; exact TaskInv.mono hc h
  | none =>
    rw [hp] at h
    by_cases hcond : j ∈ s.queue ∨ s.next ≤ j
    · simp only [hcond, if_true] at h
      simp only [hq.mpr hcond, if_true]; exact h
    · simp only [hcond, if_false] at h
      have : ¬ (j ∈ s'.queue ∨ s'.next ≤ j) := fun h' => hcond (hq.mp h')
      simp only [this, if_false]; exact Final.mono hc h

/-- after the task of item `i` got a new program counter `pc'` (or none, when it is over) and the log /
    cancellation flag were updated, the invariant of item `i` is what `TaskInv` / `Final` say -/
theorem ItemInv.of_task {c : Cfg} {s' : BState} {i : Nat} {pc' : Pc} (hpc : pcIn s'.running i = some pc')
    (h : TaskInv c i (itemStarts s'.log i) (itemDones s'.log i) (itemFbs s'.log i) s'.cancelled pc') :
    ItemInv c s' i := by
  unfold ItemInv; rw [hpc]; exact h

theorem ItemInv.of_final {c : Cfg} {s' : BState} {i : Nat} (hpc : pcIn s'.running i = none)
    (h : Final c i (itemStarts s'.log i) (itemDones s'.log i) (itemFbs s'.log i) s'.cancelled ∧
      ((i ∈ s'.queue ∨ s'.next ≤ i) → Fresh (itemStarts s'.log i) (itemDones s'.log i) (itemFbs s'.log i))) :
    ItemInv c s' i := by
  unfold ItemInv; rw [hpc]
  by_cases hcond : i ∈ s'.queue ∨ s'.next ≤ i
  · simp only [hcond, if_true]; exact h.2 hcond
  · simp only [hcond, if_false]; exact h.1

theorem map_fst_setPc (r : List (Nat × Pc)) (i : Nat) (pc : Pc) :
    (r.map fun p => if p.1 = i then (i, pc) else p).map (·.1) = r.map (·.1) := by
  rw [List.map_map]
  apply List.map_congr_left
  intro p _
  simp only [Function.comp]
  split <;> simp_all

theorem inv_init (c : Cfg) : Inv c (init c) := by
  refine ⟨by simp [init], by simp [init], by simp [init], ?_⟩
  intro i
  simp [ItemInv, init, pcIn, Fresh, itemStarts, itemDones, itemFbs]

theorem inv_submit {c : Cfg} {s s' : BState} (inv : Inv c s) (h : apply c s .submit = some s') : Inv c s' := by
  simp only [apply] at h
  split at h <;> simp at h
  subst h
  refine ⟨?_, ?_, ?_, ?_⟩
  · intro t ht
    simp only [List.mem_append, List.mem_singleton] at ht
    rcases ht with ht | ht
    · have := inv.qlt t ht; simp only; omega
    · simp only; omega
  · intro p hp; have := inv.rlt p hp; simp only; omega
  · have h1 := inv.nodup
    have h2 : s.next ∉ s.queue := fun hm => Nat.lt_irrefl _ (inv.qlt _ hm)
    have h3 : s.next ∉ s.running.map (·.1) := by
      intro hm
      obtain ⟨p, hp, hpe⟩ := List.mem_map.mp hm
      have := inv.rlt p hp; omega
    simp only [List.nodup_append] at h1 ⊢
    grind
  · intro j
    refine ItemInv.frame (s := s) ?_ ?_ ?_ ?_ ?_ ?_ (inv.item j)
    case refine_1 => rfl
    case refine_3 => rfl
    case refine_4 => rfl
    case refine_5 => rfl
    case refine_6 => exact fun h => h
    simp only [List.mem_append, List.mem_singleton]
    constructor
    · rintro ((h | h) | h)
      · exact Or.inl h
      · exact Or.inr (by omega)
      · exact Or.inr (by omega)
    · rintro (h | h)
      · exact Or.inl (Or.inl h)
      · by_cases hj : j = s.next
        · exact Or.inl (Or.inr hj)
        · exact Or.inr (by omega)

theorem inv_take {c : Cfg} {s s' : BState} (inv : Inv c s) (h : apply c s .take = some s') : Inv c s' := by
  simp only [apply] at h
  split at h
  · simp at h
  · rename_i t q hq
    split at h <;> simp at h
    subst h
    have hnd := inv.nodup
    rw [hq] at hnd
    have htr : t ∉ s.running.map (·.1) := by
      simp only [List.nodup_append, List.nodup_cons] at hnd
      grind
    have htq : t ∉ q := by
      simp only [List.nodup_append, List.nodup_cons] at hnd
      grind
    refine ⟨?_, ?_, ?_, ?_⟩
    · intro x hx; exact inv.qlt x (by rw [hq]; exact List.mem_cons_of_mem _ hx)
    · intro p hp
      simp only [List.mem_append, List.mem_singleton] at hp
      rcases hp with hp | hp
      · exact inv.rlt p hp
      · subst hp; exact inv.qlt t (by rw [hq]; simp)
    · simp only [List.map_append, List.map_cons, List.map_nil]
      simp only [List.nodup_append, List.nodup_cons] at hnd ⊢
      grind
    · intro j
      by_cases hjt : j = t
      · subst hjt
        have hbefore := inv.item j
        unfold ItemInv at hbefore
        rw [pcIn_none.mpr htr] at hbefore
        have hcond : j ∈ s.queue ∨ s.next ≤ j := Or.inl (by rw [hq]; simp)
        simp only [hcond, if_true] at hbefore
        apply ItemInv.of_task (pc' := .stopCheck)
        · simp only [pcIn_append, pcIn_none.mpr htr, if_true]
        · exact hbefore
      · refine ItemInv.frame (s := s) ?_ ?_ ?_ ?_ ?_ ?_ (inv.item j)
        case refine_3 => rfl
        case refine_4 => rfl
        case refine_5 => rfl
        case refine_6 => exact fun h => h
        · simp only [pcIn_append]
          have : ¬ t = j := fun h => hjt h.symm
          cases pcIn s.running j <;> simp [this]
        · simp only [hq, List.mem_cons, hjt, false_or]

theorem inv_cancel {c : Cfg} {s s' : BState} (inv : Inv c s) (h : apply c s .cancel = some s') : Inv c s' := by
  simp only [apply] at h
  split at h <;> simp at h
  subst h
  refine ⟨inv.qlt, inv.rlt, inv.nodup, ?_⟩
  intro j
  refine ItemInv.frame (s := s) ?_ ?_ ?_ ?_ ?_ ?_ (inv.item j)
  · rfl
  · exact Iff.rfl
  · exact starts_cancel _ _
  · exact dones_cancel _ _
  · exact fbs_cancel _ _
  · exact fun _ => rfl

theorem inv_waitRet {c : Cfg} {s s' : BState} (inv : Inv c s) (h : apply c s .waitRet = some s') : Inv c s' := by
  simp only [apply] at h
  split at h <;> simp at h
  subst h
  refine ⟨inv.qlt, inv.rlt, inv.nodup, ?_⟩
  intro j
  refine ItemInv.frame (s := s) ?_ ?_ ?_ ?_ ?_ ?_ (inv.item j)
  · rfl
  · exact Iff.rfl
  · exact starts_post _ _
  · exact dones_post _ _
  · exact fbs_post _ _
  · exact fun h => h

/-- an event of item `i` (or none) put on the log does not change what the log says about `j ≠ i` -/
def LogLocal (l' l : List Obs) (i : Nat) : Prop :=
  l' = l ∨ (∃ k, l' = .start i k :: l) ∨ (∃ k, l' = .done i k :: l) ∨ l' = .fb i :: l

theorem LogLocal.other {l' l : List Obs} {i j : Nat} (h : LogLocal l' l i) (hji : j ≠ i) :
    itemStarts l' j = itemStarts l j ∧ itemDones l' j = itemDones l j ∧ itemFbs l' j = itemFbs l j := by
  have hij : ¬ i = j := fun h => hji h.symm
  rcases h with rfl | ⟨k, rfl⟩ | ⟨k, rfl⟩ | rfl
  · exact ⟨rfl, rfl, rfl⟩
  · exact ⟨by rw [starts_start, if_neg hij], dones_start _ _ _ _, fbs_start _ _ _ _⟩
  · exact ⟨starts_done _ _ _ _, by rw [dones_done, if_neg hij], fbs_done _ _ _ _⟩
  · exact ⟨starts_fb _ _ _, dones_fb _ _ _, by rw [fbs_fb, if_neg hij]⟩

/-- a step that only touches the task of item `i` preserves the invariant if it re-establishes item `i`'s -/
theorem inv_local {c : Cfg} {s s' : BState} {i : Nat} (inv : Inv c s)
    (hq : s'.queue = s.queue) (hn : s'.next = s.next)
    (hsub : (s'.running.map (·.1)).Sublist (s.running.map (·.1)))
    (hrun : ∀ j, j ≠ i → pcIn s'.running j = pcIn s.running j)
    (hlog : LogLocal s'.log s.log i) (hc : s.cancelled = true → s'.cancelled = true)
    (hi : ItemInv c s' i) : Inv c s' := by
  refine ⟨?_, ?_, ?_, ?_⟩
  · rw [hq, hn]; exact inv.qlt
  · intro p hp
    have h1 : p.1 ∈ s.running.map (·.1) := hsub.subset (List.mem_map.mpr ⟨p, hp, rfl⟩)
    obtain ⟨p', hp', he⟩ := List.mem_map.mp h1
    rw [hn, ← he]; exact inv.rlt p' hp'
  · rw [hq]
    exact inv.nodup.sublist ((List.Sublist.refl _).append hsub)
  · intro j
    by_cases hji : j = i
    · subst hji; exact hi
    · obtain ⟨h1, h2, h3⟩ := hlog.other hji
      exact ItemInv.frame (hrun j hji) (by rw [hq, hn]) h1 h2 h3 hc (inv.item j)

theorem sublist_setPc (r : List (Nat × Pc)) (i : Nat) (pc : Pc) :
    ((r.map fun p => if p.1 = i then (i, pc) else p).map (·.1)).Sublist (r.map (·.1)) := by
  rw [map_fst_setPc]; exact List.Sublist.refl _

theorem sublist_finish (r : List (Nat × Pc)) (i : Nat) :
    ((r.filter (·.1 ≠ i)).map (·.1)).Sublist (r.map (·.1)) :=
  (List.filter_sublist).map _

theorem failed_succ {c : Cfg} {i k e : Nat} (h : Failed c i k) (he : (c.exec i k).res = .error e) : Failed c i (k + 1) := by
  intro j hj
  by_cases hjk : j = k
  · subst hjk; exact ⟨e, he⟩
  · exact h j (by omega)

theorem inv_ret {c : Cfg} {s s' : BState} {i : Nat} (inv : Inv c s) (h : apply c s (.ret i) = some s') : Inv c s' := by
  simp only [apply] at h
  split at h
  · rename_i k hpc
    rw [pcOf_eq] at hpc
    have hitem := inv.item i
    unfold ItemInv at hitem
    rw [hpc] at hitem
    obtain ⟨h1, h2, h3, h4, h5, h6⟩ := hitem
    cases hres : (c.exec i k).res with
    | ok x =>
      simp only [hres, Option.some.injEq] at h
      subst h
      refine inv_local (i := i) inv rfl rfl (sublist_setPc _ _ _) ?_ (Or.inr (Or.inr (Or.inl ⟨k, rfl⟩))) ?_ ?_
      · intro j hji; simp only [setPc, pcIn_setPc, hji, if_false]
      · intro hc; simp [setPc, hc]
      · apply ItemInv.of_task (pc' := .store (slotOfVal (execRet c.execS x)) false)
        · simp only [setPc, pcIn_setPc, if_true, hpc, Option.map_some]
        · simp only [setPc, starts_done, dones_done, fbs_done, if_true]
          exact .success h1 (by rw [h2, down_succ]) h3 h4 h5 hres
    | error e =>
      simp only [hres, Option.some.injEq] at h
      subst h
      refine inv_local (i := i) inv rfl rfl (sublist_setPc _ _ _) ?_ (Or.inr (Or.inr (Or.inl ⟨k, rfl⟩))) ?_ ?_
      · intro j hji; simp only [setPc, pcIn_setPc, hji, if_false]
      · intro hc; simp [setPc, hc]
      · apply ItemInv.of_task (pc' := .loopTop (k + 1) (some e))
        · simp only [setPc, pcIn_setPc, if_true, hpc, Option.map_some]
        · simp only [setPc, starts_done, dones_done, fbs_done, if_true]
          exact ⟨h1, by rw [h2, down_succ], h3, by omega, failed_succ h5 hres, fun ha => absurd ha h6, k, rfl, hres⟩
  · simp at h

theorem inv_setPc {c : Cfg} {s s1 : BState} {i : Nat} {pc0 pc' : Pc} (inv : Inv c s)
    (hpc : pcIn s.running i = some pc0)
    (hr : s1.running = s.running) (hq : s1.queue = s.queue) (hn : s1.next = s.next)
    (hlog : LogLocal s1.log s.log i) (hc : s.cancelled = true → s1.cancelled = true)
    (ht : TaskInv c i (itemStarts s1.log i) (itemDones s1.log i) (itemFbs s1.log i) s1.cancelled pc') :
    Inv c (setPc s1 i pc') := by
  refine inv_local (i := i) inv hq hn ?_ ?_ hlog hc ?_
  · simp only [setPc, hr]; exact sublist_setPc _ _ _
  · intro j hji; simp only [setPc, hr, pcIn_setPc, hji, if_false]
  · apply ItemInv.of_task (pc' := pc')
    · simp only [setPc, hr, pcIn_setPc, if_true, hpc, Option.map_some]
    · exact ht

theorem inv_finish {c : Cfg} {s s1 : BState} {i : Nat} {pc0 : Pc} (inv : Inv c s)
    (hpc : pcIn s.running i = some pc0)
    (hr : s1.running = s.running) (hq : s1.queue = s.queue) (hn : s1.next = s.next)
    (hlog : s1.log = s.log) (hcan : s1.cancelled = s.cancelled)
    (hf : Final c i (itemStarts s.log i) (itemDones s.log i) (itemFbs s.log i) s.cancelled) :
    Inv c (finish s1 i) := by
  have hmem := pcIn_some_mem hpc
  have hlt : i < s.next := inv.rlt _ hmem
  have hnq : i ∉ s.queue := by
    have hnd := inv.nodup
    have : i ∈ s.running.map (·.1) := List.mem_map.mpr ⟨_, hmem, rfl⟩
    simp only [List.nodup_append] at hnd
    grind
  refine inv_local (i := i) inv hq hn ?_ ?_ (Or.inl hlog) (by intro h; simp only [finish, hcan, h]) ?_
  · simp only [finish, hr]; exact sublist_finish _ _
  · intro j hji; simp only [finish, hr, pcIn_filter, hji, if_false]
  · apply ItemInv.of_final
    · simp only [finish, hr, pcIn_filter, if_true]
    · simp only [finish, hlog, hcan, hq, hn]
      refine ⟨hf, ?_⟩
      rintro (h | h)
      · exact absurd h hnq
      · omega

theorem inv_step {c : Cfg} {s s' : BState} {i : Nat} (inv : Inv c s) (h : apply c s (.step i) = some s') : Inv c s' := by
  simp only [apply] at h
  have hitem := inv.item i
  unfold ItemInv at hitem
  split at h
  · -- stopCheck
    rename_i hpc
    rw [pcOf_eq] at hpc
    rw [hpc] at hitem
    split at h <;> simp only [Option.some.injEq] at h <;> subst h
    · exact inv_finish inv hpc rfl rfl rfl rfl rfl (.never hitem)
    · exact inv_setPc inv hpc rfl rfl rfl (Or.inl rfl) (fun h => h) hitem
  · -- ctxCheck
    rename_i hpc
    rw [pcOf_eq] at hpc
    rw [hpc] at hitem
    split at h <;> simp only [Option.some.injEq] at h <;> subst h
    · exact inv_finish inv hpc rfl rfl rfl rfl rfl (.never hitem)
    · refine inv_setPc inv hpc rfl rfl rfl (Or.inl rfl) (fun h => h) ?_
      obtain ⟨h1, h2, h3⟩ := hitem
      exact ⟨by rw [h1]; rfl, by rw [h2]; rfl, h3, Nat.zero_le _, fun j hj => absurd hj (Nat.not_lt_zero _), fun _ => rfl, rfl⟩
  · -- loopTop k last
    rename_i k last hpc
    rw [pcOf_eq] at hpc
    rw [hpc] at hitem
    obtain ⟨h1, h2, h3, h4, h5, h6, h7⟩ := hitem
    split at h
    · -- k < budget
      rename_i hk
      split at h
      · -- cancelled: store the context's error
        rename_i hcan
        simp only [Option.some.injEq] at h; subst h
        refine inv_setPc inv hpc rfl rfl rfl (Or.inl rfl) (fun h => h) ?_
        by_cases hk0 : k = 0
        · subst hk0; exact .never ⟨h1, h2, h3⟩
        · exact .cut (by omega) hk h1 h2 h3 h5 hcan
      · split at h
        · -- no exec callback
          rename_i habs
          simp only [Option.some.injEq] at h; subst h
          refine inv_setPc inv hpc rfl rfl rfl (Or.inl rfl) (fun h => h) ?_
          have hk0 := h6 habs
          subst hk0; exact .never ⟨h1, h2, h3⟩
        · -- enter the exec callback
          rename_i hne
          simp only [Option.some.injEq] at h; subst h
          refine inv_setPc (s1 := { s with log := .start i k :: s.log }) inv hpc rfl rfl rfl
            (Or.inr (Or.inl ⟨k, rfl⟩)) (fun h => h) ?_
          simp only [starts_start, dones_start, fbs_start, if_true]
          refine ⟨by rw [h1, down_succ], h2, h3, hk, h5, ?_⟩
          intro habs; exact hne habs
    · -- budget used up
      rename_i hk
      have hkb : k = c.budget := by omega
      split at h
      · -- `execErr == nil`: budget 0
        simp only [Option.some.injEq] at h; subst h
        refine inv_setPc inv hpc rfl rfl rfl (Or.inl rfl) (fun h => h) ?_
        have hk0 : k = 0 := h7
        subst hk0; exact .never ⟨h1, h2, h3⟩
      · rename_i e
        obtain ⟨j, hj, hje⟩ := h7
        have hpos : 0 < c.budget := by omega
        split at h
        · -- user fallback
          rename_i hcust
          split at h <;> simp only [Option.some.injEq] at h <;> subst h
          all_goals
            refine inv_setPc (s1 := { s with cancelled := s.cancelled || (c.fbOut i).cancels, log := .fb i :: s.log })
              inv hpc rfl rfl rfl (Or.inr (Or.inr (Or.inr rfl))) (by intro hc; simp [hc]) ?_
            simp only [starts_fb, dones_fb, fbs_fb, if_true]
            exact .exhausted (by rw [h1, hkb]) (by rw [h2, hkb]) hpos (by rw [← hkb]; exact h5) (by simp [hcust, h3])
        · -- no user fallback
          rename_i hncust
          simp only [Option.some.injEq] at h; subst h
          refine inv_setPc inv hpc rfl rfl rfl (Or.inl rfl) (fun h => h) ?_
          refine .exhausted (by rw [h1, hkb]) (by rw [h2, hkb]) hpos (by rw [← hkb]; exact h5) ?_
          have : ¬ c.fb = .custom := fun hc => hncust hc
          simp [this, h3]
  · -- store
    rename_i r fl hpc
    rw [pcOf_eq] at hpc
    rw [hpc] at hitem
    simp only [Option.some.injEq] at h; subst h
    exact inv_finish inv hpc rfl rfl rfl rfl rfl hitem
  · simp at h

theorem inv_reachable {c : Cfg} {s : BState} (h : Reachable c s) : Inv c s := by
  induction h with
  | init => exact inv_init c
  | @step s s' l _ hs ih =>
    cases l with
    | submit => exact inv_submit ih hs
    | take => exact inv_take ih hs
    | step i => exact inv_step ih hs
    | ret i => exact inv_ret ih hs
    | cancel => exact inv_cancel ih hs
    | waitRet => exact inv_waitRet ih hs

/-! ### what the invariant says about the observable log (oldest first) -/
open Flyt.Proofs.Attempts (FirstOk AllFail)

theorem starts_reverse (l : List Obs) (i : Nat) : itemStarts l.reverse i = (itemStarts l i).reverse := by
  simp [itemStarts, List.filterMap_reverse]
theorem fbs_reverse (l : List Obs) (i : Nat) : itemFbs l.reverse i = itemFbs l i := by
  simp [itemFbs, List.filter_reverse]
theorem down_reverse (m : Nat) : (down m).reverse = List.range m := by simp [down]

/-- a summary every case of the invariant implies -/
structure Bounded (c : Cfg) (i : Nat) (st : List Nat) (fb m : Nat) : Prop where
  starts : st = down m
  le : m ≤ c.budget
  failedBefore : ∀ j, j + 1 < m → ∃ e, (c.exec i j).res = .error e
  fbLe : fb ≤ 1
  fbOnly : fb = 1 → c.fb = .custom ∧ m = c.budget ∧ AllFail (c.exec i) c.budget

theorem Final.bounded {c : Cfg} {i : Nat} {st dn : List Nat} {fb : Nat} {b : Bool} (h : Final c i st dn fb b) :
    ∃ m, Bounded c i st fb m := by
  cases h with
  | never h => exact ⟨0, h.1, Nat.zero_le _, fun j hj => absurd hj (Nat.not_lt_zero _), by rw [h.2.2]; omega,
      by rw [h.2.2]; omega⟩
  | @success k y h1 h2 h3 h4 h5 h6 =>
    exact ⟨k + 1, h1, by omega, fun j hj => h5 j (by omega), by omega, by omega⟩
  | @cut k h1 h2 h3 h4 h5 h6 h7 =>
    exact ⟨k, h3, by omega, fun j hj => h6 j (by omega), by omega, by omega⟩
  | exhausted h1 h2 h3 h4 h5 =>
    refine ⟨c.budget, h1, Nat.le_refl _, fun j hj => h4 j (by omega), ?_, ?_⟩
    · rw [h5]; split <;> omega
    · intro hfb
      rw [h5] at hfb
      split at hfb
      · rename_i hc; exact ⟨hc, rfl, h4⟩
      · omega

theorem ItemInv.bounded {c : Cfg} {s : BState} {i : Nat} (h : ItemInv c s i) :
    ∃ m, Bounded c i (itemStarts s.log i) (itemFbs s.log i) m := by
  unfold ItemInv at h
  have fresh : Fresh (itemStarts s.log i) (itemDones s.log i) (itemFbs s.log i) →
      ∃ m, Bounded c i (itemStarts s.log i) (itemFbs s.log i) m := fun hf => (Final.never (cancelled := false) hf).bounded
  split at h
  · rename_i pc _
    cases pc with
    | stopCheck => exact fresh h
    | ctxCheck => exact fresh h
    | loopTop k last =>
      obtain ⟨h1, h2, h3, h4, h5, h6, h7⟩ := h
      exact ⟨k, h1, h4, fun j hj => h5 j (by omega), by omega, by omega⟩
    | inExec k =>
      obtain ⟨h1, h2, h3, h4, h5, h6⟩ := h
      exact ⟨k + 1, h1, by omega, fun j hj => h5 j (by omega), by omega, by omega⟩
    | store r f => exact Final.bounded h
  · split at h
    · exact fresh h
    · exact Final.bounded h

/-- **C02 for the concurrent executor, every schedule, every moment**: the exec calls of item `i` seen
    so far are attempts `0, 1, …, m-1` in order, `m ≤ budget`, all of them but the last one failed (so
    never an attempt after a success), the fallback ran at most once and only after all `budget`
    attempts failed. -/
theorem reachable_bounded {c : Cfg} {s : BState} (h : Reachable c s) (i : Nat) :
    ∃ m, itemStarts s.log.reverse i = List.range m ∧ m ≤ c.budget ∧
      (∀ j, j + 1 < m → ∃ e, (c.exec i j).res = .error e) ∧
      (∀ k, FirstOk (c.exec i) k → m ≤ min (k + 1) c.budget) ∧
      itemFbs s.log.reverse i ≤ 1 ∧
      (itemFbs s.log.reverse i = 1 → c.fb = .custom ∧ m = c.budget ∧ AllFail (c.exec i) c.budget) := by
  obtain ⟨m, hb⟩ := ((inv_reachable h).item i).bounded
  refine ⟨m, by rw [starts_reverse, hb.starts, down_reverse], hb.le, hb.failedBefore, ?_, by rw [fbs_reverse]; exact hb.fbLe,
    by rw [fbs_reverse]; exact hb.fbOnly⟩
  intro k hk
  have := hb.le
  by_cases hm : k + 1 < m
  · obtain ⟨e, he⟩ := hb.failedBefore k hm
    obtain ⟨⟨y, hy⟩, _⟩ := hk
    rw [hy] at he; cases he
  · omega

/-- the task of item `i` is over: it was handed to the pool, is not queued and not held by a worker -/
def TaskOver (s : BState) (i : Nat) : Prop := i < s.next ∧ i ∉ s.queue ∧ pcOf s i = none

/-- **… and exactly `min (k+1) budget` attempts once the item's task is over**, unless the item was never
    executed (stop mode) or the run was cancelled: then attempts `0 … min(k+1, N)-1` were made, and the
    fallback ran exactly once iff all `N` failed and the node has one. -/
theorem reachable_exact {c : Cfg} {s : BState} (h : Reachable c s) (hnc : s.cancelled = false) (i : Nat)
    (hover : TaskOver s i) :
    itemStarts s.log.reverse i = [] ∨
    ((∀ k, FirstOk (c.exec i) k → itemStarts s.log.reverse i = List.range (min (k + 1) c.budget)) ∧
     (∀ k, FirstOk (c.exec i) k → k < c.budget → itemFbs s.log.reverse i = 0) ∧
     (AllFail (c.exec i) c.budget → itemStarts s.log.reverse i = List.range c.budget ∧
        itemFbs s.log.reverse i = (if c.fb = .custom then 1 else 0))) := by
  have hitem := (inv_reachable h).item i
  unfold ItemInv at hitem
  obtain ⟨h1, h2, h3⟩ := hover
  rw [pcOf_eq] at h3
  rw [h3] at hitem
  have hcond : ¬ (i ∈ s.queue ∨ s.next ≤ i) := by
    rintro (h | h)
    · exact h2 h
    · omega
  simp only [hcond, if_false] at hitem
  rw [starts_reverse, fbs_reverse]
  cases hitem with
  | never hf => left; rw [hf.1]; rfl
  | @success k y e1 e2 e3 e4 e5 e6 =>
    right
    rw [e1, down_reverse, e3]
    refine ⟨?_, fun _ _ _ => rfl, ?_⟩
    · intro k' hk'
      obtain ⟨⟨y', hy'⟩, hbefore⟩ := hk'
      have : k' = k := by
        rcases Nat.lt_trichotomy k' k with hlt | heq | hgt
        · obtain ⟨e, he⟩ := e5 k' hlt; rw [hy'] at he; cases he
        · exact heq
        · obtain ⟨e, he⟩ := hbefore k hgt; rw [e6] at he; cases he
      subst this
      congr 1; omega
    · intro hall
      obtain ⟨e, he⟩ := hall k e4; rw [e6] at he; cases he
  | cut _ _ _ _ _ _ hc => rw [hnc] at hc; cases hc
  | exhausted e1 e2 e3 e4 e5 =>
    right
    rw [e1, down_reverse, e5]
    have hge : ∀ k', FirstOk (c.exec i) k' → ¬ k' < c.budget := by
      intro k' hk' hlt
      obtain ⟨⟨y', hy'⟩, _⟩ := hk'
      obtain ⟨e, he⟩ := e4 k' hlt; rw [hy'] at he; cases he
    refine ⟨?_, fun k' hk' hlt => absurd hlt (hge k' hk'), fun _ => ⟨rfl, rfl⟩⟩
    intro k' hk'
    have := hge k' hk'
    congr 1; omega

end Flyt.Proofs.ConcRetry
