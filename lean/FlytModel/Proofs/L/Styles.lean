import FlytModel.Proofs.L.Payload
import FlytModel.Proofs.L.Item
/-!
# Any mix of Result-style / Any-style functions observes the same payloads (helper lemmas for C17)

A *base script* says which payloads the user functions return (`LeafScript` read with every style
`.direct`).  `encScript cfg b` is the same behaviour written in the styles of `cfg` (a Result-style
function returns `NewResult(x)` where the base script says `x`); `decEv cfg` reads the payload a user
function observes out of its argument (`Value()` for Result-style).  `run_flat`: the run of any style
mix, decoded, IS the run of the plain method-style node (`flatCfg`) on the base script — same events,
same payloads at every callback, same context, same outcome.
-/
namespace Flyt.Proofs.Styles
open Flyt Flyt.Spec Flyt.Proofs.Attempts Flyt.Proofs.Leaf Flyt.Proofs.Payload

/-- how a function of style `s` returns the payload `x` -/
def enc (s : Style) (x : Val) : Val := match s with | .res => (newResult x).box | _ => x
/-- the payload a function of style `s` observes in its argument `a` -/
def dec (s : Style) (a : Val) : Val := match s with | .res => (toResult a).valueOf | _ => a

def encOut (s : Style) (o : Out Val) : Out Val := { res := o.res.map (enc s), cancels := o.cancels, junk := o.junk }

def encScript (cfg : LeafCfg) (b : LeafScript) : LeafScript :=
  { prep := encOut cfg.prepS b.prep, exec := fun k => encOut cfg.execS (b.exec k), waitCancel := b.waitCancel,
    fb := b.fb, post := b.post }

def decEv (cfg : LeafCfg) : Ev → Ev
  | .exec n v k a => .exec n v k (dec cfg.execS a)
  | .post n v s a b => .post n v s (dec cfg.postS a) (dec cfg.postS b)
  | e => e

/-- the method-style counterpart of a style: provided ↦ `.direct`, not provided stays not provided -/
def flat (s : Style) : Style := match s with | .absent => .absent | _ => .direct
def flatCfg (cfg : LeafCfg) : LeafCfg :=
  { cfg with prepS := flat cfg.prepS, execS := flat cfg.execS, postS := flat cfg.postS }

/-- the payloads of a base script are not themselves `flyt.Result`s -/
structure PlainScript (b : LeafScript) : Prop where
  prep : ∀ x, b.prep.res = .ok x → Plain x
  exec : ∀ k x, (b.exec k).res = .ok x → Plain x
  fb : ∀ x, b.fb.res = .ok x → Plain x

theorem flat_absent (s : Style) : flat s = .absent ↔ s = .absent := by cases s <;> simp [flat]

theorem prepRet_enc (s : Style) (x : Val) : prepRet s (enc s x) = x := by
  cases s <;> simp [prepRet, enc, toResult_box, valueOf_newResult]
theorem prepRet_flat (s : Style) (x : Val) : prepRet (flat s) x = x := by cases s <;> rfl
theorem execRet_enc (s : Style) (x : Val) : execRet s (enc s x) = x := by
  cases s <;> simp [execRet, enc, toResult_box, valueOf_newResult, isError_newResult]
theorem execRet_flat (s : Style) (x : Val) : execRet (flat s) x = x := by cases s <;> rfl
theorem execArg_flat (s : Style) (p : Val) : execArg (flat s) p = p := by cases s <;> rfl
theorem dec_execArg (s : Style) {p : Val} (h : Plain p) : dec s (execArg s p) = p := by
  rw [execArg_plain h]
  cases s <;> simp [dec, toResult_box, valueOf_newResult]
theorem postArgs_flat (s : Style) (pv ev : Val) : postArgs (flat s) pv ev = (pv, ev) := by cases s <;> rfl
theorem dec_postArgs (s : Style) (pv : Val) {ev : Val} (h : Plain ev) :
    dec s (postArgs s pv ev).1 = pv ∧ dec s (postArgs s pv ev).2 = ev := by
  cases s <;> simp [dec, postArgs, wrap_plain h, toResult_box, valueOf_newResult]

/-- two retry loops whose scripts agree after the exec adapter do the same thing, event for event -/
theorem attempts_map (kind : CtxKind) (g : Ev → Ev) {mkExec mkExec' : Nat → Ev} {mkWait mkWait' : Nat → Bool → Ev}
    (hE : ∀ k, g (mkExec k) = mkExec' k) (hW : ∀ k f, g (mkWait k f) = mkWait' k f)
    {exec exec' : Nat → Out Val} {s s' : Style} (hS : s = .absent ↔ s' = .absent)
    (hc : ∀ k, (exec k).cancels = (exec' k).cancels)
    (hr : ∀ k, (exec k).res.map (execRet s) = (exec' k).res.map (execRet s'))
    (wc : Nat → Bool) (wait : Nat) :
    ∀ (rem k : Nat) (last : Option Nat) (ctx : Ctx),
      (attempts kind mkExec mkWait exec wc s wait k rem last ctx).1.map g =
        (attempts kind mkExec' mkWait' exec' wc s' wait k rem last ctx).1 ∧
      (attempts kind mkExec mkWait exec wc s wait k rem last ctx).2 =
        (attempts kind mkExec' mkWait' exec' wc s' wait k rem last ctx).2 := by
  intro rem
  induction rem with
  | zero => intro k last ctx; simp [attempts]
  | succ rem ih =>
    intro k last ctx
    cases ctx with
    | done kd => simp [attempts]
    | live =>
      have hwev : (wev mkWait wait k).map g = wev mkWait' wait k := by
        unfold wev; split <;> simp [hW]
      by_cases hs : s = .absent
      · have hs' := hS.mp hs
        subst hs hs'
        by_cases hcond : k > 0 ∧ wait > 0 ∧ wc k = true
        · simp [attempts, hcond, hW]
        · unfold wev at hwev
          simp [attempts, hcond, hwev]
      · have hs' : s' ≠ .absent := fun h => hs (hS.mpr h)
        rw [attempts_live_succ kind mkExec mkWait exec wc s wait hs,
          attempts_live_succ kind mkExec' mkWait' exec' wc s' wait hs']
        by_cases hcond : k > 0 ∧ wait > 0 ∧ wc k = true
        · rw [if_pos hcond, if_pos hcond]; simp [hW]
        · rw [if_neg hcond, if_neg hcond]
          have hrk := hr k
          cases h1 : (exec k).res with
          | ok x =>
            cases h2 : (exec' k).res with
            | ok x' =>
              rw [h1, h2] at hrk
              simp only [Except.map, Except.ok.injEq] at hrk
              simp [hwev, hE, hc k, hrk]
            | error e' => rw [h1, h2] at hrk; simp [Except.map] at hrk
          | error e =>
            cases h2 : (exec' k).res with
            | ok x' => rw [h1, h2] at hrk; simp [Except.map] at hrk
            | error e' =>
              rw [h1, h2] at hrk
              simp only [Except.map, Except.error.injEq] at hrk
              subst hrk
              obtain ⟨ih1, ih2⟩ := ih (k + 1) (some e) (Ctx.live.after kind (exec' k).cancels)
              simp only [hc k]
              refine ⟨?_, ?_⟩
              · simp only [List.map_append, hwev, List.map_cons, List.map_nil, hE, ih1]
              · exact ih2

section run
variable (kind : CtxKind) (n v sid : Nat) (cfg : LeafCfg) (b : LeafScript)

theorem decEv_prep : (decEv cfg) (.prep n v sid) = .prep n v sid := rfl

/-- the exec phase's value is a plain payload (method-style node, plain base script) -/
theorem flat_phase_plain (hb : PlainScript b) (pv : Val) (ev : Val)
    (h : (execPhase kind (leafExec n v (execArg (flat cfg.execS) pv)) (leafWait n v cfg.effWait) (leafFb n v pv)
      b.exec b.waitCancel (flat cfg.execS) cfg.effWait cfg.effBudget cfg.fb b.fb .live).2.2 = .ok ev) : Plain ev := by
  obtain ⟨loop, fbs, m, spec⟩ := execPhase_spec kind (leafExec n v (execArg (flat cfg.execS) pv))
    (leafWait n v cfg.effWait) (leafFb n v pv) b.exec b.waitCancel (flat cfg.execS) cfg.effWait cfg.effBudget
    cfg.fb b.fb (leaf_mk _ _ _ _)
  have hend := spec.ending
  rw [h] at hend
  generalize hr : Except.ok ev = res at hend
  cases hend with
  | noExec => cases hr; rfl
  | @success j y _ _ hy => cases hr; rw [execRet_flat]; exact hb.exec j y hy
  | cancelled => cases hr
  | exhausted => cases hr
  | @fbOk j e x _ _ _ hx => cases hr; exact hb.fb _ hx
  | fbErr => cases hr

theorem afterPrep_flat (hb : PlainScript b) (pev : List Ev) (hpev : pev.map (decEv cfg) = pev) (pv : Val) (hpv : Plain pv) :
    (afterPrep kind n v sid cfg (encScript cfg b) pev pv).1.map (decEv cfg) =
      (afterPrep kind n v sid (flatCfg cfg) b pev pv).1 ∧
    (afterPrep kind n v sid cfg (encScript cfg b) pev pv).2 = (afterPrep kind n v sid (flatCfg cfg) b pev pv).2 := by
  have hatt := attempts_map kind (decEv cfg)
    (mkExec := leafExec n v (execArg cfg.execS pv)) (mkExec' := leafExec n v (execArg (flat cfg.execS) pv))
    (mkWait := leafWait n v cfg.effWait) (mkWait' := leafWait n v cfg.effWait)
    (exec := (encScript cfg b).exec) (exec' := b.exec) (s := cfg.execS) (s' := flat cfg.execS)
    (by intro k; simp only [leafExec, decEv, dec_execArg _ hpv, execArg_flat])
    (by intro k f; rfl) (flat_absent cfg.execS).symm (by intro k; rfl)
    (by
      intro k
      simp only [encScript, encOut]
      cases (b.exec k).res with
      | error e => rfl
      | ok x => simp [Except.map, execRet_enc, execRet_flat])
    b.waitCancel cfg.effWait cfg.effBudget 0 none .live
  have hplain := flat_phase_plain kind n v cfg b hb pv
  unfold afterPrep at hplain ⊢
  unfold execPhase at hplain ⊢
  have hw : (flatCfg cfg).effWait = cfg.effWait := rfl
  have hbud : (flatCfg cfg).effBudget = cfg.effBudget := rfl
  have hfbk : (flatCfg cfg).fb = cfg.fb := rfl
  have hex : (flatCfg cfg).execS = flat cfg.execS := rfl
  have hps : (flatCfg cfg).postS = flat cfg.postS := rfl
  have hsfb : (encScript cfg b).fb = b.fb := rfl
  have hswc : (encScript cfg b).waitCancel = b.waitCancel := rfl
  have hspost : (encScript cfg b).post = b.post := rfl
  simp only [hw, hbud, hfbk, hex, hps, hsfb, hswc, hspost] at hplain ⊢
  obtain ⟨ha1, ha2⟩ := hatt
  generalize attempts kind (leafExec n v (execArg cfg.execS pv)) (leafWait n v cfg.effWait)
    (encScript cfg b).exec b.waitCancel cfg.execS cfg.effWait 0 cfg.effBudget none .live = A at ha1 ha2
  generalize attempts kind (leafExec n v (execArg (flat cfg.execS) pv)) (leafWait n v cfg.effWait)
    b.exec b.waitCancel (flat cfg.execS) cfg.effWait 0 cfg.effBudget none .live = A' at ha1 ha2 hplain
  obtain ⟨aev, actx, ares⟩ := A
  obtain ⟨aev', actx', ares'⟩ := A'
  simp only [Prod.mk.injEq] at ha2
  obtain ⟨hctx, hres⟩ := ha2
  simp only at ha1
  subst hctx hres
  generalize hF : fallbackPhase kind cfg.fb (leafFb n v pv) b.fb actx ares = F at hplain ⊢
  obtain ⟨fev, fctx, fres⟩ := F
  have hfev : fev.map (decEv cfg) = fev := by
    cases ares <;> cases hfb : cfg.fb <;> cases hfr : b.fb.res <;>
      simp [fallbackPhase, hfb, hfr] at hF <;> (obtain ⟨h1, _, _⟩ := hF; subst h1; simp [decEv, leafFb])
  simp only at hplain ⊢
  cases fres with
  | error e => simp [List.map_append, hpev, ha1, hfev]
  | ok ev =>
    have hev : Plain ev := hplain ev rfl
    cases hps' : cfg.postS with
    | absent => simp [flat, List.map_append, hpev, ha1, hfev]
    | direct =>
      cases b.post.res <;> simp [flat, List.map_append, hpev, ha1, hfev, decEv, hps', dec, postArgs]
    | res =>
      have hd := dec_postArgs .res pv hev
      cases b.post.res <;> simp [flat, List.map_append, hpev, ha1, hfev, decEv, hps', hd.1, hd.2] <;>
        simp [postArgs]
    | any =>
      have hd := dec_postArgs .any pv hev
      cases b.post.res <;> simp [flat, List.map_append, hpev, ha1, hfev, decEv, hps', hd.1, hd.2] <;>
        simp [postArgs]

/-- **Every style mix, decoded, is the method-style node**: same events with the same payloads at every
    callback, same context afterwards, same outcome — for every configuration, base script with plain
    payloads, and context. -/
theorem run_flat (hb : PlainScript b) (ctx : Ctx) :
    (runLeaf kind n v sid cfg (encScript cfg b) ctx).1.map (decEv cfg) = (runLeaf kind n v sid (flatCfg cfg) b ctx).1 ∧
    (runLeaf kind n v sid cfg (encScript cfg b) ctx).2 = (runLeaf kind n v sid (flatCfg cfg) b ctx).2 := by
  cases ctx with
  | done k => simp [runLeaf]
  | live =>
    rw [runLeaf_live_eq, runLeaf_live_eq]
    have hp : (flatCfg cfg).prepS = flat cfg.prepS := rfl
    by_cases hpa : cfg.prepS = .absent
    · have hpa' : flat cfg.prepS = .absent := (flat_absent _).mpr hpa
      rw [if_pos hpa, hp, if_pos hpa']
      exact afterPrep_flat kind n v sid cfg b hb [] rfl Val.nil rfl
    · have hpa' : ¬ flat cfg.prepS = .absent := fun h => hpa ((flat_absent _).mp h)
      rw [if_neg hpa, hp, if_neg hpa']
      have hres : (encScript cfg b).prep.res = b.prep.res.map (enc cfg.prepS) := rfl
      have hcan : (encScript cfg b).prep.cancels = b.prep.cancels := rfl
      rw [hres, hcan]
      cases hr : b.prep.res with
      | error e => simp [Except.map, decEv]
      | ok x =>
        simp only [Except.map, prepRet_enc, prepRet_flat]
        cases b.prep.cancels with
        | true => simp [decEv]
        | false =>
          simp only [Bool.false_eq_true, if_false]
          exact afterPrep_flat kind n v sid cfg b hb [.prep n v sid] rfl x (hb.prep x hr)

end run

/-! ### batch items -/
section item
open Flyt.Proofs.Item

def encItem (s : Style) (b : ItemScript) : ItemScript :=
  { exec := fun k => encOut s (b.exec k), waitCancel := b.waitCancel, fb := b.fb }

/-- the payload the exec function of a batch item observes, read out of its argument -/
def decB (s : Style) : Ev → Ev
  | .bexec n v i k a => .bexec n v i k (dec s a)
  | e => e

theorem dec_item (s : Style) (hs : s = .res ∨ s = .any) (item : Result) : dec s (execArg s item.box) = item.valueOf := by
  rcases hs with rfl | rfl <;> simp [dec, execArg, Result.box, Val.asResult?, toResult]

/-- **a Result-style and an Any-style exec function of a batch node are interchangeable**: the run of
    item `i` with a function of style `s` (returning `NewResult(x)` where the base script says `x`),
    decoded, is the run with the Any-style function — same calls, same item payload, same slot / error. -/
theorem item_flat (kind : CtxKind) (n v : Nat) (cfg : BatchCfg) (i : Nat) (item : Result) (b : ItemScript) (ctx : Ctx)
    (hs : cfg.execS = .res ∨ cfg.execS = .any) :
    (runItem kind n v cfg i item (encItem cfg.execS b) ctx).1.map (decB cfg.execS) =
      (runItem kind n v { cfg with execS := .any } i item b ctx).1 ∧
    (runItem kind n v cfg i item (encItem cfg.execS b) ctx).2 = (runItem kind n v { cfg with execS := .any } i item b ctx).2 := by
  have hatt := attempts_map kind (decB cfg.execS)
    (mkExec := itemExec n v i (execArg cfg.execS item.box)) (mkExec' := itemExec n v i (execArg .any item.box))
    (mkWait := itemWait n v i cfg.wait) (mkWait' := itemWait n v i cfg.wait)
    (exec := (encItem cfg.execS b).exec) (exec' := b.exec) (s := cfg.execS) (s' := .any)
    (by
      intro k
      simp only [itemExec, decB, dec_item _ hs]
      simp [execArg, Result.box, Val.asResult?])
    (by intro k f; rfl) (by rcases hs with h | h <;> simp [h]) (by intro k; rfl)
    (by
      intro k
      simp only [encItem, encOut]
      cases (b.exec k).res with
      | error e => rfl
      | ok x => simp [Except.map, execRet_enc]; rfl)
    b.waitCancel cfg.wait cfg.budget 0 none ctx
  rw [runItem_eq, runItem_eq]
  unfold itemPhase execPhase
  have hsfb : (encItem cfg.execS b).fb = b.fb := rfl
  have hswc : (encItem cfg.execS b).waitCancel = b.waitCancel := rfl
  simp only [hsfb, hswc]
  obtain ⟨ha1, ha2⟩ := hatt
  generalize attempts kind (itemExec n v i (execArg cfg.execS item.box)) (itemWait n v i cfg.wait)
    (encItem cfg.execS b).exec b.waitCancel cfg.execS cfg.wait 0 cfg.budget none ctx = A at ha1 ha2
  generalize attempts kind (itemExec n v i (execArg .any item.box)) (itemWait n v i cfg.wait)
    b.exec b.waitCancel .any cfg.wait 0 cfg.budget none ctx = A' at ha1 ha2
  obtain ⟨aev, actx, ares⟩ := A
  obtain ⟨aev', actx', ares'⟩ := A'
  simp only [Prod.mk.injEq] at ha2
  obtain ⟨hctx, hres⟩ := ha2
  simp only at ha1
  subst hctx hres
  generalize hF : fallbackPhase kind cfg.fb (itemFb n v i item.box) b.fb actx ares = F
  obtain ⟨fev, fctx, fres⟩ := F
  have hfev : fev.map (decB cfg.execS) = fev := by
    cases ares <;> cases hfb : cfg.fb <;> cases hfr : b.fb.res <;>
      simp [fallbackPhase, hfb, hfr] at hF <;> (obtain ⟨h1, _, _⟩ := hF; subst h1; simp [decB, itemFb])
  simp [List.map_append, ha1, hfev]

end item

end Flyt.Proofs.Styles
