import FlytModel.Proofs.L.Leaf
/-!
# From the closed form of a leaf run to the executable predicates of `Spec/Flow.lean`

`split_of_parts` computes `Spec.split` on a segment of the shape prep* exec* fb* post* (wait events
anywhere); the `c01Visit_…`, `c01Outcome_…`, `c02Visit_…`, `c17Visit_…` lemmas evaluate the driver's
predicates on every `LeafRun`.
-/
namespace Flyt.Proofs.LeafSpec
open Flyt Flyt.Spec Flyt.Proofs.Attempts Flyt.Proofs.Leaf

theorem takeWhile_dropWhile_append {α : Type} (p : α → Bool) :
    ∀ (A B : List α), (∀ a ∈ A, p a = true) → (∀ b ∈ B, p b = false) →
      (A ++ B).takeWhile p = A ∧ (A ++ B).dropWhile p = B
  | [], [], _, _ => by simp
  | [], b :: B, _, hB => by simp [hB b (by simp)]
  | a :: A, B, hA, hB => by
    have ih := takeWhile_dropWhile_append p A B (fun x hx => hA x (by simp [hx])) hB
    have ha := hA a (by simp)
    simp [ha, ih.1, ih.2]

/-- `Spec.split` on a segment whose non-wait events are: prep events, exec events, fallback events,
    post events, in this order. -/
theorem split_of_parts {seg P E F Q : List Ev} (h : noWaits seg = P ++ E ++ F ++ Q)
    (hP : ∀ e ∈ P, isPrepEv e = true)
    (hE : ∀ e ∈ E, isExecEv e = true ∧ isPrepEv e = false)
    (hF : ∀ e ∈ F, isFbEv e = true ∧ isExecEv e = false ∧ isPrepEv e = false)
    (hQ : ∀ e ∈ Q, isPostEv e = true ∧ isFbEv e = false ∧ isExecEv e = false ∧ isPrepEv e = false) :
    split seg = { preps := P, execs := E, fbs := F, posts := Q, rest := [] } := by
  have h1 := takeWhile_dropWhile_append isPrepEv P (E ++ F ++ Q) hP (by
    intro b hb
    simp only [List.mem_append] at hb
    rcases hb with (hb | hb) | hb
    · exact (hE b hb).2
    · exact (hF b hb).2.2
    · exact (hQ b hb).2.2.2)
  have h2 := takeWhile_dropWhile_append isExecEv E (F ++ Q) (fun e he => (hE e he).1) (by
    intro b hb
    simp only [List.mem_append] at hb
    rcases hb with hb | hb
    · exact (hF b hb).2.1
    · exact (hQ b hb).2.2.1)
  have h3 := takeWhile_dropWhile_append isFbEv F Q (fun e he => (hF e he).1) (fun b hb => (hQ b hb).2.1)
  have h4 := takeWhile_dropWhile_append isPostEv Q [] (fun e he => (hQ e he).1) (by simp)
  simp only [List.append_nil] at h4
  unfold split
  simp only [h]
  have e1 : P ++ E ++ F ++ Q = P ++ (E ++ F ++ Q) := by simp [List.append_assoc]
  rw [e1, h1.1, h1.2]
  have e2 : E ++ F ++ Q = E ++ (F ++ Q) := by simp [List.append_assoc]
  rw [e2, h2.1, h2.2, h3.1, h3.2, h4.1, h4.2]

/-- the predicates ignore wait events: they may be evaluated on a trace or on its `noWaits` -/
theorem split_noWaits (l : List Ev) : split (noWaits l) = split l := by
  unfold split
  have : noWaits (noWaits l) = noWaits l := by unfold noWaits; rw [List.filter_filter]; simp
  simp only [this]

theorem c01Visit_noWaits (cfg : LeafCfg) (scr : LeafScript) (n v : Nat) (l : List Ev) :
    c01Visit cfg scr n v (noWaits l) = c01Visit cfg scr n v l := by
  unfold c01Visit; rw [split_noWaits]
theorem c01Outcome_noWaits (cfg : LeafCfg) (scr : LeafScript) (l : List Ev) (o : Outcome) :
    c01Outcome cfg scr (noWaits l) o = c01Outcome cfg scr l o := by
  unfold c01Outcome; rw [split_noWaits]
theorem c02Visit_noWaits (cfg : LeafCfg) (scr : LeafScript) (l : List Ev) :
    c02Visit cfg scr (noWaits l) = c02Visit cfg scr l := by
  unfold c02Visit; rw [split_noWaits]
theorem c17Visit_noWaits (cfg : LeafCfg) (scr : LeafScript) (l : List Ev) :
    c17Visit cfg scr (noWaits l) = c17Visit cfg scr l := by
  unfold c17Visit; rw [split_noWaits]
theorem c02Bounds_noWaits (cfg : LeafCfg) (scr : LeafScript) (l : List Ev) :
    c02Bounds cfg scr (noWaits l) = c02Bounds cfg scr l := by
  unfold c02Bounds; rw [split_noWaits]

section
variable {kind : CtxKind} {n v : Nat} {cfg : LeafCfg} {scr : LeafScript}

/-- `Spec.split` of a completed leaf run -/
theorem split_ran {sid : Nat} {pv : Val} {loop fbs posts : List Ev} {m : Nat} {res : Except ErrRoot Val} {out : Outcome}
    (hl : noWaits loop = (List.range m).map (leafExec n v (execArg cfg.execS pv)))
    (he : PhaseEnd (leafFb n v pv) scr.exec cfg.execS cfg.effBudget cfg.fb scr.fb m fbs res)
    (hp : PostEnd n v sid cfg scr pv res posts out) :
    split (preEvs n v sid cfg ++ loop ++ fbs ++ posts) =
      { preps := preEvs n v sid cfg, execs := (List.range m).map (leafExec n v (execArg cfg.execS pv)),
        fbs := fbs, posts := posts, rest := [] } := by
  apply split_of_parts
  · have hpre : noWaits (preEvs n v sid cfg) = preEvs n v sid cfg := by
      unfold preEvs; split <;> simp [noWaits, Ev.isWait]
    have hf : noWaits fbs = fbs := by
      rcases phaseEnd_fbs he with h | ⟨e, h⟩ <;> simp [h, noWaits, Ev.isWait]
    have hq : noWaits posts = posts := by
      rcases postEnd_posts hp with h | ⟨a, b, h⟩ <;> simp [h, noWaits, Ev.isWait]
    simp only [noWaits_append, hpre, hl, hf, hq]
  · intro e he'
    unfold preEvs at he'
    split at he' <;> simp at he'
    subst he'; rfl
  · intro e he'
    simp only [List.mem_map] at he'
    obtain ⟨j, _, rfl⟩ := he'
    exact ⟨rfl, rfl⟩
  · intro e he'
    rcases phaseEnd_fbs he with h | ⟨e0, h⟩ <;> simp [h] at he'
    subst he'; exact ⟨rfl, rfl, rfl⟩
  · intro e he'
    rcases postEnd_posts hp with h | ⟨a, b, h⟩ <;> simp [h] at he'
    subst he'; exact ⟨rfl, rfl, rfl, rfl⟩

/-- the spec's reading of "the exec phase produced a result" agrees with the exec phase's result -/
theorem produced_of_end {pv : Val} {fbs P Q R : List Ev} {m : Nat} {res : Except ErrRoot Val}
    (he : PhaseEnd (leafFb n v pv) scr.exec cfg.execS cfg.effBudget cfg.fb scr.fb m fbs res) :
    produced cfg scr { preps := P, execs := (List.range m).map (leafExec n v (execArg cfg.execS pv)),
                       fbs := fbs, posts := Q, rest := R } =
      (match res with | .ok x => some x | .error _ => none) := by
  cases he with
  | noExec h => simp [produced, h]
  | @success j y hj hS hy => simp [produced, okVal, hy]
  | @cancelled m kd hm hS hl =>
    cases m with
    | zero =>
      have : ¬ (cfg.execS = .absent ∨ cfg.effBudget = 0) := by
        intro h; rcases h with h | h
        · exact hS h
        · omega
      simp [produced, this]
    | succ j =>
      obtain ⟨e, he⟩ := hl j rfl
      simp [produced, okVal, he]
  | @exhausted j e hj he hne => simp [produced, okVal, he]
  | @fbOk j e x hj he hc hx => simp [produced, okVal, hx]
  | @fbErr j e e' hj he hc hx => simp [produced, okVal, hx]

/-- what the spec predicates can tell from the events alone: when prep itself cancels the context the
    run stops after prep; `Spec.produced` reads "no exec event" as "exec phase skipped, result nil"
    for nodes without an exec phase, so such nodes are outside the predicates' domain. -/
def PrepCancelVisible (cfg : LeafCfg) (scr : LeafScript) : Prop :=
  cfg.prepS ≠ .absent → scr.prep.cancels = true → (okVal scr.prep).isSome → cfg.execS ≠ .absent ∧ cfg.effBudget ≠ 0

theorem split_prepOnly (sid : Nat) :
    split [Ev.prep n v sid] = { preps := [Ev.prep n v sid], execs := [], fbs := [], posts := [], rest := [] } := by
  exact split_of_parts (P := [Ev.prep n v sid]) (E := []) (F := []) (Q := []) (by simp [noWaits, Ev.isWait])
    (by intro e he; simp at he; subst he; rfl) (by simp) (by simp) (by simp)

/-- **C01 bridge**: the driver's per-visit predicate holds on every run of the model -/
theorem c01Visit_of_leafRun {evs : List Ev} {out : Outcome} (h : LeafRun kind n v 0 cfg scr evs out)
    (hA : PrepCancelVisible cfg scr) : c01Visit cfg scr n v evs = true := by
  cases h with
  | @prepFailed e hp hr =>
    simp [c01Visit, split_prepOnly, prepValue, hp, okVal, hr]
  | @prepCancelled x hp hr hc =>
    obtain ⟨h1, h2⟩ := hA hp hc (by simp [okVal, hr])
    simp [c01Visit, split_prepOnly, prepValue, hp, okVal, hr, produced, h1, h2]
  | @ran pv loop fbs posts m res out hpv hc hl hk hle hfb he hpost =>
    unfold c01Visit
    rw [split_ran hl he hpost]
    simp only [hpv, produced_of_end he]
    have hpre : (preEvs n v 0 cfg == if cfg.prepS = .absent then [] else [Ev.prep n v 0]) = true := by
      simp [preEvs]
    simp only [hpre, List.isEmpty_nil, List.length_map, List.length_range, Bool.true_and, beq_self_eq_true]
    rcases phaseEnd_fbs he with rfl | ⟨e, rfl⟩
    · cases hpost with
      | failed => simp
      | noPost hps => simp [hps]
      | postErr hps hr => simp [hps]
      | postOk hps hr => simp [hps]
    · cases hpost with
      | failed => simp
      | noPost hps => simp [hps]
      | postErr hps hr => simp [hps]
      | postOk hps hr => simp [hps]

/-- **C01 bridge, last sentence**: action xor error, as the driver judges it -/
theorem c01Outcome_of_leafRun {evs : List Ev} {out : Outcome} (h : LeafRun kind n v 0 cfg scr evs out)
    (hA : PrepCancelVisible cfg scr) : c01Outcome cfg scr evs out = true := by
  cases h with
  | @prepFailed e hp hr =>
    simp [c01Outcome, split_prepOnly, prepValue, hp, okVal, hr]
  | @prepCancelled x hp hr hc =>
    obtain ⟨h1, h2⟩ := hA hp hc (by simp [okVal, hr])
    simp [c01Outcome, split_prepOnly, prepValue, hp, okVal, hr, produced, h1, h2]
  | @ran pv loop fbs posts m res out hpv hc hl hk hle hfb he hpost =>
    unfold c01Outcome
    rw [split_ran hl he hpost]
    simp only [hpv, produced_of_end he]
    cases hpost with
    | failed => simp
    | noPost hps => simp [hps, defaultAction]
    | postErr hps hr => simp [hps, okVal, hr]
    | postOk hps hr => simp [hps, okVal, hr, norm_ne_empty]

/-! ### C02 -/

theorem find_firstOk {exec : Nat → Out Val} {N k : Nat} (hk : FirstOk exec k) (hlt : k < N) :
    (List.range N).find? (fun k => (okVal (exec k)).isSome) = some k := by
  rw [List.find?_range_eq_some]
  obtain ⟨⟨y, hy⟩, hb⟩ := hk
  refine ⟨by simp [okVal, hy], by simpa using hlt, ?_⟩
  intro j hj
  obtain ⟨e, he⟩ := hb j hj
  simp [okVal, he]

theorem find_allFail {exec : Nat → Out Val} {N : Nat} (h : AllFail exec N) :
    (List.range N).find? (fun k => (okVal (exec k)).isSome) = none := by
  rw [List.find?_range_eq_none]
  intro j hj
  obtain ⟨e, he⟩ := h j hj
  simp [okVal, he]

/-- a script either has a first success below `N` or fails `N` times -/
theorem firstOk_or_allFail (exec : Nat → Out Val) (N : Nat) :
    (∃ k, k < N ∧ FirstOk exec k) ∨ AllFail exec N := by
  cases h : (List.range N).find? (fun k => (okVal (exec k)).isSome) with
  | some k =>
    left
    rw [List.find?_range_eq_some] at h
    obtain ⟨h1, h2, h3⟩ := h
    refine ⟨k, by simpa using h2, ?_, ?_⟩
    · cases hr : (exec k).res with
      | ok y => exact ⟨y, rfl⟩
      | error e => simp [okVal, hr] at h1
    · intro j hj
      have := h3 j hj
      cases hr : (exec j).res with
      | ok y => simp [okVal, hr] at this
      | error e => exact ⟨e, rfl⟩
  | none =>
    right
    rw [List.find?_range_eq_none] at h
    intro j hj
    have := h j hj
    cases hr : (exec j).res with
    | ok y => simp [okVal, hr] at this
    | error e => exact ⟨e, rfl⟩

theorem headD_execs (m : Nat) (hm : 0 < m) (f : Nat → Ev) (d : Ev) : ((List.range m).map f).headD d = f 0 := by
  cases m with
  | zero => omega
  | succ j => simp [List.range_succ_eq_map]

/-- **C02 bridge**: the driver's per-visit predicate holds on every run that was not cut short by
    cancellation -/
theorem c02Visit_of_leafRun {sid : Nat} {evs : List Ev} {out : Outcome} (h : LeafRun kind n v sid cfg scr evs out)
    (hnc : ∀ kd, out ≠ .err (.ctx kd)) : c02Visit cfg scr evs = true := by
  cases h with
  | @prepFailed e hp hr =>
    simp [c02Visit, split_prepOnly, prepValue, hp, okVal, hr]
  | @prepCancelled x hp hr hc => exact absurd rfl (hnc kind)
  | @ran pv loop fbs posts m res out hpv hc hl hk hle hfb he hpost =>
    unfold c02Visit
    rw [split_ran hl he hpost]
    simp only [hpv]
    by_cases h0 : cfg.effBudget = 0 ∨ cfg.execS = .absent
    · simp [h0]
    · rw [if_neg h0]
      have hS : cfg.execS ≠ .absent := fun h => h0 (Or.inr h)
      have hN : 0 < cfg.effBudget := by
        rcases Nat.eq_zero_or_pos cfg.effBudget with h | h
        · exact absurd (Or.inl h) h0
        · exact h
      have hncr : ∀ kd, res ≠ .error (.ctx kd) := by
        intro kd hres
        subst hres
        cases hpost
        exact hnc kd rfl
      have spec : PhaseSpec (leafExec n v (execArg cfg.execS pv)) (leafWait n v cfg.effWait) (leafFb n v pv)
          scr.exec cfg.execS cfg.effBudget cfg.fb scr.fb (loop ++ fbs, Ctx.live, res) loop fbs m :=
        ⟨rfl, hl, hk, hle, hfb, he⟩
      rcases firstOk_or_allFail scr.exec cfg.effBudget with ⟨k, hkN, hk1⟩ | hall
      · have hm : m = min (k + 1) cfg.effBudget := spec.count_firstOk hS hncr hk1
        have hm' : m = k + 1 := by omega
        subst hm'
        have hfind := find_firstOk hk1 hkN
        obtain ⟨⟨y, hy⟩, _⟩ := hk1
        simp only [hfind, List.length_map, List.length_range, beq_self_eq_true, Bool.true_and,
          Option.isNone_some, Bool.false_eq_true, false_and, if_false]
        generalize hm2 : k + 1 = m2 at he
        cases he with
        | noExec h => omega
        | @success j y' hj _ hy' =>
          have : j = k := by omega
          subst this
          rw [hy] at hy'; cases hy'
          cases hpost with
          | noPost hps => simp
          | postErr hps hr => simp [okVal, hy]
          | postOk hps hr => simp [okVal, hy]
        | cancelled => exact absurd rfl (hncr _)
        | @exhausted j e hj he' _ =>
          have : j = k := by omega
          subst this; rw [hy] at he'; cases he'
        | @fbOk j e x hj he' _ _ =>
          have : j = k := by omega
          subst this; rw [hy] at he'; cases he'
        | @fbErr j e e' hj he' _ _ =>
          have : j = k := by omega
          subst this; rw [hy] at he'; cases he'
      · have hm : m = cfg.effBudget := spec.count_allFail hS hncr hall
        simp only [find_allFail hall, List.length_map, List.length_range, hm, beq_self_eq_true, Bool.true_and,
          Option.isNone_none, true_and]
        generalize hm2 : m = m2 at he
        cases he with
        | noExec h => omega
        | @success j y hj _ hy => obtain ⟨e, he⟩ := hall j hj; rw [hy] at he; cases he
        | cancelled => exact absurd rfl (hncr _)
        | @exhausted j e hj he' hne =>
          cases hpost
          simp [hne]
        | @fbOk j e x hj he' hcu hx =>
          have hj' : cfg.effBudget - 1 = j := by omega
          have hh : (List.range cfg.effBudget).head? = some 0 := by
            rw [List.head?_range, if_neg (by omega)]
          cases hpost with
          | noPost hps => simp [hcu, hj', errOf, he', hh, evKey]
          | postErr hps hr => simp [hcu, hj', errOf, he', hh, evKey, okVal, hx]
          | postOk hps hr => simp [hcu, hj', errOf, he', hh, evKey, okVal, hx]
        | @fbErr j e e' hj he' hcu hx =>
          have hj' : cfg.effBudget - 1 = j := by omega
          have hh : (List.range cfg.effBudget).head? = some 0 := by
            rw [List.head?_range, if_neg (by omega)]
          cases hpost
          simp [hcu, hj', errOf, he', hh, evKey]

/-! ### C02, the clauses that hold under every pattern of cancellation -/

/-- `Spec.c02Bounds` evaluated on the parts of a segment: at most `N` exec events, every attempt but the last
    failed, and the fallback events are none or one call justified by `N` failed attempts -/
theorem c02Bounds_of_parts {seg P E F Q R : List Ev}
    (hs : split seg = { preps := P, execs := E, fbs := F, posts := Q, rest := R })
    (hle : E.length ≤ cfg.effBudget)
    (hfail : ∀ j, j + 1 < E.length → ∃ e, (scr.exec j).res = .error e)
    (hF : F = [] ∨ ∃ a pv e, F = [Ev.fb n v a (.user e)] ∧ a = pv ∧ cfg.fb = .custom ∧ 1 ≤ cfg.effBudget ∧
      E.length = cfg.effBudget ∧ AllFail scr.exec cfg.effBudget ∧ prepValue cfg scr = some pv ∧
      (scr.exec (cfg.effBudget - 1)).res = .error e) :
    c02Bounds cfg scr seg = true := by
  have hall : ∀ M, (∀ j, j < M → ∃ e, (scr.exec j).res = .error e) →
      (List.range M).all (fun k => (okVal (scr.exec k)).isNone) = true := by
    intro M hM
    rw [List.all_eq_true]
    intro k hk
    obtain ⟨e, he⟩ := hM k (by simpa using hk)
    simp [okVal, he]
  have h2 := hall (E.length - 1) (fun j hj => hfail j (by omega))
  unfold c02Bounds
  simp only [hs]
  rcases hF with rfl | ⟨a, pv, e, rfl, rfl, hc, h1, hm, haf, hpv, he⟩
  · simp [hle, h2]
  · have h3 := hall cfg.effBudget haf
    rw [hm] at h2
    simp [hm, h2, h3, hc, h1, hpv, errOf, he]

/-- **C02 bridge, cancellation-proof clauses**: `Spec.c02Bounds` holds on EVERY run of a leaf node on a live
    context — whatever cancels the context when (no hypothesis on the script or the configuration) -/
theorem c02Bounds_of_leafRun {sid : Nat} {evs : List Ev} {out : Outcome} (h : LeafRun kind n v sid cfg scr evs out) :
    c02Bounds cfg scr evs = true := by
  cases h with
  | @prepFailed e hp hr =>
    exact c02Bounds_of_parts (n := n) (v := v) (split_prepOnly sid) (by simp) (by simp) (Or.inl rfl)
  | @prepCancelled x hp hr hc =>
    exact c02Bounds_of_parts (n := n) (v := v) (split_prepOnly sid) (by simp) (by simp) (Or.inl rfl)
  | @ran pv loop fbs posts m res out hpv hc hl hk hle hfb he hpost =>
    refine c02Bounds_of_parts (n := n) (v := v) (split_ran hl he hpost) (by simpa using hle) (by simpa using hfb) ?_
    have hlen : ((List.range m).map (leafExec n v (execArg cfg.execS pv))).length = m := by simp
    rw [hlen]
    have fbCase : ∀ j e, j + 1 = cfg.effBudget → m = j + 1 → (scr.exec j).res = .error e → cfg.fb = .custom →
        ∃ a pv' e', [leafFb n v pv e] = [Ev.fb n v a (.user e')] ∧ a = pv' ∧ cfg.fb = .custom ∧ 1 ≤ cfg.effBudget ∧
          m = cfg.effBudget ∧ AllFail scr.exec cfg.effBudget ∧ prepValue cfg scr = some pv' ∧
          (scr.exec (cfg.effBudget - 1)).res = .error e' := by
      intro j e hj hm he' hcu
      refine ⟨pv, pv, e, rfl, rfl, hcu, by omega, by omega, ?_, hpv, ?_⟩
      · intro i hi
        by_cases hij : i = j
        · subst hij; exact ⟨e, he'⟩
        · exact hfb i (by omega)
      · have : cfg.effBudget - 1 = j := by omega
        rw [this]; exact he'
    generalize hm2 : m = m2 at he
    cases he with
    | noExec h => exact Or.inl rfl
    | success => exact Or.inl rfl
    | cancelled => exact Or.inl rfl
    | exhausted => exact Or.inl rfl
    | @fbOk j e x hj he' hcu hx => rw [← hm2]; exact Or.inr (fbCase j e hj hm2 he' hcu)
    | @fbErr j e e' hj he' hcu hx => rw [← hm2]; exact Or.inr (fbCase j e hj hm2 he' hcu)

end

end Flyt.Proofs.LeafSpec
