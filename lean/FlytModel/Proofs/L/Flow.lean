import FlytModel.Proofs.L.Leaf
/-!
# Helper lemmas about `runNode` / `flowLoop` (C01 "inside a flow", C18)
-/
namespace Flyt.Proofs.Flow
open Flyt Flyt.Spec Flyt.Proofs.Attempts Flyt.Proofs.Leaf

/-- what a caller of `Run` may see: a non-empty action, or an error — never `("", nil)`, never an
    action together with an error (`fuel` is the model's own "recursion budget exhausted" marker) -/
def Good : Outcome → Prop
  | .ok a => a ≠ ""
  | .err _ => True
  | .both _ _ => False
  | .fuel => True

theorem good_iff_c18 (o : Outcome) (tr : List Ev) (st : List Nat) : Good o ↔ c18 ⟨tr, o, st⟩ = true := by
  cases o <;> simp [Good, c18]

/-- a run of a plain / function-style node reports a non-empty action or an error -/
theorem runLeaf_good (kind : CtxKind) (n v sid : Nat) (cfg : LeafCfg) (scr : LeafScript) (ctx : Ctx) :
    Good (runLeaf kind n v sid cfg scr ctx).2.2 := by
  cases ctx with
  | done k => simp [runLeaf, Good]
  | live =>
    have hs := runLeaf_live_spec kind n v sid cfg scr
    generalize (runLeaf kind n v sid cfg scr .live).1 = evs at hs
    generalize (runLeaf kind n v sid cfg scr .live).2.2 = out at hs
    cases hs with
    | prepFailed => trivial
    | prepCancelled => trivial
    | ran _ _ _ _ _ _ _ hpost =>
      cases hpost with
      | failed => trivial
      | noPost => simp [Good, defaultAction]
      | postErr => trivial
      | postOk => exact norm_ne_empty _

/-- a run of a batch node — also one whose prep produced no items — reports a non-empty action or an error -/
theorem runBatch_good (kind : CtxKind) (n v sid : Nat) (cfg : BatchCfg) (scr : BatchScript) (ctx : Ctx) :
    Good (runBatch kind n v sid cfg scr ctx).2.2 := by
  unfold runBatch
  cases hp : scr.prep.res with
  | error e => simp [Good]
  | ok l =>
    cases hpost : scr.post.res with
    | error e =>
      cases hh : cfg.hasPost <;> cases he : (normItems cfg.shape l).isEmpty <;> simp [Good, defaultAction, he]
    | ok a' =>
      cases hh : cfg.hasPost <;> cases he : (normItems cfg.shape l).isEmpty <;>
        simp [Good, defaultAction, norm_ne_empty, he]

/-- **C18, the induction**: neither `Run` on any node of any arena nor the loop of `Flow.Exec`
    ever yields `ok ""` (or an action together with an error), for every fuel (nesting depth / path length). -/
theorem run_good (env : Env) : ∀ fuel : Nat,
    (∀ id sid st, Good (runNode env fuel id sid st).2.2) ∧
    (∀ tbl cur sid st, Good (flowLoop env fuel tbl cur sid st).2.2) := by
  intro fuel
  induction fuel with
  | zero => constructor <;> intros <;> simp [runNode, flowLoop, Good]
  | succ fuel ih =>
    constructor
    · intro id sid st
      unfold runNode
      split
      · exact runLeaf_good _ _ _ _ _ _ _
      · exact runBatch_good _ _ _ _ _ _ _
      · split
        · trivial
        · split
          · trivial
          · split
            · exact norm_ne_empty _
            · exact ih.2 _ _ _ _
    · intro tbl cur sid st
      unfold flowLoop
      split
      · trivial
      · split
        · rename_i evs st' a' hrun
          have hne : Good (Outcome.ok a') := by
            have := ih.1 cur sid st
            rwa [hrun] at this
          split
          · exact ih.2 _ _ _ _
          · exact hne
        · exact ih.1 _ _ _

/-- `Run` on a plain / function-style node of the arena — standalone or as a step of a flow — *is*
    `runLeaf` with the node's next script and the current context -/
theorem runNode_leaf (env : Env) (fuel : Nat) (id : NodeId) (sid : StoreId) (st : RunSt) (cfg : LeafCfg)
    (h : env.arena id = .leaf cfg) :
    runNode env (fuel + 1) id sid st =
      ((runLeaf env.kind id (st.visits id) sid cfg (env.leafBeh id (st.visits id)) st.ctx).1,
       { (st.bumpIf (!(runLeaf env.kind id (st.visits id) sid cfg (env.leafBeh id (st.visits id)) st.ctx).1.isEmpty) id)
           with ctx := (runLeaf env.kind id (st.visits id) sid cfg (env.leafBeh id (st.visits id)) st.ctx).2.1 },
       (runLeaf env.kind id (st.visits id) sid cfg (env.leafBeh id (st.visits id)) st.ctx).2.2) := by
  unfold runNode
  rw [h]

theorem runNode_batch (env : Env) (fuel : Nat) (id : NodeId) (sid : StoreId) (st : RunSt) (cfg : BatchCfg)
    (h : env.arena id = .batch cfg) :
    runNode env (fuel + 1) id sid st =
      ((runBatch env.kind id (st.visits id) sid cfg (env.batchBeh id (st.visits id)) st.ctx).1,
       { (st.bumpIf (!(runBatch env.kind id (st.visits id) sid cfg (env.batchBeh id (st.visits id)) st.ctx).1.isEmpty) id)
           with ctx := (runBatch env.kind id (st.visits id) sid cfg (env.batchBeh id (st.visits id)) st.ctx).2.1 },
       (runBatch env.kind id (st.visits id) sid cfg (env.batchBeh id (st.visits id)) st.ctx).2.2) := by
  unfold runNode
  rw [h]

end Flyt.Proofs.Flow
